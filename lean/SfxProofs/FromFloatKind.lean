import SfxProofs.FromFloatLemmas
/-
  FromFloatKind.lean — structure of `to_float_kind` (model: `toFloatKind`) and what a `finite neg conv` kind says about the
  exact grid value (core Lean only).  Valid for every float format with `1 ≤ prec`, `prec + 2 ≤ nbits ≤ 128`.
-/
namespace Sfx.FromFloatPf
open Sfx.ConvPf

/-- mantissa with the implicit bit (normal) or without (subnormal) -/
def mant1Of (F : FloatFmt) (b : Nat) : Nat :=
  if (F.parts b).2.1 ≥ F.expMin then (F.parts b).2.2 + 2 ^ (F.prec - 1) else (F.parts b).2.2
/-- exponent, clamped below at the exponent of the smallest normal -/
def exp1Of (F : FloatFmt) (b : Nat) : Int :=
  if (F.parts b).2.1 ≥ F.expMin then (F.parts b).2.1 else F.expMin

/-- the part of `to_float_kind` after the mantissa and exponent are fixed (copied from the model) -/
def finCore (F : FloatFmt) (neg : Bool) (mant1 : Nat) (exp : Int) (dstFrac dstInt : Nat) : FloatKind :=
    if mant1 = 0 then .finite false ⟨false, 0, 0, false⟩
    else
      let srcFrac0 : Int := (F.prec : Int) - 1 - exp
      let needShr : Int := srcFrac0 - dstFrac
      if needShr > F.prec then .finite neg ⟨false, 0, if neg then 1 else -1, false⟩
      else
        let (mant2, dir0, srcFrac) : Nat × Int × Int :=
          if needShr > 0 then
            let k := needShr.toNat
            let removed := mant1 % 2 ^ k
            let willBeLsb := 2 ^ k
            let tie := willBeLsb / 2
            let (m, d) : Nat × Int :=
              if removed = 0 then (mant1, 0)
              else if removed < tie then (mant1, -1)
              else if removed > tie || decide (mant1 / willBeLsb % 2 = 1) then (mant1 + willBeLsb, 1)
              else (mant1, -1)
            (m / 2 ^ k, d, srcFrac0 - needShr)
          else (mant1, 0, srcFrac0)
        let m : Int := wrapS F.nbits mant2                        -- `mantissa as $IBits`
        let (m, dir) : Int × Int := if neg then (-m, -dir0) else (m, dir0)
        let conv := toFixedHelper true F.nbits m srcFrac dstFrac dstInt
        .finite neg { conv with dir := dir }

theorem kind_nonfinite (F : FloatFmt) (b df di : Nat) (h : (F.parts b).2.1 > F.expMax) :
    toFloatKind F b df di = if (F.parts b).2.2 = 0 then .infinite (F.parts b).1 else .nan := by
  unfold toFloatKind
  simp only []
  rw [if_pos h]

theorem kind_finite (F : FloatFmt) (b df di : Nat) (h : ¬ (F.parts b).2.1 > F.expMax) :
    toFloatKind F b df di = finCore F (F.parts b).1 (mant1Of F b) (exp1Of F b) df di := by
  unfold toFloatKind mant1Of exp1Of
  simp only []
  rw [if_neg h]
  by_cases c : (F.parts b).2.1 ≥ F.expMin
  · simp only [if_pos c]; rfl
  · simp only [if_neg c]; rfl

/-- sign applied to a magnitude -/
def sgn (neg : Bool) (x : Int) : Int := if neg then -x else x

theorem finCore_tiny (F : FloatFmt) (neg : Bool) (M : Nat) (e : Int) (df di : Nat) (hM : M ≠ 0)
    (h : (F.prec : Int) - 1 - e - df > F.prec) :
    finCore F neg M e df di = .finite neg ⟨false, 0, if neg then 1 else -1, false⟩ := by
  unfold finCore
  simp only []
  rw [if_neg hM, if_pos h]

/-- the `(mantissa, dir, src_frac_bits)` triple after the rounding shift (copied from the model) -/
def shiftTriple (F : FloatFmt) (mant1 : Nat) (exp : Int) (dstFrac : Nat) : Nat × Int × Int :=
      let srcFrac0 : Int := (F.prec : Int) - 1 - exp
      let needShr : Int := srcFrac0 - dstFrac
          if needShr > 0 then
            let k := needShr.toNat
            let removed := mant1 % 2 ^ k
            let willBeLsb := 2 ^ k
            let tie := willBeLsb / 2
            let (m, d) : Nat × Int :=
              if removed = 0 then (mant1, 0)
              else if removed < tie then (mant1, -1)
              else if removed > tie || decide (mant1 / willBeLsb % 2 = 1) then (mant1 + willBeLsb, 1)
              else (mant1, -1)
            (m / 2 ^ k, d, srcFrac0 - needShr)
          else (mant1, 0, srcFrac0)

theorem finCore_eq (F : FloatFmt) (neg : Bool) (M : Nat) (e : Int) (df di : Nat) (hM : M ≠ 0)
    (h : ¬ (F.prec : Int) - 1 - e - df > F.prec) :
    finCore F neg M e df di = .finite neg
      { toFixedHelper true F.nbits (sgn neg (wrapS F.nbits (shiftTriple F M e df).1)) (shiftTriple F M e df).2.2 df di with
        dir := sgn neg (shiftTriple F M e df).2.1 } := by
  unfold finCore
  simp only []
  rw [if_neg hM, if_neg h]
  cases neg <;> rfl

theorem shiftTriple_round (F : FloatFmt) (M : Nat) (e : Int) (df : Nat) (h2 : (F.prec : Int) - 1 - e - df > 0) :
    (shiftTriple F M e df).1 = rmant M ((F.prec : Int) - 1 - e - df).toNat ∧ (shiftTriple F M e df).2.2 = df := by
  unfold shiftTriple rmant
  simp only []
  rw [if_pos h2]
  refine ⟨?_, by simp only []; omega⟩
  simp only []
  congr 1
  split
  · rfl
  · split
    · rfl
    · split <;> rfl

theorem shiftTriple_exact (F : FloatFmt) (M : Nat) (e : Int) (df : Nat) (h2 : ¬ (F.prec : Int) - 1 - e - df > 0) :
    (shiftTriple F M e df).1 = M ∧ (shiftTriple F M e df).2.2 = (F.prec : Int) - 1 - e := by
  unfold shiftTriple
  simp only []
  rw [if_neg h2]
  exact ⟨rfl, rfl⟩


/-! ### what the destination needs to know about a `finite neg conv` kind -/

/-- the helper's answer `conv` and the float's sign `neg` describe the exact grid value `E` -/
structure Good (D : Layout) (E : Int) (neg : Bool) (conv : TFH) : Prop where
  hneg : conv.neg = decide (E < 0)
  hbits : wrapI D.signed D.n conv.bits = D.wrap E
  hovf : conv.overflow = (if 0 ≤ E then decide (2 ^ D.n ≤ E) else decide (E < -(2 ^ (D.n - 1))))
  hsign : (E < 0 → neg = true) ∧ (0 < E → neg = false)

theorem good_zero (D : Layout) (neg : Bool) (dir : Int) : Good D 0 neg ⟨false, 0, dir, false⟩ := by
  have : ¬ (2 : Int) ^ D.n ≤ 0 := by have := two_pow_pos D.n; omega
  refine ⟨by simp, rfl, by simp [this], by omega, by omega⟩

theorem sgn_nonneg_iff (neg : Bool) (m : Int) (hm : 0 ≤ m) : (sgn neg m < 0 → neg = true) ∧ (0 < sgn neg m → neg = false) := by
  unfold sgn
  cases neg
  · simp; omega
  · simp; omega

/-- the helper called on a signed mantissa `x = ±m` -/
theorem good_helper (N : Nat) (hN : 0 < N) (hN128 : N ≤ 128) (neg : Bool) (m : Int) (hm0 : 0 ≤ m) (hm : m < 2 ^ (N - 1))
    (srcFrac : Int) (D : Layout) (hD : D.valid) (dir : Int) :
    Good D (floorShift (sgn neg m) (srcFrac - D.f)) neg
      { toFixedHelper true N (sgn neg m) srcFrac D.f D.intBits with dir := dir } := by
  have hDn := valid_pos hD
  have hx : inI true N (sgn neg m) := by
    rw [inS_iff]; unfold sgn; cases neg <;> simp <;> omega
  have hs := sgn_nonneg_iff neg m hm0
  by_cases hx0 : sgn neg m = 0
  · rw [hx0, helper_zero]
    have : floorShift 0 (srcFrac - D.f) = 0 := by
      have a := floorShift_pos_of_nonneg 0 (srcFrac - D.f) (by omega)
      unfold floorShift at *
      split <;> simp
    rw [this]
    exact good_zero D neg dir
  · have hsum : D.f + D.intBits = D.n := by unfold Layout.intBits; have := hD.2; omega
    obtain ⟨h1, -, h3, h4⟩ := helper_spec true N hN hN128 (sgn neg m) hx hx0 srcFrac D.f D.intBits (by omega)
    rw [hsum] at h4
    generalize hx' : sgn neg m = x at *
    have hsg : (x < 0 → floorShift x (srcFrac - D.f) < 0) ∧ (0 ≤ x → 0 ≤ floorShift x (srcFrac - D.f)) :=
      ⟨floorShift_neg_of_neg _ _, floorShift_pos_of_nonneg _ _⟩
    generalize floorShift x (srcFrac - D.f) = V at *
    refine ⟨?_, h3 D.signed D.n hDn (valid_le128 hD), ?_, ?_⟩
    · show (toFixedHelper true N x srcFrac D.f D.intBits).neg = _
      rw [h1]
      by_cases hneg : x < 0
      · have := hsg.1 hneg
        simp [hneg, this]
      · have : ¬ V < 0 := by have := hsg.2 (by omega); omega
        simp [hneg, this]
    · show (toFixedHelper true N x srcFrac D.f D.intBits).overflow = _
      rw [h4]
      by_cases hpos : 0 < x
      · rw [if_pos hpos, if_pos (hsg.2 (by omega))]
      · have := hsg.1 (by omega)
        rw [if_neg hpos, if_neg (by omega)]
    · constructor
      · intro hV; apply hs.1
        by_cases c : x < 0
        · exact c
        · have := hsg.2 (by omega); omega
      · intro hV; apply hs.2
        by_cases c : 0 ≤ x
        · omega
        · have := hsg.1 (by omega); omega


/-! ### the destination side -/

theorem ovfKind_of_good (D : Layout) (hD : D.valid) (E : Int) (neg : Bool) (conv : TFH) (g : Good D E neg conv) :
    D.overflowingFromFloatKind (.finite neg conv) = .ok (D.ovf E) false := by
  unfold Layout.overflowingFromFloatKind
  simp only [pure]
  rw [g.hbits, g.hneg, g.hovf]
  have := ovf_combine D.signed D.n (valid_pos hD) E
  unfold Layout.wrap at *
  rw [this]
  rfl

theorem satKind_of_good (D : Layout) (hD : D.valid) (E : Int) (neg : Bool) (conv : TFH) (g : Good D E neg conv) :
    D.saturatingFromFloatKind (.finite neg conv) = .ok (D.clamp E) false := by
  have hc := sat_combine D.signed D.n (valid_pos hD) E
  have hpos := two_pow_pos D.n
  have hpos' := two_pow_pos (D.n - 1)
  unfold Layout.saturatingFromFloatKind
  simp only [pure]
  rw [g.hbits, g.hneg]
  unfold Layout.wrap Layout.clamp Layout.min Layout.max at *
  rw [← g.hovf] at hc
  by_cases hov : conv.overflow = true
  · rw [if_pos hov]
    rw [if_pos hov] at hc
    rw [← hc]
    have hov' := g.hovf
    rw [hov] at hov'
    by_cases hE : E < 0
    · rw [g.hsign.1 hE]; simp [hE]
    · have : 0 < E := by
        rw [if_pos (by omega)] at hov'
        have := of_decide_eq_true hov'.symm
        omega
      rw [g.hsign.2 this]; simp [hE]
  · rw [if_neg hov]
    rw [if_neg hov] at hc
    rw [← hc]
    cases hs : D.signed <;> simp


/-! ### the exact value -/

theorem floatExact_eq (F : FloatFmt) (b : Nat) :
    floatExact F b = if (F.parts b).2.1 > F.expMax then none
      else some (sgn (F.parts b).1 (mant1Of F b), exp1Of F b - ((F.prec : Int) - 1)) := by
  unfold floatExact mant1Of exp1Of sgn
  simp only []
  by_cases h : (F.parts b).2.1 > F.expMax
  · rw [if_pos h, if_pos h]
  · rw [if_neg h, if_neg h]
    by_cases c : (F.parts b).2.1 ≥ F.expMin
    · simp only [if_pos c]
    · simp only [if_neg c]

theorem rneShift_sgn (neg : Bool) (x : Int) (k : Nat) : rneShift (sgn neg x) k = sgn neg (rneShift x k) := by
  unfold sgn; cases neg
  · rfl
  · simp only [if_true]; exact rneShift_neg x k

theorem rneShift_zero (k : Nat) : rneShift 0 k = 0 := by
  by_cases hk : k = 0
  · unfold rneShift; rw [if_pos hk]
  · exact rneShift_small 0 k (by omega) (by omega) (two_pow_pos _)

theorem sgn_zero (neg : Bool) : sgn neg 0 = 0 := by unfold sgn; cases neg <;> rfl

/-- the grid value in terms of the number `ns` of mantissa bits below the grid -/
theorem rneScaled_cases (neg : Bool) (M : Nat) (ns : Int) :
    rneScaled (sgn neg M) (-ns) =
      if ns > 0 then sgn neg (rneShift M ns.toNat) else sgn neg M * 2 ^ (-ns).toNat := by
  unfold rneScaled
  by_cases h : ns > 0
  · rw [if_neg (by omega), if_pos h, rneShift_sgn]
    congr 2; omega
  · rw [if_pos (by omega), if_neg h]

/-- the kind of a finite float, and what it says about the grid value -/
theorem kind_good (F : FloatFmt) (hp : 1 ≤ F.prec) (hF : F.prec + 2 ≤ F.nbits) (hF128 : F.nbits ≤ 128) (D : Layout) (hD : D.valid) (b : Nat) (E : Int)
    (hfin : floatToGrid F b D.f = some E) :
    ∃ neg conv, toFloatKind F b D.f D.intBits = .finite neg conv ∧ Good D E neg conv := by
  unfold floatToGrid at hfin
  rw [floatExact_eq] at hfin
  by_cases hexp : (F.parts b).2.1 > F.expMax
  · rw [if_pos hexp] at hfin; simp at hfin
  rw [if_neg hexp] at hfin
  simp only [Option.map_some, Option.some.injEq] at hfin
  rw [kind_finite F b _ _ hexp]
  -- abstract the float's parts
  have hMlt : mant1Of F b < 2 ^ F.prec := by
    unfold mant1Of FloatFmt.parts
    simp only []
    have h1 : b % 2 ^ (F.prec - 1) < 2 ^ (F.prec - 1) := Nat.mod_lt _ (Nat.two_pow_pos _)
    have h2 : 2 ^ F.prec = 2 * 2 ^ (F.prec - 1) := by
      have : F.prec = (F.prec - 1) + 1 := by omega
      rw [this, Nat.pow_succ]; simp; omega
    split <;> omega
  generalize (F.parts b).1 = neg at *
  generalize mant1Of F b = M at *
  generalize exp1Of F b = e at *
  have hns : e - ((F.prec : Int) - 1) + (D.f : Int) = -((F.prec : Int) - 1 - e - D.f) := by omega
  rw [hns, rneScaled_cases] at hfin
  generalize hnsd : (F.prec : Int) - 1 - e - D.f = ns at *
  subst hfin
  have hMi : ((M : Nat) : Int) < 2 ^ F.prec := by exact_mod_cast hMlt
  have hNp : (2 : Int) ^ F.prec < 2 ^ (F.nbits - 1) := pow_lt_pow (by omega)
  by_cases hM0 : M = 0
  · subst hM0
    refine ⟨false, ⟨false, 0, 0, false⟩, by unfold finCore; rw [if_pos rfl], ?_⟩
    have : (if ns > 0 then sgn neg (rneShift ((0 : Nat) : Int) ns.toNat) else sgn neg ((0 : Nat) : Int) * 2 ^ (-ns).toNat) = 0 := by
      split <;> simp [rneShift_zero, sgn_zero]
    rw [this]; exact good_zero D false 0
  by_cases htiny : ns > F.prec
  · rw [finCore_tiny F neg M e D.f D.intBits hM0 (by rw [hnsd]; exact htiny)]
    refine ⟨neg, _, rfl, ?_⟩
    have hk : F.prec < ns.toNat := by omega
    have h2 : (2 : Int) ^ F.prec ≤ 2 ^ (ns.toNat - 1) := pow_le_pow (by omega)
    rw [if_pos (by omega), rneShift_small (M : Int) ns.toNat (by omega) (by omega) (by omega), sgn_zero]
    exact good_zero D neg _
  rw [finCore_eq F neg M e D.f D.intBits hM0 (by rw [hnsd]; exact htiny)]
  refine ⟨neg, _, rfl, ?_⟩
  by_cases hr : ns > 0
  · obtain ⟨t1, t2⟩ := shiftTriple_round F M e D.f (by rw [hnsd]; exact hr)
    rw [hnsd] at t1
    rw [t1, t2, if_pos hr, ← rmant_eq M ns.toNat (by omega)]
    have hle : ((rmant M ns.toNat : Nat) : Int) ≤ 2 ^ F.prec := by
      have := rmant_le M ns.toNat F.prec hMlt
      exact_mod_cast this
    have hw : wrapS F.nbits ((rmant M ns.toNat : Nat) : Int) = ((rmant M ns.toNat : Nat) : Int) :=
      wrapS_of_in (by omega) ((inS_iff _ _).2 (by omega))
    rw [hw]
    have := good_helper F.nbits (by omega) hF128 neg ((rmant M ns.toNat : Nat) : Int) (by omega) (by omega) (D.f : Int) D hD
      (sgn neg (shiftTriple F M e D.f).2.1)
    rw [Int.sub_self, floorShift_zero] at this
    exact this
  · obtain ⟨t1, t2⟩ := shiftTriple_exact F M e D.f (by rw [hnsd]; exact hr)
    rw [t1, t2, if_neg hr]
    have hw : wrapS F.nbits ((M : Nat) : Int) = ((M : Nat) : Int) :=
      wrapS_of_in (by omega) ((inS_iff _ _).2 (by omega))
    rw [hw]
    have := good_helper F.nbits (by omega) hF128 neg ((M : Nat) : Int) (by omega) (by omega) ((F.prec : Int) - 1 - e) D hD
      (sgn neg (shiftTriple F M e D.f).2.1)
    rw [hnsd] at this
    unfold floorShift at this
    rw [if_pos (by omega)] at this
    exact this

end Sfx.FromFloatPf
