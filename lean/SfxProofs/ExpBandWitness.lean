import SfxModel.Transcendental
/-
  ExpBandWitness.lean — import-free evaluation of the model at the non-vacuity witness of `ExpBand.lean`: `exp::<I32F32>(9.0)`
  (`4 · 9 > 32`: outside `exp_accuracy_wide`; omitted tail `≈ 3e-9 · e^9`: outside known finding D10).  `2 ^ 32` is core's `Int.pow`.
-/
namespace Sfx.ExpBandPf

/-- `exp::<I32F32>(9.0)` returns `Ok(34802480388886 / 2^32)` (≈ 8103.08391, `e^9 ≈ 8103.08393`) after 30 loop iterations -/
theorem exp9_run :
    Trans.run (Trans.exp ⟨true, 64, 32⟩ ⟨true, 64, 32⟩ (9 * 2 ^ 32)) = .ok (some 34802480388886, 30) false := by
  decide +kernel

end Sfx.ExpBandPf
