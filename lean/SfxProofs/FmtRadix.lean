import SfxProofs.FmtRadixArith
/-
  FmtRadix.lean — property C09 for the power-of-two radices: the digits produced by `fmt_radix2` (Binary, Octal,
  LowerHex, UpperHex) are the exact value, or its correct rounding (ties to even) at a requested precision.

  Level: the digit buffer after `round_and_trim`, before `encode_digits` / `pad_and_print`.
  * `radixBuf` is `fmtRadix2` up to and including `round_and_trim`; `fmtRadix2_eq_radixBuf` ties it to the model.
  * `radixDigits` reads the integer digits (from the first printed position, computed as `pad_and_print` does) and the
    fraction digits off that buffer.
  * a zero integer part is the single digit `0` (the spare leading slot of the buffer); a zero fraction is `[]`.
  * `FmtRadixBytes.lean` (`radix_bytes`) relates these lists to the slices of the encoded buffer that get printed.
  All statements were first checked with `#eval` on every 8-bit layout × value × precision none/0..9 × radix, and on
  samples of the wider primitives (both half-width shortcuts).
-/
namespace Sfx.FmtRadixPf
open Display TextSpec



theorem digs_succ_head (f : Nat → Nat) (b k : Nat) : digs f b (k + 1) = f b :: digs f (b + 1) k := by
  unfold digs
  rw [List.range_succ_eq_map, List.map_cons, List.map_map]
  congr 1
  apply List.map_congr_left
  intro j _
  simp only [Function.comp, Nat.succ_eq_add_one]
  congr 1; omega

theorem digs_succ_last (f : Nat → Nat) (b k : Nat) : digs f b (k + 1) = digs f b k ++ [f (b + k)] := by
  unfold digs; rw [List.range_succ, List.map_append]; rfl

theorem mem_digs (f : Nat → Nat) (b k d : Nat) (h : d ∈ digs f b k) : ∃ j, j < k ∧ d = f (b + j) := by
  unfold digs at h
  rw [List.mem_map] at h
  obtain ⟨j, hj, rfl⟩ := h
  exact ⟨j, List.mem_range.1 hj, rfl⟩

/-- the position of the first printed byte, as computed by `pad_and_print`, on the digit values -/
def absBeginRaw (data : Array Nat) : Nat :=
  if data.getD 0 0 ≠ 0 then 0 else if data.getD 1 0 = 46 then 0 else if data.getD 1 0 = 0 then 2 else 1

/-- integer digits (most significant first) of a finished digit buffer -/
def intList (buf : Buffer) : List Nat := (buf.data.toList.take (1 + buf.intDigits)).drop (absBeginRaw buf.data)
/-- fraction digits of a finished digit buffer -/
def fracList (buf : Buffer) : List Nat := (buf.data.toList.drop (1 + buf.intDigits + 1)).take buf.fracDigits

theorem intList_eq (I fd : Nat) (data : Array Nat) (hsz : data.size = 130) (hI : I ≤ 128) :
    intList ⟨I, fd, data⟩ = digs (g data) (absBeginRaw data) (1 + I - absBeginRaw data) := by
  unfold intList
  simp only
  rw [List.drop_take]
  apply toList_slice
  have : absBeginRaw data ≤ 2 := by unfold absBeginRaw; split <;> (try split) <;> (try split) <;> omega
  omega

theorem lists_of_buffer (r I fd : Nat) (data : Array Nat) (hsz : data.size = 130) (hI : I + fd ≤ 128) (hr : r ≤ 16)
    (hrng0 : ∀ j, j < 1 + I → g data j < r) (hpt : g data (1 + I) = 46)
    (hrngf : ∀ j, j < fd → g data (1 + I + 1 + j) < r) (hnz : 0 < fd → g data (1 + I + fd) ≠ 0)
    (hcanon : 0 < I → g data 0 = 0 → g data 1 ≠ 0) :
    (fracList ⟨I, fd, data⟩).length = fd ∧
    valI r (intList ⟨I, fd, data⟩ ++ fracList ⟨I, fd, data⟩)
      = valR r (g data) 0 (1 + I) * r ^ fd + valR r (g data) (1 + I + 1) fd ∧
    (∀ d, d ∈ intList ⟨I, fd, data⟩ ++ fracList ⟨I, fd, data⟩ → d < r) ∧
    intList ⟨I, fd, data⟩ ≠ [] ∧
    ((intList ⟨I, fd, data⟩).head? ≠ some 0 ∨ intList ⟨I, fd, data⟩ = [0]) ∧
    (fracList ⟨I, fd, data⟩).getLast? ≠ some 0 := by
  have hfp : fracList ⟨I, fd, data⟩ = digs (g data) (1 + I + 1) fd := by
    unfold fracList; simp only; exact toList_slice data _ _ (by omega)
  have hip := intList_eq I fd data hsz (by omega)
  -- the integer part
  have hint : valI r (intList ⟨I, fd, data⟩) = valR r (g data) 0 (1 + I) ∧
      (∀ d, d ∈ intList ⟨I, fd, data⟩ → d < r) ∧ intList ⟨I, fd, data⟩ ≠ [] ∧
      ((intList ⟨I, fd, data⟩).head? ≠ some 0 ∨ intList ⟨I, fd, data⟩ = [0]) := by
    rw [hip]
    have hg0 : data.getD 0 0 = g data 0 := rfl
    have hg1 : data.getD 1 0 = g data 1 := rfl
    unfold absBeginRaw
    rw [hg0, hg1]
    by_cases h0 : g data 0 ≠ 0
    · rw [if_pos h0, Nat.sub_zero, valI_digs]
      refine ⟨rfl, ?_, ?_, ?_⟩
      · intro d hd
        obtain ⟨j, hj, rfl⟩ := mem_digs _ _ _ _ hd
        rw [Nat.zero_add]; exact hrng0 j hj
      · rw [Nat.add_comm 1 I, digs_succ_head]; simp
      · left; rw [Nat.add_comm 1 I, digs_succ_head]; simpa using h0
    · rw [if_neg h0]
      have h0' : g data 0 = 0 := by omega
      by_cases h1 : g data 1 = 46
      · rw [if_pos h1, Nat.sub_zero, valI_digs]
        have hI0 : I = 0 := by
          apply Classical.byContradiction; intro hne
          have := hrng0 1 (by omega); omega
        subst hI0
        refine ⟨rfl, ?_, ?_, ?_⟩
        · intro d hd
          obtain ⟨j, hj, rfl⟩ := mem_digs _ _ _ _ hd
          rw [Nat.zero_add]; exact hrng0 j hj
        · simp [digs]
        · right; simp [digs, h0']
      · rw [if_neg h1]
        have hIpos : 0 < I := by
          apply Classical.byContradiction; intro hne
          have : I = 0 := by omega
          subst this; exact h1 hpt
        have h1' := hcanon hIpos h0'
        rw [if_neg h1']
        have hsub : 1 + I - 1 = I := by omega
        rw [hsub, valI_digs]
        obtain ⟨k, rfl⟩ : ∃ k, I = k + 1 := ⟨I - 1, by omega⟩
        refine ⟨?_, ?_, ?_, ?_⟩
        · rw [Nat.add_comm 1 (k + 1), valR_head (k := k + 1), h0']; simp
        · intro d hd
          obtain ⟨j, hj, rfl⟩ := mem_digs _ _ _ _ hd
          exact hrng0 (1 + j) (by omega)
        · rw [digs_succ_head]; simp
        · left; rw [digs_succ_head]; simpa using h1'
  obtain ⟨hv, hr0, hne, hcan⟩ := hint
  refine ⟨?_, ?_, ?_, hne, hcan, ?_⟩
  · rw [hfp, digs_length]
  · rw [valI_append, hv, hfp, digs_length, valI_digs]
  · intro d hd
    rw [List.mem_append] at hd
    rcases hd with hd | hd
    · exact hr0 d hd
    · rw [hfp] at hd
      obtain ⟨j, hj, rfl⟩ := mem_digs _ _ _ _ hd
      exact hrngf j hj
  · rw [hfp]
    cases fd with
    | zero => simp [digs]
    | succ k =>
      rw [digs_succ_last, List.getLast?_concat]
      have := hnz (by omega)
      have e : 1 + I + (k + 1) = 1 + I + 1 + k := by omega
      rw [e] at this
      simpa using this



/-- `fmt_radix2` up to and including `round_and_trim`: the body of `fmtRadix2` with `Buffer.finish` unfolded, cut before
`encode_digits` (see `fmtRadix2_eq_radixBuf`) -/
def radixBuf (w abs fracN : Nat) (radix : Radix) (prec : Option Nat) : Outcome Buffer := do
  let (int, frac) ← splitIntFrac w abs fracN
  let digitBits := radix.digitBits
  let intUsedNbits := usedBitsHi int
  let intDigits := (intUsedNbits + digitBits - 1) / digitBits
  let fracUsedNbits := usedBitsLo w frac
  let fracDigits := (fracUsedNbits + digitBits - 1) / digitBits
  let fracDigits := match prec with
    | some precision => Nat.min fracDigits precision
    | none => fracDigits
  let buf ← Buffer.new.setLen intDigits fracDigits
  let buf ← writeInt w int radix intUsedNbits buf
  let (buf, fracRemCmpMsb) ← writeFrac w frac radix fracUsedNbits buf
  buf.roundAndTrim radix.max fracRemCmpMsb

/-- `radixBuf` is the model's `fmtRadix2` cut before `encode_digits`: the printed bytes are `pad_and_print` of the
encoded `radixBuf` buffer -/
theorem fmtRadix2_eq_radixBuf (w : Nat) (neg : Bool) (abs fracN : Nat) (radix : Radix) (spec : FmtSpec) :
    fmtRadix2 w neg abs fracN radix spec = (do
      let buf ← radixBuf w abs fracN radix spec.prec
      let buf ← buf.encodeDigits (radix == .upHex)
      buf.padAndPrint neg radix.prefix spec) := by
  unfold fmtRadix2 radixBuf Buffer.finish
  simp only [bind_assoc]
  rfl

theorem radix_pow (radix : Radix) :
    2 ≤ 2 ^ radix.digitBits ∧ 2 ^ radix.digitBits ≤ 16 ∧ 2 ^ radix.digitBits % 2 = 0 := by
  cases radix <;> decide

/-- a digit string of `1 + I` digits with value `≥ r^(I-1)` and leading digit 0 has a nonzero second digit -/
theorem canon_of_value (r I : Nat) (f : Nat → Nat) (hI : 0 < I) (hrng : ∀ j, j < 1 + I → f j < r)
    (hv : r ^ (I - 1) ≤ valR r f 0 (1 + I)) (h0 : f 0 = 0) : f 1 ≠ 0 := by
  obtain ⟨k, rfl⟩ : ∃ k, I = k + 1 := ⟨I - 1, by omega⟩
  intro h1
  rw [Nat.add_comm 1 (k + 1), valR_head, valR_head, h0, h1] at hv
  simp only [Nat.zero_mul, Nat.zero_add, Nat.add_sub_cancel] at hv
  have := valR_lt r f (1 + 1) k (fun j hj => hrng (1 + 1 + j) (by omega))
  omega

/-- The finished digit buffer.  `I` integer digits at `data[1 .. 1+I]` (`data[0]` is the carry slot), the point at
`data[1+I]`, `fd ≤ n` fraction digits after it, where `n` is the number of fraction digits generated (all of them, or
the precision if smaller).  The digit string, padded to `n` places, is `rneDiv (abs · r^n) 2^fracN`; no check fires. -/
theorem radixBuf_core (w abs fracN : Nat) (radix : Radix) (prec : Option Nat)
    (hW : Wd w) (hf : fracN ≤ w) (ha : abs < 2 ^ w) (hrx : radix ≠ .dec) :
    ∃ I n fd data, radixBuf w abs fracN radix prec = .ok ⟨I, fd, data⟩ false ∧ data.size = 130 ∧
      I + n ≤ 128 ∧ fd ≤ n ∧
      (2 ^ fracN ∣ abs * (2 ^ radix.digitBits) ^ n ∨ prec = some n) ∧ (∀ p, prec = some p → n ≤ p) ∧
      (valR (2 ^ radix.digitBits) (g data) 0 (1 + I) * (2 ^ radix.digitBits) ^ fd
          + valR (2 ^ radix.digitBits) (g data) (1 + I + 1) fd) * (2 ^ radix.digitBits) ^ (n - fd)
        = rneDiv (abs * (2 ^ radix.digitBits) ^ n) (2 ^ fracN) ∧
      (∀ j, j < 1 + I → g data j < 2 ^ radix.digitBits) ∧ g data (1 + I) = 46 ∧
      (∀ j, j < fd → g data (1 + I + 1 + j) < 2 ^ radix.digitBits) ∧
      (0 < fd → g data (1 + I + fd) ≠ 0) ∧ (0 < I → g data 0 = 0 → g data 1 ≠ 0) := by
  have hdb := radix_db radix
  have hw8 : 8 ≤ w ∧ w ≤ 128 := by unfold Wd at hW; omega
  obtain ⟨hY, hFlt, hintlt, hs⟩ := split_facts w abs fracN hf ha
  have hFdvd : 2 ^ (w - fracN) ∣ abs % 2 ^ fracN * 2 ^ (w - fracN) := Nat.dvd_mul_left _ _
  obtain ⟨hIub, hIlb, hIle⟩ := int_digits_facts (abs / 2 ^ fracN) radix.digitBits (w - fracN) (by omega) hintlt
  obtain ⟨hF2, hF1, hn0le, hudvd⟩ := frac_digits_facts w (abs % 2 ^ fracN * 2 ^ (w - fracN)) radix.digitBits fracN
    (by omega) hf hFlt hFdvd
  unfold radixBuf
  rw [splitIntFrac_eq w abs fracN hW hf ha]
  simp only [ok_bind, usedBitsHi]
  generalize hint : abs / 2 ^ fracN = int at *
  generalize hF : abs % 2 ^ fracN * 2 ^ (w - fracN) = F at *
  generalize hI : (bitLen int + radix.digitBits - 1) / radix.digitBits = I at *
  generalize hn0 : (usedBitsLo w F + radix.digitBits - 1) / radix.digitBits = n0 at *
  generalize hn : (match prec with
    | some precision => n0.min precision
    | none => n0) = n
  have hnle : n ≤ n0 := by
    subst hn; cases prec with
    | none => exact Nat.le_refl _
    | some p => exact Nat.min_le_left _ _
  have hncase : n = n0 ∨ prec = some n := by
    subst hn; cases prec with
    | none => left; rfl
    | some p =>
      simp only [Nat.min_def]
      split
      · left; rfl
      · right; rfl
  have hnp : ∀ p, prec = some p → n ≤ p := by
    intro p hp; subst hn; subst hp; exact Nat.min_le_right _ _
  have hIn : I + n ≤ 128 := by omega
  rw [setLen_eq I n hIn]
  simp only [ok_bind]
  generalize hd0 : (Array.replicate 130 0).setIfInBounds (1 + I) 46 = data0
  have hg0 : ∀ i, g data0 i = if i = 1 + I then 46 else 0 := fun i => by
    rw [← hd0]; exact g_init I i (by omega)
  have hsz0 : data0.size = 130 := by rw [← hd0]; simp
  obtain ⟨data1, heq1, hsz1, hval1, hhead1, hrng1, hframe1⟩ :=
    writeInt_spec radix hrx I n (by omega) w int (bitLen int) data0 (bitLen_ub' int) hsz0 hIlb hIub
  rw [heq1]; simp only [ok_bind]
  obtain ⟨data2, heq2, hsz2, hdig2, hframe2⟩ :=
    writeFrac_spec radix I n hIn w F (usedBitsLo w F) data1 hW hFlt hudvd hsz1 (fun j hj => hF1 j (by omega))
  rw [heq2]; simp only [ok_bind]
  obtain ⟨hr2, hr16, hreven⟩ := radix_pow radix
  have hr1 : 2 ^ radix.digitBits - 1 + 1 = 2 ^ radix.digitBits := by omega
  have h0 : g data2 0 = 0 := by
    rw [hframe2 0 (by omega), hframe1 0 (by omega), hg0]; simp; omega
  have hintd : ∀ j, j < I → g data2 (1 + j) = g data1 (1 + j) := fun j hj => hframe2 (1 + j) (by omega)
  have hpt : g data2 (1 + I) = 46 := by
    rw [hframe2 (1 + I) (by omega), hframe1 (1 + I) (by omega), hg0]; simp
  obtain ⟨data', fd', heq3, hsz3, hfd3, hval3, hle3, hpt3, hfr3, hnz3, hmono3⟩ :=
    roundAndTrim_spec (2 ^ radix.digitBits - 1) I n data2
      (compare (F * (2 ^ radix.digitBits) ^ n % 2 ^ w) (msb w)) (by omega) (by omega) (by omega) hsz2 hIn h0
      (fun j hj => by rw [hintd j hj]; have := hrng1 j hj; omega) hpt
      (fun j hj => by
        rw [hdig2 j hj]
        have := Nat.mod_lt (F * (2 ^ radix.digitBits) ^ (j + 1) / 2 ^ w) (show 0 < 2 ^ radix.digitBits by omega)
        omega)
  rw [hr1] at hval3 hmono3
  rw [radix_max radix hrx, heq3]
  -- the value before rounding
  have hA : valR (2 ^ radix.digitBits) (g data2) 0 (1 + I) = int := by
    rw [Nat.add_comm 1 I, valR_head, h0, Nat.zero_mul, Nat.zero_add,
      valR_congr _ (g data1) (g data2) 1 I (fun j hj => hintd j hj), hval1]
  have hB : valR (2 ^ radix.digitBits) (g data2) (1 + I + 1) n = F * (2 ^ radix.digitBits) ^ n / 2 ^ w := by
    rw [valR_frac (2 ^ radix.digitBits) (2 ^ w) F (g data2) (1 + I + 1) (by omega) n hdig2]
    apply Nat.mod_eq_of_lt
    rw [Nat.div_lt_iff_lt_mul (pow_pos2 w), Nat.mul_comm]
    exact (Nat.mul_lt_mul_left (Nat.pow_pos (show 0 < 2 ^ radix.digitBits by omega))).2 hFlt
  rw [hA, hB, round_value w fracN abs int F ((2 ^ radix.digitBits) ^ n) (by omega) hY hs] at hval3
  rw [hA] at hmono3
  refine ⟨I, n, fd', data', rfl, hsz3, hIn, hfd3, ?_, hnp, hval3, ?_, hpt3, ?_, hnz3, ?_⟩
  · rcases hncase with h | h
    · left; rw [h]; exact dvd_link w fracN abs int F _ hY hs hF2
    · right; exact h
  · intro j hj; have := hle3 j hj; omega
  · intro j hj; have := hfr3 j hj; omega
  · intro hIpos hz
    exact canon_of_value (2 ^ radix.digitBits) I (g data') hIpos
      (fun j hj => by have := hle3 j hj; omega) (Nat.le_trans (hIlb hIpos) hmono3) hz


/-- the digits of the finished buffer: (integer digits, most significant first; fraction digits) -/
def radixDigits (w abs fracN : Nat) (radix : Radix) (prec : Option Nat) : Outcome (List Nat × List Nat) :=
  (radixBuf w abs fracN radix prec).map' fun b => (intList b, fracList b)

/-- everything about the digit lists, for either kind of precision; `n` is the number of digits generated -/
theorem radixDigits_core (w abs fracN : Nat) (radix : Radix) (prec : Option Nat)
    (hW : w = 8 ∨ w = 16 ∨ w = 32 ∨ w = 64 ∨ w = 128) (hf : fracN ≤ w) (ha : abs < 2 ^ w) (hrx : radix ≠ .dec) :
    ∃ n ip fp, radixDigits w abs fracN radix prec = .ok (ip, fp) false ∧ fp.length ≤ n ∧
      (2 ^ fracN ∣ abs * (2 ^ radix.digitBits) ^ n ∨ prec = some n) ∧ (∀ p, prec = some p → n ≤ p) ∧
      valI (2 ^ radix.digitBits) (ip ++ fp) * (2 ^ radix.digitBits) ^ (n - fp.length)
        = rneDiv (abs * (2 ^ radix.digitBits) ^ n) (2 ^ fracN) ∧
      (∀ d, d ∈ ip ++ fp → d < 2 ^ radix.digitBits) ∧
      ip ≠ [] ∧ (ip.head? ≠ some 0 ∨ ip = [0]) ∧ fp.getLast? ≠ some 0 := by
  obtain ⟨I, n, fd, data, heq, hsz, hIn, hfd, hcase, hnp, hval, hr0, hpt, hrf, hnz, hcan⟩ :=
    radixBuf_core w abs fracN radix prec hW hf ha hrx
  obtain ⟨h1, h2, h3, h4, h5, h6⟩ :=
    lists_of_buffer (2 ^ radix.digitBits) I fd data hsz (by omega) (radix_pow radix).2.1 hr0 hpt hrf hnz hcan
  refine ⟨n, intList ⟨I, fd, data⟩, fracList ⟨I, fd, data⟩, ?_, by omega, hcase, hnp, ?_, h3, h4, h5, h6⟩
  · unfold radixDigits; rw [heq]; rfl
  · rw [h1, h2]; exact hval

/-- C09, no precision: the digits are the exact value; the integer part is canonical (no leading zero, `0` for zero),
the fraction has no trailing zero (and is empty for an integer value); no check fires. -/
theorem radix_exact (w abs fracN : Nat) (radix : Radix)
    (hW : w = 8 ∨ w = 16 ∨ w = 32 ∨ w = 64 ∨ w = 128) (hf : fracN ≤ w) (ha : abs < 2 ^ w) (hrx : radix ≠ .dec) :
    ∃ ip fp, radixDigits w abs fracN radix none = .ok (ip, fp) false ∧
      valI (2 ^ radix.digitBits) (ip ++ fp) * 2 ^ fracN = abs * (2 ^ radix.digitBits) ^ fp.length ∧
      ip ≠ [] ∧ (ip.head? ≠ some 0 ∨ ip = [0]) ∧ fp.getLast? ≠ some 0 := by
  obtain ⟨n, ip, fp, heq, hlen, hcase, _, hval, _, h4, h5, h6⟩ :=
    radixDigits_core w abs fracN radix none hW hf ha hrx
  refine ⟨ip, fp, heq, ?_, h4, h5, h6⟩
  have hdvd : 2 ^ fracN ∣ abs * (2 ^ radix.digitBits) ^ n := by
    rcases hcase with h | h
    · exact h
    · exact absurd h (by simp)
  rw [rneDiv_of_dvd _ _ (pow_pos2 fracN) hdvd] at hval
  have hmul := Nat.div_mul_cancel hdvd
  rw [← hval, pow_split (2 ^ radix.digitBits) n (n - fp.length) (by omega)] at hmul
  have hnn : n - (n - fp.length) = fp.length := by omega
  rw [hnn] at hmul
  have hpos : 0 < (2 ^ radix.digitBits) ^ (n - fp.length) := Nat.pow_pos (pow_pos2 _)
  apply Nat.eq_of_mul_eq_mul_right hpos
  rw [Nat.mul_right_comm, hmul, Nat.mul_assoc]

/-- the exact case in the `rneDiv` form used by `TextSpec.fmtVerdict` (precision = digits shown) -/
theorem radix_exact_rne (w abs fracN : Nat) (radix : Radix)
    (hW : w = 8 ∨ w = 16 ∨ w = 32 ∨ w = 64 ∨ w = 128) (hf : fracN ≤ w) (ha : abs < 2 ^ w) (hrx : radix ≠ .dec) :
    ∃ ip fp, radixDigits w abs fracN radix none = .ok (ip, fp) false ∧
      valI (2 ^ radix.digitBits) (ip ++ fp) = rneDiv (abs * (2 ^ radix.digitBits) ^ fp.length) (2 ^ fracN) := by
  obtain ⟨ip, fp, heq, hval, _⟩ := radix_exact w abs fracN radix hW hf ha hrx
  refine ⟨ip, fp, heq, ?_⟩
  rw [rneDiv_of_dvd _ _ (pow_pos2 fracN) ⟨valI (2 ^ radix.digitBits) (ip ++ fp), by rw [← hval, Nat.mul_comm]⟩,
    ← hval, Nat.mul_div_cancel _ (pow_pos2 fracN)]

/-- C09, precision `p`: at most `p` fraction digits, and the digits (padded with zeros to `p` places) are the value
rounded to nearest, ties to even, at `p` places; fewer digits are shown only when the rest are zeros. -/
theorem radix_rounded (w abs fracN : Nat) (radix : Radix) (p : Nat)
    (hW : w = 8 ∨ w = 16 ∨ w = 32 ∨ w = 64 ∨ w = 128) (hf : fracN ≤ w) (ha : abs < 2 ^ w) (hrx : radix ≠ .dec) :
    ∃ ip fp, radixDigits w abs fracN radix (some p) = .ok (ip, fp) false ∧ fp.length ≤ p ∧
      valI (2 ^ radix.digitBits) (ip ++ fp) * (2 ^ radix.digitBits) ^ (p - fp.length)
        = rneDiv (abs * (2 ^ radix.digitBits) ^ p) (2 ^ fracN) ∧
      ip ≠ [] ∧ (ip.head? ≠ some 0 ∨ ip = [0]) ∧ fp.getLast? ≠ some 0 := by
  obtain ⟨n, ip, fp, heq, hlen, hcase, hnp, hval, _, h4, h5, h6⟩ :=
    radixDigits_core w abs fracN radix (some p) hW hf ha hrx
  have hn := hnp p rfl
  refine ⟨ip, fp, heq, by omega, ?_, h4, h5, h6⟩
  rcases hcase with hdvd | h
  · rw [rneDiv_of_dvd _ _ (pow_pos2 fracN) hdvd] at hval
    have hp1 : (2 ^ radix.digitBits) ^ (p - fp.length)
        = (2 ^ radix.digitBits) ^ (n - fp.length) * (2 ^ radix.digitBits) ^ (p - n) := by
      rw [← Nat.pow_add]; congr 1; omega
    have hp2 : (2 ^ radix.digitBits) ^ p = (2 ^ radix.digitBits) ^ n * (2 ^ radix.digitBits) ^ (p - n) := by
      rw [← Nat.pow_add]; congr 1; omega
    obtain ⟨q, hq⟩ := hdvd
    have hdvd' : 2 ^ fracN ∣ abs * (2 ^ radix.digitBits) ^ p := by
      rw [hp2, ← Nat.mul_assoc, hq, Nat.mul_assoc]; exact Nat.dvd_mul_right _ _
    rw [rneDiv_of_dvd _ _ (pow_pos2 fracN) hdvd', hp1, ← Nat.mul_assoc, hval, hp2, ← Nat.mul_assoc, hq,
      Nat.mul_div_cancel_left _ (pow_pos2 fracN), Nat.mul_assoc, Nat.mul_div_cancel_left _ (pow_pos2 fracN)]
  · have : p = n := Option.some.inj h
    subst this; exact hval

/-- every digit is below the radix -/
theorem digits_in_range (w abs fracN : Nat) (radix : Radix) (prec : Option Nat)
    (hW : w = 8 ∨ w = 16 ∨ w = 32 ∨ w = 64 ∨ w = 128) (hf : fracN ≤ w) (ha : abs < 2 ^ w) (hrx : radix ≠ .dec) :
    ∃ ip fp, radixDigits w abs fracN radix prec = .ok (ip, fp) false ∧
      ∀ d, d ∈ ip ++ fp → d < 2 ^ radix.digitBits := by
  obtain ⟨n, ip, fp, heq, _, _, _, _, h3, _⟩ := radixDigits_core w abs fracN radix prec hW hf ha hrx
  exact ⟨ip, fp, heq, h3⟩

#print axioms fmtRadix2_eq_radixBuf
#print axioms radix_exact
#print axioms radix_exact_rne
#print axioms radix_rounded
#print axioms digits_in_range

end Sfx.FmtRadixPf
