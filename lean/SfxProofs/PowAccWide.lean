import SfxProofs.PowAccModel
import SfxProofs.PowAccWideReal
import SfxProofs.LogAcc
/-
  PowAccWide.lean — property C15 (pow clause) for `transcendental::pow` (model `Trans.pow`, `S = D`) on the wide region where the
  exponent handed to `exp` stays within `frac_nbits / 4` (`ExpAccWide.lean`).  With `X = val x > 0`, `Y = val y`, `ulp = 2^-f`:

      8 |Y| ulp ≤ 1  ∧  4 (|Y ln X| + 8 |Y| ulp) + 1 ≤ f  ∧  pow(x, y) = Ok(r)   →
          |val r - X^Y| ≤ (2^-18 + |Y ln X| / 2^22 + 16 |Y| ulp) · X^Y + 64 ulp                      (`pow_accuracy_wide_gen`)

  and the corollary `pow_accuracy_wide` for `4 |Y ln X| + 2 ≤ f ∧ 32 |Y| ≤ 2^f`.  Same propagation as `PowAcc.lean`; the margin `1/4`
  covers `|Y ln X| / 2^23 + 1 ulp` (`f ≤ 128`).  The hypothesis on `|Y|` cannot be dropped (finding D16, `PowAccNeg.lean`).
-/
namespace Sfx.PowAccPf
open Sfx.ExpAccPf

theorem pow_accuracy_wide_gen (D : Layout) (hv : D.valid) (hs : D.signed = true) (hf : 23 ≤ D.f) (hint : 9 ≤ D.intBits)
    (x y : Int) (hx : inRange D x) (hy : inRange D y) (hx0 : 0 < x)
    (hA : 8 * |(y : ℝ) / 2 ^ D.f| / 2 ^ D.f ≤ 1)
    (hW : 4 * (|(y : ℝ) / 2 ^ D.f * Real.log ((x : ℝ) / 2 ^ D.f)| + 8 * |(y : ℝ) / 2 ^ D.f| / 2 ^ D.f) + 1 ≤ (D.f : ℝ))
    (r : Int) (it : Nat) (dbg : Bool) :
    Trans.run (Trans.pow D D x y) = .ok (some r, it) dbg →
      |(r : ℝ) / 2 ^ D.f - ((x : ℝ) / 2 ^ D.f) ^ ((y : ℝ) / 2 ^ D.f)| ≤
        (1 / 2 ^ 18 + |(y : ℝ) / 2 ^ D.f * Real.log ((x : ℝ) / 2 ^ D.f)| / 2 ^ 22 + 16 * |(y : ℝ) / 2 ^ D.f| / 2 ^ D.f) *
          ((x : ℝ) / 2 ^ D.f) ^ ((y : ℝ) / 2 ^ D.f) + 64 / 2 ^ D.f := by
  intro h
  have hG : (0 : ℝ) < 2 ^ D.f := by positivity
  have hX : 0 < (x : ℝ) / 2 ^ D.f := div_pos (by exact_mod_cast hx0) hG
  have hf128 : D.f ≤ 128 := by
    obtain ⟨h1, h2⟩ := hv
    have : D.n ≤ 128 := by omega
    omega
  have hrhs : 0 ≤ (1 / 2 ^ 18 + |(y : ℝ) / 2 ^ D.f * Real.log ((x : ℝ) / 2 ^ D.f)| / 2 ^ 22 +
      16 * |(y : ℝ) / 2 ^ D.f| / 2 ^ D.f) * ((x : ℝ) / 2 ^ D.f) ^ ((y : ℝ) / 2 ^ D.f) + 64 / 2 ^ D.f := by
    have := Real.rpow_nonneg hX.le ((y : ℝ) / 2 ^ D.f)
    positivity
  rcases pow_acc D hv hs hf hint x y hx hy hx0 r it dbg h with ⟨hy0, hr⟩ | ⟨hy1, hr⟩ | ⟨l, m, hl, _, hspec⟩
  · have e : (r : ℝ) / 2 ^ D.f - ((x : ℝ) / 2 ^ D.f) ^ ((y : ℝ) / 2 ^ D.f) = 0 := by
      rw [hr, hy0, pow2_cast, Int.cast_zero, zero_div, Real.rpow_zero, div_self hG.ne', sub_self]
    rw [e, abs_zero]
    exact hrhs
  · have e : (r : ℝ) / 2 ^ D.f - ((x : ℝ) / 2 ^ D.f) ^ ((y : ℝ) / 2 ^ D.f) = 0 := by
      rw [hr, hy1, pow2_cast, div_self hG.ne', Real.rpow_one, sub_self]
    rw [e, abs_zero]
    exact hrhs
  · have hln := LogAccPf.ln_accuracy D hv hs hf hint x hx l m false hl
    exact pow_real_wide D.f hf hf128 x y l r hx0 hln hA hW hspec

/-- C15 (pow clause) for `pow::<D, D>` where `4 |y · ln x| + 2 ≤ frac_nbits` and `|y| ≤ 2^f / 32` -/
theorem pow_accuracy_wide (D : Layout) (hv : D.valid) (hs : D.signed = true) (hf : 23 ≤ D.f) (hint : 9 ≤ D.intBits)
    (x y : Int) (hx : inRange D x) (hy : inRange D y) (hx0 : 0 < x)
    (hsmall : 4 * |(y : ℝ) / 2 ^ D.f * Real.log ((x : ℝ) / 2 ^ D.f)| + 2 ≤ (D.f : ℝ))
    (hY : |(y : ℝ) / 2 ^ D.f| * 32 ≤ 2 ^ D.f)
    (r : Int) (it : Nat) (dbg : Bool) :
    Trans.run (Trans.pow D D x y) = .ok (some r, it) dbg →
      |(r : ℝ) / 2 ^ D.f - ((x : ℝ) / 2 ^ D.f) ^ ((y : ℝ) / 2 ^ D.f)| ≤
        (1 / 2 ^ 18 + |(y : ℝ) / 2 ^ D.f * Real.log ((x : ℝ) / 2 ^ D.f)| / 2 ^ 22 + 16 * |(y : ℝ) / 2 ^ D.f| / 2 ^ D.f) *
          ((x : ℝ) / 2 ^ D.f) ^ ((y : ℝ) / 2 ^ D.f) + 64 / 2 ^ D.f := by
  have hG : (0 : ℝ) < 2 ^ D.f := by positivity
  have h8 : 8 * |(y : ℝ) / 2 ^ D.f| / 2 ^ D.f ≤ 1 / 4 := by
    rw [div_le_iff₀ hG]; linarith
  exact pow_accuracy_wide_gen D hv hs hf hint x y hx hy hx0 (by linarith) (by linarith) r it dbg

end Sfx.PowAccPf

#print axioms Sfx.PowAccPf.pow_accuracy_wide_gen
#print axioms Sfx.PowAccPf.pow_accuracy_wide
