import SfxProofs.Sqrt
import SfxProofs.Cmp
/-
  TransFacts.lean — discharges the conversion / comparison facts that the transcendental proofs take as hypotheses
  (`SqrtPf.ConvFactsG`) from the proved specifications of the conversions (C04) and comparisons (C03).
-/
attribute [-instance] Monoid.toNPow
namespace Sfx.TransFacts
open Sfx.ConvPf Sfx.CmpPf Sfx.SqrtPf

theorem C_valid : Trans.C.valid := by decide

/-- `D::from_num(k)` for a small positive literal that fits -/
theorem fromNumI_ok (D : Layout) (hv : D.valid) (k : Int) (hk : inI true 32 k) (hfit : inRange D (k * 2 ^ D.f)) :
    Trans.fromNumI D k = .ok (k * 2 ^ D.f) false := by
  have h := (fromInt_spec D hv true 32 (by decide) k hk).2.2.2.2
  unfold Trans.fromNumI
  rw [h]
  have h2 : 0 < D.n := by
    obtain ⟨h, _⟩ := hv
    rcases h with h | h | h | h | h <;> omega
  have hw : D.wrap (k * 2 ^ D.f) = k * 2 ^ D.f := wrapI_of_in h2 hfit
  rw [hw]; simp [hfit]

theorem cmp_lt_iff (fa : Nat) (a c : Int) : (cmpExact fa 23 a c = -1) ↔ a * 2 ^ 23 < c * 2 ^ fa := by
  unfold cmpExact Layout.cmpInt
  split
  · simp_all
  · split <;> simp_all

theorem cmp_eq_iff (fa : Nat) (a c : Int) : (cmpExact fa 23 a c = 0) ↔ a * 2 ^ 23 = c * 2 ^ fa := by
  unfold cmpExact Layout.cmpInt
  split
  · simp_all; omega
  · split <;> simp_all

/-- every valid layout with room for the literals 1 and 2 satisfies the facts -/
theorem convFactsG (D : Layout) (hv : D.valid) (h1 : inRange D (1 * 2 ^ D.f)) (h2 : inRange D (2 * 2 ^ D.f)) : ConvFactsG D where
  fromNum1 := by have := fromNumI_ok D hv 1 (by decide) h1; simpa using this
  fromNum2 := fromNumI_ok D hv 2 (by decide) h2
  ltC := fun x c hx hc => by
    rw [ltFixed_spec D Trans.C hv C_valid x c hx hc]
    exact decide_eq_decide.mpr (cmp_lt_iff D.f x c)
  eqC := fun x c hx hc => by
    rw [eqFixed_spec D Trans.C hv C_valid x c hx hc]
    exact decide_eq_decide.mpr (cmp_eq_iff D.f x c)

/-- room for the literal 2 follows from three (unsigned: two) integer bits -/
theorem room (D : Layout) (hv : D.valid) (hint : (if D.signed then 3 else 2) ≤ D.intBits) :
    inRange D (1 * 2 ^ D.f) ∧ inRange D (2 * 2 ^ D.f) := by
  obtain ⟨hn, hf⟩ := hv
  have hpos := two_pow_pos D.f
  unfold Layout.intBits at hint
  unfold inRange inI minI maxI
  cases hs : D.signed
  · simp [hs] at hint
    have : (2 : Int) ^ D.n = 2 ^ (D.n - D.f) * 2 ^ D.f := by rw [← Int.pow_add]; congr 1; omega
    have h4 : (4 : Int) ≤ 2 ^ (D.n - D.f) := by
      have := pow_le_pow (a := 2) (b := D.n - D.f) hint
      simpa using this
    have hm : 4 * 2 ^ D.f ≤ (2:Int) ^ (D.n - D.f) * 2 ^ D.f := Int.mul_le_mul_of_nonneg_right h4 (Int.le_of_lt hpos)
    simp; omega
  · simp [hs] at hint
    have : (2 : Int) ^ (D.n - 1) = 2 ^ (D.n - 1 - D.f) * 2 ^ D.f := by rw [← Int.pow_add]; congr 1; omega
    have h4 : (4 : Int) ≤ 2 ^ (D.n - 1 - D.f) := by
      have := pow_le_pow (a := 2) (b := D.n - 1 - D.f) (by omega)
      simpa using this
    have hm : 4 * 2 ^ D.f ≤ (2:Int) ^ (D.n - 1 - D.f) * 2 ^ D.f := Int.mul_le_mul_of_nonneg_right h4 (Int.le_of_lt hpos)
    have hp1 := two_pow_pos (D.n - 1)
    simp; omega

theorem convFacts (D : Layout) (hv : D.valid) (hint : (if D.signed then 3 else 2) ≤ D.intBits) : ConvFacts D :=
  (convFactsG D hv (room D hv hint).1 (room D hv hint).2).toConvFacts

end Sfx.TransFacts
