/-
  ExpAccDefs.lean — import-free integer description ("trace") of what `transcendental::exp` computes, used to connect the
  executable model (`SfxProofs/ExpAccModel.lean`, core `Int` powers) with the real analysis (`SfxProofs/ExpAccReal.lean`,
  Mathlib).  No `^` occurs here: `pow2 k` is `2 ^ k` by structural recursion, so that neither side depends on which `Pow`
  instance elaborates.
-/
namespace Sfx.ExpAccPf

/-- `2 ^ k` -/
def pow2 : Nat → Int
  | 0 => 1
  | k + 1 => 2 * pow2 k

/-- the loop of `exp` on bit patterns of NONNEGATIVE values, `F = 2^f`, for `k` iterations starting at index `i`:
`term = term * x` (fixed-point product, `⌊term * x / F⌋`); `term = term / from_num(i)` (fixed-point quotient, `⌊term / i⌋`);
`result += term` -/
def expPure (F x : Int) : Nat → Nat → Int → Int → Int
  | 0, _, _, R => R
  | k + 1, i, t, R => expPure F x k (i + 1) (t * x / F / (i : Int)) (R + t * x / F / (i : Int))

theorem expPure_succ (F x : Int) (k i : Nat) (t R : Int) :
    expPure F x (k + 1) i t R = expPure F x k (i + 1) (t * x / F / (i : Int)) (R + t * x / F / (i : Int)) := rfl

/-- the sum only grows (nonnegative operand) -/
theorem expPure_ge (F x : Int) (hF : 0 ≤ F) (hx0 : 0 ≤ x) :
    ∀ (k i : Nat) (t R : Int), 0 ≤ t → R ≤ expPure F x k i t R
  | 0, _, _, R, _ => Int.le_refl R
  | k + 1, i, t, R, ht => by
    have h0 : 0 ≤ t * x / F / (i : Int) := Int.ediv_nonneg (Int.ediv_nonneg (Int.mul_nonneg ht hx0) hF) (by omega)
    have := expPure_ge F x hF hx0 k (i + 1) (t * x / F / (i : Int)) (R + t * x / F / (i : Int)) h0
    rw [expPure_succ]
    omega

/-- every `Ok(r)` of `exp::<D, D>(x)`, `f = frac_nbits`:
* `x = 0`: exactly one;
* `x = 1`: the `I9F23` constant `E = 22802600 / 2^23` widened;
* `x > 0`: `1 + x + Σ_{i=2}^{f-1} term_i` with the truncated recurrence of `expPure`;
* `x < 0`: the truncated reciprocal `⌊2^(2f) / result⌋` of the same sum for `|x|`. -/
def ExpSpec (f : Nat) (x r : Int) : Prop :=
  (x = 0 ∧ r = pow2 f) ∨
  (x = pow2 f ∧ r = 22802600 * pow2 (f - 23)) ∨
  (0 < x ∧ r = expPure (pow2 f) x (f - 2) 2 x (x + pow2 f)) ∨
  (x < 0 ∧ r = pow2 f * pow2 f / expPure (pow2 f) (-x) (f - 2) 2 (-x) (-x + pow2 f))

end Sfx.ExpAccPf
