import SfxProofs.WideDivHalf
/-
  WideDivU.lean — `normalize` and the unsigned `div_rem_from`.
-/
namespace Sfx

/-- the normalising shift: `d << leading_zeros(d)` has its top bit set and loses nothing -/
theorem leadingZeros_spec {n : Nat} {d : Int} (hd0 : 0 < d) (hd : d < 2 ^ n) :
    leadingZeros n d < n ∧ (2 : Int) ^ (n - 1) ≤ d * 2 ^ leadingZeros n d ∧ d * 2 ^ leadingZeros n d < 2 ^ n := by
  obtain ⟨D, rfl⟩ := Int.eq_ofNat_of_zero_le (Int.le_of_lt hd0)
  have hD0 : D ≠ 0 := by omega
  have hDn : D < 2 ^ n := by
    have : ((D : Nat) : Int) < ((2 ^ n : Nat) : Int) := by rw [natpow_cast]; exact hd
    exact_mod_cast this
  have hlog : D.log2 < n := (Nat.log2_lt hD0).2 hDn
  have hlo : 2 ^ D.log2 ≤ D := Nat.log2_self_le hD0
  have hhi : D < 2 ^ (D.log2 + 1) := Nat.lt_log2_self
  have hz : leadingZeros n (D : Int) = n - (D.log2 + 1) := by
    unfold leadingZeros bitLen
    rw [toU_of_in (Int.le_of_lt hd0) hd, Int.toNat_natCast, if_neg hD0]
  rw [hz]
  refine ⟨by omega, ?_, ?_⟩
  · have h1 : 2 ^ D.log2 * 2 ^ (n - (D.log2 + 1)) ≤ D * 2 ^ (n - (D.log2 + 1)) :=
      Nat.mul_le_mul_right _ hlo
    rw [← Nat.pow_add] at h1
    have e : D.log2 + (n - (D.log2 + 1)) = n - 1 := by omega
    rw [e] at h1
    have : ((2 ^ (n - 1) : Nat) : Int) ≤ ((D * 2 ^ (n - (D.log2 + 1)) : Nat) : Int) := by exact_mod_cast h1
    rw [Int.natCast_mul, natpow_cast, natpow_cast] at this
    exact this
  · have h1 : D * 2 ^ (n - (D.log2 + 1)) < 2 ^ (D.log2 + 1) * 2 ^ (n - (D.log2 + 1)) :=
      Nat.mul_lt_mul_of_pos_right hhi (Nat.two_pow_pos _)
    rw [← Nat.pow_add] at h1
    have e : D.log2 + 1 + (n - (D.log2 + 1)) = n := by omega
    rw [e] at h1
    have : ((D * 2 ^ (n - (D.log2 + 1)) : Nat) : Int) < ((2 ^ n : Nat) : Int) := by exact_mod_cast h1
    rw [Int.natCast_mul, natpow_cast, natpow_cast] at this
    exact this

/-- `x << z` on an `n`-bit unsigned limb keeps the low `n - z` bits -/
theorem wrapU_mul_pow {n z : Nat} (hz : z ≤ n) (x : Int) :
    wrapU n (x * 2 ^ z) = x % 2 ^ (n - z) * 2 ^ z := by
  unfold wrapU
  rw [pow_sub_mul hz, Int.mul_comm x, Int.mul_comm (2 ^ (n - z)), Int.mul_emod_mul_of_pos _ _ (two_pow_pos z),
    Int.mul_comm]

namespace WideDiv

theorem normalize_arith {W Z n1 n0 : Int} :
    (n1 / W * (W * Z) + (n1 % W * Z + n0 / W)) * (W * Z) + n0 % W * Z = (n1 * (W * Z) + n0) * Z := by
  have e1 := Int.emod_add_mul_ediv n1 W
  have e0 := Int.emod_add_mul_ediv n0 W
  generalize n1 / W = a at *
  generalize n1 % W = b at *
  generalize n0 / W = c at *
  generalize n0 % W = e at *
  subst e1 e0
  grind

/-- `normalize` scales divisor and dividend by `2^zeros`, making the divisor's top bit set; the dividend becomes the
three limbs `(r0, m1, m0)` with `r0 < d'`. -/
theorem normalize_spec {n : Nat} (hn : 1 ≤ n) {d n1 n0 : Int}
    (hd : inI false n d) (hd0 : d ≠ 0) (h1 : inI false n n1) (h0 : inI false n n0) :
    ∃ (r0 : Int) (z : Nat) (D m1 m0 : Int),
      normalize n d n1 n0 = .ok (r0, z, D, m1, m0) false ∧ D = d * 2 ^ z ∧
      2 ^ (n - 1) ≤ D ∧ D < 2 ^ n ∧ 0 ≤ r0 ∧ r0 < D ∧ inI false n m1 ∧ inI false n m0 ∧
      (r0 * 2 ^ n + m1) * 2 ^ n + m0 = (n1 * 2 ^ n + n0) * 2 ^ z := by
  rw [inU_iff] at hd h1 h0
  have hdpos : 0 < d := by omega
  obtain ⟨hzn, hlo, hhi⟩ := leadingZeros_spec hdpos hd.2
  unfold normalize
  rw [if_neg hd0]
  dsimp only
  generalize leadingZeros n d = z at *
  by_cases hz : z = 0
  · subst hz
    rw [if_pos rfl, pure_eq_ok]
    refine ⟨0, 0, d, n1, n0, rfl, by simp, by simpa using hlo, hd.2, Int.le_refl 0, hdpos,
      (inU_iff _ _).2 h1, (inU_iff _ _).2 h0, by simp⟩
  · rw [if_neg hz, pure_eq_ok]
    have hZ := two_pow_pos z
    have hW := two_pow_pos (n - z)
    have hN : (2 : Int) ^ n = 2 ^ (n - z) * 2 ^ z := pow_sub_mul (by omega)
    have hZP : (2 : Int) ^ z ≤ 2 ^ (n - 1) := pow_le_pow (by omega)
    -- pieces
    have hr0 : 0 ≤ n1 / 2 ^ (n - z) := Int.ediv_nonneg h1.1 (Int.le_of_lt hW)
    have hr0' : n1 / 2 ^ (n - z) < 2 ^ z := by
      rw [Int.ediv_lt_iff_lt_mul hW, Int.mul_comm, ← hN]; exact h1.2
    have hy0 : 0 ≤ n0 / 2 ^ (n - z) := Int.ediv_nonneg h0.1 (Int.le_of_lt hW)
    have hy : n0 / 2 ^ (n - z) < 2 ^ z := by
      rw [Int.ediv_lt_iff_lt_mul hW, Int.mul_comm, ← hN]; exact h0.2
    have hx0 := Int.emod_nonneg n1 (Int.ne_of_gt hW)
    have hx := Int.emod_lt_of_pos n1 hW
    have hw0 := Int.emod_nonneg n0 (Int.ne_of_gt hW)
    have hw := Int.emod_lt_of_pos n0 hW
    have hxz : n1 % 2 ^ (n - z) * 2 ^ z ≤ (2 ^ (n - z) - 1) * 2 ^ z :=
      Int.mul_le_mul_of_nonneg_right (by omega) (Int.le_of_lt hZ)
    have hwz : n0 % 2 ^ (n - z) * 2 ^ z ≤ (2 ^ (n - z) - 1) * 2 ^ z :=
      Int.mul_le_mul_of_nonneg_right (by omega) (Int.le_of_lt hZ)
    rw [Int.sub_mul, Int.one_mul, ← hN] at hxz hwz
    have hxz0 : 0 ≤ n1 % 2 ^ (n - z) * 2 ^ z := Int.mul_nonneg hx0 (Int.le_of_lt hZ)
    have hwz0 : 0 ≤ n0 % 2 ^ (n - z) * 2 ^ z := Int.mul_nonneg hw0 (Int.le_of_lt hZ)
    have eD : shlI false n d z = d * 2 ^ z := by
      unfold shlI wrapI
      simp only [Bool.false_eq_true, if_false]
      exact wrapU_of_lt (by omega) hhi
    have e1 : shlI false n n1 z = n1 % 2 ^ (n - z) * 2 ^ z := by
      unfold shlI wrapI
      simp only [Bool.false_eq_true, if_false]
      exact wrapU_mul_pow (by omega) n1
    have e0 : shlI false n n0 z = n0 % 2 ^ (n - z) * 2 ^ z := by
      unfold shlI wrapI
      simp only [Bool.false_eq_true, if_false]
      exact wrapU_mul_pow (by omega) n0
    have eor : orI false n (n1 % 2 ^ (n - z) * 2 ^ z) (n0 / 2 ^ (n - z))
        = n1 % 2 ^ (n - z) * 2 ^ z + n0 / 2 ^ (n - z) :=
      orI_mul_add hx0 hy0 hy (by omega)
    rw [eD, e1, e0]
    unfold shrI
    rw [eor]
    refine ⟨_, _, _, _, _, rfl, rfl, hlo, hhi, hr0, by omega, (inU_iff _ _).2 ⟨by omega, by omega⟩,
      (inU_iff _ _).2 ⟨hwz0, by omega⟩, ?_⟩
    rw [hN]
    exact normalize_arith

/-- a quotient digit produced from a remainder `r < D` and a half digit `a < B` is again a half digit -/
theorem digit_bounds {B D r a : Int} (hB : 0 < B) (hD : 0 < D) (hr0 : 0 ≤ r) (hr : r < D) (ha0 : 0 ≤ a)
    (ha : a < B) : 0 ≤ (r * B + a) / D ∧ (r * B + a) / D < B ∧ 0 ≤ (r * B + a) % D ∧ (r * B + a) % D < D := by
  have h1 : r * B ≤ (D - 1) * B := Int.mul_le_mul_of_nonneg_right (by omega) (Int.le_of_lt hB)
  rw [Int.sub_mul, Int.one_mul] at h1
  have h2 : 0 ≤ r * B := Int.mul_nonneg hr0 (Int.le_of_lt hB)
  refine ⟨Int.ediv_nonneg (by omega) (Int.le_of_lt hD), ?_, Int.emod_nonneg _ (Int.ne_of_gt hD),
    Int.emod_lt_of_pos _ hD⟩
  rw [Int.ediv_lt_iff_lt_mul hD, Int.mul_comm B D]
  omega

theorem chain_arith {B D r0 m1 m0 q3 q2 q1 q0 r1 r2 r3 r4 : Int}
    (e1 : r1 + D * q3 = r0 * B + m1 / B) (e2 : r2 + D * q2 = r1 * B + m1 % B)
    (e3 : r3 + D * q1 = r2 * B + m0 / B) (e4 : r4 + D * q0 = r3 * B + m0 % B) :
    (r0 * (B * B) + m1) * (B * B) + m0 = r4 + D * ((q3 * B + q2) * (B * B) + (q1 * B + q0)) := by
  have f1 := Int.emod_add_mul_ediv m1 B
  have f0 := Int.emod_add_mul_ediv m0 B
  generalize m1 / B = a3 at *
  generalize m1 % B = a2 at *
  generalize m0 / B = a1 at *
  generalize m0 % B = a0 at *
  subst f1 f0
  grind

end WideDiv
open WideDiv

theorem divRemFromU_spec (n : Nat) (hn : 2 ≤ n) (heven : n % 2 = 0) (d n1 n0 : Int)
    (hd : inI false n d) (hd0 : d ≠ 0) (h1 : inI false n n1) (h0 : inI false n n0) :
    WideDiv.divRemFromU n d n1 n0 =
      .ok ((((n1 * 2 ^ n + n0) / d) / 2 ^ n, ((n1 * 2 ^ n + n0) / d) % 2 ^ n), (n1 * 2 ^ n + n0) % d) false := by
  obtain ⟨r0, z, D, m1, m0, hnorm, hD, hDlo, hDhi, hr0, hr0', hm1, hm0, hid⟩ :=
    normalize_spec (by omega) hd hd0 h1 h0
  rw [inU_iff] at hd hm1 hm0
  have hdpos : 0 < d := by omega
  have hBpos := two_pow_pos (n / 2)
  have hNB : (2 : Int) ^ n = 2 ^ (n / 2) * 2 ^ (n / 2) := pow_half heven
  have hZ := two_pow_pos z
  have hDpos : 0 < D := by have := two_pow_pos (n - 1); omega
  -- half digits of the normalised dividend
  have ha3 : 0 ≤ m1 / 2 ^ (n / 2) ∧ m1 / 2 ^ (n / 2) < 2 ^ (n / 2) :=
    ⟨Int.ediv_nonneg hm1.1 (Int.le_of_lt hBpos), by rw [Int.ediv_lt_iff_lt_mul hBpos, ← hNB]; exact hm1.2⟩
  have ha1 : 0 ≤ m0 / 2 ^ (n / 2) ∧ m0 / 2 ^ (n / 2) < 2 ^ (n / 2) :=
    ⟨Int.ediv_nonneg hm0.1 (Int.le_of_lt hBpos), by rw [Int.ediv_lt_iff_lt_mul hBpos, ← hNB]; exact hm0.2⟩
  have ha2 := And.intro (Int.emod_nonneg m1 (Int.ne_of_gt hBpos)) (Int.emod_lt_of_pos m1 hBpos)
  have ha0 := And.intro (Int.emod_nonneg m0 (Int.ne_of_gt hBpos)) (Int.emod_lt_of_pos m0 hBpos)
  -- the four steps
  obtain ⟨hq3, hq3', hr1, hr1'⟩ := digit_bounds hBpos hDpos hr0 hr0' ha3.1 ha3.2
  have s1 := divHalf_spec n hn heven r0 D _ hDlo hDhi hr0 hr0' ha3.1 ha3.2
  have g1 := Int.emod_add_mul_ediv (r0 * 2 ^ (n / 2) + m1 / 2 ^ (n / 2)) D
  generalize (r0 * 2 ^ (n / 2) + m1 / 2 ^ (n / 2)) / D = q3 at *
  generalize (r0 * 2 ^ (n / 2) + m1 / 2 ^ (n / 2)) % D = r1 at *
  obtain ⟨hq2, hq2', hr2, hr2'⟩ := digit_bounds hBpos hDpos hr1 hr1' ha2.1 ha2.2
  have s2 := divHalf_spec n hn heven r1 D _ hDlo hDhi hr1 hr1' ha2.1 ha2.2
  have g2 := Int.emod_add_mul_ediv (r1 * 2 ^ (n / 2) + m1 % 2 ^ (n / 2)) D
  generalize (r1 * 2 ^ (n / 2) + m1 % 2 ^ (n / 2)) / D = q2 at *
  generalize (r1 * 2 ^ (n / 2) + m1 % 2 ^ (n / 2)) % D = r2 at *
  obtain ⟨hq1, hq1', hr3, hr3'⟩ := digit_bounds hBpos hDpos hr2 hr2' ha1.1 ha1.2
  have s3 := divHalf_spec n hn heven r2 D _ hDlo hDhi hr2 hr2' ha1.1 ha1.2
  have g3 := Int.emod_add_mul_ediv (r2 * 2 ^ (n / 2) + m0 / 2 ^ (n / 2)) D
  generalize (r2 * 2 ^ (n / 2) + m0 / 2 ^ (n / 2)) / D = q1 at *
  generalize (r2 * 2 ^ (n / 2) + m0 / 2 ^ (n / 2)) % D = r3 at *
  obtain ⟨hq0, hq0', hr4, hr4'⟩ := digit_bounds hBpos hDpos hr3 hr3' ha0.1 ha0.2
  have s4 := divHalf_spec n hn heven r3 D _ hDlo hDhi hr3 hr3' ha0.1 ha0.2
  have g4 := Int.emod_add_mul_ediv (r3 * 2 ^ (n / 2) + m0 % 2 ^ (n / 2)) D
  generalize (r3 * 2 ^ (n / 2) + m0 % 2 ^ (n / 2)) / D = q0 at *
  generalize (r3 * 2 ^ (n / 2) + m0 % 2 ^ (n / 2)) % D = r4 at *
  unfold divRemFromU
  rw [hnorm, ok_false_bind]
  dsimp only [hi, lo, shrI]
  rw [s1, ok_false_bind]
  dsimp only
  rw [s2, ok_false_bind]
  dsimp only
  rw [s3, ok_false_bind]
  dsimp only
  rw [s4, ok_false_bind]
  dsimp only
  rw [pure_eq_ok, upLo_eq heven hq3 hq3' hq2 hq2', upLo_eq heven hq1 hq1' hq0 hq0']
  -- arithmetic
  have hchain := chain_arith g1 g2 g3 g4
  rw [← hNB, hid] at hchain
  have hlow0 : 0 ≤ q1 * 2 ^ (n / 2) + q0 := by
    have := Int.mul_nonneg hq1 (Int.le_of_lt hBpos); omega
  have hlow : q1 * 2 ^ (n / 2) + q0 < 2 ^ n := by
    have : q1 * 2 ^ (n / 2) ≤ (2 ^ (n / 2) - 1) * 2 ^ (n / 2) :=
      Int.mul_le_mul_of_nonneg_right (by omega) (Int.le_of_lt hBpos)
    rw [Int.sub_mul, Int.one_mul, ← hNB] at this
    omega
  generalize (q3 * 2 ^ (n / 2) + q2) = Q1 at *
  generalize (q1 * 2 ^ (n / 2) + q0) = Q0 at *
  generalize n1 * 2 ^ n + n0 = N at *
  have hQR := (Int.ediv_emod_unique (a := N * 2 ^ z) (b := D) (r := r4) (q := Q1 * 2 ^ n + Q0) hDpos).2
    ⟨hchain.symm, hr4, hr4'⟩
  have hQ : N / d = Q1 * 2 ^ n + Q0 := by
    rw [← hQR.1, hD]; exact (Int.mul_ediv_mul_of_pos_left N d hZ).symm
  have hR : r4 = N % d * 2 ^ z := by
    rw [← hQR.2, hD, Int.mul_comm N, Int.mul_comm d, Int.mul_emod_mul_of_pos _ _ hZ, Int.mul_comm]
  have hsplit := (Int.ediv_emod_unique (a := N / d) (b := 2 ^ n) (r := Q0) (q := Q1) (two_pow_pos n)).2
    ⟨by rw [hQ, Int.mul_comm]; omega, hlow0, hlow⟩
  rw [hsplit.1, hsplit.2, hR, Int.mul_ediv_cancel _ (Int.ne_of_gt hZ)]

theorem divRemFromU_zero (n : Nat) (n1 n0 : Int) : WideDiv.divRemFromU n 0 n1 n0 = .panic := by
  unfold divRemFromU normalize
  rw [if_pos rfl]
  rfl

#print axioms divRemFromU_spec
#print axioms divRemFromU_zero

end Sfx
