import SfxProofs.ToFloatNat
/-
  ToFloatModel.lean — closed form of `fromToFloatHelper` in the normal exponent range.
-/
namespace Sfx.ToFloatPf

/-- the `prec`-bit significand of `a` truncated (exact when `bitLen a ≤ p`) -/
def sig (p a : Nat) : Nat := if bitLen a ≤ p then a * 2 ^ (p - bitLen a) else a / 2 ^ (bitLen a - p)

/-- round-to-nearest-even decision on the bits of `a` below the `p`-bit significand -/
def ru (p a : Nat) : Bool :=
  decide (p < bitLen a) &&
    (decide (a / 2 ^ (bitLen a - p - 1) % 2 = 1) &&
      (decide (a % 2 ^ (bitLen a - p - 1) ≠ 0) || decide (a / 2 ^ (bitLen a - p) % 2 = 1)))

/-- the mantissa-field extraction of the code as a function of the (u128) mantissa -/
def bitsMantOf (F : FloatFmt) (N mant : Nat) : Nat :=
  (if N ≥ F.prec - 1 then (mant / 2 ^ (N - (F.prec - 1))) % 2 ^ F.nbits
   else (mant % 2 ^ F.nbits) * 2 ^ (F.prec - 1 - N) % 2 ^ F.nbits) % 2 ^ (F.prec - 1)

/-- the rounding decision of the code as a function of the (u128) mantissa -/
def roundUpOf (F : FloatFmt) (N mant : Nat) : Bool :=
  decide (N ≥ F.prec) &&
    (if mant / (2 ^ 127 / 2 ^ (F.prec - 1 + (128 - N))) % 2 = 0 then false
     else if mant % (2 ^ 127 / 2 ^ (F.prec - 1 + (128 - N))) ≠ 0 then true
     else decide (mant / ((2 ^ 127 / 2 ^ (F.prec - 1 + (128 - N))) * 2) % 2 = 1))

theorem fth_zero (F : FloatFmt) (neg : Bool) (f ib : Nat) (hN : f + ib ≤ 128) :
    fromToFloatHelper F neg 0 f ib = if neg then F.signMask else 0 := by
  unfold fromToFloatHelper
  extract_lets fixBits bitsSign extraZeros lz signif
  have : signif = 0 := by
    simp only [signif, lz, extraZeros, fixBits, bitLen_zero]; omega
  rw [if_pos this]

theorem fth_normal (F : FloatFmt) (neg : Bool) (a f ib : Nat) (ha : 0 < a) (hN : f + ib ≤ 128)
    (haN : a < 2 ^ (f + ib))
    (he1 : F.expMin ≤ (bitLen a : Int) - 1 - f) (he2 : (bitLen a : Int) - 1 - f ≤ F.expMax) :
    fromToFloatHelper F neg a f ib =
      (if neg then F.signMask else 0) +
        (((bitLen a : Int) - 1 - f + F.expMax).toNat * 2 ^ (F.prec - 1)
          + bitsMantOf F (f + ib) (a * 2 ^ (f + ib - bitLen a + 1) % 2 ^ 128)
          + (if roundUpOf F (f + ib) (a * 2 ^ (f + ib - bitLen a + 1) % 2 ^ 128) then 1 else 0)) := by
  have hb0 := bitLen_pos ha
  have hbN := bitLen_le haN
  unfold fromToFloatHelper
  extract_lets fixBits bitsSign extraZeros lz signif mant0 exponent lostPrec midBit
  have hlz : lz = f + ib - bitLen a := by simp only [lz, extraZeros, fixBits]; omega
  have hsig : ¬ signif = 0 := by simp only [signif, hlz, fixBits]; omega
  have hexp : exponent = (bitLen a : Int) - 1 - f := by simp only [exponent, hlz]; omega
  have hmant : mant0 = a * 2 ^ (f + ib - bitLen a + 1) % 2 ^ 128 := by
    simp only [mant0, hlz]
    rw [Nat.mod_mul_mod, Nat.mul_assoc, ← Nat.pow_succ]
  rw [if_neg hsig, if_neg (by rw [hexp]; omega), if_neg (by rw [hexp]; omega)]
  simp only [hmant, hexp, bitsMantOf, roundUpOf, fixBits, bitsSign, midBit, extraZeros]
  rfl

theorem sig_range (p a : Nat) (ha : 0 < a) (hp : 1 ≤ p) : 2 ^ (p - 1) ≤ sig p a ∧ sig p a < 2 ^ p := by
  have hb0 := bitLen_pos ha
  have hlb := bitLen_lb ha
  have hub := bitLen_ub a
  unfold sig
  split
  · rename_i h
    have e1 : p - 1 = (bitLen a - 1) + (p - bitLen a) := by omega
    have e2 : p = bitLen a + (p - bitLen a) := by omega
    constructor
    · rw [e1, Nat.pow_add]; exact Nat.mul_le_mul_right _ hlb
    · conv => rhs; rw [e2, Nat.pow_add]
      exact Nat.mul_lt_mul_of_pos_right hub (p2pos _)
  · rename_i h
    have e1 : bitLen a - 1 = (p - 1) + (bitLen a - p) := by omega
    have e2 : bitLen a = p + (bitLen a - p) := by omega
    constructor
    · rw [Nat.le_div_iff_mul_le (p2pos _), ← Nat.pow_add, ← e1]; exact hlb
    · rw [Nat.div_lt_iff_lt_mul (p2pos _), ← Nat.pow_add, ← e2]; exact hub

theorem mod_half {X p : Nat} (hp : 1 ≤ p) (h1 : 2 ^ (p - 1) ≤ X) (h2 : X < 2 ^ p) : X % 2 ^ (p - 1) = X - 2 ^ (p - 1) := by
  have : 2 ^ p = 2 * 2 ^ (p - 1) := by
    conv => lhs; rw [show p = (p - 1) + 1 by omega, Nat.pow_succ]
    omega
  rw [Nat.mod_eq_sub_mod h1, Nat.mod_eq_of_lt (by omega)]

theorem bitsMantOf_eq (F : FloatFmt) (N a : Nat) (ha : 0 < a) (hN : N ≤ 128) (haN : a < 2 ^ N)
    (hp : 2 ≤ F.prec) (hpn : F.prec ≤ F.nbits) (hn : F.nbits ≤ 128) :
    bitsMantOf F N (a * 2 ^ (N - bitLen a + 1) % 2 ^ 128) = sig F.prec a - 2 ^ (F.prec - 1) := by
  have hb0 := bitLen_pos ha
  have hbN := bitLen_le haN
  obtain ⟨hs1, hs2⟩ := sig_range F.prec a ha (by omega)
  rw [← mod_half (by omega) hs1 hs2]
  unfold bitsMantOf
  split
  · rename_i h
    rw [mod_mod_pow _ _ _ (by omega), mod_div_mod _ _ _ _ (by omega)]
    congr 1
    unfold sig
    split
    · rename_i hbp
      rw [show N - bitLen a + 1 = (N - (F.prec - 1)) + (F.prec - bitLen a) by omega, mul_pow_div_pow]
    · rename_i hbp
      rw [show N - (F.prec - 1) = (N - bitLen a + 1) + (bitLen a - F.prec) by omega, mul_pow_div_pow']
  · rename_i h
    have hM : a * 2 ^ (N - bitLen a + 1) < 2 ^ (N + 1) := by
      have := bitLen_ub a
      conv => rhs; rw [show N + 1 = bitLen a + (N - bitLen a + 1) by omega, Nat.pow_add]
      exact Nat.mul_lt_mul_of_pos_right this (p2pos _)
    have h128 : 2 ^ (N + 1) ≤ 2 ^ 128 := Nat.pow_le_pow_right (by decide) (by omega)
    have hnb : 2 ^ (N + 1) ≤ 2 ^ F.nbits := Nat.pow_le_pow_right (by decide) (by omega)
    have hpb : 2 ^ F.prec ≤ 2 ^ F.nbits := Nat.pow_le_pow_right (by decide) (by omega)
    have e1 : a * 2 ^ (N - bitLen a + 1) % 2 ^ 128 = a * 2 ^ (N - bitLen a + 1) := Nat.mod_eq_of_lt (by omega)
    have e2 : a * 2 ^ (N - bitLen a + 1) % 2 ^ F.nbits = a * 2 ^ (N - bitLen a + 1) := Nat.mod_eq_of_lt (by omega)
    have e3 : a * 2 ^ (N - bitLen a + 1) * 2 ^ (F.prec - 1 - N) = sig F.prec a := by
      unfold sig; rw [if_pos (by omega), Nat.mul_assoc, ← Nat.pow_add]
      congr 2; omega
    have e4 : sig F.prec a % 2 ^ F.nbits = sig F.prec a := Nat.mod_eq_of_lt (by omega)
    rw [e1, e2, e3, e4]

theorem mod_div_mod2 (X K j : Nat) (h : j + 1 ≤ K) : X % 2 ^ K / 2 ^ j % 2 = X / 2 ^ j % 2 := by
  have := mod_div_mod X K j 1 h
  simpa using this

theorem roundUpOf_eq (F : FloatFmt) (N a : Nat) (ha : 0 < a) (hN : N ≤ 128) (haN : a < 2 ^ N)
    (hp : 2 ≤ F.prec) :
    roundUpOf F N (a * 2 ^ (N - bitLen a + 1) % 2 ^ 128) = ru F.prec a := by
  have hb0 := bitLen_pos ha
  have hbN := bitLen_le haN
  unfold roundUpOf ru
  by_cases hNp : N ≥ F.prec
  · have hmid : 2 ^ 127 / 2 ^ (F.prec - 1 + (128 - N)) = 2 ^ (N - F.prec) := by
      rw [Nat.pow_div (by omega) (by decide)]; congr 1; omega
    rw [hmid, ← Nat.pow_succ, mod_div_mod2 _ _ _ (by omega), mod_div_mod2 _ _ _ (by omega),
      mod_mod_pow _ _ _ (by omega)]
    by_cases hbp : F.prec < bitLen a
    · have e1 : N - F.prec = (N - bitLen a + 1) + (bitLen a - F.prec - 1) := by omega
      have e2 : (N - F.prec).succ = (N - bitLen a + 1) + (bitLen a - F.prec) := by omega
      rw [e2, e1, mul_pow_div_pow', mul_pow_div_pow', mul_pow_mod_pow]
      have hz : (a % 2 ^ (bitLen a - F.prec - 1) * 2 ^ (N - bitLen a + 1) = 0) ↔ a % 2 ^ (bitLen a - F.prec - 1) = 0 := by
        have := p2pos (N - bitLen a + 1)
        rw [Nat.mul_eq_zero]; omega
      by_cases h1 : a / 2 ^ (bitLen a - F.prec - 1) % 2 = 0
      · simp [h1, hNp, hbp]
      · have h1' : a / 2 ^ (bitLen a - F.prec - 1) % 2 = 1 := by omega
        by_cases h2 : a % 2 ^ (bitLen a - F.prec - 1) = 0
        · simp [h1', h2, hNp, hbp]
        · simp [h1', h2, hNp, hbp, hz]
    · have e1 : N - bitLen a + 1 = (N - F.prec) + ((F.prec - bitLen a) + 1) := by omega
      have : a * 2 ^ (N - bitLen a + 1) / 2 ^ (N - F.prec) % 2 = 0 := by
        rw [e1, mul_pow_div_pow, Nat.pow_succ, ← Nat.mul_assoc, Nat.mul_mod_left]
      simp [this, hbp]
  · have : ¬ F.prec < bitLen a := by omega
    simp [hNp, this]

/-- closed form of the model in the normal exponent range -/
theorem fth_normal_closed (F : FloatFmt) (neg : Bool) (a f ib : Nat) (ha : 0 < a) (hN : f + ib ≤ 128)
    (haN : a < 2 ^ (f + ib)) (hp : 2 ≤ F.prec) (hpn : F.prec ≤ F.nbits) (hn : F.nbits ≤ 128)
    (he1 : F.expMin ≤ (bitLen a : Int) - 1 - f) (he2 : (bitLen a : Int) - 1 - f ≤ F.expMax) :
    fromToFloatHelper F neg a f ib =
      (if neg then F.signMask else 0) +
        (((bitLen a : Int) - 1 - f + F.expMax).toNat * 2 ^ (F.prec - 1)
          + (sig F.prec a - 2 ^ (F.prec - 1)) + (if ru F.prec a then 1 else 0)) := by
  rw [fth_normal F neg a f ib ha hN haN he1 he2, bitsMantOf_eq F _ a ha hN haN hp hpn hn,
    roundUpOf_eq F _ a ha hN haN hp]

end Sfx.ToFloatPf
