import SfxProofs.PowAccWitness
import SfxProps.C15
import Mathlib.Analysis.Complex.ExponentialBounds
import Mathlib.Tactic.NormNum
import Mathlib.Tactic.Linarith
/-
  PowAccNeg.lean — the pow clause of C15 is false ALSO where `exp` is exact: the absolute part of the error of `ln` (C14 allows
  8 ulp; here `ln(1 + 2^-23) ≈ 1 ulp` is truncated to 0) is multiplied by a huge exponent.  Witness: `D = I41F23`
  (`FixedI64<U23>`, a supported type), `x = 1 + 2^-23`, `y = -2^26 = -67108864.0`: `pow` returns exactly 1.0 (`exp(0)`, the early
  return, no series involved), the true value is `(1 + 2^-23)^(-2^26) ≤ e^-7 < 0.001`, and the allowed error is
  `≤ 129.1 · x^y + 2^-17 < 0.13`.  (This is a different mechanism from KNOWN FINDING D10, the truncated series of `exp`.)
-/
namespace Sfx.PowAccPf

theorem exp7_lower : (1000 : ℝ) < Real.exp 7 := by
  have h1 : (2.7182818283 : ℝ) < Real.exp 1 := Real.exp_one_gt_d9
  have h2 : Real.exp 7 = Real.exp 1 ^ 7 := by
    rw [← Real.exp_nat_mul]; norm_num
  rw [h2]
  calc (1000 : ℝ) < (2.7182818283 : ℝ) ^ 7 := by norm_num
    _ < Real.exp 1 ^ 7 := pow_lt_pow_left₀ h1 (by norm_num) (by norm_num)

/-- `(1 + 2^-23)^(-2^26) < 1/1000` and `|2^26 · ln(1 + 2^-23)| ≤ 8` -/
theorem witness_real : ((8388609 : ℝ) / 8388608) ^ (-67108864 : ℝ) < 1 / 1000 ∧
    |(-67108864 : ℝ) * Real.log ((8388609 : ℝ) / 8388608)| ≤ 8 := by
  have hX : (0 : ℝ) < (8388609 : ℝ) / 8388608 := by norm_num
  have hl1 : 1 - ((8388609 : ℝ) / 8388608)⁻¹ ≤ Real.log ((8388609 : ℝ) / 8388608) := Real.one_sub_inv_le_log_of_pos hX
  have hl2 : Real.log ((8388609 : ℝ) / 8388608) ≤ (8388609 : ℝ) / 8388608 - 1 := Real.log_le_sub_one_of_pos hX
  norm_num at hl1 hl2
  constructor
  · rw [Real.rpow_def_of_pos hX]
    have h7 : Real.log ((8388609 : ℝ) / 8388608) * (-67108864 : ℝ) ≤ -7 := by linarith
    have h2 : Real.exp (Real.log ((8388609 : ℝ) / 8388608) * (-67108864 : ℝ)) ≤ Real.exp (-7) := Real.exp_le_exp.2 h7
    have h3 : Real.exp (-7) * Real.exp 7 = 1 := by rw [← Real.exp_add]; simp
    have h4 := exp7_lower
    have h5 : 0 < Real.exp (-7) := Real.exp_pos _
    nlinarith
  · rw [abs_le]
    constructor <;> linarith

theorem pow_ln_counterexample :
    ∃ r it, Trans.run (Trans.pow ⟨true, 64, 23⟩ ⟨true, 64, 23⟩ 8388609 (-562949953421312)) = .ok (some r, it) false ∧
      ¬ (|(r : ℝ) / 2 ^ 23 - (((8388609 : Int) : ℝ) / 2 ^ 23) ^ (((-562949953421312 : Int) : ℝ) / 2 ^ 23)| ≤
        (1 / 2 ^ 18 + |((-562949953421312 : Int) : ℝ) / 2 ^ 23 * Real.log (((8388609 : Int) : ℝ) / 2 ^ 23)| / 2 ^ 22 +
          16 * |((-562949953421312 : Int) : ℝ) / 2 ^ 23| / 2 ^ 23) *
          (((8388609 : Int) : ℝ) / 2 ^ 23) ^ (((-562949953421312 : Int) : ℝ) / 2 ^ 23) + 64 / 2 ^ 23) := by
  refine ⟨8388608, 23, pow_ln_run8, ?_⟩
  have ex : (((8388609 : Int) : ℝ) / 2 ^ 23) = (8388609 : ℝ) / 8388608 := by norm_num
  have ey : (((-562949953421312 : Int) : ℝ) / 2 ^ 23) = (-67108864 : ℝ) := by norm_num
  have er : (((8388608 : Int) : ℝ) / 2 ^ 23) = 1 := by norm_num
  rw [ex, ey, er]
  obtain ⟨hP, hW⟩ := witness_real
  have hP0 : 0 < ((8388609 : ℝ) / 8388608) ^ (-67108864 : ℝ) := Real.rpow_pos_of_pos (by norm_num) _
  generalize ((8388609 : ℝ) / 8388608) ^ (-67108864 : ℝ) = P at *
  generalize |(-67108864 : ℝ) * Real.log ((8388609 : ℝ) / 8388608)| = w at *
  intro h
  have h' := (abs_le.1 h).2
  have hy : |(-67108864 : ℝ)| = 67108864 := by norm_num
  rw [hy] at h'
  have hc : (1 / 2 ^ 18 + w / 2 ^ 22 + 16 * 67108864 / 2 ^ 23) * P ≤ 130 * P := by
    apply mul_le_mul_of_nonneg_right _ hP0.le
    norm_num
    linarith
  norm_num at h' hc
  linarith

/-- the pow clause of `Sfx.C15.C15_statement`, on its own, is false -/
theorem C15_pow_clause_false :
    ¬ (∀ D : Layout, Sfx.C12.Supp D → ∀ x y : Int, inRange D x → inRange D y →
      ∀ r it dbg, 0 < x → Trans.run (Trans.pow D D x y) = .ok (some r, it) dbg →
        |Sfx.C15.val D.f r - (Sfx.C15.val D.f x) ^ (Sfx.C15.val D.f y)| ≤
          (1 / (2 : ℝ) ^ 18 + |Sfx.C15.val D.f y * Real.log (Sfx.C15.val D.f x)| / (2 : ℝ) ^ 22 +
            16 * |Sfx.C15.val D.f y| / (2 : ℝ) ^ D.f) * (Sfx.C15.val D.f x) ^ (Sfx.C15.val D.f y) + 64 / (2 : ℝ) ^ D.f) := by
  intro h
  obtain ⟨r, it, hrun, hneg⟩ := pow_ln_counterexample
  have hS : Sfx.C12.Supp ⟨true, 64, 23⟩ := ⟨by decide, rfl, by decide, by decide⟩
  exact hneg (h ⟨true, 64, 23⟩ hS 8388609 (-562949953421312) (by decide) (by decide) r it false (by decide) hrun)

end Sfx.PowAccPf

#print axioms Sfx.PowAccPf.pow_ln_run8
#print axioms Sfx.PowAccPf.pow_ln_run5
#print axioms Sfx.PowAccPf.pow_ln_counterexample
#print axioms Sfx.PowAccPf.C15_pow_clause_false
