import SfxModel.Round
import SfxProofs.PrimLemmas
/-
  RoundExact.lean — the exact roundings `ceilE/floorE/roundE/roundEvenE/truncE` in the shape
  "floor, or floor plus one unit".
-/
namespace Sfx
namespace Layout

theorem add_one_mul' (q P : Int) : (q + 1) * P = q * P + P := by rw [Int.add_mul, Int.one_mul]

theorem ceilE_cases (f : Nat) (a : Int) :
    ceilE f a = if a % 2 ^ f = 0 then a / 2 ^ f * 2 ^ f else a / 2 ^ f * 2 ^ f + 2 ^ f := by
  unfold ceilE
  have hP := two_pow_pos f
  rw [Int.neg_ediv, Int.sign_eq_one_of_pos hP]
  simp only [Int.dvd_iff_emod_eq_zero]
  split
  · simp
  · rw [← add_one_mul']; congr 1; omega

theorem roundE_cases (f : Nat) (a : Int) :
    roundE f a = if 2 * (a % 2 ^ f) < 2 ^ f ∨ (2 * (a % 2 ^ f) = 2 ^ f ∧ a < 0) then a / 2 ^ f * 2 ^ f
      else a / 2 ^ f * 2 ^ f + 2 ^ f := by
  unfold roundE
  simp only []
  rw [← add_one_mul']
  by_cases h1 : 2 * (a % 2 ^ f) < 2 ^ f
  · simp [h1]
  · by_cases h2 : 2 * (a % 2 ^ f) = 2 ^ f
    · by_cases h3 : a < 0
      · have : ¬ 0 ≤ a := by omega
        simp [h2, h3, this]
      · have : a ≥ 0 := by omega
        simp [h2, h3, this]
    · have : 2 * (a % 2 ^ f) > 2 ^ f := by omega
      simp [h1, h2, this]

theorem roundEvenE_cases (f : Nat) (a : Int) :
    roundEvenE f a = if 2 * (a % 2 ^ f) < 2 ^ f ∨ (2 * (a % 2 ^ f) = 2 ^ f ∧ (a / 2 ^ f) % 2 = 0) then a / 2 ^ f * 2 ^ f
      else a / 2 ^ f * 2 ^ f + 2 ^ f := by
  unfold roundEvenE
  simp only []
  rw [← add_one_mul']
  by_cases h1 : 2 * (a % 2 ^ f) < 2 ^ f
  · simp [h1]
  · by_cases h2 : 2 * (a % 2 ^ f) = 2 ^ f
    · by_cases h3 : (a / 2 ^ f) % 2 = 0
      · simp [h2, h3]
      · simp [h2, h3]
    · have : 2 * (a % 2 ^ f) > 2 ^ f := by omega
      simp [h1, h2, this]

theorem truncE_cases (f : Nat) (a : Int) :
    truncE f a = if 0 ≤ a ∨ a % 2 ^ f = 0 then a / 2 ^ f * 2 ^ f else a / 2 ^ f * 2 ^ f + 2 ^ f := by
  unfold truncE
  have hP := two_pow_pos f
  rw [Int.tdiv_eq_ediv, Int.sign_eq_one_of_pos hP]
  simp only [Int.dvd_iff_emod_eq_zero]
  split
  · simp
  · rw [← add_one_mul']

/-- basic facts about the floor `t = a / P * P` and the remainder -/
theorem floor_facts (f : Nat) (a : Int) :
    a = a / 2 ^ f * 2 ^ f + a % 2 ^ f ∧ 0 ≤ a % 2 ^ f ∧ a % 2 ^ f < 2 ^ f ∧
    (0 ≤ a → 0 ≤ a / 2 ^ f * 2 ^ f) ∧ (a < 0 → a / 2 ^ f * 2 ^ f + 2 ^ f ≤ 0) := by
  have hP := two_pow_pos f
  refine ⟨?_, Int.emod_nonneg a (Int.ne_of_gt hP), Int.emod_lt_of_pos a hP, ?_, ?_⟩
  · have := Int.emod_add_mul_ediv a (2 ^ f)
    rw [Int.mul_comm] at this; omega
  · intro h
    exact Int.mul_nonneg (Int.ediv_nonneg h (Int.le_of_lt hP)) (Int.le_of_lt hP)
  · intro h
    have hq : a / 2 ^ f < 0 := Int.ediv_neg_of_neg_of_pos h hP
    rw [← add_one_mul']
    exact Int.mul_nonpos_of_nonpos_of_nonneg (by omega) (Int.le_of_lt hP)

end Layout
end Sfx
