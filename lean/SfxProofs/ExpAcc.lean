import SfxProofs.ExpAccModel
import SfxProofs.ExpAccReal
/-
  ExpAcc.lean — property C15 (exp clause) for `transcendental::exp` (model `Trans.exp`, `S = D`) on operands `|x| ≤ 4`, over
  Mathlib's reals.  With `val y = (y : ℝ) / 2 ^ D.f`, for every supported `D` (valid, signed, `23 ≤ f`, `9 ≤ intBits`):

      |val x| ≤ 4  ∧  exp x = Ok(r)   →   |val r - e^(val x)| ≤ e^(val x) / 2^20 + 64 ulp

  (`exp_accuracy_small`: the requested statement for `|val x| ≤ 1`; `exp_accuracy_four`: `|val x| ≤ 4`).  The proofs give the
  sharper one-sided bounds  `0 ≤ e^X - val r ≤ (2f + 6) ulp`  for `x ≥ 0`  and  `-1 ulp ≤ val r - e^X ≤ (2f + 6) ulp`  for `x < 0`.
  For large operands the clause is FALSE (KNOWN FINDING D10): see `SfxProofs/ExpAccNeg.lean` (`exp_counterexample`,
  `C15_statement_false`).

  Structure: `ExpAccModel.lean` shows that every `Ok` result of the model is the integer trace `ExpSpec` (`ExpAccDefs.lean`);
  `ExpAccReal.lean` bounds the trace:
    * one iteration `term ← ⌊⌊term·x / 2^f⌋ / i⌋` is a single floor `⌊term · X / i⌋`; with `e_i = X^i/i! - term_i ≥ 0` (in ulp)
      `e_i·X/(i+1) ≤ e_{i+1} ≤ e_i·X/(i+1) + 1`; all errors are one-sided (every operation truncates, all quantities are ≥ 0);
    * once `X / i ≤ 1/2` the potential `E + e` (`E` = error of the sum) grows by at most 2 per iteration (`loop_late`): the sum
      loses at most `2 (f - 2)` ulp for `X ≤ 1`;
    * for `X ≤ 4` the six iterations `i = 2 … 7` are bounded by explicit tables (`loop_early`, `aT`, `bT`: `E + e ≤ 19.72` ulp),
      then `loop_late`: at most `2f + 4` ulp in total;
    * the omitted tail `Σ_{i ≥ f} X^i / i! ≤ 2 X^f / f!` (`Complex.exp_bound'`) is below one ulp (`2 · 8^f ≤ f!` for `f ≥ 23`);
    * `x < 0`: `r = ⌊2^2f / result⌋` with `result ≥ 1`: the error of the reciprocal is at most that of `result`, plus 1 ulp;
    * `x = 1`: the constant `E = 22802600 / 2^23` (`Real.exp_one_gt_d9`, `Real.exp_one_lt_d9`);
    * budget: `(2f + 6) ulp ≤ 64 ulp + 2^-20 / K` for every `f` and `K ≤ 256` (`K = e^4 ≤ 55` for negative operands).
  The bound `4` is where this accounting stops for `f = 23` (for `X ≤ 5` the same tables give ≈ 69 ulp > 64 ulp on negative
  operands); the true validity region is larger (≈ |X| < 11.8 for I32F32).
  The only power of an integer in the statements below is `2 ^ D.f : ℕ` in the hypotheses `hsmall`; it is elaborated here with
  Mathlib's `Monoid.npow` instance (definitionally equal to core's `Nat.pow`), like the powers in `SfxProps/C15.lean`.
-/
namespace Sfx.ExpAccPf

/-- the hypothesis on the operand in real form -/
theorem exp_accuracy_abs_le_one (D : Layout) (hv : D.valid) (hs : D.signed = true) (hf : 23 ≤ D.f) (hint : 9 ≤ D.intBits)
    (x : Int) (hx : inRange D x) (hsmall : |(x : ℝ) / 2 ^ D.f| ≤ 1) (r : Int) (it : Nat) (dbg : Bool) :
    Trans.run (Trans.exp D D x) = .ok (some r, it) dbg →
      |(r : ℝ) / 2 ^ D.f - Real.exp ((x : ℝ) / 2 ^ D.f)| ≤ Real.exp ((x : ℝ) / 2 ^ D.f) / 2 ^ 20 + 64 / 2 ^ D.f := by
  intro h
  exact exp_real_one D.f hf x r hsmall (exp_acc D hv hs hf hint x hx r it dbg h)

theorem natAbs_le_real (x : Int) (B f : ℕ) (h : x.natAbs ≤ B * 2 ^ f) : |(x : ℝ) / 2 ^ f| ≤ B := by
  have hG : (0 : ℝ) < 2 ^ f := by positivity
  have h1 : ((x.natAbs : ℕ) : ℝ) ≤ ((B * 2 ^ f : ℕ) : ℝ) := by exact_mod_cast h
  rw [Nat.cast_natAbs, Int.cast_abs] at h1
  push_cast at h1
  rw [abs_div, abs_of_pos hG, div_le_iff₀ hG]
  exact h1

/-- C15 (exp clause) for `exp::<D, D>` on operands `|x| ≤ 1` -/
theorem exp_accuracy_small (D : Layout) (hv : D.valid) (hs : D.signed = true) (hf : 23 ≤ D.f) (hint : 9 ≤ D.intBits)
    (x : Int) (hx : inRange D x) (hsmall : x.natAbs ≤ 2 ^ D.f) (r : Int) (it : Nat) (dbg : Bool) :
    Trans.run (Trans.exp D D x) = .ok (some r, it) dbg →
      |(r : ℝ) / 2 ^ D.f - Real.exp ((x : ℝ) / 2 ^ D.f)| ≤ Real.exp ((x : ℝ) / 2 ^ D.f) / 2 ^ 20 + 64 / 2 ^ D.f := by
  have := natAbs_le_real x 1 D.f (by omega)
  exact exp_accuracy_abs_le_one D hv hs hf hint x hx (by simpa using this) r it dbg

/-- the same for `|x| ≤ 4`, hypothesis in real form -/
theorem exp_accuracy_abs_le_four (D : Layout) (hv : D.valid) (hs : D.signed = true) (hf : 23 ≤ D.f) (hint : 9 ≤ D.intBits)
    (x : Int) (hx : inRange D x) (hsmall : |(x : ℝ) / 2 ^ D.f| ≤ 4) (r : Int) (it : Nat) (dbg : Bool) :
    Trans.run (Trans.exp D D x) = .ok (some r, it) dbg →
      |(r : ℝ) / 2 ^ D.f - Real.exp ((x : ℝ) / 2 ^ D.f)| ≤ Real.exp ((x : ℝ) / 2 ^ D.f) / 2 ^ 20 + 64 / 2 ^ D.f := by
  intro h
  exact exp_real_four D.f hf x r hsmall (exp_acc D hv hs hf hint x hx r it dbg h)

/-- C15 (exp clause) for `exp::<D, D>` on operands `|x| ≤ 4` -/
theorem exp_accuracy_four (D : Layout) (hv : D.valid) (hs : D.signed = true) (hf : 23 ≤ D.f) (hint : 9 ≤ D.intBits)
    (x : Int) (hx : inRange D x) (hsmall : x.natAbs ≤ 4 * 2 ^ D.f) (r : Int) (it : Nat) (dbg : Bool) :
    Trans.run (Trans.exp D D x) = .ok (some r, it) dbg →
      |(r : ℝ) / 2 ^ D.f - Real.exp ((x : ℝ) / 2 ^ D.f)| ≤ Real.exp ((x : ℝ) / 2 ^ D.f) / 2 ^ 20 + 64 / 2 ^ D.f := by
  have := natAbs_le_real x 4 D.f hsmall
  exact exp_accuracy_abs_le_four D hv hs hf hint x hx (by simpa using this) r it dbg

/-- sharper, one-sided form for nonnegative operands `0 ≤ x ≤ 4`: `0 ≤ e^X - val r ≤ (2f + 6) ulp` -/
theorem exp_accuracy_pos_sharp (D : Layout) (hv : D.valid) (hs : D.signed = true) (hf : 23 ≤ D.f) (hint : 9 ≤ D.intBits)
    (x : Int) (hx : inRange D x) (hx0 : 0 < x) (hx1 : (x : ℝ) / 2 ^ D.f ≠ 1) (hx4 : (x : ℝ) / 2 ^ D.f ≤ 4)
    (r : Int) (it : Nat) (dbg : Bool) :
    Trans.run (Trans.exp D D x) = .ok (some r, it) dbg →
      0 ≤ Real.exp ((x : ℝ) / 2 ^ D.f) - (r : ℝ) / 2 ^ D.f ∧
      Real.exp ((x : ℝ) / 2 ^ D.f) - (r : ℝ) / 2 ^ D.f ≤ (2 * (D.f : ℝ) + 6) / 2 ^ D.f := by
  intro h
  have hG : (0 : ℝ) < 2 ^ D.f := by positivity
  have hP := pow2_pos D.f
  rcases exp_acc D hv hs hf hint x hx r it dbg h with ⟨h0, _⟩ | ⟨h1, _⟩ | ⟨_, hr⟩ | ⟨hn, _⟩
  · omega
  · exfalso
    apply hx1
    rw [h1, pow2_cast, div_self hG.ne']
  · have hy4 : x ≤ 4 * pow2 D.f := by
      rw [div_le_iff₀ hG, ← pow2_cast] at hx4
      exact_mod_cast hx4
    obtain ⟨s0, s1⟩ := sum_err_four D.f (by omega) x hx0.le hy4
    rw [← hr] at s0 s1
    exact pos_final D.f hf x r (2 * (D.f : ℝ) + 4) hx0.le hx4 s0 s1 (by linarith)
  · omega

/-! the hypotheses are satisfied by the layouts of the task -/
example (x r : Int) (it : Nat) (dbg : Bool) (hx : inRange ⟨true, 32, 23⟩ x) (h : x.natAbs ≤ 2 ^ 23) :=
  exp_accuracy_small ⟨true, 32, 23⟩ (by decide) rfl (by decide) (by decide) x hx h r it dbg
example (x r : Int) (it : Nat) (dbg : Bool) (hx : inRange ⟨true, 128, 88⟩ x) (h : x.natAbs ≤ 4 * 2 ^ 88) :=
  exp_accuracy_four ⟨true, 128, 88⟩ (by decide) rfl (by decide) (by decide) x hx h r it dbg

end Sfx.ExpAccPf

#print axioms Sfx.ExpAccPf.exp_accuracy_abs_le_one
#print axioms Sfx.ExpAccPf.exp_accuracy_small
#print axioms Sfx.ExpAccPf.exp_accuracy_abs_le_four
#print axioms Sfx.ExpAccPf.exp_accuracy_four
#print axioms Sfx.ExpAccPf.exp_accuracy_pos_sharp
