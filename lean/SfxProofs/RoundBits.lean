import SfxModel.Round
import SfxProofs.PrimLemmas
/-
  RoundBits.lean — bit-level facts (on `Nat` patterns) needed for the masks of `macros_frac.rs`.
-/
namespace Sfx

/-! ### Nat bit lemmas -/

theorem nat_testBit_hi {n f : Nat} (hf : f ≤ n) (i : Nat) :
    (2 ^ n - 2 ^ f).testBit i = (decide (f ≤ i) && decide (i < n)) := by
  have h : 2 ^ n - 2 ^ f = (2 ^ (n - f) - 1) * 2 ^ f := by
    rw [Nat.sub_mul, ← Nat.pow_add, Nat.sub_add_cancel hf, Nat.one_mul]
  rw [h, Nat.testBit_mul_two_pow, Nat.testBit_two_pow_sub_one]
  by_cases h1 : f ≤ i <;> simp [h1]
  omega

theorem nat_and_hi {x n f : Nat} (hf : f ≤ n) (hx : x < 2 ^ n) :
    x &&& (2 ^ n - 2 ^ f) = x / 2 ^ f * 2 ^ f := by
  apply Nat.eq_of_testBit_eq
  intro i
  rw [Nat.testBit_and, nat_testBit_hi hf, Nat.testBit_mul_two_pow, Nat.testBit_div_two_pow]
  by_cases h1 : f ≤ i
  · by_cases h2 : i < n
    · simp [h1, h2, Nat.sub_add_cancel h1]
    · have : x.testBit i = false :=
        Nat.testBit_lt_two_pow (Nat.lt_of_lt_of_le hx (Nat.pow_le_pow_right (by decide) (by omega)))
      simp [h1, h2, Nat.sub_add_cancel h1, this]
  · simp [h1]

theorem nat_xor_hi {n f : Nat} (hf : f < n) : (2 ^ n - 2 ^ f) ^^^ (2 ^ n - 2 ^ (f + 1)) = 2 ^ f := by
  apply Nat.eq_of_testBit_eq
  intro i
  rw [Nat.testBit_xor, nat_testBit_hi (Nat.le_of_lt hf), nat_testBit_hi hf, Nat.testBit_two_pow]
  by_cases h1 : f ≤ i <;> by_cases h2 : i < n <;> by_cases h3 : f + 1 ≤ i <;> simp [h1, h2, h3] <;> omega

theorem nat_xor_lo {f : Nat} (hf : 0 < f) : (2 ^ f - 1) ^^^ (2 ^ (f - 1) - 1) = 2 ^ (f - 1) := by
  apply Nat.eq_of_testBit_eq
  intro i
  rw [Nat.testBit_xor, Nat.testBit_two_pow_sub_one, Nat.testBit_two_pow_sub_one, Nat.testBit_two_pow]
  by_cases h1 : i < f <;> by_cases h2 : i < f - 1 <;> simp [h1, h2] <;> omega

theorem nat_and_two_pow_eq_zero (x k : Nat) : x &&& 2 ^ k = 0 ↔ x.testBit k = false := by
  constructor
  · intro h
    have := Nat.testBit_and x (2 ^ k) k
    rw [h] at this
    simpa using this.symm
  · intro h
    apply Nat.eq_of_testBit_eq
    intro i
    rw [Nat.testBit_and, Nat.testBit_two_pow]
    by_cases hi : k = i
    · subst hi; simp [h]
    · simp [hi]

theorem nat_and_two_pow_eq_zero_iff_div (x k : Nat) : x &&& 2 ^ k = 0 ↔ x / 2 ^ k % 2 = 0 := by
  rw [nat_and_two_pow_eq_zero, Nat.testBit_eq_decide_div_mod_eq]
  simp

theorem nat_and_two_pow_eq_zero_iff_lt (x k : Nat) : x &&& 2 ^ k = 0 ↔ x % 2 ^ (k + 1) < 2 ^ k := by
  rw [nat_and_two_pow_eq_zero]
  have hb : x.testBit k = (x % 2 ^ (k + 1)).testBit k := by
    rw [Nat.testBit_mod_two_pow]; simp
  have hlt : x % 2 ^ (k + 1) < 2 ^ (k + 1) := Nat.mod_lt _ (Nat.two_pow_pos _)
  rw [hb]
  generalize x % 2 ^ (k + 1) = y at *
  constructor
  · intro h
    apply Decidable.byContradiction
    intro hge
    have hge : 2 ^ k ≤ y := Nat.le_of_not_lt hge
    have : y.testBit k = true := by
      rw [Nat.testBit_eq_decide_div_mod_eq]
      have h1 : y / 2 ^ k = 1 := by
        apply Nat.le_antisymm
        · apply Nat.le_of_lt_succ
          rw [Nat.div_lt_iff_lt_mul (Nat.two_pow_pos _)]
          rw [Nat.pow_succ] at hlt; omega
        · rw [Nat.le_div_iff_mul_le (Nat.two_pow_pos _)]; omega
      simp [h1]
    rw [h] at this; contradiction
  · intro h
    exact Nat.testBit_lt_two_pow h

end Sfx
