import SfxProofs.FmtTopBytes
/-
  FmtTop.lean — property C09 (formatting), the top-level theorem for the model `Display.fmt`.

  `fmt_correct` assembles the three partial developments
    FmtStruct   (totality, output = `assemble` (sign / prefix / padding) of a flag-independent body),
    FmtRadix*   (value of the Binary / Octal / LowerHex / UpperHex digits, bytes of the encoded buffer),
    FmtDec*     (value of the Display / Debug digits, round-trip bound)
  into one statement: for every value, every format spec (any sign, width, fill, alignment, `+`, `#`, `0`; precision
  `< 2^16`), all five primitive widths and every fractional-bit count,
    (1) `Display.fmt` returns — no panic, no debug-only check — exactly `assemble spec neg (render digits, ez)` where the
        digits `(ip, fp, ez) = digitsOf kind prec abs nbits fracN` do NOT depend on sign or flags ("flags only pad");
    (2) the digits are well formed: canonical integer part, digits below the radix, no trailing fraction zero;
    (3) their value is the exact value correctly rounded (ties to even) at the number of fraction digits shown / requested;
        exact for the power-of-two radices without precision; and the default decimal output rounds back (ties-even on the
        grid `2^-fracN`) to exactly the same bits, being strictly within half an ulp of the value.
  Checked with `#eval` (FmtTopEval.lean) on all 8-bit layouts × 256 values × 6 kinds × precision none/0..10/200 × 5 flag sets,
  and on samples of the 16/32/64/128-bit layouts, before proving.
-/
namespace Sfx.FmtTopPf
open Sfx.Display
open Sfx.TextSpec (FmtSpec rneDiv)
open Sfx.FmtDecPf (valD)

/-! ### the kind letter -/

theorem upper_eq (kind : String) : (FmtPf.radixOf kind == Radix.upHex) = (kind == "X") := by
  unfold FmtPf.radixOf
  split
  · decide
  · decide
  · decide
  · decide
  · rename_i h
    have hx : (kind == "X") = false := beq_eq_false_iff_ne.2 h
    rw [hx]; rfl

/-! ### (1): the body printed is the rendering of `digitsOf` -/

theorem body_eq (kind : String) (prec : Option Nat) (abs nbits fracN : Nat)
    (hn : FmtPf.WidthOk nbits) (hf : fracN ≤ nbits) (ha : abs < 2 ^ nbits) :
    FmtPf.body kind prec abs nbits fracN = bodyOfDigits kind (digitsOf kind prec abs nbits fracN) := by
  unfold FmtPf.body FmtPf.digitsBuf bodyOfDigits digitsOf rawDigits
  by_cases hr : FmtPf.radixOf kind = .dec
  · rw [if_pos hr, if_pos hr]
    obtain ⟨ip, fp, buf, hd, hb, _, hbody⟩ := dec_body nbits abs fracN prec hn hf ha
    have hup : (kind == "X") = false := by rw [← upper_eq, hr]; rfl
    rw [hd, hb, hup]
    exact hbody
  · rw [if_neg hr, if_neg hr]
    obtain ⟨ip, fp, buf, hd, hb, _, hbody⟩ := radix_body nbits abs fracN (FmtPf.radixOf kind) prec hn hf ha hr
    rw [hd, hb, ← upper_eq]
    exact hbody

/-- explicit output: `Display.fmt` is `assemble` (sign, prefix, padding) of the rendering of `digitsOf` -/
theorem fmt_eq_assemble (spec : FmtSpec) (neg : Bool) (abs nbits fracN : Nat)
    (hn : FmtPf.WidthOk nbits) (hf : fracN ≤ nbits) (ha : abs < 2 ^ nbits) (hk : FmtPf.KindOk spec.kind)
    (hp : FmtPf.PrecOk spec.prec) :
    Display.fmt spec neg abs nbits fracN
      = some (.ok (FmtPf.assemble spec neg (bodyOfDigits spec.kind (digitsOf spec.kind spec.prec abs nbits fracN))) false) := by
  rw [FmtPf.fmt_factors spec neg abs nbits fracN hn hf ha hk hp, body_eq spec.kind spec.prec abs nbits fracN hn hf ha]

/-! ### (2), (3): the digits -/

/-- the specification of printed digits `ip . fp` followed by `ez` zeros, in radix `R`, for the value `abs / 2^fracN` -/
def DigitsOk (R : Nat) (prec : Option Nat) (abs fracN : Nat) (ip fp : List Nat) (ez : Nat) : Prop :=
  Canon ip ∧ (∀ d, d ∈ ip ++ fp → d < R) ∧ fp.getLast? ≠ some 0 ∧
  (match prec with
   | none =>
     ez = 0 ∧ valI R (ip ++ fp) = rneDiv (abs * R ^ fp.length) (2 ^ fracN) ∧
     (R ≠ 10 → valI R (ip ++ fp) * 2 ^ fracN = abs * R ^ fp.length) ∧
     (R = 10 → rneDiv (valI 10 (ip ++ fp) * 2 ^ fracN) (10 ^ fp.length) = abs ∧
        2 * (valI 10 (ip ++ fp) * 2 ^ fracN) < 2 * (abs * 10 ^ fp.length) + 10 ^ fp.length ∧
        2 * (abs * 10 ^ fp.length) < 2 * (valI 10 (ip ++ fp) * 2 ^ fracN) + 10 ^ fp.length)
   | some p => fp.length + ez = p ∧ valI R (ip ++ fp) * R ^ ez = rneDiv (abs * R ^ p) (2 ^ fracN))

theorem getLast_of_mod (fp : List Nat) (h : fp = [] ∨ valD fp % 10 ≠ 0) : fp.getLast? ≠ some 0 := by
  intro hl
  obtain ⟨ys, rfl⟩ := List.getLast?_eq_some_iff.1 hl
  rcases h with h | h
  · simp at h
  · rw [FmtDecPf.valD_snoc] at h; omega

theorem valD_strip_append (ip fp : List Nat) : valI 10 (stripZeros ip ++ fp) = valD (ip ++ fp) := by
  rw [← valD_eq_valI, FmtDecPf.valD_append, FmtDecPf.valD_append, valD_strip]

theorem dec_digits_ok (kind : String) (prec : Option Nat) (abs nbits fracN : Nat)
    (hn : FmtPf.WidthOk nbits) (hf : fracN ≤ nbits) (ha : abs < 2 ^ nbits) (hro : FmtPf.radixOf kind = .dec) :
    DigitsOk 10 prec abs fracN (digitsOf kind prec abs nbits fracN).1 (digitsOf kind prec abs nbits fracN).2.1
      (digitsOf kind prec abs nbits fracN).2.2 := by
  obtain ⟨ip, fp, hd, _, h9, _, htr, _, _⟩ := FmtDecPf.dec_int_digits nbits abs fracN prec hn hf ha
  have hdig : digitsOf kind prec abs nbits fracN = (stripZeros ip, fp, prec.getD 0 - fp.length) := by
    unfold digitsOf rawDigits
    rw [if_pos hro, hd]
  rw [hdig]
  refine ⟨canon_strip ip, ?_, getLast_of_mod fp htr, ?_⟩
  · intro d hd'
    rw [List.mem_append] at hd'
    rcases hd' with hd' | hd'
    · rcases mem_strip ip d hd' with h | h
      · omega
      · have := h9 d (List.mem_append_left _ h); omega
    · have := h9 d (List.mem_append_right _ hd'); omega
  · cases prec with
    | none =>
      obtain ⟨ip', fp', hd', _, hv, hnear, hrt, _⟩ := FmtDecPf.dec_auto nbits abs fracN hn hf ha
      rw [hd] at hd'
      injection hd' with hpair _
      injection hpair with e1 e2
      subst e1; subst e2
      simp only [valD_strip_append]
      refine ⟨by simp, hv, fun h => absurd rfl h, fun _ => ⟨hrt, hnear.1, hnear.2⟩⟩
    | some p =>
      obtain ⟨ip', fp', hd', hlen, _, hv⟩ := FmtDecPf.dec_rounded nbits abs fracN p hn hf ha
      rw [hd] at hd'
      injection hd' with hpair _
      injection hpair with e1 e2
      subst e1; subst e2
      simp only [valD_strip_append, Option.getD_some]
      exact ⟨by omega, hv⟩

theorem radix_digits_ok (kind : String) (prec : Option Nat) (abs nbits fracN : Nat)
    (hn : FmtPf.WidthOk nbits) (hf : fracN ≤ nbits) (ha : abs < 2 ^ nbits) (hro : FmtPf.radixOf kind ≠ .dec) :
    DigitsOk (2 ^ (FmtPf.radixOf kind).digitBits) prec abs fracN (digitsOf kind prec abs nbits fracN).1
      (digitsOf kind prec abs nbits fracN).2.1 (digitsOf kind prec abs nbits fracN).2.2 := by
  obtain ⟨ip, fp, hd, hrange⟩ := FmtRadixPf.digits_in_range nbits abs fracN (FmtPf.radixOf kind) prec hn hf ha hro
  have hdig : digitsOf kind prec abs nbits fracN = (ip, fp, prec.getD 0 - fp.length) := by
    unfold digitsOf rawDigits
    rw [if_neg hro, hd]
  rw [hdig]
  have hR10 : 2 ^ (FmtPf.radixOf kind).digitBits ≠ 10 := by
    cases FmtPf.radixOf kind <;> decide
  cases prec with
  | none =>
    obtain ⟨ip', fp', hd', hv, hc1, hc2, hc3⟩ := FmtRadixPf.radix_exact nbits abs fracN (FmtPf.radixOf kind) hn hf ha hro
    obtain ⟨ip'', fp'', hd'', hv'⟩ := FmtRadixPf.radix_exact_rne nbits abs fracN (FmtPf.radixOf kind) hn hf ha hro
    rw [hd] at hd' hd''
    injection hd' with hpair _
    injection hpair with e1 e2
    subst e1; subst e2
    injection hd'' with hpair _
    injection hpair with e1 e2
    subst e1; subst e2
    exact ⟨⟨hc1, hc2⟩, hrange, hc3, by simp, hv', fun _ => hv, fun h => absurd h hR10⟩
  | some p =>
    obtain ⟨ip', fp', hd', hlen, hv, hc1, hc2, hc3⟩ :=
      FmtRadixPf.radix_rounded nbits abs fracN (FmtPf.radixOf kind) p hn hf ha hro
    rw [hd] at hd'
    injection hd' with hpair _
    injection hpair with e1 e2
    subst e1; subst e2
    refine ⟨⟨hc1, hc2⟩, hrange, hc3, ?_⟩
    simp only [Option.getD_some]
    exact ⟨by omega, hv⟩

theorem digits_ok (kind : String) (prec : Option Nat) (abs nbits fracN : Nat)
    (hn : FmtPf.WidthOk nbits) (hf : fracN ≤ nbits) (ha : abs < 2 ^ nbits) (hk : FmtPf.KindOk kind) :
    DigitsOk (radixNat kind) prec abs fracN (digitsOf kind prec abs nbits fracN).1 (digitsOf kind prec abs nbits fracN).2.1
      (digitsOf kind prec abs nbits fracN).2.2 := by
  rcases hk with hk | hk | hk | hk | hk | hk <;> subst hk
  · exact dec_digits_ok "d" prec abs nbits fracN hn hf ha rfl
  · exact dec_digits_ok "D" prec abs nbits fracN hn hf ha rfl
  · exact radix_digits_ok "b" prec abs nbits fracN hn hf ha (by decide)
  · exact radix_digits_ok "o" prec abs nbits fracN hn hf ha (by decide)
  · exact radix_digits_ok "x" prec abs nbits fracN hn hf ha (by decide)
  · exact radix_digits_ok "X" prec abs nbits fracN hn hf ha (by decide)

/-! ### the top-level theorem -/

/-- **C09.**  For every primitive width, fractional-bit count, magnitude `abs`, sign `neg` and format spec (six kinds, any
width / fill / alignment / `+` / `#` / `0`, precision `< 2^16` when present), with
`(ip, fp, ez) = digitsOf spec.kind spec.prec abs nbits fracN` — a function of kind, precision and value ONLY — and
`R = spec.radix` (10, 2, 8, 16):
(1) `Display.fmt` succeeds (no panic, no debug-only check) and its bytes are `assemble spec neg (int[.frac], ez)`:
    the flags and the sign add only sign, prefix and padding around the rendered digits and the `ez` precision zeros
    (the point is printed iff a fraction digit or a precision zero follows);
(2) the integer digits are canonical, all digits are below the radix, the fraction digits end in a non-zero digit;
(3) without precision: no zeros are appended and the digit string is the exact value correctly rounded (ties to even) at
    the number of fraction digits shown; for `R = 2, 8, 16` it IS the exact value; for `R = 10` it is strictly within
    half an ulp (`2^-(fracN+1)`) of the value and rounding it to the grid `2^-fracN` (ties to even — `TextSpec.parseExact`)
    gives back exactly `abs`;
    with precision `p`: exactly `p` fraction places are printed (`fp.length + ez = p`) and the digit string followed by
    the `ez` zeros is the exact value correctly rounded (ties to even) at `p` places. -/
theorem fmt_correct (spec : FmtSpec) (neg : Bool) (abs nbits fracN : Nat)
    (hn : FmtPf.WidthOk nbits) (hf : fracN ≤ nbits) (ha : abs < 2 ^ nbits) (hk : FmtPf.KindOk spec.kind)
    (hp : FmtPf.PrecOk spec.prec) :
    ∀ ip fp ez, digitsOf spec.kind spec.prec abs nbits fracN = (ip, fp, ez) →
      -- (1) totality and "flags only pad"
      Display.fmt spec neg abs nbits fracN
        = some (.ok (FmtPf.assemble spec neg (render (spec.kind == "X") ip fp (!fp.isEmpty || decide (0 < ez)), ez)) false) ∧
      -- (2) well-formed digits
      Canon ip ∧ (∀ d, d ∈ ip ++ fp → d < spec.radix) ∧ fp.getLast? ≠ some 0 ∧
      -- (3) value
      (match spec.prec with
       | none =>
         ez = 0 ∧ valI spec.radix (ip ++ fp) = rneDiv (abs * spec.radix ^ fp.length) (2 ^ fracN) ∧
         (spec.radix ≠ 10 → valI spec.radix (ip ++ fp) * 2 ^ fracN = abs * spec.radix ^ fp.length) ∧
         (spec.radix = 10 → rneDiv (valI 10 (ip ++ fp) * 2 ^ fracN) (10 ^ fp.length) = abs ∧
            2 * (valI 10 (ip ++ fp) * 2 ^ fracN) < 2 * (abs * 10 ^ fp.length) + 10 ^ fp.length ∧
            2 * (abs * 10 ^ fp.length) < 2 * (valI 10 (ip ++ fp) * 2 ^ fracN) + 10 ^ fp.length)
       | some p =>
         fp.length + ez = p ∧ valI spec.radix (ip ++ fp) * spec.radix ^ ez = rneDiv (abs * spec.radix ^ p) (2 ^ fracN)) := by
  intro ip fp ez hd
  have h1 := fmt_eq_assemble spec neg abs nbits fracN hn hf ha hk hp
  have h2 := digits_ok spec.kind spec.prec abs nbits fracN hn hf ha hk
  rw [hd] at h1 h2
  exact ⟨h1, h2⟩

/-- with a precision `p` the point is printed iff `p > 0` -/
theorem dot_iff_prec (fp : List Nat) (ez p : Nat) (h : fp.length + ez = p) :
    (!fp.isEmpty || decide (0 < ez)) = decide (0 < p) := by
  cases fp with
  | nil => simp at h; simp [h]
  | cons a l => simp at h; simp; omega

/-- "flags only pad", relational form: two requests that agree on kind, precision and value print the same digit body
(that of `digitsOf`); their outputs differ only through `assemble`, i.e. in sign, prefix and padding -/
theorem fmt_flags_only_pad (spec₁ spec₂ : FmtSpec) (neg₁ neg₂ : Bool) (abs nbits fracN : Nat)
    (hn : FmtPf.WidthOk nbits) (hf : fracN ≤ nbits) (ha : abs < 2 ^ nbits) (hk : FmtPf.KindOk spec₁.kind)
    (hp : FmtPf.PrecOk spec₁.prec) (hkind : spec₂.kind = spec₁.kind) (hprec : spec₂.prec = spec₁.prec) :
    Display.fmt spec₁ neg₁ abs nbits fracN
      = some (.ok (FmtPf.assemble spec₁ neg₁ (bodyOfDigits spec₁.kind (digitsOf spec₁.kind spec₁.prec abs nbits fracN))) false) ∧
    Display.fmt spec₂ neg₂ abs nbits fracN
      = some (.ok (FmtPf.assemble spec₂ neg₂ (bodyOfDigits spec₁.kind (digitsOf spec₁.kind spec₁.prec abs nbits fracN))) false) := by
  refine ⟨fmt_eq_assemble spec₁ neg₁ abs nbits fracN hn hf ha hk hp, ?_⟩
  have := fmt_eq_assemble spec₂ neg₂ abs nbits fracN hn hf ha (hkind ▸ hk) (hprec ▸ hp)
  rw [hkind, hprec] at this
  exact this

#print axioms fmt_correct
#print axioms fmt_eq_assemble
#print axioms fmt_flags_only_pad
#print axioms body_eq
#print axioms digits_ok

end Sfx.FmtTopPf
