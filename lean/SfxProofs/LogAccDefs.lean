/-
  LogAccDefs.lean — import-free integer description ("trace") of what `transcendental::log2` / `ln` compute, used to connect
  the executable model (`SfxProofs/LogAccModel.lean`, core `Int` powers) with the real analysis (`SfxProofs/LogAccReal.lean`,
  Mathlib).  No `^` occurs here: `pow2 k` is `2 ^ k` by structural recursion, so that neither side depends on which `Pow`
  instance elaborates.
-/
namespace Sfx.LogAccPf

/-- `2 ^ k` -/
def pow2 : Nat → Int
  | 0 => 1
  | k + 1 => 2 * pow2 k

/-- the fractional loop of `log2_inner` on bit patterns, `F = 2^f`:
`x = x * x` (truncating fixed-point product); `result <<= 1`; `if x >= 2 { result |= 1; x = rs(x) }` -/
def fracPure (F : Int) : Nat → Int → Int → Int
  | 0, _, R => R
  | k + 1, y, R =>
    if 2 * F ≤ y * y / F then fracPure F k ((y * y / F + 1) / 2) (R * 2 + 1)
    else fracPure F k (y * y / F) (R * 2)

/-- `log2_inner` on an operand `x ≥ 1` (bits): `j` rounding halvings `x ↦ ⌈x / 2⌉` lead to `x' ∈ [1, 2)`, hence
`x ≤ 2^j x' ≤ x + 2^j - 1`; then `f` squaring steps starting from `result = j`. -/
def InnerSpec (f : Nat) (x r : Int) : Prop :=
  ∃ (j : Nat) (x' : Int), x ≤ pow2 j * x' ∧ pow2 j * x' ≤ x + pow2 j - 1 ∧ pow2 f ≤ x' ∧ x' < 2 * pow2 f ∧
    r = fracPure (pow2 f) f x' (j : Int)

/-- `log2`: directly on operands `≥ 1`, through the truncated reciprocal `⌊2^(2f) / x⌋` and a negation below `1` -/
def Log2Spec (f : Nat) (x r : Int) : Prop :=
  (pow2 f ≤ x ∧ InnerSpec f x r) ∨
  (0 < x ∧ x < pow2 f ∧ ∃ r', pow2 f ≤ pow2 f * pow2 f / x ∧ InnerSpec f (pow2 f * pow2 f / x) r' ∧ r = -r')

/-- `ln = log2 / LOG2_E` with the `I9F23` constant `12102203 / 2^23` widened to `f` fractional bits, truncating division -/
def LnSpec (f : Nat) (x r : Int) : Prop :=
  ∃ l, Log2Spec f x l ∧ r = Int.tdiv (l * pow2 f) (12102203 * pow2 (f - 23))

end Sfx.LogAccPf
