import SfxModel.Arith
import SfxProofs.PrimLemmas
import SfxProofs.WideDivBase
import SfxProofs.WideDivHalf
import SfxProofs.WideDivU
import SfxProofs.WideDivS
/-
  WideDiv.lean — correctness of the model of `src/wide_div.rs` and of `div_overflow` of `mul_div_fallback!`.

  Main theorems (all in namespace `Sfx`, core Lean only):
  * `divHalf_spec`       (SfxProofs/WideDivHalf.lean)
  * `divRemFromU_spec`, `divRemFromU_zero`   (SfxProofs/WideDivU.lean)
  * `divRemFromS_spec`   (SfxProofs/WideDivS.lean)
  * `divOverflowFallback_spec`, `divOverflowFallback_zero`   (this file)
-/
namespace Sfx
open WideDiv

/-! ### the double-limb dividend `self << frac_nbits` -/

/-- an arithmetic right shift stays in range -/
theorem shr_in {s : Bool} {n : Nat} (k : Nat) {a : Int} (ha : inI s n a) : inI s n (a / 2 ^ k) := by
  have hK := two_pow_pos k
  have hP := two_pow_pos (n - 1)
  cases s
  · rw [inU_iff] at *
    have := Int.ediv_le_self (2 ^ k) ha.1
    exact ⟨Int.ediv_nonneg ha.1 (Int.le_of_lt hK), by omega⟩
  · rw [inS_iff] at *
    have h1 : (2 : Int) ^ (n - 1) * 1 ≤ 2 ^ (n - 1) * 2 ^ k :=
      Int.mul_le_mul_of_nonneg_left (by omega) (Int.le_of_lt hP)
    constructor
    · rw [Int.le_ediv_iff_mul_le hK, Int.neg_mul]; omega
    · rw [Int.ediv_lt_iff_lt_mul hK]; omega

/-- `(self >> (NBITS - frac_nbits), (self << frac_nbits) as $Uns)` (or `(self, 0)`) are the two limbs of `a * 2^f` -/
theorem fallback_dividend (s : Bool) (n f : Nat) (hn32 : n < 2 ^ 31) (hf0 : f ≠ 0) (hf : f ≤ n) (a : Int) :
    (if f = n then pure (a, (0 : Int)) else do
      let k ← usub false 32 n f
      let h ← ushr n a k.toNat
      let l0 ← ushl s n a f
      pure (h, wrapU n l0) : Outcome (Int × Int))
    = .ok (a / 2 ^ (n - f), (a * 2 ^ f) % 2 ^ n) false := by
  by_cases hfn : f = n
  · subst hfn
    rw [if_pos rfl, pure_eq_ok, Nat.sub_self]
    simp [Int.mul_emod_left]
  · rw [if_neg hfn]
    have hk : inI false 32 ((n : Int) - (f : Int)) := by
      rw [inU_iff]
      have : (2 : Int) ^ 32 = 4294967296 := by decide
      have : (2 : Nat) ^ 31 = 2147483648 := by decide
      omega
    have hkn : ((n : Int) - (f : Int)).toNat = n - f := by omega
    rw [usub_ok hk, ok_false_bind, hkn]
    unfold ushr ushl
    have e1 : (n - f) % n = n - f := Nat.mod_eq_of_lt (by omega)
    have e2 : f % n = f := Nat.mod_eq_of_lt (by omega)
    have d1 : decide (n ≤ n - f) = false := by simp; omega
    have d2 : decide (n ≤ f) = false := by simp; omega
    rw [e1, e2, d1, d2, ok_false_bind, ok_false_bind, pure_eq_ok]
    unfold shrI shlI
    have : wrapU n (wrapI s n (a * 2 ^ f)) = (a * 2 ^ f) % 2 ^ n := wrapI_wrapI false s n _
    rw [this]

theorem dividend_recombine {n f : Nat} (hf : f ≤ n) (a : Int) :
    a / 2 ^ (n - f) * 2 ^ n + (a * 2 ^ f) % 2 ^ n = a * 2 ^ f := by
  have hF := two_pow_pos f
  have e : a / 2 ^ (n - f) = (a * 2 ^ f) / 2 ^ n := by
    rw [pow_sub_mul hf, Int.mul_ediv_mul_of_pos_left _ _ hF]
  have := Int.emod_add_mul_ediv (a * 2 ^ f) (2 ^ n)
  rw [e, Int.mul_comm]; omega

/-! ### the overflow flag -/

/-- a value fits `n` signed bits iff everything above bit `n` is the sign extension of its low `n` bits -/
theorem sext_iff {n : Nat} (hn : 1 ≤ n) (q : Int) :
    q / 2 ^ n = (if wrapS n q < 0 then -1 else 0) ↔ inI true n q := by
  have hN := two_pow_pos n
  have hP := two_pow_pos (n - 1)
  have hp := pow_split (n := n) (by omega)
  have hdm := Int.emod_add_mul_ediv q (2 ^ n)
  have hm0 := Int.emod_nonneg q (Int.ne_of_gt hN)
  have hm1 := Int.emod_lt_of_pos q hN
  constructor
  · intro heq
    rw [inS_iff]
    by_cases hneg : wrapS n q < 0
    · rw [if_pos hneg] at heq
      rw [heq] at hdm
      have hq : -(2 ^ n : Int) ≤ q ∧ q < 0 := by omega
      refine ⟨?_, by omega⟩
      apply Int.le_of_not_gt; intro hlt
      have : wrapS n q = q + 2 ^ n :=
        wrapS_unique (by omega) (-1) (by omega) ((inS_iff _ _).2 ⟨by omega, by omega⟩)
      omega
    · rw [if_neg hneg] at heq
      rw [heq] at hdm
      have hq : 0 ≤ q ∧ q < 2 ^ n := by omega
      refine ⟨by omega, ?_⟩
      apply Int.lt_of_not_ge; intro hge
      have : wrapS n q = q - 2 ^ n :=
        wrapS_unique (by omega) 1 (by omega) ((inS_iff _ _).2 ⟨by omega, by omega⟩)
      omega
  · intro hin
    rw [wrapS_of_in (by omega) hin]
    rw [inS_iff] at hin
    by_cases hneg : q < 0
    · rw [if_pos hneg]
      exact ((Int.ediv_emod_unique (a := q) (b := 2 ^ n) (r := q + 2 ^ n) (q := -1) hN).2
        ⟨by omega, by omega, by omega⟩).1
    · rw [if_neg hneg]
      exact Int.ediv_eq_zero_of_lt (by omega) (by omega)

/-- the same for the `2n`-bit wrapped quotient, as long as the exact quotient is at most `2^(2n-1)` in magnitude -/
theorem sext_wrap_iff {n : Nat} (hn : 1 ≤ n) {T : Int}
    (hlo : -(2 ^ (n - 1) * 2 ^ n : Int) ≤ T) (hhi : T ≤ 2 ^ (n - 1) * 2 ^ n) :
    inI true n (wrapS (2 * n) T) ↔ inI true n T := by
  have hN := two_pow_pos n
  have hP := two_pow_pos (n - 1)
  have hp := pow_split (n := n) (by omega)
  have h2 : (2 : Int) ^ (2 * n - 1) = 2 ^ (n - 1) * 2 ^ n := by
    rw [← Int.pow_add]; congr 1; omega
  have h2' : (2 : Int) ^ (2 * n) = 2 * (2 ^ (n - 1) * 2 ^ n) := by
    rw [pow_double]; rw [hp]; rw [Int.mul_assoc]
  have hbig : (2 : Int) ^ (n - 1) * 2 ≤ 2 ^ (n - 1) * 2 ^ n :=
    Int.mul_le_mul_of_nonneg_left (by omega) (Int.le_of_lt hP)
  by_cases hT : T = 2 ^ (n - 1) * 2 ^ n
  · have : wrapS (2 * n) T = -(2 ^ (n - 1) * 2 ^ n) :=
      wrapS_unique (by omega) 1 (by omega) ((inS_iff _ _).2 ⟨by omega, by omega⟩)
    rw [this, inS_iff, inS_iff]
    constructor <;> intro h <;> omega
  · rw [wrapS_of_in (by omega) ((inS_iff _ _).2 ⟨by omega, by omega⟩)]

/-! ### `div_overflow` of `mul_div_fallback!` -/

theorem divOverflowFallback_spec (s : Bool) (n f : Nat) (hn : 2 ≤ n) (heven : n % 2 = 0) (hn32 : n < 2 ^ 31) (hf : f ≤ n)
    (a b : Int) (ha : inI s n a) (hb : inI s n b) (hb0 : b ≠ 0) :
    divOverflowFallback s n f a b = .ok (ovfI s n (divSpec f a b)) false := by
  have hn1 : 1 ≤ n := by omega
  have hN := two_pow_pos n
  unfold divOverflowFallback divSpec
  by_cases hf0 : f = 0
  · subst hf0
    rw [if_pos rfl, if_neg hb0, pure_eq_ok]
    simp
  · rw [if_neg hf0, fallback_dividend s n f hn32 hf0 hf a, ok_false_bind]
    dsimp only
    have hl : inI false n ((a * 2 ^ f) % 2 ^ n) :=
      (inU_iff _ _).2 ⟨Int.emod_nonneg _ (Int.ne_of_gt hN), Int.emod_lt_of_pos _ hN⟩
    have hh : inI s n (a / 2 ^ (n - f)) := shr_in (n - f) ha
    have hM := dividend_recombine hf a
    unfold divRemFrom
    cases s
    · -- unsigned
      simp only [Bool.false_eq_true, if_false]
      rw [divRemFromU_spec n hn heven b _ _ hb hb0 hh hl, ok_false_bind, hM]
      dsimp only
      rw [pure_eq_ok]
      have hM0 : 0 ≤ a * 2 ^ f := Int.mul_nonneg ((inU_iff _ _).1 ha).1 (Int.le_of_lt (two_pow_pos f))
      have hbpos : 0 < b := by have := ((inU_iff _ _).1 hb).1; omega
      rw [Int.tdiv_eq_ediv_of_nonneg hM0]
      have hQ0 : 0 ≤ a * 2 ^ f / b := Int.ediv_nonneg hM0 (Int.le_of_lt hbpos)
      generalize a * 2 ^ f / b = Q at *
      unfold ovfI wrapI
      simp only [Bool.false_eq_true, if_false]
      have e1 : wrapU n (Q % 2 ^ n) = wrapU n Q := by
        unfold wrapU; exact Int.emod_emod_of_dvd _ (Int.dvd_refl _)
      have hdm := Int.emod_add_mul_ediv Q (2 ^ n)
      have hm0 := Int.emod_nonneg Q (Int.ne_of_gt hN)
      have hm1 := Int.emod_lt_of_pos Q hN
      have e2 : decide (Q / 2 ^ n ≠ 0) = !decide (inI false n Q) := by
        by_cases hlt : Q < 2 ^ n
        · have hz : Q / 2 ^ n = 0 := Int.ediv_eq_zero_of_lt hQ0 hlt
          have hin : inI false n Q := (inU_iff _ _).2 ⟨hQ0, hlt⟩
          simp [hz, hin]
        · have hz : Q / 2 ^ n ≠ 0 := by
            intro h0; rw [h0] at hdm; omega
          have hin : ¬ inI false n Q := by rw [inU_iff]; omega
          simp [hz, hin]
      rw [e1, e2]
    · -- signed
      simp only [if_true]
      rw [divRemFromS_spec n hn heven b _ _ hb hb0 hh hl, hM]
      dsimp only
      rw [ok_false_bind]
      dsimp only
      rw [pure_eq_ok]
      obtain ⟨hlo, hhi, _⟩ := double_range hh hl
      rw [hM] at hlo hhi
      have habs := Int.natAbs_tdiv_le_natAbs (a * 2 ^ f) b
      generalize a * 2 ^ f = M at *
      have hTlo : -(2 ^ (n - 1) * 2 ^ n : Int) ≤ Int.tdiv M b := by omega
      have hThi : Int.tdiv M b ≤ 2 ^ (n - 1) * 2 ^ n := by omega
      generalize Int.tdiv M b = T at *
      obtain ⟨_, e2⟩ := wrapS_double_split hn1 T
      unfold ovfI wrapI
      simp only [if_true]
      have e1 : wrapS n (wrapS (2 * n) T % 2 ^ n) = wrapS n T := by
        rw [e2]; exact wrapS_wrapU n T
      have e3 : wrapS n (wrapS (2 * n) T) = wrapS n T := by
        have := wrapS_wrapU n (wrapS (2 * n) T)
        unfold wrapU at this
        rw [← this, e2]; exact wrapS_wrapU n T
      rw [e1]
      congr 2
      have h1 := sext_iff hn1 (wrapS (2 * n) T)
      have h2 := sext_wrap_iff hn1 hTlo hThi
      rw [e3] at h1
      by_cases hin : inI true n T
      · have := h1.2 (h2.2 hin)
        simp [this, hin]
      · have : ¬ (wrapS (2 * n) T / 2 ^ n = if wrapS n T < 0 then -1 else 0) := fun h => hin (h2.1 (h1.1 h))
        simp [this, hin]

set_option linter.unusedVariables false in
theorem divOverflowFallback_zero (s : Bool) (n f : Nat) (hn : 2 ≤ n) (hf : f ≤ n) (a : Int) (ha : inI s n a) :
    divOverflowFallback s n f a 0 = .panic := by
  unfold divOverflowFallback
  by_cases hf0 : f = 0
  · rw [if_pos hf0, if_pos rfl]
  · rw [if_neg hf0]
    have hpanic : ∀ h l : Int, divRemFrom s n 0 h l = .panic := by
      intro h l
      unfold divRemFrom
      cases s
      · simp only [Bool.false_eq_true, if_false]; exact divRemFromU_zero n h l
      · simp only [if_true]
        unfold divRemFromS
        have : negAbs1 n 0 = (false, 0) := by simp [negAbs1, wrapU]
        rw [this]
        dsimp only
        rw [divRemFromU_zero]
        rfl
    apply bind_eq_panic
    intro v
    obtain ⟨h, l⟩ := v
    dsimp only
    rw [hpanic]; rfl

#print axioms divHalf_spec
#print axioms divRemFromU_spec
#print axioms divRemFromU_zero
#print axioms divRemFromS_spec
#print axioms divOverflowFallback_spec
#print axioms divOverflowFallback_zero

end Sfx
