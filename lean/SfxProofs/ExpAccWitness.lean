import SfxModel.Transcendental
/-
  ExpAccWitness.lean — import-free evaluation of the model on the witness of KNOWN FINDING D10: `exp::<I32F32>(20.0)`.
  `2 ^ 32` here is core's `Int.pow`.
-/
namespace Sfx.ExpAccPf

/-- `exp::<I32F32>(20.0)` returns `Ok(2066907302758576256 / 2^32)` (≈ 481239358.98) after 30 loop iterations, without any
debug-only check firing -/
theorem exp20_run :
    Trans.run (Trans.exp ⟨true, 64, 32⟩ ⟨true, 64, 32⟩ (20 * 2 ^ 32)) = .ok (some 2066907302758576256, 30) false := by
  decide +kernel

end Sfx.ExpAccPf
