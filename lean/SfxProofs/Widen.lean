import SfxModel.Arith
import SfxProofs.PrimLemmas
/-
  Widen.lean — `mul_div_widen!` (arith.rs 463-492): the double-width multiply / divide equals the exact
  specification (`mulSpec` / `divSpec`) wrapped to `n` bits, with the exact overflow flag, and no
  debug check fires on the path.  Core Lean only.
-/
namespace Sfx

/-! ### powers of two -/

theorem pow_two_mul (n : Nat) : (2 : Int) ^ (2 * n) = 2 ^ n * 2 ^ n := by
  rw [← Int.pow_add]; congr 1; omega

theorem pow_two_mul_pred {n : Nat} (hn : 0 < n) : (2 : Int) ^ (2 * n - 1) = 2 ^ (n - 1) * 2 ^ n := by
  rw [← Int.pow_add]; congr 1; omega

/-! ### generic double-width facts -/

/-- a double-width value is in the double-width range iff its high half is in the single-width range -/
theorem inI_double_iff (s : Bool) {n : Nat} (hn : 0 < n) (x : Int) :
    inI s (2 * n) x ↔ inI s n (x / 2 ^ n) := by
  have hN := two_pow_pos n
  cases s
  · rw [inU_iff, inU_iff, pow_two_mul, Int.ediv_lt_iff_lt_mul hN, Int.le_ediv_iff_mul_le hN]
    omega
  · rw [inS_iff, inS_iff, pow_two_mul_pred hn, Int.ediv_lt_iff_lt_mul hN, Int.le_ediv_iff_mul_le hN,
      Int.neg_mul]

/-- `((x as Double) >> n) as Single` only depends on `x >> n` -/
theorem wrapI_shr_double (s : Bool) (n : Nat) (x : Int) :
    wrapI s n (wrapI s (2 * n) x / 2 ^ n) = wrapI s n (x / 2 ^ n) := by
  have hN := two_pow_pos n
  obtain ⟨k, hk⟩ := wrapI_eq_add_mul s (2 * n) x
  rw [hk, pow_two_mul, ← Int.mul_assoc, Int.add_mul_ediv_right _ _ (by omega), wrapI_add_mul]

/-- `(x as Double) as Single = x as Single` -/
theorem wrapI_wrapI_double (s t : Bool) (n : Nat) (x : Int) :
    wrapI s n (wrapI t (2 * n) x) = wrapI s n x := by
  obtain ⟨k, hk⟩ := wrapI_eq_add_mul t (2 * n) x
  rw [hk, pow_two_mul, ← Int.mul_assoc, wrapI_add_mul]

/-- `Double::from(a) << k` is exact for `k ≤ n` -/
theorem inI_double_shl (s : Bool) {n k : Nat} (hn : 0 < n) (hk : k ≤ n) {a : Int} (ha : inI s n a) :
    inI s (2 * n) (a * 2 ^ k) := by
  have hP := two_pow_pos (n - 1)
  have hK := two_pow_pos k
  have hN := two_pow_pos n
  have hKN : (2 : Int) ^ k ≤ 2 ^ n := pow_le_pow hk
  cases s
  · rw [inU_iff] at *
    rw [pow_two_mul]
    have h1 : 0 ≤ a * 2 ^ k := Int.mul_nonneg ha.1 (Int.le_of_lt hK)
    have h2 : a * 2 ^ k < 2 ^ n * 2 ^ k := Int.mul_lt_mul_of_pos_right ha.2 hK
    have h3 : (2 : Int) ^ n * 2 ^ k ≤ 2 ^ n * 2 ^ n := Int.mul_le_mul_of_nonneg_left hKN (Int.le_of_lt hN)
    omega
  · rw [inS_iff] at *
    rw [pow_two_mul_pred hn]
    have h1 : -(2 ^ (n - 1) : Int) * 2 ^ k ≤ a * 2 ^ k := Int.mul_le_mul_of_nonneg_right ha.1 (Int.le_of_lt hK)
    have h2 : a * 2 ^ k < 2 ^ (n - 1) * 2 ^ k := Int.mul_lt_mul_of_pos_right ha.2 hK
    have h3 : (2 : Int) ^ (n - 1) * 2 ^ k ≤ 2 ^ (n - 1) * 2 ^ n := Int.mul_le_mul_of_nonneg_left hKN (Int.le_of_lt hP)
    rw [Int.neg_mul] at h1
    omega

/-! ### the u32 subtraction `NBITS - frac_nbits` and the shift amounts -/

theorem usub_nbits (n f : Nat) (hn32 : n < 2 ^ 31) (hf : f ≤ n) :
    usub false 32 (n : Int) (f : Int) = .ok ((n - f : Nat) : Int) false := by
  have hin : inI false 32 ((n : Int) - (f : Int)) := by
    rw [inU_iff]; omega
  unfold usub
  rw [wrapI_of_in (by omega) hin]
  simp only [hin, decide_true, Bool.not_true]
  congr 1; omega

theorem ushl_double (s : Bool) {n k : Nat} (hn : 0 < n) (hk : k ≤ n) {a : Int} (ha : inI s n a) :
    ushl s (2 * n) a k = .ok (a * 2 ^ k) false := by
  unfold ushl shlI
  have hmod : k % (2 * n) = k := Nat.mod_eq_of_lt (by omega)
  have hd : decide (2 * n ≤ k) = false := by simp; omega
  rw [hmod, hd, wrapI_of_in (by omega) (inI_double_shl s hn hk ha)]

/-! ### multiplication -/

theorem mul_shift_ediv {n f : Nat} (hf : f ≤ n) (a b : Int) :
    a * (b * 2 ^ (n - f)) / 2 ^ n = mulSpec f a b := by
  have hI := two_pow_pos (n - f)
  have hNF : (2 : Int) ^ n = 2 ^ (n - f) * 2 ^ f := by rw [← Int.pow_add]; congr 1; omega
  unfold mulSpec
  rw [← Int.mul_assoc, hNF, Int.mul_comm (2 ^ (n - f)) (2 ^ f)]
  exact Int.mul_ediv_mul_of_pos_left (a * b) (2 ^ f) hI

set_option linter.unusedVariables false in
theorem mulOverflowWiden_spec (s : Bool) (n f : Nat) (hn : 0 < n) (hn32 : n < 2 ^ 31) (hf : f ≤ n)
    (a b : Int) (ha : inI s n a) (hb : inI s n b) :
    mulOverflowWiden s n f a b = .ok (ovfI s n (mulSpec f a b)) false := by
  unfold mulOverflowWiden
  simp only [bind, pure]
  rw [usub_nbits n f hn32 hf]
  simp only [Outcome.bind, Int.toNat_natCast]
  rw [ushl_double s hn (Nat.sub_le n f) hb]
  simp only [ovfI, Bool.or_false, shrI]
  rw [wrapI_shr_double, mul_shift_ediv hf]
  congr 2
  simp only [inI_double_iff s hn, mul_shift_ediv hf]

/-! ### division -/

/-- `wrapS` by cases on the unsigned residue -/
theorem wrapS_eq_ite {n : Nat} (hn : 0 < n) (x : Int) :
    wrapS n x = if x % 2 ^ n < 2 ^ (n - 1) then x % 2 ^ n else x % 2 ^ n - 2 ^ n := by
  have hN := two_pow_pos n
  have hP := two_pow_pos (n - 1)
  have hsplit := pow_split hn
  have h0 := Int.emod_nonneg x (Int.ne_of_gt hN)
  have h1 := Int.emod_lt_of_pos x hN
  have hx : x = x % 2 ^ n + (x / 2 ^ n) * 2 ^ n := by
    have := Int.emod_add_mul_ediv x (2 ^ n)
    rw [Int.mul_comm] at this; omega
  have hw : wrapS n x = wrapS n (x % 2 ^ n) := by
    conv => lhs; rw [hx]
    exact wrapS_add_mul ..
  rw [hw]
  generalize x % 2 ^ n = r at h0 h1
  split
  · exact wrapS_of_in hn (by rw [inS_iff]; omega)
  · have : r = (r - 2 ^ n) + 1 * 2 ^ n := by omega
    conv => lhs; rw [this]
    rw [wrapS_add_mul]
    exact wrapS_of_in hn (by rw [inS_iff]; omega)

/-- the flag test of the signed division: high half equals the sign extension of the low half iff the
value fits the single width -/
theorem shr_eq_sign_iff {n : Nat} (hn : 0 < n) (x : Int) :
    (shrI x n = (if wrapS n x < 0 then -1 else 0)) ↔ inI true n x := by
  have hN := two_pow_pos n
  have hP := two_pow_pos (n - 1)
  have hsplit := pow_split hn
  have h0 := Int.emod_nonneg x (Int.ne_of_gt hN)
  have h1 := Int.emod_lt_of_pos x hN
  have hx := Int.emod_add_mul_ediv x (2 ^ n)
  unfold shrI
  rw [inS_iff]
  constructor
  · intro h
    rw [wrapS_eq_ite hn] at h
    rw [h] at hx
    split at hx <;> split at hx <;> omega
  · rintro ⟨hl, hu⟩
    by_cases hneg : x < 0
    · have := (Int.ediv_emod_unique (a := x) (r := x + 2 ^ n) (q := -1) hN).2 (by omega)
      rw [wrapS_of_in hn (by rw [inS_iff]; omega), this.1, if_pos hneg]
    · have := (Int.ediv_emod_unique (a := x) (r := x) (q := 0) hN).2 (by omega)
      rw [wrapS_of_in hn (by rw [inS_iff]; omega), this.1, if_neg hneg]

theorem shr_eq_zero_iff (n : Nat) (x : Int) : shrI x n = 0 ↔ inI false n x := by
  have hN := two_pow_pos n
  unfold shrI
  rw [inU_iff, Int.ediv_eq_iff_of_pos hN]
  omega

/-- the exact signed quotient is within `[-2^(2n-1), 2^(2n-1)]` -/
theorem divSpec_bound {n f : Nat} (hn : 0 < n) (hf : f ≤ n) {a : Int} (ha : inI true n a) (b : Int) :
    -(2 ^ (2 * n - 1) : Int) ≤ divSpec f a b ∧ divSpec f a b ≤ 2 ^ (2 * n - 1) := by
  have hP := two_pow_pos (n - 1)
  have hK := two_pow_pos f
  have hN := two_pow_pos n
  have hKN : (2 : Int) ^ f ≤ 2 ^ n := pow_le_pow hf
  rw [inS_iff] at ha
  have h1 : -(2 ^ (n - 1) : Int) * 2 ^ f ≤ a * 2 ^ f := Int.mul_le_mul_of_nonneg_right ha.1 (Int.le_of_lt hK)
  have h2 : a * 2 ^ f < 2 ^ (n - 1) * 2 ^ f := Int.mul_lt_mul_of_pos_right ha.2 hK
  have h3 : (2 : Int) ^ (n - 1) * 2 ^ f ≤ 2 ^ (n - 1) * 2 ^ n := Int.mul_le_mul_of_nonneg_left hKN (Int.le_of_lt hP)
  rw [Int.neg_mul] at h1
  have h4 := Int.natAbs_tdiv_le_natAbs (a * 2 ^ f) b
  unfold divSpec
  rw [pow_two_mul_pred hn]
  omega

/-- wrapping the signed quotient to the double width does not change whether it fits the single width -/
theorem inI_wrapS_double_iff {n : Nat} (hn : 0 < n) {q : Int}
    (hq : -(2 ^ (2 * n - 1) : Int) ≤ q ∧ q ≤ 2 ^ (2 * n - 1)) :
    inI true n (wrapS (2 * n) q) ↔ inI true n q := by
  by_cases hin : inI true (2 * n) q
  · rw [wrapS_of_in (by omega) hin]
  · have hq2 : q = 2 ^ (2 * n - 1) := by
      rw [inS_iff] at hin; omega
    have hN := two_pow_pos n
    have hP := two_pow_pos (n - 1)
    have hsplit := pow_split hn
    have hPN : (2 : Int) ^ (n - 1) * 2 ≤ 2 ^ (n - 1) * 2 ^ n :=
      Int.mul_le_mul_of_nonneg_left (by omega) (Int.le_of_lt hP)
    have hw : wrapS (2 * n) q = -(2 ^ (2 * n - 1)) := by
      have h2 := pow_split (n := 2 * n) (by omega)
      have : q = -(2 ^ (2 * n - 1)) + 1 * 2 ^ (2 * n) := by omega
      conv => lhs; rw [this]
      rw [wrapS_add_mul]
      have h3 := two_pow_pos (2 * n - 1)
      exact wrapS_of_in (by omega) (by rw [inS_iff]; omega)
    rw [hw, hq2, inS_iff, inS_iff, pow_two_mul_pred hn]
    omega

theorem divOverflowWiden_zero (s : Bool) (n f : Nat) (hn : 0 < n) (hf : f ≤ n) (a : Int) (ha : inI s n a) :
    divOverflowWiden s n f a 0 = .panic := by
  unfold divOverflowWiden
  simp only [bind, pure]
  rw [ushl_double s hn hf ha]
  simp [Outcome.bind, uwdiv]

theorem divOverflowWiden_spec (s : Bool) (n f : Nat) (hn : 0 < n) (hn32 : n < 2 ^ 31) (hf : f ≤ n)
    (a b : Int) (ha : inI s n a) (hb : inI s n b) (hb0 : b ≠ 0) :
    divOverflowWiden s n f a b = .ok (ovfI s n (divSpec f a b)) false := by
  unfold divOverflowWiden
  simp only [bind, pure]
  rw [ushl_double s hn hf ha]
  simp only [Outcome.bind, uwdiv, if_neg hb0, Bool.or_false, ovfI]
  rw [wrapI_wrapI_double]
  change Outcome.ok (wrapI s n (divSpec f a b), _) false = _
  congr 2
  cases s
  · -- unsigned: the quotient is exact in the double width
    have hx := inI_double_shl false hn hf ha
    rw [inU_iff] at hx hb
    have hq : inI false (2 * n) (divSpec f a b) := by
      rw [inU_iff]; unfold divSpec
      exact ⟨Int.tdiv_nonneg hx.1 hb.1, Int.lt_of_le_of_lt (Int.tdiv_le_self b hx.1) hx.2⟩
    change (if false = true then _ else decide (shrI (wrapI false (2 * n) (divSpec f a b)) n ≠ 0)) = _
    rw [wrapI_of_in (by omega) hq]
    simp [shr_eq_zero_iff]
  · change (if true = true then
        decide (shrI (wrapI true (2 * n) (divSpec f a b)) n ≠
          (if wrapI true n (divSpec f a b) < 0 then -1 else 0)) else _) = _
    have hw : wrapI true n (divSpec f a b) = wrapS n (wrapS (2 * n) (divSpec f a b)) :=
      (wrapI_wrapI_double true true n _).symm
    rw [hw]
    simp only [wrapI, if_true]
    have := shr_eq_sign_iff hn (wrapS (2 * n) (divSpec f a b))
    rw [inI_wrapS_double_iff hn (divSpec_bound hn hf ha b)] at this
    simp [this]

#print axioms mulOverflowWiden_spec
#print axioms divOverflowWiden_spec
#print axioms divOverflowWiden_zero

end Sfx
