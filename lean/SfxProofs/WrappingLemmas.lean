import SfxModel.Wrapping
import SfxProofs.PrimLemmas
import SfxProofs.Forms
import SfxProofs.Round
import SfxProofs.Rem
/-
  WrappingLemmas.lean — helper lemmas for `SfxProofs/Wrapping.lean` (core Lean only, no Mathlib in the import closure):
  every case of `wstep_spec` that does not need the multiply / divide helpers of `arith.rs`, and the generic
  (hypothesis-parametrised) forms of the `mul` / `div` / `product` cases.
-/
namespace Sfx.WrapPf
open Sfx.Layout

/-- a step's operands are bit patterns of the layout (what the typed API can express) -/
def _root_.Sfx.WStep.wf (L : Layout) : WStep → Prop
  | .add y | .sub y | .mul y | .div y | .rem y => inRange L y
  | .bitand y | .bitor y | .bitxor y => inRange L y
  | .mulInt k | .divInt k | .remInt k => inRange L k
  | .divEuclid y | .remEuclid y | .divEuclidInt y | .remEuclidInt y => inRange L y
  | .fromBits k => inRange L k
  | .sum ys | .product ys => ∀ y ∈ ys, inRange L y
  | .abs | .signum => L.signed = true
  | .nextPow2 => L.signed = false
  | .not | .neg | .shl _ | .shr _ | .ceil | .floor | .round | .roundEven | .int | .frac | .roundToZero
  | .rotl _ | .rotr _ | .sum0 | .product0 => True

/-! ### plumbing -/

theorem wrap_of_in (L : Layout) (hn : 0 < L.n) {v : Int} (h : inRange L v) : L.wrap v = v := wrapI_of_in hn h
theorem wrap_in (L : Layout) (hn : 0 < L.n) (e : Int) : inRange L (L.wrap e) := wrapI_in hn e
theorem wrap_wrap (L : Layout) (e : Int) : L.wrap (L.wrap e) = L.wrap e := wrapI_wrapI _ _ _ _
theorem wrap_wrapI (L : Layout) (e : Int) : L.wrap (wrapI L.signed L.n e) = wrapI L.signed L.n e := wrapI_wrapI _ _ _ _

theorem spec_some (L : Layout) {x : Int} {st : WStep} {e : Int} (h : L.wexact x st = some e) :
    L.wstepSpec x st = .ok (L.wrap e) false := by
  unfold wstepSpec; rw [h]
theorem spec_none (L : Layout) {x : Int} {st : WStep} (h : L.wexact x st = none) :
    L.wstepSpec x st = .panic := by
  unfold wstepSpec; rw [h]

theorem inRange_zero (L : Layout) : inRange L 0 := inI_zero L.signed L.n

/-- what `wstepSpec` can return is in range -/
theorem spec_inRange (L : Layout) (hn : 0 < L.n) (x : Int) (st : WStep) (v : Int) (d : Bool)
    (h : L.wstepSpec x st = .ok v d) : inRange L v ∧ d = false := by
  unfold wstepSpec at h
  cases he : L.wexact x st with
  | none => rw [he] at h; cases h
  | some e =>
    rw [he] at h
    injection h with h1 h2
    subst h1; exact ⟨wrap_in L hn e, h2.symm⟩

/-! ### cases that are definitional -/

theorem add_case (L : Layout) (x y : Int) : L.wstep x (.add y) = L.wstepSpec x (.add y) := rfl
theorem sub_case (L : Layout) (x y : Int) : L.wstep x (.sub y) = L.wstepSpec x (.sub y) := rfl
theorem neg_case (L : Layout) (x : Int) : L.wstep x .neg = L.wstepSpec x .neg := rfl
theorem not_case (L : Layout) (x : Int) : L.wstep x .not = L.wstepSpec x .not := rfl
theorem mulInt_case (L : Layout) (x k : Int) : L.wstep x (.mulInt k) = L.wstepSpec x (.mulInt k) := rfl
theorem abs_case (L : Layout) (x : Int) : L.wstep x .abs = L.wstepSpec x .abs := rfl

theorem product0_case (L : Layout) (x : Int) : L.wstep x .product0 = L.wstepSpec x .product0 := by
  show Outcome.ok (L.wrap (1 * 2 ^ L.f)) false = Outcome.ok (L.wrap (2 ^ L.f)) false
  rw [Int.one_mul]

theorem sum0_case (L : Layout) (hn : 0 < L.n) (x : Int) : L.wstep x .sum0 = L.wstepSpec x .sum0 := by
  show Outcome.ok 0 false = Outcome.ok (L.wrap 0) false
  rw [wrap_of_in L hn (inRange_zero L)]

theorem fromBits_case (L : Layout) (hn : 0 < L.n) (x k : Int) (hk : inRange L k) :
    L.wstep x (.fromBits k) = L.wstepSpec x (.fromBits k) := by
  show Outcome.ok k false = Outcome.ok (L.wrap k) false
  rw [wrap_of_in L hn hk]

/-! ### bit operations -/

theorem bitand_case (L : Layout) (x y : Int) : L.wstep x (.bitand y) = L.wstepSpec x (.bitand y) := by
  show Outcome.ok (andI L.signed L.n x y) false = Outcome.ok (L.wrap (andI L.signed L.n x y)) false
  unfold andI; rw [wrap_wrapI]
theorem bitor_case (L : Layout) (x y : Int) : L.wstep x (.bitor y) = L.wstepSpec x (.bitor y) := by
  show Outcome.ok (orI L.signed L.n x y) false = Outcome.ok (L.wrap (orI L.signed L.n x y)) false
  unfold orI; rw [wrap_wrapI]
theorem bitxor_case (L : Layout) (x y : Int) : L.wstep x (.bitxor y) = L.wstepSpec x (.bitxor y) := by
  show Outcome.ok (xorI L.signed L.n x y) false = Outcome.ok (L.wrap (xorI L.signed L.n x y)) false
  unfold xorI; rw [wrap_wrapI]
theorem rotl_case (L : Layout) (x : Int) (k : Nat) : L.wstep x (.rotl k) = L.wstepSpec x (.rotl k) := by
  show Outcome.ok (rotl L.signed L.n x k) false = Outcome.ok (L.wrap (rotl L.signed L.n x k)) false
  unfold rotl; simp only []; rw [wrap_wrapI]
theorem rotr_case (L : Layout) (x : Int) (k : Nat) : L.wstep x (.rotr k) = L.wstepSpec x (.rotr k) := by
  show Outcome.ok (rotr L.signed L.n x k) false = Outcome.ok (L.wrap (rotr L.signed L.n x k)) false
  unfold rotr rotl; simp only []; rw [wrap_wrapI]

/-! ### integer division, remainders, Euclidean division -/

theorem divInt_case (L : Layout) (x k : Int) : L.wstep x (.divInt k) = L.wstepSpec x (.divInt k) := by
  by_cases hk : k = 0
  · subst hk; rfl
  · rw [spec_some L (e := Int.tdiv x k) (by simp [wexact, hk])]
    show L.wrappingDivInt x k = _
    unfold wrappingDivInt; rw [if_neg hk]; rfl

theorem rem_case (L : Layout) (h2 : 2 ≤ L.n) (hf : L.f ≤ L.n) (x y : Int) (hx : inRange L x) (hy : inRange L y) :
    L.wstep x (.rem y) = L.wstepSpec x (.rem y) := by
  by_cases h0 : y = 0
  · subst h0
    rw [spec_none L (by simp [wexact])]
    exact (rem_zero L h2 hf x hx).2.1
  · rw [spec_some L (e := Int.tmod x y) (by simp [wexact, h0])]
    rw [wrap_of_in L (by omega) (tmod_inI y hx)]
    exact (rem_spec L h2 hf x y hx hy h0).1

theorem remInt_case (L : Layout) (h2 : 2 ≤ L.n) (hf : L.f ≤ L.n) (x k : Int) (hx : inRange L x) (hk : inRange L k) :
    L.wstep x (.remInt k) = L.wstepSpec x (.remInt k) := by
  by_cases h0 : k = 0
  · subst h0
    rw [spec_none L (by simp [wexact])]
    exact (int_zero L h2 hf x hx).2.1
  · rw [spec_some L (e := Int.tmod x (k * 2 ^ L.f)) (by simp [wexact, h0])]
    rw [wrap_of_in L (by omega) (tmod_inI _ hx)]
    exact (remInt_spec L h2 hf x k hx hk h0).1

theorem emod_inI {s : Bool} {n : Nat} {a b : Int} (ha : inI s n a) (hb : inI s n b) (hb0 : b ≠ 0) : inI s n (a % b) := by
  have h1 := Int.emod_nonneg a hb0
  have h2 := Int.emod_lt a hb0
  have hP := two_pow_pos (n - 1)
  cases s
  · rw [inU_iff] at *; omega
  · rw [inS_iff] at *; omega

theorem remEuclid_case (L : Layout) (h2 : 2 ≤ L.n) (hf : L.f ≤ L.n) (x y : Int) (hx : inRange L x) (hy : inRange L y) :
    L.wstep x (.remEuclid y) = L.wstepSpec x (.remEuclid y) := by
  by_cases h0 : y = 0
  · subst h0
    rw [spec_none L (by simp [wexact])]
    exact (rem_zero L h2 hf x hx).2.2.2
  · rw [spec_some L (e := x % y) (by simp [wexact, h0])]
    rw [wrap_of_in L (by omega) (emod_inI hx hy h0)]
    exact (remEuclid_spec L h2 hf x y hx hy h0).1

theorem divEuclid_case (L : Layout) (h2 : 2 ≤ L.n) (hf : L.f ≤ L.n) (x y : Int) (hx : inRange L x) (hy : inRange L y) :
    L.wstep x (.divEuclid y) = L.wstepSpec x (.divEuclid y) := by
  by_cases h0 : y = 0
  · subst h0
    rw [spec_none L (by simp [wexact])]
    exact (divEuclid_zero L h2 hf x hx).2.2.1
  · rw [spec_some L (e := (x / y) * 2 ^ L.f) (by simp [wexact, h0])]
    exact (divEuclid_forms L h2 hf x y hx hy h0).2.2.1

theorem divEuclidInt_case (L : Layout) (h2 : 2 ≤ L.n) (hf : L.f ≤ L.n) (x k : Int) (hx : inRange L x) (hk : inRange L k) :
    L.wstep x (.divEuclidInt k) = L.wstepSpec x (.divEuclidInt k) := by
  by_cases h0 : k = 0
  · subst h0
    rw [spec_none L (by simp [wexact])]
    show L.wrappingDivEuclidInt x 0 = _
    unfold wrappingDivEuclidInt
    rw [(int_zero L h2 hf x hx).2.2.2.2.2]; rfl
  · rw [spec_some L (e := (x / (k * 2 ^ L.f)) * 2 ^ L.f) (by simp [wexact, h0])]
    exact (divEuclidInt_forms L h2 hf x k hx hk h0).2.2.1

theorem remEuclidInt_case (L : Layout) (h2 : 2 ≤ L.n) (hf : L.f ≤ L.n) (x k : Int) (hx : inRange L x) (hk : inRange L k) :
    L.wstep x (.remEuclidInt k) = L.wstepSpec x (.remEuclidInt k) := by
  by_cases h0 : k = 0
  · subst h0
    rw [spec_none L (by simp [wexact])]
    show L.wrappingRemEuclidInt x 0 = _
    unfold wrappingRemEuclidInt
    rw [(int_zero L h2 hf x hx).2.2.2.1]; rfl
  · rw [spec_some L (e := x % (k * 2 ^ L.f)) (by simp [wexact, h0])]
    exact (remEuclidInt_forms L h2 hf x k hx hk h0).2.2.1

/-! ### rounding -/

theorem ceil_case (L : Layout) (h2 : 2 ≤ L.n) (hf : L.f ≤ L.n) (x : Int) (hx : inRange L x) :
    L.wstep x .ceil = L.wstepSpec x .ceil := wrappingR_spec L h2 hf .ceil x hx
theorem floor_case (L : Layout) (h2 : 2 ≤ L.n) (hf : L.f ≤ L.n) (x : Int) (hx : inRange L x) :
    L.wstep x .floor = L.wstepSpec x .floor := wrappingR_spec L h2 hf .floor x hx
theorem round_case (L : Layout) (h2 : 2 ≤ L.n) (hf : L.f ≤ L.n) (x : Int) (hx : inRange L x) :
    L.wstep x .round = L.wstepSpec x .round := wrappingR_spec L h2 hf .round x hx
theorem roundEven_case (L : Layout) (h2 : 2 ≤ L.n) (hf : L.f ≤ L.n) (x : Int) (hx : inRange L x) :
    L.wstep x .roundEven = L.wstepSpec x .roundEven := wrappingR_spec L h2 hf .roundEven x hx

theorem truncE_inI {s : Bool} {n : Nat} (f : Nat) {a : Int} (ha : inI s n a) : inI s n (truncE f a) := by
  have h := tmod_bounds a (2 ^ f)
  have e := Int.mul_tdiv_add_tmod a (2 ^ f)
  rw [Int.mul_comm] at e
  have hP := two_pow_pos (n - 1)
  unfold truncE
  generalize Int.tdiv a (2 ^ f) * 2 ^ f = t at *
  cases s
  · rw [inU_iff] at *; omega
  · rw [inS_iff] at *; omega

theorem roundToZero_case (L : Layout) (h2 : 2 ≤ L.n) (hf : L.f ≤ L.n) (x : Int) (hx : inRange L x) :
    L.wstep x .roundToZero = L.wstepSpec x .roundToZero := by
  rw [spec_some L (e := truncE L.f x) rfl, wrap_of_in L (by omega) (truncE_inI L.f hx)]
  exact roundToZero_spec L h2 hf x hx

theorem int_case (L : Layout) (h2 : 2 ≤ L.n) (hf : L.f ≤ L.n) (x : Int) (hx : inRange L x) :
    L.wstep x .int = L.wstepSpec x .int := by
  have hn : 0 < L.n := by omega
  show Outcome.ok (L.intPart x) false = Outcome.ok (L.wrap (if L.intBits = 0 then 0 else floorE L.f x)) false
  by_cases h : L.intBits = 0
  · rw [if_pos h, ((int_frac_spec L h2 hf x hx).2 (by unfold intBits at h; omega)).1, wrap_of_in L hn (inRange_zero L)]
  · rw [if_neg h, intPart_eq L h2 hf x hx]; rfl

theorem frac_case (L : Layout) (h2 : 2 ≤ L.n) (hf : L.f ≤ L.n) (x : Int) (hx : inRange L x) :
    L.wstep x .frac = L.wstepSpec x .frac := by
  have hn : 0 < L.n := by omega
  show Outcome.ok (L.fracPart x) false = Outcome.ok (L.wrap (if L.intBits = 0 then x else x % 2 ^ L.f)) false
  by_cases h : L.intBits = 0
  · rw [if_pos h, ((int_frac_spec L h2 hf x hx).2 (by unfold intBits at h; omega)).2, wrap_of_in L hn hx]
  · rw [if_neg h, fracPart_eq L h2 hf x hx]

/-! ### signum, next power of two -/

theorem signum_case (L : Layout) (x : Int) : L.wstep x .signum = L.wstepSpec x .signum := by
  show Outcome.ok (if x > 0 then L.wrappingFromSmallInt 1 else if x < 0 then L.wrappingFromSmallInt (-1)
      else L.wrappingFromSmallInt 0) false =
    Outcome.ok (L.wrap ((if x > 0 then 1 else if x < 0 then -1 else 0) * 2 ^ L.f)) false
  unfold wrappingFromSmallInt
  by_cases h1 : x > 0
  · rw [if_pos h1, if_pos h1]
  · rw [if_neg h1, if_neg h1]
    by_cases h2 : x < 0
    · rw [if_pos h2, if_pos h2]
    · rw [if_neg h2, if_neg h2]

theorem nextPow2_inRange (L : Layout) (x : Int) : inRange L (L.nextPow2 x) := by
  unfold nextPow2
  generalize (if x ≤ 1 then (1 : Int) else 2 ^ bitLen (x - 1).toNat) = p
  show inRange L (if inRange L p then p else 0)
  split
  · assumption
  · exact inRange_zero L

theorem nextPow2_case (L : Layout) (hn : 0 < L.n) (x : Int) : L.wstep x .nextPow2 = L.wstepSpec x .nextPow2 := by
  show Outcome.ok (L.nextPow2 x) false = Outcome.ok (L.wrap (L.nextPow2 x)) false
  rw [wrap_of_in L hn (nextPow2_inRange L x)]

/-! ### shifts -/

theorem shiftAmount_lt (L : Layout) (hn : 0 < L.n) (a : Int) : L.shiftAmount a < L.n := by
  unfold shiftAmount
  have h1 := Int.emod_lt_of_pos (wrapU 32 a) (by omega : (0 : Int) < (L.n : Int))
  have h2 := Int.emod_nonneg (wrapU 32 a) (by omega : (L.n : Int) ≠ 0)
  omega

theorem shl_case (L : Layout) (hn : 0 < L.n) (x a : Int) : L.wstep x (.shl a) = L.wstepSpec x (.shl a) := by
  have hk := shiftAmount_lt L hn a
  show ushl L.signed L.n x (L.shiftAmount a) = Outcome.ok (L.wrap (x * 2 ^ L.shiftAmount a)) false
  unfold ushl shlI
  rw [Nat.mod_eq_of_lt hk, decide_eq_false (by omega)]
  rfl

theorem ediv_pow_inI {s : Bool} {n : Nat} (k : Nat) {x : Int} (hx : inI s n x) : inI s n (x / 2 ^ k) := by
  have hP := two_pow_pos k
  have hQ := two_pow_pos (n - 1)
  have hc := mul_pow_cmp x k
  by_cases h0 : 0 ≤ x
  · have h1 : 0 ≤ x / 2 ^ k := Int.ediv_nonneg h0 (Int.le_of_lt hP)
    have h2 : x / 2 ^ k ≤ x := Int.ediv_le_self _ h0
    cases s
    · rw [inU_iff] at *; omega
    · rw [inS_iff] at *; omega
  · have h1 : x / 2 ^ k < 0 := Int.ediv_neg_of_neg_of_pos (by omega) hP
    have h2 : x ≤ x / 2 ^ k := (Int.le_ediv_iff_mul_le hP).2 (hc.2 (by omega))
    cases s
    · rw [inU_iff] at *; omega
    · rw [inS_iff] at *; omega

theorem shr_case (L : Layout) (hn : 0 < L.n) (x a : Int) (hx : inRange L x) :
    L.wstep x (.shr a) = L.wstepSpec x (.shr a) := by
  have hk := shiftAmount_lt L hn a
  show ushr L.n x (L.shiftAmount a) = Outcome.ok (L.wrap (x / 2 ^ L.shiftAmount a)) false
  rw [wrap_of_in L hn (ediv_pow_inI _ hx)]
  unfold ushr shrI
  rw [Nat.mod_eq_of_lt hk, decide_eq_false (by omega)]

/-! ### sums -/

theorem wrap_add_left (L : Layout) (u y : Int) : L.wrap (L.wrap u + y) = L.wrap (u + y) := by
  obtain ⟨k, hk⟩ := wrapI_eq_add_mul L.signed L.n u
  unfold wrap
  rw [hk]
  exact wrapI_congr _ _ k (by omega)

theorem foldlM_add (L : Layout) (ys : List Int) (acc : Int) :
    ys.foldlM (fun acc y => L.wrappingAdd acc y) acc = .ok (ys.foldl (fun a y => L.wrap (a + y)) acc) false := by
  induction ys generalizing acc with
  | nil => rfl
  | cons y ys ih =>
    rw [List.foldlM_cons, List.foldl_cons]
    show (Outcome.ok (L.wrap (acc + y)) false >>= _) = _
    rw [Outcome.ok_false_bind, ih]

theorem foldl_wrap_add (L : Layout) (ys : List Int) (u : Int) :
    ys.foldl (fun a y => L.wrap (a + y)) (L.wrap u) = L.wrap (ys.foldl (· + ·) u) := by
  induction ys generalizing u with
  | nil => rfl
  | cons y ys ih =>
    rw [List.foldl_cons, List.foldl_cons, wrap_add_left, ih]

theorem sum_case (L : Layout) (x : Int) (ys : List Int) : L.wstep x (.sum ys) = L.wstepSpec x (.sum ys) := by
  show (x :: ys).foldlM (fun acc y => L.wrappingAdd acc y) 0 = Outcome.ok (L.wrap (ys.foldl (· + ·) x)) false
  rw [foldlM_add, List.foldl_cons, Int.zero_add, foldl_wrap_add]

/-! ### multiplication, division and products, from the specification of the shared helpers (`C01`) -/

/-- the facts about `MulDivOverflow::{mul_overflow, div_overflow}` that `Wrapping` relies on (proved in `SfxProps/C01.lean`) -/
structure MulDivOK (L : Layout) : Prop where
  mul : ∀ a b : Int, inRange L a → inRange L b →
    mulOverflow L.signed L.n L.f a b = .ok (ovfI L.signed L.n (mulSpec L.f a b)) false
  div : ∀ a b : Int, inRange L a → inRange L b → b ≠ 0 →
    divOverflow L.signed L.n L.f a b = .ok (ovfI L.signed L.n (divSpec L.f a b)) false
  div0 : ∀ a : Int, inRange L a → divOverflow L.signed L.n L.f a 0 = .panic

theorem wrappingMul_eq (L : Layout) (hn : 0 < L.n) (h : MulDivOK L) (a b : Int) (ha : inRange L a) (hb : inRange L b) :
    L.wrappingMul a b = .ok (L.wrap (mulSpec L.f a b)) false :=
  (mul_forms L hn a b ha hb (h.mul a b ha hb)).1.wrapping

theorem mul_case (L : Layout) (hn : 0 < L.n) (h : MulDivOK L) (x y : Int) (hx : inRange L x) (hy : inRange L y) :
    L.wstep x (.mul y) = L.wstepSpec x (.mul y) :=
  wrappingMul_eq L hn h x y hx hy

theorem div_case (L : Layout) (hn : 0 < L.n) (hf : L.f ≤ L.n) (h : MulDivOK L) (x y : Int) (hx : inRange L x)
    (hy : inRange L y) : L.wstep x (.div y) = L.wstepSpec x (.div y) := by
  by_cases h0 : y = 0
  · subst h0
    rw [spec_none L (by simp [wexact])]
    exact (div_zero_forms L x (h.div0 x hx)).2.2.1
  · rw [spec_some L (e := divSpec L.f x y) (by simp [wexact, h0])]
    exact (div_forms L hn hf x y hx hy h0 (h.div x y hx hy h0)).1.wrapping

theorem foldlM_mul (L : Layout) (hn : 0 < L.n) (h : MulDivOK L) (ys : List Int) (hys : ∀ y ∈ ys, inRange L y)
    (acc : Int) (hacc : inRange L acc) :
    ys.foldlM (fun acc y => L.wrappingMul acc y) acc =
      .ok (ys.foldl (fun acc y => L.wrap (mulSpec L.f acc y)) acc) false ∧
    inRange L (ys.foldl (fun acc y => L.wrap (mulSpec L.f acc y)) acc) := by
  induction ys generalizing acc with
  | nil => exact ⟨rfl, hacc⟩
  | cons y ys ih =>
    have hy : inRange L y := hys y (List.mem_cons_self ..)
    have ih' := ih (fun z hz => hys z (List.mem_cons_of_mem _ hz)) (L.wrap (mulSpec L.f acc y)) (wrap_in L hn _)
    rw [List.foldlM_cons, List.foldl_cons, wrappingMul_eq L hn h acc y hacc hy, Outcome.ok_false_bind]
    exact ih'

theorem product_case (L : Layout) (hn : 0 < L.n) (h : MulDivOK L) (x : Int) (hx : inRange L x) (ys : List Int)
    (hys : ∀ y ∈ ys, inRange L y) : L.wstep x (.product ys) = L.wstepSpec x (.product ys) := by
  obtain ⟨h1, h2⟩ := foldlM_mul L hn h ys hys x hx
  show ys.foldlM (fun acc y => L.wrappingMul acc y) x =
    Outcome.ok (L.wrap (ys.foldl (fun acc y => L.wrap (mulSpec L.f acc y)) x)) false
  rw [wrap_of_in L hn h2]
  exact h1

/-! ### all cases together -/

theorem wstep_spec_of (L : Layout) (h2 : 2 ≤ L.n) (hf : L.f ≤ L.n) (h : MulDivOK L) (x : Int) (hx : inRange L x)
    (st : WStep) (hw : st.wf L) : L.wstep x st = L.wstepSpec x st := by
  have hn : 0 < L.n := by omega
  cases st with
  | add y => exact add_case L x y
  | sub y => exact sub_case L x y
  | mul y => exact mul_case L hn h x y hx hw
  | div y => exact div_case L hn hf h x y hx hw
  | rem y => exact rem_case L h2 hf x y hx hw
  | bitand y => exact bitand_case L x y
  | bitor y => exact bitor_case L x y
  | bitxor y => exact bitxor_case L x y
  | not => exact not_case L x
  | neg => exact neg_case L x
  | mulInt k => exact mulInt_case L x k
  | divInt k => exact divInt_case L x k
  | remInt k => exact remInt_case L h2 hf x k hx hw
  | shl a => exact shl_case L hn x a
  | shr a => exact shr_case L hn x a hx
  | ceil => exact ceil_case L h2 hf x hx
  | floor => exact floor_case L h2 hf x hx
  | round => exact round_case L h2 hf x hx
  | roundEven => exact roundEven_case L h2 hf x hx
  | int => exact int_case L h2 hf x hx
  | frac => exact frac_case L h2 hf x hx
  | roundToZero => exact roundToZero_case L h2 hf x hx
  | rotl k => exact rotl_case L x k
  | rotr k => exact rotr_case L x k
  | divEuclid y => exact divEuclid_case L h2 hf x y hx hw
  | remEuclid y => exact remEuclid_case L h2 hf x y hx hw
  | divEuclidInt k => exact divEuclidInt_case L h2 hf x k hx hw
  | remEuclidInt k => exact remEuclidInt_case L h2 hf x k hx hw
  | abs => exact abs_case L x
  | signum => exact signum_case L x
  | nextPow2 => exact nextPow2_case L hn x
  | fromBits k => exact fromBits_case L hn x k hw
  | sum ys => exact sum_case L x ys
  | product ys => exact product_case L hn h x hx ys hw
  | sum0 => exact sum0_case L hn x
  | product0 => exact product0_case L x

end Sfx.WrapPf
