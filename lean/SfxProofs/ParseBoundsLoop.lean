import SfxProofs.ParseBoundsDigits
/-
  ParseBoundsLoop.lean — the scan loop of `parse_bounds` (C08 part A, core Lean only): phase lemmas for the integer digits, the
  point and the fraction digits; `run_rest` ties the loop plus the final slicing to `TextSpec.split` (after the sign);
  trimming facts (`ltrim` = without leading '0's, `rtrim` = without trailing '0's).
-/
namespace Sfx.ParsePf
open FromStr (parseBoundsLoop Bounds Parse slice)

/-- number of leading `'0'` bytes -/
def lz : List Nat → Nat
  | [] => 0
  | b :: r => if b = 48 then lz r + 1 else 0

/-- length without the trailing `'0'` bytes -/
def tlen : List Nat → Nat
  | [] => 0
  | b :: r => if tlen r = 0 ∧ b = 48 then 0 else tlen r + 1

def ltrim (l : List Nat) : List Nat := l.drop (lz l)
def rtrim (l : List Nat) : List Nat := l.take (tlen l)

theorem lz_le : ∀ l : List Nat, lz l ≤ l.length
  | [] => Nat.le_refl _
  | b :: r => by have := lz_le r; simp [lz]; split <;> omega

theorem tlen_le : ∀ l : List Nat, tlen l ≤ l.length
  | [] => Nat.le_refl _
  | b :: r => by have := tlen_le r; simp [tlen]; split <;> omega

/-- error codes of the loop -/
theorem loop_err (radix : Nat) : ∀ (l : List Nat) (i : Nat) (st : Bounds) (e : Nat),
    parseBoundsLoop radix l i st = .error e → e = 0 ∨ e = 2 := by
  intro l
  induction l with
  | nil => intro i st e h; simp [parseBoundsLoop] at h
  | cons b r ih =>
    intro i st e h
    rw [parseBoundsLoop] at h
    repeat' split at h
    all_goals first
      | (injection h with h; omega)
      | exact ih _ _ _ h

/-- fraction phase on a digit list -/
theorem loopF_ok (radix : Nat) : ∀ (l : List Nat) (i e : Nat) (s : Option Bool) (tis : Option Nat) (pt : Nat) (h : Bool),
    D radix l = true →
    parseBoundsLoop radix l i ⟨s, tis, some pt, some e, h⟩
      = .ok ⟨s, tis, some pt, some (if tlen l = 0 then e else i + tlen l), h || !l.isEmpty⟩ := by
  intro l
  induction l with
  | nil => intro i e s tis pt h _; simp [parseBoundsLoop, tlen]
  | cons b r ih =>
    intro i e s tis pt h hd
    simp at hd
    obtain ⟨h43, h45, h46⟩ := isDigitOf_not_special hd.1
    rw [parseBoundsLoop]
    simp only [h43, h45, h46, if_false, hd.1, if_true]
    by_cases h48 : b = 48
    · subst h48
      simp [ih _ _ _ _ _ _ hd.2, tlen]
      split <;> simp_all <;> omega
    · simp [ih _ _ _ _ _ _ hd.2, tlen, h48]
      split <;> simp_all <;> omega



/-- fraction phase on a list that is not all digits: an error -/
theorem loopF_err (radix : Nat) : ∀ (l : List Nat) (i e : Nat) (s : Option Bool) (tis : Option Nat) (pt : Nat) (h : Bool),
    D radix l = false →
    ∃ k, parseBoundsLoop radix l i ⟨s, tis, some pt, some e, h⟩ = .error k := by
  intro l
  induction l with
  | nil => intro i e s tis pt h hd; simp at hd
  | cons b r ih =>
    intro i e s tis pt h hd
    rw [parseBoundsLoop]
    by_cases h43 : b = 43
    · simp [h43]
    by_cases h45 : b = 45
    · simp [h45]
    by_cases h46 : b = 46
    · simp [h46]
    simp only [h43, h45, h46, if_false]
    cases hb : FromStr.isDigitOf b radix
    · simp
    · simp [hb] at hd
      simp only [if_true]
      by_cases h48 : b = 48
      · subst h48; simp; exact ih _ _ _ _ _ _ hd
      · simp [h48]; exact ih _ _ _ _ _ _ hd

/-- the start of the trimmed integer part after scanning the digit list `l` from index `i` -/
def tisOf (tis : Option Nat) (l : List Nat) (i : Nat) : Option Nat :=
  if tis.isSome then tis else if lz l < l.length then some (i + lz l) else none

/-- integer phase on a digit list -/
theorem loopI (radix : Nat) : ∀ (l : List Nat) (i : Nat) (s : Option Bool) (tis : Option Nat) (h : Bool) (rest : List Nat),
    D radix l = true →
    parseBoundsLoop radix (l ++ rest) i ⟨s, tis, none, none, h⟩
      = parseBoundsLoop radix rest (i + l.length) ⟨s, tisOf tis l i, none, none, h || !l.isEmpty⟩ := by
  intro l
  induction l with
  | nil => intro i s tis h rest _; cases tis <;> simp [tisOf, lz]
  | cons b r ih =>
    intro i s tis h rest hd
    simp at hd
    obtain ⟨h43, h45, h46⟩ := isDigitOf_not_special hd.1
    rw [List.cons_append, parseBoundsLoop]
    simp only [h43, h45, h46, if_false, hd.1, if_true]
    have hlz := lz_le r
    have e1 : i + 1 + r.length = i + (r.length + 1) := by omega
    have e2 : i + 1 + lz r = i + (lz r + 1) := by omega
    by_cases h48 : b = 48
    · subst h48
      simp [ih _ _ _ _ _ hd.2, tisOf, lz, e1, e2]
    · cases tis with
      | none =>
        simp [ih _ _ _ _ _ hd.2, tisOf, lz, h48, e1]
      | some t =>
        simp [ih _ _ _ _ _ hd.2, tisOf, e1]

/-- integer phase with a non-digit before any point: an error.  The sign bytes are errors because the state is
"blocked" (a sign or a digit has been seen) or the list does not start with a sign. -/
theorem loopI_err (radix : Nat) : ∀ (l : List Nat) (i : Nat) (s : Option Bool) (tis : Option Nat) (h : Bool),
    (s.isSome = true ∨ h = true ∨ ∀ b, l.head? = some b → b ≠ 43 ∧ b ≠ 45) →
    D radix (l.takeWhile (· ≠ 46)) = false →
    ∃ k, parseBoundsLoop radix l i ⟨s, tis, none, none, h⟩ = .error k := by
  intro l
  induction l with
  | nil => intro i s tis h _ hd; simp at hd
  | cons b r ih =>
    intro i s tis h hs hd
    rw [parseBoundsLoop]
    by_cases h43 : b = 43
    · subst h43
      rcases hs with hs | hs | hs
      · simp [hs]
      · simp [hs]
      · exact absurd rfl (hs 43 rfl).1
    by_cases h45 : b = 45
    · subst h45
      rcases hs with hs | hs | hs
      · simp [hs]
      · simp [hs]
      · exact absurd rfl (hs 45 rfl).2
    by_cases h46 : b = 46
    · subst h46; simp at hd
    simp only [h43, h45, h46, if_false]
    cases hb : FromStr.isDigitOf b radix
    · simp
    · simp [h46, hb] at hd
      simp only [if_true]
      by_cases h48 : b = 48
      · subst h48; simp; exact ih _ _ _ _ (Or.inr (Or.inl rfl)) (by simpa using hd)
      · simp [h48]
        cases tis <;> simp <;> exact ih _ _ _ _ (Or.inr (Or.inl rfl)) (by simpa using hd)


theorem drop_int (pre ip : List Nat) (z : Nat) : (pre ++ ip).drop (pre.length + z) = ip.drop z := by
  simp

theorem slice_int (pre ip tail : List Nat) (z : Nat) (hz : z ≤ ip.length) :
    slice (pre ++ (ip ++ tail)) (pre.length + z) (pre.length + ip.length) = ip.drop z := by
  unfold slice
  rw [drop_int, List.drop_append_of_le_length hz]
  have : pre.length + ip.length - (pre.length + z) = (ip.drop z).length := by simp; omega
  rw [this, List.take_left']
  rfl

theorem slice_frac (pre ip fp : List Nat) (c e : Nat) :
    slice (pre ++ (ip ++ c :: fp)) (pre.length + ip.length + 1) e = fp.take (e - (pre.length + ip.length + 1)) := by
  unfold slice
  have : pre ++ (ip ++ c :: fp) = (pre ++ ip ++ [c]) ++ fp := by simp
  rw [this]
  have h2 : pre.length + ip.length + 1 = (pre ++ ip ++ [c]).length := by simp [Nat.add_assoc]
  rw [h2, List.drop_left]

/-- the part of `parse_bounds` after the loop -/
def finish (bytes : List Nat) (st : Bounds) : Except Nat Parse :=
  if !st.hasAnyDigit then .error 1 else
    let neg := st.sign.getD false
    let int := match st.trimmedIntStart, st.point with
      | some start, some point => slice bytes start point
      | some start, none => bytes.drop start
      | none, _ => []
    let frac := match st.point, st.trimmedFracEnd with
      | some point, some e => slice bytes (point + 1) e
      | _, _ => []
    .ok { neg := neg, int := int, frac := frac }

/-- loop followed by `finish`, from an arbitrary position -/
def run (radix : Nat) (bytes rest : List Nat) (i : Nat) (st : Bounds) : Except Nat Parse :=
  match parseBoundsLoop radix rest i st with
  | .error k => .error k
  | .ok st => finish bytes st

theorem parseBounds_eq_run (bytes : List Nat) (radix : Nat) :
    FromStr.parseBounds bytes radix = run radix bytes bytes 0 {} := rfl

/-- `TextSpec.split` after the sign has been removed -/
def splitTail (neg : Bool) (rest : List Nat) : Option (Bool × List Nat × List Nat) :=
  let ip := rest.takeWhile (· ≠ 46)
  let after := rest.dropWhile (· ≠ 46)
  let fp := match after with
    | [] => some []
    | _ :: r => if r.contains 46 then none else some r
  fp.bind fun fp => if ip.length + fp.length = 0 then none else some (neg, ip, fp)

theorem split_minus (r : List Nat) : TextSpec.split (45 :: r) = splitTail true r := rfl
theorem split_plus (r : List Nat) : TextSpec.split (43 :: r) = splitTail false r := rfl
theorem split_other (r : List Nat) (h : ∀ b, r.head? = some b → b ≠ 43 ∧ b ≠ 45) :
    TextSpec.split r = splitTail false r := by
  unfold TextSpec.split
  split
  rename_i x neg rest heq
  split at heq
  · exact absurd rfl (h 45 rfl).2
  · exact absurd rfl (h 43 rfl).1
  · injection heq with h1 h2
    subst h1; subst h2; rfl

theorem D_not_contains {r : Nat} {l : List Nat} (h : D r l = true) : l.contains 46 = false := by
  induction l with
  | nil => rfl
  | cons b l ih =>
    simp at h
    have := (isDigitOf_not_special h.1).2.2
    have h2 := ih h.2
    simp at h2 ⊢
    exact ⟨by omega, h2⟩

theorem dropWhile_head (l : List Nat) (c : Nat) (t : List Nat) (h : l.dropWhile (· ≠ 46) = c :: t) : c = 46 := by
  induction l with
  | nil => simp at h
  | cons b l ih =>
    rw [List.dropWhile_cons] at h
    split at h
    · exact ih h
    · injection h with h1 h2; subst h1; simp_all


theorem splitTail_some {neg n : Bool} {rest ip fp : List Nat} (h : splitTail neg rest = some (n, ip, fp)) :
    n = neg ∧ ip = rest.takeWhile (· ≠ 46) ∧
      ((rest.dropWhile (· ≠ 46) = [] ∧ fp = []) ∨ (∃ c, rest.dropWhile (· ≠ 46) = c :: fp)) ∧
      ip.length + fp.length ≠ 0 := by
  unfold splitTail at h
  simp only [] at h
  rw [Option.bind_eq_some_iff] at h
  obtain ⟨fp', h1, h2⟩ := h
  split at h2
  · cases h2
  · rename_i hne
    injection h2 with h2
    injection h2 with ha h2
    injection h2 with hb hc
    subst ha; subst hb; subst hc
    refine ⟨rfl, rfl, ?_, hne⟩
    split at h1
    · rename_i heq
      injection h1 with h1
      exact Or.inl ⟨heq, h1.symm⟩
    · rename_i c t heq
      split at h1
      · cases h1
      · injection h1 with h1
        subst h1
        exact Or.inr ⟨c, heq⟩

theorem splitTail_nil (neg : Bool) {rest : List Nat} (h : rest.dropWhile (· ≠ 46) = [])
    (hne : rest.takeWhile (· ≠ 46) ≠ []) : splitTail neg rest = some (neg, rest.takeWhile (· ≠ 46), []) := by
  unfold splitTail
  simp only [h]
  generalize List.takeWhile (fun x => decide (x ≠ 46)) rest = ip at hne ⊢
  cases ip with
  | nil => exact absurd rfl hne
  | cons a t => simp

theorem splitTail_cons (neg : Bool) {rest fp : List Nat} {c : Nat} (h : rest.dropWhile (· ≠ 46) = c :: fp)
    (hc : fp.contains 46 = false)
    (hne : (rest.takeWhile (· ≠ 46)).length + fp.length ≠ 0) :
    splitTail neg rest = some (neg, rest.takeWhile (· ≠ 46), fp) := by
  unfold splitTail
  simp only [h, hc]
  generalize List.takeWhile (fun x => decide (x ≠ 46)) rest = ip at hne ⊢
  simp only [Bool.false_eq_true, if_false, Option.bind_some, hne]

theorem ltrim_all_zero {l : List Nat} (h : ¬ lz l < l.length) : ltrim l = [] := by
  have := lz_le l
  unfold ltrim
  apply List.drop_eq_nil_of_le
  omega

theorem loop_point (radix : Nat) (fp : List Nat) (i : Nat) (s : Option Bool) (tis : Option Nat) (h : Bool) :
    parseBoundsLoop radix (46 :: fp) i ⟨s, tis, none, none, h⟩
      = parseBoundsLoop radix fp (i + 1) ⟨s, tis, some i, some (i + 1), h⟩ := by
  rw [parseBoundsLoop]; simp

/-- the state with which the scan of `rest` starts (after an optional sign) -/
abbrev st0 (s : Option Bool) : Bounds := ⟨s, none, none, none, false⟩

theorem run_rest (radix : Nat) (pre rest : List Nat) (s : Option Bool) (neg : Bool)
    (hneg : s.getD false = neg)
    (hs : s.isSome = true ∨ ∀ b, rest.head? = some b → b ≠ 43 ∧ b ≠ 45) :
    (∃ ip fp, splitTail neg rest = some (neg, ip, fp) ∧ D radix ip = true ∧ D radix fp = true ∧
        run radix (pre ++ rest) rest pre.length (st0 s) = .ok ⟨neg, ltrim ip, rtrim fp⟩) ∨
    ((∃ e, run radix (pre ++ rest) rest pre.length (st0 s) = .error e) ∧
      ∀ n ip fp, splitTail neg rest = some (n, ip, fp) → (D radix ip && D radix fp) = false) := by
  obtain ⟨ip, hip⟩ : ∃ ip, ip = rest.takeWhile (· ≠ 46) := ⟨_, rfl⟩
  obtain ⟨after, hafter⟩ : ∃ a, a = rest.dropWhile (· ≠ 46) := ⟨_, rfl⟩
  have hrest : rest = ip ++ after := by rw [hip, hafter, List.takeWhile_append_dropWhile]
  cases hD : D radix ip
  · -- a non-digit before any point
    right
    obtain ⟨k, hk⟩ := loopI_err radix rest pre.length s none false
      (by rcases hs with hs | hs; exact Or.inl hs; exact Or.inr (Or.inr hs)) (by rw [← hip]; exact hD)
    refine ⟨⟨k, by unfold run; rw [hk]⟩, ?_⟩
    intro n' ip' fp' hsp
    obtain ⟨_, h2, _, _⟩ := splitTail_some hsp
    rw [h2, ← hip, hD]; rfl
  · have hloop := loopI radix ip pre.length s none false after hD
    rw [← hrest] at hloop
    have hlz := lz_le ip
    cases hafter' : after with
    | nil =>
      -- no point
      rw [hafter'] at hloop hrest
      rw [List.append_nil] at hrest
      by_cases hne : ip = []
      · right
        refine ⟨⟨1, ?_⟩, ?_⟩
        · unfold run; rw [hloop]; simp [parseBoundsLoop, finish, hne]
        · intro n' ip' fp' hsp
          obtain ⟨_, h2, h3, h4⟩ := splitTail_some hsp
          rw [← hafter, hafter'] at h3
          rw [← hip] at h2
          rcases h3 with ⟨_, h3⟩ | ⟨c, h3⟩
          · subst h2; subst h3; subst hne; simp at h4
          · cases h3
      · left
        refine ⟨ip, [], ?_, hD, rfl, ?_⟩
        · rw [hip]; exact splitTail_nil neg (by rw [← hafter, hafter']) (by rw [← hip]; exact hne)
        · unfold run; rw [hloop]
          have hne' : ip.isEmpty = false := by cases ip; exact absurd rfl hne; rfl
          simp only [parseBoundsLoop, finish, hne', tisOf, hneg]
          by_cases hz : lz ip < ip.length
          · simp [hz, hrest, rtrim, tlen, ltrim]
          · simp [hz, ltrim_all_zero hz, rtrim, tlen]
    | cons c fp =>
      have hc : c = 46 := dropWhile_head rest c fp (by rw [← hafter, hafter'])
      subst hc
      rw [hafter'] at hloop hrest
      rw [loop_point] at hloop
      cases hDf : D radix fp
      · right
        obtain ⟨k, hk⟩ := loopF_err radix fp (pre.length + ip.length + 1) (pre.length + ip.length + 1) s
          (tisOf none ip pre.length) (pre.length + ip.length) (false || !ip.isEmpty) hDf
        refine ⟨⟨k, by unfold run; rw [hloop, hk]⟩, ?_⟩
        intro n' ip' fp' hsp
        obtain ⟨_, _, h3, _⟩ := splitTail_some hsp
        rw [← hafter, hafter'] at h3
        rcases h3 with ⟨h3, _⟩ | ⟨c, h3⟩
        · cases h3
        · injection h3 with _ h3
          subst h3; simp [hDf]
      · have hok := loopF_ok radix fp (pre.length + ip.length + 1) (pre.length + ip.length + 1) s
          (tisOf none ip pre.length) (pre.length + ip.length) (false || !ip.isEmpty) hDf
        by_cases hne : ip.length + fp.length = 0
        · right
          refine ⟨⟨1, ?_⟩, ?_⟩
          · have h1 : ip = [] := List.eq_nil_of_length_eq_zero (by omega)
            have h2 : fp = [] := List.eq_nil_of_length_eq_zero (by omega)
            unfold run; rw [hloop, hok]; simp [finish]; exact ⟨h1, h2⟩
          · intro n' ip' fp' hsp
            obtain ⟨_, h2, h3, h4⟩ := splitTail_some hsp
            rw [← hafter, hafter'] at h3
            rw [← hip] at h2
            rcases h3 with ⟨h3, _⟩ | ⟨c, h3⟩
            · cases h3
            · injection h3 with _ h3
              subst h3; subst h2; exact absurd hne h4
        · left
          refine ⟨ip, fp, ?_, hD, hDf, ?_⟩
          · rw [hip]; exact splitTail_cons neg (by rw [← hafter, hafter']) (D_not_contains hDf) (by rw [← hip]; exact hne)
          · unfold run; rw [hloop, hok]
            have hany : ((false || !ip.isEmpty) || !fp.isEmpty) = true := by
              cases hi : ip with
              | nil =>
                cases hf : fp with
                | nil => rw [hi, hf] at hne; exact absurd rfl hne
                | cons _ _ => rfl
              | cons _ _ => rfl
            have hfr : fp.take ((if tlen fp = 0 then pre.length + ip.length + 1 else pre.length + ip.length + 1 + tlen fp)
                - (pre.length + ip.length + 1)) = rtrim fp := by
              unfold rtrim; congr 1; split <;> omega
            simp only [finish, hany, tisOf, hneg, hrest]
            by_cases hz : lz ip < ip.length
            · simp [hz, slice_int, slice_frac, hfr, ltrim, hlz]
            · simp [hz, ltrim_all_zero hz, slice_frac, hfr]


theorem lz_decomp : ∀ l : List Nat, l = List.replicate (lz l) 48 ++ l.drop (lz l)
  | [] => rfl
  | b :: r => by
    by_cases h : b = 48
    · subst h
      have := lz_decomp r
      simp only [lz, if_true, List.replicate_succ, List.drop_succ_cons, List.cons_append]
      rw [← this]
    · simp [lz, h]

theorem ltrim_head : ∀ l : List Nat, (ltrim l).head? ≠ some 48
  | [] => by simp [ltrim, lz]
  | b :: r => by
    by_cases h : b = 48
    · subst h
      have := ltrim_head r
      simpa [ltrim, lz] using this
    · simp [ltrim, lz, h]

theorem tlen_decomp : ∀ l : List Nat, l = l.take (tlen l) ++ List.replicate (l.length - tlen l) 48
  | [] => rfl
  | b :: r => by
    have ih := tlen_decomp r
    by_cases h : tlen r = 0 ∧ b = 48
    · obtain ⟨h1, h2⟩ := h
      subst h2
      rw [h1] at ih
      simp only [tlen, h1, and_self, if_true, List.take_zero, List.nil_append, List.length_cons, Nat.sub_zero,
        List.replicate_succ]
      simpa using ih
    · simp only [tlen, h, if_false, List.take_succ_cons, List.cons_append, List.length_cons, Nat.add_sub_add_right]
      rw [← ih]

theorem rtrim_last : ∀ l : List Nat, (rtrim l).getLast? ≠ some 48
  | [] => by simp [rtrim, tlen]
  | b :: r => by
    have ih := rtrim_last r
    have hle := tlen_le r
    by_cases h : tlen r = 0 ∧ b = 48
    · simp [rtrim, tlen, h]
    · unfold rtrim at ih ⊢
      simp only [tlen, h, if_false, List.take_succ_cons]
      cases ht : r.take (tlen r) with
      | nil =>
        have : tlen r = 0 := by
          have := congrArg List.length ht
          rw [List.length_take, List.length_nil] at this; omega
        simp; omega
      | cons c t =>
        rw [List.getLast?_cons_cons, ← ht]; exact ih

theorem D_drop {r : Nat} {l : List Nat} (h : D r l = true) (z : Nat) : D r (l.drop z) = true := by
  unfold D at *
  rw [List.all_eq_true] at *
  intro x hx; exact h x (List.mem_of_mem_drop hx)

theorem D_take {r : Nat} {l : List Nat} (h : D r l = true) (z : Nat) : D r (l.take z) = true := by
  unfold D at *
  rw [List.all_eq_true] at *
  intro x hx; exact h x (List.mem_of_mem_take hx)

theorem nv_ltrim (r : Nat) (l : List Nat) : nv r (ltrim l) = nv r l := by
  conv => rhs; rw [lz_decomp l]
  rw [nv_append, nv_zeros]; simp [ltrim]

theorem nv_rtrim (r : Nat) (l : List Nat) : nv r l = nv r (rtrim l) * r ^ (l.length - tlen l) := by
  conv => lhs; rw [tlen_decomp l]
  rw [nv_append, nv_zeros]; simp [rtrim]

theorem rtrim_length (l : List Nat) : (rtrim l).length = tlen l := by
  have := tlen_le l
  simp [rtrim]; omega

end Sfx.ParsePf
