import SfxModel.Transcendental
import SfxProofs.PrimLemmas
import SfxProofs.Forms
import SfxProps.C01
import SfxProofs.Sqrt
import SfxProofs.TransFacts
import SfxProofs.Convert
import SfxProofs.RemLemmas
/-
  Log.lean — properties C12 / C14 for `transcendental::log2` and `transcendental::ln` (models `Trans.log2`, `Trans.ln`):
  totality (no panic, no debug-only check, the fuel of the halving loop is never exhausted), `Err` only for operands `≤ 0`
  and for operands in `(0, 1)` whose reciprocal is not representable, the sign of the result and exactness on powers of two.
  `Monoid.toNPow` is erased locally so that `(2 : Int) ^ k` in the statements is core's `Int.pow`, as in the Mathlib-free files.
-/
attribute [-instance] Monoid.toNPow

namespace Sfx.LogPf
open Sfx.Trans Sfx.SqrtPf

/-! ### standing assumptions on the destination layout and what they give -/

/-- a valid signed layout with at least three integer bits (`x * x < 4` must be representable) -/
structure Ctx (D : Layout) : Prop where
  hv : D.valid
  hs : D.signed = true
  hint : 3 ≤ D.intBits

theorem Ctx.n8 {D : Layout} (c : Ctx D) : 8 ≤ D.n := by
  obtain ⟨h, _⟩ := c.hv
  omega

theorem Ctx.fn {D : Layout} (c : Ctx D) : D.f + 3 ≤ D.n := by
  have := c.hint
  unfold Layout.intBits at this
  omega

theorem Ctx.max_eq {D : Layout} (c : Ctx D) : D.max = 2 ^ (D.n - 1) - 1 := by
  show maxI D.signed D.n = _
  rw [c.hs]; rfl

theorem Ctx.min_eq {D : Layout} (c : Ctx D) : D.min = -(2 ^ (D.n - 1)) := by
  show minI D.signed D.n = _
  rw [c.hs]; rfl

theorem Ctx.inRange_iff {D : Layout} (c : Ctx D) (v : Int) : inRange D v ↔ -(2 ^ (D.n - 1)) ≤ v ∧ v < 2 ^ (D.n - 1) := by
  show inI D.signed D.n v ↔ _
  rw [c.hs]
  exact inS_iff D.n v

/-- `2^(n-1) = 2^(intBits-1) * 2^f` -/
theorem Ctx.top_split {D : Layout} (c : Ctx D) : (2 : Int) ^ (D.n - 1) = 2 ^ (D.n - 1 - D.f) * 2 ^ D.f := by
  have := c.fn
  rw [← Int.pow_add]; congr 1; omega

/-- four units fit below the sign bit -/
theorem Ctx.four {D : Layout} (c : Ctx D) : 4 * 2 ^ D.f ≤ (2 : Int) ^ (D.n - 1) := by
  have := c.fn
  have hP := two_pow_pos D.f
  have h4 : (4 : Int) ≤ 2 ^ (D.n - 1 - D.f) := pow_le_pow (a := 2) (b := D.n - 1 - D.f) (by omega)
  rw [c.top_split]
  exact Int.mul_le_mul_of_nonneg_right h4 (Int.le_of_lt hP)

theorem Ctx.nn {D : Layout} (c : Ctx D) {v : Int} (h0 : 0 ≤ v) (h1 : v < 2 ^ (D.n - 1)) : inRange D v := by
  rw [c.inRange_iff]
  have := two_pow_pos (D.n - 1)
  omega

theorem Ctx.facts {D : Layout} (c : Ctx D) : ConvFactsG D := by
  have hP := two_pow_pos D.f
  have h4 := c.four
  refine TransFacts.convFactsG D c.hv (c.nn (by omega) (by omega)) (c.nn (by omega) (by omega))

/-! ### `Outcome` / bit-level helpers -/

theorem inC_two : inRange Trans.C Trans.TWO := by decide

theorem andI_one (s : Bool) (n : Nat) (hn : 2 ≤ n) (x : Int) : andI s n x 1 = x % 2 := by
  have hN : (2 : Int) ≤ 2 ^ (n - 1) := pow_le_pow (a := 1) (b := n - 1) (by omega)
  have hN2 : (2 : Int) ^ n = 2 * 2 ^ (n - 1) := pow_split (by omega)
  have h1 : toU n 1 = 1 := by
    rw [toU_of_in_rem (by omega) (by omega)]; rfl
  have hd : (2 : Int) ∣ 2 ^ n := ⟨2 ^ (n - 1), hN2⟩
  have hx0 : 0 ≤ x % 2 ^ n := Int.emod_nonneg _ (by omega)
  have hval : Int.ofNat (toU n x &&& toU n 1) = x % 2 := by
    rw [h1, Nat.and_one_is_mod]
    show ((toU n x % 2 : Nat) : Int) = x % 2
    rw [Int.natCast_mod, toU_cast_rem]
    exact Int.emod_emod_of_dvd x hd
  unfold andI
  rw [hval]
  apply wrapI_of_in (by omega)
  have : 0 ≤ x % 2 ∧ x % 2 < 2 := by omega
  cases s
  · exact (inU_iff n _).2 (by omega)
  · exact (inS_iff n _).2 (by omega)

/-- `T::from_num(1) >> T::frac_nbits()` is the least significant bit -/
theorem ushr_lsb (D : Layout) (hfn : D.f < D.n) : ushr D.n (2 ^ D.f) D.f = .ok 1 false := by
  have hP := two_pow_pos D.f
  unfold ushr shrI
  rw [Nat.mod_eq_of_lt hfn, Int.ediv_self (by omega)]
  simp; omega

/-- `rs(x) = ⌈x / 2⌉` on nonnegative operands, no overflow -/
theorem rs_eval {D : Layout} (c : Ctx D) (x : Int) (hx : inRange D x) (hx0 : 0 ≤ x) :
    Trans.rs D x = .ok ((x + 1) / 2) false := by
  have hfn := c.fn
  have hn8 := c.n8
  have hlt := ((c.inRange_iff x).1 hx).2
  show (fromNumI D 1 >>= fun one => ushr D.n one D.f >>= fun lsb =>
    uadd D.signed D.n (shrI x 1) (andI D.signed D.n x lsb)) = _
  rw [c.facts.fromNum1, Outcome.ok_false_bind, ushr_lsb D (by omega), Outcome.ok_false_bind, andI_one _ _ (by omega)]
  have hsh : shrI x 1 = x / 2 := rfl
  rw [hsh]
  have hv : x / 2 + x % 2 = (x + 1) / 2 := by omega
  have hin : inI D.signed D.n (x / 2 + x % 2) := c.nn (by omega) (by omega)
  unfold uadd
  rw [wrapI_of_in (by omega) hin, hv]
  rw [hv] at hin
  simp [hin]

/-- the mixed comparison `x >= TWO` is exact -/
theorem ge_two {D : Layout} (c : Ctx D) (x : Int) (hx : inRange D x) :
    D.geFixed Trans.C x Trans.TWO = decide (2 * 2 ^ D.f ≤ x) := by
  unfold Layout.geFixed
  rw [c.facts.ltC x _ hx inC_two]
  have hT : Trans.TWO = 2 * 2 ^ 23 := rfl
  rw [hT]
  have hP := two_pow_pos D.f
  by_cases h : 2 * 2 ^ D.f ≤ x
  · have : ¬ (x * 2 ^ 23 < 2 * 2 ^ 23 * 2 ^ D.f) := by omega
    rw [decide_eq_false this, decide_eq_true h]; rfl
  · have : x * 2 ^ 23 < 2 * 2 ^ 23 * 2 ^ D.f := by omega
    rw [decide_eq_true this, decide_eq_false h]; rfl

theorem eq_one {D : Layout} (c : Ctx D) (x : Int) (hx : inRange D x) :
    D.eqFixed Trans.C x Trans.ONE = decide (x = 2 ^ D.f) :=
  c.facts.toConvFacts.eq1 x hx

/-! ### the halving loop `while x >= TWO { result += lsb; x = rs(x); }` -/

theorem pow_succ2 (m : Nat) : (2 : Int) ^ (m + 1) = 2 * 2 ^ m := by
  rw [pow_add']; omega

theorem pow_lt_two_base {f k : Nat} (h : (2 : Int) ^ (f + k) < 2 * 2 ^ f) : k = 0 := by
  cases k with
  | zero => rfl
  | succ k =>
    have := pow_le_pow (a := f + 1) (b := f + (k + 1)) (by omega)
    rw [pow_succ2] at this
    omega

theorem halve_stop {D : Layout} (c : Ctx D) (fuel : Nat) (x result : Int) (n0 : Nat) (hx : inRange D x)
    (h : x < 2 * 2 ^ D.f) : log2Halve D fuel x result n0 = .ok (some (x, result), n0) false := by
  cases fuel with
  | zero => rfl
  | succ fuel =>
    unfold log2Halve
    rw [ge_two c x hx, if_neg (by simp; omega)]
    rfl

theorem halve_step {D : Layout} (c : Ctx D) (fuel : Nat) (x result : Int) (n0 : Nat) (hx : inRange D x)
    (h : 2 * 2 ^ D.f ≤ x) (hr : inRange D (result + 1)) :
    log2Halve D (fuel + 1) x result n0 = log2Halve D fuel ((x + 1) / 2) (result + 1) (n0 + 1) := by
  have hP := two_pow_pos D.f
  have hn8 := c.n8
  have hadd : uadd D.signed D.n result 1 = .ok (result + 1) false := by
    unfold uadd
    have hr' : inI D.signed D.n (result + 1) := hr
    rw [wrapI_of_in (by omega) hr']
    simp [hr']
  show (if D.geFixed C x TWO then (tick >>= fun _ => liftO (uadd D.signed D.n result 1) >>= fun result =>
    liftO (rs D x) >>= fun x => log2Halve D fuel x result) else pure (x, result)) n0 = _
  rw [ge_two c x hx, if_pos (by simp; omega), tick_bind, hadd, liftO_bind, rs_eval c x hx (by omega), liftO_bind]

/-- The loop stops after at most `K` steps when `2^f ≤ x ≤ 2^(f+K)` (so the fuel is never exhausted), leaves
`2^f ≤ x' < 2·2^f`, counts its steps in `result`, and is exact on powers of two. -/
theorem halve_eval {D : Layout} (c : Ctx D) :
    ∀ (K fuel : Nat) (x result : Int) (n0 : Nat), K ≤ fuel → 2 ^ D.f ≤ x → x ≤ 2 ^ (D.f + K) → inRange D x →
      0 ≤ result → result + (K : Int) < 2 ^ (D.n - 1) →
      ∃ (x' : Int) (j : Nat), log2Halve D fuel x result n0 = .ok (some (x', result + (j : Int)), n0 + j) false ∧
        2 ^ D.f ≤ x' ∧ x' < 2 * 2 ^ D.f ∧ j ≤ K ∧ (∀ k : Nat, x = 2 ^ (D.f + k) → x' = 2 ^ D.f ∧ j = k)
  | 0, fuel, x, result, n0, _, hxF, hxK, hx, _, _ => by
    have hP := two_pow_pos D.f
    have hxe : x ≤ 2 ^ D.f := hxK
    refine ⟨x, 0, ?_, hxF, by omega, Nat.le_refl 0, fun k hk => ?_⟩
    · rw [halve_stop c fuel x result n0 hx (by omega)]
      simp
    · have : k = 0 := pow_lt_two_base (f := D.f) (by rw [← hk]; omega)
      exact ⟨by omega, this.symm⟩
  | K + 1, 0, _, _, _, hK, _, _, _, _, _ => by omega
  | K + 1, fuel + 1, x, result, n0, hK, hxF, hxK, hx, hr0, hrK => by
    have hP := two_pow_pos D.f
    by_cases h2 : 2 * 2 ^ D.f ≤ x
    · have hlt := ((c.inRange_iff x).1 hx).2
      have hpk : (2 : Int) ^ (D.f + (K + 1)) = 2 * 2 ^ (D.f + K) := pow_succ2 (D.f + K)
      have hx' : inRange D ((x + 1) / 2) := c.nn (by omega) (by omega)
      obtain ⟨x', j, he, h1, h2', hj, hpow⟩ := halve_eval c K fuel ((x + 1) / 2) (result + 1) (n0 + 1) (by omega)
        (by omega) (by omega) hx' (by omega) (by omega)
      refine ⟨x', j + 1, ?_, h1, h2', by omega, fun k hk => ?_⟩
      · rw [halve_step c fuel x result n0 hx h2 (c.nn (by omega) (by omega)), he]
        have e1 : result + 1 + (j : Int) = result + ((j + 1 : Nat) : Int) := by omega
        have e2 : n0 + 1 + j = n0 + (j + 1) := by omega
        rw [e1, e2]
      · cases k with
        | zero =>
          have : (2 : Int) ^ (D.f + 0) = 2 ^ D.f := rfl
          omega
        | succ k =>
          have hk2 : (2 : Int) ^ (D.f + (k + 1)) = 2 * 2 ^ (D.f + k) := pow_succ2 (D.f + k)
          obtain ⟨a, b⟩ := hpow k (by omega)
          exact ⟨a, by omega⟩
    · refine ⟨x, 0, ?_, hxF, by omega, by omega, fun k hk => ?_⟩
      · rw [halve_stop c _ x result n0 hx (by omega)]
        simp
      · have : k = 0 := pow_lt_two_base (f := D.f) (by rw [← hk]; omega)
        subst this
        exact ⟨hk, rfl⟩

/-! ### the fractional loop `x *= x; result <<= 1; if x >= TWO { result |= 1; x = rs(x); }` -/

/-- squaring a value of `[1, 2)`: the product stays in `[1, 4)` and, after `rs`, strictly below `2` -/
theorem sq_bounds (F y : Int) (hF : 1 ≤ F) (h1 : F ≤ y) (h2 : y < 2 * F) : F ≤ y * y / F ∧ y * y / F < 4 * F - 1 := by
  constructor
  · apply (Int.le_ediv_iff_mul_le (by omega)).2
    exact Int.mul_le_mul h1 h1 (by omega) (by omega)
  · apply (Int.ediv_lt_iff_lt_mul (by omega)).2
    have a : y * y ≤ (2 * F - 1) * (2 * F - 1) := Int.mul_le_mul (by omega) (by omega) (by omega) (by omega)
    have b : (2 * F - 1) * (2 * F - 1) = 4 * (F * F) - 4 * F + 1 := by ring
    have d : (4 * F - 1) * F = 4 * (F * F) - F := by ring
    omega

theorem mulOp_sq {D : Layout} (c : Ctx D) (x : Int) (h1 : 2 ^ D.f ≤ x) (h2 : x < 2 * 2 ^ D.f) :
    D.mulOp x x = .ok (x * x / 2 ^ D.f) false := by
  have hP := two_pow_pos D.f
  have h4 := c.four
  have hn8 := c.n8
  have hx : inRange D x := c.nn (by omega) (by omega)
  obtain ⟨b1, b2⟩ := sq_bounds (2 ^ D.f) x (by omega) h1 h2
  have hin : inRange D (x * x / 2 ^ D.f) := c.nn (by omega) (by omega)
  have h := (mul_forms D (by omega) x x hx hx (C01.mulOverflow_spec D c.hv x x hx hx)).2
  have hm : mulSpec D.f x x = x * x / 2 ^ D.f := rfl
  rw [h, hm]
  have hw : D.wrap (x * x / 2 ^ D.f) = x * x / 2 ^ D.f := wrapI_of_in (by omega) hin
  rw [hw]
  simp [hin]

theorem ushl_one {D : Layout} (c : Ctx D) (r : Int) (h0 : 0 ≤ r) (h1 : r * 2 < 2 ^ (D.n - 1)) :
    ushl D.signed D.n r 1 = .ok (r * 2) false := by
  have hn8 := c.n8
  have hin : inI D.signed D.n (r * 2) := c.nn (by omega) h1
  unfold ushl shlI
  rw [Nat.mod_eq_of_lt (by omega)]
  have e : r * 2 ^ 1 = r * 2 := by omega
  rw [e, wrapI_of_in (by omega) hin]
  simp; omega

theorem orI_one {D : Layout} (c : Ctx D) (r : Int) (h0 : 0 ≤ r) (h1 : r * 2 + 1 < 2 ^ (D.n - 1)) :
    orI D.signed D.n (r * 2) 1 = r * 2 + 1 := by
  have hn8 := c.n8
  have hin : inI D.signed D.n (r * 2 + 1) := c.nn (by omega) h1
  rw [Sfx.orI_add D.signed (n := D.n) (f := 1) (by omega) ⟨r, by omega⟩ (by omega) (by omega)]
  exact wrapI_of_in (by omega) hin

theorem frac_unfold (D : Layout) (k : Nat) (x result : Int) :
    log2Frac D (k + 1) x result = (tick >>= fun _ => liftO (D.mulOp x x) >>= fun x =>
      liftO (ushl D.signed D.n result 1) >>= fun result =>
      if D.geFixed C x TWO then (liftO (rs D x) >>= fun x => log2Frac D k x (orI D.signed D.n result 1))
      else log2Frac D k x result) := rfl

/-- `k` rounds of the loop append `k` bits to `result`; the invariant `1 ≤ x < 2` keeps every operation exact -/
theorem frac_eval {D : Layout} (c : Ctx D) :
    ∀ (k : Nat) (x result : Int) (n0 : Nat), 2 ^ D.f ≤ x → x < 2 * 2 ^ D.f → 0 ≤ result →
      (result + 1) * 2 ^ k ≤ 2 ^ (D.n - 1) →
      ∃ r, log2Frac D k x result n0 = .ok (some r, n0 + k) false ∧ result * 2 ^ k ≤ r ∧ r < (result + 1) * 2 ^ k
  | 0, x, result, n0, _, _, _, _ => ⟨result, rfl, by omega, by omega⟩
  | k + 1, x, result, n0, h1, h2, hr0, hrk => by
    have hP := two_pow_pos D.f
    have hK := two_pow_pos k
    have h4 := c.four
    have hpk : (2 : Int) ^ (k + 1) = 2 * 2 ^ k := pow_succ2 k
    obtain ⟨b1, b2⟩ := sq_bounds (2 ^ D.f) x (by omega) h1 h2
    rw [hpk] at hrk ⊢
    have e0 : (result + 1) * (2 * 2 ^ k) = (result * 2 + 1 + 1) * 2 ^ k := by ring
    have e1 : (result * 2 + 1 + 1) * 2 ^ k = (result * 2 + 1) * 2 ^ k + 2 ^ k := by ring
    have e2 : (result * 2 + 1) * 2 ^ k = result * 2 * 2 ^ k + 2 ^ k := by ring
    have e3 : result * (2 * 2 ^ k) = result * 2 * 2 ^ k := by ring
    have hle : (result * 2 + 1 + 1) * 1 ≤ (result * 2 + 1 + 1) * 2 ^ k :=
      Int.mul_le_mul_of_nonneg_left (by omega) (by omega)
    have hsh := ushl_one c result hr0 (by omega)
    have hxx : inRange D (x * x / 2 ^ D.f) := c.nn (by omega) (by omega)
    rw [frac_unfold, tick_bind, mulOp_sq c x h1 h2, liftO_bind, hsh, liftO_bind, ge_two c _ hxx]
    by_cases hge : 2 * 2 ^ D.f ≤ x * x / 2 ^ D.f
    · rw [if_pos (by simp; omega), rs_eval c _ hxx (by omega), liftO_bind, orI_one c result hr0 (by omega)]
      obtain ⟨r, he, l1, l2⟩ := frac_eval c k ((x * x / 2 ^ D.f + 1) / 2) (result * 2 + 1) (n0 + 1) (by omega) (by omega)
        (by omega) (by omega)
      refine ⟨r, ?_, by omega, by omega⟩
      rw [he, Nat.add_assoc, Nat.add_comm 1 k]
    · rw [if_neg (by simp; omega)]
      obtain ⟨r, he, l1, l2⟩ := frac_eval c k (x * x / 2 ^ D.f) (result * 2) (n0 + 1) (by omega) (by omega)
        (by omega) (by omega)
      refine ⟨r, ?_, by omega, by omega⟩
      rw [he, Nat.add_assoc, Nat.add_comm 1 k]

/-! ### `log2_inner` -/

theorem lt_two_pow (m : Nat) : (m : Int) < 2 ^ m := by
  induction m with
  | zero => decide
  | succ m ih =>
    have := pow_succ2 m
    have := two_pow_pos m
    omega

/-- the `fuel exhausted` marker of the model -/
def panicT : TR Int := fun _ => Outcome.panic

theorem inner_unfold (D : Layout) (x : Int) :
    log2Inner D x = (liftO (fromNumI D 1) >>= fun one => liftO (ushr D.n one D.f) >>= fun _ =>
      log2Halve D (D.n + 1) x 0 >>= fun p =>
      if D.geFixed C p.1 TWO then panicT else
      if D.eqFixed C p.1 ONE then liftO (Layout.fromFixed (Layout.ofInt D.signed D.n) D p.2)
      else log2Frac D D.f p.1 p.2) := rfl

/-- `log2_inner` on an operand `≥ 1`: it never panics (the fuel suffices), no check fires, the result is nonnegative,
its integer part is the number of halvings, and it is exact on powers of two. -/
theorem inner_eval {D : Layout} (c : Ctx D) (x : Int) (n0 : Nat) (hx : inRange D x) (hxF : 2 ^ D.f ≤ x) :
    ∃ (r : Int) (m : Nat), log2Inner D x n0 = .ok (some r, m) false ∧ 0 ≤ r ∧ r < 2 ^ (D.n - 1) ∧
      (∀ k : Nat, x = 2 ^ (D.f + k) → r = (k : Int) * 2 ^ D.f) ∧ m ≤ n0 + (D.n - 1) := by
  have hP := two_pow_pos D.f
  have hfn := c.fn
  have hn8 := c.n8
  have hlt := ((c.inRange_iff x).1 hx).2
  have hKe : D.f + (D.n - 1 - D.f) = D.n - 1 := by omega
  have hKlt := lt_two_pow (D.n - 1 - D.f)
  have hKpos := two_pow_pos (D.n - 1 - D.f)
  have htop := c.top_split
  have hKF : ((D.n - 1 - D.f : Nat) : Int) * 2 ^ D.f < 2 ^ (D.n - 1 - D.f) * 2 ^ D.f :=
    Int.mul_lt_mul_of_pos_right hKlt hP
  have hKle : (2 : Int) ^ (D.n - 1 - D.f) * 1 ≤ 2 ^ (D.n - 1 - D.f) * 2 ^ D.f :=
    Int.mul_le_mul_of_nonneg_left (by omega) (by omega)
  obtain ⟨x', j, he, h1, h2, hj, hpow⟩ := halve_eval c (D.n - 1 - D.f) (D.n + 1) x 0 n0 (by omega) hxF
    (by rw [hKe]; omega) hx (by omega) (by omega)
  have hjK : (j : Int) ≤ ((D.n - 1 - D.f : Nat) : Int) := by omega
  have hx' : inRange D x' := c.nn (by omega) (by have := c.four; omega)
  rw [inner_unfold, c.facts.fromNum1, liftO_bind, ushr_lsb D (by omega), liftO_bind, bind_of_eq _ _ _ _ _ he]
  dsimp only
  have hng : ¬ (decide (2 * 2 ^ D.f ≤ x') = true) := by simp; omega
  rw [ge_two c x' hx', if_neg hng, eq_one c x' hx', Int.zero_add]
  by_cases hone : x' = 2 ^ D.f
  · rw [if_pos (by simp [hone])]
    have hjF : (j : Int) * 2 ^ D.f ≤ ((D.n - 1 - D.f : Nat) : Int) * 2 ^ D.f :=
      Int.mul_le_mul_of_nonneg_right hjK (by omega)
    have hj0 : 0 ≤ (j : Int) * 2 ^ D.f := Int.mul_nonneg (by omega) (by omega)
    have hin : inRange D ((j : Int) * 2 ^ D.f) := c.nn hj0 (by omega)
    have hjin : inI D.signed D.n (j : Int) := c.nn (by omega) (by omega)
    have hff := (ConvPf.fromInt_spec D c.hv D.signed D.n c.hv.1 (j : Int) hjin).2.2.2.2
    have hw : D.wrap ((j : Int) * 2 ^ D.f) = (j : Int) * 2 ^ D.f := wrapI_of_in (by omega) hin
    rw [hw] at hff
    refine ⟨(j : Int) * 2 ^ D.f, n0 + j, ?_, hj0, by omega, fun k hk => ?_, by omega⟩
    · rw [hff]
      simp [hin]
      rfl
    · rw [(hpow k hk).2]
  · rw [if_neg (by simp [hone])]
    have hj1 : ((j : Int) + 1) * 2 ^ D.f ≤ 2 ^ (D.n - 1 - D.f) * 2 ^ D.f :=
      Int.mul_le_mul_of_nonneg_right (by omega) (by omega)
    obtain ⟨r, hr, l1, l2⟩ := frac_eval c D.f x' (j : Int) (n0 + j) h1 h2 (by omega) (by omega)
    have hj0 : 0 ≤ (j : Int) * 2 ^ D.f := Int.mul_nonneg (by omega) (by omega)
    refine ⟨r, n0 + j + D.f, hr, by omega, by omega, fun k hk => ?_, by omega⟩
    exact absurd (hpow k hk).1 hone

/-! ### `log2` after the sign test and the conversion `D::from(operand)` -/

def log2Core (D : Layout) (x : Int) : TR Int :=
  liftO (fromNumI D 1) >>= fun one =>
    if x < one then
      (liftO (fromNumI D 1) >>= fun one => liftOpt (D.checkedDiv one x) >>= fun inv =>
        log2Inner D inv >>= fun r => liftO (D.negOp r))
    else log2Inner D x

theorem log2_eq (S D : Layout) (x : Int) :
    Trans.log2 S D x = if x ≤ 0 then err else liftO (fromS S D x) >>= log2Core D := rfl

/-- what is proved about a returned logarithm `r` (bits) of the operand `x` (bits) -/
def Good (D : Layout) (x r : Int) : Prop :=
  inRange D r ∧ (x ≤ 2 ^ D.f → r ≤ 0) ∧ (2 ^ D.f ≤ x → 0 ≤ r) ∧
    (∀ k : Nat, x = 2 ^ k → r = ((k : Int) - D.f) * 2 ^ D.f)

theorem pow_le_imp {a b : Nat} (h : (2 : Int) ^ a ≤ 2 ^ b) : a ≤ b := by
  apply Nat.le_of_not_lt
  intro hlt
  have := pow_lt_pow (a := b) (b := a) hlt
  omega

theorem chk_in {D : Layout} {e : Int} (h : inRange D e) : D.chk e = some e := by
  show (if inI D.signed D.n e then some e else none) = _
  exact if_pos h

theorem chk_out {D : Layout} {e : Int} (h : ¬ inRange D e) : D.chk e = none := by
  show (if inI D.signed D.n e then some e else none) = _
  exact if_neg h

theorem log2Core_cases {D : Layout} (c : Ctx D) (x : Int) (hx : inRange D x) (hx0 : 0 < x) (n0 : Nat) :
    (∃ r m, log2Core D x n0 = .ok (some r, m) false ∧ Good D x r ∧ m ≤ n0 + (D.n - 1)) ∨
    (log2Core D x n0 = .ok (none, n0) false ∧ x < 2 ^ D.f ∧ ¬ inRange D (divSpec D.f (2 ^ D.f) x)) := by
  have hP := two_pow_pos D.f
  have hn8 := c.n8
  have h4 := c.four
  have h1r : inRange D (2 ^ D.f) := c.nn (by omega) (by omega)
  unfold log2Core
  rw [c.facts.fromNum1, liftO_bind]
  by_cases hlt : x < 2 ^ D.f
  · rw [if_pos hlt, liftO_bind, checkedDiv_nn D c.hv (2 ^ D.f) x h1r hx (by omega) hx0]
    by_cases hyr : inRange D (2 ^ D.f * 2 ^ D.f / x)
    · left
      rw [chk_in hyr, liftOpt_some_bind]
      have hyF : 2 ^ D.f ≤ 2 ^ D.f * 2 ^ D.f / x := by
        apply (Int.le_ediv_iff_mul_le (by omega)).2
        exact Int.mul_le_mul_of_nonneg_left (by omega) (by omega)
      obtain ⟨r, m, he, hr0, hr1, hpow, hm⟩ := inner_eval c _ n0 hyr hyF
      have hnr : inRange D (-r) := by
        rw [c.inRange_iff]; omega
      have hneg : D.negOp r = .ok (-r) false := by
        rw [negOp_eq]
        have hw : D.wrap (-r) = -r := wrapI_of_in (by omega) hnr
        rw [hw]; simp [hnr]
      refine ⟨-r, m, ?_, ⟨hnr, fun _ => by omega, fun _ => by omega, fun k hk => ?_⟩, hm⟩
      · rw [bind_of_eq _ _ _ _ _ he, hneg]; rfl
      · have hkf : k ≤ D.f := pow_le_imp (by rw [← hk]; omega)
        have e1 : (2 : Int) ^ D.f * 2 ^ D.f = 2 ^ (D.f + (D.f - k)) * 2 ^ k := by
          rw [← pow_add', ← pow_add']; congr 1; omega
        have e2 : 2 ^ D.f * 2 ^ D.f / x = 2 ^ (D.f + (D.f - k)) := by
          rw [hk, e1]
          exact Int.mul_ediv_cancel _ (Int.ne_of_gt (two_pow_pos k))
        rw [hpow (D.f - k) e2]
        have e3 : ((D.f - k : Nat) : Int) = (D.f : Int) - (k : Int) := by omega
        rw [e3]
        ring
    · right
      rw [chk_out hyr, liftOpt_none_bind]
      exact ⟨rfl, hlt, by rw [divSpec_nn _ _ _ (by omega)]; exact hyr⟩
  · left
    rw [if_neg hlt]
    obtain ⟨r, m, he, hr0, hr1, hpow, hm⟩ := inner_eval c x n0 hx (by omega)
    refine ⟨r, m, he, ⟨c.nn hr0 hr1, fun hle => ?_, fun _ => hr0, fun k hk => ?_⟩, hm⟩
    · have := hpow 0 (by show x = 2 ^ D.f; omega)
      simp at this
      omega
    · have hkf : D.f ≤ k := pow_le_imp (by rw [← hk]; omega)
      have e1 : x = 2 ^ (D.f + (k - D.f)) := by
        rw [hk]; congr 1; omega
      rw [hpow (k - D.f) e1]
      have e3 : ((k - D.f : Nat) : Int) = (k : Int) - (D.f : Int) := by omega
      rw [e3]

/-! ### `log2`: all cases -/

theorem fromS_refl (D : Layout) (x : Int) : Trans.fromS D D x = .ok x false := by
  unfold Trans.fromS; rw [if_pos rfl]; rfl

/-- General source layout: `D::from(operand)` yields the in-range bits `x'` (`hfrom`, `hx'`), positive when `x` is. -/
theorem log2_cases (S D : Layout) (c : Ctx D) (x x' : Int) (hfrom : Trans.fromS S D x = .ok x' false)
    (hx' : inRange D x') (hsgn : 0 < x → 0 < x') (n0 : Nat) :
    (x ≤ 0 ∧ Trans.log2 S D x n0 = .ok (none, n0) false) ∨
    (0 < x ∧ ((∃ r m, Trans.log2 S D x n0 = .ok (some r, m) false ∧ Good D x' r ∧ m ≤ n0 + (D.n - 1)) ∨
      (Trans.log2 S D x n0 = .ok (none, n0) false ∧ x' < 2 ^ D.f ∧ ¬ inRange D (divSpec D.f (2 ^ D.f) x')))) := by
  rw [log2_eq]
  by_cases h0 : x ≤ 0
  · left
    rw [if_pos h0]
    exact ⟨h0, rfl⟩
  · right
    rw [if_neg h0, hfrom, liftO_bind]
    exact ⟨by omega, log2Core_cases c x' hx' (hsgn (by omega)) n0⟩

theorem log2_total_gen (S D : Layout) (c : Ctx D) (x x' : Int) (hfrom : Trans.fromS S D x = .ok x' false)
    (hx' : inRange D x') (hsgn : 0 < x → 0 < x') :
    match Trans.run (Trans.log2 S D x) with
    | .ok (some r, _) dbg => dbg = false ∧ 0 < x ∧ inRange D r ∧
        (x' ≤ 2 ^ D.f → r ≤ 0) ∧ (2 ^ D.f ≤ x' → 0 ≤ r) ∧
        (∀ k : Nat, x' = 2 ^ k → r = ((k : Int) - D.f) * 2 ^ D.f)
    | .ok (none, _) dbg => dbg = false ∧
        (x ≤ 0 ∨ (0 < x' ∧ x' < 2 ^ D.f ∧ ¬ inRange D (divSpec D.f (2 ^ D.f) x')))
    | .panic => False := by
  unfold Trans.run
  rcases log2_cases S D c x x' hfrom hx' hsgn 0 with ⟨h0, he⟩ | ⟨h0, ⟨r, m, he, hg, _⟩ | ⟨he, h1, h2⟩⟩
  · rw [he]; exact ⟨rfl, Or.inl h0⟩
  · rw [he]; exact ⟨rfl, h0, hg⟩
  · rw [he]; exact ⟨rfl, Or.inr ⟨hsgn h0, h1, h2⟩⟩

/-- iteration count (`verif_tick`): the two loops of `log2` run at most `n - 1` times in total (at most `intBits - 1`
halvings, then `f` squarings); the `Err` paths run no loop -/
theorem log2_ticks_gen (S D : Layout) (c : Ctx D) (x x' : Int) (hfrom : Trans.fromS S D x = .ok x' false)
    (hx' : inRange D x') (hsgn : 0 < x → 0 < x') (o : Option Int) (m : Nat) (dbg : Bool)
    (h : Trans.run (Trans.log2 S D x) = .ok (o, m) dbg) : m ≤ D.n - 1 ∧ (o = none → m = 0) := by
  unfold Trans.run at h
  rcases log2_cases S D c x x' hfrom hx' hsgn 0 with ⟨h0, he⟩ | ⟨h0, ⟨r, m', he, hg, hm⟩ | ⟨he, h1, h2⟩⟩
  · rw [he] at h; cases h; exact ⟨by omega, fun _ => rfl⟩
  · rw [he] at h; cases h; exact ⟨by omega, fun h => by cases h⟩
  · rw [he] at h; cases h; exact ⟨by omega, fun _ => rfl⟩

/-- the layouts of the task: valid, signed, at least nine integer bits -/
theorem ctx_of (D : Layout) (hv : D.valid) (hs : D.signed = true) (hint : 9 ≤ D.intBits) : Ctx D :=
  ⟨hv, hs, by omega⟩

/-- C12 / C14 for `log2::<D, D>`.  (The hypothesis `23 ≤ D.f` is not used; three integer bits suffice, see
`log2_total_gen` with `Ctx`.) -/
theorem log2_total (D : Layout) (hv : D.valid) (hs : D.signed = true) (_hf : 23 ≤ D.f) (hint : 9 ≤ D.intBits)
    (x : Int) (hx : inRange D x) :
    match Trans.run (Trans.log2 D D x) with
    | .ok (some r, _) dbg => dbg = false ∧ 0 < x ∧ inRange D r ∧
        (x ≤ 2 ^ D.f → r ≤ 0) ∧ (2 ^ D.f ≤ x → 0 ≤ r) ∧
        (∀ k : Nat, x = 2 ^ k → r = ((k : Int) - D.f) * 2 ^ D.f)
    | .ok (none, _) dbg => dbg = false ∧ (x ≤ 0 ∨ (0 < x ∧ x < 2 ^ D.f ∧ ¬ inRange D (divSpec D.f (2 ^ D.f) x)))
    | .panic => False :=
  log2_total_gen D D (ctx_of D hv hs hint) x x (fromS_refl D x) hx (fun h => h)

/-! ### `ln = log2 / LOG2_E` -/

def lnTail (D : Layout) (l : Int) : TR Int :=
  liftO (fromS C D LOG2_E) >>= fun c => liftO (D.divOp l c)

theorem ln_eq (S D : Layout) (x : Int) : Trans.ln S D x = Trans.log2 S D x >>= lnTail D := rfl

theorem inC_log2e : inRange Trans.C Trans.LOG2_E := by decide
theorem log2e_val : Trans.LOG2_E = 12102203 := by decide

/-- `D::from(LOG2_E)`: the `I9F23` constant widened to `D` -/
theorem from_log2e (D : Layout) (hv : D.valid) (hs : D.signed = true) (hf : 23 ≤ D.f) (hint : 9 ≤ D.intBits) :
    Trans.fromS C D LOG2_E = .ok (LOG2_E * 2 ^ (D.f - 23)) false ∧ inRange D (LOG2_E * 2 ^ (D.f - 23)) := by
  unfold Trans.fromS
  by_cases hCD : C = D
  · rw [if_pos hCD]
    subst hCD
    exact ⟨rfl, by decide⟩
  · rw [if_neg hCD]
    have hadm : ConvPf.fromAdmissible C D := by
      unfold Layout.intBits at hint
      refine ⟨hf, ?_⟩
      have : C.signed = D.signed := by rw [hs]; rfl
      rw [if_pos this]
      exact hint
    obtain ⟨h1, h2, _⟩ := ConvPf.fromLossless_spec C D TransFacts.C_valid hv hadm LOG2_E inC_log2e
    exact ⟨h1, h2⟩

/-- dividing by a divisor `≥ 1` never increases the magnitude -/
theorem tdiv_shrink (l F d : Int) (hF : 0 < F) (hd : F ≤ d) :
    (0 ≤ l → 0 ≤ Int.tdiv (l * F) d ∧ Int.tdiv (l * F) d ≤ l) ∧
    (l ≤ 0 → l ≤ Int.tdiv (l * F) d ∧ Int.tdiv (l * F) d ≤ 0) := by
  have key : ∀ a : Int, 0 ≤ a → 0 ≤ Int.tdiv (a * F) d ∧ Int.tdiv (a * F) d ≤ a := by
    intro a ha
    have haF : 0 ≤ a * F := Int.mul_nonneg ha (by omega)
    rw [Int.tdiv_eq_ediv_of_nonneg haF]
    refine ⟨Int.ediv_nonneg haF (by omega), ?_⟩
    apply Int.le_of_lt_add_one
    apply (Int.ediv_lt_iff_lt_mul (by omega)).2
    have h1 : a * F ≤ a * d := Int.mul_le_mul_of_nonneg_left hd ha
    have h2 : (a + 1) * d = a * d + d := by rw [Int.add_mul, Int.one_mul]
    omega
  refine ⟨key l, fun hl => ?_⟩
  have h := key (-l) (by omega)
  rw [Int.neg_mul, Int.neg_tdiv] at h
  omega

theorem lnTail_eval (D : Layout) (hv : D.valid) (hs : D.signed = true) (hf : 23 ≤ D.f) (hint : 9 ≤ D.intBits)
    (l : Int) (hl : inRange D l) (n0 : Nat) :
    ∃ r, lnTail D l n0 = .ok (some r, n0) false ∧ inRange D r ∧ (0 ≤ l → 0 ≤ r) ∧ (l ≤ 0 → r ≤ 0) := by
  obtain ⟨hfrom, hcr⟩ := from_log2e D hv hs hf hint
  obtain ⟨h2, _, _, hfn⟩ := C01.valid_facts hv
  have hP := two_pow_pos D.f
  have hQ := two_pow_pos (D.f - 23)
  have hsplit : (2 : Int) ^ D.f = 2 ^ 23 * 2 ^ (D.f - 23) := by
    rw [← pow_add']; congr 1; omega
  have hcF : 2 ^ D.f ≤ LOG2_E * 2 ^ (D.f - 23) := by
    rw [hsplit, log2e_val]
    exact Int.mul_le_mul_of_nonneg_right (by decide) (by omega)
  generalize LOG2_E * 2 ^ (D.f - 23) = d at *
  have hd0 : d ≠ 0 := by omega
  have hop := (div_forms D (by omega) hfn l d hl hcr hd0 (C01.divOverflow_spec D hv l d hl hcr hd0)).2
  obtain ⟨t1, t2⟩ := tdiv_shrink l (2 ^ D.f) d hP hcF
  have hds : divSpec D.f l d = Int.tdiv (l * 2 ^ D.f) d := rfl
  have hin : inRange D (divSpec D.f l d) := by
    rw [hds]
    have z := inI_zero D.signed D.n
    by_cases h0 : 0 ≤ l
    · exact ⟨Int.le_trans z.1 (t1 h0).1, Int.le_trans (t1 h0).2 hl.2⟩
    · exact ⟨Int.le_trans hl.1 (t2 (by omega)).1, Int.le_trans (t2 (by omega)).2 z.2⟩
  have hw : D.wrap (divSpec D.f l d) = divSpec D.f l d := wrapI_of_in (by omega) hin
  refine ⟨divSpec D.f l d, ?_, hin, fun h => by rw [hds]; exact (t1 h).1, fun h => by rw [hds]; exact (t2 h).2⟩
  unfold lnTail
  rw [hfrom, liftO_bind, hop, hw]
  simp [hin]
  rfl

theorem ln_total_gen (S D : Layout) (hv : D.valid) (hs : D.signed = true) (hf : 23 ≤ D.f) (hint : 9 ≤ D.intBits)
    (x x' : Int) (hfrom : Trans.fromS S D x = .ok x' false) (hx' : inRange D x') (hsgn : 0 < x → 0 < x') :
    match Trans.run (Trans.ln S D x) with
    | .ok (some r, _) dbg => dbg = false ∧ 0 < x ∧ inRange D r ∧ (x' ≤ 2 ^ D.f → r ≤ 0) ∧ (2 ^ D.f ≤ x' → 0 ≤ r)
    | .ok (none, _) dbg => dbg = false ∧
        (x ≤ 0 ∨ (0 < x' ∧ x' < 2 ^ D.f ∧ ¬ inRange D (divSpec D.f (2 ^ D.f) x')))
    | .panic => False := by
  unfold Trans.run
  rw [ln_eq]
  rcases log2_cases S D (ctx_of D hv hs hint) x x' hfrom hx' hsgn 0 with
    ⟨h0, he⟩ | ⟨h0, ⟨r, m, he, hg, _⟩ | ⟨he, h1, h2⟩⟩
  · rw [bind_of_none _ _ _ _ he]; exact ⟨rfl, Or.inl h0⟩
  · obtain ⟨q, hq, hqr, s1, s2⟩ := lnTail_eval D hv hs hf hint r hg.1 m
    rw [bind_of_eq _ _ _ _ _ he, hq]
    exact ⟨rfl, h0, hqr, fun h => s2 (hg.2.1 h), fun h => s1 (hg.2.2.1 h)⟩
  · rw [bind_of_none _ _ _ _ he]; exact ⟨rfl, Or.inr ⟨hsgn h0, h1, h2⟩⟩

/-- C12 for `ln::<D, D>` -/
theorem ln_total (D : Layout) (hv : D.valid) (hs : D.signed = true) (hf : 23 ≤ D.f) (hint : 9 ≤ D.intBits)
    (x : Int) (hx : inRange D x) :
    match Trans.run (Trans.ln D D x) with
    | .ok (some r, _) dbg => dbg = false ∧ 0 < x ∧ inRange D r
    | .ok (none, _) dbg => dbg = false ∧ (x ≤ 0 ∨ (0 < x ∧ x < 2 ^ D.f ∧ ¬ inRange D (divSpec D.f (2 ^ D.f) x)))
    | .panic => False := by
  have h := ln_total_gen D D hv hs hf hint x x (fromS_refl D x) hx (fun h => h)
  revert h
  cases Trans.run (Trans.ln D D x) with
  | panic => exact fun h => h
  | ok v dbg =>
    obtain ⟨o, m⟩ := v
    cases o with
    | none => exact fun h => h
    | some r => exact fun h => ⟨h.1, h.2.1, h.2.2.1⟩

/-! ### a different source layout: the lossless widening `From<S> for D` of `convert.rs` -/

theorem fromS_widen (S D : Layout) (hS : S.valid) (hv : D.valid) (hadm : ConvPf.fromAdmissible S D) (x : Int)
    (hx : inRange S x) :
    Trans.fromS S D x = .ok (x * 2 ^ (D.f - S.f)) false ∧ inRange D (x * 2 ^ (D.f - S.f)) := by
  by_cases hSD : S = D
  · subst hSD
    have e : x * 2 ^ (S.f - S.f) = x := by
      rw [Nat.sub_self]; show x * 1 = x; omega
    rw [e]
    exact ⟨fromS_refl S x, hx⟩
  · unfold Trans.fromS
    rw [if_neg hSD]
    obtain ⟨h1, h2, _⟩ := ConvPf.fromLossless_spec S D hS hv hadm x hx
    exact ⟨h1, h2⟩

/-- comparing the widened bits with `1` in `D` is comparing the source bits with `1` in `S` -/
theorem widen_cmp (S D : Layout) (hf : S.f ≤ D.f) (x : Int) :
    (x * 2 ^ (D.f - S.f) ≤ 2 ^ D.f ↔ x ≤ 2 ^ S.f) ∧ (2 ^ D.f ≤ x * 2 ^ (D.f - S.f) ↔ 2 ^ S.f ≤ x) ∧
    (x * 2 ^ (D.f - S.f) < 2 ^ D.f ↔ x < 2 ^ S.f) ∧ (0 < x * 2 ^ (D.f - S.f) ↔ 0 < x) := by
  have hQ := two_pow_pos (D.f - S.f)
  have hsplit : (2 : Int) ^ D.f = 2 ^ S.f * 2 ^ (D.f - S.f) := by
    rw [← pow_add']; congr 1; omega
  rw [hsplit]
  have h0 : (0 : Int) = 0 * 2 ^ (D.f - S.f) := by rw [Int.zero_mul]
  refine ⟨?_, ?_, mul_lt_mul_iff _ _ _ hQ, ?_⟩
  · constructor
    · intro h; exact Int.le_of_mul_le_mul_right h hQ
    · intro h; exact Int.mul_le_mul_of_nonneg_right h (by omega)
  · constructor
    · intro h; exact Int.le_of_mul_le_mul_right h hQ
    · intro h; exact Int.mul_le_mul_of_nonneg_right h (by omega)
  · constructor
    · intro h
      rw [h0] at h
      exact (mul_lt_mul_iff _ _ _ hQ).1 h
    · intro h; exact Int.mul_pos h hQ

/-- C12 / C14 for `log2::<S, D>` with any source layout admitted by `From<S> for D` (including `S = D`): the statement
is about the source bits `x`; the `Err` case refers to the reciprocal of the widened operand. -/
theorem log2_total_widen (S D : Layout) (hS : S.valid) (hv : D.valid) (hs : D.signed = true) (hint : 9 ≤ D.intBits)
    (hadm : ConvPf.fromAdmissible S D) (x : Int) (hx : inRange S x) :
    match Trans.run (Trans.log2 S D x) with
    | .ok (some r, _) dbg => dbg = false ∧ 0 < x ∧ inRange D r ∧
        (x ≤ 2 ^ S.f → r ≤ 0) ∧ (2 ^ S.f ≤ x → 0 ≤ r) ∧
        (∀ k : Nat, x = 2 ^ k → r = ((k : Int) - S.f) * 2 ^ D.f)
    | .ok (none, _) dbg => dbg = false ∧
        (x ≤ 0 ∨ (0 < x ∧ x < 2 ^ S.f ∧ ¬ inRange D (divSpec D.f (2 ^ D.f) (x * 2 ^ (D.f - S.f)))))
    | .panic => False := by
  obtain ⟨hfrom, hx'⟩ := fromS_widen S D hS hv hadm x hx
  obtain ⟨w1, w2, w3, w4⟩ := widen_cmp S D hadm.1 x
  have h := log2_total_gen S D (ctx_of D hv hs hint) x _ hfrom hx' w4.2
  revert h
  cases Trans.run (Trans.log2 S D x) with
  | panic => exact fun h => h
  | ok v dbg =>
    obtain ⟨o, m⟩ := v
    cases o with
    | none =>
      intro h
      refine ⟨h.1, ?_⟩
      rcases h.2 with h0 | ⟨a, b, d⟩
      · exact Or.inl h0
      · exact Or.inr ⟨w4.1 a, w3.1 b, d⟩
    | some r =>
      intro h
      obtain ⟨a, b, d, e, g, i⟩ := h
      refine ⟨a, b, d, fun h => e (w1.2 h), fun h => g (w2.2 h), fun k hk => ?_⟩
      have hf := hadm.1
      have e1 : x * 2 ^ (D.f - S.f) = 2 ^ (k + (D.f - S.f)) := by rw [hk, pow_add']
      rw [i _ e1]
      have e2 : ((k + (D.f - S.f) : Nat) : Int) - (D.f : Int) = (k : Int) - (S.f : Int) := by omega
      rw [e2]

theorem ln_total_widen (S D : Layout) (hS : S.valid) (hv : D.valid) (hs : D.signed = true) (hf : 23 ≤ D.f)
    (hint : 9 ≤ D.intBits) (hadm : ConvPf.fromAdmissible S D) (x : Int) (hx : inRange S x) :
    match Trans.run (Trans.ln S D x) with
    | .ok (some r, _) dbg => dbg = false ∧ 0 < x ∧ inRange D r ∧ (x ≤ 2 ^ S.f → r ≤ 0) ∧ (2 ^ S.f ≤ x → 0 ≤ r)
    | .ok (none, _) dbg => dbg = false ∧
        (x ≤ 0 ∨ (0 < x ∧ x < 2 ^ S.f ∧ ¬ inRange D (divSpec D.f (2 ^ D.f) (x * 2 ^ (D.f - S.f)))))
    | .panic => False := by
  obtain ⟨hfrom, hx'⟩ := fromS_widen S D hS hv hadm x hx
  obtain ⟨w1, w2, w3, w4⟩ := widen_cmp S D hadm.1 x
  have h := ln_total_gen S D hv hs hf hint x _ hfrom hx' w4.2
  revert h
  cases Trans.run (Trans.ln S D x) with
  | panic => exact fun h => h
  | ok v dbg =>
    obtain ⟨o, m⟩ := v
    cases o with
    | none =>
      intro h
      refine ⟨h.1, ?_⟩
      rcases h.2 with h0 | ⟨a, b, d⟩
      · exact Or.inl h0
      · exact Or.inr ⟨w4.1 a, w3.1 b, d⟩
    | some r =>
      intro h
      obtain ⟨a, b, d, e, g⟩ := h
      exact ⟨a, b, d, fun h => e (w1.2 h), fun h => g (w2.2 h)⟩

/-- iteration count of `log2::<D, D>` -/
theorem log2_ticks (D : Layout) (hv : D.valid) (hs : D.signed = true) (hint : 9 ≤ D.intBits) (x : Int)
    (hx : inRange D x) (o : Option Int) (m : Nat) (dbg : Bool) (h : Trans.run (Trans.log2 D D x) = .ok (o, m) dbg) :
    m ≤ D.n - 1 ∧ (o = none → m = 0) :=
  log2_ticks_gen D D (ctx_of D hv hs hint) x x (fromS_refl D x) hx (fun h => h) o m dbg h

/-! the hypotheses are satisfied by the layouts of the task -/
example (x : Int) (hx : inRange ⟨true, 32, 23⟩ x) := log2_total ⟨true, 32, 23⟩ (by decide) rfl (by decide) (by decide) x hx
example (x : Int) (hx : inRange ⟨true, 128, 88⟩ x) := ln_total ⟨true, 128, 88⟩ (by decide) rfl (by decide) (by decide) x hx
example (x : Int) (hx : inRange ⟨true, 32, 23⟩ x) :=
  ln_total_widen ⟨true, 32, 23⟩ ⟨true, 128, 64⟩ (by decide) (by decide) rfl (by decide) (by decide)
    (by unfold ConvPf.fromAdmissible; decide) x hx

end Sfx.LogPf

#print axioms Sfx.LogPf.log2_total
#print axioms Sfx.LogPf.ln_total
#print axioms Sfx.LogPf.log2_total_gen
#print axioms Sfx.LogPf.ln_total_gen
#print axioms Sfx.LogPf.log2_total_widen
#print axioms Sfx.LogPf.ln_total_widen
#print axioms Sfx.LogPf.log2_ticks_gen
#print axioms Sfx.LogPf.log2_ticks
