import Mathlib.Tactic.Ring
import Mathlib.Tactic.Linarith
/-
  TrigArith.lean — pure integer facts behind the CORDIC boundedness proof (`SfxProofs/Trig.lean`).
  Statements use products only (no `^`); quotients are given by their defining inequalities, so the file can be used from
  files whose statements are elaborated with core's `Int.pow`.
-/
namespace Sfx.TrigPf

/-- `|x| + |y| ≤ s` (as four linear inequalities) bounds every signed sum of the floor quotients by `⌊s / Q⌋ + 2` -/
theorem quot_four (Q x y s qx qy qs : Int) (hQ : 0 < Q)
    (hx1 : qx * Q ≤ x) (hx2 : x < qx * Q + Q) (hy1 : qy * Q ≤ y) (hy2 : y < qy * Q + Q) (hs2 : s < qs * Q + Q)
    (h1 : x + y ≤ s) (h2 : x - y ≤ s) (h3 : -x + y ≤ s) (h4 : -x - y ≤ s) :
    qx + qy ≤ qs + 2 ∧ qx - qy ≤ qs + 2 ∧ -qx + qy ≤ qs + 2 ∧ -qx - qy ≤ qs + 2 := by
  refine ⟨?_, ?_, ?_, ?_⟩
  · by_contra hc
    have : (qs + 3) * Q ≤ (qx + qy) * Q := mul_le_mul_of_nonneg_right (by omega) hQ.le
    nlinarith
  · by_contra hc
    have : (qs + 3) * Q ≤ (qx - qy) * Q := mul_le_mul_of_nonneg_right (by omega) hQ.le
    nlinarith
  · by_contra hc
    have : (qs + 3) * Q ≤ (-qx + qy) * Q := mul_le_mul_of_nonneg_right (by omega) hQ.le
    nlinarith
  · by_contra hc
    have : (qs + 3) * Q ≤ (-qx - qy) * Q := mul_le_mul_of_nonneg_right (by omega) hQ.le
    nlinarith

/-- the scaled bound `s · K ≤ n · U` survives the step `s ↦ s + ⌊s/Q⌋ + 2`, `n ↦ n + ⌊n/Q⌋ + 2` when `2K ≤ U` -/
theorem sum_step (s n K U Q qs qn : Int) (hQ : 0 < Q) (hK : 0 ≤ K) (hU : 2 * K ≤ U)
    (hs1 : qs * Q ≤ s) (hn2 : n < qn * Q + Q) (h : s * K ≤ n * U) :
    (s + qs + 2) * K ≤ (n + qn + 2) * U := by
  have hU0 : 0 ≤ U := by omega
  have key : qs * K ≤ (qn + 1) * U := by
    by_contra hc
    have h1 : ((qn + 1) * U + 1) * Q ≤ (qs * K) * Q := mul_le_mul_of_nonneg_right (by omega) hQ.le
    have h2 : (qs * Q) * K ≤ s * K := mul_le_mul_of_nonneg_right hs1 hK
    have h3 : n * U ≤ (qn * Q + Q - 1) * U := mul_le_mul_of_nonneg_right (by omega) hU0
    nlinarith
  nlinarith

theorem start_bound (x0 R g K c U : Int) (hR : 0 < R) (hK : 0 ≤ K) (h1 : x0 * R ≤ g) (h2 : g * K ≤ c * (U * R)) :
    x0 * K ≤ c * U := by
  have h3 : (x0 * R) * K ≤ g * K := mul_le_mul_of_nonneg_right h1 hK
  have h4 : (x0 * K) * R ≤ (c * U) * R := by nlinarith
  exact le_of_mul_le_mul_right h4 hR

theorem scale_le (s n K U : Int) (hK : 0 < K) (hU : 0 ≤ U) (h : s * K ≤ n * U) (hn : n ≤ 3 * K) : s ≤ 3 * U := by
  have h1 : n * U ≤ (3 * K) * U := mul_le_mul_of_nonneg_right hn hU
  have h2 : s * K ≤ (3 * U) * K := by nlinarith
  exact le_of_mul_le_mul_right h2 hK

end Sfx.TrigPf
