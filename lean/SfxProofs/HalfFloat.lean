import SfxProofs.ToFloatSubnormal
import SfxProofs.FromFloat
import SfxProofs.CmpFloat
/-
  HalfFloat.lean — the float lemmas instantiated for the crate's `f16` feature: `half::f16` (`⟨16, 11⟩`) and `half::bf16` (`⟨16, 8⟩`).
  Everything goes through the format-generic statements (`*_gen`, `FmtOk`, `FloatFmt.ok`, `FmtCmp`, `toFloat_eq_rneFloat_normal`);
  only the facts about the two concrete formats are proved here.  (core Lean only)
-/
namespace Sfx.HalfPf
open Sfx.ToFloatPf Sfx.FromFloatPf Sfx.CmpPf

/-! ### the two formats satisfy the structural conditions -/

theorem fmtOk_of (F : FloatFmt) (hF : F = f16 ∨ F = bf16) : FmtOk F := by
  rcases hF with rfl | rfl <;> (unfold FmtOk; decide)

theorem ok_of (F : FloatFmt) (hF : F = f16 ∨ F = bf16) : FloatFmt.ok F := by
  rcases hF with rfl | rfl <;> (unfold FloatFmt.ok; decide)

/-- `is_nan` (`(bits & !SIGN_MASK) > EXP_MASK`) is "exponent field all ones and mantissa field non-zero" -/
theorem isNan_iff (F : FloatFmt) (hF : F = f16 ∨ F = bf16) (b : Nat) :
    F.isNan b = (decide ((F.parts b).2.1 > F.expMax) && decide ((F.parts b).2.2 ≠ 0)) := by
  rcases hF with rfl | rfl
  · unfold FloatFmt.isNan FloatFmt.parts FloatFmt.expMax FloatFmt.expBias FloatFmt.expMask f16
    simp only []
    rw [Bool.eq_iff_iff]
    simp only [decide_eq_true_eq, Bool.and_eq_true]
    have e1 : (2 : Nat) ^ (16 - 1) = 32768 := by decide
    have e2 : (2 : Nat) ^ (11 - 1) = 1024 := by decide
    have e3 : (2 : Int) ^ (16 - 11 - 1) = 16 := by decide
    rw [e1, e2, e3]
    omega
  · unfold FloatFmt.isNan FloatFmt.parts FloatFmt.expMax FloatFmt.expBias FloatFmt.expMask bf16
    simp only []
    rw [Bool.eq_iff_iff]
    simp only [decide_eq_true_eq, Bool.and_eq_true]
    have e1 : (2 : Nat) ^ (16 - 1) = 32768 := by decide
    have e2 : (2 : Nat) ^ (8 - 1) = 128 := by decide
    have e3 : (2 : Int) ^ (16 - 8 - 1) = 128 := by decide
    rw [e1, e2, e3]
    omega

theorem fmtCmp_of (F : FloatFmt) (hF : F = f16 ∨ F = bf16) : FmtCmp F := ⟨ok_of F hF, isNan_iff F hF⟩

/-! ### float → fixed (C05, first two clauses) -/

section fromFloat
set_option linter.unusedSectionVars false
variable (F : FloatFmt) (hF : F = f16 ∨ F = bf16) (D : Layout) (hD : D.valid) (b : Nat) (hb : b < 2 ^ F.nbits) (E : Int)
include hF hD hb

theorem overflowingFromFloat_spec (hfin : floatToGrid F b D.f = some E) : D.overflowingFromFloat F b = .ok (D.ovf E) false :=
  overflowingFromFloat_gen F (fmtOk_of F hF) D hD b E hfin

theorem checkedFromFloat_spec (hfin : floatToGrid F b D.f = some E) : D.checkedFromFloat F b = .ok (D.chk E) false :=
  checkedFromFloat_gen F (fmtOk_of F hF) D hD b E hfin

theorem saturatingFromFloat_spec (hfin : floatToGrid F b D.f = some E) : D.saturatingFromFloat F b = .ok (D.clamp E) false :=
  saturatingFromFloat_gen F (fmtOk_of F hF) D hD b E hfin

theorem wrappingFromFloat_spec (hfin : floatToGrid F b D.f = some E) : D.wrappingFromFloat F b = .ok (D.wrap E) false :=
  wrappingFromFloat_gen F (fmtOk_of F hF) D hD b E hfin

theorem fromFloat_spec (hfin : floatToGrid F b D.f = some E) :
    D.fromFloat F b = .ok (D.wrap E) (!decide (inRange D E)) :=
  fromFloat_gen F (fmtOk_of F hF) D hD b E hfin

theorem nonfinite_spec (hnf : floatExact F b = none) :
    D.checkedFromFloat F b = .ok none false ∧ D.overflowingFromFloat F b = .panic ∧ D.wrappingFromFloat F b = .panic ∧
    D.fromFloat F b = .panic ∧
    ((F.parts b).2.2 ≠ 0 → D.saturatingFromFloat F b = .panic) ∧
    ((F.parts b).2.2 = 0 → D.saturatingFromFloat F b = .ok (if (F.parts b).1 then D.min else D.max) false) :=
  nonfinite_gen F D b hnf

end fromFloat

/-! ### the specification `rneFloat` is round-to-nearest, ties-to-even for the two formats -/

theorem rneFloat_nearest (F : FloatFmt) (hF : F = f16 ∨ F = bf16) (f : Nat) (x : Int)
    (vr : Int × Int) (hr : floatVal F (rneFloat F f x) = some vr)
    (b : Nat) (vb : Int × Int) (hb : floatVal F b = some vb) :
    scaledErr F f x vr ≤ scaledErr F f x vb := by
  rcases hF with h | h <;> subst h
  · exact rneFloat_nearest_gen f16 (by decide) (by decide) f x vr hr b vb hb
  · exact rneFloat_nearest_gen bf16 (by decide) (by decide) f x vr hr b vb hb

theorem rneFloat_ties_even (F : FloatFmt) (hF : F = f16 ∨ F = bf16) (f : Nat) (x : Int)
    (vr : Int × Int) (hr : floatVal F (rneFloat F f x) = some vr)
    (b : Nat) (vb : Int × Int) (hb : floatVal F b = some vb)
    (hne : scaledVal F f vb ≠ scaledVal F f vr)
    (htie : scaledErr F f x vr = scaledErr F f x vb) :
    rneFloat F f x % 2 = 0 := by
  rcases hF with h | h <;> subst h
  · exact rneFloat_ties_even_gen f16 (by decide) (by decide) f x vr hr b vb hb hne htie
  · exact rneFloat_ties_even_gen bf16 (by decide) (by decide) f x vr hr b vb hb hne htie

/-! ### fixed → float -/

/-- `bf16` has the exponent range of `f32`: a subnormal result needs `|x| / 2^f < 2^-126`, which among the crate's layouts only
happens for the 128-bit ones with 127 or 128 fractional bits and `|x| ≤ 3`: six values each, checked by evaluation -/
theorem toFloat_eq_rneFloat_bf16_subnormal (S : Layout) (hS : S.valid) (x : Int) (hx0 : x ≠ 0)
    (he : (bitLen x.natAbs : Int) - 1 - S.f < -126) :
    S.toFloat bf16 x = rneFloat bf16 S.f x := by
  obtain ⟨hn, hf⟩ := hS
  have ha : 0 < x.natAbs := by omega
  have hb0 := bitLen_pos ha
  have hub := bitLen_ub x.natAbs
  have hn128 : S.n = 128 := by omega
  have hb2 : bitLen x.natAbs ≤ 2 := by omega
  have : 2 ^ bitLen x.natAbs ≤ 2 ^ 2 := Nat.pow_le_pow_right (by decide) hb2
  have hf' : S.f = 127 ∨ S.f = 128 := by omega
  have hx' : x = 1 ∨ x = 2 ∨ x = 3 ∨ x = -1 ∨ x = -2 ∨ x = -3 := by omega
  unfold Layout.toFloat Layout.intBits
  rw [hn128]
  rcases hf' with h | h <;> rw [h] <;> rcases hx' with h | h | h | h | h | h <;> rw [h] <;> decide

theorem toFloat_eq_rneFloat_bf16 (S : Layout) (hS : S.valid) (x : Int) (hx : inRange S x) :
    S.toFloat bf16 x = rneFloat bf16 S.f x := by
  obtain ⟨hn, hf⟩ := hS
  by_cases hx0 : x = 0
  · subst hx0; exact toFloat_zero bf16 S (by omega) hf
  · by_cases he : (bitLen x.natAbs : Int) - 1 - S.f < -126
    · exact toFloat_eq_rneFloat_bf16_subnormal S ⟨hn, hf⟩ x hx0 he
    · have hSn : 0 < S.n := by omega
      have haN := natAbs_lt_of_inRange S hSn x hx
      have hbN := bitLen_le haN
      have h1 : FloatFmt.expMin bf16 = -126 := by decide
      have h2 : FloatFmt.expMax bf16 = 127 := by decide
      exact toFloat_eq_rneFloat_normal bf16 (by decide) (by decide) (by decide) S hSn (by omega) hf x hx hx0
        (by rw [h1]; omega) (by rw [h2]; omega)

/-- (A) model = specification, both half formats, every valid layout (`f16`: `ToFloatSubnormal.toFloat_eq_rneFloat_f16`, which covers
subnormal results — every layout with more than 14 fractional bits — and overflow to infinity — every layout with more than 16 integer bits) -/
theorem toFloat_eq_rneFloat (F : FloatFmt) (hF : F = f16 ∨ F = bf16) (S : Layout) (hS : S.valid) (x : Int) (hx : inRange S x) :
    S.toFloat F x = rneFloat F S.f x := by
  rcases hF with h | h <;> subst h
  · exact toFloat_eq_rneFloat_f16 S hS x hx
  · exact toFloat_eq_rneFloat_bf16 S hS x hx

/-- (A)+(B): no finite float is strictly closer to the fixed-point value than the conversion result -/
theorem toFloat_nearest (F : FloatFmt) (hF : F = f16 ∨ F = bf16) (S : Layout) (hS : S.valid) (x : Int) (hx : inRange S x)
    (vr : Int × Int) (hr : floatVal F (S.toFloat F x) = some vr)
    (b : Nat) (vb : Int × Int) (hb : floatVal F b = some vb) :
    scaledErr F S.f x vr ≤ scaledErr F S.f x vb := by
  rw [toFloat_eq_rneFloat F hF S hS x hx] at hr
  exact rneFloat_nearest F hF S.f x vr hr b vb hb

/-- (A)+(B): ties are resolved to the even mantissa -/
theorem toFloat_ties_even (F : FloatFmt) (hF : F = f16 ∨ F = bf16) (S : Layout) (hS : S.valid) (x : Int) (hx : inRange S x)
    (vr : Int × Int) (hr : floatVal F (S.toFloat F x) = some vr)
    (b : Nat) (vb : Int × Int) (hb : floatVal F b = some vb)
    (hne : scaledVal F S.f vb ≠ scaledVal F S.f vr)
    (htie : scaledErr F S.f x vr = scaledErr F S.f x vb) :
    S.toFloat F x % 2 = 0 := by
  rw [toFloat_eq_rneFloat F hF S hS x hx] at hr ⊢
  exact rneFloat_ties_even F hF S.f x vr hr b vb hb hne htie

end Sfx.HalfPf

#print axioms Sfx.HalfPf.isNan_iff
#print axioms Sfx.HalfPf.overflowingFromFloat_spec
#print axioms Sfx.HalfPf.nonfinite_spec
#print axioms Sfx.HalfPf.rneFloat_nearest
#print axioms Sfx.HalfPf.rneFloat_ties_even
#print axioms Sfx.HalfPf.toFloat_eq_rneFloat_bf16
#print axioms Sfx.HalfPf.toFloat_eq_rneFloat
#print axioms Sfx.HalfPf.toFloat_nearest
#print axioms Sfx.HalfPf.toFloat_ties_even

