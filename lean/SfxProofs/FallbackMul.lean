import SfxModel.Arith
import SfxProofs.PrimLemmas
import SfxProofs.FallbackMulCombine
import SfxProofs.FallbackMulFlat
import SfxProofs.FallbackMulArith
/-
  FallbackMul.lean — `mul_div_fallback!::mul_overflow` (the 128-bit four-limb product) is exact:
  it returns `overflowing (a * b >> f)` and no debug assertion / overflow check fires.
-/
namespace Sfx

/-- unsigned, any even width -/
theorem fallback_eq_combine_unsigned (n f : Nat) (hn : 2 ≤ n) (heven : n % 2 = 0) (hf0 : f ≠ 0)
    (a b : Int) (ha : inI false n a) (hb : inI false n b) :
    mulOverflowFallback false n f a b = combineLoThenShl false n (a * b / 2 ^ n) (a * b % 2 ^ n) f := by
  have hn0 : 0 < n := by omega
  have hPin := prod_div_in false n hn0 a b ha hb
  have hNpos := two_pow_pos n
  obtain ⟨H, hH⟩ : ∃ H : Int, (2 : Int) ^ (n / 2) = H := ⟨_, rfl⟩
  have hH2 : 2 ≤ H := by
    rw [← hH]; have := pow_le_pow (a := 1) (b := n / 2) (by omega); simpa using this
  have hHpos : 0 < H := by omega
  have hHH : H * H = 2 ^ n := by rw [← hH, ← Int.pow_add]; congr 1; omega
  have hH1H : (H - 1) * H = 2 ^ n - H := by rw [← hHH]; ring
  have hHle : 2 * H ≤ H * H := Int.mul_le_mul_of_nonneg_right hH2 (by omega)
  rw [inU_iff] at ha hb
  -- limbs
  obtain ⟨lh, hlh⟩ : ∃ x, a / H = x := ⟨_, rfl⟩
  obtain ⟨ll, hll⟩ : ∃ x, a % H = x := ⟨_, rfl⟩
  obtain ⟨rh, hrh⟩ : ∃ x, b / H = x := ⟨_, rfl⟩
  obtain ⟨rl, hrl⟩ : ∃ x, b % H = x := ⟨_, rfl⟩
  have hda := Int.emod_add_mul_ediv a H
  have hdb := Int.emod_add_mul_ediv b H
  rw [hlh, hll] at hda
  rw [hrh, hrl] at hdb
  have hll0 : 0 ≤ ll := by rw [← hll]; exact Int.emod_nonneg _ (by omega)
  have hll1 : ll < H := by rw [← hll]; exact Int.emod_lt_of_pos _ hHpos
  have hrl0 : 0 ≤ rl := by rw [← hrl]; exact Int.emod_nonneg _ (by omega)
  have hrl1 : rl < H := by rw [← hrl]; exact Int.emod_lt_of_pos _ hHpos
  have hlh0 : 0 ≤ lh := by rw [← hlh]; exact Int.ediv_nonneg ha.1 (by omega)
  have hlh1 : lh < H := by rw [← hlh, Int.ediv_lt_iff_lt_mul hHpos, hHH]; exact ha.2
  have hrh0 : 0 ≤ rh := by rw [← hrh]; exact Int.ediv_nonneg hb.1 (by omega)
  have hrh1 : rh < H := by rw [← hrh, Int.ediv_lt_iff_lt_mul hHpos, hHH]; exact hb.2
  -- limb products
  obtain ⟨hp1a, hp1b⟩ := uP H lh rh hlh0 hlh1 hrh0 hrh1
  obtain ⟨hp2a, hp2b⟩ := uP H lh rl hlh0 hlh1 hrl0 hrl1
  obtain ⟨hp3a, hp3b⟩ := uP H ll rh hll0 hll1 hrh0 hrh1
  obtain ⟨hp4a, hp4b⟩ := uP H ll rl hll0 hll1 hrl0 hrl1
  have h1 : inI false n (lh * rl) := by rw [inU_iff]; omega
  have h2 : inI false n (ll * rh) := by rw [inU_iff]; omega
  have h3 : inI false n (lh * rh) := by rw [inU_iff]; omega
  have h4 : inI false n (ll * rl) := by rw [inU_iff]; omega
  -- column 0/1
  obtain ⟨c1h, hc1h⟩ : ∃ x, ll * rl / H = x := ⟨_, rfl⟩
  obtain ⟨c1l, hc1l⟩ : ∃ x, ll * rl % H = x := ⟨_, rfl⟩
  have hd1 := Int.emod_add_mul_ediv (ll * rl) H
  rw [hc1h, hc1l] at hd1
  have hc1l0 : 0 ≤ c1l := by rw [← hc1l]; exact Int.emod_nonneg _ (by omega)
  have hc1l1 : c1l < H := by rw [← hc1l]; exact Int.emod_lt_of_pos _ hHpos
  have hc1h0 : 0 ≤ c1h := by rw [← hc1h]; exact Int.ediv_nonneg hp4a (by omega)
  have hc1h1 : c1h < H - 1 := by rw [← hc1h, Int.ediv_lt_iff_lt_mul hHpos, hH1H]; omega
  have h5 : inI false n c1h := by rw [inU_iff]; omega
  have h6 : inI false n (lh * rl + c1h) := by rw [inU_iff]; omega
  -- column 1/2
  obtain ⟨col12, carry, hcc, hcolin, hsum, hcarry⟩ := carryingAdd_spec false n hn0 _ _ h6 h2
  rw [inU_iff] at hcolin
  obtain ⟨c2h, hc2h⟩ : ∃ x, col12 / H = x := ⟨_, rfl⟩
  obtain ⟨c2l, hc2l⟩ : ∃ x, col12 % H = x := ⟨_, rfl⟩
  have hd2 := Int.emod_add_mul_ediv col12 H
  rw [hc2h, hc2l] at hd2
  have hc2l0 : 0 ≤ c2l := by rw [← hc2l]; exact Int.emod_nonneg _ (by omega)
  have hc2l1 : c2l < H := by rw [← hc2l]; exact Int.emod_lt_of_pos _ hHpos
  have hc2h0 : 0 ≤ c2h := by rw [← hc2h]; exact Int.ediv_nonneg hcolin.1 (by omega)
  have hc2h1 : c2h < H := by rw [← hc2h, Int.ediv_lt_iff_lt_mul hHpos, hHH]; exact hcolin.2
  have hup0 : 0 ≤ c2l * H := Int.mul_nonneg hc2l0 (by omega)
  have hup1 : c2l * H ≤ (H - 1) * H := Int.mul_le_mul_of_nonneg_right (by omega) (by omega)
  have h7 : inI false n (c2l * H) := by rw [inU_iff]; omega
  have h8 : inI false n (c2l * H + c1l) := by rw [inU_iff]; omega
  have h9 : inI false n (lh * rh + c2h) := by rw [inU_iff]; omega
  have h11 : inI false n (carry * H) := by
    rw [inU_iff]
    rcases hcarry with h | h | ⟨h, _⟩
    · subst h; omega
    · subst h; omega
    · exact absurd h (by decide)
  -- the exact identity
  have hid := limb_identity a b H (2 ^ n) lh ll rh rl c1h c1l col12 carry c2h c2l hda hdb hd1 hd2 hsum hHH
  obtain ⟨hq, hr⟩ := div_mod_of_eq hNpos hid (by omega) (by omega)
  have h12 : inI false n (lh * rh + c2h + carry * H) := by rw [← hq]; exact hPin
  rw [fallback_flat false n f hn0 hf0 a b H lh ll rh rl c1h c1l col12 carry c2h c2l hH hH2 hlh hll hrh hrl
    h1 h2 h3 h4 hc1h hc1l h5 h6 hcc hc2h hc2l h7 h8 h9 hcarry h11 h12, hq, hr]

/-- signed, even width at least 4 (for width 2 the carry limb `±H` would not fit, but no carry arises) -/
theorem fallback_eq_combine_signed (n f : Nat) (hn : 4 ≤ n) (heven : n % 2 = 0) (hf0 : f ≠ 0)
    (a b : Int) (ha : inI true n a) (hb : inI true n b) :
    mulOverflowFallback true n f a b = combineLoThenShl true n (a * b / 2 ^ n) (a * b % 2 ^ n) f := by
  have hn0 : 0 < n := by omega
  have hPin := prod_div_in true n hn0 a b ha hb
  have hNpos := two_pow_pos n
  obtain ⟨K, hK⟩ : ∃ K : Int, (2 : Int) ^ (n / 2 - 1) = K := ⟨_, rfl⟩
  obtain ⟨H, hH⟩ : ∃ H : Int, (2 : Int) ^ (n / 2) = H := ⟨_, rfl⟩
  obtain ⟨Q, hQ⟩ : ∃ Q : Int, K * K = Q := ⟨_, rfl⟩
  have hHK : H = 2 * K := by rw [← hH, ← hK]; exact pow_split (by omega)
  have hK2 : 2 ≤ K := by
    rw [← hK]; have := pow_le_pow (a := 1) (b := n / 2 - 1) (by omega); simpa using this
  have hH2 : 2 ≤ H := by omega
  have hHpos : 0 < H := by omega
  have hHH : H * H = 2 ^ n := by rw [← hH, ← Int.pow_add]; congr 1; omega
  have hN : (2 : Int) ^ n = 4 * Q := by rw [← hHH, hHK, ← hQ]; ring
  have hM : (2 : Int) ^ (n - 1) = 2 * Q := by have := pow_split hn0; omega
  have hKH : K * H = 2 * Q := by rw [hHK, ← hQ]; ring
  have hH1H : (H - 1) * H = 4 * Q - H := by rw [← hN, ← hHH]; ring
  have hQ2 : 2 * K ≤ Q := by rw [← hQ]; exact Int.mul_le_mul_of_nonneg_right hK2 (by omega)
  rw [inS_iff, hM] at ha hb
  -- limbs
  obtain ⟨lh, hlh⟩ : ∃ x, a / H = x := ⟨_, rfl⟩
  obtain ⟨ll, hll⟩ : ∃ x, a % H = x := ⟨_, rfl⟩
  obtain ⟨rh, hrh⟩ : ∃ x, b / H = x := ⟨_, rfl⟩
  obtain ⟨rl, hrl⟩ : ∃ x, b % H = x := ⟨_, rfl⟩
  have hda := Int.emod_add_mul_ediv a H
  have hdb := Int.emod_add_mul_ediv b H
  rw [hlh, hll] at hda
  rw [hrh, hrl] at hdb
  have hll0 : 0 ≤ ll := by rw [← hll]; exact Int.emod_nonneg _ (by omega)
  have hll1 : ll < 2 * K := by rw [← hll, ← hHK]; exact Int.emod_lt_of_pos _ hHpos
  have hrl0 : 0 ≤ rl := by rw [← hrl]; exact Int.emod_nonneg _ (by omega)
  have hrl1 : rl < 2 * K := by rw [← hrl, ← hHK]; exact Int.emod_lt_of_pos _ hHpos
  have hlh0 : -K ≤ lh := by rw [← hlh, Int.le_ediv_iff_mul_le hHpos, Int.neg_mul, hKH]; exact ha.1
  have hlh1 : lh < K := by rw [← hlh, Int.ediv_lt_iff_lt_mul hHpos, hKH]; exact ha.2
  have hrh0 : -K ≤ rh := by rw [← hrh, Int.le_ediv_iff_mul_le hHpos, Int.neg_mul, hKH]; exact hb.1
  have hrh1 : rh < K := by rw [← hrh, Int.ediv_lt_iff_lt_mul hHpos, hKH]; exact hb.2
  -- limb products
  obtain ⟨hp1a, hp1b⟩ := sP1 K lh rh hlh0 (by omega) hrh0 (by omega)
  obtain ⟨hp2a, hp2b⟩ := sP2 K lh rl hlh0 hlh1 hrl0 hrl1
  obtain ⟨hp3a, hp3b⟩ := sP2 K rh ll hrh0 hrh1 hll0 hll1
  obtain ⟨hp4a, hp4b⟩ := uP H ll rl hll0 (by omega) hrl0 (by omega)
  rw [Int.mul_comm rh ll] at hp3a hp3b
  rw [hQ] at hp1a hp1b hp2a hp2b hp3a hp3b
  rw [hHH, hN] at hp4b
  have h1 : inI true n (lh * rl) := by rw [inS_iff, hM]; omega
  have h2 : inI true n (ll * rh) := by rw [inS_iff, hM]; omega
  have h3 : inI true n (lh * rh) := by rw [inS_iff, hM]; omega
  have h4 : inI false n (ll * rl) := by rw [inU_iff, hN]; omega
  -- column 0/1
  obtain ⟨c1h, hc1h⟩ : ∃ x, ll * rl / H = x := ⟨_, rfl⟩
  obtain ⟨c1l, hc1l⟩ : ∃ x, ll * rl % H = x := ⟨_, rfl⟩
  have hd1 := Int.emod_add_mul_ediv (ll * rl) H
  rw [hc1h, hc1l] at hd1
  have hc1l0 : 0 ≤ c1l := by rw [← hc1l]; exact Int.emod_nonneg _ (by omega)
  have hc1l1 : c1l < H := by rw [← hc1l]; exact Int.emod_lt_of_pos _ hHpos
  have hc1h0 : 0 ≤ c1h := by rw [← hc1h]; exact Int.ediv_nonneg hp4a (by omega)
  have hc1h1 : c1h < H - 1 := by rw [← hc1h, Int.ediv_lt_iff_lt_mul hHpos, hH1H]; omega
  have h5 : inI true n c1h := by rw [inS_iff, hM]; omega
  have h6 : inI true n (lh * rl + c1h) := by rw [inS_iff, hM]; omega
  -- column 1/2
  obtain ⟨col12, carry, hcc, hcolin, hsum, hcarry⟩ := carryingAdd_spec true n hn0 _ _ h6 h2
  rw [inS_iff, hM] at hcolin
  obtain ⟨c2h, hc2h⟩ : ∃ x, col12 / H = x := ⟨_, rfl⟩
  obtain ⟨c2l, hc2l⟩ : ∃ x, col12 % H = x := ⟨_, rfl⟩
  have hd2 := Int.emod_add_mul_ediv col12 H
  rw [hc2h, hc2l] at hd2
  have hc2l0 : 0 ≤ c2l := by rw [← hc2l]; exact Int.emod_nonneg _ (by omega)
  have hc2l1 : c2l < H := by rw [← hc2l]; exact Int.emod_lt_of_pos _ hHpos
  have hc2h0 : -K ≤ c2h := by rw [← hc2h, Int.le_ediv_iff_mul_le hHpos, Int.neg_mul, hKH]; exact hcolin.1
  have hc2h1 : c2h < K := by rw [← hc2h, Int.ediv_lt_iff_lt_mul hHpos, hKH]; exact hcolin.2
  have hup0 : 0 ≤ c2l * H := Int.mul_nonneg hc2l0 (by omega)
  have hup1 : c2l * H ≤ (H - 1) * H := Int.mul_le_mul_of_nonneg_right (by omega) (by omega)
  have h7 : inI false n (c2l * H) := by rw [inU_iff, hN]; omega
  have h8 : inI false n (c2l * H + c1l) := by rw [inU_iff, hN]; omega
  have h9 : inI true n (lh * rh + c2h) := by rw [inS_iff, hM]; omega
  have h11 : inI true n (carry * H) := by
    rw [inS_iff, hM]
    rcases hcarry with h | h | ⟨_, h⟩ <;> subst h <;> omega
  -- the exact identity
  have hid := limb_identity a b H (2 ^ n) lh ll rh rl c1h c1l col12 carry c2h c2l hda hdb hd1 hd2 hsum hHH
  obtain ⟨hq, hr⟩ := div_mod_of_eq hNpos hid (by omega) (by omega)
  have h12 : inI true n (lh * rh + c2h + carry * H) := by rw [← hq]; exact hPin
  rw [fallback_flat true n f hn0 hf0 a b H lh ll rh rl c1h c1l col12 carry c2h c2l hH hH2 hlh hll hrh hrl
    h1 h2 h3 h4 hc1h hc1l h5 h6 hcc hc2h hc2l h7 h8 h9 hcarry h11 h12, hq, hr]

/-- the degenerate signed width 2 (`H = 2`), by exhaustion -/
theorem fallback_spec_signed_two (f : Nat) (hf0 : f ≠ 0) (hf : f ≤ 2) (a b : Int)
    (ha : inI true 2 a) (hb : inI true 2 b) :
    mulOverflowFallback true 2 f a b = .ok (ovfI true 2 (mulSpec f a b)) false := by
  have e : (2 : Int) ^ (2 - 1) = 2 := by decide
  have hA : a = -2 ∨ a = -1 ∨ a = 0 ∨ a = 1 := by
    obtain ⟨h1, h2⟩ := (inS_iff 2 a).1 ha; rw [e] at h1 h2; omega
  have hB : b = -2 ∨ b = -1 ∨ b = 0 ∨ b = 1 := by
    obtain ⟨h1, h2⟩ := (inS_iff 2 b).1 hb; rw [e] at h1 h2; omega
  have hF : f = 1 ∨ f = 2 := by omega
  rcases hF with rfl | rfl <;> rcases hA with rfl | rfl | rfl | rfl <;> rcases hB with rfl | rfl | rfl | rfl <;> decide

theorem mulOverflowFallback_spec (s : Bool) (n f : Nat) (hn : 2 ≤ n) (heven : n % 2 = 0) (hn32 : n < 2 ^ 31) (hf : f ≤ n)
    (a b : Int) (ha : inI s n a) (hb : inI s n b) :
    mulOverflowFallback s n f a b = .ok (ovfI s n (mulSpec f a b)) false := by
  have hn0 : 0 < n := by omega
  by_cases hf0 : f = 0
  · subst hf0
    unfold mulOverflowFallback mulSpec
    simp only [if_true, Int.pow_zero, Int.ediv_one]
    rfl
  · by_cases hgen : 4 ≤ n ∨ s = false
    · have hcore : mulOverflowFallback s n f a b = combineLoThenShl s n (a * b / 2 ^ n) (a * b % 2 ^ n) f := by
        cases s
        · exact fallback_eq_combine_unsigned n f hn heven hf0 a b ha hb
        · exact fallback_eq_combine_signed n f (by simpa using hgen) heven hf0 a b ha hb
      rw [hcore, combine_spec s n f hn0 hf0 hf hn32 (a * b) (prod_div_in s n hn0 a b ha hb)]
      rfl
    · have hn2 : n = 2 := by omega
      have hs : s = true := by cases s <;> simp_all
      subst hn2; subst hs
      exact fallback_spec_signed_two f hf0 hf a b ha hb

#print axioms mulOverflowFallback_spec

end Sfx
