import Mathlib.Analysis.SpecialFunctions.Complex.Arctan
import Mathlib.Analysis.SpecificLimits.Normed
import Mathlib.Analysis.Real.Pi.Bounds
/-
  TrigAccAtan.lean — enclosures of `Real.arctan` by the partial sums of Gregory's series (alternating-series bounds on Mathlib's
  `Real.hasSum_arctan`), and the rational enclosures of `π` used by the range-reduction error.  No model definitions here.
-/
namespace Sfx.TrigAccPf
open Real Finset Filter

/-- the `k`-th term of Gregory's series without its sign -/
noncomputable def gterm (x : ℝ) (k : ℕ) : ℝ := x ^ (2 * k + 1) / ((2 * k + 1 : ℕ) : ℝ)

/-- the partial sums of Gregory's series -/
noncomputable def gsum (x : ℝ) (n : ℕ) : ℝ := ∑ k ∈ range n, (-1 : ℝ) ^ k * gterm x k

theorem gsum_zero (x : ℝ) : gsum x 0 = 0 := by simp [gsum]
theorem gsum_succ (x : ℝ) (n : ℕ) : gsum x (n + 1) = gsum x n + (-1 : ℝ) ^ n * gterm x n := by
  simp [gsum, sum_range_succ]

theorem gterm_antitone (x : ℝ) (h0 : 0 ≤ x) (h1 : x ≤ 1) : Antitone (gterm x) := by
  refine antitone_nat_of_succ_le (fun n => ?_)
  unfold gterm
  have hp : x ^ (2 * (n + 1) + 1) ≤ x ^ (2 * n + 1) := pow_le_pow_of_le_one h0 h1 (by omega)
  have hd : ((2 * n + 1 : ℕ) : ℝ) ≤ ((2 * (n + 1) + 1 : ℕ) : ℝ) := by exact_mod_cast (by omega : 2 * n + 1 ≤ 2 * (n + 1) + 1)
  have hpos : (0 : ℝ) < ((2 * n + 1 : ℕ) : ℝ) := by exact_mod_cast (by omega : 0 < 2 * n + 1)
  exact div_le_div₀ (pow_nonneg h0 _) hp hpos hd

theorem gsum_tendsto (x : ℝ) (h0 : 0 ≤ x) (h1 : x < 1) : Tendsto (fun n => gsum x n) atTop (nhds (arctan x)) := by
  have h := (Real.hasSum_arctan (x := x) (by rw [Real.norm_eq_abs, abs_of_nonneg h0]; exact h1)).tendsto_sum_nat
  refine h.congr (fun n => ?_)
  unfold gsum gterm
  refine sum_congr rfl (fun k _ => ?_)
  rw [mul_div_assoc]

/-- even partial sums are lower bounds, odd partial sums upper bounds -/
theorem arctan_enclosure (x : ℝ) (h0 : 0 ≤ x) (h1 : x < 1) (k : ℕ) :
    gsum x (2 * k) ≤ arctan x ∧ arctan x ≤ gsum x (2 * k + 1) :=
  ⟨(gterm_antitone x h0 h1.le).alternating_series_le_tendsto (gsum_tendsto x h0 h1) k,
   (gterm_antitone x h0 h1.le).tendsto_le_alternating_series (gsum_tendsto x h0 h1) k⟩

/-- `gsum x 70 ≤ arctan x ≤ gsum x 70 + x^141 / 141` -/
theorem arctan_enclosure_70 (x : ℝ) (h0 : 0 ≤ x) (h1 : x < 1) :
    gsum x 70 ≤ arctan x ∧ arctan x ≤ gsum x 70 + x ^ 141 / 141 := by
  obtain ⟨a, b⟩ := arctan_enclosure x h0 h1 35
  refine ⟨a, ?_⟩
  rw [show 2 * 35 + 1 = 70 + 1 by rfl, gsum_succ] at b
  have : (-1 : ℝ) ^ 70 * gterm x 70 = x ^ 141 / 141 := by
    unfold gterm; norm_num
  rw [this] at b; exact b

/-! ### `π` -/

/-- `TWO_PI` of `I9F23` against `2π`: below by less than `0.54` ulp -/
theorem two_pi_23 : |(52707178 : ℝ) / 8388608 - 2 * π| ≤ 54 / 100 / 8388608 := by
  have h1 := pi_gt_d20
  have h2 := pi_lt_d20
  rw [abs_le]; constructor <;> norm_num at h1 h2 ⊢ <;> linarith

/-- `FRAC_PI_2` of `I9F23` against `π/2`: `|2·H₂₃ − π| ≤ 1.27` ulp -/
theorem half_pi_23 : |2 * ((13176794 : ℝ) / 8388608) - π| ≤ 127 / 100 / 8388608 := by
  have h1 := pi_gt_d20
  have h2 := pi_lt_d20
  rw [abs_le]; constructor <;> norm_num at h1 h2 ⊢ <;> linarith

/-- entry 0 of the table is `π/4` to `2^-53` -/
theorem quarter_pi_tab : |(267257146016241676546777306890156113920 : ℝ) / 2 ^ 128 - π / 4| ≤ 1 / 2 ^ 53 := by
  have h1 := pi_gt_d20
  have h2 := pi_lt_d20
  rw [abs_le]; constructor <;> norm_num at h1 h2 ⊢ <;> linarith

end Sfx.TrigAccPf
