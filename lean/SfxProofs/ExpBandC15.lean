import SfxProofs.ExpBand
import SfxProps.C15
/-
  ExpBandC15.lean — the exp clause of `Sfx.C15.C15_statement` (SfxProps/C15.lean), verbatim, for every operand OUTSIDE known finding
  D10 (omitted tail of the series at most `2^-24 e^|val x|`).  (The unrestricted clause is false: `SfxProofs/ExpAccNeg.lean`.)
-/
namespace Sfx.ExpBandPf
open Sfx.C15 Sfx.C12

/-- PROVED part of the exp clause of C15: every supported type, every operand outside known finding D10 -/
theorem C15_exp_band (D : Layout) (h : Supp D) (x : Int) (hx : inRange D x)
    (htail : Sfx.ExpAccPf.Rm |val D.f x| D.f ≤ Real.exp |val D.f x| / 2 ^ 24) :
    ∀ r it dbg, Trans.run (Trans.exp D D x) = .ok (some r, it) dbg →
      |val D.f r - Real.exp (val D.f x)| ≤ Real.exp (val D.f x) / (2 : ℝ) ^ 20 + 64 / (2 : ℝ) ^ D.f := by
  obtain ⟨hv, hs, hf, hint⟩ := h
  intro r it dbg hrun
  exact exp_accuracy_band D hv hs hf hint x hx htail r it dbg hrun

end Sfx.ExpBandPf

#print axioms Sfx.ExpBandPf.C15_exp_band
