import SfxProofs.ParsePow
/-
  ParseTopArith.lean — C08 top level, arithmetic part (core Lean only):
  * `rneDiv_scale`: the rounded value of a literal does not depend on trailing fraction zeros;
  * `rneDiv_int_frac`: rounding `iv + fv/D` to the grid `2^-f` is "integer part passes through, fraction part rounds",
    except on the integer grid (`f = 0`) at an exact half with an odd integer part;
  * `fracIsHalf_eq`: `frac_is_half` recognises exactly the fraction strings (without trailing zero) of value one half.
-/
namespace Sfx.ParseTopPf
open Sfx.TextSpec Sfx.ParsePowPf

/-! ### `rneDiv` -/

theorem rneDiv_scale (num A r len k f : Nat) (hr : 0 < r) (h : num * r ^ len = A * r ^ k) :
    rneDiv (num * 2 ^ f) (r ^ k) = rneDiv (A * 2 ^ f) (r ^ len) := by
  have hk : 0 < r ^ k := Nat.pow_pos hr
  have hl : 0 < r ^ len := Nat.pow_pos hr
  rw [← rneDiv_mul_cancel (num * 2 ^ f) (r ^ k) (r ^ len) hk hl,
    ← rneDiv_mul_cancel (A * 2 ^ f) (r ^ len) (r ^ k) hl hk]
  have e1 : num * 2 ^ f * r ^ len = A * 2 ^ f * r ^ k := by
    rw [Nat.mul_right_comm, h, Nat.mul_right_comm]
  rw [e1, Nat.mul_comm (r ^ k)]

theorem rneDiv_int_frac (iv fv D f : Nat) (hfv : fv < D) :
    rneDiv ((iv * D + fv) * 2 ^ f) D =
      iv * 2 ^ f + rneDiv (fv * 2 ^ f) D + (if f = 0 ∧ 2 * fv = D ∧ iv % 2 = 1 then 1 else 0) := by
  have hD : 0 < D := by omega
  have h1 : fv * 2 ^ f = (fv * 2 ^ f / D) * D + fv * 2 ^ f % D := by
    have := Nat.div_add_mod (fv * 2 ^ f) D; rw [Nat.mul_comm] at this; omega
  have h2 : fv * 2 ^ f % D < D := Nat.mod_lt _ hD
  generalize fv * 2 ^ f / D = q0 at h1
  generalize fv * 2 ^ f % D = r0 at h1 h2
  have h3 : (iv * D + fv) * 2 ^ f = (iv * 2 ^ f + q0) * D + r0 := by
    rw [Nat.add_mul, h1, Nat.add_mul, Nat.mul_right_comm, Nat.add_assoc]
  rw [rneDiv_of_decomp _ _ _ _ h3 h2, rneDiv_of_decomp _ _ _ _ h1 h2]
  by_cases hf : f = 0
  · subst hf
    simp only [Nat.pow_zero, Nat.mul_one] at h1 ⊢
    have hq0 : q0 = 0 := by
      rcases Nat.eq_zero_or_pos q0 with h | h
      · exact h
      · have := Nat.le_mul_of_pos_left D h
        omega
    subst hq0
    rw [Nat.zero_mul, Nat.zero_add] at h1
    subst h1
    simp only [Nat.add_zero, true_and, Nat.zero_mod, ↓reduceIte]
    clear h3
    (repeat' split) <;> omega
  · have hpar : (iv * 2 ^ f + q0) % 2 = q0 % 2 := by
      have : 2 ^ f = 2 ^ (f - 1) * 2 := by rw [← Nat.pow_succ]; congr 1; omega
      rw [this, ← Nat.mul_assoc, Nat.add_comm, Nat.add_mul_mod_self_right]
    rw [hpar]
    simp only [hf, false_and, if_false, Nat.add_zero]
    (repeat' split) <;> omega

/-! ### `frac_is_half` -/

theorem half_len_one {r : Nat} (hr : r % 2 = 0) {ds : List Nat} {w : Nat} (hne : ds ≠ [])
    (hlast : ds.getLast? ≠ some 48) (hv : digitsVal r ds = some w) (hhalf : 2 * w = r ^ ds.length) :
    ds.length = 1 := by
  cases ds with
  | nil => exact absurd rfl hne
  | cons b rest =>
    cases rest with
    | nil => rfl
    | cons c l =>
      exfalso
      obtain ⟨d, w', hd, hw', rfl⟩ := digitsVal_cons hv
      rw [List.getLast?_cons_cons] at hlast
      have h0 : w' ≠ 0 := digitsVal_ne_zero (c :: l) w' (by simp) hlast hw'
      have h1 : w' < r ^ (c :: l).length := digitsVal_lt _ _ hw'
      rw [List.length_cons (a := b), Nat.pow_succ] at hhalf
      generalize r ^ (c :: l).length = P at *
      obtain ⟨s, rfl⟩ : ∃ s, r = 2 * s := ⟨r / 2, by omega⟩
      have h2 : d * P + w' = s * P := by
        have : P * (2 * s) = 2 * (s * P) := by rw [Nat.mul_comm, Nat.mul_assoc]
        omega
      rcases Nat.lt_or_ge d s with h | h
      · have := Nat.mul_le_mul_right P (show d + 1 ≤ s from h)
        rw [Nat.add_mul, Nat.one_mul] at this
        omega
      · have := Nat.mul_le_mul_right P h
        omega

/-- `frac_is_half(bytes, radix)` is true exactly when the (trimmed) fraction digits denote one half -/
theorem fracIsHalf_eq {r : Nat} (hr : r = 2 ∨ r = 8 ∨ r = 10 ∨ r = 16) {ds : List Nat} {w : Nat}
    (hlast : ds ≠ [] → ds.getLast? ≠ some 48) (hv : digitsVal r ds = some w) :
    FromStr.fracIsHalf ds r = decide (2 * w = r ^ ds.length) := by
  by_cases hhalf : 2 * w = r ^ ds.length
  · rw [decide_eq_true hhalf]
    have hne : ds ≠ [] := by
      intro h; subst h
      rw [digitsVal_nil] at hv; injection hv with hv; subst hv; simp at hhalf
    have hlen := half_len_one (by omega) hne (hlast hne) hv hhalf
    match ds, hlen with
    | [b], _ =>
      obtain ⟨d, w', hd, hw', rfl⟩ := digitsVal_cons hv
      rw [digitsVal_nil] at hw'; injection hw' with hw'; subst hw'
      simp only [List.length_nil, Nat.pow_zero, Nat.mul_one, Nat.add_zero, List.length_cons, Nat.zero_add,
        Nat.pow_one] at hhalf
      have hd' := digitVal_some hd
      unfold FromStr.fracIsHalf FromStr.digitVal
      simp only [beq_iff_eq]
      omega
  · rw [decide_eq_false hhalf]
    cases hb : FromStr.fracIsHalf ds r with
    | false => rfl
    | true =>
      exfalso; apply hhalf
      unfold FromStr.fracIsHalf at hb
      split at hb
      · rename_i b
        obtain ⟨d, w', hd, hw', rfl⟩ := digitsVal_cons hv
        rw [digitsVal_nil] at hw'; injection hw' with hw'; subst hw'
        have hd' := digitVal_some hd
        unfold FromStr.digitVal at hb
        simp only [beq_iff_eq] at hb
        simp only [List.length_nil, Nat.pow_zero, Nat.mul_one, Nat.add_zero, List.length_cons, Nat.zero_add,
          Nat.pow_one]
        omega
      · cases hb

end Sfx.ParseTopPf
