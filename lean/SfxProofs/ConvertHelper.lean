import SfxProofs.ConvertLemmas
/-
  ConvertHelper.lean — specification of `IntHelper::to_fixed_helper` (model: `toFixedHelper`), core Lean only.
  With `k = srcFrac − dstFrac` and `V = ⌊x · 2^(−k)⌋`:
    neg ⇔ x < 0;  dir = Less ⇔ bits were discarded;  bits ≡ V (mod 2^128);
    overflow ⇔ V needs more than `dstFrac + dstInt` bits (unsigned reading for x > 0, two's complement for x < 0).
-/
namespace Sfx.ConvPf

/-! ### normal form of the model -/

/-- the `leading` count of the helper -/
def leadingOf (s : Bool) (srcN : Nat) (x : Int) : Int :=
  if s && decide (x < 0) then (leadingZeros srcN (notI true srcN x) : Int) - 1 else (leadingZeros srcN x : Int)

/-- the five-way `match need_to_shr` -/
def bitsLost (s : Bool) (x needShr : Int) : Int × Bool :=
  if needShr ≤ -128 then (0, false)
  else if needShr < 0 then (wrapI s 128 (x * 2 ^ (-needShr).toNat), false)
  else if needShr = 0 then (x, false)
  else if needShr ≤ 127 then
    (shrI x needShr.toNat, decide (wrapI s 128 (shrI x needShr.toNat * 2 ^ needShr.toNat) ≠ x))
  else ((if s then shrI x 127 else 0), true)

theorem tfh_eq (s : Bool) (srcN : Nat) (x : Int) (hx0 : x ≠ 0) (srcFrac : Int) (dstFrac dstInt : Nat) :
    toFixedHelper s srcN x srcFrac dstFrac dstInt =
      ⟨s && decide (x < 0),
       if s && decide (0 ≤ x) then wrapU 128 (bitsLost s x (srcFrac - dstFrac)).1 else (bitsLost s x (srcFrac - dstFrac)).1,
       if (bitsLost s x (srcFrac - dstFrac)).2 then -1 else 0,
       decide ((srcN : Int) - ((dstFrac : Int) + dstInt) > (srcFrac - dstFrac) + leadingOf s srcN x)⟩ := by
  unfold toFixedHelper
  rw [if_neg hx0]
  cases s
  · rfl
  · by_cases h : x ≥ 0
    · have h' : ¬ x < 0 := by omega
      simp [h, h', bitsLost, leadingOf]
    · have h' : x < 0 := by omega
      have h'' : ¬ 0 ≤ x := by omega
      simp [h', h'', bitsLost, leadingOf]

/-! ### the shifted bits and the lost-bits flag -/

theorem wrapI_zero' (sd : Bool) {n : Nat} (hn : 0 < n) : wrapI sd n 0 = 0 := by
  have := wrapI_mul_pow_of_le sd hn (Nat.le_refl n) 0
  simpa using this

/-- `(x >> j) << j` stays inside the 128-bit type -/
theorem floor_mult_in {s : Bool} {x : Int} (hx : inI s 128 x) (j : Nat) (hj : j ≤ 127) : inI s 128 (x / 2 ^ j * 2 ^ j) := by
  have hP := two_pow_pos j
  have e := Int.emod_add_mul_ediv x (2 ^ j)
  have h0 := Int.emod_nonneg x (Int.ne_of_gt hP)
  rw [Int.mul_comm] at e
  cases s
  · rw [inU_iff] at *
    have hq : 0 ≤ x / 2 ^ j := Int.ediv_nonneg hx.1 (Int.le_of_lt hP)
    have := Int.mul_nonneg hq (Int.le_of_lt hP)
    omega
  · rw [inS_iff] at *
    have hs : (2 : Int) ^ (128 - 1) = 2 ^ (127 - j) * 2 ^ j := by rw [← pow_add']; congr 1; omega
    have hq : -(2 ^ (127 - j)) ≤ x / 2 ^ j := (Int.le_ediv_iff_mul_le hP).2 (by rw [Int.neg_mul]; omega)
    have := Int.mul_le_mul_of_nonneg_right hq (Int.le_of_lt hP)
    rw [Int.neg_mul] at this
    omega

theorem bitsLost_bits (s : Bool) (x k : Int) (hx : inI s 128 x) (sd : Bool) (n : Nat) (hn : 0 < n) (hn128 : n ≤ 128) :
    wrapI sd n (bitsLost s x k).1 = wrapI sd n (floorShift x k) := by
  unfold bitsLost
  by_cases h1 : k ≤ -128
  · rw [if_pos h1]
    obtain ⟨j, rfl⟩ : ∃ j : Nat, k = -(j : Int) := ⟨(-k).toNat, by omega⟩
    rw [floorShift_neg, wrapI_mul_pow_of_le sd hn (by omega), wrapI_zero' sd hn]
  rw [if_neg h1]
  by_cases h2 : k < 0
  · rw [if_pos h2]
    obtain ⟨j, rfl⟩ : ∃ j : Nat, k = -(j : Int) := ⟨(-k).toNat, by omega⟩
    have e : (-(-(j : Int))).toNat = j := by omega
    rw [floorShift_neg, e]
    exact wrapI_wrapI_of_le sd s hn128 _
  rw [if_neg h2]
  by_cases h3 : k = 0
  · rw [if_pos h3, h3, floorShift_zero]
  rw [if_neg h3]
  obtain ⟨j, hj, rfl⟩ : ∃ j : Nat, 0 < j ∧ k = (j : Int) := ⟨k.toNat, by omega, by omega⟩
  have e : ((j : Int)).toNat = j := by omega
  rw [floorShift_pos _ _ hj]
  by_cases h4 : (j : Int) ≤ 127
  · rw [if_pos h4, e]; rfl
  rw [if_neg h4]
  have hle : (2 : Int) ^ 128 ≤ 2 ^ j := pow_le_pow (by omega)
  have h127 : (2 : Int) ^ 127 < 2 ^ 128 := pow_lt_pow (by omega)
  cases s
  · rw [inU_iff] at hx
    rw [Int.ediv_eq_zero_of_lt hx.1 (by omega)]; rfl
  · rw [inS_iff] at hx
    show wrapI sd n (x / 2 ^ 127) = _
    by_cases hneg : x < 0
    · rw [ediv_of_small_neg (P := 2 ^ 127) (by omega) hneg, ediv_of_small_neg (P := 2 ^ j) (by omega) hneg]
    · rw [Int.ediv_eq_zero_of_lt (by omega) (by omega), Int.ediv_eq_zero_of_lt (by omega) (by omega)]

theorem bitsLost_lost (s : Bool) (x k : Int) (hx : inI s 128 x) (hx0 : x ≠ 0) :
    (bitsLost s x k).2 = decide (0 < k ∧ x % 2 ^ k.toNat ≠ 0) := by
  unfold bitsLost
  by_cases h1 : k ≤ -128
  · rw [if_pos h1]; simp; omega
  rw [if_neg h1]
  by_cases h2 : k < 0
  · rw [if_pos h2]; simp; omega
  rw [if_neg h2]
  by_cases h3 : k = 0
  · rw [if_pos h3]; simp; omega
  rw [if_neg h3]
  obtain ⟨j, hj, rfl⟩ : ∃ j : Nat, 0 < j ∧ k = (j : Int) := ⟨k.toNat, by omega, by omega⟩
  have e : ((j : Int)).toNat = j := by omega
  have hjpos : (0 : Int) < (j : Int) := by omega
  rw [e]
  by_cases h4 : (j : Int) ≤ 127
  · rw [if_pos h4]
    show decide (wrapI s 128 (x / 2 ^ j * 2 ^ j) ≠ x) = _
    rw [wrapI_of_in (by omega) (floor_mult_in hx j (by omega))]
    have em := Int.emod_add_mul_ediv x (2 ^ j)
    rw [Int.mul_comm] at em
    apply decide_eq_decide.2
    constructor
    · intro h; exact ⟨hjpos, by omega⟩
    · intro h; have := h.2; omega
  rw [if_neg h4]
  have hle : (2 : Int) ^ 128 ≤ 2 ^ j := pow_le_pow (by omega)
  have h127 : (2 : Int) ^ 127 < 2 ^ 128 := pow_lt_pow (by omega)
  have hne : x % 2 ^ j ≠ 0 := by
    apply emod_ne_zero_of_small hx0
    · cases s
      · rw [inU_iff] at hx; omega
      · rw [inS_iff] at hx; omega
    · cases s
      · rw [inU_iff] at hx; omega
      · rw [inS_iff] at hx; omega
  simp [hne, hj]

/-! ### the overflow flag -/

theorem overflow_flag (s : Bool) (srcN : Nat) (hN : 0 < srcN) (x : Int) (hx : inI s srcN x) (hx0 : x ≠ 0) (k : Int)
    (d : Nat) (hd : 0 < d) :
    decide ((srcN : Int) - (d : Int) > k + leadingOf s srcN x) =
      (if 0 < x then decide (2 ^ d ≤ floorShift x k) else decide (floorShift x k < -(2 ^ (d - 1)))) := by
  by_cases hpos : 0 < x
  · rw [if_pos hpos]
    have hl : leadingOf s srcN x = (leadingZeros srcN x : Int) := by
      unfold leadingOf
      have : ¬ x < 0 := by omega
      simp [this]
    obtain ⟨hz, hb⟩ := leadingZeros_pos hN hx hpos
    rw [hl, hz]
    apply decide_eq_decide.2
    by_cases hm : 0 ≤ (d : Int) + k
    · have a := floorShift_lt_iff x k d hm
      have b := bitLen_le_iff_int x (by omega) ((d : Int) + k).toNat
      constructor <;> intro h <;> omega
    · have a := floorShift_big_pos x k d (by omega) hpos
      constructor <;> intro h <;> omega
  · rw [if_neg hpos]
    have hneg : x < 0 := by omega
    have hs : s = true := by
      cases s
      · rw [inU_iff] at hx; omega
      · rfl
    subst hs
    have hl : leadingOf true srcN x = (leadingZeros srcN (notI true srcN x) : Int) - 1 := by
      unfold leadingOf
      simp [hneg]
    obtain ⟨hz, hb⟩ := leadingZeros_neg hN hx hneg
    rw [hl, hz]
    apply decide_eq_decide.2
    by_cases hm : 0 ≤ ((d - 1 : Nat) : Int) + k
    · have a := floorShift_ge_iff x k (d - 1) hm
      have b := bitLen_le_iff_int (-x - 1) (by omega) (((d - 1 : Nat) : Int) + k).toNat
      constructor <;> intro h <;> omega
    · have a := floorShift_big_neg x k (d - 1) (by omega) hneg
      constructor <;> intro h <;> omega

/-! ### the specification -/

/-- the helper's specification with `V` written as `floorShift x (srcFrac − dstFrac)` -/
theorem helper_spec (s : Bool) (srcN : Nat) (hN : 0 < srcN) (hN128 : srcN ≤ 128) (x : Int) (hx : inI s srcN x) (hx0 : x ≠ 0)
    (srcFrac : Int) (dstFrac dstInt : Nat) (hD : 0 < dstFrac + dstInt) :
    (toFixedHelper s srcN x srcFrac dstFrac dstInt).neg = (s && decide (x < 0)) ∧
    (toFixedHelper s srcN x srcFrac dstFrac dstInt).dir
        = (if 0 < srcFrac - dstFrac ∧ x % 2 ^ (srcFrac - dstFrac).toNat ≠ 0 then -1 else 0) ∧
    (∀ (sd : Bool) (n : Nat), 0 < n → n ≤ 128 →
        wrapI sd n (toFixedHelper s srcN x srcFrac dstFrac dstInt).bits = wrapI sd n (floorShift x (srcFrac - dstFrac))) ∧
    (toFixedHelper s srcN x srcFrac dstFrac dstInt).overflow
        = (if 0 < x then decide (2 ^ (dstFrac + dstInt) ≤ floorShift x (srcFrac - dstFrac))
           else decide (floorShift x (srcFrac - dstFrac) < -(2 ^ (dstFrac + dstInt - 1)))) := by
  have hx128 : inI s 128 x := inI_mono hN128 hx
  rw [tfh_eq s srcN x hx0]
  refine ⟨rfl, ?_, ?_, ?_⟩
  · show (if (bitsLost s x (srcFrac - dstFrac)).2 then (-1 : Int) else 0) = _
    rw [bitsLost_lost s x _ hx128 hx0]
    simp only [decide_eq_true_eq]
  · intro sd n hn hn128
    show wrapI sd n (if s && decide (0 ≤ x) then wrapU 128 (bitsLost s x (srcFrac - dstFrac)).1
      else (bitsLost s x (srcFrac - dstFrac)).1) = _
    rw [← bitsLost_bits s x _ hx128 sd n hn hn128]
    split
    · exact wrapI_wrapI_of_le sd false hn128 _
    · rfl
  · show decide ((srcN : Int) - ((dstFrac : Int) + dstInt) > (srcFrac - dstFrac) + leadingOf s srcN x) = _
    have := overflow_flag s srcN hN x hx hx0 (srcFrac - dstFrac) (dstFrac + dstInt) hD
    rw [← this]
    apply decide_eq_decide.2
    have : ((dstFrac + dstInt : Nat) : Int) = (dstFrac : Int) + dstInt := by omega
    rw [this]

theorem helper_neg (s : Bool) (srcN : Nat) (hN : 0 < srcN) (hN128 : srcN ≤ 128) (x : Int) (hx : inI s srcN x) (hx0 : x ≠ 0)
    (srcFrac : Int) (dstFrac dstInt : Nat) (hD : 0 < dstFrac + dstInt) :
    (toFixedHelper s srcN x srcFrac dstFrac dstInt).neg = (s && decide (x < 0)) :=
  (helper_spec s srcN hN hN128 x hx hx0 srcFrac dstFrac dstInt hD).1

/-- `dir = Less` exactly when bits were discarded -/
theorem helper_dir (s : Bool) (srcN : Nat) (hN : 0 < srcN) (hN128 : srcN ≤ 128) (x : Int) (hx : inI s srcN x) (hx0 : x ≠ 0)
    (srcFrac : Int) (dstFrac dstInt : Nat) (hD : 0 < dstFrac + dstInt) :
    (toFixedHelper s srcN x srcFrac dstFrac dstInt).dir
      = (if 0 < srcFrac - dstFrac ∧ x % 2 ^ (srcFrac - dstFrac).toNat ≠ 0 then -1 else 0) :=
  (helper_spec s srcN hN hN128 x hx hx0 srcFrac dstFrac dstInt hD).2.1

/-- `bits ≡ V (mod 2^128)`, hence in every destination width -/
theorem helper_bits (s : Bool) (srcN : Nat) (hN : 0 < srcN) (hN128 : srcN ≤ 128) (x : Int) (hx : inI s srcN x) (hx0 : x ≠ 0)
    (srcFrac : Int) (dstFrac dstInt : Nat) (hD : 0 < dstFrac + dstInt) :
    ∀ (sd : Bool) (n : Nat), 0 < n → n ≤ 128 →
      wrapI sd n (toFixedHelper s srcN x srcFrac dstFrac dstInt).bits
        = wrapI sd n (if srcFrac - dstFrac ≤ 0 then x * 2 ^ (-(srcFrac - dstFrac)).toNat
                      else x / 2 ^ (srcFrac - dstFrac).toNat) :=
  (helper_spec s srcN hN hN128 x hx hx0 srcFrac dstFrac dstInt hD).2.2.1

theorem helper_overflow (s : Bool) (srcN : Nat) (hN : 0 < srcN) (hN128 : srcN ≤ 128) (x : Int) (hx : inI s srcN x) (hx0 : x ≠ 0)
    (srcFrac : Int) (dstFrac dstInt : Nat) (hD : 0 < dstFrac + dstInt) :
    (toFixedHelper s srcN x srcFrac dstFrac dstInt).overflow
      = (if 0 < x then
           decide (2 ^ (dstFrac + dstInt) ≤
             (if srcFrac - dstFrac ≤ 0 then x * 2 ^ (-(srcFrac - dstFrac)).toNat else x / 2 ^ (srcFrac - dstFrac).toNat))
         else
           decide ((if srcFrac - dstFrac ≤ 0 then x * 2 ^ (-(srcFrac - dstFrac)).toNat else x / 2 ^ (srcFrac - dstFrac).toNat)
             < -(2 ^ (dstFrac + dstInt - 1)))) :=
  (helper_spec s srcN hN hN128 x hx hx0 srcFrac dstFrac dstInt hD).2.2.2

theorem helper_zero (s : Bool) (srcN : Nat) (srcFrac : Int) (dstFrac dstInt : Nat) :
    toFixedHelper s srcN 0 srcFrac dstFrac dstInt = ⟨false, 0, 0, false⟩ := by
  unfold toFixedHelper; rfl

end Sfx.ConvPf
