import SfxProofs.ToFloatNearGrid
/-
  ToFloatNearDecode.lean — decoding (`floatExact`) of arbitrary bit patterns (bounds) and of encoded fields;
  the specification `rneFloat` with its pattern matches resolved; bounds on the rounded magnitude.
-/
namespace Sfx.ToFloatPf

/-- `floatExact` with the pattern matches resolved -/
theorem floatExact_eq (F : FloatFmt) (b : Nat) :
    floatExact F b =
      if (F.parts b).2.1 > F.expMax then none
      else if (F.parts b).2.1 ≥ F.expMin then
        some ((if (F.parts b).1 then -(((F.parts b).2.2 + 2 ^ (F.prec - 1) : Nat) : Int) else (((F.parts b).2.2 + 2 ^ (F.prec - 1) : Nat) : Int)),
          (F.parts b).2.1 - (F.prec - 1))
      else some ((if (F.parts b).1 then -(((F.parts b).2.2 : Nat) : Int) else (((F.parts b).2.2 : Nat) : Int)), F.expMin - (F.prec - 1)) := by
  unfold floatExact
  generalize F.parts b = pr
  obtain ⟨neg, exp, mant⟩ := pr
  simp only []
  by_cases h1 : exp > F.expMax
  · simp only [h1, if_true]
  · by_cases h2 : exp ≥ F.expMin
    · simp only [h1, h2, if_true, if_false]
    · simp only [h1, h2, if_false]

theorem floatExact_bounds (F : FloatFmt) (hp : 1 ≤ F.prec) (b : Nat) (v : Int × Int) (h : floatExact F b = some v) :
    v.1.natAbs < 2 ^ F.prec ∧ F.expMin - ((F.prec : Int) - 1) ≤ v.2 := by
  rw [floatExact_eq] at h
  have hm : (F.parts b).2.2 < 2 ^ (F.prec - 1) := Nat.mod_lt _ (p2pos _)
  have h2p : 2 ^ F.prec = 2 * 2 ^ (F.prec - 1) := by
    conv => lhs; rw [show F.prec = (F.prec - 1) + 1 by omega, Nat.pow_succ]
    omega
  generalize F.parts b = pr at *
  obtain ⟨neg, exp, mant⟩ := pr
  simp only [] at h hm
  split at h
  · cases h
  · split at h
    · cases h; simp only []
      constructor
      · split <;> omega
      · omega
    · cases h; simp only []
      constructor
      · split <;> omega
      · omega

theorem parts_encode (F : FloatFmt) (hp : 1 ≤ F.prec) (hpn : F.prec < F.nbits) (neg : Bool) (E mf : Nat)
    (hmf : mf < 2 ^ (F.prec - 1)) (hE : E < 2 ^ (F.nbits - F.prec)) :
    F.parts ((if neg then F.signMask else 0) + (E * 2 ^ (F.prec - 1) + mf)) = (neg, (E : Int) - F.expBias, mf) := by
  have hP := p2pos (F.prec - 1)
  have hsplit : 2 ^ (F.nbits - 1) = 2 ^ (F.nbits - F.prec) * 2 ^ (F.prec - 1) := by
    rw [← Nat.pow_add]; congr 1; omega
  have hbody : E * 2 ^ (F.prec - 1) + mf < 2 ^ (F.nbits - 1) := by
    rw [hsplit]
    have : (E + 1) * 2 ^ (F.prec - 1) ≤ 2 ^ (F.nbits - F.prec) * 2 ^ (F.prec - 1) := Nat.mul_le_mul_right _ hE
    rw [Nat.add_mul] at this
    omega
  have hdiv : (E * 2 ^ (F.prec - 1) + mf) / 2 ^ (F.prec - 1) = E := by
    rw [Nat.add_comm, Nat.add_mul_div_right _ _ hP, Nat.div_eq_of_lt hmf, Nat.zero_add]
  have hmod : (E * 2 ^ (F.prec - 1) + mf) % 2 ^ (F.prec - 1) = mf := by
    rw [Nat.add_comm, Nat.add_mul_mod_self_right, Nat.mod_eq_of_lt hmf]
  unfold FloatFmt.parts FloatFmt.signMask
  generalize hB : E * 2 ^ (F.prec - 1) + mf = B at *
  cases neg
  · simp only [Bool.false_eq_true, if_false, Nat.zero_add]
    rw [Nat.div_eq_of_lt hbody, Nat.mod_eq_of_lt hbody, hdiv, hmod]
    simp
  · simp only [if_true]
    have h1 : (2 ^ (F.nbits - 1) + B) / 2 ^ (F.nbits - 1) = 1 := by
      rw [Nat.add_div_left _ (p2pos _), Nat.div_eq_of_lt hbody]
    have h2 : (2 ^ (F.nbits - 1) + B) % 2 ^ (F.nbits - 1) = B := by
      rw [Nat.add_mod_left, Nat.mod_eq_of_lt hbody]
    have h3 : (2 ^ (F.nbits - 1) + B) % 2 ^ (F.prec - 1) = mf := by
      rw [hsplit, Nat.add_comm, Nat.add_mul_mod_self_right, hmod]
    rw [h1, h2, h3, hdiv]
    simp

/-- quantum exponent chosen by the specification -/
def specQ (F : FloatFmt) (f a : Nat) : Int :=
  (if (bitLen a : Int) - 1 - f < F.expMin then F.expMin else (bitLen a : Int) - 1 - f) - ((F.prec : Int) - 1)
/-- rounded magnitude in units of the quantum -/
def specM (F : FloatFmt) (f a : Nat) : Int := rneScaled a (-(f : Int) - specQ F f a)
/-- every finite float is a multiple of `2^-(gExp F)` -/
def gExp (F : FloatFmt) : Nat := ((F.prec : Int) - 1 - F.expMin).toNat

theorem rneFloat_eq (F : FloatFmt) (f : Nat) (x : Int) (hx0 : x ≠ 0) :
    rneFloat F f x =
      if (bitLen x.natAbs : Int) - 1 - f < F.expMin then (if x < 0 then F.signMask else 0) + (specM F f x.natAbs).toNat
      else if (specM F f x.natAbs).toNat = 2 ^ F.prec then
        (if (bitLen x.natAbs : Int) - 1 - f + 1 > F.expMax then (if x < 0 then F.signMask else 0) + F.expMask
         else (if x < 0 then F.signMask else 0) +
           (((bitLen x.natAbs : Int) - 1 - f + 1 + F.expBias).toNat * 2 ^ (F.prec - 1) + (2 ^ (F.prec - 1) - 2 ^ (F.prec - 1))))
      else
        (if (bitLen x.natAbs : Int) - 1 - f > F.expMax then (if x < 0 then F.signMask else 0) + F.expMask
         else (if x < 0 then F.signMask else 0) +
           (((bitLen x.natAbs : Int) - 1 - f + F.expBias).toNat * 2 ^ (F.prec - 1) + ((specM F f x.natAbs).toNat - 2 ^ (F.prec - 1)))) := by
  unfold rneFloat specM specQ
  rw [if_neg hx0]
  simp only []
  by_cases h1 : (bitLen x.natAbs : Int) - 1 - f < F.expMin
  · simp only [h1, ↓reduceIte]
  · simp only [h1, ↓reduceIte]
    split <;> simp only []

theorem expMin_le_one (F : FloatFmt) : F.expMin ≤ 1 := by
  unfold FloatFmt.expMin FloatFmt.expBias
  have := two_pow_pos (F.nbits - F.prec - 1)
  omega

theorem natCast_lt_pow_bitLen (a : Nat) : (a : Int) < 2 ^ bitLen a := by
  have := bitLen_ub a
  have h : ((2 ^ bitLen a : Nat) : Int) = 2 ^ bitLen a := by rw [Int.natCast_pow]; rfl
  omega

theorem pow_bitLen_le_natCast {a : Nat} (ha : 0 < a) : (2 : Int) ^ (bitLen a - 1) ≤ a := by
  have := bitLen_lb ha
  have h : ((2 ^ (bitLen a - 1) : Nat) : Int) = 2 ^ (bitLen a - 1) := by rw [Int.natCast_pow]; rfl
  omega

/-- subnormal range: the rounded magnitude is at most the smallest normal significand -/
theorem specM_sub (F : FloatFmt) (hp : 2 ≤ F.prec) (f a : Nat) (he : (bitLen a : Int) - 1 - f < F.expMin) :
    0 ≤ specM F f a ∧ specM F f a ≤ 2 ^ (F.prec - 1) := by
  have hmin := expMin_le_one F
  have hub := natCast_lt_pow_bitLen a
  unfold specM specQ
  rw [if_pos he]
  unfold rneScaled
  split
  · rename_i h
    have hle : bitLen a + (-(f : Int) - (F.expMin - ((F.prec : Int) - 1))).toNat ≤ F.prec - 1 := by omega
    have h1 := pow_le_pow hle
    rw [pow_add'] at h1
    have hT := two_pow_pos (-(f : Int) - (F.expMin - ((F.prec : Int) - 1))).toNat
    have h2 : (a : Int) * 2 ^ (-(f : Int) - (F.expMin - ((F.prec : Int) - 1))).toNat
        ≤ 2 ^ bitLen a * 2 ^ (-(f : Int) - (F.expMin - ((F.prec : Int) - 1))).toNat :=
      Int.mul_le_mul_of_nonneg_right (Int.le_of_lt hub) (Int.le_of_lt hT)
    constructor
    · exact Int.mul_nonneg (by omega) (Int.le_of_lt hT)
    · omega
  · rename_i h
    generalize hk : (-(-(f : Int) - (F.expMin - ((F.prec : Int) - 1)))).toNat = k
    obtain ⟨hb1, hb2⟩ := rneShift_bounds a k
    have hD := two_pow_pos k
    have hle : bitLen a ≤ (F.prec - 1) + k := by omega
    have h1 := pow_le_pow hle
    rw [pow_add'] at h1
    have hq : (a : Int) / 2 ^ k < 2 ^ (F.prec - 1) := by
      rw [Int.ediv_lt_iff_lt_mul hD]; omega
    have hq0 : 0 ≤ (a : Int) / 2 ^ k := Int.ediv_nonneg (by omega) (Int.le_of_lt hD)
    omega

/-- normal range: the rounded magnitude is the truncated significand plus the rounding bit -/
theorem specM_normal (F : FloatFmt) (f a : Nat) (he : ¬ (bitLen a : Int) - 1 - f < F.expMin) :
    specM F f a = ((sig F.prec a + (if ru F.prec a then 1 else 0) : Nat) : Int) := by
  unfold specM specQ
  rw [if_neg he, ← rneScaled_nat]
  congr 1; omega

theorem bias_facts (F : FloatFmt) (hpn : F.prec + 2 ≤ F.nbits) :
    1 ≤ F.expBias ∧ F.expMax = F.expBias ∧ F.expMin = 1 - F.expBias ∧
      ((2 ^ (F.nbits - F.prec) : Nat) : Int) = 2 * F.expBias + 2 := by
  unfold FloatFmt.expMax FloatFmt.expMin FloatFmt.expBias
  have h1 : (2 : Int) ^ (F.nbits - F.prec) = 2 * 2 ^ (F.nbits - F.prec - 1) := pow_split (by omega)
  have h2 : (2 : Int) ^ (F.nbits - F.prec - 1) = 2 * 2 ^ (F.nbits - F.prec - 1 - 1) := pow_split (by omega)
  have h3 := two_pow_pos (F.nbits - F.prec - 1 - 1)
  have h4 : ((2 ^ (F.nbits - F.prec) : Nat) : Int) = 2 ^ (F.nbits - F.prec) := by rw [Int.natCast_pow]; rfl
  omega

/-- signed numerator -/
def sgn (neg : Bool) (n : Nat) : Int := if neg then -(n : Int) else n

theorem floatExact_encode (F : FloatFmt) (hp : 1 ≤ F.prec) (hpn : F.prec < F.nbits) (neg : Bool) (E mf : Nat)
    (hmf : mf < 2 ^ (F.prec - 1)) (hE : E < 2 ^ (F.nbits - F.prec)) :
    floatExact F ((if neg then F.signMask else 0) + (E * 2 ^ (F.prec - 1) + mf)) =
      if (E : Int) - F.expBias > F.expMax then none
      else if (E : Int) - F.expBias ≥ F.expMin then some (sgn neg (mf + 2 ^ (F.prec - 1)), (E : Int) - F.expBias - (F.prec - 1))
      else some (sgn neg mf, F.expMin - (F.prec - 1)) := by
  rw [floatExact_eq, parts_encode F hp hpn neg E mf hmf hE]
  rfl

theorem sign_if (F : FloatFmt) (x : Int) :
    (if x < 0 then F.signMask else 0) = (if decide (x < 0) = true then F.signMask else 0) := by
  simp

/-- the finite results of the specification decode to `± specM * 2^specQ` (on the common scale `2^(gExp F + f)`) -/
theorem rneFloat_decode (F : FloatFmt) (hp : 2 ≤ F.prec) (hpn : F.prec + 2 ≤ F.nbits) (f : Nat) (x : Int)
    (hx0 : x ≠ 0) (vr : Int × Int) (hr : floatExact F (rneFloat F f x) = some vr) :
    vr.1 * 2 ^ (vr.2 + gExp F + f).toNat =
      (if x < 0 then -1 else 1) * (specM F f x.natAbs * 2 ^ (specQ F f x.natAbs + gExp F + f).toNat) := by
  obtain ⟨hb1, hbmax, hbmin, hb2⟩ := bias_facts F hpn
  have hP := p2pos (F.prec - 1)
  have h2p : 2 ^ F.prec = 2 * 2 ^ (F.prec - 1) := by
    conv => lhs; rw [show F.prec = (F.prec - 1) + 1 by omega, Nat.pow_succ]
    omega
  have hsg : ∀ n : Nat, sgn (decide (x < 0)) n = (if x < 0 then -1 else 1) * (n : Int) := by
    intro n; unfold sgn; by_cases h : x < 0 <;> simp [h]
  rw [rneFloat_eq F f x hx0, sign_if] at hr
  by_cases h1 : (bitLen x.natAbs : Int) - 1 - f < F.expMin
  · rw [if_pos h1] at hr
    obtain ⟨hM0, hM1⟩ := specM_sub F hp f x.natAbs h1
    have hQ : specQ F f x.natAbs = F.expMin - ((F.prec : Int) - 1) := by unfold specQ; rw [if_pos h1]
    have hPc : ((2 ^ (F.prec - 1) : Nat) : Int) = 2 ^ (F.prec - 1) := by rw [Int.natCast_pow]; rfl
    by_cases hlt : (specM F f x.natAbs).toNat < 2 ^ (F.prec - 1)
    · have := floatExact_encode F (by omega) (by omega) (decide (x < 0)) 0 _ hlt (p2pos _)
      rw [Nat.zero_mul, Nat.zero_add] at this
      rw [this, if_neg (by omega), if_neg (by omega)] at hr
      cases hr
      simp only []
      rw [hsg, hQ, Int.toNat_of_nonneg hM0, Int.mul_assoc]
    · have hEq : (specM F f x.natAbs).toNat = 1 * 2 ^ (F.prec - 1) + 0 := by omega
      have h1E : 1 < 2 ^ (F.nbits - F.prec) := by omega
      have := floatExact_encode F (by omega) (by omega) (decide (x < 0)) 1 0 hP h1E
      rw [hEq, this, if_neg (by omega), if_pos (by omega)] at hr
      cases hr
      simp only []
      rw [hsg, hQ, Int.mul_assoc]
      have : specM F f x.natAbs = ((0 + 2 ^ (F.prec - 1) : Nat) : Int) := by omega
      rw [this]
      congr 3
  · rw [if_neg h1] at hr
    have ha : 0 < x.natAbs := by omega
    have hMn := specM_normal F f x.natAbs h1
    obtain ⟨hs1, hs2⟩ := sig_range F.prec x.natAbs ha (by omega)
    have hr01 : (if ru F.prec x.natAbs then 1 else 0) ≤ 1 := by split <;> omega
    have hQ : specQ F f x.natAbs = (bitLen x.natAbs : Int) - 1 - f - ((F.prec : Int) - 1) := by
      unfold specQ; rw [if_neg h1]
    have hG : (gExp F : Int) = (F.prec : Int) - 1 - F.expMin := by unfold gExp; omega
    have hmaskE : F.expMask = (2 ^ (F.nbits - F.prec) - 1) * 2 ^ (F.prec - 1) + 0 := by
      rw [expMask_eq F (by omega) (by omega), Nat.add_zero]
      congr 1; omega
    have hinf : floatExact F ((if decide (x < 0) = true then F.signMask else 0) + F.expMask) = none := by
      have hE : 2 ^ (F.nbits - F.prec) - 1 < 2 ^ (F.nbits - F.prec) := by have := p2pos (F.nbits - F.prec); omega
      have := floatExact_encode F (by omega) (by omega) (decide (x < 0)) _ 0 hP hE
      rw [hmaskE, this, if_pos (by omega)]
    generalize hM : (specM F f x.natAbs).toNat = M at *
    have hMv : M = sig F.prec x.natAbs + (if ru F.prec x.natAbs then 1 else 0) := by omega
    have hMc : specM F f x.natAbs = (M : Int) := by omega
    generalize (bitLen x.natAbs : Int) - 1 - f = e at *
    by_cases h2 : M = 2 ^ F.prec
    · rw [if_pos h2] at hr
      by_cases h3 : e + 1 > F.expMax
      · rw [if_pos h3, hinf] at hr; cases hr
      · rw [if_neg h3] at hr
        have hE : (e + 1 + F.expBias).toNat < 2 ^ (F.nbits - F.prec) := by omega
        have := floatExact_encode F (by omega) (by omega) (decide (x < 0)) _ (2 ^ (F.prec - 1) - 2 ^ (F.prec - 1))
          (by omega) hE
        rw [this, if_neg (by omega), if_pos (by omega)] at hr
        cases hr
        simp only []
        rw [hsg, hQ, hMc, h2, Int.mul_assoc]
        congr 1
        have e1 : (((e + 1 + F.expBias).toNat : Int) - F.expBias - ((F.prec : Int) - 1) + gExp F + f).toNat
            = (e - ((F.prec : Int) - 1) + gExp F + f).toNat + 1 := by omega
        rw [e1, Int.pow_succ, Nat.sub_self, Nat.zero_add, h2p]
        simp only [Int.natCast_mul, Int.natCast_pow]
        rw [Int.mul_comm ((2 : Nat) : Int), Int.mul_assoc]
        congr 1
        rw [Int.mul_comm]; rfl
    · rw [if_neg h2] at hr
      by_cases h3 : e > F.expMax
      · rw [if_pos h3, hinf] at hr; cases hr
      · rw [if_neg h3] at hr
        have hE : (e + F.expBias).toNat < 2 ^ (F.nbits - F.prec) := by omega
        have := floatExact_encode F (by omega) (by omega) (decide (x < 0)) _ (M - 2 ^ (F.prec - 1))
          (by omega) hE
        rw [this, if_neg (by omega), if_pos (by omega)] at hr
        cases hr
        simp only []
        rw [hsg, hQ, hMc, Int.mul_assoc, show M - 2 ^ (F.prec - 1) + 2 ^ (F.prec - 1) = M by omega]
        congr 4
        omega

end Sfx.ToFloatPf
