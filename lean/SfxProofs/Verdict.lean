import SfxProofs.VerdictStrip
/-
  Verdict.lean — the formatting verdict of the correspondence check accepts everything the (proved-correct) model prints.

  The differential check judges every string printed by the REAL implementation with the executable verdict
  `TextSpec.fmtVerdict spec f neg mag out` (`none` = faithful).  `verdict_accepts_model`: for every primitive width, every
  fractional-bit count, every value, sign and format spec (six kinds, any width / alignment / `+` / `#` / `0`, precision
  `< 2^16`, a fill of one `char`), the string `out` printed by `Display.fmt` gets the verdict `none`.  So on an input where
  the real implementation prints what the model prints, the check cannot raise a false alarm.

  Proof: `fmt_correct` (C09) gives `out = assemble spec neg (render ip fp dot, ez)` and the value relations of the digits;
  the body `render ip fp dot ++ '0'^ez` is the rendering of the digit lists `ip`, `fp ++ 0^ez`; `mem_stripPadding` finds
  it among the candidates of `stripPadding` (k = left fill chars, j = right fill chars, z = padding zeros of `assemble`);
  `bodyVal_render` parses it back to `(valI R (ip ++ fp) * R^ez, |fp| + ez)`; the length test is the length law of
  `assemble`; the rounding tests are the value relations.

  Checked before proving with a compiled evaluator on the whole 8-bit grid: fracN 0..8 × 256 values × 6 kinds × precision
  none/0..10 × width none/0/5/12/40 × fill none/' '/'*'/'0'/é (2 bytes)/'-'/'+'/'.'/'1' × alignment none/</^/> × `+` × `#`
  × `0` × both signs (477 757 440 requests), and precision 200 on 16 values per layout (2 488 320 requests): 0 rejections.
  The only hypothesis on the fill is that it is ONE char (`charLen fill = 1`), and only when fill is printed at all
  (`verdict_accepts_model_gen`); it cannot be dropped (`verdict_needs_onechar_fill`).
-/
namespace Sfx.VerdictPf
open Sfx.Display
open Sfx.TextSpec (FmtSpec rneDiv charLen)
open Sfx.FmtTopPf

/-! ### one good candidate suffices -/

/-- the verdict is `none` as soon as one candidate body passes all the tests -/
theorem verdict_none_of_cand (s : FmtSpec) (f : Nat) (neg : Bool) (mag : Nat) (out body : List Nat) (num k : Nat)
    (hmem : body ∈ TextSpec.stripPadding s neg out) (hbv : TextSpec.bodyVal s body = some (num, k))
    (hlen : charLen out = max (s.width.getD 0) ((FmtPf.signOf s neg).length + s.prefix.length + body.length))
    (hk : k ≤ (match s.prec with | some p => p | none => k))
    (hval : num * s.radix ^ ((match s.prec with | some p => p | none => k) - k)
      = rneDiv (mag * s.radix ^ (match s.prec with | some p => p | none => k)) (2 ^ f))
    (hex : s.prec.isSome = true ∨ s.radix = 10 ∨ num * 2 ^ f = mag * s.radix ^ k) :
    TextSpec.fmtVerdict s f neg mag out = none := by
  unfold TextSpec.fmtVerdict
  simp only []
  rw [if_neg (by omega)]
  rw [if_pos]
  rw [List.any_eq_true]
  refine ⟨(body, (num, k)), ?_, ?_⟩
  · rw [List.mem_filterMap]
    exact ⟨body, hmem, by rw [hbv]; rfl⟩
  · have hs : (if neg = true then 1 else if s.plus = true then 1 else 0) = (FmtPf.signOf s neg).length := by
      unfold FmtPf.signOf
      cases neg
      · cases s.plus <;> rfl
      · rfl
    simp only [Bool.and_eq_true, Bool.or_eq_true, decide_eq_true_eq]
    rw [hs]
    refine ⟨⟨⟨hlen, hk⟩, hval⟩, ?_⟩
    rcases hex with h | h | h
    · exact Or.inl (Or.inl h)
    · exact Or.inl (Or.inr h)
    · exact Or.inr h

/-! ### the body: the precision zeros are fraction digits -/

theorem enc_zero (u : Bool) : encodeDigit u 0 = 48 := by cases u <;> rfl

/-- the rendered digits followed by the `ez` precision zeros are the rendering of `ip`, `fp ++ 0^ez` -/
theorem render_endzeros (u : Bool) (ip fp : List Nat) (ez : Nat) :
    render u ip fp (!fp.isEmpty || decide (0 < ez)) ++ List.replicate ez 48
      = render u ip (fp ++ List.replicate ez 0) (!(fp ++ List.replicate ez 0).isEmpty) := by
  cases ez with
  | zero => simp
  | succ n =>
    have h1 : (!(fp ++ List.replicate (n + 1) 0).isEmpty) = true := by simp
    have h2 : (!fp.isEmpty || decide (0 < n + 1)) = true := by simp
    rw [h1, h2]
    unfold render
    simp only [if_true, List.map_append, List.map_replicate, enc_zero, List.append_assoc, List.cons_append]

theorem valI_zeros (R n : Nat) : valI R (List.replicate n 0) = 0 := by
  induction n with
  | zero => rfl
  | succ n ih =>
    rw [List.replicate_succ, show (0 :: List.replicate n 0) = [0] ++ List.replicate n 0 from rfl,
      show valI R ([0] ++ List.replicate n 0) = _ from FmtRadixPf.valI_append R _ _]
    rw [show FmtRadixPf.valI R (List.replicate n 0) = 0 from ih]
    simp [FmtRadixPf.valI]

theorem valI_endzeros (R : Nat) (l : List Nat) (n : Nat) : valI R (l ++ List.replicate n 0) = valI R l * R ^ n := by
  rw [show valI R (l ++ List.replicate n 0) = _ from FmtRadixPf.valI_append R _ _, List.length_replicate]
  rw [show FmtRadixPf.valI R (List.replicate n 0) = 0 from valI_zeros R n]
  rfl

/-- bytes of a rendered body are ASCII -/
theorem render_ascii (u : Bool) (ip fp : List Nat) (dot : Bool) (hd : ∀ d, d ∈ ip ++ fp → d < 16) :
    ∀ x ∈ render u ip fp dot, x < 128 := by
  intro x hx
  have hIB := enc_bytes u ip (fun d h => hd d (List.mem_append_left _ h))
  have hFB := enc_bytes u fp (fun d h => hd d (List.mem_append_right _ h))
  unfold render at hx
  rw [List.mem_append] at hx
  rcases hx with hx | hx
  · have := hIB x hx; omega
  · cases dot
    · simp at hx
    · simp only [if_true, List.mem_cons] at hx
      rcases hx with hx | hx
      · omega
      · have := hFB x hx; omega

/-! ### the shape of `assemble` -/

/-- `assemble` is `fill^l ++ sign ++ prefix ++ '0'^z ++ body ++ '0'^ez ++ fill^r` with `l + z + r` the missing width; zero
padding only under the `0` flag, and then no fill at all -/
theorem assemble_shape (spec : FmtSpec) (neg : Bool) (b : List Nat × Nat) :
    ∃ l z r, FmtPf.assemble spec neg b
        = (List.replicate l (spec.fill.getD [32])).flatten ++ ((FmtPf.signOf spec neg ++ spec.prefix) ++
            ((List.replicate z 48 ++ (b.1 ++ List.replicate b.2 48)) ++ (List.replicate r (spec.fill.getD [32])).flatten)) ∧
      (z = 0 ∨ spec.zero = true) ∧ (spec.zero = true → l = 0 ∧ r = 0) ∧
      l + z + r = spec.width.getD 0 - FmtPf.coreLen spec neg b := by
  unfold FmtPf.assemble
  simp only
  generalize spec.width.getD 0 - FmtPf.coreLen spec neg b = pad
  by_cases hz : spec.zero = true
  · rw [if_pos hz]
    exact ⟨0, pad, 0, by simp only [List.append_assoc], Or.inr hz, fun _ => ⟨rfl, rfl⟩, by omega⟩
  · rw [if_neg hz]
    split
    · exact ⟨0, 0, pad, by simp only [List.append_assoc], Or.inl rfl, fun h => absurd h hz, by omega⟩
    · exact ⟨pad / 2, 0, pad - pad / 2, by simp only [List.append_assoc], Or.inl rfl, fun h => absurd h hz, by omega⟩
    · exact ⟨pad, 0, 0, by simp only [List.append_assoc], Or.inl rfl, fun h => absurd h hz, by omega⟩

/-- the length law from the shape: needs a one-`char` fill only when fill is printed -/
theorem shape_charLen (spec : FmtSpec) (neg : Bool) (l z r : Nat) (body : List Nat) (hb : ∀ x ∈ body, x < 128)
    (hfill : charLen (spec.fill.getD [32]) = 1 ∨ (l = 0 ∧ r = 0)) :
    charLen ((List.replicate l (spec.fill.getD [32])).flatten ++ ((FmtPf.signOf spec neg ++ spec.prefix) ++
        ((List.replicate z 48 ++ body) ++ (List.replicate r (spec.fill.getD [32])).flatten)))
      = l + z + r + ((FmtPf.signOf spec neg).length + spec.prefix.length + body.length) := by
  simp only [FmtPf.charLen_append, FmtPf.charLen_fill, FmtPf.charLen_zeros, FmtPf.charLen_sign, FmtPf.charLen_prefix,
    FmtPf.charLen_ascii body hb]
  rcases hfill with h | ⟨h1, h2⟩
  · rw [h]; omega
  · subst h1; subst h2; omega

theorem charLen_le_length (l : List Nat) : charLen l ≤ l.length := List.length_filter_le _ _

theorem radix_cases (spec : FmtSpec) (hk : FmtPf.KindOk spec.kind) :
    spec.radix = 10 ∨ spec.radix = 2 ∨ spec.radix = 8 ∨ spec.radix = 16 := by
  unfold FmtSpec.radix
  rcases hk with h | h | h | h | h | h <;> rw [h] <;> simp

/-! ### the theorem -/

/-- general form: the fill has to be one `char` only when fill is printed at all (no `0` flag and a width) -/
theorem verdict_accepts_model_gen (spec : FmtSpec) (neg : Bool) (abs nbits fracN : Nat)
    (hn : FmtPf.WidthOk nbits) (hf : fracN ≤ nbits) (ha : abs < 2 ^ nbits) (hk : FmtPf.KindOk spec.kind)
    (hp : FmtPf.PrecOk spec.prec)
    (hfill : charLen (spec.fill.getD [32]) = 1 ∨ spec.zero = true ∨ spec.width = none)
    (out : List Nat) (h : Display.fmt spec neg abs nbits fracN = some (.ok out false)) :
    TextSpec.fmtVerdict spec fracN neg abs out = none := by
  rcases hdo : digitsOf spec.kind spec.prec abs nbits fracN with ⟨ip, fp, ez⟩
  obtain ⟨h1, hcan, hrange, _, h3⟩ := fmt_correct spec neg abs nbits fracN hn hf ha hk hp ip fp ez hdo
  rw [h1] at h
  injection h with h
  injection h with h _
  subst h
  have hR := radix_cases spec hk
  have hR16 : spec.radix ≤ 16 := by omega
  have hR0 : 0 < spec.radix := by omega
  -- the digit lists of the body
  have hdq : ∀ d, d ∈ ip ++ (fp ++ List.replicate ez 0) → d < spec.radix := by
    intro d hd
    rw [← List.append_assoc, List.mem_append] at hd
    rcases hd with hd | hd
    · exact hrange d hd
    · rw [(List.mem_replicate.1 hd).2]; exact hR0
  have hbv := bodyVal_render spec ip (fp ++ List.replicate ez 0) hR16 hcan hdq
  rw [← List.append_assoc, valI_endzeros, List.length_append, List.length_replicate] at hbv
  have hbody := render_endzeros (spec.kind == "X") ip fp ez
  -- the shape of the output
  obtain ⟨l, z, r, hshape, hz, hzero, hsum⟩ :=
    assemble_shape spec neg (render (spec.kind == "X") ip fp (!fp.isEmpty || decide (0 < ez)), ez)
  simp only at hshape
  rw [hbody] at hshape
  have hlr : charLen (spec.fill.getD [32]) = 1 ∨ (l = 0 ∧ r = 0) := by
    rcases hfill with h | h | h
    · exact Or.inl h
    · exact Or.inr (hzero h)
    · right
      rw [h] at hsum
      simp only [Option.getD_none, Nat.zero_sub] at hsum
      omega
  have hcore : FmtPf.coreLen spec neg (render (spec.kind == "X") ip fp (!fp.isEmpty || decide (0 < ez)), ez)
      = (FmtPf.signOf spec neg).length + spec.prefix.length
        + (render (spec.kind == "X") ip (fp ++ List.replicate ez 0) (!(fp ++ List.replicate ez 0).isEmpty)).length := by
    unfold FmtPf.coreLen
    simp only
    rw [← hbody, List.length_append, List.length_replicate]
    omega
  rw [hcore] at hsum
  apply verdict_none_of_cand spec fracN neg abs _ _ _ _ _ hbv
  · -- length
    rw [hshape, shape_charLen spec neg l z r _
      (render_ascii _ ip _ _ (fun d hd => by have := hdq d hd; omega)) hlr]
    omega
  · -- at most `p` fraction digits
    cases hpr : spec.prec with
    | none => exact Nat.le_refl _
    | some p =>
      rw [hpr] at h3
      simp only at h3 ⊢
      omega
  · -- the rounding relation
    cases hpr : spec.prec with
    | none =>
      rw [hpr] at h3
      simp only at h3 ⊢
      obtain ⟨hez, hv, _, _⟩ := h3
      subst hez
      simp only [Nat.add_zero, Nat.sub_self, Nat.pow_zero, Nat.mul_one]
      exact hv
    | some p =>
      rw [hpr] at h3
      simp only at h3 ⊢
      obtain ⟨hlen, hv⟩ := h3
      rw [hlen, Nat.sub_self, Nat.pow_zero, Nat.mul_one]
      exact hv
  · -- exactness for the power-of-two radices without precision
    cases hpr : spec.prec with
    | some p => left; rfl
    | none =>
      rw [hpr] at h3
      simp only at h3
      obtain ⟨hez, _, hx, _⟩ := h3
      subst hez
      by_cases h10 : spec.radix = 10
      · exact Or.inr (Or.inl h10)
      · right; right
        simp only [Nat.pow_zero, Nat.mul_one, Nat.add_zero]
        exact hx h10
  · -- the candidate
    rw [hshape]
    apply mem_stripPadding spec neg l z r _ hz
    rcases hlr with h | h
    · left
      have := charLen_le_length (spec.fill.getD [32])
      omega
    · exact Or.inr h

/-- **The verdict accepts everything the model prints.**  `hfill`: the fill bytes are the UTF-8 encoding of ONE `char`
(true of the default `' '` and of anything `format_args!` accepts: `charLen` counts the non-continuation bytes).  No other
condition on the fill: it may be `'0'`, `'-'`, `'+'`, `'.'`, a digit, or multi-byte — the split of the output is then
ambiguous, but the true split is always among the candidates. -/
theorem verdict_accepts_model (spec : FmtSpec) (neg : Bool) (abs nbits fracN : Nat)
    (hn : FmtPf.WidthOk nbits) (hf : fracN ≤ nbits) (ha : abs < 2 ^ nbits) (hk : FmtPf.KindOk spec.kind)
    (hp : FmtPf.PrecOk spec.prec)
    (hfill : charLen (spec.fill.getD [32]) = 1)
    (out : List Nat) (h : Display.fmt spec neg abs nbits fracN = some (.ok out false)) :
    TextSpec.fmtVerdict spec fracN neg abs out = none :=
  verdict_accepts_model_gen spec neg abs nbits fracN hn hf ha hk hp (Or.inl hfill) out h

/-- without an explicit fill (no alignment given) there is no side condition at all -/
theorem verdict_accepts_model_nofill (spec : FmtSpec) (neg : Bool) (abs nbits fracN : Nat)
    (hn : FmtPf.WidthOk nbits) (hf : fracN ≤ nbits) (ha : abs < 2 ^ nbits) (hk : FmtPf.KindOk spec.kind)
    (hp : FmtPf.PrecOk spec.prec) (hfill : spec.fill = none)
    (out : List Nat) (h : Display.fmt spec neg abs nbits fracN = some (.ok out false)) :
    TextSpec.fmtVerdict spec fracN neg abs out = none :=
  verdict_accepts_model spec neg abs nbits fracN hn hf ha hk hp (by rw [hfill]; rfl) out h

/-! ### the driver's form -/

/-- a bit pattern's magnitude fits the unsigned word (as `C09.natAbs_lt`; restated here to keep this file Mathlib-free) -/
theorem natAbs_lt (L : Layout) (hL : L.valid) (x : Int) (hx : inRange L x) : x.natAbs < 2 ^ L.n := by
  have hn : 0 < L.n := by rcases hL.1 with h | h | h | h | h <;> omega
  have hP : (2 : Int) ^ L.n = 2 * 2 ^ (L.n - 1) := by
    rw [show L.n = (L.n - 1) + 1 from by omega, Int.pow_succ, Int.mul_comm]; simp
  have hpos : (0 : Int) < 2 ^ (L.n - 1) := Int.pow_pos (by decide)
  have : ((x.natAbs : Nat) : Int) < 2 ^ L.n := by
    unfold inRange inI at hx
    cases hs : L.signed
    · simp only [hs, minI, maxI] at hx; omega
    · simp only [hs, minI, maxI] at hx; omega
  exact_mod_cast this

/-- **No false alarm, as the driver asks it** (`DriverText.model` / `DriverText.verdict` for `h_fmt`, `f_fmt`): for every
valid layout, every value `x` of it and every format spec with a one-`char` fill, the model prints a string (no panic, no
debug-only check) and `fmtVerdict spec L.f (x < 0) |x|` — the call made by the driver — accepts it. -/
theorem verdict_accepts_driver (L : Layout) (hL : L.valid) (x : Int) (hx : inRange L x) (spec : FmtSpec)
    (hk : FmtPf.KindOk spec.kind) (hp : FmtPf.PrecOk spec.prec) (hfill : charLen (spec.fill.getD [32]) = 1) :
    ∃ out, Display.fmt spec (decide (x < 0)) x.natAbs L.n L.f = some (.ok out false) ∧
      TextSpec.fmtVerdict spec L.f (decide (x < 0)) x.natAbs out = none := by
  have ha := natAbs_lt L hL x hx
  have h1 := fmt_eq_assemble spec (decide (x < 0)) x.natAbs L.n L.f hL.1 hL.2 ha hk hp
  exact ⟨_, h1, verdict_accepts_model spec _ _ _ _ hL.1 hL.2 ha hk hp hfill _ h1⟩

/-! ### the hypothesis is needed; sanity -/

/-- the fill hypothesis cannot be dropped: with a (hypothetical — `format_args!` has no such thing) fill of TWO chars
`"**"`, `{:**>3}` of `1` prints `****1` (5 chars for width 3), which the verdict rejects on its length test -/
theorem verdict_needs_onechar_fill :
    Display.fmt { kind := "d", fill := some [42, 42], align := some '>', width := some 3 } false 1 8 0
      = some (.ok [42, 42, 42, 42, 49] false) ∧
    TextSpec.fmtVerdict { kind := "d", fill := some [42, 42], align := some '>', width := some 3 } 0 false 1
      [42, 42, 42, 42, 49] = some "printed digits are not the correctly rounded value" := by decide +kernel

/-- non-vacuity: ambiguous splits are accepted — `{:0^#12.3x}` of `-0xA.B` in I4F4 prints `00-0xa.b0000` (fill `'0'`, which
is also a digit and the padding zero), `{:->+8.1}` of `1.5` prints `----+1.5` (fill `'-'`; ties to even), `{:+08.2}` of
`-1.5` prints `-0001.50`, and a 2-byte fill `é` (`{:é<6}` of `0.5` = `0.5ééé`, 9 bytes, 6 chars) — all with verdict `none` -/
example :
    TextSpec.fmtVerdict { kind := "x", fill := some [48], align := some '^', width := some 12, alt := true, prec := some 3 }
      4 true 0xAB [48, 48, 45, 48, 120, 97, 46, 98, 48, 48, 48, 48] = none ∧
    TextSpec.fmtVerdict { kind := "d", fill := some [45], align := some '>', plus := true, width := some 8, prec := some 1 }
      4 false 24 [45, 45, 45, 45, 43, 49, 46, 53] = none ∧
    TextSpec.fmtVerdict { kind := "d", plus := true, zero := true, width := some 8, prec := some 2 }
      4 true 24 [45, 48, 48, 48, 49, 46, 53, 48] = none ∧
    TextSpec.fmtVerdict { kind := "d", fill := some [195, 169], align := some '<', width := some 6 }
      4 false 8 [48, 46, 53, 195, 169, 195, 169, 195, 169] = none ∧
    Display.fmt { kind := "x", fill := some [48], align := some '^', width := some 12, alt := true, prec := some 3 }
      true 0xAB 8 4 = some (.ok [48, 48, 45, 48, 120, 97, 46, 98, 48, 48, 48, 48] false) ∧
    Display.fmt { kind := "d", fill := some [45], align := some '>', plus := true, width := some 8, prec := some 1 }
      false 24 8 4 = some (.ok [45, 45, 45, 45, 43, 49, 46, 53] false) ∧
    Display.fmt { kind := "d", plus := true, zero := true, width := some 8, prec := some 2 }
      true 24 8 4 = some (.ok [45, 48, 48, 48, 49, 46, 53, 48] false) ∧
    Display.fmt { kind := "d", fill := some [195, 169], align := some '<', width := some 6 }
      false 8 8 4 = some (.ok [48, 46, 53, 195, 169, 195, 169, 195, 169] false) := by decide +kernel

#print axioms verdict_accepts_model_gen
#print axioms verdict_accepts_driver
#print axioms verdict_needs_onechar_fill
#print axioms verdict_accepts_model
#print axioms verdict_accepts_model_nofill

end Sfx.VerdictPf
