import SfxModel.Transcendental
/-
  PowBandWitness.lean — import-free evaluation of the model at the non-vacuity witness of `PowBand.lean`: `pow::<I32F32>(2.0, 12.0)`
  (`|y ln x| ≈ 8.32`, `4 · 8.32 + 2 > 32`: outside `pow_accuracy_wide`).  The literals are bit patterns: `8589934592 = 2 · 2^32`,
  `51539607552 = 12 · 2^32`.
-/
namespace Sfx.PowBandPf

/-- `pow::<I32F32>(2.0, 12.0)` returns `Ok(17592187964048 / 2^32)` (≈ 4096.00045, `2^12 = 4096`) -/
theorem pow_2_12_run :
    Trans.run (Trans.pow ⟨true, 64, 32⟩ ⟨true, 64, 32⟩ 8589934592 51539607552) = .ok (some 17592187964048, 31) false := by
  decide +kernel

end Sfx.PowBandPf
