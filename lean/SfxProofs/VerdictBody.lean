import SfxProofs.FmtTopRoundTrip
/-
  VerdictBody.lean — `TextSpec.bodyVal` (the body parser of the formatting verdict `TextSpec.fmtVerdict`) on a rendered
  digit string `int[.frac]` in any of the four radices, lower- or upper-case: it accepts the string and reads back exactly
  the value of the digit lists.  Generalises `FmtTopPf.literal_render` (decimal only) to radix `R ≤ 16`.
-/
namespace Sfx.VerdictPf
open Sfx.Display
open Sfx.TextSpec (FmtSpec rneDiv)
open Sfx.FmtTopPf

/-! ### one digit -/

theorem enc_lt10 (u : Bool) (d : Nat) (h : d < 10) : encodeDigit u d = d + 48 := by
  unfold encodeDigit; rw [if_pos h]

theorem enc_ge10 (u : Bool) (d : Nat) (h1 : 10 ≤ d) (h2 : d < 16) :
    encodeDigit u d = d + (if u then 55 else 87) := by
  unfold encodeDigit; rw [if_neg (by omega), if_pos h2]

/-- the byte of a digit `< 16`: `'0'..'9'`, or `'A'..'F'` (upper) / `'a'..'f'` (lower) -/
theorem enc_range (u : Bool) (d : Nat) (h : d < 16) :
    (48 ≤ encodeDigit u d ∧ encodeDigit u d ≤ 57) ∨ (u = true ∧ 65 ≤ encodeDigit u d ∧ encodeDigit u d ≤ 70) ∨
      (u = false ∧ 97 ≤ encodeDigit u d ∧ encodeDigit u d ≤ 102) := by
  by_cases h10 : d < 10
  · rw [enc_lt10 u d h10]; omega
  · rw [enc_ge10 u d (by omega) h]
    cases u
    · simp; omega
    · simp; omega

theorem enc_eq_48 (u : Bool) (d : Nat) (h : d < 16) : encodeDigit u d = 48 ↔ d = 0 := by
  by_cases h10 : d < 10
  · rw [enc_lt10 u d h10]; omega
  · rw [enc_ge10 u d (by omega) h]
    cases u
    · simp only [Bool.false_eq_true, if_false]; omega
    · simp only [if_true]; omega

theorem digitVal_enc (R : Nat) (u : Bool) (d : Nat) (hR : R ≤ 16) (h : d < R) :
    TextSpec.digitVal R (encodeDigit u d) = some d := by
  unfold TextSpec.digitVal
  simp only
  by_cases h10 : d < 10
  · rw [enc_lt10 u d h10, if_pos (by omega)]
    simp only [Option.bind_some, Nat.add_sub_cancel]
    rw [if_pos h]
  · rw [enc_ge10 u d (by omega) (by omega)]
    cases u
    · simp only [Bool.false_eq_true, if_false]
      rw [if_neg (by omega), if_pos (by omega)]
      simp only [Option.bind_some, Nat.add_sub_cancel]
      rw [if_pos h]
    · simp only [if_true]
      rw [if_neg (by omega), if_neg (by omega), if_pos (by omega)]
      simp only [Option.bind_some, Nat.add_sub_cancel]
      rw [if_pos h]

/-! ### digit lists -/

theorem foldlM_enc (R : Nat) (u : Bool) (hR : R ≤ 16) : ∀ (l : List Nat) (a : Nat), (∀ d, d ∈ l → d < R) →
    (l.map (encodeDigit u)).foldlM (fun acc b => (TextSpec.digitVal R b).map fun v => acc * R + v) a
      = some (l.foldl (fun a d => a * R + d) a) := by
  intro l
  induction l with
  | nil => intro a _; rfl
  | cons d l ih =>
    intro a h
    rw [List.map_cons, List.foldlM_cons, digitVal_enc R u d hR (h d (List.mem_cons_self ..))]
    simp only [Option.map_some, Option.bind_eq_bind, Option.bind_some, List.foldl_cons]
    exact ih _ (fun x hx => h x (List.mem_cons_of_mem _ hx))

theorem digitsVal_enc (R : Nat) (u : Bool) (hR : R ≤ 16) (l : List Nat) (h : ∀ d, d ∈ l → d < R) :
    TextSpec.digitsVal R (l.map (encodeDigit u)) = some (valI R l) :=
  foldlM_enc R u hR l 0 h

/-- bytes of rendered digits: ASCII digits or hex letters of the right case; in particular never `.`, `+`, `-` -/
theorem enc_bytes (u : Bool) (l : List Nat) (h : ∀ d, d ∈ l → d < 16) : ∀ b, b ∈ l.map (encodeDigit u) →
    (48 ≤ b ∧ b ≤ 57) ∨ (u = true ∧ 65 ≤ b ∧ b ≤ 70) ∨ (u = false ∧ 97 ≤ b ∧ b ≤ 102) := by
  intro b hb
  rw [List.mem_map] at hb
  obtain ⟨d, hd, rfl⟩ := hb
  exact enc_range u d (h d hd)

/-! ### `TextSpec.literal` of a rendered string, any radix -/

/-- the literal denoted by `int[.frac]` for digit lists in radix `R ≤ 16` -/
theorem literal_render_gen (R : Nat) (u : Bool) (hR : R ≤ 16) (ip fp : List Nat) (dot : Bool)
    (hd : ∀ d, d ∈ ip ++ fp → d < R) (hne : ip ≠ []) (hdot : dot = false → fp = []) :
    TextSpec.literal R (render u ip fp dot) = some (false, valI R (ip ++ fp), fp.length) := by
  have hI16 : ∀ d, d ∈ ip → d < 16 := fun d h => by have := hd d (List.mem_append_left _ h); omega
  have hF16 : ∀ d, d ∈ fp → d < 16 := fun d h => by have := hd d (List.mem_append_right _ h); omega
  have hIB := enc_bytes u ip hI16
  have hFB := enc_bytes u fp hF16
  have hneI : ip.map (encodeDigit u) ≠ [] := by simpa using hne
  have hcore : splitCore false (render u ip fp dot) = some (false, ip.map (encodeDigit u), fp.map (encodeDigit u)) := by
    unfold render
    apply splitCore_digits false _ _ dot (fun b hb => by have := hIB b hb; omega) (fun b hb => by have := hFB b hb; omega)
      hneI
    intro h; rw [hdot h]; rfl
  have hsplit : TextSpec.split (render u ip fp dot) = some (false, ip.map (encodeDigit u), fp.map (encodeDigit u)) := by
    obtain ⟨b, l, hbl, hb⟩ : ∃ b l, render u ip fp dot = b :: l ∧ b ≠ 45 ∧ b ≠ 43 := by
      cases hip : ip with
      | nil => exact absurd hip hne
      | cons d l =>
        refine ⟨encodeDigit u d, _, by unfold render; rw [List.map_cons, List.cons_append], ?_⟩
        have := hIB (encodeDigit u d) (by rw [hip]; simp)
        omega
    rw [hbl, split_nosign b l hb.1 hb.2, ← hbl]
    exact hcore
  unfold TextSpec.literal
  rw [hsplit]
  simp only [Option.bind_eq_bind, Option.bind_some]
  rw [digitsVal_enc R u hR ip (fun d h => hd d (List.mem_append_left _ h)),
    digitsVal_enc R u hR fp (fun d h => hd d (List.mem_append_right _ h))]
  simp only [Option.bind_some, List.length_map, Option.pure_def]
  rw [show valI R (ip ++ fp) = _ from FmtRadixPf.valI_append R ip fp]

/-! ### `TextSpec.bodyVal` of a rendered string -/

theorem render_takeWhile (u : Bool) (ip fp : List Nat) (dot : Bool) (hI : ∀ d, d ∈ ip → d < 16) :
    (render u ip fp dot).takeWhile (· ≠ 46) = ip.map (encodeDigit u) := by
  have hIB := enc_bytes u ip hI
  unfold render
  refine (takeWhile_digits _ _ (fun b hb => by have := hIB b hb; omega) ?_).1
  cases dot
  · left; rfl
  · right; exact ⟨_, rfl⟩

theorem render_contains (u : Bool) (ip fp : List Nat) (dot : Bool) (hI : ∀ d, d ∈ ip → d < 16)
    (hF : ∀ d, d ∈ fp → d < 16) : (render u ip fp dot).contains 46 = dot := by
  have hIB := enc_bytes u ip hI
  have hFB := enc_bytes u fp hF
  unfold render
  cases dot
  · simp only [Bool.false_eq_true, if_false, List.append_nil]
    rw [List.contains_eq_mem]
    simp only [decide_eq_false_iff_not]
    intro hm
    have := hIB 46 hm; omega
  · simp

/-- the case test of `bodyVal` passes on rendered digits of the matching case -/
theorem render_okCase (kind : String) (ip fp : List Nat) (dot : Bool) (hI : ∀ d, d ∈ ip → d < 16)
    (hF : ∀ d, d ∈ fp → d < 16) :
    ((render (kind == "X") ip fp dot).all fun b =>
      if kind == "X" then !(decide (97 ≤ b ∧ b ≤ 102)) else !(decide (65 ≤ b ∧ b ≤ 70))) = true := by
  have hIB := enc_bytes (kind == "X") ip hI
  have hFB := enc_bytes (kind == "X") fp hF
  rw [List.all_eq_true]
  intro b hb
  have hb' : b = 46 ∨ (48 ≤ b ∧ b ≤ 57) ∨ ((kind == "X") = true ∧ 65 ≤ b ∧ b ≤ 70) ∨
      ((kind == "X") = false ∧ 97 ≤ b ∧ b ≤ 102) := by
    unfold render at hb
    rw [List.mem_append] at hb
    rcases hb with hb | hb
    · right; exact hIB b hb
    · cases dot
      · simp at hb
      · simp only [if_true, List.mem_cons] at hb
        rcases hb with hb | hb
        · left; exact hb
        · right; exact hFB b hb
  cases hk : (kind == "X")
  · simp only [Bool.false_eq_true, if_false, Bool.not_eq_true', decide_eq_false_iff_not]
    rw [hk] at hb'
    simp only [Bool.false_eq_true, false_and, false_or, true_and] at hb'
    omega
  · simp only [if_true, Bool.not_eq_true', decide_eq_false_iff_not]
    rw [hk] at hb'
    simp only [true_and, Bool.true_eq_false, false_and, or_false] at hb'
    omega

/-- **`bodyVal` reads a rendered body back.**  For canonical integer digits `ip`, fraction digits `fq` (which may end in
zeros — the precision zeros are part of the body), all below the radix, with the point shown iff `fq` is non-empty:
`bodyVal` accepts and returns the value of the digit string and the number of fraction digits. -/
theorem bodyVal_render (spec : FmtSpec) (ip fq : List Nat) (hR : spec.radix ≤ 16) (hc : Canon ip)
    (hd : ∀ d, d ∈ ip ++ fq → d < spec.radix) :
    TextSpec.bodyVal spec (render (spec.kind == "X") ip fq (!fq.isEmpty))
      = some (valI spec.radix (ip ++ fq), fq.length) := by
  have hI16 : ∀ d, d ∈ ip → d < 16 := fun d h => by have := hd d (List.mem_append_left _ h); omega
  have hF16 : ∀ d, d ∈ fq → d < 16 := fun d h => by have := hd d (List.mem_append_right _ h); omega
  have hlit := literal_render_gen spec.radix (spec.kind == "X") hR ip fq (!fq.isEmpty) hd hc.1
    (by intro h; cases fq with
      | nil => rfl
      | cons _ _ => simp at h)
  obtain ⟨d0, ip', hip⟩ : ∃ d0 ip', ip = d0 :: ip' := by
    cases hip : ip with
    | nil => exact absurd hip hc.1
    | cons d l => exact ⟨d, l, rfl⟩
  have hhead : (render (spec.kind == "X") ip fq (!fq.isEmpty)).head? = some (encodeDigit (spec.kind == "X") d0) := by
    rw [hip]; unfold render; simp
  have hd0 : d0 < 16 := hI16 d0 (by rw [hip]; simp)
  have hne46 : encodeDigit (spec.kind == "X") d0 ≠ 46 := by
    have := enc_range (spec.kind == "X") d0 hd0; omega
  unfold TextSpec.bodyVal
  simp only
  rw [render_okCase spec.kind ip fq _ hI16 hF16, hhead, hlit]
  have h1 : (some (encodeDigit (spec.kind == "X") d0) == some 46) = false := by
    simp [hne46]
  have h2 : (render (spec.kind == "X") ip fq (!fq.isEmpty)).isEmpty = false := by
    rw [hip]; unfold render; simp
  rw [h1, h2]
  simp only [Bool.not_true, Bool.or_self, Bool.false_eq_true, if_false]
  rw [render_takeWhile _ ip fq _ hI16, render_contains _ ip fq _ hI16 hF16]
  have h3 : (decide ((ip.map (encodeDigit (spec.kind == "X"))).length > 1) &&
      (ip.map (encodeDigit (spec.kind == "X"))).head? == some 48) = false := by
    rcases hc.2 with h | h
    · have : d0 ≠ 0 := by rw [hip] at h; simpa using h
      have h48 : encodeDigit (spec.kind == "X") d0 ≠ 48 := fun e => this ((enc_eq_48 _ d0 hd0).1 e)
      rw [hip]; simp [h48]
    · rw [h]; simp
  have h4 : (ip.map (encodeDigit (spec.kind == "X"))).isEmpty = false := by rw [hip]; simp
  have h5 : (!fq.isEmpty && decide (fq.length = 0)) = false := by cases fq <;> simp
  rw [h3, h4, h5]
  simp

#print axioms bodyVal_render

end Sfx.VerdictPf
