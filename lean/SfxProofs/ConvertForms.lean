import SfxProofs.ConvertHelper
/-
  ConvertForms.lean — from the helper's specification to the destination-side facts used by every
  `*_from_fixed` form (core Lean only).
-/
namespace Sfx.ConvPf
open Layout

theorem valid_pos {L : Layout} (h : L.valid) : 0 < L.n := by
  obtain ⟨h, _⟩ := h; omega

theorem valid_le128 {L : Layout} (h : L.valid) : L.n ≤ 128 := by
  obtain ⟨h, _⟩ := h; omega

theorem valid_ge8 {L : Layout} (h : L.valid) : 8 ≤ L.n := by
  obtain ⟨h, _⟩ := h; omega

/-- the shifted value of the helper is the exact conversion result -/
theorem floorShift_eq_convExact (S D : Layout) (x : Int) :
    floorShift x ((S.f : Int) - (D.f : Int)) = convExact S D x := by
  unfold convExact
  by_cases h : S.f ≤ D.f
  · obtain ⟨j, hj⟩ : ∃ j : Nat, D.f = S.f + j := ⟨D.f - S.f, by omega⟩
    have e : (S.f : Int) - (D.f : Int) = -(j : Int) := by omega
    rw [e, floorShift_neg, hj, pow_add', Int.mul_comm (2 ^ S.f) (2 ^ j), ← Int.mul_assoc,
      Int.mul_ediv_cancel _ (Int.ne_of_gt (two_pow_pos S.f))]
  · obtain ⟨j, hj0, hj⟩ : ∃ j : Nat, 0 < j ∧ S.f = j + D.f := ⟨S.f - D.f, by omega, by omega⟩
    have e : (S.f : Int) - (D.f : Int) = (j : Int) := by omega
    rw [e, floorShift_pos _ _ hj0, hj, pow_add', Int.mul_ediv_mul_of_pos_left _ _ (two_pow_pos D.f)]

theorem convExact_zero (S D : Layout) : convExact S D 0 = 0 := by
  unfold convExact; simp

theorem convExact_nonneg (S D : Layout) {x : Int} (hx : 0 ≤ x) : 0 ≤ convExact S D x := by
  rw [← floorShift_eq_convExact]; exact floorShift_pos_of_nonneg _ _ hx

theorem convExact_neg (S D : Layout) {x : Int} (hx : x < 0) : convExact S D x < 0 := by
  rw [← floorShift_eq_convExact]; exact floorShift_neg_of_neg _ _ hx

theorem convExact_neg_iff (S D : Layout) (x : Int) : convExact S D x < 0 ↔ x < 0 := by
  constructor
  · intro h
    by_cases hx : x < 0
    · exact hx
    · have := convExact_nonneg S D (x := x) (by omega); omega
  · exact convExact_neg S D

/-- what the destination sees of the helper's answer, in terms of the exact result `E` only -/
theorem helperTo_facts (S D : Layout) (hS : S.valid) (hD : D.valid) (x : Int) (hx : inRange S x) :
    (helperTo S D x).neg = decide (convExact S D x < 0) ∧
    wrapI D.signed D.n (helperTo S D x).bits = D.wrap (convExact S D x) ∧
    (helperTo S D x).overflow =
      (if 0 ≤ convExact S D x then decide (2 ^ D.n ≤ convExact S D x) else decide (convExact S D x < -(2 ^ (D.n - 1)))) := by
  have hDn := valid_pos hD
  by_cases hx0 : x = 0
  · subst hx0
    unfold helperTo
    rw [helper_zero, convExact_zero]
    have : ¬ (2 : Int) ^ D.n ≤ 0 := by have := two_pow_pos D.n; omega
    simp [Layout.wrap, this]
  · have hsum : D.f + D.intBits = D.n := by unfold Layout.intBits; have := hD.2; omega
    obtain ⟨h1, -, h3, h4⟩ := helper_spec S.signed S.n (valid_pos hS) (valid_le128 hS) x hx hx0 (S.f : Int) D.f D.intBits
      (by omega)
    rw [floorShift_eq_convExact, hsum] at h4
    rw [floorShift_eq_convExact] at h3
    unfold helperTo
    refine ⟨?_, h3 D.signed D.n hDn (valid_le128 hD), ?_⟩
    · rw [h1]
      by_cases hneg : x < 0
      · have hs : S.signed = true := by
          cases hs : S.signed
          · have := (inU_iff S.n x).1 (by unfold inRange at hx; rwa [hs] at hx); omega
          · rfl
        have := convExact_neg S D hneg
        simp [hs, hneg, this]
      · have : ¬ convExact S D x < 0 := by have := convExact_nonneg S D (x := x) (by omega); omega
        simp [hneg, this]
    · rw [h4]
      by_cases hpos : 0 < x
      · rw [if_pos hpos, if_pos (convExact_nonneg S D (by omega))]
      · have hneg : x < 0 := by omega
        have := convExact_neg S D hneg
        rw [if_neg hpos, if_neg (by omega)]

/-! ### pure facts about the destination-side checks -/

theorem clampI_of_in' {s : Bool} {n : Nat} {e : Int} (h : inI s n e) : clampI s n e = e := by
  unfold clampI; obtain ⟨h1, h2⟩ := h
  rw [if_neg (by omega), if_neg (by omega)]

theorem clampI_of_lt' {s : Bool} {n : Nat} {e : Int} (h : e < minI s n) : clampI s n e = minI s n := by
  unfold clampI; rw [if_pos h]

theorem clampI_of_gt' {s : Bool} {n : Nat} {e : Int} (h : maxI s n < e) : clampI s n e = maxI s n := by
  unfold clampI
  have := minI_le_maxI s n
  rw [if_neg (by omega), if_pos h]

theorem wrapS_neg_iff {n : Nat} (hn : 0 < n) {E : Int} (h0 : 0 ≤ E) (h1 : E < 2 ^ n) : wrapS n E < 0 ↔ 2 ^ (n - 1) ≤ E := by
  have hp := pow_split hn
  have hpos := two_pow_pos (n - 1)
  by_cases h : E < 2 ^ (n - 1)
  · rw [wrapS_of_in hn ((inS_iff n E).2 (by omega))]; omega
  · have e : E = (E - 2 ^ n) + 1 * 2 ^ n := by omega
    have w : wrapS n E = E - 2 ^ n := by
      rw [e, wrapS_add_mul, wrapS_of_in hn ((inS_iff n _).2 (by omega))]; omega
    rw [w]; omega

/-- the combined overflow flag of `overflowing_from_fixed` -/
theorem ovf_combine (sd : Bool) (n : Nat) (hn : 0 < n) (E : Int) :
    ((if 0 ≤ E then decide (2 ^ n ≤ E) else decide (E < -(2 ^ (n - 1)))) ||
      (if sd then (!decide (E < 0) && decide (wrapI sd n E < 0)) else decide (E < 0))) = !decide (inI sd n E) := by
  have hp := pow_split hn
  have hpos := two_pow_pos (n - 1)
  cases sd
  · by_cases h0 : 0 ≤ E
    · have hn0 : ¬ E < 0 := by omega
      by_cases h1 : 2 ^ n ≤ E
      · have : ¬ inI false n E := by rw [inU_iff]; omega
        simp [h0, h1, this]
      · have : inI false n E := by rw [inU_iff]; omega
        simp [h0, h1, hn0, this]
    · have hn0 : E < 0 := by omega
      have : ¬ inI false n E := by rw [inU_iff]; omega
      simp [hn0, this]
  · by_cases h0 : 0 ≤ E
    · have hn0 : ¬ E < 0 := by omega
      by_cases h1 : 2 ^ n ≤ E
      · have : ¬ inI true n E := by rw [inS_iff]; omega
        simp [h0, h1, this]
      · have hw := wrapS_neg_iff hn h0 (by omega : E < 2 ^ n)
        by_cases h2 : 2 ^ (n - 1) ≤ E
        · have : ¬ inI true n E := by rw [inS_iff]; omega
          have hw' : wrapS n E < 0 := hw.2 h2
          simp [h0, h1, hn0, this, wrapI, hw']
        · have : inI true n E := by rw [inS_iff]; omega
          have hw' : ¬ wrapS n E < 0 := fun h => h2 (hw.1 h)
          simp [h0, h1, hn0, this, wrapI, hw']
    · have hn0 : E < 0 := by omega
      by_cases h1 : E < -(2 ^ (n - 1))
      · have : ¬ inI true n E := by rw [inS_iff]; omega
        simp [h0, h1, hn0, this]
      · have : inI true n E := by rw [inS_iff]; omega
        simp [h0, h1, hn0, this]

/-- the selection made by `saturating_from_fixed` -/
theorem sat_combine (sd : Bool) (n : Nat) (hn : 0 < n) (E : Int) :
    (if (if 0 ≤ E then decide (2 ^ n ≤ E) else decide (E < -(2 ^ (n - 1)))) = true then
        (if E < 0 then minI sd n else maxI sd n)
     else if sd = true then
        (if (!decide (E < 0) && decide (wrapI sd n E < 0)) = true then maxI sd n else wrapI sd n E)
     else
        (if decide (E < 0) = true then minI sd n else wrapI sd n E)) = clampI sd n E := by
  have hp := pow_split hn
  have hpos := two_pow_pos (n - 1)
  cases sd
  · by_cases h0 : 0 ≤ E
    · have hn0 : ¬ E < 0 := by omega
      by_cases h1 : 2 ^ n ≤ E
      · have : maxI false n < E := by simp [maxI]; omega
        rw [clampI_of_gt' this]
        simp [h0, h1, hn0]
      · have : inI false n E := by rw [inU_iff]; omega
        rw [clampI_of_in' this]
        simp [h0, h1, hn0, wrapI_of_in hn this]
    · have hn0 : E < 0 := by omega
      have : E < minI false n := by simp [minI]; omega
      rw [clampI_of_lt' this]
      have h1 : ¬ E < -(2 ^ (n - 1)) ∨ E < -(2 ^ (n - 1)) := by omega
      rcases h1 with h1 | h1 <;> simp [h0, h1, hn0]
  · by_cases h0 : 0 ≤ E
    · have hn0 : ¬ E < 0 := by omega
      by_cases h1 : 2 ^ n ≤ E
      · have : maxI true n < E := by simp [maxI]; omega
        rw [clampI_of_gt' this]
        simp [h0, h1, hn0]
      · have hw := wrapS_neg_iff hn h0 (by omega : E < 2 ^ n)
        by_cases h2 : 2 ^ (n - 1) ≤ E
        · have : maxI true n < E := by simp [maxI]; omega
          rw [clampI_of_gt' this]
          have hw' : wrapS n E < 0 := hw.2 h2
          simp [h0, h1, hn0, wrapI, hw']
        · have : inI true n E := by rw [inS_iff]; omega
          rw [clampI_of_in' this]
          have hwe : wrapS n E = E := wrapS_of_in hn this
          simp [h0, h1, hn0, wrapI, hwe]
    · have hn0 : E < 0 := by omega
      by_cases h1 : E < -(2 ^ (n - 1))
      · have : E < minI true n := by simp [minI]; omega
        rw [clampI_of_lt' this]
        simp [h0, h1, hn0]
      · have : inI true n E := by rw [inS_iff]; omega
        rw [clampI_of_in' this]
        have hwe : wrapS n E = E := wrapS_of_in hn this
        simp [h0, h1, hn0, wrapI, hwe]

end Sfx.ConvPf
