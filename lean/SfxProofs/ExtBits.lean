import SfxModel.ExtBits
import SfxProofs.PrimLemmas
import SfxProofs.Forms
import SfxProofs.Rem
import SfxProofs.Convert
import SfxModel.Wrapping
/-
  ExtBits.lean — extension `Bits`: every model function of `SfxModel/ExtBits.lean` part 1 (written after the Rust source
  and `core::num`) equals the specification of part 2 (bit patterns, structural recursion over bit positions), for every
  layout and all operands.  Core Lean only.

  Sections: (0) facts about the specification's own vocabulary (`ofBits`, `decode`, `popcount`, …) that show it says what
  it is meant to say; (1) shifts; (2) bit counts; (3) rotations; (4) powers of two; (5) `signum`, sign tests, constants;
  (6) the deprecated remainder forms; (7) the rows of the driver (`ExtBits.model` = `ExtBits.spec` row by row).
-/
namespace Sfx.ExtBitsPf
open Sfx.Layout Sfx.BitSpec

/-! ## 0. the vocabulary of the specification -/

theorem ofBits_lt (g : Nat → Bool) (m : Nat) : ofBits g m < 2 ^ m := by
  induction m with
  | zero => simp [ofBits]
  | succ m ih =>
    have : 2 ^ (m + 1) = 2 ^ m + 2 ^ m := by rw [Nat.pow_succ]; omega
    unfold ofBits
    split <;> omega

/-- `ofBits g m` is the number whose bit `i` is `g i` for `i < m` and 0 above -/
theorem testBit_ofBits (g : Nat → Bool) (m i : Nat) : (ofBits g m).testBit i = (decide (i < m) && g i) := by
  induction m with
  | zero => simp [ofBits]
  | succ m ih =>
    have hlt := ofBits_lt g m
    have hp : 2 ^ (m + 1) = 2 ^ m + 2 ^ m := by rw [Nat.pow_succ]; omega
    unfold ofBits
    by_cases hg : g m
    · rw [if_pos hg, Nat.add_comm]
      rcases Nat.lt_trichotomy i m with h | h | h
      · rw [Nat.testBit_two_pow_add_gt h, ih]; simp [h, Nat.lt_succ_of_lt h]
      · subst h
        rw [Nat.testBit_two_pow_add_eq, Nat.testBit_lt_two_pow hlt]; simp [hg]
      · have h2 : 2 ^ m + ofBits g m < 2 ^ i :=
          Nat.lt_of_lt_of_le (by omega) (Nat.pow_le_pow_right (by decide) (show m + 1 ≤ i by omega))
        rw [Nat.testBit_lt_two_pow h2]
        have : ¬ i < m + 1 := by omega
        simp [this]
    · rw [if_neg hg, Nat.add_zero, ih]
      by_cases h : i < m
      · simp [h, Nat.lt_succ_of_lt h]
      · by_cases h' : i = m
        · subst h'; simp [hg]
        · have : ¬ i < m + 1 := by omega
          simp [h, this]

/-- a number below `2^m` is the number of its own low `m` bits -/
theorem ofBits_testBit {u m : Nat} (h : u < 2 ^ m) : ofBits (fun i => u.testBit i) m = u := by
  apply Nat.eq_of_testBit_eq
  intro i
  rw [testBit_ofBits]
  by_cases hi : i < m
  · simp [hi]
  · have : u < 2 ^ i := Nat.lt_of_lt_of_le h (Nat.pow_le_pow_right (by decide) (by omega))
    simp [hi, Nat.testBit_lt_two_pow this]

theorem natCast_two_pow (n : Nat) : ((2 ^ n : Nat) : Int) = 2 ^ n := Int.natCast_pow 2 n

theorem decode_in {s : Bool} {n u : Nat} (hn : 0 < n) (hu : u < 2 ^ n) : inI s n (decode s n u) := by
  have hp := pow_split hn
  have hP := two_pow_pos (n - 1)
  have hc := natCast_two_pow n
  have hc1 := natCast_two_pow (n - 1)
  unfold decode
  cases s
  · rw [inU_iff]; simp; omega
  · rw [inS_iff]
    by_cases h : 2 ^ (n - 1) ≤ u
    · simp [h]; omega
    · simp [h]; omega

theorem decode_congr (s : Bool) (n u : Nat) : ∃ k : Int, decode s n u = (u : Int) + k * 2 ^ n := by
  unfold decode
  split
  · exact ⟨-1, by omega⟩
  · exact ⟨0, by omega⟩

/-- `decode` is the reading of a pattern that `wrapI` computes -/
theorem decode_eq_wrapI {s : Bool} {n u : Nat} (hn : 0 < n) (hu : u < 2 ^ n) : decode s n u = wrapI s n (u : Int) := by
  obtain ⟨k, hk⟩ := decode_congr s n u
  rw [← wrapI_of_in hn (decode_in (s := s) hn hu)]
  exact wrapI_congr s n k hk

/-- `decode` inverts `toU` on the values of the type -/
theorem decode_toU {s : Bool} {n : Nat} (hn : 0 < n) {x : Int} (hx : inI s n x) : decode s n (toU n x) = x := by
  rw [decode_eq_wrapI hn (toU_lt n x)]
  have := wrapI_toU s n x
  rw [show (Int.ofNat (toU n x)) = ((toU n x : Nat) : Int) from rfl] at this
  rw [this, wrapI_of_in hn hx]

/-! ## 1. shifts -/

theorem shlBits_eq (n u k : Nat) : shlBits n u k = (u * 2 ^ k) % 2 ^ n := by
  apply Nat.eq_of_testBit_eq
  intro i
  unfold shlBits
  rw [testBit_ofBits, Nat.testBit_mod_two_pow, Nat.testBit_mul_two_pow]

theorem toU_congr (n : Nat) (x : Int) : ∃ j : Int, ((toU n x : Nat) : Int) = x + j * 2 ^ n := by
  have h : Int.ofNat (toU n x) = wrapU n x := toU_cast n x
  obtain ⟨j, hj⟩ := wrapU_eq_add_mul n x
  exact ⟨j, by rw [← hj, ← h]; rfl⟩

/-- `x << k` (`wrapI (x · 2^k)`, the model of `Prim.lean`) is the shift of the bit pattern; no condition on `x` or `k` -/
theorem shlI_eq_spec (s : Bool) {n : Nat} (hn : 0 < n) (x : Int) (k : Nat) : shlI s n x k = BitSpec.shl s n x k := by
  unfold shlI BitSpec.shl
  have hlt : shlBits n (toU n x) k < 2 ^ n := ofBits_lt _ _
  rw [decode_eq_wrapI hn hlt, shlBits_eq]
  obtain ⟨j, hj⟩ := toU_congr n x
  have h1 : (((toU n x * 2 ^ k) % 2 ^ n : Nat) : Int) = ((toU n x : Nat) : Int) * 2 ^ k % 2 ^ n := by
    rw [Int.natCast_emod, Int.natCast_mul, natCast_two_pow, natCast_two_pow]
  rw [h1]
  have h2 := Int.emod_add_mul_ediv (((toU n x : Nat) : Int) * 2 ^ k) (2 ^ n)
  have e : ((toU n x : Nat) : Int) * 2 ^ k = x * 2 ^ k + j * 2 ^ k * 2 ^ n := by
    rw [hj, Int.add_mul, Int.mul_assoc j, Int.mul_comm (2 ^ n) (2 ^ k), ← Int.mul_assoc j]
  symm
  apply wrapI_congr s n (-(((toU n x : Nat) : Int) * 2 ^ k / 2 ^ n) + j * 2 ^ k)
  rw [Int.add_mul, Int.neg_mul]
  rw [Int.mul_comm (2 ^ n)] at h2
  omega

theorem toU_nonneg {n : Nat} {x : Int} (h0 : 0 ≤ x) (h1 : x < 2 ^ n) : toU n x = x.toNat := by
  unfold toU; rw [Int.emod_eq_of_lt h0 h1]

/-- pattern of a negative value `-(m+1)`, `m < 2^n` -/
theorem toU_negSucc {n m : Nat} (hm : m < 2 ^ n) : toU n (Int.negSucc m) = 2 ^ n - (m + 1) := by
  have hc := natCast_two_pow n
  have h1 : (Int.negSucc m) % 2 ^ n = 2 ^ n - ((m : Int) + 1) := by
    have : (Int.negSucc m) = (2 ^ n - ((m : Int) + 1)) + (-1) * 2 ^ n := by
      rw [Int.negSucc_eq]; omega
    rw [this, Int.add_mul_emod_self_right]
    exact Int.emod_eq_of_lt (by omega) (by omega)
  unfold toU
  rw [h1]
  omega

theorem testBit_of_lt_le {u a b : Nat} (h : u < 2 ^ a) (hab : a ≤ b) : u.testBit b = false :=
  Nat.testBit_lt_two_pow (Nat.lt_of_lt_of_le h (Nat.pow_le_pow_right (by decide) hab))

/-- `x >> k` (floor division, the model of `Prim.lean`) is the shift of the bit pattern with the sign bit shifted in
for signed types, zeros for unsigned types; any `k` -/
theorem shrI_eq_spec {s : Bool} {n : Nat} (hn : 0 < n) {x : Int} (hx : inI s n x) (k : Nat) :
    shrI x k = BitSpec.shr s n x k := by
  have hP := two_pow_pos k
  have hpn := pow_split hn
  have hPn := two_pow_pos (n - 1)
  -- the quotient is a value of the type
  have hq : inI s n (x / 2 ^ k) := by
    cases s
    · rw [inU_iff] at hx ⊢
      exact ⟨Int.ediv_nonneg hx.1 (Int.le_of_lt hP), Int.lt_of_le_of_lt (Int.ediv_le_self _ hx.1) hx.2⟩
    · rw [inS_iff] at hx ⊢
      constructor
      · rw [Int.le_ediv_iff_mul_le hP]
        have : -(2 ^ (n - 1) : Int) * 2 ^ k ≤ -(2 ^ (n - 1)) * 1 :=
          Int.mul_le_mul_of_nonpos_left (by omega) (by omega)
        omega
      · rw [Int.ediv_lt_iff_lt_mul hP]
        have : (2 ^ (n - 1) : Int) * 1 ≤ 2 ^ (n - 1) * 2 ^ k := Int.mul_le_mul_of_nonneg_left (by omega) (by omega)
        omega
  unfold shrI BitSpec.shr
  suffices h : shrBits n (toU n x) k (s && decide (x < 0)) = toU n (x / 2 ^ k) by
    rw [h, decode_toU hn hq]
  apply Nat.eq_of_testBit_eq
  intro i
  unfold shrBits
  rw [testBit_ofBits]
  have hxlt : x < 2 ^ n := by
    cases s
    · exact ((inU_iff n x).1 hx).2
    · have := ((inS_iff n x).1 hx).2; omega
  by_cases hneg : x < 0
  · -- negative (hence signed): x = -(m+1)
    have hs : s = true := by
      cases s
      · have := ((inU_iff n x).1 hx).1; omega
      · rfl
    subst hs
    obtain ⟨m, rfl⟩ : ∃ m : Nat, x = Int.negSucc m := by
      cases x with
      | ofNat a => exact absurd hneg (by simp)
      | negSucc m => exact ⟨m, rfl⟩
    have hm1 : m < 2 ^ (n - 1) := by
      have h := ((inS_iff n _).1 hx).1
      have hc := natCast_two_pow (n - 1)
      rw [Int.negSucc_eq] at h; omega
    have hpn' : 2 ^ n = 2 * 2 ^ (n - 1) := by
      have : n = (n - 1) + 1 := by omega
      rw [this, Nat.pow_succ]; simp; omega
    have hm : m < 2 ^ n := by omega
    have hdiv : Int.negSucc m / (2 ^ k : Int) = Int.negSucc (m / 2 ^ k) := by
      rw [Int.negSucc_ediv m hP, Int.negSucc_eq]
      show -(((m : Int) / 2 ^ k) + 1) = _
      rw [← natCast_two_pow k, ← Int.natCast_ediv]
    have hmk : m / 2 ^ k < 2 ^ n := Nat.lt_of_le_of_lt (Nat.div_le_self _ _) hm
    rw [hdiv, toU_negSucc hm, toU_negSucc hmk, Nat.testBit_two_pow_sub_succ hm, Nat.testBit_two_pow_sub_succ hmk,
      Nat.testBit_div_two_pow]
    simp only [hneg, decide_true, Bool.and_self]
    by_cases hi : i < n
    · by_cases hik : i + k < n
      · simp [hi, hik]
      · have : m.testBit (i + k) = false := testBit_of_lt_le hm1 (by omega)
        simp [hi, hik, this]
    · simp [hi]
  · -- non-negative
    have h0 : 0 ≤ x := by omega
    have hq0 : 0 ≤ x / 2 ^ k := Int.ediv_nonneg h0 (Int.le_of_lt hP)
    have hqlt : x / 2 ^ k < 2 ^ n := Int.lt_of_le_of_lt (Int.ediv_le_self _ h0) hxlt
    rw [toU_nonneg h0 hxlt, toU_nonneg hq0 hqlt]
    have hdiv : (x / 2 ^ k).toNat = x.toNat / 2 ^ k := by
      have hx' : x = ((x.toNat : Nat) : Int) := (Int.toNat_of_nonneg h0).symm
      rw [hx', ← natCast_two_pow k, ← Int.natCast_ediv, Int.toNat_natCast, Int.toNat_natCast]
    rw [hdiv, Nat.testBit_div_two_pow]
    have hxn : x.toNat < 2 ^ n := by
      have hc := natCast_two_pow n
      omega
    simp only [hneg, decide_false, Bool.and_false]
    by_cases hi : i < n
    · by_cases hik : i + k < n
      · simp [hi, hik]
      · have : x.toNat.testBit (i + k) = false := testBit_of_lt_le hxn (by omega)
        simp [hi, hik, this]
    · have : x.toNat.testBit (i + k) = false := testBit_of_lt_le hxn (by omega)
      simp [hi, this]

/-! ### the eight shift forms and the operators -/

theorem checkedShl_spec (L : Layout) (hn : 0 < L.n) (a : Int) (k : Nat) :
    oOpt (L.checkedShl a k) = L.checkedShlSpec a k := by
  unfold checkedShl checkedShlSpec
  by_cases h : k < L.n
  · have h' : ¬ L.n ≤ k := by omega
    simp only [h, h', if_true, if_false, shlI_eq_spec L.signed hn]; rfl
  · have h' : L.n ≤ k := by omega
    simp only [h, h', if_true, if_false]; rfl

theorem checkedShr_spec (L : Layout) (hn : 0 < L.n) (a : Int) (ha : inRange L a) (k : Nat) :
    oOpt (L.checkedShr a k) = L.checkedShrSpec a k := by
  unfold checkedShr checkedShrSpec
  by_cases h : k < L.n
  · have h' : ¬ L.n ≤ k := by omega
    simp only [h, h', if_true, if_false, shrI_eq_spec hn ha]; rfl
  · have h' : L.n ≤ k := by omega
    simp only [h, h', if_true, if_false]; rfl

theorem wrappingShl_spec (L : Layout) (hn : 0 < L.n) (a : Int) (k : Nat) :
    oInt (L.wrappingShl a k) = L.wrappingShlSpec a k := by
  unfold wrappingShl wrappingShlSpec; rw [shlI_eq_spec L.signed hn]; rfl

theorem wrappingShr_spec (L : Layout) (hn : 0 < L.n) (a : Int) (ha : inRange L a) (k : Nat) :
    oInt (L.wrappingShr a k) = L.wrappingShrSpec a k := by
  unfold wrappingShr wrappingShrSpec; rw [shrI_eq_spec hn ha]; rfl

theorem overflowingShl_spec (L : Layout) (hn : 0 < L.n) (a : Int) (k : Nat) :
    oPair (L.overflowingShl a k) = L.overflowingShlSpec a k := by
  unfold overflowingShl overflowingShlSpec; rw [shlI_eq_spec L.signed hn]; rfl

theorem overflowingShr_spec (L : Layout) (hn : 0 < L.n) (a : Int) (ha : inRange L a) (k : Nat) :
    oPair (L.overflowingShr a k) = L.overflowingShrSpec a k := by
  unfold overflowingShr overflowingShrSpec; rw [shrI_eq_spec hn ha]; rfl

theorem amount_flag (n : Nat) (m : Int) :
    (decide (m < 0) || decide ((n : Int) ≤ m)) = !decide (0 ≤ m ∧ m < (n : Int)) := by
  by_cases h1 : m < 0 <;> by_cases h2 : (n : Int) ≤ m <;> simp [h1, h2] <;> omega

/-- `F << T` for an amount of any primitive integer type -/
theorem shlAny_spec (L : Layout) (hn : 0 < L.n) (a : Int) (m : Int) : oInt (L.shlAny a m) = L.shlAnySpec a m := by
  unfold shlAny shlAnySpec; rw [shlI_eq_spec L.signed hn, amount_flag]; rfl

theorem shrAny_spec (L : Layout) (hn : 0 < L.n) (a : Int) (ha : inRange L a) (m : Int) :
    oInt (L.shrAny a m) = L.shrAnySpec a m := by
  unfold shrAny shrAnySpec; rw [shrI_eq_spec hn ha, amount_flag]; rfl

theorem natCast_emod_toNat (k n : Nat) : ((k : Int) % (n : Int)).toNat = k % n := by
  rw [← Int.natCast_emod, Int.toNat_natCast]

/-- `F << u32` (the operator of the `Fixed` trait's supertraits): `ushl` of `Prim.lean` -/
theorem shlOp_spec (L : Layout) (hn : 0 < L.n) (a : Int) (k : Nat) : oInt (L.shlU32Op a k) = L.shlAnySpec a (k : Int) := by
  rw [← shlAny_spec L hn]
  unfold shlU32Op ushl shlAny
  rw [natCast_emod_toNat]
  have : (decide ((k : Int) < 0) || decide ((L.n : Int) ≤ (k : Int))) = decide (L.n ≤ k) := by
    by_cases h : L.n ≤ k <;> simp [h] <;> omega
  rw [this]

theorem shrOp_spec (L : Layout) (hn : 0 < L.n) (a : Int) (ha : inRange L a) (k : Nat) :
    oInt (L.shrU32Op a k) = L.shrAnySpec a (k : Int) := by
  rw [← shrAny_spec L hn a ha]
  unfold shrU32Op ushr shrAny
  rw [natCast_emod_toNat]
  have : (decide ((k : Int) < 0) || decide ((L.n : Int) ≤ (k : Int))) = decide (L.n ≤ k) := by
    by_cases h : L.n ≤ k <;> simp [h] <;> omega
  rw [this]

/-- the shift operators agree with the `Wrapping<F>` model's operators (`ushl` / `ushr` on the reduced amount) -/
theorem shlAny_eq_ushl (L : Layout) (a m : Int) (h0 : 0 ≤ m) : L.shlAny a m = ushl L.signed L.n a m.toNat := by
  obtain ⟨k, rfl⟩ : ∃ k : Nat, m = (k : Int) := ⟨m.toNat, (Int.toNat_of_nonneg h0).symm⟩
  unfold shlAny ushl
  rw [natCast_emod_toNat, Int.toNat_natCast]
  have : (decide ((k : Int) < 0) || decide ((L.n : Int) ≤ (k : Int))) = decide (L.n ≤ k) := by
    by_cases h : L.n ≤ k <;> simp [h] <;> omega
  rw [this]

/-! ## 2. bit counts -/

theorem popcount_zero (m : Nat) : popcount 0 m = 0 := by
  induction m with
  | zero => rfl
  | succ m ih => simp [popcount, ih]

/-- peeling the lowest bit instead of the highest -/
theorem popcount_succ_low (u m : Nat) :
    popcount u (m + 1) = (if u.testBit 0 then 1 else 0) + popcount (u / 2) m := by
  induction m with
  | zero => simp [popcount]
  | succ m ih =>
    rw [popcount, ih, popcount, Nat.testBit_succ]
    omega

/-- the halving loop of `Prim.countOnesNat` counts the low `fuel` bits -/
theorem countOnesNat_eq (fuel u : Nat) : countOnesNat fuel u = popcount u fuel := by
  induction fuel generalizing u with
  | zero => rfl
  | succ f ih =>
    unfold countOnesNat
    by_cases h0 : u = 0
    · subst h0; simp [popcount_zero]
    · rw [if_neg h0, popcount_succ_low, ih, Nat.testBit_zero]
      have := Nat.mod_two_eq_zero_or_one u
      by_cases h1 : u % 2 = 1
      · simp [h1]
      · have : u % 2 = 0 := by omega
        simp [this]

theorem countOnes_spec (L : Layout) (a : Int) : ExtBits.oNat (pure (L.countOnesOp a)) = L.countOnesSpec a := by
  unfold countOnesOp countOnes countOnesSpec
  rw [countOnesNat_eq]; rfl

theorem popcount_congr_not {a b : Nat} (m : Nat) (h : ∀ i, i < m → a.testBit i = !b.testBit i) :
    popcount a m = zerocount b m := by
  induction m with
  | zero => rfl
  | succ m ih =>
    rw [popcount, zerocount, ih (fun i hi => h i (Nat.lt_succ_of_lt hi)), h m (Nat.lt_succ_self m)]
    cases b.testBit m <;> simp

/-- pattern of the complement -/
theorem toU_not (n : Nat) (x : Int) : toU n (-x - 1) = 2 ^ n - (toU n x + 1) := by
  have hP := two_pow_pos n
  have hc := natCast_two_pow n
  have h0 := Int.emod_nonneg x (Int.ne_of_gt hP)
  have h1 := Int.emod_lt_of_pos x hP
  have h2 := Int.emod_add_mul_ediv x (2 ^ n)
  have h3 : (-x - 1) % 2 ^ n = 2 ^ n - 1 - x % 2 ^ n := by
    have : -x - 1 = (2 ^ n - 1 - x % 2 ^ n) + (-(x / 2 ^ n) - 1) * 2 ^ n := by
      rw [Int.sub_mul, Int.neg_mul, Int.mul_comm (x / 2 ^ n)]; omega
    rw [this, Int.add_mul_emod_self_right]
    exact Int.emod_eq_of_lt (by omega) (by omega)
  unfold toU
  rw [h3]
  omega

theorem countZeros_spec (L : Layout) (a : Int) : ExtBits.oNat (pure (L.countZerosOp a)) = L.countZerosSpec a := by
  unfold countZerosOp countOnes countZerosSpec notI
  rw [countOnesNat_eq, toU_wrapI, toU_not]
  have hlt := toU_lt L.n a
  rw [popcount_congr_not (b := toU L.n a) L.n (fun i hi => by rw [Nat.testBit_two_pow_sub_succ hlt]; simp [hi])]
  rfl

/-- the two counts partition the `m` positions -/
theorem popcount_add_zerocount (u m : Nat) : popcount u m + zerocount u m = m := by
  induction m with
  | zero => rfl
  | succ m ih => rw [popcount, zerocount]; cases u.testBit m <;> simp <;> omega

theorem testBit_top {u m : Nat} (h : u < 2 ^ (m + 1)) : u.testBit m = decide (2 ^ m ≤ u) := by
  by_cases h1 : 2 ^ m ≤ u
  · have hp : 2 ^ (m + 1) = 2 ^ m + 2 ^ m := by rw [Nat.pow_succ]; omega
    have e : u = 2 ^ m + (u - 2 ^ m) := by omega
    rw [e, Nat.testBit_two_pow_add_eq, Nat.testBit_lt_two_pow (by omega)]
    simp
  · rw [Nat.testBit_lt_two_pow (by omega)]; simp [h1]

theorem bitLen_le {u m : Nat} (h : u < 2 ^ m) : bitLen u ≤ m := by
  unfold bitLen
  by_cases h0 : u = 0
  · simp [h0]
  · rw [if_neg h0]; exact (Nat.log2_lt h0).2 h

theorem bitLen_eq {u m : Nat} (h1 : 2 ^ m ≤ u) (h2 : u < 2 ^ (m + 1)) : bitLen u = m + 1 := by
  have h0 : u ≠ 0 := by have := Nat.two_pow_pos m; omega
  unfold bitLen
  rw [if_neg h0]
  have a := (Nat.log2_lt h0).2 h2
  have b := (Nat.le_log2 h0).2 h1
  omega

/-- `n - bitLen u` (the model of `Prim.lean`) is the length of the run of zeros below position `n` -/
theorem leadingZeros_eq {u : Nat} (m : Nat) (h : u < 2 ^ m) : m - bitLen u = BitSpec.leadingZeros u m := by
  induction m with
  | zero =>
    have : u = 0 := by simpa using h
    subst this; simp [bitLen, BitSpec.leadingZeros]
  | succ m ih =>
    rw [BitSpec.leadingZeros, testBit_top h]
    by_cases h1 : 2 ^ m ≤ u
    · simp [h1, bitLen_eq h1 h]
    · have hlt : u < 2 ^ m := by omega
      have := bitLen_le hlt
      simp only [h1, decide_false, Bool.false_eq_true, if_false, ← ih hlt]
      omega

theorem leadingZeros_spec (L : Layout) (a : Int) : ExtBits.oNat (pure (L.leadingZerosOp a)) = L.leadingZerosSpec a := by
  unfold leadingZerosOp Sfx.leadingZeros leadingZerosSpec
  rw [leadingZeros_eq L.n (toU_lt L.n a)]; rfl

theorem zeroRunUp_succ (u i fuel : Nat) : zeroRunUp u (i + 1) fuel = zeroRunUp (u / 2) i fuel := by
  induction fuel generalizing i with
  | zero => rfl
  | succ f ih => rw [zeroRunUp, zeroRunUp, Nat.testBit_succ, ih]

/-- the halving loop of `Prim.trailingZerosNat` is the upward scan from position 0 -/
theorem trailingZerosNat_eq (fuel u : Nat) : trailingZerosNat fuel u = zeroRunUp u 0 fuel := by
  induction fuel generalizing u with
  | zero => rfl
  | succ f ih =>
    rw [trailingZerosNat, zeroRunUp, zeroRunUp_succ, ih, Nat.testBit_zero]
    by_cases h1 : u % 2 = 1 <;> simp [h1]

theorem zeroRunUp_zero (i fuel : Nat) : zeroRunUp 0 i fuel = fuel := by
  induction fuel generalizing i with
  | zero => rfl
  | succ f ih => rw [zeroRunUp, Nat.zero_testBit, ih]; simp; omega

theorem trailingZeros_spec (L : Layout) (a : Int) : ExtBits.oNat (pure (L.trailingZerosOp a)) = L.trailingZerosSpec a := by
  unfold trailingZerosOp Sfx.trailingZeros trailingZerosSpec BitSpec.trailingZeros
  by_cases h : toU L.n a = 0
  · rw [if_pos h, h, zeroRunUp_zero]; rfl
  · rw [if_neg h, trailingZerosNat_eq]; rfl

/-! ## 3. rotations -/

/-- the arithmetic of `Prim.rotl` (`(u·2^r) mod 2^n + u / 2^(n-r)`) moves bit `(i + (n - r)) mod n` to position `i` -/
theorem rotl_core {n u r : Nat} (hr : r ≤ n) (hu : u < 2 ^ n) :
    (u * 2 ^ r) % 2 ^ n + u / 2 ^ (n - r) = rotlBits n u r := by
  have hpow : 2 ^ n = 2 ^ (n - r) * 2 ^ r := (Nat.pow_sub_mul_pow 2 hr).symm
  have hlow : u / 2 ^ (n - r) < 2 ^ r := Nat.div_lt_of_lt_mul (by rw [← hpow]; exact hu)
  have e1 : (u * 2 ^ r) % 2 ^ n = (u % 2 ^ (n - r)) <<< r := by
    rw [Nat.shiftLeft_eq, hpow, Nat.mul_mod_mul_right]
  rw [e1, Nat.shiftLeft_add_eq_or_of_lt hlow]
  apply Nat.eq_of_testBit_eq
  intro i
  unfold rotlBits
  rw [testBit_ofBits, Nat.testBit_or, Nat.testBit_shiftLeft, Nat.testBit_mod_two_pow, Nat.testBit_div_two_pow]
  by_cases hi : i < n
  · by_cases hir : i < r
    · have h1 : ¬ i ≥ r := by omega
      have h2 : (i + (n - r)) % n = i + (n - r) := Nat.mod_eq_of_lt (by omega)
      simp [hi, h1, h2]
    · have h1 : i ≥ r := by omega
      have h2 : (i + (n - r)) % n = i - r := by
        have : i + (n - r) = (i - r) + n := by omega
        rw [this, Nat.add_mod_right, Nat.mod_eq_of_lt (by omega)]
      have h3 : i - r < n - r := by omega
      have h4 : u.testBit (i + (n - r)) = false := testBit_of_lt_le hu (by omega)
      simp [hi, h1, h2, h3, h4]
  · have h3 : ¬ i - r < n - r := by omega
    have h4 : u.testBit (i + (n - r)) = false := testBit_of_lt_le hu (by omega)
    simp [hi, h3, h4]

theorem rotlBits_full (n u : Nat) : rotlBits n u n = rotlBits n u 0 := by
  unfold rotlBits
  apply Nat.eq_of_testBit_eq
  intro i
  rw [testBit_ofBits, testBit_ofBits]
  by_cases hi : i < n
  · simp [hi]
  · simp [hi]

theorem rotl_eq_spec (s : Bool) {n : Nat} (hn : 0 < n) (x : Int) (k : Nat) : Sfx.rotl s n x k = BitSpec.rotl s n x k := by
  unfold Sfx.rotl BitSpec.rotl
  have hr : k % n < n := Nat.mod_lt _ hn
  simp only []
  rw [rotl_core (Nat.le_of_lt hr) (toU_lt n x)]
  exact (decode_eq_wrapI hn (ofBits_lt _ _)).symm

theorem rotr_eq_spec (s : Bool) {n : Nat} (hn : 0 < n) (x : Int) (k : Nat) : Sfx.rotr s n x k = BitSpec.rotr s n x k := by
  unfold Sfx.rotr
  rw [rotl_eq_spec s hn]
  unfold BitSpec.rotl BitSpec.rotr
  have hr : k % n < n := Nat.mod_lt _ hn
  by_cases h0 : k % n = 0
  · rw [h0, Nat.sub_zero, Nat.mod_self, rotlBits_full]
  · rw [Nat.mod_eq_of_lt (by omega)]

theorem rotateLeft_spec (L : Layout) (hn : 0 < L.n) (a : Int) (k : Nat) :
    oInt (pure (L.rotateLeft a k)) = L.rotateLeftSpec a k := by
  unfold rotateLeft rotateLeftSpec; rw [rotl_eq_spec L.signed hn]; rfl

theorem rotateRight_spec (L : Layout) (hn : 0 < L.n) (a : Int) (k : Nat) :
    oInt (pure (L.rotateRight a k)) = L.rotateRightSpec a k := by
  unfold rotateRight rotateRightSpec; rw [rotr_eq_spec L.signed hn]; rfl

/-- a rotation permutes the bits: it keeps the number of ones -/
theorem testBit_rotlBits (n u r i : Nat) : (rotlBits n u r).testBit i = (decide (i < n) && u.testBit ((i + (n - r)) % n)) := by
  unfold rotlBits; rw [testBit_ofBits]

/-! ## 4. powers of two -/

theorem popcount_congr {a b : Nat} (m : Nat) (h : ∀ i, i < m → a.testBit i = b.testBit i) : popcount a m = popcount b m := by
  induction m with
  | zero => rfl
  | succ m ih => rw [popcount, popcount, ih (fun i hi => h i (Nat.lt_succ_of_lt hi)), h m (Nat.lt_succ_self m)]

theorem popcount_eq_zero {u : Nat} (m : Nat) (h : u < 2 ^ m) (h0 : popcount u m = 0) : u = 0 := by
  induction m with
  | zero => simpa using h
  | succ m ih =>
    rw [popcount, testBit_top h] at h0
    by_cases h1 : 2 ^ m ≤ u
    · simp [h1] at h0
    · exact ih (by omega) (by simpa [h1] using h0)

theorem popcount_two_pow {k m : Nat} (hk : k < m) : popcount (2 ^ k) m = 1 := by
  induction m with
  | zero => omega
  | succ m ih =>
    rw [popcount, Nat.testBit_two_pow]
    by_cases h : k = m
    · subst h
      have : popcount (2 ^ k) k = popcount 0 k :=
        popcount_congr k (fun i hi => by rw [Nat.testBit_two_pow, Nat.zero_testBit]; simp; omega)
      rw [this, popcount_zero]; simp
    · rw [ih (by omega)]; simp [h]

/-- exactly one bit set among the low `m` ⇔ the number is `2^k` for a position `k < m` -/
theorem popcount_eq_one_iff {u : Nat} (m : Nat) (h : u < 2 ^ m) : popcount u m = 1 ↔ ∃ k, k < m ∧ u = 2 ^ k := by
  constructor
  · intro h1
    induction m with
    | zero => simp [popcount] at h1
    | succ m ih =>
      rw [popcount, testBit_top h] at h1
      by_cases h2 : 2 ^ m ≤ u
      · have hp : 2 ^ (m + 1) = 2 ^ m + 2 ^ m := by rw [Nat.pow_succ]; omega
        have e : u = 2 ^ m + (u - 2 ^ m) := by omega
        have hv : u - 2 ^ m < 2 ^ m := by omega
        have hc : popcount u m = popcount (u - 2 ^ m) m :=
          popcount_congr m (fun i hi => by rw [e, Nat.testBit_two_pow_add_gt hi, ← e])
        have hz : popcount (u - 2 ^ m) m = 0 := by simp [h2] at h1; omega
        have := popcount_eq_zero m hv hz
        exact ⟨m, Nat.lt_succ_self m, by omega⟩
      · obtain ⟨k, hk, e⟩ := ih (by omega) (by simpa [h2] using h1)
        exact ⟨k, Nat.lt_succ_of_lt hk, e⟩
  · rintro ⟨k, hk, rfl⟩
    exact popcount_two_pow hk

theorem isPow2_iff (n u : Nat) : isPow2 n u = true ↔ ∃ k, k < n ∧ u = 2 ^ k := by
  unfold isPow2
  rw [List.any_eq_true]
  constructor
  · rintro ⟨k, hk, e⟩; exact ⟨k, List.mem_range.1 hk, by simpa using e⟩
  · rintro ⟨k, hk, e⟩; exact ⟨k, List.mem_range.2 hk, by simpa using e⟩

theorem isPowerOfTwo_spec (L : Layout) (a : Int) : oBool (pure (L.isPowerOfTwo a)) = L.isPowerOfTwoSpec a := by
  unfold isPowerOfTwo countOnesOp countOnes isPowerOfTwoSpec
  rw [countOnesNat_eq]
  have h := popcount_eq_one_iff L.n (toU_lt L.n a)
  have h' := isPow2_iff L.n (toU L.n a)
  have : (popcount (toU L.n a) L.n == 1) = isPow2 L.n (toU L.n a) := by
    by_cases hp : popcount (toU L.n a) L.n = 1
    · rw [h'.2 (h.1 hp)]; simp [hp]
    · have : ¬ isPow2 L.n (toU L.n a) = true := fun hh => hp (h.2 (h'.1 hh))
      simp [hp, this]
  rw [this]; rfl

/-- the search of the specification finds `2^b` when `b` is the least exponent (from `k` on) with `u ≤ 2^b` -/
theorem leastPow2From_eq {u b : Nat} (hb : u ≤ 2 ^ b) (fuel k : Nat) (hmin : ∀ j, k ≤ j → j < b → 2 ^ j < u)
    (hk : k ≤ b) (hf : b ≤ k + fuel) : leastPow2From u k fuel = 2 ^ b := by
  induction fuel generalizing k with
  | zero =>
    have : k = b := by omega
    subst this; rfl
  | succ f ih =>
    rw [leastPow2From]
    by_cases h : u ≤ 2 ^ k
    · rw [if_pos h]
      by_cases hkb : k = b
      · rw [hkb]
      · have := hmin k (Nat.le_refl k) (by omega); omega
    · rw [if_neg h]
      have hkb : k ≠ b := fun e => h (e ▸ hb)
      exact ih (k + 1) (fun j hj hjb => hmin j (by omega) hjb) (by omega) (by omega)

theorem bitLen_bounds {v : Nat} (hv : v ≠ 0) : 2 ^ (bitLen v - 1) ≤ v ∧ v < 2 ^ bitLen v := by
  unfold bitLen
  rw [if_neg hv]
  exact ⟨by simpa using Nat.log2_self_le hv, Nat.lt_log2_self⟩

/-- least power of two `≥ u` for `2 ≤ u`: the exponent is the bit length of `u - 1` -/
theorem leastPow2_of_ge_two {n u : Nat} (hu : u < 2 ^ n) (h2 : 2 ≤ u) : leastPow2 n u = 2 ^ bitLen (u - 1) := by
  have hv : u - 1 ≠ 0 := by omega
  obtain ⟨hlo, hhi⟩ := bitLen_bounds hv
  have hbn : bitLen (u - 1) ≤ n := bitLen_le (by omega)
  have hb1 : 1 ≤ bitLen (u - 1) := by
    unfold bitLen; rw [if_neg hv]; omega
  unfold leastPow2
  apply leastPow2From_eq (by omega) n 0
  · intro j _ hj
    have : 2 ^ j ≤ 2 ^ (bitLen (u - 1) - 1) := Nat.pow_le_pow_right (by decide) (by omega)
    omega
  · omega
  · omega

theorem leastPow2_of_le_one {n u : Nat} (h : u ≤ 1) : leastPow2 n u = 1 := by
  unfold leastPow2
  cases n with
  | zero => rfl
  | succ n => rw [leastPow2From, if_pos (by simpa using h)]

/-- `MAX >> (n - b) = 2^b - 1` -/
theorem ones_shr {n b : Nat} (hb : b ≤ n) : shrI (maxI false n) (n - b) = 2 ^ b - 1 := by
  unfold shrI maxI
  simp only [Bool.false_eq_true, if_false]
  have hP := two_pow_pos (n - b)
  have e : (2 : Int) ^ n = 2 ^ b * 2 ^ (n - b) := by
    rw [← pow_add']; congr 1; omega
  have : (2 : Int) ^ n - 1 = (2 ^ (n - b) - 1) + (2 ^ b - 1) * 2 ^ (n - b) := by
    rw [Int.sub_mul, ← e]; omega
  rw [this, Int.add_mul_ediv_right _ _ (Int.ne_of_gt hP), Int.ediv_eq_zero_of_lt (by omega) (by omega)]
  omega

/-- `one_less_than_next_power_of_two + 1` of `core::num` is the least power of two `≥ self` -/
theorem oneLess_succ {n : Nat} {x : Int} (hx : inI false n x) :
    oneLessThanNextPow2 n x + 1 = ((leastPow2 n (toU n x) : Nat) : Int) := by
  rw [inU_iff] at hx
  have hc := natCast_two_pow n
  have hu : toU n x = x.toNat := toU_nonneg hx.1 hx.2
  unfold oneLessThanNextPow2
  by_cases h1 : x ≤ 1
  · rw [if_pos h1, leastPow2_of_le_one (by rw [hu]; omega)]; rfl
  · rw [if_neg h1]
    have hx1 : inI false n (x - 1) := by rw [inU_iff]; omega
    have hu1 : toU n (x - 1) = toU n x - 1 := by
      rw [toU_nonneg (by omega) (by omega), hu]; omega
    have hlt : toU n x < 2 ^ n := toU_lt n x
    have hbn : bitLen (toU n x - 1) ≤ n := bitLen_le (by omega)
    unfold Sfx.leadingZeros
    rw [hu1, ones_shr hbn, leastPow2_of_ge_two hlt (by rw [hu]; omega), natCast_two_pow]
    omega

theorem leastPow2_le {n u : Nat} (hu : u < 2 ^ n) : leastPow2 n u ≤ 2 ^ n := by
  by_cases h : u ≤ 1
  · rw [leastPow2_of_le_one h]; exact Nat.two_pow_pos n
  · rw [leastPow2_of_ge_two hu (by omega)]
    exact Nat.pow_le_pow_right (by decide) (bitLen_le (by omega))

theorem nextPowerOfTwo_spec (L : Layout) (hs : L.signed = false) (a : Int) (ha : inRange L a) :
    oInt (L.nextPowerOfTwo a) = L.nextPowerOfTwoSpec a := by
  unfold inRange at ha; rw [hs] at ha
  have hle := leastPow2_le (toU_lt L.n a)
  have hc := natCast_two_pow L.n
  unfold nextPowerOfTwo uadd nextPowerOfTwoSpec
  rw [oneLess_succ ha]
  simp only []
  by_cases h : leastPow2 L.n (toU L.n a) < 2 ^ L.n
  · have hin : inI false L.n ((leastPow2 L.n (toU L.n a) : Nat) : Int) := by rw [inU_iff]; omega
    rw [if_pos h, wrapI_of_in (by
      cases hn : L.n with
      | zero => rw [hn] at h; have := Nat.two_pow_pos 0; simp [leastPow2, leastPow2From] at h
      | succ k => omega) hin]
    simp [hin, oInt, Outcome.map']
  · have e : leastPow2 L.n (toU L.n a) = 2 ^ L.n := by omega
    rw [if_neg h, e, hc]
    have hnot : ¬ inI false L.n ((2 : Int) ^ L.n) := by rw [inU_iff]; omega
    have hw : wrapI false L.n ((2 : Int) ^ L.n) = 0 := by
      unfold wrapI wrapU; simp
    simp [hnot, hw, oInt, Outcome.map']

theorem checkedNextPowerOfTwo_spec (L : Layout) (hs : L.signed = false) (a : Int) (ha : inRange L a) :
    oOpt (L.checkedNextPowerOfTwo a) = L.checkedNextPowerOfTwoSpec a := by
  unfold inRange at ha; rw [hs] at ha
  have hle := leastPow2_le (toU_lt L.n a)
  have hc := natCast_two_pow L.n
  unfold checkedNextPowerOfTwo checkedNextPowerOfTwoSpec chkI
  rw [oneLess_succ ha]
  simp only []
  by_cases h : leastPow2 L.n (toU L.n a) < 2 ^ L.n
  · have hin : inI false L.n ((leastPow2 L.n (toU L.n a) : Nat) : Int) := by rw [inU_iff]; omega
    rw [if_pos h, if_pos hin]; rfl
  · have hnot : ¬ inI false L.n ((leastPow2 L.n (toU L.n a) : Nat) : Int) := by rw [inU_iff]; omega
    rw [if_neg h, if_neg hnot]; rfl

/-- the specification's search result is a power of two, is `≥ u`, and no smaller power of two is -/
theorem leastPow2_least {n u : Nat} (hu : u < 2 ^ n) :
    ∃ b, leastPow2 n u = 2 ^ b ∧ u ≤ 2 ^ b ∧ ∀ j, u ≤ 2 ^ j → b ≤ j := by
  by_cases h : u ≤ 1
  · exact ⟨0, leastPow2_of_le_one h, by simpa using h, fun j _ => Nat.zero_le j⟩
  · have hv : u - 1 ≠ 0 := by omega
    obtain ⟨hlo, hhi⟩ := bitLen_bounds hv
    refine ⟨bitLen (u - 1), leastPow2_of_ge_two hu (by omega), by omega, ?_⟩
    intro j hj
    apply Classical.byContradiction
    intro hlt
    have : 2 ^ j ≤ 2 ^ (bitLen (u - 1) - 1) := Nat.pow_le_pow_right (by decide) (by omega)
    omega

/-- the `Wrapping<F>` model's `next_power_of_two` (`Layout.nextPow2` of `Wrapping.lean`, i.e.
`checked_next_power_of_two().unwrap_or_default()`) is what this one returns without overflow checks -/
theorem nextPowerOfTwo_eq_wrapping (L : Layout) (hs : L.signed = false) (hn : 0 < L.n) (a : Int) (ha : inRange L a) :
    (L.nextPowerOfTwo a).rel = some (L.nextPow2 a) := by
  have ha' : inI false L.n a := by unfold inRange at ha; rwa [hs] at ha
  have hx := (inU_iff _ _).1 ha'
  have hu : toU L.n a = a.toNat := toU_nonneg hx.1 hx.2
  have hle := leastPow2_le (toU_lt L.n a)
  have hc := natCast_two_pow L.n
  have hp : (if a ≤ 1 then (1 : Int) else 2 ^ bitLen (a - 1).toNat) = ((leastPow2 L.n (toU L.n a) : Nat) : Int) := by
    by_cases h1 : a ≤ 1
    · rw [if_pos h1, leastPow2_of_le_one (by rw [hu]; omega)]; rfl
    · rw [if_neg h1, leastPow2_of_ge_two (toU_lt L.n a) (by rw [hu]; omega), natCast_two_pow, hu]
      have : (a - 1).toNat = a.toNat - 1 := by omega
      rw [this]
  unfold nextPowerOfTwo uadd nextPow2 Outcome.rel
  simp only []
  rw [oneLess_succ ha', hp]
  by_cases h : leastPow2 L.n (toU L.n a) < 2 ^ L.n
  · have hin : inI false L.n ((leastPow2 L.n (toU L.n a) : Nat) : Int) := by rw [inU_iff]; omega
    have hin' : inRange L ((leastPow2 L.n (toU L.n a) : Nat) : Int) := by unfold inRange; rw [hs]; exact hin
    rw [if_pos hin', wrapI_of_in hn hin]
  · have e : leastPow2 L.n (toU L.n a) = 2 ^ L.n := by omega
    have hnot : ¬ inRange L ((leastPow2 L.n (toU L.n a) : Nat) : Int) := by
      unfold inRange; rw [hs, inU_iff]; omega
    rw [if_neg hnot, e, hc]
    have hw : wrapI false L.n ((2 : Int) ^ L.n) = 0 := by
      unfold wrapI wrapU; simp
    rw [hw]

/-! ## 5. `signum`, sign tests, constants -/

theorem wrapS_pow_full {n : Nat} (hn : 0 < n) : wrapI true n (2 ^ n) = 0 := by
  have : (2 : Int) ^ n = 0 + 1 * 2 ^ n := by omega
  rw [this, wrapI_add_mul, wrapI_zero true hn]

theorem wrapS_neg_pow_full {n : Nat} (hn : 0 < n) : wrapI true n (-(2 ^ n)) = 0 := by
  have : -(2 : Int) ^ n = 0 + (-1) * 2 ^ n := by omega
  rw [this, wrapI_add_mul, wrapI_zero true hn]

theorem wrapS_pow_top {n : Nat} (hn : 0 < n) : wrapI true n (2 ^ (n - 1)) = -(2 ^ (n - 1)) := by
  have hp := pow_split hn
  have hP := two_pow_pos (n - 1)
  have : (2 : Int) ^ (n - 1) = -(2 ^ (n - 1)) + 1 * 2 ^ n := by omega
  have hin : inI true n (-(2 ^ (n - 1) : Int)) := by rw [inS_iff]; omega
  rw [wrapI_congr true n 1 this]
  exact wrapI_of_in hn hin

/-- `signum`: the conversion `from_num(±1)` of the source, through the proved conversion theorem `fromInt_spec`,
against the three documented cases (1.0 representable / one integer bit / no integer bit) -/
theorem signum_spec (L : Layout) (hv : L.valid) (hs : L.signed = true) (a : Int) :
    oInt (L.signum a) = L.signumSpec a := by
  have hn : 0 < L.n := ConvPf.valid_pos hv
  have hf : L.f ≤ L.n := hv.2
  have h32 : (32 : Nat) = 8 ∨ (32 : Nat) = 16 ∨ (32 : Nat) = 32 ∨ (32 : Nat) = 64 ∨ (32 : Nat) = 128 := by decide
  have hone : inI true 32 1 := by decide
  have hmone : inI true 32 (-1) := by decide
  have e1 := (ConvPf.fromInt_spec L hv true 32 h32 1 hone).2.2.2.2
  have e2 := (ConvPf.fromInt_spec L hv true 32 h32 (-1) hmone).2.2.2.2
  have hp := pow_split hn
  have hP := two_pow_pos (L.n - 1)
  have hPf := two_pow_pos L.f
  have hwrap : ∀ e, L.wrap e = wrapI true L.n e := fun e => by unfold Layout.wrap; rw [hs]
  have hrange : ∀ e, inRange L e ↔ inI true L.n e := fun e => by unfold inRange; rw [hs]
  have fin : ∀ {v w : Int} {d : Bool}, v = w → oInt (Outcome.ok v d) = Outcome.ok (Val.int w) d :=
    fun h => by rw [h]; rfl
  unfold signum signumSpec intBits
  by_cases h0 : a = 0
  · rw [if_pos h0, if_pos h0]; rfl
  · rw [if_neg h0, if_neg h0]
    by_cases hpos : 0 < a
    · rw [if_pos hpos, if_pos (show a > 0 from hpos), e1, Int.one_mul, hwrap]
      by_cases hi0 : L.n - L.f = 0
      · have hfn : L.f = L.n := by omega
        have hnot : ¬ inRange L ((2 : Int) ^ L.f) := by rw [hrange, hfn, inS_iff]; omega
        rw [if_pos hi0, decide_eq_false hnot]
        exact fin (by rw [hfn, wrapS_pow_full hn])
      · rw [if_neg hi0]
        by_cases hi1 : L.n - L.f = 1
        · have hfn : L.f = L.n - 1 := by omega
          have hnot : ¬ inRange L ((2 : Int) ^ L.f) := by rw [hrange, hfn, inS_iff]; omega
          rw [if_pos hi1, decide_eq_false hnot]
          exact fin (by rw [hfn, wrapS_pow_top hn])
        · have hlt : (2 : Int) ^ L.f < 2 ^ (L.n - 1) := pow_lt_pow (by omega)
          have hin' : inI true L.n ((2 : Int) ^ L.f) := by rw [inS_iff]; omega
          have hin : inRange L ((2 : Int) ^ L.f) := (hrange _).2 hin'
          rw [if_neg hi1, decide_eq_true hin]
          exact fin (wrapI_of_in hn hin')
    · have hneg : ¬ a > 0 := hpos
      rw [if_neg hpos, if_neg hneg, e2, Int.neg_mul, Int.one_mul, hwrap]
      by_cases hi0 : L.n - L.f = 0
      · have hfn : L.f = L.n := by omega
        have hnot : ¬ inRange L (-(2 : Int) ^ L.f) := by rw [hrange, hfn, inS_iff]; omega
        rw [if_pos hi0, decide_eq_false hnot]
        exact fin (by rw [hfn, wrapS_neg_pow_full hn])
      · have hle : (2 : Int) ^ L.f ≤ 2 ^ (L.n - 1) := pow_le_pow (by omega)
        have hin' : inI true L.n (-(2 : Int) ^ L.f) := by rw [inS_iff]; omega
        have hin : inRange L (-(2 : Int) ^ L.f) := (hrange _).2 hin'
        rw [if_neg hi0, decide_eq_true hin]
        exact fin (wrapI_of_in hn hin')

theorem isPositive_spec (L : Layout) (a : Int) : oBool (pure (L.isPositive a)) = L.isPositiveSpec a := rfl
theorem isNegative_spec (L : Layout) (a : Int) : oBool (pure (L.isNegative a)) = L.isNegativeSpec a := rfl
theorem intNbits_spec (L : Layout) : ExtBits.oNat (pure L.intNbits) = L.intNbitsSpec := rfl
theorem fracNbits_spec (L : Layout) : ExtBits.oNat (pure L.fracNbits) = L.fracNbitsSpec := rfl
theorem minValue_spec (L : Layout) : oInt (pure L.minValue) = L.minValueSpec := rfl
theorem maxValue_spec (L : Layout) : oInt (pure L.maxValue) = L.maxValueSpec := rfl
/-- the constants are the range ends the other theorems use -/
theorem minValue_eq (L : Layout) : L.minValue = L.min := rfl
theorem maxValue_eq (L : Layout) : L.maxValue = L.max := rfl
theorem intNbits_add_fracNbits (L : Layout) (hf : L.f ≤ L.n) : L.intNbits + L.fracNbits = L.n := by
  unfold intNbits fracNbits; omega

/-! ## 6. the deprecated remainder forms agree with the proved `%` (`remIntOp`, C07) and with the exact remainder -/

theorem wrappingRemInt_eq (L : Layout) (a k : Int) : L.wrappingRemInt a k = L.remIntOp a k := rfl

theorem overflowingRemInt_eq (L : Layout) (a k : Int) :
    L.overflowingRemInt a k = (L.remIntOp a k).map' (fun r => (r, false)) := by
  unfold overflowingRemInt
  show Outcome.bind _ _ = _
  cases L.remIntOp a k <;> simp [Outcome.bind, Outcome.map', pure]

theorem remIntForms_spec (L : Layout) (hn : 2 ≤ L.n) (hf : L.f ≤ L.n) (a k : Int)
    (ha : inRange L a) (hk : inRange L k) (hk0 : k ≠ 0) :
    L.wrappingRemInt a k = .ok (Int.tmod a (k * 2 ^ L.f)) false ∧
    L.overflowingRemInt a k = .ok (Int.tmod a (k * 2 ^ L.f), false) false ∧
    some (oInt (L.wrappingRemInt a k)) = Form.wrapping.spec L (Int.tmod a (k * 2 ^ L.f)) ∧
    some (oPair (L.overflowingRemInt a k)) = Form.overflowing.spec L (Int.tmod a (k * 2 ^ L.f)) := by
  have h := (remInt_spec L hn hf a k ha hk hk0).1
  have hin : inRange L (Int.tmod a (k * 2 ^ L.f)) := tmod_inI _ ha
  have hw : L.wrap (Int.tmod a (k * 2 ^ L.f)) = Int.tmod a (k * 2 ^ L.f) := wrapI_of_in (by omega) hin
  have h1 : L.wrappingRemInt a k = .ok (Int.tmod a (k * 2 ^ L.f)) false := h
  have h2 : L.overflowingRemInt a k = .ok (Int.tmod a (k * 2 ^ L.f), false) false := by
    rw [overflowingRemInt_eq, h]; rfl
  refine ⟨h1, h2, ?_, ?_⟩
  · rw [h1]; unfold Form.spec; rw [hw]; rfl
  · rw [h2]; unfold Form.spec; rw [hw]; simp [hin, oPair, Outcome.map']

/-- zero divisor: the documented panic, in every profile -/
theorem remIntForms_zero (L : Layout) (hn : 2 ≤ L.n) (hf : L.f ≤ L.n) (a : Int) (ha : inRange L a) :
    L.wrappingRemInt a 0 = .panic ∧ L.overflowingRemInt a 0 = .panic ∧
    some (oInt (L.wrappingRemInt a 0)) = Form.wrapping.specDivZero ∧
    some (oPair (L.overflowingRemInt a 0)) = Form.overflowing.specDivZero := by
  have h := (int_zero L hn hf a ha).2.1
  have h1 : L.wrappingRemInt a 0 = .panic := h
  have h2 : L.overflowingRemInt a 0 = .panic := by rw [overflowingRemInt_eq, h]; rfl
  refine ⟨h1, h2, ?_, ?_⟩
  · rw [h1]; rfl
  · rw [h2]; rfl

/-! ## 7. the rows of the driver: `ExtBits.model` row = `ExtBits.spec` row -/

/-- rows with a `u32` amount (`k.toNat` of the request's amount; the driver only admits `0 ≤ k < 2^32`) -/
theorem rows_amount (L : Layout) (hn : 0 < L.n) (x : Int) (hx : inRange L x) (k : Int) (hk : 0 ≤ k) :
    oInt (L.shlU32Op x k.toNat) = L.shlAnySpec x k ∧
    oInt (L.shrU32Op x k.toNat) = L.shrAnySpec x k ∧
    oOpt (L.checkedShl x k.toNat) = L.checkedShlSpec x k.toNat ∧
    oOpt (L.checkedShr x k.toNat) = L.checkedShrSpec x k.toNat ∧
    oInt (L.wrappingShl x k.toNat) = L.wrappingShlSpec x k.toNat ∧
    oInt (L.wrappingShr x k.toNat) = L.wrappingShrSpec x k.toNat ∧
    oPair (L.overflowingShl x k.toNat) = L.overflowingShlSpec x k.toNat ∧
    oPair (L.overflowingShr x k.toNat) = L.overflowingShrSpec x k.toNat ∧
    oInt (pure (L.rotateLeft x k.toNat)) = L.rotateLeftSpec x k.toNat ∧
    oInt (pure (L.rotateRight x k.toNat)) = L.rotateRightSpec x k.toNat := by
  have e : ((k.toNat : Nat) : Int) = k := Int.toNat_of_nonneg hk
  refine ⟨?_, ?_, checkedShl_spec L hn x _, checkedShr_spec L hn x hx _, wrappingShl_spec L hn x _,
    wrappingShr_spec L hn x hx _, overflowingShl_spec L hn x _, overflowingShr_spec L hn x hx _,
    rotateLeft_spec L hn x _, rotateRight_spec L hn x _⟩
  · rw [shlOp_spec L hn, e]
  · rw [shrOp_spec L hn x hx, e]

/-- rows `shl_<T>` / `shr_<T>`: any amount -/
theorem rows_amount_any (L : Layout) (hn : 0 < L.n) (x : Int) (hx : inRange L x) (m : Int) :
    oInt (L.shlAny x m) = L.shlAnySpec x m ∧ oInt (L.shrAny x m) = L.shrAnySpec x m :=
  ⟨shlAny_spec L hn x m, shrAny_spec L hn x hx m⟩

/-- one-operand rows on every type -/
theorem rows_unary (L : Layout) (x : Int) :
    ExtBits.oNat (pure (L.countOnesOp x)) = L.countOnesSpec x ∧
    ExtBits.oNat (pure (L.countZerosOp x)) = L.countZerosSpec x ∧
    ExtBits.oNat (pure (L.leadingZerosOp x)) = L.leadingZerosSpec x ∧
    ExtBits.oNat (pure (L.trailingZerosOp x)) = L.trailingZerosSpec x :=
  ⟨countOnes_spec L x, countZeros_spec L x, leadingZeros_spec L x, trailingZeros_spec L x⟩

/-- signed-only rows -/
theorem rows_signed (L : Layout) (hv : L.valid) (hs : L.signed = true) (x : Int) :
    oInt (L.signum x) = L.signumSpec x ∧
    oBool (pure (L.isPositive x)) = L.isPositiveSpec x ∧
    oBool (pure (L.isNegative x)) = L.isNegativeSpec x :=
  ⟨signum_spec L hv hs x, rfl, rfl⟩

/-- unsigned-only rows -/
theorem rows_unsigned (L : Layout) (hs : L.signed = false) (x : Int) (hx : inRange L x) :
    oBool (pure (L.isPowerOfTwo x)) = L.isPowerOfTwoSpec x ∧
    oInt (L.nextPowerOfTwo x) = L.nextPowerOfTwoSpec x ∧
    oOpt (L.checkedNextPowerOfTwo x) = L.checkedNextPowerOfTwoSpec x :=
  ⟨isPowerOfTwo_spec L x, nextPowerOfTwo_spec L hs x hx, checkedNextPowerOfTwo_spec L hs x hx⟩

/-- constant rows -/
theorem rows_const (L : Layout) :
    ExtBits.oNat (pure L.intNbits) = L.intNbitsSpec ∧ ExtBits.oNat (pure L.fracNbits) = L.fracNbitsSpec ∧
    oInt (pure L.minValue) = L.minValueSpec ∧ oInt (pure L.maxValue) = L.maxValueSpec :=
  ⟨rfl, rfl, rfl, rfl⟩

/-- remainder rows (both branches of the driver's `if k = 0`) -/
theorem rows_rem (L : Layout) (hn : 2 ≤ L.n) (hf : L.f ≤ L.n) (x k : Int) (hx : inRange L x) (hk : inRange L k) :
    some (oInt (L.wrappingRemInt x k)) =
      (if k = 0 then Form.wrapping.specDivZero else Form.wrapping.spec L (Int.tmod x (k * 2 ^ L.f))) ∧
    some (oPair (L.overflowingRemInt x k)) =
      (if k = 0 then Form.overflowing.specDivZero else Form.overflowing.spec L (Int.tmod x (k * 2 ^ L.f))) := by
  by_cases h0 : k = 0
  · subst h0
    have h := remIntForms_zero L hn hf x hx
    rw [if_pos rfl, if_pos rfl]; exact ⟨h.2.2.1, h.2.2.2⟩
  · have h := remIntForms_spec L hn hf x k hx hk h0
    rw [if_neg h0, if_neg h0]; exact ⟨h.2.2.1, h.2.2.2⟩

/-! ### consequences for the build profiles -/

/-- only `<<`, `>>` (amount out of range), `next_power_of_two` (overflow) and `signum` (±1 not representable) can differ
between the profiles; for the operators exactly when the amount is not in `0 … n-1` -/
theorem shlAny_flag (L : Layout) (x m : Int) :
    L.shlAny x m = .ok (shlI L.signed L.n x (m % (L.n : Int)).toNat) (!decide (0 ≤ m ∧ m < (L.n : Int))) := by
  unfold shlAny; rw [amount_flag]
theorem shrAny_flag (L : Layout) (x m : Int) :
    L.shrAny x m = .ok (shrI x (m % (L.n : Int)).toNat) (!decide (0 ≤ m ∧ m < (L.n : Int))) := by
  unfold shrAny; rw [amount_flag]

/-- `next_power_of_two` panics under checks exactly when the least power of two `≥ x` is `2^n`, i.e. `x > 2^(n-1)` -/
theorem nextPowerOfTwo_dbg_iff (L : Layout) (hs : L.signed = false) (hn : 0 < L.n) (x : Int) (hx : inRange L x) :
    (∃ v, L.nextPowerOfTwo x = .ok v true) ↔ 2 ^ (L.n - 1) < x := by
  have hx' : inI false L.n x := by unfold inRange at hx; rwa [hs] at hx
  have hxr := (inU_iff _ _).1 hx'
  have hc := natCast_two_pow L.n
  have hc1 := natCast_two_pow (L.n - 1)
  have hu : toU L.n x = x.toNat := toU_nonneg hxr.1 hxr.2
  have hlt := toU_lt L.n x
  have hle := leastPow2_le hlt
  obtain ⟨b, hb, hge, hmin⟩ := leastPow2_least hlt
  have hpn : 2 ^ L.n = 2 * 2 ^ (L.n - 1) := by
    have : L.n = (L.n - 1) + 1 := by omega
    rw [this, Nat.pow_succ]; simp; omega
  have key : leastPow2 L.n (toU L.n x) < 2 ^ L.n ↔ toU L.n x ≤ 2 ^ (L.n - 1) := by
    constructor
    · intro h
      rw [hb] at h
      have hbn : b < L.n := (Nat.pow_lt_pow_iff_right (by decide)).1 h
      have : 2 ^ b ≤ 2 ^ (L.n - 1) := Nat.pow_le_pow_right (by decide) (by omega)
      omega
    · intro h
      have := hmin (L.n - 1) h
      rw [hb]
      exact Nat.pow_lt_pow_right (by decide) (by omega)
  unfold nextPowerOfTwo uadd
  rw [oneLess_succ hx']
  constructor
  · rintro ⟨v, h⟩
    injection h with _ h2
    have hnot : ¬ inI false L.n ((leastPow2 L.n (toU L.n x) : Nat) : Int) := by simpa using h2
    rw [inU_iff] at hnot
    have : ¬ leastPow2 L.n (toU L.n x) < 2 ^ L.n := fun h => hnot ⟨by omega, by omega⟩
    rw [key] at this
    omega
  · intro h
    have h' : ¬ toU L.n x ≤ 2 ^ (L.n - 1) := by omega
    rw [← key] at h'
    have hnot : ¬ inI false L.n ((leastPow2 L.n (toU L.n x) : Nat) : Int) := by rw [inU_iff]; omega
    exact ⟨wrapI false L.n ((leastPow2 L.n (toU L.n x) : Nat) : Int), by simp [hnot]⟩

end Sfx.ExtBitsPf

open Sfx.ExtBitsPf in
#print axioms shlI_eq_spec
open Sfx.ExtBitsPf in
#print axioms shrI_eq_spec
open Sfx.ExtBitsPf in
#print axioms rows_amount
open Sfx.ExtBitsPf in
#print axioms rows_amount_any
open Sfx.ExtBitsPf in
#print axioms rows_unary
open Sfx.ExtBitsPf in
#print axioms rows_signed
open Sfx.ExtBitsPf in
#print axioms rows_unsigned
open Sfx.ExtBitsPf in
#print axioms rows_const
open Sfx.ExtBitsPf in
#print axioms rows_rem
open Sfx.ExtBitsPf in
#print axioms remIntForms_spec
open Sfx.ExtBitsPf in
#print axioms remIntForms_zero
open Sfx.ExtBitsPf in
#print axioms nextPowerOfTwo_eq_wrapping
open Sfx.ExtBitsPf in
#print axioms leastPow2_least
open Sfx.ExtBitsPf in
#print axioms popcount_eq_one_iff
open Sfx.ExtBitsPf in
#print axioms testBit_ofBits
open Sfx.ExtBitsPf in
#print axioms decode_toU
open Sfx.ExtBitsPf in
#print axioms nextPowerOfTwo_dbg_iff
open Sfx.ExtBitsPf in
#print axioms signum_spec
