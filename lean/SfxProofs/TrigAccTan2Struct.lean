import SfxProofs.TrigAccTan2Real
/-
  TrigAccTan2Struct.lean — STRUCTURED accuracy of `sin`/`cos`: the result is `ρ·sin (x + Δ) + v` with `ρ = gain·K ∈ [1, 1 + 2^-32]`,
  an ANGLE error `Δ` (range reduction, table flooring, residual angle) and a VECTOR error `v` (truncated shifts, start value):
      `|Δ| ≤ 18.55 ulp₂₃ + etaMax D`,   `etaMax D = 24(2^-f + 2^-53) + e₂₃ + 24·2^-f`,   `|v| ≤ cv · 2^-f`.
  `TailS D cv` is the statement for the CORDIC part; `tailS_A` proves it with `cv = 37.03` from the norm invariant `RI`
  (`TrigAccTan2Back.lean` improves the coefficient by bounding the `y` component only).  `tan_div` isolates the truncating division.
  No `^` on `Int` is written in this file.
-/
namespace Sfx.TrigAccPf
open Sfx.TrigPf Real

/-- the angle error of the CORDIC part: `|α − z₀| ≤ etaMax` -/
noncomputable def etaMax (D : Layout) : ℝ := 24 * (1 / sc D + 1 / 2 ^ 53) + (tauR 24 + 24 * (1 / sc D))

/-- the range-reduction angle error, in units of `2^-23` -/
noncomputable def rrErr : ℝ := (32 * (54 / 100) + 127 / 100) / 8388608

/-- structured accuracy of the CORDIC part with vector-error coefficient `cv` -/
def TailS (D : Layout) (cv : ℝ) : Prop :=
  ∀ a2 : Int, -H D ≤ a2 → a2 ≤ H D → ∃ α v : ℝ,
    ((tailPure D a2 : Int) : ℝ) / sc D = gR * Kp 24 * sin α + v ∧ |v| ≤ cv / sc D ∧ |α - (a2 : ℝ) / sc D| ≤ etaMax D

theorem TailS.mono {D : Layout} {c c' : ℝ} (h : TailS D c) (hc : c ≤ c') : TailS D c' := by
  intro a2 h1 h2
  obtain ⟨α, v, e, hv, hα⟩ := h a2 h1 h2
  exact ⟨α, v, e, le_trans hv (div_le_div_of_nonneg_right hc (sc_pos D).le), hα⟩

/-- from the norm invariant: `cv = 37.03` -/
theorem tailS_A {D : Layout} (hD : Ok D) : TailS D (3703 / 100) := by
  intro a2 h1 h2
  obtain ⟨X, Z, hq⟩ := QI_end hD a2 h1 h2
  obtain ⟨α, g1, g2, g3⟩ := hq
  have hs := sc_pos D
  refine ⟨α, ((tailPure D a2 : Int) : ℝ) / sc D - gR * Kp 24 * sin α, by ring, ?_, ?_⟩
  · have := Complex.abs_im_le_norm ((⟨(X : ℝ) / sc D, ((tailPure D a2 : Int) : ℝ) / sc D⟩ : ℂ) -
      ⟨gR * Kp 24 * cos α, gR * Kp 24 * sin α⟩)
    simp only [Complex.sub_im] at this
    refine le_trans (le_trans this g1) ?_
    have k1 := Kp24_le
    have hu0 : 0 ≤ 1 / sc D := by positivity
    have : Kp 24 * ((1 + 895 / 1000 * ((24 : ℕ) : ℝ)) * (1 / sc D)) ≤ 16468 / 10000 * ((1 + 895 / 1000 * 24) * (1 / sc D)) := by
      push_cast
      apply mul_le_mul_of_nonneg_right k1
      positivity
    refine le_trans this ?_
    rw [div_eq_mul_one_div (3703 / 100 : ℝ)]
    nlinarith
  · have : α - (a2 : ℝ) / sc D = ((Z : ℝ) / sc D - ((a2 : ℝ) / sc D - α)) - (Z : ℝ) / sc D := by ring
    rw [this]
    refine le_trans (abs_sub _ _) ?_
    unfold etaMax
    push_cast at g2 g3
    linarith

/-- structured accuracy of `sin` for `|a / 2^f| ≤ 202` -/
theorem sinS {D : Layout} (hD : Ok D) {cv : ℝ} (hT : TailS D cv) (a : Int) (ha : inRange D a) (hb : |(a : ℝ) / sc D| ≤ 202) :
    ∃ Δ v : ℝ, ((sinPure D a : Int) : ℝ) / sc D = gR * Kp 24 * sin ((a : ℝ) / sc D + Δ) + v ∧ |v| ≤ cv / sc D ∧
      |Δ| ≤ rrErr + etaMax D := by
  obtain ⟨q, a1, a2, d, e1, e2, _, hq, l1, l2, _, _, hm, m1, m2, _⟩ := sin_reduce hD a ha
  have hs := sc_pos D
  have hW := W_posR D
  have hsW := sc_W hD
  have hsp : sinPure D a = tailPure D a2 := by unfold sinPure; rw [← e1, ← e2]
  rw [hsp]
  have hTT : ((T D : Int) : ℝ) / sc D = T23 := by
    rw [T_eq, hsW]; push_cast; unfold T23; exact ratio _ _ hW
  have hH : ((H D : Int) : ℝ) / sc D = H23 := by
    rw [H_eq, hsW]; push_cast; unfold H23; exact ratio _ _ hW
  have x1eq : (a1 : ℝ) / sc D = (a : ℝ) / sc D + q * T23 := by
    rw [hq, ← hTT]; push_cast; field_simp
  have x1b : |(a1 : ℝ) / sc D| ≤ 26353589 / 8388608 := by
    refine abs_div_le_of a1 (P D) (sc D) _ hs l1 l2 ?_
    rw [P_eq, hsW]; push_cast; ring
  have hqb := q_bound _ _ q hb x1b x1eq
  have x2eq : (a2 : ℝ) / sc D = (a1 : ℝ) / sc D ∨ (a2 : ℝ) / sc D = 2 * H23 - (a1 : ℝ) / sc D ∨
      (a2 : ℝ) / sc D = -(2 * H23) - (a1 : ℝ) / sc D := by
    rcases hm with h | h | h
    · left; rw [h]
    · right; left; rw [h, ← hH]; push_cast; field_simp; ring
    · right; right; rw [h, ← hH]; push_cast; field_simp; ring
  obtain ⟨α, v, e, hv, hα⟩ := hT a2 m1 m2
  obtain ⟨Δ, hΔ1, hΔ2⟩ := reduce_struct ((a : ℝ) / sc D) _ _ α q hqb x1eq x2eq
  refine ⟨Δ, v, by rw [e, hΔ1], hv, ?_⟩
  unfold rrErr
  linarith

/-- structured accuracy of the inner call of `cos` for `|a / 2^f| ≤ 200` -/
theorem cosS {D : Layout} (hD : Ok D) {cv : ℝ} (hT : TailS D cv) (a : Int) (hb : |(a : ℝ) / sc D| ≤ 200) :
    ∃ Δ v : ℝ, ((sinPure D (a + H D) : Int) : ℝ) / sc D = gR * Kp 24 * cos ((a : ℝ) / sc D + Δ) + v ∧ |v| ≤ cv / sc D ∧
      |Δ| ≤ rrErr + (127 / 200) / 8388608 + etaMax D := by
  have hs := sc_pos D
  have hW := W_posR D
  have hsW := sc_W hD
  obtain ⟨i1, i2⟩ := int_bounds (D := D) a 200 (by push_cast; exact hb)
  obtain ⟨j1, j2, hr⟩ := shift_bounds hD a i1 i2
  have hH : ((H D : Int) : ℝ) / sc D = H23 := by
    rw [H_eq, hsW]; push_cast; unfold H23; exact ratio _ _ hW
  have hb2 : |((a + H D : Int) : ℝ) / sc D| ≤ 202 := by
    refine abs_div_le_of (a + H D) (202 * p2 D.f) (sc D) 202 hs j1 j2 ?_
    push_cast; rw [p2_cast]; rfl
  obtain ⟨Δ, v, e, hv, hΔ⟩ := sinS hD hT (a + H D) hr hb2
  have xe : ((a + H D : Int) : ℝ) / sc D = (a : ℝ) / sc D + H23 := by
    rw [← hH]; push_cast; field_simp
  have hh := half_pi_23
  refine ⟨Δ + (H23 - π / 2), v, ?_, hv, ?_⟩
  · rw [e, xe, ← cos_sub_pi_div_two]
    congr 3; ring
  · refine le_trans (abs_add_le _ _) ?_
    have : |H23 - π / 2| ≤ (127 / 200) / 8388608 := by
      have e : H23 - π / 2 = (2 * H23 - π) / 2 := by ring
      rw [e, abs_div, abs_two]; unfold H23; linarith
    linarith

/-- the truncating division of `tan` in isolation: with `S`, `C` the two inner results on the unit scale and `0 < 1 + C`, the
quotient `q` is within one ulp of `S / (1 + C)`, and the call returns `q` with no check firing as soon as `q` is representable -/
theorem tan_div {D : Layout} (hD : Ok D) (a : Int) (hb : |(a : ℝ) / sc D| ≤ 100)
    (hpos : 0 < 1 + ((sinPure D (2 * a + H D) : Int) : ℝ) / sc D) :
    ∃ q : Int, |(q : ℝ) / sc D - ((sinPure D (2 * a) : Int) : ℝ) / sc D / (1 + ((sinPure D (2 * a + H D) : Int) : ℝ) / sc D)| ≤
        1 / sc D ∧
      (inRange D q → ∃ it, it ≤ 50 ∧ Trans.run (Trans.tan D a) = .ok (some q, it) false) := by
  have hs := sc_pos D
  obtain ⟨i1, i2⟩ := int_bounds (D := D) a 100 (by push_cast; exact hb)
  obtain ⟨hr2, hrh, hrun⟩ := tan_shape hD a i1 i2
  generalize sinPure D (2 * a + H D) = c at *
  generalize sinPure D (2 * a) = s at *
  have hsc : sc D = ((p2 D.f : Int) : ℝ) := (p2_cast D.f).symm
  have hdenR : ((p2 D.f + c : Int) : ℝ) = sc D * (1 + (c : ℝ) / sc D) := by
    push_cast; rw [← hsc]; field_simp
  have hdenpos : 0 < p2 D.f + c := by
    have : (0 : ℝ) < ((p2 D.f + c : Int) : ℝ) := by rw [hdenR]; positivity
    exact_mod_cast this
  obtain ⟨r0, hdiv, hr1, hr2'⟩ := divSpec_cases D.f s (p2 D.f + c) hdenpos
  generalize divSpec D.f s (p2 D.f + c) = q at *
  refine ⟨q, ?_, fun hin => hrun hdenpos hin⟩
  have hdivR : (s : ℝ) * sc D = ((p2 D.f + c : Int) : ℝ) * (q : ℝ) + (r0 : ℝ) := by
    rw [hsc]; exact_mod_cast hdiv
  have hdpos : (0 : ℝ) < ((p2 D.f + c : Int) : ℝ) := by exact_mod_cast hdenpos
  have hr1R : -((p2 D.f + c : Int) : ℝ) < (r0 : ℝ) := by exact_mod_cast hr1
  have hr2R : (r0 : ℝ) < ((p2 D.f + c : Int) : ℝ) := by exact_mod_cast hr2'
  have hqq : (q : ℝ) / sc D = (s : ℝ) / sc D / (1 + (c : ℝ) / sc D) - (r0 : ℝ) / ((p2 D.f + c : Int) : ℝ) / sc D := by
    have : (q : ℝ) = ((s : ℝ) * sc D - (r0 : ℝ)) / ((p2 D.f + c : Int) : ℝ) := by
      rw [hdivR]; field_simp; ring
    rw [this, hdenR]; field_simp
  have hrem : |(r0 : ℝ) / ((p2 D.f + c : Int) : ℝ) / sc D| ≤ 1 / sc D := by
    rw [abs_div, abs_of_pos hs]
    apply div_le_div_of_nonneg_right _ hs.le
    rw [abs_div, abs_of_pos hdpos, div_le_one hdpos, abs_le]
    constructor <;> linarith
  rw [hqq, sub_sub_cancel_left, abs_neg]
  exact hrem

end Sfx.TrigAccPf
