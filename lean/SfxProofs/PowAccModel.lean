import SfxProofs.ExpAccModel
import SfxProofs.Log
/-
  PowAccModel.lean — every `Ok` result of the model `Trans.pow D D` on a positive base is one of the two exact early returns or the
  integer trace `ExpSpec` (`ExpAccDefs.lean`) of `exp` applied to `z = ⌊ln(x) · y / 2^f⌋`, where `ln(x)` is the result of the
  model's `Trans.ln D D x`.  `Monoid.toNPow` is erased so that `2 ^ k` is core's `Int.pow`, as in `Exp.lean`.
-/
attribute [-instance] Monoid.toNPow

namespace Sfx.PowAccPf
open Sfx.Trans Sfx.SqrtPf Sfx.ExpPf Sfx.ExpAccPf

/-- `ExpAccPf.exp_acc` at an arbitrary value of the iteration counter -/
theorem exp_acc_at (D : Layout) (hv : D.valid) (hs : D.signed = true) (hf : 23 ≤ D.f) (hint : 9 ≤ D.intBits)
    (x : Int) (hx : inRange D x) (n0 : Nat) (r : Int) (it : Nat) (dbg : Bool)
    (h : Trans.exp D D x n0 = .ok (some r, it) dbg) : ExpSpec D.f x r := by
  have hc := facts D hv hs hf hint
  have cf := TransFacts.convFacts D hv (by rw [hs]; simp; omega)
  have hP := two_pow_pos D.f
  rw [exp_eq, cf.eq0 x hx, cf.eq1 x hx, cf.lt0 x hx] at h
  unfold ExpSpec
  rw [pow2_eq, pow2_eq]
  by_cases h0 : x = 0
  · rw [if_pos (by simp [h0]), hc.one] at h
    replace h : (Outcome.ok (some (2 ^ D.f), n0) false : Outcome (Option Int × Nat)) = .ok (some r, it) dbg := h
    exact Or.inl ⟨h0, (ok_some_inj h).symm⟩
  · rw [if_neg (by simp [h0])] at h
    by_cases h1 : x = 2 ^ D.f
    · rw [if_pos (by simp [h1]), from_E D hv hs hf hint] at h
      replace h : (Outcome.ok (some (22802600 * 2 ^ (D.f - 23)), n0) false : Outcome (Option Int × Nat)) =
          .ok (some r, it) dbg := h
      exact Or.inr (Or.inl ⟨h1, (ok_some_inj h).symm⟩)
    · rw [if_neg (by simp [h1])] at h
      by_cases hneg : x < 0
      · rw [if_pos (by simp [hneg]), checkedNeg_eq] at h
        by_cases hE : inRange D (-x)
        · rw [chk_in D hE, liftOpt_some_bind, fromS_self, liftO_bind] at h
          have := expBody_acc D hc (decide (x < 0)) (-x) hE (by omega) n0 r it dbg h
          rw [if_pos (by simp [hneg])] at this
          exact Or.inr (Or.inr (Or.inr ⟨hneg, this⟩))
        · rw [chk_out D hE, liftOpt_none_bind] at h
          exact (ok_none_ne h).elim
      · rw [if_neg (by simp [hneg]), pure_bind', fromS_self, liftO_bind] at h
        have := expBody_acc D hc (decide (x < 0)) x hx (by omega) n0 r it dbg h
        rw [if_neg (by simp [hneg])] at this
        exact Or.inr (Or.inr (Or.inl ⟨by omega, this⟩))

/-- `overflowing_from_fixed::<D, D>` is the identity on in-range values -/
theorem ovf_self (D : Layout) (hv : D.valid) (v : Int) (hvr : inRange D v) :
    Layout.overflowingFromFixed D D v = (v, false) := by
  have hP := two_pow_pos D.f
  rw [ConvPf.overflowingFromFixed_spec D D hv hv v hvr]
  have e : Layout.convExact D D v = v := by
    unfold Layout.convExact
    exact Int.mul_ediv_cancel v (Int.ne_of_gt hP)
  rw [e]
  unfold Layout.ovf ovfI
  have hw : wrapI D.signed D.n v = v := wrapI_of_in (pos_n hv) hvr
  have hin : inI D.signed D.n v := hvr
  rw [hw]
  simp [hin]

/-- every `Ok` result of `pow::<D, D>` on a positive base -/
theorem pow_acc (D : Layout) (hv : D.valid) (hs : D.signed = true) (hf : 23 ≤ D.f) (hint : 9 ≤ D.intBits)
    (x y : Int) (hx : inRange D x) (hy : inRange D y) (hx0 : 0 < x) (r : Int) (it : Nat) (dbg : Bool)
    (h : Trans.run (Trans.pow D D x y) = .ok (some r, it) dbg) :
    (y = 0 ∧ r = pow2 D.f) ∨ (y = pow2 D.f ∧ r = x) ∨
    ∃ l m, Trans.run (Trans.ln D D x) = .ok (some l, m) false ∧ inRange D (l * y / pow2 D.f) ∧
      ExpSpec D.f (l * y / pow2 D.f) r := by
  have hc := facts D hv hs hf hint
  have hP := two_pow_pos D.f
  rw [pow2_eq]
  unfold Trans.run at h ⊢
  rw [pow_eq, hc.zero, liftO_bind, if_neg (by omega), liftO_bind] at h
  by_cases hy0 : y = 0
  · rw [if_pos hy0, hc.one] at h
    replace h : (Outcome.ok (some (2 ^ D.f), 0) false : Outcome (Option Int × Nat)) = .ok (some r, it) dbg := h
    exact Or.inl ⟨hy0, (ok_some_inj h).symm⟩
  · rw [if_neg hy0, hc.one, liftO_bind] at h
    by_cases hy1 : y = 2 ^ D.f
    · rw [if_pos hy1, fromS_self] at h
      replace h : (Outcome.ok (some x, 0) false : Outcome (Option Int × Nat)) = .ok (some r, it) dbg := h
      exact Or.inr (Or.inl ⟨hy1, (ok_some_inj h).symm⟩)
    · rw [if_neg hy1] at h
      refine Or.inr (Or.inr ?_)
      have hl := LogPf.ln_total D hv hs hf hint x hx
      unfold Trans.run at hl
      generalize hL : Trans.ln D D x 0 = o at hl h
      match o, hl with
      | .panic, hl => exact hl.elim
      | .ok (none, m) d, hl =>
        obtain ⟨hd, _⟩ := hl
        subst hd
        rw [bind_of_none _ _ _ _ hL] at h
        exact (ok_none_ne h).elim
      | .ok (some l, m) d, hl =>
        obtain ⟨hd, _, hlr⟩ := hl
        subst hd
        rw [bind_of_eq _ _ _ _ _ hL, fromS_self, liftO_bind, checkedMul_eq D hv l y hlr hy] at h
        have hm : mulSpec D.f l y = l * y / 2 ^ D.f := rfl
        rw [hm] at h
        by_cases hE : inRange D (l * y / 2 ^ D.f)
        · rw [chk_in D hE, liftOpt_some_bind] at h
          rcases exp_tot D hc _ hE m with ⟨v, n', he, hvr⟩ | ⟨n', he⟩
          · rw [bind_of_eq _ _ _ _ _ he] at h
            have hov := ovf_self D hv v hvr
            replace h : (match Layout.overflowingFromFixed D D v with
              | (result, oflw) => if oflw then (err : TR Int) else pure result) n' = .ok (some r, it) dbg := h
            rw [hov] at h
            replace h : (Outcome.ok (some v, n') false : Outcome (Option Int × Nat)) = .ok (some r, it) dbg := h
            have hrv := ok_some_inj h
            subst hrv
            exact ⟨l, m, rfl, hE, exp_acc_at D hv hs hf hint _ hE m v n' false he⟩
          · rw [bind_of_none _ _ _ _ he] at h
            exact (ok_none_ne h).elim
        · rw [chk_out D hE, liftOpt_none_bind] at h
          exact (ok_none_ne h).elim

end Sfx.PowAccPf
