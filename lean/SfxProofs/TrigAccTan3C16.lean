import SfxProofs.TrigAccTan3
import SfxProofs.TrigAccTan2C16
/-
  TrigAccTan3C16.lean — C16 (`SfxProps/C16.lean`) is PROVED in full:
      `theorem C16_statement_holds : Sfx.C16.C16_statement`.
  Ingredients: sin/cos clause `C16_sin_cos` (TrigAcc*.lean); tan clause for `24 ≤ D.f` and for `|tan x| ≤ 30` by worst-case analysis
  (TrigAccTan2*.lean, `C16_statement_of_f23`); the remaining piece `D.f = 23`, `30 < |tan x| ≤ 64` (`tan_f23_clause`, `C16_tan_f23`)
  by kernel enumeration of the `cos` call's CORDIC part on the near-pole window (TrigAccTan3*.lean; 299 000 angles,
  `decide +kernel`, 16 generated files `TrigAccTan3E00 … E15`, generator /root/work/c16acc/scratch/gen_tan3.py).
  `D.f = 23` does not fix the width (`I9F23`, `I41F23`, `I105F23`): the statements are for every `Supp D` with `D.f = 23`; the integer
  computation is the same for all of them (`sinPure_width_indep`, `tan_quotient_f23` in TrigAccTan3Corr.lean).
-/
namespace Sfx.TrigAccPf
open Sfx.C16 Sfx.C12 Sfx.TrigPf

/-- the tan clause for `D.f = 23`, `30 < |tan x| ≤ 64`, any width -/
theorem tan_f23_clause (D : Layout) (hv : D.valid) (hsg : D.signed = true) (hf : 23 ≤ D.f) (hi : 9 ≤ D.intBits) (hf23 : D.f = 23)
    (a : Int) (hb : |(a : ℝ) / 2 ^ D.f| ≤ 100) (ht30 : 30 < |Real.tan ((a : ℝ) / 2 ^ D.f)|)
    (ht : |Real.tan ((a : ℝ) / 2 ^ D.f)| ≤ 64)
    (r : Int) (it : Nat) (dbg : Bool) (hrun : Trans.run (Trans.tan D a) = .ok (some r, it) dbg) :
    |(r : ℝ) / 2 ^ D.f - Real.tan ((a : ℝ) / 2 ^ D.f)| ≤ (1 + Real.tan ((a : ℝ) / 2 ^ D.f) ^ 2) / 2 ^ 14 := by
  obtain ⟨r', it', h1, _, h3⟩ := tan_accuracy_f23 (D := D) ⟨hv, hsg, hf, hi⟩ hf23 a hb ht30 ht
  rw [h1] at hrun
  injection hrun with e1 _
  injection e1 with e2 _
  injection e2 with e3
  rw [← e3]
  exact h3

/-- the tan clause of `C16_statement`, word for word, for every supported layout with 23 fractional bits -/
theorem C16_tan_f23 (D : Layout) (hS : Supp D) (hf : D.f = 23) (a : Int) (hb : |val D.f a| ≤ 100)
    (ht : |Real.tan (val D.f a)| ≤ 64) :
    ∀ r it dbg, Trans.run (Trans.tan D a) = .ok (some r, it) dbg →
      |val D.f r - Real.tan (val D.f a)| ≤ (1 + Real.tan (val D.f a) ^ 2) / (2 : ℝ) ^ 14 := by
  by_cases h30 : |Real.tan (val D.f a)| ≤ 30
  · exact C16_tan_30 D hS a hb h30
  · obtain ⟨hv, hs, hf', hi⟩ := hS
    exact fun r it dbg h => tan_f23_clause D hv hs hf' hi hf a hb (not_le.1 h30) ht r it dbg h

/-- the tan clause of `C16_statement` for every supported layout -/
theorem C16_tan (D : Layout) (hS : Supp D) (a : Int) (hb : |val D.f a| ≤ 100) (ht : |Real.tan (val D.f a)| ≤ 64) :
    ∀ r it dbg, Trans.run (Trans.tan D a) = .ok (some r, it) dbg →
      |val D.f r - Real.tan (val D.f a)| ≤ (1 + Real.tan (val D.f a) ^ 2) / (2 : ℝ) ^ 14 := by
  by_cases h : 24 ≤ D.f
  · exact C16_tan_f24 D hS h a hb ht
  · exact C16_tan_f23 D hS (by have := hS.2.2.1; omega) a hb ht

/-- C16 — sin, cos and tan are accurate over many periods in every supported type -/
theorem C16_statement_holds : Sfx.C16.C16_statement :=
  C16_statement_of_f23 (fun D hS hf a _ hb _ ht => C16_tan_f23 D hS hf a hb ht)

end Sfx.TrigAccPf

#print axioms Sfx.TrigAccPf.tan_f23_clause
#print axioms Sfx.TrigAccPf.C16_tan_f23
#print axioms Sfx.TrigAccPf.C16_tan
#print axioms Sfx.TrigAccPf.C16_statement_holds
