import SfxProofs.ParseDecCore
/-
  ParseDecLoop.lean — digit strings (`valL`, `dec_str_int_to_bin`, `parse_is_short`) and the slow-path loop of
  `dec_str_frac_to_bin` (helpers for ParseDec.lean).  Core Lean only.
-/
namespace Sfx.ParseDecPf
open Sfx FromStr TextSpec

/-! ### digit strings -/

/-- value of a digit string read from the left -/
def valL : List Nat → Int
  | [] => 0
  | b :: rest => Int.ofNat (FromStr.digitVal b) * 10 ^ rest.length + valL rest

theorem valL_nil : valL [] = 0 := rfl
theorem valL_cons (b : Nat) (rest : List Nat) :
    valL (b :: rest) = Int.ofNat (FromStr.digitVal b) * 10 ^ rest.length + valL rest := rfl

/-- all bytes are ASCII decimal digits -/
def allDigits (bs : List Nat) : Prop := ∀ b ∈ bs, 48 ≤ b ∧ b ≤ 57

theorem allDigits_cons {b : Nat} {bs : List Nat} : allDigits (b :: bs) ↔ (48 ≤ b ∧ b ≤ 57) ∧ allDigits bs := by
  unfold allDigits; simp

theorem ten_pow_pos (k : Nat) : (0 : Int) < 10 ^ k := Int.pow_pos (by decide)

theorem digitVal10 (b d : Nat) : TextSpec.digitVal 10 b = some d ↔ (48 ≤ b ∧ b ≤ 57) ∧ d = b - 48 := by
  unfold TextSpec.digitVal
  by_cases h1 : 48 ≤ b ∧ b ≤ 57
  · simp only [h1, and_self, if_true, Option.bind_some, true_and]
    rw [if_pos (by omega)]; simp [eq_comm]
  · rw [if_neg h1]
    by_cases h2 : 97 ≤ b ∧ b ≤ 102
    · rw [if_pos h2]; simp only [Option.bind_some]; rw [if_neg (by omega)]; simp [h1]
    · rw [if_neg h2]
      by_cases h3 : 65 ≤ b ∧ b ≤ 70
      · rw [if_pos h3]; simp only [Option.bind_some]; rw [if_neg (by omega)]; simp [h1]
      · rw [if_neg h3]; simp [h1]

theorem foldlM_digits (bs : List Nat) : ∀ (acc v : Nat),
    bs.foldlM (fun acc b => (TextSpec.digitVal 10 b).map fun v => acc * 10 + v) acc = some v →
    allDigits bs ∧ (v : Int) = acc * 10 ^ bs.length + valL bs := by
  induction bs with
  | nil => intro acc v h; simp [List.foldlM, pure] at h; subst h; simp [allDigits, valL]
  | cons b rest ih =>
    intro acc v h
    rw [List.foldlM_cons] at h
    cases hd : TextSpec.digitVal 10 b with
    | none => rw [hd] at h; simp at h
    | some d =>
      rw [hd] at h
      simp only [Option.map_some, Option.bind_eq_bind, Option.bind_some] at h
      obtain ⟨hb, rfl⟩ := (digitVal10 b d).1 hd
      obtain ⟨h1, h2⟩ := ih _ _ h
      refine ⟨allDigits_cons.2 ⟨hb, h1⟩, ?_⟩
      rw [h2, valL_cons]
      unfold FromStr.digitVal
      simp only [List.length_cons, Int.pow_succ]
      have : ((acc * 10 + (b - 48) : Nat) : Int) = (acc : Int) * 10 + Int.ofNat (b - 48) := by
        rw [Int.natCast_add, Int.natCast_mul]; rfl
      rw [this]
      have key : ∀ a d T R : Int, (a * 10 + d) * T + R = a * (T * 10) + (d * T + R) := by intros; grind
      exact key ..

/-- the specification's `digitsVal 10` is `valL` on digit strings -/
theorem digitsVal_some {bs : List Nat} {v : Nat} (h : TextSpec.digitsVal 10 bs = some v) :
    allDigits bs ∧ (v : Int) = valL bs := by
  have := foldlM_digits bs 0 v h
  simpa using this

theorem valL_bounds (bs : List Nat) (h : allDigits bs) : 0 ≤ valL bs ∧ valL bs < 10 ^ bs.length := by
  induction bs with
  | nil => simp [valL]
  | cons b rest ih =>
    obtain ⟨hb, hr⟩ := allDigits_cons.1 h
    obtain ⟨i0, i1⟩ := ih hr
    rw [valL_cons]
    unfold FromStr.digitVal
    simp only [List.length_cons, Int.pow_succ]
    have hT := ten_pow_pos rest.length
    have hd0 : (0 : Int) ≤ Int.ofNat (b - 48) := Int.natCast_nonneg _
    have hd1 : Int.ofNat (b - 48) ≤ 9 := by
      have : b - 48 ≤ 9 := by omega
      exact Int.ofNat_le.2 this
    have h1 := Int.mul_nonneg hd0 (Int.le_of_lt hT)
    have h2 := Int.mul_le_mul_of_nonneg_right hd1 (Int.le_of_lt hT)
    omega

theorem valL_append (xs ys : List Nat) : valL (xs ++ ys) = valL xs * 10 ^ ys.length + valL ys := by
  induction xs with
  | nil => simp [valL]
  | cons b rest ih =>
    simp only [List.cons_append, valL_cons, List.length_append, ih, Int.pow_add]
    have key : ∀ d T U A B : Int, d * (T * U) + (A * U + B) = (d * T + A) * U + B := by intros; grind
    exact key ..

theorem valL_take_drop (bs : List Nat) (k : Nat) :
    valL bs = valL (bs.take k) * 10 ^ (bs.length - k) + valL (bs.drop k) := by
  have := valL_append (bs.take k) (bs.drop k)
  rw [List.take_append_drop, List.length_drop] at this
  exact this

/-- a non-empty digit string whose last digit is not `'0'` has a positive value -/
theorem valL_pos (bs : List Nat) (h : allDigits bs) (hne : bs ≠ []) (hlast : bs.getLast? ≠ some 48) : 0 < valL bs := by
  induction bs with
  | nil => exact absurd rfl hne
  | cons b rest ih =>
    obtain ⟨hb, hr⟩ := allDigits_cons.1 h
    cases rest with
    | nil =>
      simp only [List.getLast?_singleton, ne_eq, Option.some.injEq] at hlast
      rw [valL_cons, valL_nil]
      unfold FromStr.digitVal
      simp only [List.length_nil, Int.pow_zero, Int.mul_one, Int.add_zero]
      have : 0 < b - 48 := by omega
      exact Int.ofNat_lt.2 this
    | cons b' rest' =>
      rw [List.getLast?_cons_cons] at hlast
      have i := ih hr (by simp) hlast
      rw [valL_cons]
      have hT := ten_pow_pos (b' :: rest').length
      have h1 : 0 ≤ Int.ofNat (FromStr.digitVal b) * 10 ^ (b' :: rest').length :=
        Int.mul_nonneg (Int.natCast_nonneg (FromStr.digitVal b)) (Int.le_of_lt hT)
      omega

theorem allDigits_take {bs : List Nat} (h : allDigits bs) (k : Nat) : allDigits (bs.take k) :=
  fun b hb => h b (List.mem_of_mem_take hb)

theorem allDigits_drop {bs : List Nat} (h : allDigits bs) (k : Nat) : allDigits (bs.drop k) :=
  fun b hb => h b (List.mem_of_mem_drop hb)

/-! ### `dec_str_int_to_bin` without overflow -/

/-- one iteration of the fold of `dec_str_int_to_bin` -/
def decStep (N : Nat) (st : Int × Bool) (byte : Nat) : Int × Bool :=
  let (acc, overflow) := st
  let (mul, mulOverflow) := ovfI false N (acc * 10)
  let (add, addOverflow) := ovfI false N (mul + Int.ofNat (FromStr.digitVal byte))
  (add, overflow || mulOverflow || addOverflow)

theorem decStrIntToBin_eq (N : Nat) (bs : List Nat) (h : bs.length ≤ N) :
    decStrIntToBin N bs = bs.foldl (decStep N) (0, false) := by
  unfold decStrIntToBin keepLast
  have : ¬ bs.length > N := by omega
  simp only [this, if_false]
  rfl

theorem decFold (N : Nat) (bs : List Nat) (h : allDigits bs) : ∀ (acc : Int) (o : Bool), 0 ≤ acc →
    acc * 10 ^ bs.length + valL bs < 2 ^ N →
    (bs.foldl (decStep N) (acc, o)).1 = acc * 10 ^ bs.length + valL bs := by
  induction bs with
  | nil => intro acc o _ _; simp [valL_nil]
  | cons b rest ih =>
    intro acc o h0 h1
    obtain ⟨hb, hr⟩ := allDigits_cons.1 h
    rw [List.foldl_cons]
    have hT := ten_pow_pos rest.length
    have hv := valL_bounds rest hr
    have hd0 : (0 : Int) ≤ Int.ofNat (FromStr.digitVal b) := Int.natCast_nonneg _
    rw [valL_cons] at h1 ⊢
    simp only [List.length_cons, Int.pow_succ] at h1 ⊢
    have key : ∀ a d T R : Int, a * (T * 10) + (d * T + R) = (a * 10 + d) * T + R := by intros; grind
    rw [key] at h1 ⊢
    have hacc0 : 0 ≤ acc * 10 + Int.ofNat (FromStr.digitVal b) := by omega
    have hle : acc * 10 + Int.ofNat (FromStr.digitVal b) ≤ (acc * 10 + Int.ofNat (FromStr.digitVal b)) * 10 ^ rest.length := by
      have := Int.mul_le_mul_of_nonneg_left (show (1 : Int) ≤ 10 ^ rest.length by omega) hacc0
      rwa [Int.mul_one] at this
    have e1 : wrapI false N (acc * 10) = acc * 10 := by
      unfold wrapI; simp only [Bool.false_eq_true, if_false]
      exact wrapU_of_lt (by omega) (by omega)
    have e2 : wrapI false N (acc * 10 + Int.ofNat (FromStr.digitVal b)) = acc * 10 + Int.ofNat (FromStr.digitVal b) := by
      unfold wrapI; simp only [Bool.false_eq_true, if_false]
      exact wrapU_of_lt hacc0 (by omega)
    have hs : decStep N (acc, o) b = (acc * 10 + Int.ofNat (FromStr.digitVal b),
        (o || !decide (inI false N (acc * 10)) || !decide (inI false N (acc * 10 + Int.ofNat (FromStr.digitVal b))))) := by
      unfold decStep ovfI; simp only [e1, e2]
    rw [hs]
    exact ih hr _ _ hacc0 h1

/-- `dec_str_int_to_bin::<$Double>(slice).0` is the value of the slice when it fits -/
theorem decStrIntToBin_val (N : Nat) (bs : List Nat) (h : allDigits bs) (hl : bs.length ≤ N) (hv : valL bs < 2 ^ N) :
    (decStrIntToBin N bs).1 = valL bs := by
  rw [decStrIntToBin_eq N bs hl, decFold N bs h 0 false (Int.le_refl 0) (by simpa using hv)]
  simp

/-! ### `parse_is_short` -/

theorem parseIsShort_short {bin dec : Nat} (I : Inst bin dec) (bs : List Nat) (h : allDigits bs) (hl : bs.length ≤ dec) :
    parseIsShort bin dec bs = (valL bs * 10 ^ (dec - bs.length), true) := by
  have hb := valL_bounds bs h
  have h10 : (10 : Int) ^ bs.length ≤ 10 ^ dec := by
    have : (10 : Nat) ^ bs.length ≤ 10 ^ dec := Nat.pow_le_pow_right (by decide) hl
    rw [← cast_ten, ← cast_ten]; exact Int.ofNat_le.2 this
  have := I.ten_lt
  unfold parseIsShort
  simp only [hl, if_true]
  rw [decStrIntToBin_val _ bs h (by have := I.dec_le; omega) (by omega)]

theorem parseIsShort_long {bin dec : Nat} (I : Inst bin dec) (bs : List Nat) (h : allDigits bs) (hl : dec < bs.length) :
    parseIsShort bin dec bs = (valL (bs.take dec), false) := by
  have ht := allDigits_take h dec
  have hb := valL_bounds _ ht
  have hlen : (bs.take dec).length = dec := by rw [List.length_take]; omega
  rw [hlen] at hb
  have := I.ten_lt
  unfold parseIsShort
  have : ¬ bs.length ≤ dec := by omega
  simp only [this, if_false]
  rw [decStrIntToBin_val _ _ ht (by have := I.dec_le; omega) (by omega), Int.mul_one]

/-! ### the slow-path loop -/

/-- sign of an integer -/
def sgn (x : Int) : Int := if x < 0 then -1 else if x = 0 then 0 else 1

theorem sgn_neg {x : Int} (h : x < 0) : sgn x = -1 := by unfold sgn; rw [if_pos h]
theorem sgn_zero : sgn 0 = 0 := rfl
theorem sgn_pos {x : Int} (h : 0 < x) : sgn x = 1 := by
  unfold sgn; rw [if_neg (by omega), if_neg (by omega)]

theorem sgn_mul_pos (c x : Int) (hc : 0 < c) : sgn (c * x) = sgn x := by
  rcases Int.lt_trichotomy x 0 with h | h | h
  · rw [sgn_neg h, sgn_neg (Int.mul_neg_of_pos_of_neg hc h)]
  · subst h; rw [Int.mul_zero]
  · rw [sgn_pos h, sgn_pos (Int.mul_pos hc h)]

/-- what the code after the loop makes of the loop's result: `-1` return `floor`, `0` tie, `1` round up -/
def verdict : Option (Bool × Int × Bool) → Int
  | none => -1
  | some (false, _, _) => 1
  | some (true, bd, a5) => if (a5 || bd != 0) = true then -1 else 0

/-- the behaviour of `mul10_assign` on an `n`-bit value: `(self * 10 mod 2^n, carry digit)` -/
def Mul10Ok (n : Nat) : Prop :=
  ∀ x : Int, 0 ≤ x → x < 2 ^ n → mul10Assign n x = ((x * 10) % 2 ^ n, (x * 10) / 2 ^ n)

theorem mul10Ok_small (n : Nat) (hn : n ≠ 128) : Mul10Ok n := by
  intro x h0 h1
  unfold mul10Assign
  rw [if_neg hn]
  unfold wrapU shrI
  have hW := two_pow_pos n
  have q0 : 0 ≤ x * 10 / 2 ^ n := Int.ediv_nonneg (by omega) (Int.le_of_lt hW)
  have q1 : x * 10 / 2 ^ n < 10 := by rw [Int.ediv_lt_iff_lt_mul hW]; omega
  show ((x * 10) % 2 ^ n, ((x * 10) / 2 ^ n) % 2 ^ 8) = _
  have : (2 : Int) ^ 8 = 256 := by decide
  rw [Int.emod_eq_of_lt q0 (by omega)]

/-- comparison of one digit -/
theorem cmp_step (d g T r W2 c : Int) (hT : 0 < T) (hr0 : 0 ≤ r) (hr1 : r < T) (hW : 0 < W2) (hc0 : 0 ≤ c) (hc1 : c < W2) :
    (d < g → (d * T + r) * W2 - (g * W2 + c) * T < 0) ∧
    (g < d → 0 < (d * T + r) * W2 - (g * W2 + c) * T) ∧
    (d = g → (d * T + r) * W2 - (g * W2 + c) * T = r * W2 - c * T) := by
  have e : (d * T + r) * W2 - (g * W2 + c) * T = (d - g) * (T * W2) + r * W2 - c * T := by grind
  rw [e]
  have hTW : 0 ≤ T * W2 := Int.le_of_lt (Int.mul_pos hT hW)
  have h1 : r * W2 < T * W2 := Int.mul_lt_mul_of_pos_right hr1 hW
  have h2 : 0 ≤ r * W2 := Int.mul_nonneg hr0 (Int.le_of_lt hW)
  have h3 : c * T < W2 * T := Int.mul_lt_mul_of_pos_right hc1 hT
  have h4 : 0 ≤ c * T := Int.mul_nonneg hc0 (Int.le_of_lt hT)
  rw [Int.mul_comm W2 T] at h3
  refine ⟨fun h => ?_, fun h => ?_, fun h => ?_⟩
  · have hd : d - g ≤ -1 := by omega
    have := Int.mul_le_mul_of_nonneg_right hd hTW
    omega
  · have hd : 1 ≤ d - g := by omega
    have := Int.mul_le_mul_of_nonneg_right hd hTW
    omega
  · subst h; rw [Int.sub_self, Int.zero_mul]; omega

/-- one iteration of the loop body: `mul10_assign`, then the deferred `+ 5` -/
theorem step_state (n : Nat) (hM : Mul10Ok n) (h5 : (5 : Int) ≤ 2 ^ n) (bd : Int) (a5 : Bool) (h0 : 0 ≤ bd) (h1 : bd < 2 ^ n) :
    ∃ bd' g : Int,
      (let (boundary, boundaryDigit) := mul10Assign n bd
       ((if a5 then
          let (wrapped, overflow) := ovfI false n (boundary + 5)
          (wrapped, if overflow then boundaryDigit + 1 else boundaryDigit, false)
        else (boundary, boundaryDigit, a5)) : Int × Int × Bool)) = (bd', g, false) ∧
      0 ≤ bd' ∧ bd' < 2 ^ n ∧ 10 * (2 * bd + (if a5 then 1 else 0)) = g * (2 * 2 ^ n) + 2 * bd' := by
  rw [hM bd h0 h1]
  have hW := two_pow_pos n
  have hdm := Int.emod_add_ediv_mul (bd * 10) (2 ^ n)
  have hr0 := Int.emod_nonneg (bd * 10) (Int.ne_of_gt hW)
  have hr1 := Int.emod_lt_of_pos (bd * 10) hW
  generalize bd * 10 / 2 ^ n = q at *
  generalize bd * 10 % 2 ^ n = r at *
  cases a5 with
  | false =>
    refine ⟨r, q, rfl, hr0, hr1, ?_⟩
    simp only [Bool.false_eq_true, if_false]
    have : q * (2 * 2 ^ n) = 2 * (q * 2 ^ n) := by grind
    omega
  | true =>
    simp only [if_true]
    unfold ovfI wrapI
    simp only [Bool.false_eq_true, if_false]
    by_cases hov : r + 5 < 2 ^ n
    · have hin : inI false n (r + 5) := (inU_iff _ _).2 ⟨by omega, hov⟩
      refine ⟨r + 5, q, ?_, by omega, hov, ?_⟩
      · simp [hin, wrapU_of_in hin]
      · have : q * (2 * 2 ^ n) = 2 * (q * 2 ^ n) := by grind
        omega
    · have hin : ¬ inI false n (r + 5) := fun h => hov ((inU_iff _ _).1 h).2
      have hw : wrapU n (r + 5) = r + 5 - 2 ^ n := by
        have := wrapU_add_mul n (r + 5 - 2 ^ n) 1
        rw [Int.one_mul, Int.sub_add_cancel] at this
        rw [this]; exact wrapU_of_lt (by omega) (by omega)
      refine ⟨r + 5 - 2 ^ n, q + 1, ?_, by omega, by omega, ?_⟩
      · simp [hin, hw]
      · have : (q + 1) * (2 * 2 ^ n) = 2 * (q * 2 ^ n) + 2 * 2 ^ n := by grind
        omega

/-- the state update of one loop iteration -/
def stepState (n : Nat) (bd : Int) (a5 : Bool) : Int × Int × Bool :=
  let (boundary, boundaryDigit) := mul10Assign n bd
  if a5 then
    let (wrapped, overflow) := ovfI false n (boundary + 5)
    (wrapped, if overflow then boundaryDigit + 1 else boundaryDigit, false)
  else (boundary, boundaryDigit, a5)

theorem stepState_spec (n : Nat) (hM : Mul10Ok n) (h5 : (5 : Int) ≤ 2 ^ n) (bd : Int) (a5 : Bool) (h0 : 0 ≤ bd) (h1 : bd < 2 ^ n) :
    ∃ bd' g : Int, stepState n bd a5 = (bd', g, false) ∧
      0 ≤ bd' ∧ bd' < 2 ^ n ∧ 10 * (2 * bd + (if a5 then 1 else 0)) = g * (2 * 2 ^ n) + 2 * bd' :=
  step_state n hM h5 bd a5 h0 h1

theorem boundaryLoop_cons (n b : Nat) (rest : List Nat) (bd : Int) (a5 : Bool) :
    boundaryLoop n (b :: rest) bd a5 =
      if (!a5 && bd == 0) = true then some (false, bd, a5)
      else
        if Int.ofNat (FromStr.digitVal b) < (stepState n bd a5).2.1 then none
        else if Int.ofNat (FromStr.digitVal b) > (stepState n bd a5).2.1 then
          some (false, (stepState n bd a5).1, (stepState n bd a5).2.2)
        else boundaryLoop n rest (stepState n bd a5).1 (stepState n bd a5).2.2 := by
  rw [boundaryLoop]
  rfl

/-- **the slow-path invariant**: the loop compares the digit string with the decimal expansion of
`(2·boundary + add_5) / 2^(n+1)`; its verdict is the sign of `0.bytes − (2·boundary + add_5) / 2^(n+1)` -/
theorem boundaryLoop_spec (n : Nat) (hM : Mul10Ok n) (h5 : (5 : Int) ≤ 2 ^ n) (bs : List Nat) :
    allDigits bs → bs.getLast? ≠ some 48 → ∀ (bd : Int) (a5 : Bool), 0 ≤ bd → bd < 2 ^ n →
    verdict (boundaryLoop n bs bd a5) =
      sgn (valL bs * (2 * 2 ^ n) - (2 * bd + (if a5 then 1 else 0)) * 10 ^ bs.length) := by
  induction bs with
  | nil =>
    intro _ _ bd a5 h0 h1
    rw [boundaryLoop, valL_nil]
    simp only [verdict, List.length_nil, Int.pow_zero, Int.mul_one, Int.zero_mul, Int.zero_sub]
    cases a5 with
    | true => simp only [Bool.true_or, if_true]; rw [sgn_neg (by omega)]
    | false =>
      simp only [Bool.false_or, Bool.false_eq_true, if_false, Int.add_zero, bne_iff_ne, ne_eq]
      by_cases hz : bd = 0
      · subst hz; rw [if_neg (by simp)]; rfl
      · rw [if_pos hz, sgn_neg (by omega)]
  | cons b rest ih =>
    intro hall hlast bd a5 h0 h1
    obtain ⟨hb, hr⟩ := allDigits_cons.1 hall
    have hW := two_pow_pos n
    have hT := ten_pow_pos rest.length
    have hv := valL_bounds rest hr
    rw [boundaryLoop_cons]
    by_cases hz : (!a5 && bd == 0) = true
    · rw [if_pos hz]
      simp only [Bool.and_eq_true, Bool.not_eq_true', beq_iff_eq] at hz
      obtain ⟨rfl, rfl⟩ := hz
      have hp := valL_pos (b :: rest) hall (by simp) hlast
      simp only [verdict, Bool.false_eq_true, if_false, Int.mul_zero, Int.add_zero, Int.zero_mul, Int.sub_zero]
      rw [sgn_pos (Int.mul_pos hp (by omega))]
    · rw [if_neg hz]
      obtain ⟨bd', g, hs, hb0, hb1, h10⟩ := stepState_spec n hM h5 bd a5 h0 h1
      rw [hs]
      simp only []
      have hlast' : rest.getLast? ≠ some 48 := by
        cases rest with
        | nil => simp
        | cons b' rest' => rwa [List.getLast?_cons_cons] at hlast
      have e : valL (b :: rest) * (2 * 2 ^ n) - (2 * bd + (if a5 then 1 else 0)) * 10 ^ (b :: rest).length =
          (Int.ofNat (FromStr.digitVal b) * 10 ^ rest.length + valL rest) * (2 * 2 ^ n) -
            (g * (2 * 2 ^ n) + 2 * bd') * 10 ^ rest.length := by
        rw [valL_cons, ← h10, List.length_cons, Int.pow_succ]
        generalize (2 * bd + (if a5 then 1 else 0) : Int) = B
        generalize (10 : Int) ^ rest.length = T
        grind
      rw [e]
      obtain ⟨c1, c2, c3⟩ := cmp_step (Int.ofNat (FromStr.digitVal b)) g (10 ^ rest.length) (valL rest) (2 * 2 ^ n) (2 * bd')
        hT hv.1 hv.2 (by omega) (by omega) (by omega)
      by_cases hlt : Int.ofNat (FromStr.digitVal b) < g
      · rw [if_pos hlt, sgn_neg (c1 hlt)]; rfl
      · rw [if_neg hlt]
        by_cases hgt : Int.ofNat (FromStr.digitVal b) > g
        · rw [if_pos hgt, sgn_pos (c2 hgt)]; rfl
        · rw [if_neg hgt, c3 (by omega), ih hr hlast' bd' false hb0 hb1]
          simp only [Bool.false_eq_true, if_false, Int.add_zero]

/-- the code after the loop, by verdict -/
theorem after_loop (r : Option (Bool × Int × Bool)) (floor : Int) (up : Outcome (Option Int)) :
    (match r with
      | none => (pure (some floor) : Outcome (Option Int))
      | some (tie, boundary, add5) =>
        if (tie && (add5 || boundary != 0)) = true then pure (some floor)
        else if (tie && !isOdd floor) = true then pure (some floor)
        else up) =
    if verdict r = -1 then pure (some floor)
    else if verdict r = 0 then (if floor % 2 = 1 then up else pure (some floor))
    else up := by
  match r with
  | none => simp [verdict]
  | some (false, bd, a5) => simp [verdict]
  | some (true, bd, a5) =>
    by_cases h : (a5 || bd != 0) = true
    · have hv : verdict (some (true, bd, a5)) = -1 := by simp only [verdict]; rw [if_pos h]
      rw [hv]; simp [h]
    · have hv : verdict (some (true, bd, a5)) = 0 := by simp only [verdict]; rw [if_neg h]
      have ho' : isOdd floor = true ↔ floor % 2 = 1 := isOdd_iff floor
      rw [hv]
      by_cases ho : floor % 2 = 1
      · have : isOdd floor = true := ho'.2 ho
        simp [h, ho, this]
      · have : isOdd floor = false := by
          cases hh : isOdd floor with
          | false => rfl
          | true => exact absurd (ho'.1 hh) ho
        simp [h, ho, this]

end Sfx.ParseDecPf
