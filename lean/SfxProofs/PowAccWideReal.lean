import SfxProofs.PowAccReal
import SfxProofs.ExpAccWideReal
/-
  PowAccWideReal.lean — `PowAccReal.pow_prop` / `pow_real` with the bound `|Z| ≤ 4` on the exponent handed to `exp` replaced by
  `|Z| ≤ B` (`B = f / 4 ≤ 32`, `ExpAccWideReal.exp_real_wide`).  The perturbation algebra `e^t/2^20 + |e^t - 1| ≤ 2^-18 + 2A`
  (`PowAccReal.exp_pert`, `pow_core`) does not involve `Z`.
-/
namespace Sfx.PowAccPf
open Sfx.ExpAccPf

/-- purely real form with a general bound `B ≤ 32` on the exponent; margin `1/4` for `|W| / 2^23 + 1 ulp` -/
theorem pow_prop_wide (u X Y L Z R B : ℝ) (hu0 : 0 < u) (hu : u ≤ 1 / 2 ^ 23) (hX : 0 < X)
    (hln : |L - Real.log X| ≤ |Real.log X| / 2 ^ 23 + 8 * u)
    (hZ1 : Z ≤ L * Y) (hZ2 : L * Y < Z + u)
    (hA : 8 * |Y| * u ≤ 1) (hB : B ≤ 32) (hW : |Y * Real.log X| + 8 * |Y| * u + 1 / 4 ≤ B)
    (hexp : |Z| ≤ B → |R - Real.exp Z| ≤ Real.exp Z / 2 ^ 20 + 64 * u) :
    |R - X ^ Y| ≤ (1 / 2 ^ 18 + |Y * Real.log X| / 2 ^ 22 + 16 * |Y| * u) * X ^ Y + 64 * u := by
  have hP : X ^ Y = Real.exp (Y * Real.log X) := by rw [Real.rpow_def_of_pos hX, mul_comm]
  rw [hP]
  generalize Real.log X = Lx at *
  have hY0 : 0 ≤ |Y| := abs_nonneg Y
  have hW0 : 0 ≤ |Y * Lx| := abs_nonneg _
  have hd : |L * Y - Y * Lx| ≤ |Y * Lx| / 2 ^ 23 + 8 * |Y| * u := by
    have e : L * Y - Y * Lx = Y * (L - Lx) := by ring
    rw [e, abs_mul]
    have := mul_le_mul_of_nonneg_left hln hY0
    rw [abs_mul]
    calc |Y| * |L - Lx| ≤ |Y| * (|Lx| / 2 ^ 23 + 8 * u) := this
      _ = |Y| * |Lx| / 2 ^ 23 + 8 * |Y| * u := by ring
  obtain ⟨d1, d2⟩ := abs_le.1 hd
  obtain ⟨w1, w2⟩ := abs_le.1 (le_refl |Y * Lx|)
  generalize |Y * Lx| = w at *
  generalize |Y| = ya at *
  have ht : |Z - Y * Lx| ≤ (w / 2 ^ 23 + 8 * ya * u) + u := by
    rw [abs_le]; constructor <;> linarith
  have hA0 : 0 ≤ w / 2 ^ 23 + 8 * ya * u := by positivity
  have hyu : 0 ≤ 8 * ya * u := by positivity
  have hWle : w ≤ 32 := by linarith
  have hs : (w / 2 ^ 23 + 8 * ya * u) + u ≤ 17 / 16 := by
    norm_num at hu ⊢
    linarith
  have hZB : |Z| ≤ B := by
    obtain ⟨t1, t2⟩ := abs_le.1 ht
    rw [abs_le]
    norm_num at hu t1 t2 ⊢
    constructor <;> linarith
  have hR := hexp hZB
  have hZe : Real.exp Z = Real.exp (Y * Lx) * Real.exp (Z - Y * Lx) := by
    rw [← Real.exp_add]; congr 1; ring
  rw [hZe] at hR
  have := pow_core u (w / 2 ^ 23 + 8 * ya * u) (Z - Y * Lx) (Real.exp (Y * Lx)) R hu0.le hu hA0 hs ht
    (Real.exp_pos _) hR
  calc |R - Real.exp (Y * Lx)| ≤ (1 / 2 ^ 18 + 2 * (w / 2 ^ 23 + 8 * ya * u)) * Real.exp (Y * Lx) + 64 * u := this
    _ = (1 / 2 ^ 18 + w / 2 ^ 22 + 16 * ya * u) * Real.exp (Y * Lx) + 64 * u := by ring

/-- the pow clause of C15 for the trace, exponent of `exp` within `f / 4` -/
theorem pow_real_wide (f : ℕ) (hf : 23 ≤ f) (hf128 : f ≤ 128) (x y l r : Int) (hx0 : 0 < x)
    (hln : |(l : ℝ) / 2 ^ f - Real.log ((x : ℝ) / 2 ^ f)| ≤ |Real.log ((x : ℝ) / 2 ^ f)| / 2 ^ 23 + 8 / 2 ^ f)
    (hA : 8 * |(y : ℝ) / 2 ^ f| / 2 ^ f ≤ 1)
    (hW : 4 * (|(y : ℝ) / 2 ^ f * Real.log ((x : ℝ) / 2 ^ f)| + 8 * |(y : ℝ) / 2 ^ f| / 2 ^ f) + 1 ≤ (f : ℝ))
    (hspec : ExpSpec f (l * y / pow2 f) r) :
    |(r : ℝ) / 2 ^ f - ((x : ℝ) / 2 ^ f) ^ ((y : ℝ) / 2 ^ f)| ≤
      (1 / 2 ^ 18 + |(y : ℝ) / 2 ^ f * Real.log ((x : ℝ) / 2 ^ f)| / 2 ^ 22 + 16 * |(y : ℝ) / 2 ^ f| / 2 ^ f) *
        ((x : ℝ) / 2 ^ f) ^ ((y : ℝ) / 2 ^ f) + 64 / 2 ^ f := by
  have hG : (0 : ℝ) < 2 ^ f := by positivity
  have hG23 : (2 : ℝ) ^ 23 ≤ 2 ^ f := pow_le_pow_right₀ (by norm_num) hf
  have hX : 0 < (x : ℝ) / 2 ^ f := div_pos (by exact_mod_cast hx0) hG
  have hP2 := pow2_pos f
  have i1 : l * y / pow2 f * pow2 f ≤ l * y := Int.ediv_mul_le _ (Int.ne_of_gt hP2)
  have i2 : l * y < (l * y / pow2 f + 1) * pow2 f := Int.lt_ediv_add_one_mul_self _ hP2
  -- the exp clause for z, from `4 |Z| ≤ f`
  have hexp : |((l * y / pow2 f : Int) : ℝ) / 2 ^ f| ≤ (f : ℝ) / 4 →
      |(r : ℝ) / 2 ^ f - Real.exp (((l * y / pow2 f : Int) : ℝ) / 2 ^ f)| ≤
        Real.exp (((l * y / pow2 f : Int) : ℝ) / 2 ^ f) / 2 ^ 20 + 64 / 2 ^ f := by
    intro h4
    refine exp_real_wide f hf (l * y / pow2 f) r ?_ hspec
    rw [abs_div, abs_of_pos hG, div_le_iff₀ hG] at h4
    have h5 : 4 * |((l * y / pow2 f : Int) : ℝ)| ≤ (f : ℝ) * 2 ^ f := by linarith
    have e : (((((l * y / pow2 f).natAbs : ℕ) : Int) : Int) : ℝ) = |((l * y / pow2 f : Int) : ℝ)| := by
      rw [Int.natCast_natAbs, Int.cast_abs]
    have h6 : ((4 * ((l * y / pow2 f).natAbs : Int) : Int) : ℝ) ≤ (((f : Int) * pow2 f : Int) : ℝ) := by
      push_cast
      rw [pow2_cast]
      push_cast at e
      rw [e]
      exact h5
    exact_mod_cast h6
  generalize l * y / pow2 f = z at *
  have r1 : (z : ℝ) * 2 ^ f ≤ (l : ℝ) * y := by
    have : ((z * pow2 f : Int) : ℝ) ≤ ((l * y : Int) : ℝ) := by exact_mod_cast i1
    push_cast at this
    rwa [pow2_cast] at this
  have r2 : (l : ℝ) * y < ((z : ℝ) + 1) * 2 ^ f := by
    have : ((l * y : Int) : ℝ) < (((z + 1) * pow2 f : Int) : ℝ) := by exact_mod_cast i2
    push_cast at this
    rwa [pow2_cast] at this
  have hu0 : (0 : ℝ) < 1 / 2 ^ f := by positivity
  have hu : (1 : ℝ) / 2 ^ f ≤ 1 / 2 ^ 23 := one_div_le_one_div_of_le (by positivity) hG23
  have e_div : ∀ a : ℝ, a / 2 ^ f = a * (1 / 2 ^ f) := fun a => by ring
  have ey : (y : ℝ) / 2 ^ f * 2 ^ f = y := by field_simp
  have el : (l : ℝ) / 2 ^ f * 2 ^ f = l := by field_simp
  have ez : (z : ℝ) / 2 ^ f * 2 ^ f = z := by field_simp
  have eu : (1 : ℝ) / 2 ^ f * 2 ^ f = 1 := by field_simp
  have hB : (f : ℝ) / 4 ≤ 32 := by
    have : (f : ℝ) ≤ 128 := by exact_mod_cast hf128
    linarith
  rw [e_div 8, e_div 64, e_div (16 * |(y : ℝ) / 2 ^ f|)] at *
  rw [e_div (8 * |(y : ℝ) / 2 ^ f|)] at hA hW
  generalize (y : ℝ) / 2 ^ f = Y at *
  generalize (l : ℝ) / 2 ^ f = L at *
  generalize (z : ℝ) / 2 ^ f = Z at *
  generalize (x : ℝ) / 2 ^ f = X at *
  generalize (1 : ℝ) / 2 ^ f = u at *
  have hZ1 : Z ≤ L * Y := by
    have : Z * (2 ^ f * 2 ^ f) ≤ (L * Y) * (2 ^ f * 2 ^ f) := by
      calc Z * (2 ^ f * 2 ^ f) = (Z * 2 ^ f) * 2 ^ f := by ring
        _ = (z : ℝ) * 2 ^ f := by rw [ez]
        _ ≤ (l : ℝ) * y := r1
        _ = (L * 2 ^ f) * (Y * 2 ^ f) := by rw [el, ey]
        _ = (L * Y) * (2 ^ f * 2 ^ f) := by ring
    exact le_of_mul_le_mul_right this (by positivity)
  have hZ2 : L * Y < Z + u := by
    have : (L * Y) * (2 ^ f * 2 ^ f) < (Z + u) * (2 ^ f * 2 ^ f) := by
      calc (L * Y) * (2 ^ f * 2 ^ f) = (L * 2 ^ f) * (Y * 2 ^ f) := by ring
        _ = (l : ℝ) * y := by rw [el, ey]
        _ < ((z : ℝ) + 1) * 2 ^ f := r2
        _ = (Z * 2 ^ f + u * 2 ^ f) * 2 ^ f := by rw [ez, eu]
        _ = (Z + u) * (2 ^ f * 2 ^ f) := by ring
    exact lt_of_mul_lt_mul_right this (by positivity)
  exact pow_prop_wide u X Y L Z _ ((f : ℝ) / 4) hu0 hu hX hln hZ1 hZ2 hA hB (by linarith) hexp

end Sfx.PowAccPf
