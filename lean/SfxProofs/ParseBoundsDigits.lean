import SfxModel.TextSpec
import SfxModel.FromStr
/-
  ParseBoundsDigits.lean — digit-list facts shared by the C08 part A proofs (core Lean only):
  `isDigitOf` (tokeniser) agrees with `TextSpec.digitVal`; `TextSpec.digitsVal` as a plain fold `nv`; arithmetic of `nv`.
-/
namespace Sfx.ParsePf

/-- the four radices accepted by the crate -/
def Radix (r : Nat) : Prop := r = 2 ∨ r = 8 ∨ r = 10 ∨ r = 16

theorem Radix.pos {r : Nat} (hr : Radix r) : 0 < r := by unfold Radix at hr; omega
theorem Radix.two_le {r : Nat} (hr : Radix r) : 2 ≤ r := by unfold Radix at hr; omega

/-- the tokeniser's digit test is exactly "the specification assigns a digit value" -/
theorem isDigitOf_eq {r : Nat} (hr : Radix r) (b : Nat) :
    FromStr.isDigitOf b r = (TextSpec.digitVal r b).isSome := by
  rw [Bool.eq_iff_iff]
  rcases hr with rfl | rfl | rfl | rfl <;>
  · unfold FromStr.isDigitOf TextSpec.digitVal
    simp only []
    split
    · simp [Option.isSome_iff_exists]; omega
    · split
      · simp [Option.isSome_iff_exists]; omega
      · split
        · simp [Option.isSome_iff_exists]; omega
        · simp; omega

theorem isDigitOf_not_special {r b : Nat} (h : FromStr.isDigitOf b r = true) : b ≠ 43 ∧ b ≠ 45 ∧ b ≠ 46 := by
  unfold FromStr.isDigitOf at h
  simp at h
  omega

/-- every digit is a byte -/
theorem isDigitOf_lt {r b : Nat} (h : FromStr.isDigitOf b r = true) : b < 256 := by
  unfold FromStr.isDigitOf at h
  simp at h
  omega

/-- all bytes of the list are digits of the radix -/
def D (r : Nat) (l : List Nat) : Bool := l.all fun b => FromStr.isDigitOf b r

@[simp] theorem D_nil (r : Nat) : D r [] = true := rfl
@[simp] theorem D_cons (r b : Nat) (l : List Nat) : D r (b :: l) = (FromStr.isDigitOf b r && D r l) := by
  simp [D]
@[simp] theorem D_append (r : Nat) (l₁ l₂ : List Nat) : D r (l₁ ++ l₂) = (D r l₁ && D r l₂) := by
  simp [D]

/-- digit value with default 0 -/
def dg (r b : Nat) : Nat := (TextSpec.digitVal r b).getD 0

theorem dg_zero (r : Nat) : dg r 48 = 0 := by
  unfold dg TextSpec.digitVal
  simp
  split <;> rfl

theorem dg_of_some {r b d : Nat} (h : TextSpec.digitVal r b = some d) : dg r b = d := by
  unfold dg; rw [h]; rfl

theorem digitVal_of_isDigit {r : Nat} (hr : Radix r) {b : Nat} (h : FromStr.isDigitOf b r = true) :
    TextSpec.digitVal r b = some (dg r b) := by
  rw [isDigitOf_eq hr, Option.isSome_iff_exists] at h
  obtain ⟨d, hd⟩ := h
  rw [dg_of_some hd, hd]

theorem digitVal_of_not_isDigit {r : Nat} (hr : Radix r) {b : Nat} (h : FromStr.isDigitOf b r = false) :
    TextSpec.digitVal r b = none := by
  rw [isDigitOf_eq hr] at h
  simpa using h

theorem digitVal_lt {r b d : Nat} (h : TextSpec.digitVal r b = some d) : d < r := by
  unfold TextSpec.digitVal at h
  simp only [] at h
  rw [Option.bind_eq_some_iff] at h
  obtain ⟨v, _, hv⟩ := h
  split at hv
  · injection hv with hv; omega
  · cases hv

theorem dg_lt {r : Nat} (hr : Radix r) {b : Nat} (h : FromStr.isDigitOf b r = true) : dg r b < r :=
  digitVal_lt (digitVal_of_isDigit hr h)

/-- a digit other than `'0'` has a positive value -/
theorem dg_pos {r : Nat} (hr : Radix r) {b : Nat} (h : FromStr.isDigitOf b r = true) (h0 : b ≠ 48) : 0 < dg r b := by
  have hd := digitVal_of_isDigit hr h
  generalize dg r b = d at hd ⊢
  unfold TextSpec.digitVal at hd
  simp only [] at hd
  rw [Option.bind_eq_some_iff] at hd
  obtain ⟨v, hv, hv2⟩ := hd
  split at hv2
  · injection hv2 with hv2
    subst hv2
    split at hv
    · injection hv with hv; omega
    · split at hv
      · injection hv with hv; omega
      · split at hv
        · injection hv with hv; omega
        · cases hv
  · cases hv2

/-! ### the value of a digit list as a plain fold -/

def nvFrom (r : Nat) (a : Nat) (l : List Nat) : Nat := l.foldl (fun a b => a * r + dg r b) a
def nv (r : Nat) (l : List Nat) : Nat := nvFrom r 0 l

@[simp] theorem nvFrom_nil (r a : Nat) : nvFrom r a [] = a := rfl
@[simp] theorem nvFrom_cons (r a b : Nat) (l : List Nat) : nvFrom r a (b :: l) = nvFrom r (a * r + dg r b) l := rfl
@[simp] theorem nv_nil (r : Nat) : nv r [] = 0 := rfl

theorem nvFrom_eq (r : Nat) : ∀ (l : List Nat) (a : Nat), nvFrom r a l = a * r ^ l.length + nv r l := by
  intro l
  induction l with
  | nil => intro a; simp
  | cons b l ih =>
    intro a
    unfold nv
    rw [nvFrom_cons, nvFrom_cons, ih, ih (0 * r + dg r b), List.length_cons, Nat.pow_succ]
    grind

theorem nv_cons (r b : Nat) (l : List Nat) : nv r (b :: l) = dg r b * r ^ l.length + nv r l := by
  show nvFrom r 0 (b :: l) = _
  rw [nvFrom_cons, nvFrom_eq]; simp

theorem nv_append (r : Nat) (l₁ l₂ : List Nat) : nv r (l₁ ++ l₂) = nv r l₁ * r ^ l₂.length + nv r l₂ := by
  show nvFrom r 0 (l₁ ++ l₂) = _
  unfold nvFrom
  rw [List.foldl_append]
  exact nvFrom_eq r l₂ _

theorem nv_zeros (r z : Nat) : nv r (List.replicate z 48) = 0 := by
  induction z with
  | zero => rfl
  | succ z ih => rw [List.replicate_succ, nv_cons, ih, dg_zero]; simp

theorem nv_lt {r : Nat} (hr : Radix r) : ∀ l : List Nat, D r l = true → nv r l < r ^ l.length := by
  intro l
  induction l with
  | nil => intro _; simp
  | cons b l ih =>
    intro h
    simp at h
    have h1 := dg_lt hr h.1
    have h2 := ih h.2
    rw [nv_cons, List.length_cons, Nat.pow_succ]
    have : (dg r b + 1) * r ^ l.length ≤ r * r ^ l.length := Nat.mul_le_mul_right _ h1
    rw [Nat.add_mul] at this
    rw [Nat.mul_comm (r ^ l.length) r]
    omega

/-- a non-empty digit list without a leading `'0'` is at least `radix^(len-1)` -/
theorem nv_ge {r : Nat} (hr : Radix r) {b : Nat} {l : List Nat} (h : D r (b :: l) = true) (h0 : b ≠ 48) :
    r ^ l.length ≤ nv r (b :: l) := by
  simp at h
  have := dg_pos hr h.1 h0
  rw [nv_cons]
  have : 1 * r ^ l.length ≤ dg r b * r ^ l.length := Nat.mul_le_mul_right _ this
  omega

/-- `TextSpec.digitsVal` is `nv` on digit lists and `none` otherwise -/
theorem foldlM_eq {r : Nat} (hr : Radix r) : ∀ (l : List Nat) (a : Nat),
    l.foldlM (fun acc b => (TextSpec.digitVal r b).map fun v => acc * r + v) a
      = if D r l = true then some (nvFrom r a l) else none := by
  intro l
  induction l with
  | nil => intro a; simp
  | cons b l ih =>
    intro a
    rw [List.foldlM_cons]
    cases hb : FromStr.isDigitOf b r
    · rw [digitVal_of_not_isDigit hr hb]; simp [hb]
    · rw [digitVal_of_isDigit hr hb]
      simp [hb, ih]

theorem digitsVal_eq {r : Nat} (hr : Radix r) (l : List Nat) :
    TextSpec.digitsVal r l = if D r l = true then some (nv r l) else none := by
  unfold TextSpec.digitsVal nv
  exact foldlM_eq hr l 0

theorem digitsVal_some {r : Nat} (hr : Radix r) {l : List Nat} {v : Nat} (h : TextSpec.digitsVal r l = some v) :
    D r l = true ∧ v = nv r l := by
  rw [digitsVal_eq hr] at h
  split at h
  · injection h with h; exact ⟨by assumption, h.symm⟩
  · cases h

end Sfx.ParsePf
