import SfxProofs.FmtDecBase
/-
  FmtDecLoops.lean — the digit loops of `write_frac_dec` / `write_int_dec` and the rounding loops (helpers for FmtDec.lean).
-/
namespace Sfx.FmtDecPf
open Display TextSpec

/-- the `t`-th (0-based) decimal digit of the fraction `F / 2^w` -/
def fdig (w F t : Nat) : Nat := ((F * 10 ^ t) % 2 ^ w * 10) / 2 ^ w

theorem fdig_zero (w F : Nat) (h : F < 2 ^ w) : fdig w F 0 = F * 10 / 2 ^ w := by
  simp [fdig, Nat.mod_eq_of_lt h]

theorem step_mod (w F t : Nat) : ((F * 10) % 2 ^ w * 10 ^ t) % 2 ^ w = (F * 10 ^ (t + 1)) % 2 ^ w := by
  rw [Nat.mod_mul_mod, Nat.pow_succ, Nat.mul_assoc, Nat.mul_comm 10]

theorem fdig_succ (w F t : Nat) : fdig w F (t + 1) = fdig w ((F * 10) % 2 ^ w) t := by
  unfold fdig; rw [step_mod]

theorem tie_step (w tie X : Nat) (h : 2 * tie = X % 2 ^ (w + 1)) :
    2 * (tie * 10 % 2 ^ w) = (X * 10) % 2 ^ (w + 1) := by
  rw [Nat.pow_succ, Nat.mul_comm (2 ^ w) 2, ← Nat.mul_mod_mul_left, ← Nat.mul_assoc, h,
    ← Nat.pow_succ', Nat.mod_mul_mod]

theorem fracLoop_spec (w begin : Nat) (auto : Bool) (hw : 3 ≤ w) :
    ∀ (k i : Nat) (data : Array Nat) (F tie : Nat) (add5 : Bool) (X : Nat),
      F < 2 ^ w → begin + i + k ≤ data.size →
      (if add5 then tie = 0 ∧ X = 1 else 2 * tie = X % 2 ^ (w + 1)) →
      ∃ s, s ≤ k ∧
        (writeFracDecLoop w auto begin k i data F tie add5).1.size = data.size ∧
        (∀ j, (writeFracDecLoop w auto begin k i data F tie add5).1.getD j 0 =
          if begin + i ≤ j ∧ j < begin + i + s then fdig w F (j - (begin + i)) else data.getD j 0) ∧
        (writeFracDecLoop w auto begin k i data F tie add5).2.1 = (F * 10 ^ s) % 2 ^ w ∧
        (writeFracDecLoop w auto begin k i data F tie add5).2.2.getD (i + k) = i + s ∧
        (s = k ∨ (auto = true ∧ 1 ≤ s ∧ ∃ tie', 2 * tie' = (X * 10 ^ s) % 2 ^ (w + 1) ∧
           ((F * 10 ^ s) % 2 ^ w < tie' ∨ (2 ^ w - (F * 10 ^ s) % 2 ^ w) % 2 ^ w < tie'))) := by
  intro k
  induction k with
  | zero =>
    intro i data F tie add5 X hF hsz hT
    refine ⟨0, Nat.le_refl _, ?_⟩
    simp only [writeFracDecLoop, Nat.pow_zero, Nat.mul_one, Nat.mod_eq_of_lt hF, Nat.add_zero, true_and]
    refine ⟨?_, rfl, Or.inl trivial⟩
    intro j
    rw [if_neg (by omega)]
  | succ k ih =>
    intro i data F tie add5 X hF hsz hT
    have hP := Nat.two_pow_pos w
    have hF1 : F * 10 % 2 ^ w < 2 ^ w := Nat.mod_lt _ hP
    have htie : tie < 2 ^ w := by
      split at hT
      · omega
      · have := Nat.mod_lt X (Nat.two_pow_pos (w + 1)); rw [Nat.pow_succ] at this; omega
    have h10 : 10 < 2 ^ (w + 1) := by
      have : 2 ^ 4 ≤ 2 ^ (w + 1) := Nat.pow_le_pow_right (by decide) (by omega)
      omega
    simp only [writeFracDecLoop, mul10_spec w F hF, mul10_spec w tie htie]
    cases auto with
    | false =>
      simp only [Bool.false_eq_true, if_false]
      obtain ⟨s, hs, h1, h2, h3, h4, h5⟩ := ih (i + 1) (data.setIfInBounds (begin + i) (F * 10 / 2 ^ w))
        (F * 10 % 2 ^ w) tie add5 X hF1 (by rw [Array.size_setIfInBounds]; omega) hT
      have hsk : s = k := by
        rcases h5 with h | h
        · exact h
        · exact absurd h.1 (by decide)
      subst hsk
      refine ⟨s + 1, Nat.le_refl _, ?_, ?_, ?_, ?_, Or.inl rfl⟩
      · rw [h1, Array.size_setIfInBounds]
      · intro j
        rw [h2 j, getD_set]
        by_cases hj : begin + i = j
        · subst hj
          rw [if_neg (by omega), if_pos ⟨rfl, by omega⟩, if_pos (by omega), Nat.sub_self, fdig_zero w F hF]
        · by_cases hj2 : begin + (i + 1) ≤ j ∧ j < begin + (i + 1) + s
          · rw [if_pos hj2, if_pos (by omega), ← fdig_succ]
            congr 1; omega
          · rw [if_neg hj2, if_neg (by omega), if_neg (by omega)]
      · rw [h3, step_mod]
      · rw [show i + (s + 1) = i + 1 + s by omega, h4]
    | true =>
      simp only [if_true]
      -- the new tie
      have hT2 : ∃ tie2, tie2 = (if add5 = true then tie * 10 % 2 ^ w + 5 else tie * 10 % 2 ^ w) ∧
          2 * tie2 = (X * 10) % 2 ^ (w + 1) := by
        refine ⟨_, rfl, ?_⟩
        cases add5 with
        | true =>
          simp only [if_true] at hT ⊢
          obtain ⟨rfl, rfl⟩ := hT
          rw [Nat.mod_eq_of_lt (by omega : 1 * 10 < 2 ^ (w + 1))]
          simp
        | false =>
          simp only [Bool.false_eq_true, if_false] at hT ⊢
          exact tie_step w tie X hT
      obtain ⟨tie2, htie2, hT2⟩ := hT2
      rw [← htie2]
      by_cases hstop : (F * 10 % 2 ^ w < tie2 || (2 ^ w - F * 10 % 2 ^ w) % 2 ^ w < tie2) = true
      · rw [if_pos hstop]
        refine ⟨1, by omega, ?_, ?_, ?_, ?_, Or.inr ⟨trivial, Nat.le_refl _, tie2, ?_, ?_⟩⟩
        · simp only [Array.size_setIfInBounds]
        · intro j
          simp only [getD_set]
          by_cases hj : begin + i = j
          · subst hj
            rw [if_pos ⟨rfl, by omega⟩, if_pos (by omega), Nat.sub_self, fdig_zero w F hF]
          · rw [if_neg (by omega), if_neg (by omega)]
        · simp
        · simp
        · simpa using hT2
        · simpa using hstop
      · rw [if_neg hstop]
        obtain ⟨s, hs, h1, h2, h3, h4, h5⟩ := ih (i + 1) (data.setIfInBounds (begin + i) (F * 10 / 2 ^ w))
          (F * 10 % 2 ^ w) tie2 false (X * 10) hF1 (by rw [Array.size_setIfInBounds]; omega)
          (by simpa using hT2)
        refine ⟨s + 1, by omega, ?_, ?_, ?_, ?_, ?_⟩
        · rw [h1, Array.size_setIfInBounds]
        · intro j
          rw [h2 j, getD_set]
          by_cases hj : begin + i = j
          · subst hj
            rw [if_neg (by omega), if_pos ⟨rfl, by omega⟩, if_pos (by omega), Nat.sub_self, fdig_zero w F hF]
          · by_cases hj2 : begin + (i + 1) ≤ j ∧ j < begin + (i + 1) + s
            · rw [if_pos hj2, if_pos (by omega), ← fdig_succ]
              congr 1; omega
            · rw [if_neg hj2, if_neg (by omega), if_neg (by omega)]
        · rw [h3, step_mod]
        · rw [show i + (k + 1) = i + 1 + k by omega, h4]; omega
        · rcases h5 with h | ⟨_, h, tie', ht1, ht2⟩
          · exact Or.inl (by omega)
          · refine Or.inr ⟨trivial, by omega, tie', ?_, ?_⟩
            · rw [ht1, Nat.pow_succ 10 s, Nat.mul_assoc, Nat.mul_comm 10 (10 ^ s)]
            · rw [step_mod] at ht2; exact ht2

theorem fdig_lt (w F t : Nat) : fdig w F t ≤ 9 := by
  unfold fdig
  have hP := Nat.two_pow_pos w
  have := Nat.mod_lt (F * 10 ^ t) hP
  have : (F * 10 ^ t) % 2 ^ w * 10 / 2 ^ w < 10 := by
    rw [Nat.div_lt_iff_lt_mul hP]; omega
  omega

theorem div_step (A P : Nat) (hP : 0 < P) : A / P * 10 + (A % P * 10) / P = A * 10 / P := by
  have h : A * 10 = A % P * 10 + (A / P * 10) * P := by
    have := Nat.div_add_mod A P
    calc A * 10 = (P * (A / P) + A % P) * 10 := by rw [this]
      _ = A % P * 10 + (A / P * 10) * P := by
        rw [Nat.add_mul, Nat.add_comm, Nat.mul_comm P, Nat.mul_assoc, Nat.mul_comm P 10, Nat.mul_assoc]
  rw [h, Nat.add_mul_div_right _ _ hP, Nat.add_comm]

theorem valD_fdigs (w F s : Nat) (hF : F < 2 ^ w) : valD ((List.range s).map (fdig w F)) = F * 10 ^ s / 2 ^ w := by
  induction s with
  | zero => simp [Nat.div_eq_of_lt hF]
  | succ s ih =>
    rw [List.range_succ, List.map_append, List.map_singleton, valD_snoc, ih, fdig, Nat.pow_succ, ← Nat.mul_assoc]
    exact div_step _ _ (Nat.two_pow_pos w)

theorem sliceL_cons (data : Array Nat) (b n : Nat) :
    sliceL data b (n + 1) = data.getD b 0 :: sliceL data (b + 1) n := by
  simp only [sliceL, List.range_succ_eq_map, List.map_cons, List.map_map, Nat.add_zero]
  congr 1
  apply List.map_congr_left
  intro j _
  simp only [Function.comp]
  congr 1; omega

theorem valD_cons (d : Nat) (l : List Nat) : valD (d :: l) = d * 10 ^ l.length + valD l := by
  have := valD_append [d] l
  simpa [valD] using this

/-- the frac region after the loop is the digit list -/
theorem sliceL_eq_map (data : Array Nat) (b n : Nat) (g : Nat → Nat)
    (h : ∀ j, b ≤ j → j < b + n → data.getD j 0 = g (j - b)) : sliceL data b n = (List.range n).map g := by
  unfold sliceL
  apply List.map_congr_left
  intro j hj
  rw [List.mem_range] at hj
  rw [h _ (by omega) (by omega)]
  congr 1; omega

/-! ### `write_int_dec` loop -/

theorem intLoop_spec (begin : Nat) : ∀ (k : Nat) (data : Array Nat) (self : Nat), begin + k ≤ data.size →
    (writeIntDecLoop begin k data self).1.size = data.size ∧
    (∀ j, j < begin ∨ begin + k ≤ j → (writeIntDecLoop begin k data self).1.getD j 0 = data.getD j 0) ∧
    (∀ j, begin ≤ j → j < begin + k → (writeIntDecLoop begin k data self).1.getD j 0 ≤ 9) ∧
    valD (sliceL (writeIntDecLoop begin k data self).1 begin k) = self % 10 ^ k ∧
    (writeIntDecLoop begin k data self).2 = self / 10 ^ k := by
  intro k
  induction k with
  | zero =>
    intro data self _
    simp only [writeIntDecLoop, Nat.mod_one, Nat.pow_zero, Nat.div_one, sliceL_zero, valD_nil, true_and, and_true]
    exact ⟨fun _ _ => trivial, fun j h1 h2 => by omega⟩
  | succ k ih =>
    intro data self hsz
    simp only [writeIntDecLoop]
    have hm : self % 10 % 256 = self % 10 := Nat.mod_eq_of_lt (by omega)
    rw [hm]
    obtain ⟨h1, h2, h3, h4, h5⟩ := ih (data.setIfInBounds (begin + k) (self % 10)) (self / 10)
      (by rw [Array.size_setIfInBounds]; omega)
    have hlast : (writeIntDecLoop begin k (data.setIfInBounds (begin + k) (self % 10)) (self / 10)).1.getD (begin + k) 0
        = self % 10 := by
      rw [h2 _ (Or.inr (Nat.le_refl _)), getD_set, if_pos ⟨rfl, by omega⟩]
    refine ⟨?_, ?_, ?_, ?_, ?_⟩
    · rw [h1, Array.size_setIfInBounds]
    · intro j hj
      rw [h2 j (by omega), getD_set, if_neg (by omega)]
    · intro j hj1 hj2
      by_cases hj : j = begin + k
      · subst hj; rw [hlast]; omega
      · exact h3 j hj1 (by omega)
    · rw [sliceL_succ, valD_snoc, h4, hlast, Nat.pow_succ, Nat.mul_comm (10 ^ k) 10, Nat.mod_mul]
      omega
    · rw [h5, Nat.div_div_eq_div_mul, Nat.pow_succ, Nat.mul_comm]

/-! ### the round-up loop of `round_and_trim` -/

/-- integer phase: all of `data[0..k)` are digits, the number is not all nines -/
theorem roundUp_int : ∀ (k : Nat) (data : Array Nat) (dbg : Bool), k ≤ data.size →
    (∀ j, j < k → data.getD j 0 ≤ 9) → valD (sliceL data 0 k) + 1 < 10 ^ k →
    (roundUpLoop 9 k data 0 dbg).1.size = data.size ∧
    (∀ j, k ≤ j → (roundUpLoop 9 k data 0 dbg).1.getD j 0 = data.getD j 0) ∧
    (∀ j, j < k → (roundUpLoop 9 k data 0 dbg).1.getD j 0 ≤ 9) ∧
    valD (sliceL (roundUpLoop 9 k data 0 dbg).1 0 k) = valD (sliceL data 0 k) + 1 ∧
    (roundUpLoop 9 k data 0 dbg).2.1 = 0 ∧ (roundUpLoop 9 k data 0 dbg).2.2 = dbg := by
  intro k
  induction k with
  | zero =>
    intro data dbg _ _ h
    simp at h
  | succ k ih =>
    intro data dbg hsz hd hv
    have hb := hd k (Nat.lt_succ_self k)
    rw [sliceL_succ, valD_snoc, Nat.zero_add] at hv
    simp only [roundUpLoop]
    by_cases hlt : data.getD k 0 < 9
    · rw [if_pos hlt]
      refine ⟨by simp, ?_, ?_, ?_, rfl, rfl⟩
      · intro j hj
        rw [getD_set, if_neg (by omega)]
      · intro j hj
        rw [getD_set]
        split
        · omega
        · exact hd j hj
      · rw [sliceL_succ, valD_snoc, sliceL_succ, valD_snoc, Nat.zero_add, getD_set, if_pos ⟨rfl, by omega⟩]
        rw [sliceL_congr (data.setIfInBounds k (data.getD k 0 + 1)) data 0 k]
        · omega
        · intro j _ hj
          rw [getD_set, if_neg (by omega)]
    · rw [if_neg hlt]
      have h9 : data.getD k 0 = 9 := by omega
      rw [if_neg (by omega)]
      simp only [Nat.lt_irrefl, if_false]
      have hpre : sliceL (data.setIfInBounds k 0) 0 k = sliceL data 0 k := by
        apply sliceL_congr
        intro j _ hj
        rw [getD_set, if_neg (by omega)]
      obtain ⟨h1, h2, h3, h4, h5, h6⟩ := ih (data.setIfInBounds k 0) dbg (by rw [Array.size_setIfInBounds]; omega)
        (by intro j hj; rw [getD_set, if_neg (by omega)]; exact hd j (by omega))
        (by rw [hpre]; rw [Nat.pow_succ] at hv; omega)
      refine ⟨?_, ?_, ?_, ?_, h5, h6⟩
      · rw [h1, Array.size_setIfInBounds]
      · intro j hj
        rw [h2 j (by omega), getD_set, if_neg (by omega)]
      · intro j hj
        by_cases hjk : j = k
        · subst hjk
          rw [h2 j (Nat.le_refl _), getD_set, if_pos ⟨rfl, by omega⟩]; omega
        · exact h3 j (by omega)
      · rw [sliceL_succ, valD_snoc, sliceL_succ, valD_snoc, Nat.zero_add, h4, hpre, h2 k (Nat.le_refl _), getD_set,
          if_pos ⟨rfl, by omega⟩, h9]
        omega


/-- fraction phase: `data[0..n+1)` integer digits, `data[n+1] = '.'`, `data[n+2..n+2+t)` fraction digits, `frac_digits = t` -/
theorem roundUp_frac (n : Nat) : ∀ (t : Nat) (data : Array Nat), n + 2 + t ≤ data.size →
    data.getD (n + 1) 0 = 46 → (∀ j, j < n + 1 → data.getD j 0 ≤ 9) →
    (∀ j, n + 2 ≤ j → j < n + 2 + t → data.getD j 0 ≤ 9) →
    valD (sliceL data 0 (n + 1)) + 1 < 10 ^ (n + 1) →
    ∃ data' fd', roundUpLoop 9 (n + 2 + t) data t false = (data', fd', false) ∧
      data'.size = data.size ∧ fd' ≤ t ∧
      (∀ j, j < n + 1 → data'.getD j 0 ≤ 9) ∧ (∀ j, n + 2 ≤ j → j < n + 2 + fd' → data'.getD j 0 ≤ 9) ∧
      (valD (sliceL data' 0 (n + 1)) * 10 ^ fd' + valD (sliceL data' (n + 2) fd')) * 10 ^ (t - fd') =
        valD (sliceL data 0 (n + 1)) * 10 ^ t + valD (sliceL data (n + 2) t) + 1 := by
  intro t
  induction t with
  | zero =>
    intro data hsz hdot hI _ hv
    obtain ⟨h1, h2, h3, h4, h5, h6⟩ := roundUp_int (n + 1) data false (by omega) hI hv
    refine ⟨(roundUpLoop 9 (n + 1) data 0 false).1, 0, ?_, h1, Nat.le_refl _, h3, ?_, ?_⟩
    · show roundUpLoop 9 (n + 1 + 1) data 0 false = _
      simp only [roundUpLoop, hdot]
      simp only [show ¬ (46 < 9) by decide, if_false, if_true, bne_self_eq_false, Bool.or_false]
      exact Prod.ext rfl (Prod.ext h5 h6)
    · intro j h1 h2; omega
    · simp only [sliceL_zero, valD_nil, Nat.pow_zero, Nat.mul_one, Nat.add_zero, Nat.sub_self]
      exact h4
  | succ t ih =>
    intro data hsz hdot hI hF hv
    have hb := hF (n + 2 + t) (by omega) (by omega)
    show ∃ data' fd', roundUpLoop 9 (n + 2 + t + 1) data (t + 1) false = (data', fd', false) ∧ _
    simp only [roundUpLoop]
    by_cases hlt : data.getD (n + 2 + t) 0 < 9
    · rw [if_pos hlt]
      refine ⟨_, _, rfl, by simp, Nat.le_refl _, ?_, ?_, ?_⟩
      · intro j hj
        rw [getD_set, if_neg (by omega)]; exact hI j hj
      · intro j hj1 hj2
        rw [getD_set]
        split
        · omega
        · exact hF j hj1 hj2
      · rw [Nat.sub_self, Nat.pow_zero, Nat.mul_one, sliceL_succ _ (n + 2) t, valD_snoc, sliceL_succ _ (n + 2) t,
          valD_snoc, getD_set, if_pos ⟨rfl, by omega⟩]
        rw [sliceL_congr (data.setIfInBounds (n + 2 + t) (data.getD (n + 2 + t) 0 + 1)) data 0 (n + 1),
          sliceL_congr (data.setIfInBounds (n + 2 + t) (data.getD (n + 2 + t) 0 + 1)) data (n + 2) t]
        · omega
        · intro j _ hj
          rw [getD_set, if_neg (by omega)]
        · intro j _ hj
          rw [getD_set, if_neg (by omega)]
    · rw [if_neg hlt]
      have h9 : data.getD (n + 2 + t) 0 = 9 := by omega
      rw [if_neg (by omega)]
      simp only [Nat.zero_lt_succ, if_true, Nat.add_sub_cancel]
      have hpre1 : sliceL (data.setIfInBounds (n + 2 + t) 0) 0 (n + 1) = sliceL data 0 (n + 1) := by
        apply sliceL_congr
        intro j _ hj
        rw [getD_set, if_neg (by omega)]
      have hpre2 : sliceL (data.setIfInBounds (n + 2 + t) 0) (n + 2) t = sliceL data (n + 2) t := by
        apply sliceL_congr
        intro j _ hj
        rw [getD_set, if_neg (by omega)]
      obtain ⟨data', fd', h1, h2, h3, h4, h5, h6⟩ := ih (data.setIfInBounds (n + 2 + t) 0)
        (by rw [Array.size_setIfInBounds]; omega)
        (by rw [getD_set, if_neg (by omega)]; exact hdot)
        (by intro j hj; rw [getD_set, if_neg (by omega)]; exact hI j hj)
        (by intro j hj1 hj2; rw [getD_set, if_neg (by omega)]; exact hF j hj1 (by omega))
        (by rw [hpre1]; exact hv)
      refine ⟨data', fd', h1, ?_, by omega, h4, h5, ?_⟩
      · rw [h2, Array.size_setIfInBounds]
      · rw [hpre1, hpre2] at h6
        rw [show t + 1 - fd' = (t - fd') + 1 by omega, Nat.pow_succ, ← Nat.mul_assoc, h6, sliceL_succ _ (n + 2) t,
          valD_snoc, h9, Nat.pow_succ, ← Nat.mul_assoc]
        omega

/-! ### the trim loop -/

theorem trim_spec (data : Array Nat) (b : Nat) : ∀ k, trimCount b k data ≤ k ∧
    valD (sliceL data b (k - trimCount b k data)) * 10 ^ trimCount b k data = valD (sliceL data b k) := by
  intro k
  induction k with
  | zero => simp [trimCount]
  | succ k ih =>
    simp only [trimCount]
    by_cases h : data.getD (b + k) 0 = 0
    · simp only [h, bne_self_eq_false, Bool.false_eq_true, if_false]
      refine ⟨by omega, ?_⟩
      rw [show k + 1 - (1 + trimCount b k data) = k - trimCount b k data by omega, Nat.add_comm 1, Nat.pow_succ,
        ← Nat.mul_assoc, ih.2, sliceL_succ, valD_snoc, h]
      omega
    · have : (data.getD (b + k) 0 != 0) = true := by simpa using h
      rw [if_pos this]
      simp


/-- after the round-up loop the last kept fraction digit is not zero -/
theorem roundUp_frac_last (n : Nat) : ∀ (t : Nat) (data : Array Nat), n + 2 + t ≤ data.size →
    data.getD (n + 1) 0 = 46 → (∀ j, j < n + 1 → data.getD j 0 ≤ 9) →
    (∀ j, n + 2 ≤ j → j < n + 2 + t → data.getD j 0 ≤ 9) →
    valD (sliceL data 0 (n + 1)) + 1 < 10 ^ (n + 1) →
    (roundUpLoop 9 (n + 2 + t) data t false).2.1 = 0 ∨
      (roundUpLoop 9 (n + 2 + t) data t false).1.getD (n + 2 + (roundUpLoop 9 (n + 2 + t) data t false).2.1 - 1) 0 ≠ 0 := by
  intro t
  induction t with
  | zero =>
    intro data hsz hdot hI hF hv
    obtain ⟨data', fd', h1, _, h3, _⟩ := roundUp_frac n 0 data hsz hdot hI hF hv
    rw [h1]; left; simp only; omega
  | succ t ih =>
    intro data hsz hdot hI hF hv
    have hb := hF (n + 2 + t) (by omega) (by omega)
    show (roundUpLoop 9 (n + 2 + t + 1) data (t + 1) false).2.1 = 0 ∨
      (roundUpLoop 9 (n + 2 + t + 1) data (t + 1) false).1.getD
        (n + 2 + (roundUpLoop 9 (n + 2 + t + 1) data (t + 1) false).2.1 - 1) 0 ≠ 0
    simp only [roundUpLoop]
    by_cases hlt : data.getD (n + 2 + t) 0 < 9
    · rw [if_pos hlt]
      right
      simp only
      rw [show n + 2 + (t + 1) - 1 = n + 2 + t by omega, getD_set, if_pos ⟨rfl, by omega⟩]
      omega
    · rw [if_neg hlt]
      have h9 : data.getD (n + 2 + t) 0 = 9 := by omega
      rw [if_neg (by omega)]
      simp only [Nat.zero_lt_succ, if_true, Nat.add_sub_cancel]
      have hpre1 : sliceL (data.setIfInBounds (n + 2 + t) 0) 0 (n + 1) = sliceL data 0 (n + 1) := by
        apply sliceL_congr
        intro j _ hj
        rw [getD_set, if_neg (by omega)]
      exact ih (data.setIfInBounds (n + 2 + t) 0)
        (by rw [Array.size_setIfInBounds]; omega)
        (by rw [getD_set, if_neg (by omega)]; exact hdot)
        (by intro j hj; rw [getD_set, if_neg (by omega)]; exact hI j hj)
        (by intro j hj1 hj2; rw [getD_set, if_neg (by omega)]; exact hF j hj1 (by omega))
        (by rw [hpre1]; exact hv)

theorem trim_last (data : Array Nat) (b : Nat) : ∀ k, k - trimCount b k data = 0 ∨
    data.getD (b + (k - trimCount b k data) - 1) 0 ≠ 0 := by
  intro k
  induction k with
  | zero => left; rfl
  | succ k ih =>
    simp only [trimCount]
    by_cases h : data.getD (b + k) 0 = 0
    · simp only [h, bne_self_eq_false, Bool.false_eq_true, if_false]
      rw [show k + 1 - (1 + trimCount b k data) = k - trimCount b k data by omega]
      exact ih
    · have : (data.getD (b + k) 0 != 0) = true := by simpa using h
      rw [if_pos this]
      right
      rw [show b + (k + 1 - 0) - 1 = b + k by omega]
      exact h

/-- "last digit not zero" as a statement on the value of the digit list -/
theorem last_nonzero_mod (data : Array Nat) (b k : Nat) (hd : ∀ j, b ≤ j → j < b + k → data.getD j 0 ≤ 9)
    (h : k = 0 ∨ data.getD (b + k - 1) 0 ≠ 0) : k = 0 ∨ valD (sliceL data b k) % 10 ≠ 0 := by
  rcases h with h | h
  · exact Or.inl h
  · cases k with
    | zero => exact Or.inl rfl
    | succ k =>
      right
      rw [show b + (k + 1) - 1 = b + k by omega] at h
      have := hd (b + k) (by omega) (by omega)
      rw [sliceL_succ, valD_snoc]
      omega


end Sfx.FmtDecPf
