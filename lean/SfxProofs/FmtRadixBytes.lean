import SfxProofs.FmtRadix
/-
  FmtRadixBytes.lean — glue between the digit lists of `FmtRadix.lean` and the bytes `pad_and_print` prints:
  after `encode_digits` the printable slices of the buffer are the encoded integer digits, `'.'`, and the encoded
  fraction digits, and `abs_begin` (as `pad_and_print` computes it from the first two bytes) is where they start.
-/
namespace Sfx.FmtRadixPf
open Display TextSpec

theorem encodeLoop_spec (upper : Bool) :
    ∀ (k : Nat) (data : Array Nat), k ≤ data.size →
      (encodeLoop upper k data).size = data.size ∧
      ∀ i, g (encodeLoop upper k data) i = if i < k then encodeDigit upper (g data i) else g data i := by
  intro k
  induction k with
  | zero => intro data _; simp [encodeLoop]
  | succ k ih =>
    intro data hk
    have hg : data.getD k 0 = g data k := rfl
    simp only [encodeLoop, hg]
    obtain ⟨h1, h2⟩ := ih (data.setIfInBounds k (encodeDigit upper (g data k))) (by simp; omega)
    refine ⟨by simpa using h1, ?_⟩
    intro i
    rw [h2 i]
    by_cases hik : i < k
    · rw [if_pos hik, if_pos (by omega), g_set_ne _ _ _ _ (by omega)]
    · rw [if_neg hik]
      by_cases hik2 : i = k
      · subst hik2; rw [if_pos (by omega), g_set_eq _ _ _ (by omega)]
      · rw [if_neg (by omega), g_set_ne _ _ _ _ (by omega)]

theorem encodeDigits_eq (upper : Bool) (I fd : Nat) (data : Array Nat) (h : I + fd ≤ 128) :
    Buffer.encodeDigits ⟨I, fd, data⟩ upper = .ok ⟨I, fd, encodeLoop upper (I + fd + 2) data⟩ false := by
  unfold Buffer.encodeDigits
  simp only [sliceChk_ok 0 (I + fd + 2) (by omega) (by omega), ok_bind, pure_eq]

theorem enc_eq_48 (upper : Bool) (d : Nat) (h : d < 16 ∨ d = 46) : encodeDigit upper d = 48 ↔ d = 0 := by
  unfold encodeDigit
  by_cases h1 : d < 10
  · rw [if_pos h1]; omega
  · rw [if_neg h1]
    by_cases h2 : d < 16
    · rw [if_pos h2]; cases upper <;> simp <;> omega
    · rw [if_neg h2]; omega

theorem enc_eq_46 (upper : Bool) (d : Nat) : encodeDigit upper d = 46 ↔ d = 46 := by
  unfold encodeDigit
  by_cases h1 : d < 10
  · rw [if_pos h1]; omega
  · rw [if_neg h1]
    by_cases h2 : d < 16
    · rw [if_pos h2]; cases upper <;> simp <;> omega
    · rw [if_neg h2]

theorem digs_add (f : Nat → Nat) (b k m : Nat) : digs f b (k + m) = digs f b k ++ digs f (b + k) m := by
  induction m with
  | zero => simp [digs]
  | succ m ih =>
    rw [← Nat.add_assoc, digs_succ_last, ih, digs_succ_last, List.append_assoc, Nat.add_assoc]

theorem digs_map (f : Nat → Nat) (e : Nat → Nat) (b k : Nat) : digs (fun i => e (f i)) b k = (digs f b k).map e := by
  unfold digs; rw [List.map_map]; rfl

theorem digs_congr (f f' : Nat → Nat) (b k : Nat) (h : ∀ j, j < k → f' (b + j) = f (b + j)) : digs f' b k = digs f b k := by
  unfold digs
  apply List.map_congr_left
  intro j hj
  exact h j (List.mem_range.1 hj)

theorem take_drop_digs (data : Array Nat) (a e : Nat) (he : e ≤ data.size) (ha : a ≤ e) :
    (data.toList.take e).drop a = digs (g data) a (e - a) := by
  rw [List.drop_take]
  exact toList_slice data a (e - a) (by omega)


theorem enc_46 (upper : Bool) : encodeDigit upper 46 = 46 := by simp [encodeDigit]

/-- the first printed position is 0 (carry digit, or the lone `0` of a zero integer part) or 1 -/
theorem absBeginRaw_cases (r I : Nat) (data : Array Nat)
    (hrng0 : ∀ j, j < 1 + I → g data j < r) (hpt : g data (1 + I) = 46)
    (hcanon : 0 < I → g data 0 = 0 → g data 1 ≠ 0) :
    absBeginRaw data = 0 ∨ (absBeginRaw data = 1 ∧ 0 < I) := by
  have hg0 : data.getD 0 0 = g data 0 := rfl
  have hg1 : data.getD 1 0 = g data 1 := rfl
  unfold absBeginRaw
  rw [hg0, hg1]
  by_cases h0 : g data 0 ≠ 0
  · left; rw [if_pos h0]
  · rw [if_neg h0]
    by_cases h1 : g data 1 = 46
    · left; rw [if_pos h1]
    · rw [if_neg h1]
      have hIpos : 0 < I := by
        apply Classical.byContradiction; intro hne
        have : I = 0 := by omega
        subst this; exact h1 hpt
      right
      rw [if_neg (hcanon hIpos (by omega))]
      exact ⟨rfl, hIpos⟩

/-- The bytes: after `encode_digits`, the slices that `pad_and_print` can print are the encoded integer digits, the
point, and the encoded fraction digits; `a` is `abs_begin` as `pad_and_print` computes it. -/
theorem radix_bytes (w abs fracN : Nat) (radix : Radix) (prec : Option Nat)
    (hW : w = 8 ∨ w = 16 ∨ w = 32 ∨ w = 64 ∨ w = 128) (hf : fracN ≤ w) (ha : abs < 2 ^ w) (hrx : radix ≠ .dec) :
    ∃ ip fp buf a, radixDigits w abs fracN radix prec = .ok (ip, fp) false ∧
      (radixBuf w abs fracN radix prec >>= fun b => b.encodeDigits (radix == .upHex)) = .ok buf false ∧
      buf.data.size = 130 ∧ buf.intDigits + buf.fracDigits ≤ 128 ∧ buf.fracDigits = fp.length ∧
      a + ip.length = buf.intDigits + 1 ∧
      a = (if g buf.data 0 ≠ 48 then 0 else if g buf.data 1 = 46 then 0 else if g buf.data 1 = 48 then 2 else 1) ∧
      (buf.data.toList.take (buf.intDigits + 1)).drop a = ip.map (encodeDigit (radix == .upHex)) ∧
      (buf.data.toList.take (buf.intDigits + 2)).drop a = ip.map (encodeDigit (radix == .upHex)) ++ [46] ∧
      (buf.data.toList.take (buf.intDigits + buf.fracDigits + 2)).drop a
        = ip.map (encodeDigit (radix == .upHex)) ++ 46 :: fp.map (encodeDigit (radix == .upHex)) := by
  obtain ⟨I, n, fd, data, heq, hsz, hIn, hfd, _, _, _, hr0, hpt, hrf, hnz, hcan⟩ :=
    radixBuf_core w abs fracN radix prec hW hf ha hrx
  have hr16 := (radix_pow radix).2.1
  generalize (radix == Radix.upHex) = upper
  have hfp : fracList ⟨I, fd, data⟩ = digs (g data) (1 + I + 1) fd := by
    unfold fracList; simp only; exact toList_slice data _ _ (by omega)
  have hip := intList_eq I fd data hsz (by omega)
  obtain ⟨hsz', hg'⟩ := encodeLoop_spec upper (I + fd + 2) data (by omega)
  have hcases := absBeginRaw_cases (2 ^ radix.digitBits) I data hr0 hpt hcan
  have ha1 : absBeginRaw data ≤ 1 ∧ absBeginRaw data ≤ I := by omega
  -- slices of the encoded data
  have hslice : ∀ e, e ≤ I + fd + 2 → absBeginRaw data ≤ e →
      ((encodeLoop upper (I + fd + 2) data).toList.take e).drop (absBeginRaw data)
        = (digs (g data) (absBeginRaw data) (e - absBeginRaw data)).map (encodeDigit upper) := by
    intro e he hae
    rw [take_drop_digs _ _ _ (by omega) hae, ← digs_map]
    apply digs_congr
    intro j hj
    rw [hg', if_pos (by omega)]
  have hpt1 : digs (g data) (1 + I) 1 = [46] := by simp [digs, hpt]
  refine ⟨intList ⟨I, fd, data⟩, fracList ⟨I, fd, data⟩, ⟨I, fd, encodeLoop upper (I + fd + 2) data⟩,
    absBeginRaw data, ?_, ?_, by simp only; omega, by simp only; omega, ?_, ?_, ?_, ?_, ?_, ?_⟩
  · unfold radixDigits; rw [heq]; rfl
  · rw [heq]; simp only [ok_bind]; exact encodeDigits_eq upper I fd data (by omega)
  · rw [hfp, digs_length]
  · rw [hip, digs_length]; simp only; omega
  · simp only
    rw [hg' 0, hg' 1, if_pos (show 0 < I + fd + 2 by omega), if_pos (show 1 < I + fd + 2 by omega)]
    have h0 := hr0 0 (by omega)
    have h1 : g data 1 < 16 ∨ g data 1 = 46 := by
      by_cases hI : I = 0
      · subst hI; right; exact hpt
      · left; have := hr0 1 (by omega); omega
    simp only [ne_eq, enc_eq_48 upper (g data 0) (by omega), enc_eq_48 upper (g data 1) h1, enc_eq_46]
    rfl
  · simp only
    rw [hslice (I + 1) (by omega) (by omega), hip, Nat.add_comm I 1]
  · simp only
    rw [hslice (I + 2) (by omega) (by omega), hip]
    have e : I + 2 - absBeginRaw data = (1 + I - absBeginRaw data) + 1 := by omega
    have e2 : absBeginRaw data + (1 + I - absBeginRaw data) = 1 + I := by omega
    rw [e, digs_add, e2, hpt1, List.map_append]
    simp [enc_46]
  · simp only
    rw [hslice (I + fd + 2) (by omega) (by omega), hip, hfp]
    have e : I + fd + 2 - absBeginRaw data = (1 + I - absBeginRaw data) + (1 + fd) := by omega
    have e2 : absBeginRaw data + (1 + I - absBeginRaw data) = 1 + I := by omega
    rw [e, digs_add, e2, digs_add, hpt1, List.map_append, List.map_append]
    simp [enc_46]

#print axioms radix_bytes
end Sfx.FmtRadixPf
