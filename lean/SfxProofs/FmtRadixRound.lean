import SfxProofs.FmtRadixLoops
/-
  FmtRadixRound.lean — `Buffer::round_and_trim` on a digit buffer of radix `max + 1`: the digit string is incremented
  exactly when the comparison of the remainder with one half (ties to even) says so, trailing zeros are trimmed.
-/
namespace Sfx.FmtRadixPf
open Display
theorem idx_eq (data : Array Nat) (i : Nat) (h : i < data.size) : idx data i = .ok (g data i) false := by
  unfold idx g; simp [h, pure]

theorem sliceChk_ok (b e : Nat) (h1 : b ≤ e) (h2 : e ≤ 130) : sliceChk b e = .ok () false := by
  simp [sliceChk, h1, h2, pure]

@[local simp] theorem ok_bind' {α β : Type} (v : α) (d : Bool) (f : α → Outcome β) :
    (Outcome.ok v d >>= f) = match f v with | .panic => .panic | .ok w d' => .ok w (d || d') := rfl

@[local simp] theorem map_ok {α β : Type} (f : α → β) (v : α) (d : Bool) : f <$> Outcome.ok v d = Outcome.ok (f v) d := by
  cases d <;> rfl

/-- `round_and_trim` as a two-way branch -/
theorem roundAndTrim_eq (mx I n : Nat) (data : Array Nat) (ord : Ordering)
    (hsz : data.size = 130) (hIn : I + n ≤ 128) :
    Buffer.roundAndTrim ⟨I, n, data⟩ mx ord =
      if (ord == .gt || (ord == .eq && g data ((if n > 0 then I + n + 2 else I + 1) - 1) % 2 == 1)) then
        .ok ⟨I, (roundUpLoop mx (if n > 0 then I + n + 2 else I + 1) data n false).2.1,
              (roundUpLoop mx (if n > 0 then I + n + 2 else I + 1) data n false).1⟩
            (roundUpLoop mx (if n > 0 then I + n + 2 else I + 1) data n false).2.2
      else .ok ⟨I, n - trimCount (1 + I + 1) n data, data⟩ false := by
  have hlen : (if n > 0 then I + n + 2 else I + 1) ≤ 130 := by split <;> omega
  have hlen1 : (if n > 0 then I + n + 2 else I + 1) - 1 < data.size := by split <;> omega
  unfold Buffer.roundAndTrim
  simp only []
  generalize (if n > 0 then I + n + 2 else I + 1) = len at *
  have hfr := sliceChk_ok _ _ (show 1 + I + 1 ≤ 1 + I + 1 + n by omega) (show 1 + I + 1 + n ≤ 130 by omega)
  have hsl := sliceChk_ok 0 len (by omega) hlen
  have hidx := idx_eq data (len - 1) hlen1
  have hsub : 1 + I + 1 + n - (1 + I + 1) = n := by omega
  cases ord
  · simp [Buffer.frac, hfr, hsub]
  · simp only [Buffer.frac, hfr, hsl, hidx, Outcome.dbgIf]
    by_cases hp : g data (len - 1) % 2 = 1
    · simp [hp]
    · simp [hp]
  · simp [hsl, Outcome.dbgIf]

theorem parity_last (M r last : Nat) (h : r % 2 = 0) : (M * r + last) % 2 = last % 2 := by
  rw [Nat.add_mod, Nat.mul_mod, h]; simp

theorem pow_split (r a b : Nat) (h : b ≤ a) : r ^ a = r ^ (a - b) * r ^ b := by
  rw [← Nat.pow_add]; congr 1; omega

/-- parity of the whole digit string is the parity of the digit `round_and_trim` looks at -/
theorem parity_digits (r I n : Nat) (f : Nat → Nat) (heven : r % 2 = 0) :
    (valR r f 0 (1 + I) * r ^ n + valR r f (1 + I + 1) n) % 2
      = f ((if n > 0 then I + n + 2 else I + 1) - 1) % 2 := by
  cases n with
  | zero =>
    simp only [valR, Nat.pow_zero, Nat.mul_one, Nat.add_zero, Nat.lt_irrefl, if_false, gt_iff_lt]
    rw [Nat.add_comm 1 I]
    simp only [valR, Nat.zero_add, Nat.add_sub_cancel]
    exact parity_last _ _ _ heven
  | succ n =>
    simp only [valR, Nat.pow_succ, gt_iff_lt, Nat.zero_lt_succ, if_true]
    have e : I + (n + 1) + 2 - 1 = 1 + I + 1 + n := by omega
    rw [e]
    have : valR r f 0 (1 + I) * (r ^ n * r) + (valR r f (1 + I + 1) n * r + f (1 + I + 1 + n))
        = (valR r f 0 (1 + I) * r ^ n + valR r f (1 + I + 1) n) * r + f (1 + I + 1 + n) := by grind
    rw [this]
    exact parity_last _ _ _ heven

theorem roundAndTrim_spec (mx I n : Nat) (data : Array Nat) (ord : Ordering)
    (hmx0 : 0 < mx) (hmx : mx < 46) (heven : (mx + 1) % 2 = 0)
    (hsz : data.size = 130) (hIn : I + n ≤ 128)
    (h0 : g data 0 = 0) (hint : ∀ j, j < I → g data (1 + j) ≤ mx) (hpt : g data (1 + I) = 46)
    (hfr : ∀ j, j < n → g data (1 + I + 1 + j) ≤ mx) :
    ∃ data' fd', Buffer.roundAndTrim ⟨I, n, data⟩ mx ord = .ok ⟨I, fd', data'⟩ false ∧ data'.size = 130 ∧ fd' ≤ n ∧
      (valR (mx + 1) (g data') 0 (1 + I) * (mx + 1) ^ fd' + valR (mx + 1) (g data') (1 + I + 1) fd') * (mx + 1) ^ (n - fd')
        = valR (mx + 1) (g data) 0 (1 + I) * (mx + 1) ^ n + valR (mx + 1) (g data) (1 + I + 1) n
          + (if ord = .gt ∨ (ord = .eq ∧
              (valR (mx + 1) (g data) 0 (1 + I) * (mx + 1) ^ n + valR (mx + 1) (g data) (1 + I + 1) n) % 2 = 1)
             then 1 else 0) ∧
      (∀ j, j < 1 + I → g data' j ≤ mx) ∧ g data' (1 + I) = 46 ∧ (∀ j, j < fd' → g data' (1 + I + 1 + j) ≤ mx) ∧
      (0 < fd' → g data' (1 + I + fd') ≠ 0) ∧
      valR (mx + 1) (g data) 0 (1 + I) ≤ valR (mx + 1) (g data') 0 (1 + I) := by
  have hall : ∀ i, i < 1 + I → g data i ≤ mx := by
    intro i hi
    cases i with
    | zero => omega
    | succ i => rw [Nat.add_comm i 1]; exact hint i (by omega)
  rw [roundAndTrim_eq mx I n data ord hsz hIn, parity_digits (mx + 1) I n (g data) heven]
  by_cases hup : ord = .gt ∨ (ord = .eq ∧ g data ((if n > 0 then I + n + 2 else I + 1) - 1) % 2 = 1)
  · have hb : (ord == .gt || (ord == .eq && g data ((if n > 0 then I + n + 2 else I + 1) - 1) % 2 == 1)) = true := by
      simpa using hup
    rw [if_pos hb, if_pos hup]
    by_cases hn : n = 0
    · subst hn
      simp only [gt_iff_lt, Nat.lt_irrefl, if_false]
      obtain ⟨data', heq, hsz', hval, hle', hframe⟩ :=
        roundUpLoop_int mx hmx (I + 1) data false (by omega) (by omega)
          (fun i hi => hall i (by omega)) (by omega)
      rw [heq]
      refine ⟨data', 0, rfl, by omega, by omega, ?_, ?_, ?_, by intro j hj; omega, by omega, ?_⟩
      · simp only [valR, Nat.pow_zero, Nat.mul_one, Nat.add_zero, Nat.sub_zero]
        rw [Nat.add_comm 1 I]; exact hval
      · intro j hj; exact hle' j (by omega)
      · rw [hframe (1 + I) (by omega)]; exact hpt
      · rw [Nat.add_comm 1 I]; omega
    · have hlen : (if n > 0 then I + n + 2 else I + 1) = 1 + I + 1 + n := by
        rw [if_pos (by omega)]; omega
      rw [hlen]
      obtain ⟨data', fd', heq, hsz', hfd, hval, hz, hnz, hle', hpt', hfl', hframe⟩ :=
        roundUpLoop_frac mx (1 + I) hmx (by omega) n data false (by omega) hall (by omega) hpt hfr
      rw [heq]
      have hzero : valR (mx + 1) (g data') (1 + I + 1 + fd') (n - fd') = 0 :=
        valR_zero_of _ _ _ _ (fun j hj => by
          have := hz (fd' + j) (by omega) (by omega)
          rw [← Nat.add_assoc] at this; exact this)
      have hsplit := valR_add (mx + 1) (g data') (1 + I + 1) fd' (n - fd')
      have hnn : fd' + (n - fd') = n := by omega
      rw [hnn, hzero, Nat.add_zero] at hsplit
      have hpw := pow_split (mx + 1) n (n - fd') (by omega)
      have hnn2 : n - (n - fd') = fd' := by omega
      rw [hnn2] at hpw
      have hBlt : valR (mx + 1) (g data') (1 + I + 1) n < (mx + 1) ^ n :=
        valR_lt _ _ _ _ (fun j hj => by have := hfl' j hj; omega)
      refine ⟨data', fd', rfl, by omega, hfd, ?_, hle', hpt', fun j hj => hfl' j (by omega), hnz, ?_⟩
      · rw [← hval, hsplit, hpw]; grind
      · apply Classical.byContradiction; intro hlt
        have h1 : (valR (mx + 1) (g data') 0 (1 + I) + 1) * (mx + 1) ^ n
            ≤ valR (mx + 1) (g data) 0 (1 + I) * (mx + 1) ^ n := Nat.mul_le_mul_right _ (by omega)
        rw [Nat.add_mul, Nat.one_mul] at h1
        omega
  · have hb : ¬ (ord == .gt || (ord == .eq && g data ((if n > 0 then I + n + 2 else I + 1) - 1) % 2 == 1)) = true := by
      simpa using hup
    rw [if_neg hb, if_neg hup]
    obtain ⟨ht1, ht2, ht3⟩ := trimCount_spec (1 + I + 1) data n
    generalize trimCount (1 + I + 1) n data = t at *
    have hzero : valR (mx + 1) (g data) (1 + I + 1 + (n - t)) t = 0 :=
      valR_zero_of _ _ _ _ (fun j hj => by
        have := ht2 (n - t + j) (by omega) (by omega)
        rw [← Nat.add_assoc] at this; exact this)
    have hsplit := valR_add (mx + 1) (g data) (1 + I + 1) (n - t) t
    have hnn : n - t + t = n := by omega
    rw [hnn, hzero, Nat.add_zero] at hsplit
    have hpw := pow_split (mx + 1) n t ht1
    have hnn2 : n - (n - t) = t := by omega
    refine ⟨data, n - t, rfl, hsz, by omega, ?_, hall, hpt, fun j hj => hfr j (by omega), ?_, Nat.le_refl _⟩
    · rw [hnn2, hsplit, hpw]; grind
    · intro hpos
      have := ht3 (by omega)
      have e : 1 + I + 1 + (n - t - 1) = 1 + I + (n - t) := by omega
      rw [e] at this; exact this

end Sfx.FmtRadixPf
