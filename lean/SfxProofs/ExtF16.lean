import SfxProofs.HalfFloat
import SfxModel.ExtFrom
/-
  ExtF16.lean — the driver-level additions of the `f16` extension against the model.
  (1) the documented answer of the hook op `h_to_float_kind` (`DriverConv.kindSpec`) is what the model `toFloatKind` returns, field by
      field, for every format with the structural bounds (`FloatFmt.ok`: f16, bf16, f32, f64) and every destination `(dstFrac, dstInt)`;
  (2) the format selected by a hook request;
  (3) a formal witness of the `half` 1.8.3 defect behind `LossyFrom<f64> for f16 / bf16` (`half::…::from_f64` drops the low 32 mantissa
      bits before rounding): the bug-compatible model `ExtFrom.halfFromF64` and the IEEE-754 answer `ExtFrom.floatToFloat` differ.
  The property-level theorems for the two formats are `SfxProps/C05Half.lean` and `SfxProps/C03Half.lean`.  (core Lean only)
-/
namespace Sfx.ExtF16Pf
open Sfx.CmpPf Sfx.HalfPf

/-- the fields `DriverConv.kindSpec` prints for a finite float are the fields of the model's answer: outer flag = sign of the value,
`neg` = sign of the rounded grid value `R`, `bits ≡ R` in the 128-bit word that is printed, `dir` = direction of the rounding,
`overflow` = `R` needs more than `dstFrac + dstInt` bits -/
theorem kind_fields (F : FloatFmt) (hF : FloatFmt.ok F) (b dstFrac dstInt : Nat) (hD : 0 < dstFrac + dstInt)
    (num e : Int) (h : floatExact F b = some (num, e)) :
    ∃ conv, toFloatKind F b dstFrac dstInt = .finite (decide (num < 0)) conv ∧
      conv.neg = decide (rneScaled num (e + dstFrac) < 0) ∧
      wrapI (decide (rneScaled num (e + dstFrac) < 0)) 128 conv.bits = wrapI (decide (rneScaled num (e + dstFrac) < 0)) 128 (rneScaled num (e + dstFrac)) ∧
      conv.dir = (if 0 ≤ e + dstFrac then 0 else Layout.cmpInt (rneScaled num (e + dstFrac) * 2 ^ (-(e + dstFrac)).toNat) num) ∧
      conv.overflow = (if 0 < rneScaled num (e + dstFrac) then decide (2 ^ (dstFrac + dstInt) ≤ rneScaled num (e + dstFrac))
        else decide (rneScaled num (e + dstFrac) < -(2 ^ (dstFrac + dstInt - 1)))) := by
  obtain ⟨conv, hk, hneg, hdir, hbits, hovf⟩ := toFloatKind_spec F hF b dstFrac dstInt hD num e h
  exact ⟨conv, hk, hneg, hbits _ 128 (by decide) (by decide), by rw [hdir]; rfl, hovf⟩

/-- non-finite floats: the class printed by `kindSpec` is the model's -/
theorem kind_nonfinite (F : FloatFmt) (b dstFrac dstInt : Nat) (h : floatExact F b = none) :
    toFloatKind F b dstFrac dstInt = (if (F.parts b).2.2 = 0 then .infinite (F.parts b).1 else .nan) :=
  toFloatKind_nonfinite F b dstFrac dstInt h

/-- both half formats (and f32 / f64) satisfy the hypothesis of `kind_fields` -/
theorem ok_f16 : FloatFmt.ok f16 := ok_of f16 (Or.inl rfl)
theorem ok_bf16 : FloatFmt.ok bf16 := ok_of bf16 (Or.inr rfl)

/-- hook requests `h_… 0 16 11 …` / `0 16 8 …` / `0 32 0 …` / `0 64 0 …` select f16 / bf16 / f32 / f64 -/
theorem hookFmt_rows (s : Bool) :
    DriverConv.hookFmt ⟨s, 16, 11⟩ = f16 ∧ DriverConv.hookFmt ⟨s, 16, 8⟩ = bf16 ∧
    DriverConv.hookFmt ⟨s, 32, 0⟩ = f32 ∧ DriverConv.hookFmt ⟨s, 64, 0⟩ = f64 := by
  refine ⟨rfl, rfl, rfl, rfl⟩

/-- defect witness (`half` 1.8.3, reached through the crate's `LossyFrom<f64> for f16` / `for bf16`, documented "Rounding is to the
nearest, with ties rounded to even"): `0x3F1FFA0000000001` is one f64 ulp above the tie between the f16 values `0x07FE` and `0x07FF`;
the correctly rounded result is `0x07FF`, the library returns `0x07FE`.  Likewise `0x3810100000000001` for bf16 (`0x0081` / `0x0080`). -/
theorem half_from_f64_not_nearest :
    ExtFrom.floatToFloat f64 f16 0x3F1FFA0000000001 = some 0x07FF ∧ ExtFrom.halfFromF64 f16 0x3F1FFA0000000001 = some 0x07FE ∧
    ExtFrom.floatToFloat f64 bf16 0x3810100000000001 = some 0x0081 ∧ ExtFrom.halfFromF64 bf16 0x3810100000000001 = some 0x0080 := by
  decide

/-- when the low 32 bits of the f64 are zero the two agree by definition -/
theorem half_from_f64_exact_low (Fd : FloatFmt) (b : Nat) (h : b % 2 ^ 32 = 0) :
    ExtFrom.halfFromF64 Fd b = ExtFrom.floatToFloat f64 Fd b := by
  unfold ExtFrom.halfFromF64
  rw [h, Nat.sub_zero]
  unfold ExtFrom.floatToFloat
  split <;> rfl

end Sfx.ExtF16Pf

#print axioms Sfx.ExtF16Pf.kind_fields
#print axioms Sfx.ExtF16Pf.kind_nonfinite
#print axioms Sfx.ExtF16Pf.hookFmt_rows
#print axioms Sfx.ExtF16Pf.half_from_f64_not_nearest
#print axioms Sfx.ExtF16Pf.half_from_f64_exact_low
