import SfxProofs.FmtDecLoops
/-
  FmtDecRound.lean — `Buffer::round_and_trim` on a buffer of decimal digits (helper for FmtDec.lean).
-/
namespace Sfx.FmtDecPf
open Display TextSpec

theorem idx_eq (data : Array Nat) (i : Nat) (h : i < data.size) : idx data i = .ok (data.getD i 0) false := by
  unfold idx
  rw [Array.getD_eq_getD_getElem?]
  have : data[i]? = some data[i] := Array.getElem?_eq_getElem h
  rw [this]; rfl

theorem sliceChk_ok (b e : Nat) (h : b ≤ e ∧ e ≤ 130) : sliceChk b e = .ok () false := by
  unfold sliceChk; rw [if_pos h]; rfl

/-- the combined number (integer digits followed by `t` fraction digits) -/
def numOf (data : Array Nat) (n t : Nat) : Nat := valD (sliceL data 0 (n + 1)) * 10 ^ t + valD (sliceL data (n + 2) t)

theorem numOf_parity (data : Array Nat) (n t : Nat) :
    numOf data n t % 2 = data.getD (if t > 0 then n + t + 2 - 1 else n + 1 - 1) 0 % 2 := by
  unfold numOf
  cases t with
  | zero =>
    simp only [Nat.lt_irrefl, if_false, sliceL_zero, valD_nil, Nat.pow_zero, Nat.mul_one, Nat.add_zero,
      Nat.add_sub_cancel, gt_iff_lt]
    rw [sliceL_succ, valD_snoc, Nat.zero_add]; omega
  | succ t =>
    simp only [Nat.zero_lt_succ, if_true, gt_iff_lt]
    rw [sliceL_succ _ (n + 2) t, valD_snoc, Nat.pow_succ, ← Nat.mul_assoc,
      show n + (t + 1) + 2 - 1 = n + 2 + t by omega]
    omega

/-- the part of `round_and_trim` after the rounding decision (same text as the model) -/
def rtK (buf : Buffer) (max : Nat) (roundUp : Bool) : Outcome Buffer :=
  let len := if buf.fracDigits > 0 then buf.intDigits + buf.fracDigits + 2 else buf.intDigits + 1
  if roundUp then do
    sliceChk 0 len
    let (data, fd, dbg) := roundUpLoop max len buf.data buf.fracDigits false
    Outcome.dbgIf dbg
    pure { buf with data := data, fracDigits := fd }
  else do
    let (b, e) ← buf.frac
    let trim := trimCount b (e - b) buf.data
    pure { buf with fracDigits := buf.fracDigits - trim }

theorem roundAndTrim_eq (buf : Buffer) (max : Nat) (ord : Ordering) :
    buf.roundAndTrim max ord =
      (match ord with
       | .gt => rtK buf max true
       | .eq => idx buf.data ((if buf.fracDigits > 0 then buf.intDigits + buf.fracDigits + 2 else buf.intDigits + 1) - 1)
                  >>= fun last => rtK buf max (last % 2 == 1)
       | .lt => rtK buf max false) := by
  unfold Buffer.roundAndTrim rtK
  cases ord
  · simp only [show (Ordering.lt == Ordering.gt) = false by decide, show (Ordering.lt == Ordering.eq) = false by decide,
      Bool.false_eq_true, if_false, pure_eq, ok_false_bind]
  · simp only [show (Ordering.eq == Ordering.gt) = false by decide, BEq.rfl,
      Bool.false_eq_true, if_false, if_true, pure_eq, ok_false_bind]
  · simp only [BEq.rfl, if_true, pure_eq, ok_false_bind]

theorem rtK_spec (buf : Buffer) (up : Bool)
    (hsz : buf.data.size = 130) (hlen : buf.intDigits + 2 + buf.fracDigits ≤ 130)
    (hdot : buf.data.getD (buf.intDigits + 1) 0 = 46)
    (hI : ∀ j, j < buf.intDigits + 1 → buf.data.getD j 0 ≤ 9)
    (hF : ∀ j, buf.intDigits + 2 ≤ j → j < buf.intDigits + 2 + buf.fracDigits → buf.data.getD j 0 ≤ 9)
    (hv : valD (sliceL buf.data 0 (buf.intDigits + 1)) + 1 < 10 ^ (buf.intDigits + 1)) :
    ∃ data' fd', rtK buf 9 up = .ok { buf with data := data', fracDigits := fd' } false ∧
      data'.size = 130 ∧ fd' ≤ buf.fracDigits ∧
      (∀ j, j < buf.intDigits + 1 → data'.getD j 0 ≤ 9) ∧
      (∀ j, buf.intDigits + 2 ≤ j → j < buf.intDigits + 2 + fd' → data'.getD j 0 ≤ 9) ∧
      numOf data' buf.intDigits fd' * 10 ^ (buf.fracDigits - fd') =
        numOf buf.data buf.intDigits buf.fracDigits + (if up then 1 else 0) ∧
      (fd' = 0 ∨ valD (sliceL data' (buf.intDigits + 2) fd') % 10 ≠ 0) := by
  obtain ⟨n, t, data⟩ := buf
  simp only at hsz hlen hdot hI hF hv ⊢
  unfold rtK
  simp only
  cases up with
  | true =>
    simp only [if_true]
    rw [sliceChk_ok 0 _ (by split <;> omega), ok_false_bind]
    by_cases ht : t > 0
    · obtain ⟨data', fd', h1, h2, h3, h4, h5, h6⟩ := roundUp_frac n t data (by omega) hdot hI hF hv
      have h7 := roundUp_frac_last n t data (by omega) hdot hI hF hv
      rw [h1] at h7
      simp only [if_pos ht]
      rw [show n + t + 2 = n + 2 + t by omega, h1]
      exact ⟨data', fd', rfl, by omega, h3, h4, h5, h6, last_nonzero_mod data' (n + 2) fd' h5 h7⟩
    · have ht0 : t = 0 := by omega
      subst ht0
      obtain ⟨h1, h2, h3, h4, h5, h6⟩ := roundUp_int (n + 1) data false (by omega) hI hv
      simp only [Nat.lt_irrefl, if_false, gt_iff_lt]
      generalize hr : roundUpLoop 9 (n + 1) data 0 false = r at h1 h2 h3 h4 h5 h6
      obtain ⟨d', f', g'⟩ := r
      simp only at h1 h2 h3 h4 h5 h6
      subst h5 h6
      refine ⟨d', 0, rfl, by omega, Nat.le_refl _, h3, ?_, ?_, Or.inl rfl⟩
      · intro j hj1 hj2; omega
      · simp only [numOf, sliceL_zero, valD_nil, Nat.pow_zero, Nat.mul_one, Nat.add_zero, Nat.sub_self, h4]
  | false =>
    simp only [Bool.false_eq_true, if_false, Buffer.frac]
    rw [sliceChk_ok _ _ (by omega)]
    simp only [pure_eq, ok_false_bind]
    rw [show 1 + n + 1 + t - (1 + n + 1) = t by omega, show 1 + n + 1 = n + 2 by omega]
    obtain ⟨h1, h2⟩ := trim_spec data (n + 2) t
    refine ⟨data, t - trimCount (n + 2) t data, rfl, hsz, by omega, hI, ?_, ?_, ?_⟩
    · intro j hj1 hj2; exact hF j hj1 (by omega)
    · rw [show t - (t - trimCount (n + 2) t data) = trimCount (n + 2) t data by omega]
      simp only [numOf, Nat.add_zero]
      rw [Nat.add_mul, h2, Nat.mul_assoc, ← Nat.pow_add, show t - trimCount (n + 2) t data + trimCount (n + 2) t data = t by omega]
    · exact last_nonzero_mod data (n + 2) _ (fun j hj1 hj2 => hF j hj1 (by omega)) (trim_last data (n + 2) t)

theorem roundAndTrim_spec (buf : Buffer) (ord : Ordering) (up : Bool)
    (hsz : buf.data.size = 130) (hlen : buf.intDigits + 2 + buf.fracDigits ≤ 130)
    (hdot : buf.data.getD (buf.intDigits + 1) 0 = 46)
    (hI : ∀ j, j < buf.intDigits + 1 → buf.data.getD j 0 ≤ 9)
    (hF : ∀ j, buf.intDigits + 2 ≤ j → j < buf.intDigits + 2 + buf.fracDigits → buf.data.getD j 0 ≤ 9)
    (hv : valD (sliceL buf.data 0 (buf.intDigits + 1)) + 1 < 10 ^ (buf.intDigits + 1))
    (hgt : ord = .gt → up = true) (hlt : ord = .lt → up = false)
    (heq : ord = .eq → up = decide (numOf buf.data buf.intDigits buf.fracDigits % 2 = 1)) :
    ∃ data' fd', buf.roundAndTrim 9 ord = .ok { buf with data := data', fracDigits := fd' } false ∧
      data'.size = 130 ∧ fd' ≤ buf.fracDigits ∧
      (∀ j, j < buf.intDigits + 1 → data'.getD j 0 ≤ 9) ∧
      (∀ j, buf.intDigits + 2 ≤ j → j < buf.intDigits + 2 + fd' → data'.getD j 0 ≤ 9) ∧
      numOf data' buf.intDigits fd' * 10 ^ (buf.fracDigits - fd') =
        numOf buf.data buf.intDigits buf.fracDigits + (if up then 1 else 0) ∧
      (fd' = 0 ∨ valD (sliceL data' (buf.intDigits + 2) fd') % 10 ≠ 0) := by
  rw [roundAndTrim_eq]
  cases ord with
  | lt => have h := hlt rfl; subst h; exact rtK_spec buf false hsz hlen hdot hI hF hv
  | gt => have h := hgt rfl; subst h; exact rtK_spec buf true hsz hlen hdot hI hF hv
  | eq =>
    simp only
    rw [idx_eq _ _ (by split <;> omega), ok_false_bind]
    have hpar := numOf_parity buf.data buf.intDigits buf.fracDigits
    have : (buf.data.getD ((if buf.fracDigits > 0 then buf.intDigits + buf.fracDigits + 2 else buf.intDigits + 1) - 1) 0 % 2 == 1)
        = up := by
      rw [heq rfl, hpar, Bool.eq_iff_iff]
      split <;> simp
    rw [this]
    exact rtK_spec buf up hsz hlen hdot hI hF hv

end Sfx.FmtDecPf
