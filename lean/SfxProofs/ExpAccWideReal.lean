import SfxProofs.ExpAccReal
import Mathlib.Analysis.SpecialFunctions.Stirling
import Mathlib.Analysis.Real.Pi.Bounds
/-
  ExpAccWideReal.lean — real analysis of the integer trace of `exp` (`ExpAccDefs.lean`) on the wide region `|X| ≤ f / 4`.
  (No model definitions are involved here.)
-/
namespace Sfx.ExpAccPf
open Real Finset

/-! ### remainders of the series and the exact backward weights -/

/-- the remainder `e^X - Σ_{m<n} X^m/m!` -/
noncomputable def Rm (X : ℝ) (n : ℕ) : ℝ := Real.exp X - Sm X n
/-- `w_n = (Σ_{i ≥ n} X^i/i!) / (X^n/n!)`: by how much one unit of truncation error in term `n` ends up in the (infinite) sum -/
noncomputable def wt (X : ℝ) (n : ℕ) : ℝ := Rm X n / Tm X n

theorem Rm_nonneg {X : ℝ} (hX : 0 ≤ X) (n : ℕ) : 0 ≤ Rm X n := sub_nonneg.2 (Sm_le_exp hX n)
theorem Rm_succ (X : ℝ) (n : ℕ) : Rm X n = Tm X n + Rm X (n + 1) := by unfold Rm; rw [Sm_succ]; ring
theorem Tm_pos {X : ℝ} (hX : 0 < X) (n : ℕ) : 0 < Tm X n := by unfold Tm; positivity
theorem Sm_nonneg {X : ℝ} (hX : 0 ≤ X) (n : ℕ) : 0 ≤ Sm X n := by
  unfold Sm; exact Finset.sum_nonneg fun i _ => by positivity
theorem Rm_le_exp {X : ℝ} (hX : 0 ≤ X) (n : ℕ) : Rm X n ≤ Real.exp X := by
  unfold Rm; linarith [Sm_nonneg hX n]

theorem wt_nonneg {X : ℝ} (hX : 0 < X) (n : ℕ) : 0 ≤ wt X n := div_nonneg (Rm_nonneg hX.le n) (Tm_pos hX n).le

theorem wt_rec {X : ℝ} (hX : 0 < X) (n : ℕ) : wt X n = 1 + X / ((n : ℝ) + 1) * wt X (n + 1) := by
  unfold wt
  rw [Rm_succ X n, Tm_succ]
  have h1 := (Tm_pos hX n).ne'
  have h2 : ((n : ℝ) + 1) ≠ 0 := by positivity
  have h3 := hX.ne'
  field_simp

/-- `w_n ≤ 2` once `X / (n + 1) ≤ 1/2` -/
theorem wt_late {X : ℝ} (hX : 0 < X) (n : ℕ) (h : 2 * X ≤ (n : ℝ) + 1) : wt X n ≤ 2 := by
  unfold wt
  rw [div_le_iff₀ (Tm_pos hX n)]
  have := exp_le_Sm_add hX.le n (by rw [div_le_iff₀ (by positivity)]; linarith)
  unfold Rm
  linarith

/-! ### the loop with the exact potential `E + (w_j - 1) e` -/

theorem loop_pot (F x : Int) (hF : 0 < F) (hx : 0 < x) :
    ∀ (k j : ℕ) (t R : Int), 0 ≤ t → 0 ≤ errT F x j t → 0 ≤ errS F x j R →
      0 ≤ (F : ℝ) * Sm ((x : ℝ) / F) (j + 1 + k) - (expPure F x k (j + 1) t R : Int) ∧
      (F : ℝ) * Sm ((x : ℝ) / F) (j + 1 + k) - (expPure F x k (j + 1) t R : Int) ≤
        errS F x j R + (wt ((x : ℝ) / F) j - 1) * errT F x j t + ∑ i ∈ range k, wt ((x : ℝ) / F) (j + 1 + i)
  | 0, j, t, R, _, he, hE => by
    have hFr : (0 : ℝ) < (F : ℝ) := by exact_mod_cast hF
    have hxr : (0 : ℝ) < (x : ℝ) := by exact_mod_cast hx
    have hX : 0 < (x : ℝ) / F := div_pos hxr hFr
    have hw : 0 ≤ wt ((x : ℝ) / F) j - 1 := by
      rw [wt_rec hX j]
      have := wt_nonneg hX (j + 1)
      have : 0 ≤ (x : ℝ) / F / ((j : ℝ) + 1) * wt ((x : ℝ) / F) (j + 1) := by positivity
      linarith
    show 0 ≤ errS F x j R ∧ errS F x j R ≤ _
    refine ⟨hE, ?_⟩
    have := mul_nonneg hw he
    simp only [Finset.range_zero, Finset.sum_empty]
    linarith
  | k + 1, j, t, R, ht, he, hE => by
    have hFr : (0 : ℝ) < (F : ℝ) := by exact_mod_cast hF
    have hxr : (0 : ℝ) < (x : ℝ) := by exact_mod_cast hx
    have hX : 0 < (x : ℝ) / F := div_pos hxr hFr
    obtain ⟨s0, s1, s2, s3⟩ := step_err F x t R j hF hx.le ht
    rw [expPure_succ]
    have hc0 : 0 ≤ ((x : ℝ) / F) / ((j : ℝ) + 1) := by positivity
    have he' : 0 ≤ errT F x (j + 1) (t * x / F / ((j + 1 : Nat) : Int)) := by
      unfold errT at he ⊢; exact le_trans (mul_nonneg he hc0) s1
    have hE' : 0 ≤ errS F x (j + 1) (R + t * x / F / ((j + 1 : Nat) : Int)) := by
      unfold errS at hE ⊢; unfold errT at he'; rw [s3]; linarith
    obtain ⟨i1, i2⟩ := loop_pot F x hF hx k (j + 1) _ _ s0 he' hE'
    have hidx : j + 1 + (k + 1) = j + 1 + 1 + k := by omega
    rw [hidx]
    refine ⟨i1, le_trans i2 ?_⟩
    have hw1 := wt_nonneg hX (j + 1)
    have hrec := wt_rec hX j
    rw [Finset.sum_range_succ']
    have hsum : ∑ i ∈ range k, wt ((x : ℝ) / F) (j + 1 + (i + 1)) = ∑ i ∈ range k, wt ((x : ℝ) / F) (j + 1 + 1 + i) :=
      Finset.sum_congr rfl fun i _ => by congr 1; omega
    rw [hsum]
    unfold errS errT at *
    rw [s3]
    generalize ∑ i ∈ range k, wt ((x : ℝ) / F) (j + 1 + 1 + i) = sw at *
    have hmul : wt ((x : ℝ) / F) (j + 1) *
        ((F : ℝ) * Tm ((x : ℝ) / F) (j + 1) - ((t * x / F / ((j + 1 : Nat) : Int) : Int) : ℝ)) ≤
        wt ((x : ℝ) / F) (j + 1) * (((F : ℝ) * Tm ((x : ℝ) / F) j - t) * (((x : ℝ) / F) / ((j : ℝ) + 1)) + 1) :=
      mul_le_mul_of_nonneg_left s2 hw1
    simp only [Nat.add_zero]
    rw [hrec]
    linarith

/-! ### bounds for the single weights: `w_j ≤ 2` (late) or `w_j ≤ e^X / T_j` with `T_j ≥ ((j+1)/2)^j / j!` (early) -/

/-- Bernoulli: `2 (n+1)^(n+1) ≤ (n+2)^(n+1)` -/
theorem bern (n : ℕ) : 2 * ((n : ℝ) + 1) ^ (n + 1) ≤ ((n : ℝ) + 2) ^ (n + 1) := by
  have hn : (0 : ℝ) < (n : ℝ) + 1 := by positivity
  have ha : (-2 : ℝ) ≤ 1 / ((n : ℝ) + 1) := by
    have : (0 : ℝ) ≤ 1 / ((n : ℝ) + 1) := by positivity
    linarith
  have h := one_add_mul_le_pow ha (n + 1)
  have e1 : (1 : ℝ) + ((n + 1 : ℕ) : ℝ) * (1 / ((n : ℝ) + 1)) = 2 := by
    push_cast; field_simp; norm_num
  have e2 : (1 : ℝ) + 1 / ((n : ℝ) + 1) = ((n : ℝ) + 2) / ((n : ℝ) + 1) := by field_simp; ring
  rw [e1, e2, div_pow] at h
  rw [le_div_iff₀ (by positivity)] at h
  exact h

/-- `j! ≤ (3/4) ((j+1)/2)^j` for `j ≥ 3` -/
theorem fact_early : ∀ j : ℕ, 3 ≤ j → 4 * (j.factorial : ℝ) * 2 ^ j ≤ 3 * ((j : ℝ) + 1) ^ j := by
  intro j hj
  induction j, hj using Nat.le_induction with
  | base => norm_num [Nat.factorial]
  | succ n hn ih =>
    have hb := bern n
    have hn0 : (0 : ℝ) ≤ (n : ℝ) + 1 := by positivity
    rw [Nat.factorial_succ]
    push_cast
    have e1 : 4 * (((n : ℝ) + 1) * (n.factorial : ℝ)) * 2 ^ (n + 1) = 2 * ((n : ℝ) + 1) * (4 * (n.factorial : ℝ) * 2 ^ n) := by
      rw [pow_succ]; ring
    have e2 : ((n : ℝ) + 1 + 1) = (n : ℝ) + 2 := by ring
    rw [e1, e2]
    calc 2 * ((n : ℝ) + 1) * (4 * (n.factorial : ℝ) * 2 ^ n) ≤ 2 * ((n : ℝ) + 1) * (3 * ((n : ℝ) + 1) ^ n) :=
          mul_le_mul_of_nonneg_left ih (by positivity)
      _ = 3 * (2 * ((n : ℝ) + 1) ^ (n + 1)) := by rw [pow_succ]; ring
      _ ≤ 3 * ((n : ℝ) + 2) ^ (n + 1) := by linarith

theorem wt_le_exp_div {X : ℝ} (hX : 0 < X) (n : ℕ) : wt X n ≤ Real.exp X / Tm X n :=
  div_le_div_of_nonneg_right (Rm_le_exp hX.le n) (Tm_pos hX n).le

/-- `j = 2` -/
theorem wt_bound2 {X : ℝ} (hX : 0 < X) : wt X 2 ≤ 2 + 8 / 9 * Real.exp X := by
  have hy := Real.exp_pos X
  by_cases h : 2 * X ≤ ((2 : ℕ) : ℝ) + 1
  · have := wt_late hX 2 h
    nlinarith
  · rw [not_le] at h
    norm_num at h
    have hT : 9 / 8 ≤ Tm X 2 := by
      unfold Tm
      norm_num [Nat.factorial]
      nlinarith
    have h1 := wt_le_exp_div hX 2
    have h2 : Real.exp X / Tm X 2 ≤ Real.exp X / (9 / 8) := div_le_div_of_nonneg_left hy.le (by norm_num) hT
    have : Real.exp X / (9 / 8) = 8 / 9 * Real.exp X := by ring
    linarith

/-- `j ≥ 3` -/
theorem wt_bound3 {X : ℝ} (hX : 0 < X) (j : ℕ) (hj : 3 ≤ j) : wt X j ≤ 2 + 3 / 4 * Real.exp X := by
  have hy := Real.exp_pos X
  by_cases h : 2 * X ≤ (j : ℝ) + 1
  · have := wt_late hX j h
    nlinarith
  · rw [not_le] at h
    have hT : 4 / 3 ≤ Tm X j := by
      unfold Tm
      have hfac : (0 : ℝ) < (j.factorial : ℝ) := by positivity
      rw [le_div_iff₀ hfac]
      have h1 : (((j : ℝ) + 1) / 2) ^ j ≤ X ^ j := pow_le_pow_left₀ (by positivity) (by linarith) j
      have h2 := fact_early j hj
      rw [div_pow, div_le_iff₀ (by positivity)] at h1
      have h3 : (0 : ℝ) < 2 ^ j := by positivity
      nlinarith
    have h1 := wt_le_exp_div hX j
    have h2 : Real.exp X / Tm X j ≤ Real.exp X / (4 / 3) := div_le_div_of_nonneg_left hy.le (by norm_num) hT
    have : Real.exp X / (4 / 3) = 3 / 4 * Real.exp X := by ring
    linarith

/-! ### the sum of the weights for `X ≤ f / 4`: indices `j` with `2 (j + 1) ≥ f` are late -/

theorem sum_le_const (a : ℕ → ℝ) (k : ℕ) (c : ℝ) (h : ∀ i, i < k → a i ≤ c) : ∑ i ∈ range k, a i ≤ (k : ℝ) * c := by
  have := Finset.sum_le_sum (s := range k) (f := a) (g := fun _ => c) (fun i hi => h i (Finset.mem_range.1 hi))
  simpa using this

theorem wsum_bound (f : ℕ) (hf : 23 ≤ f) {X : ℝ} (hX : 0 < X) (h4 : 4 * X ≤ (f : ℝ)) :
    ∑ i ∈ range (f - 2), wt X (1 + 1 + i) ≤ 2 * ((f : ℝ) - 2) + (8 / 9 + 3 / 8 * ((f : ℝ) - 7)) * Real.exp X := by
  have hy := Real.exp_pos X
  -- m = the last index with 2 (m + 1) < f
  obtain ⟨k1, hk1⟩ : ∃ k1, (f - 3) / 2 = k1 + 2 := ⟨(f - 3) / 2 - 2, by omega⟩
  obtain ⟨k2, hk2⟩ : ∃ k2, f - 2 = 1 + k1 + k2 := ⟨f - 2 - 1 - k1, by omega⟩
  rw [hk2, Finset.sum_range_add, Finset.sum_range_add]
  have s0 : ∑ i ∈ range 1, wt X (1 + 1 + i) ≤ 2 + 8 / 9 * Real.exp X := by
    simp only [Finset.range_one, Finset.sum_singleton]
    exact wt_bound2 hX
  have s1 : ∑ i ∈ range k1, wt X (1 + 1 + (1 + i)) ≤ (k1 : ℝ) * (2 + 3 / 4 * Real.exp X) :=
    sum_le_const _ k1 _ fun i _ => wt_bound3 hX _ (by omega)
  have s2 : ∑ i ∈ range k2, wt X (1 + 1 + (1 + k1 + i)) ≤ (k2 : ℝ) * 2 :=
    sum_le_const _ k2 _ fun i _ => by
      apply wt_late hX
      have : (f : ℝ) ≤ 2 * (((1 + 1 + (1 + k1 + i) : ℕ) : ℝ) + 1) := by
        have : f ≤ 2 * ((1 + 1 + (1 + k1 + i)) + 1) := by omega
        exact_mod_cast this
      linarith
  have hk1r : (k1 : ℝ) ≤ ((f : ℝ) - 7) / 2 := by
    have : 2 * k1 + 7 ≤ f := by omega
    have : ((2 * k1 + 7 : ℕ) : ℝ) ≤ (f : ℝ) := by exact_mod_cast this
    push_cast at this
    linarith
  have hfr : ((f - 2 : ℕ) : ℝ) = (f : ℝ) - 2 := by rw [Nat.cast_sub (by omega)]; norm_num
  have hsumk : (1 : ℝ) + k1 + k2 = (f : ℝ) - 2 := by
    rw [← hfr, hk2]; push_cast; ring
  have hk10 : (0 : ℝ) ≤ (k1 : ℝ) := Nat.cast_nonneg _
  nlinarith

/-! ### the omitted tail relative to `e^X`, for `X ≤ f / 4` (Stirling) -/

/-- `X^f e^{-X}` is increasing up to `f`: `X^f ≤ (f/4)^f e^{X - f/4}` for `X ≤ f/4` (from `s ≤ e^{s-1}`) -/
theorem pow_exp_trick (f : ℕ) (hf : 0 < f) {X : ℝ} (hX0 : 0 ≤ X) (h4 : 4 * X ≤ (f : ℝ)) :
    X ^ f ≤ ((f : ℝ) / 4) ^ f * (Real.exp X * Real.exp (-1 / 4) ^ f) := by
  have hfr : (0 : ℝ) < (f : ℝ) := by exact_mod_cast hf
  have hs0 : 0 ≤ 4 * X / f := by positivity
  have hs1 : 4 * X / f ≤ 1 := by rw [div_le_one hfr]; exact h4
  have h1 : 4 * X / f ≤ Real.exp (4 * X / f - 1) := by
    have := Real.add_one_le_exp (4 * X / f - 1); linarith
  have h2 : (4 * X / f) ^ f ≤ Real.exp (4 * X / f - 1) ^ f := pow_le_pow_left₀ hs0 h1 f
  have h3 : Real.exp (4 * X / f - 1) ^ f = Real.exp ((f : ℝ) * (4 * X / f - 1)) := by rw [Real.exp_nat_mul]
  have h4' : Real.exp ((f : ℝ) * (4 * X / f - 1)) ≤ Real.exp (X - (f : ℝ) / 4) := by
    apply Real.exp_le_exp.2
    have e : (f : ℝ) * (4 * X / f - 1) = 4 * X - f := by field_simp
    rw [e]; linarith
  have h5 : Real.exp (X - (f : ℝ) / 4) = Real.exp X * Real.exp (-1 / 4) ^ f := by
    rw [← Real.exp_nat_mul, ← Real.exp_add]; congr 1; ring
  have hX : X = (f : ℝ) / 4 * (4 * X / f) := by field_simp
  have hq : (0 : ℝ) ≤ ((f : ℝ) / 4) ^ f := by positivity
  calc X ^ f = ((f : ℝ) / 4) ^ f * (4 * X / f) ^ f := by rw [← mul_pow, ← hX]
    _ ≤ ((f : ℝ) / 4) ^ f * (Real.exp X * Real.exp (-1 / 4) ^ f) :=
        mul_le_mul_of_nonneg_left (by rw [← h5]; exact le_trans h2 (by rw [h3]; exact h4')) hq

/-- `e^{3/4} / 2 ≤ 1.05855` -/
theorem q_le : Real.exp (3 / 4) / 2 ≤ 1.05855 := by
  have h2 : Real.exp 1 < (2.7182818286 : ℝ) := Real.exp_one_lt_d9
  have h3 : Real.exp (3 / 4) ^ 4 = Real.exp 1 ^ 3 := by
    rw [← Real.exp_nat_mul, ← Real.exp_nat_mul]; norm_num
  have h4 : Real.exp 1 ^ 3 < (2.7182818286 : ℝ) ^ 3 := pow_lt_pow_left₀ h2 (Real.exp_pos 1).le (by norm_num)
  have h5 : Real.exp (3 / 4) ^ 4 < (2.1171 : ℝ) ^ 4 := by
    rw [h3]; exact lt_trans h4 (by norm_num)
  have h6 : Real.exp (3 / 4) < 2.1171 := lt_of_pow_lt_pow_left₀ 4 (by norm_num) h5
  norm_num at h6 ⊢
  linarith

/-- Stirling with `√(2πf) ≥ 12` for `f ≥ 23` -/
theorem stirling12 (f : ℕ) (hf : 23 ≤ f) : 12 * ((f : ℝ) / Real.exp 1) ^ f ≤ (f.factorial : ℝ) := by
  have h := Stirling.le_factorial_stirling f
  have hpi := Real.pi_gt_d2
  have hfr : (23 : ℝ) ≤ (f : ℝ) := by exact_mod_cast hf
  have h12 : (12 : ℝ) ≤ √(2 * Real.pi * f) := by
    apply Real.le_sqrt_of_sq_le
    norm_num at hpi ⊢
    nlinarith
  have hp : (0 : ℝ) ≤ ((f : ℝ) / Real.exp 1) ^ f := by positivity
  calc 12 * ((f : ℝ) / Real.exp 1) ^ f ≤ √(2 * Real.pi * f) * ((f : ℝ) / Real.exp 1) ^ f := mul_le_mul_of_nonneg_right h12 hp
    _ ≤ (f.factorial : ℝ) := h

/-- the tail in ulps, relative to `e^X`: `2^f · 2 X^f / f! ≤ (1.05855^f / 6) · e^X` -/
theorem tail_wide (f : ℕ) (hf : 23 ≤ f) {X : ℝ} (hX0 : 0 ≤ X) (h4 : 4 * X ≤ (f : ℝ)) :
    (2 : ℝ) ^ f * (Tm X f * 2) ≤ (1.05855 : ℝ) ^ f / 6 * Real.exp X := by
  have hy := Real.exp_pos X
  have hfr : (0 : ℝ) < (f : ℝ) := by exact_mod_cast (show 0 < f by omega)
  have hfac : (0 : ℝ) < (f.factorial : ℝ) := by positivity
  have h1 := pow_exp_trick f (by omega) hX0 h4
  have h2 := stirling12 f hf
  have hq := q_le
  have hq0 : 0 ≤ Real.exp (3 / 4) / 2 := by positivity
  have hqf : (Real.exp (3 / 4) / 2) ^ f ≤ (1.05855 : ℝ) ^ f := pow_le_pow_left₀ hq0 hq f
  -- 2^f (f/4)^f u^f = (f/e)^f q^f
  have hid : (2 : ℝ) ^ f * (((f : ℝ) / 4) ^ f * Real.exp (-1 / 4) ^ f) = ((f : ℝ) / Real.exp 1) ^ f * (Real.exp (3 / 4) / 2) ^ f := by
    rw [← mul_pow, ← mul_pow, ← mul_pow]
    congr 1
    have e1 : Real.exp (-1 / 4) = Real.exp (3 / 4) / Real.exp 1 := by
      rw [← Real.exp_sub]; congr 1; norm_num
    rw [e1]
    have := (Real.exp_pos 1).ne'
    field_simp
    ring
  unfold Tm
  rw [show (2 : ℝ) ^ f * (X ^ f / (f.factorial : ℝ) * 2) = (2 * (2 ^ f * X ^ f)) / (f.factorial : ℝ) by ring,
    div_le_iff₀ hfac]
  have h3 : (2 : ℝ) ^ f * X ^ f ≤ Real.exp X * (((f : ℝ) / Real.exp 1) ^ f * (Real.exp (3 / 4) / 2) ^ f) := by
    calc (2 : ℝ) ^ f * X ^ f ≤ 2 ^ f * (((f : ℝ) / 4) ^ f * (Real.exp X * Real.exp (-1 / 4) ^ f)) :=
          mul_le_mul_of_nonneg_left h1 (by positivity)
      _ = Real.exp X * (2 ^ f * (((f : ℝ) / 4) ^ f * Real.exp (-1 / 4) ^ f)) := by ring
      _ = _ := by rw [hid]
  have hS : (0 : ℝ) ≤ ((f : ℝ) / Real.exp 1) ^ f := by positivity
  have hA : (0 : ℝ) ≤ (1.05855 : ℝ) ^ f := by positivity
  -- combine: 2·(2^f X^f) ≤ 2 e^X S q^f ≤ 2 e^X S A^f, and A^f/6 e^X f! ≥ A^f/6 e^X 12 S
  have h4 : Real.exp X * (((f : ℝ) / Real.exp 1) ^ f * (Real.exp (3 / 4) / 2) ^ f) ≤
      Real.exp X * (((f : ℝ) / Real.exp 1) ^ f * (1.05855 : ℝ) ^ f) :=
    mul_le_mul_of_nonneg_left (mul_le_mul_of_nonneg_left hqf hS) hy.le
  have h5 : (1.05855 : ℝ) ^ f / 6 * Real.exp X * (12 * ((f : ℝ) / Real.exp 1) ^ f) ≤
      (1.05855 : ℝ) ^ f / 6 * Real.exp X * (f.factorial : ℝ) :=
    mul_le_mul_of_nonneg_left h2 (by positivity)
  nlinarith

/-! ### numeric side conditions: `a(f) = 2 (f - 2)`, `b(f) = 8/9 + 3/8 (f - 7) + 1.05855^f / 6`, `G(f) = 2^f / 2^20` -/

theorem growth : ∀ f : ℕ, 23 ≤ f → (1.05855 : ℝ) ^ f * 2 ^ 21 ≤ 2 ^ f ∧ (8 * ((f : ℝ) - 23) + 8) * 2 ^ 20 ≤ 2 ^ f := by
  intro f hf
  induction f, hf using Nat.le_induction with
  | base => constructor <;> norm_num
  | succ n hn ih =>
    obtain ⟨a, b⟩ := ih
    have hn' : (23 : ℝ) ≤ (n : ℝ) := by exact_mod_cast hn
    have hA : (0 : ℝ) ≤ (1.05855 : ℝ) ^ n * 2 ^ 21 := by positivity
    rw [pow_succ (1.05855 : ℝ) n, pow_succ (2 : ℝ) n]
    push_cast
    constructor
    · nlinarith
    · nlinarith

theorem numeric_wide (f : ℕ) (hf : 23 ≤ f) :
    let a : ℝ := 2 * ((f : ℝ) - 2)
    let b : ℝ := 8 / 9 + 3 / 8 * ((f : ℝ) - 7) + (1.05855 : ℝ) ^ f / 6
    let G : ℝ := 2 ^ f / 2 ^ 20
    0 ≤ a ∧ 0 ≤ b ∧ b ≤ G ∧ a + b ≤ 64 + G ∧ (f ≤ 28 → a + b + 1 ≤ 64) ∧ (27 ≤ f → 2 * (a + b) ≤ 63 + G) ∧
      a + b ≤ 2 ^ f / 2 := by
  intro a b G
  obtain ⟨g1, g2⟩ := growth f hf
  have hfr : (23 : ℝ) ≤ (f : ℝ) := by exact_mod_cast hf
  have hA0 : (0 : ℝ) < (1.05855 : ℝ) ^ f := by positivity
  have hG : G * 2 ^ 20 = 2 ^ f := by
    show (2 : ℝ) ^ f / 2 ^ 20 * 2 ^ 20 = 2 ^ f
    field_simp
  have h1 : (1.05855 : ℝ) ^ f ≤ G / 2 := by nlinarith
  have h2 : 8 * ((f : ℝ) - 23) + 8 ≤ G := by nlinarith
  have h2f : (2 : ℝ) ^ f = G * 2 ^ 20 := hG.symm
  refine ⟨by show 0 ≤ 2 * ((f : ℝ) - 2); linarith, by show 0 ≤ 8 / 9 + 3 / 8 * ((f : ℝ) - 7) + (1.05855 : ℝ) ^ f / 6; linarith,
    ?_, ?_, ?_, ?_, ?_⟩
  · show 8 / 9 + 3 / 8 * ((f : ℝ) - 7) + (1.05855 : ℝ) ^ f / 6 ≤ G
    linarith
  · show 2 * ((f : ℝ) - 2) + (8 / 9 + 3 / 8 * ((f : ℝ) - 7) + (1.05855 : ℝ) ^ f / 6) ≤ 64 + G
    linarith
  · intro h28
    have h28r : (f : ℝ) ≤ 28 := by exact_mod_cast h28
    have hp : (1.05855 : ℝ) ^ f ≤ (1.05855 : ℝ) ^ 28 := pow_le_pow_right₀ (by norm_num) h28
    have hp28 : (1.05855 : ℝ) ^ 28 ≤ 5 := by norm_num
    show 2 * ((f : ℝ) - 2) + (8 / 9 + 3 / 8 * ((f : ℝ) - 7) + (1.05855 : ℝ) ^ f / 6) + 1 ≤ 64
    linarith
  · intro h27
    have hG128 : (128 : ℝ) ≤ G := by
      have : (2 : ℝ) ^ 27 ≤ 2 ^ f := pow_le_pow_right₀ (by norm_num) h27
      have e : (128 : ℝ) * 2 ^ 20 = 2 ^ 27 := by norm_num
      nlinarith
    show 2 * (2 * ((f : ℝ) - 2) + (8 / 9 + 3 / 8 * ((f : ℝ) - 7) + (1.05855 : ℝ) ^ f / 6)) ≤ 63 + G
    linarith
  · show 2 * ((f : ℝ) - 2) + (8 / 9 + 3 / 8 * ((f : ℝ) - 7) + (1.05855 : ℝ) ^ f / 6) ≤ 2 ^ f / 2
    rw [h2f]
    norm_num
    linarith

/-! ### the total (one-sided) error of the truncated sum against `e^X`, in ulps -/

theorem delta_wide (f : ℕ) (hf : 23 ≤ f) (y : Int) (hy0 : 0 < y) (hy4 : 4 * y ≤ (f : Int) * pow2 f) :
    0 ≤ (2 : ℝ) ^ f * Real.exp ((y : ℝ) / 2 ^ f) - (expPure (pow2 f) y (f - 2) 2 y (y + pow2 f) : Int) ∧
    (2 : ℝ) ^ f * Real.exp ((y : ℝ) / 2 ^ f) - (expPure (pow2 f) y (f - 2) 2 y (y + pow2 f) : Int) ≤
      2 * ((f : ℝ) - 2) + (8 / 9 + 3 / 8 * ((f : ℝ) - 7) + (1.05855 : ℝ) ^ f / 6) * Real.exp ((y : ℝ) / 2 ^ f) := by
  have hP := pow2_pos f
  have hG : (0 : ℝ) < 2 ^ f := by positivity
  have hyr : (0 : ℝ) < (y : ℝ) := by exact_mod_cast hy0
  have hX : 0 < (y : ℝ) / 2 ^ f := div_pos hyr hG
  have hX4 : 4 * ((y : ℝ) / 2 ^ f) ≤ (f : ℝ) := by
    have : ((4 * y : Int) : ℝ) ≤ (((f : Int) * pow2 f : Int) : ℝ) := by exact_mod_cast hy4
    push_cast at this
    rw [pow2_cast] at this
    rw [mul_div_assoc', div_le_iff₀ hG]
    exact this
  have e1 : errT (pow2 f) y 1 y = 0 := by
    unfold errT
    rw [Tm_one, pow2_cast]; field_simp; ring
  have e2 : errS (pow2 f) y 1 (y + pow2 f) = 0 := by
    unfold errS
    rw [Sm_two]; push_cast; rw [pow2_cast]; field_simp; ring
  obtain ⟨l1, l2⟩ := loop_pot (pow2 f) y hP hy0 (f - 2) 1 y (y + pow2 f) hy0.le (by rw [e1]) (by rw [e2])
  have hidx : 1 + 1 + (f - 2) = f := by omega
  rw [e1, e2, hidx, pow2_cast] at l2
  rw [hidx, pow2_cast] at l1
  have hw := wsum_bound f hf hX hX4
  have l1' : 0 ≤ (2 : ℝ) ^ f * Sm ((y : ℝ) / 2 ^ f) f - (expPure (pow2 f) y (f - 2) 2 y (y + pow2 f) : Int) := l1
  have l2' : (2 : ℝ) ^ f * Sm ((y : ℝ) / 2 ^ f) f - (expPure (pow2 f) y (f - 2) 2 y (y + pow2 f) : Int) ≤
      0 + (wt ((y : ℝ) / 2 ^ f) 1 - 1) * 0 + ∑ i ∈ range (f - 2), wt ((y : ℝ) / 2 ^ f) (1 + 1 + i) := l2
  -- the tail
  have hlo := Sm_le_exp hX.le f
  have hhi := exp_le_Sm_add hX.le f (by
    rw [div_le_iff₀ (by positivity)]
    have : (0 : ℝ) ≤ (f : ℝ) := Nat.cast_nonneg f
    linarith)
  have ht := tail_wide f hf hX.le hX4
  have hlo' : (2 : ℝ) ^ f * Sm ((y : ℝ) / 2 ^ f) f ≤ 2 ^ f * Real.exp ((y : ℝ) / 2 ^ f) := mul_le_mul_of_nonneg_left hlo hG.le
  have hhi' : (2 : ℝ) ^ f * Real.exp ((y : ℝ) / 2 ^ f) ≤ 2 ^ f * (Sm ((y : ℝ) / 2 ^ f) f + Tm ((y : ℝ) / 2 ^ f) f * 2) :=
    mul_le_mul_of_nonneg_left hhi hG.le
  constructor
  · linarith
  · nlinarith

/-- `a + b y ≤ 64 + G y` from `b ≤ G`, `a + b ≤ 64 + G`, `y ≥ 1` -/
theorem lin_bound (a b G y : ℝ) (hy : 1 ≤ y) (h1 : b ≤ G) (h2 : a + b ≤ 64 + G) : a + b * y ≤ 64 + G * y := by
  nlinarith

/-- positive operands -/
theorem pos_wide (f : ℕ) (hf : 23 ≤ f) (x : Int) (hx0 : 0 < x) (hx4 : 4 * x ≤ (f : Int) * pow2 f) :
    |((expPure (pow2 f) x (f - 2) 2 x (x + pow2 f) : Int) : ℝ) / 2 ^ f - Real.exp ((x : ℝ) / 2 ^ f)| ≤
      Real.exp ((x : ℝ) / 2 ^ f) / 2 ^ 20 + 64 / 2 ^ f := by
  obtain ⟨d0, d1⟩ := delta_wide f hf x hx0 hx4
  obtain ⟨_, _, n1, n2, _, _, _⟩ := numeric_wide f hf
  have hG : (0 : ℝ) < 2 ^ f := by positivity
  have hy1 : 1 ≤ Real.exp ((x : ℝ) / 2 ^ f) :=
    Real.one_le_exp (div_nonneg (by exact_mod_cast hx0.le) hG.le)
  have hl := lin_bound _ _ _ _ hy1 n1 n2
  generalize Real.exp ((x : ℝ) / 2 ^ f) = y at *
  generalize ((expPure (pow2 f) x (f - 2) 2 x (x + pow2 f) : Int) : ℝ) = R at *
  have e : R / 2 ^ f - y = -((2 ^ f * y - R) / 2 ^ f) := by field_simp; ring
  have hq : (2 ^ f * y - R) / 2 ^ f ≤ y / 2 ^ 20 + 64 / 2 ^ f := by
    rw [div_le_iff₀ hG]
    have : (y / 2 ^ 20 + 64 / 2 ^ f) * 2 ^ f = 64 + 2 ^ f / 2 ^ 20 * y := by field_simp; ring
    rw [this]
    linarith
  have hq0 : 0 ≤ (2 ^ f * y - R) / 2 ^ f := div_nonneg d0 hG.le
  rw [e, abs_neg, abs_of_nonneg hq0]
  exact hq

/-- the truncated reciprocal `w = ⌊1 / v⌋_g` of `v ∈ [y - δ, y]`, `v ≥ 1`, against `z = 1 / y`: the error `δ` of `v` is divided by
`y v` (`≈ y²`), not merely carried over -/
theorem recip_wide (y v w z g a b G : ℝ) (hy1 : 1 ≤ y) (hv1 : 1 ≤ v) (hvy : v ≤ y) (hz : z * y = 1) (hw0 : 0 ≤ w)
    (h1 : w * v ≤ 1) (h2 : 1 < (w + g) * v) (hg : 0 < g) (hδ : y - v ≤ (a + b * y) * g) (ha : 0 ≤ a) (_hb : 0 ≤ b)
    (hcase : a + b + 1 ≤ 64 ∨ (2 * (a + b) ≤ 63 + G ∧ (a + b) * g ≤ 1 / 2)) (hGg : G * g = 1 / 2 ^ 20) :
    |w - z| ≤ z / 2 ^ 20 + 64 * g := by
  have hy : 0 < y := by linarith
  have hz0 : 0 < z := by
    by_contra h
    have : z * y ≤ 0 := mul_nonpos_of_nonpos_of_nonneg (not_lt.1 h) hy.le
    linarith
  have hz1 : z ≤ 1 := by nlinarith
  have hzz : 0 ≤ z / 2 ^ 20 := by positivity
  -- (w - z) y v ≤ y - v
  have hP1 : (w - z) * (y * v) ≤ y - v := by
    have e : (w - z) * (y * v) = (w * v) * y - (z * y) * v := by ring
    rw [e, hz]
    nlinarith
  -- y - v ≤ (a + b) y g
  have hδ' : y - v ≤ (a + b) * g * y := by
    have : a * g ≤ a * g * y := by
      have := mul_nonneg ha hg.le
      nlinarith
    nlinarith
  rw [abs_le]
  constructor
  · -- (w + g) y ≥ (w + g) v > 1 = z y
    have : (w + g) * v ≤ (w + g) * y := mul_le_mul_of_nonneg_left hvy (by linarith)
    have h3 : z * y < (w + g) * y := by linarith
    have := lt_of_mul_lt_mul_right h3 hy.le
    linarith
  · by_cases hwz : w - z ≤ 0
    · have : 0 ≤ 64 * g := by positivity
      linarith
    · have hpos : 0 < w - z := not_le.1 hwz
      rcases hcase with hA | ⟨hB1, hB2⟩
      · -- v ≥ 1
        have h4 : (w - z) * y ≤ (w - z) * (y * v) := by
          have : (w - z) * y * 1 ≤ (w - z) * y * v := mul_le_mul_of_nonneg_left hv1 (by positivity)
          nlinarith
        have h5 : (w - z) * y ≤ (a + b) * g * y := by linarith
        have h6 : w - z ≤ (a + b) * g := le_of_mul_le_mul_right h5 hy
        nlinarith
      · -- v ≥ y / 2
        have hv2 : y / 2 ≤ v := by nlinarith
        have h4 : (w - z) * y * (y / 2) ≤ (w - z) * (y * v) := by
          have : (w - z) * y * (y / 2) ≤ (w - z) * y * v := mul_le_mul_of_nonneg_left hv2 (by positivity)
          nlinarith
        have h5 : ((w - z) * y / 2) * y ≤ (a + b) * g * y := by nlinarith
        have h6 : (w - z) * y / 2 ≤ (a + b) * g := le_of_mul_le_mul_right h5 hy
        -- (w - z) y ≤ (63 + G) g
        have h7 : (w - z) * y ≤ (63 + G) * g := by nlinarith
        have h8 : (w - z) * y * z ≤ (63 + G) * g * z := mul_le_mul_of_nonneg_right h7 hz0.le
        have e1 : (w - z) * y * z = w - z := by
          have : (w - z) * y * z = (w - z) * (z * y) := by ring
          rw [this, hz, mul_one]
        have e2 : (63 + G) * g * z = 63 * g * z + z / 2 ^ 20 := by
          have : (63 + G) * g * z = 63 * g * z + (G * g) * z := by ring
          rw [this, hGg]; ring
        rw [e1, e2] at h8
        have : 63 * g * z ≤ 63 * g := by nlinarith
        linarith

/-- negative operands: `x` is `|operand|` -/
theorem neg_wide (f : ℕ) (hf : 23 ≤ f) (x : Int) (hx0 : 0 < x) (hx4 : 4 * x ≤ (f : Int) * pow2 f) :
    |((pow2 f * pow2 f / expPure (pow2 f) x (f - 2) 2 x (x + pow2 f) : Int) : ℝ) / 2 ^ f - Real.exp (-((x : ℝ) / 2 ^ f))| ≤
      Real.exp (-((x : ℝ) / 2 ^ f)) / 2 ^ 20 + 64 / 2 ^ f := by
  obtain ⟨d0, d1⟩ := delta_wide f hf x hx0 hx4
  obtain ⟨na, nb, _, _, n3, n4, n5⟩ := numeric_wide f hf
  have hG : (0 : ℝ) < 2 ^ f := by positivity
  have hP := pow2_pos f
  have hge := expPure_ge (pow2 f) x hP.le hx0.le (f - 2) 2 x (x + pow2 f) hx0.le
  generalize expPure (pow2 f) x (f - 2) 2 x (x + pow2 f) = Rr at *
  have hR0 : 0 < Rr := by omega
  have i1 : pow2 f * pow2 f / Rr * Rr ≤ pow2 f * pow2 f := Int.ediv_mul_le _ (Int.ne_of_gt hR0)
  have i2 : pow2 f * pow2 f < (pow2 f * pow2 f / Rr + 1) * Rr := Int.lt_ediv_add_one_mul_self _ hR0
  have i0 : 0 ≤ pow2 f * pow2 f / Rr := Int.ediv_nonneg (Int.mul_nonneg hP.le hP.le) hR0.le
  generalize pow2 f * pow2 f / Rr = r at *
  have r1 : (r : ℝ) * Rr ≤ 2 ^ f * 2 ^ f := by
    have : ((r * Rr : Int) : ℝ) ≤ ((pow2 f * pow2 f : Int) : ℝ) := by exact_mod_cast i1
    push_cast at this
    rwa [pow2_cast] at this
  have r2 : (2 : ℝ) ^ f * 2 ^ f < ((r : ℝ) + 1) * Rr := by
    have : ((pow2 f * pow2 f : Int) : ℝ) < (((r + 1) * Rr : Int) : ℝ) := by exact_mod_cast i2
    push_cast at this
    rwa [pow2_cast] at this
  have r0 : (0 : ℝ) ≤ (r : ℝ) := by exact_mod_cast i0
  have hRG : (2 : ℝ) ^ f ≤ (Rr : ℝ) := by
    have : ((pow2 f : Int) : ℝ) ≤ (Rr : ℝ) := by exact_mod_cast (show pow2 f ≤ Rr by omega)
    rwa [pow2_cast] at this
  have hy1 : 1 ≤ Real.exp ((x : ℝ) / 2 ^ f) :=
    Real.one_le_exp (div_nonneg (by exact_mod_cast hx0.le) hG.le)
  have hzy : Real.exp (-((x : ℝ) / 2 ^ f)) * Real.exp ((x : ℝ) / 2 ^ f) = 1 := by
    rw [← Real.exp_add]; simp
  generalize Real.exp (-((x : ℝ) / 2 ^ f)) = z at *
  generalize Real.exp ((x : ℝ) / 2 ^ f) = y at *
  have eR : (Rr : ℝ) / 2 ^ f * 2 ^ f = Rr := by field_simp
  have er : (r : ℝ) / 2 ^ f * 2 ^ f = r := by field_simp
  have hw0 : 0 ≤ (r : ℝ) / 2 ^ f := by positivity
  generalize (Rr : ℝ) / 2 ^ f = v at *
  generalize (r : ℝ) / 2 ^ f = w at *
  have hg : (0 : ℝ) < 1 / 2 ^ f := by positivity
  have eg : 1 / (2 : ℝ) ^ f * 2 ^ f = 1 := by field_simp
  have e64 : (64 : ℝ) / 2 ^ f = 64 * (1 / 2 ^ f) := by ring
  have eGg : (2 : ℝ) ^ f / 2 ^ 20 * (1 / 2 ^ f) = 1 / 2 ^ 20 := by field_simp
  have e5 : (2 : ℝ) ^ f / 2 * (1 / 2 ^ f) = 1 / 2 := by field_simp
  rw [e64]
  generalize 1 / (2 : ℝ) ^ f = g at *
  have hv1 : 1 ≤ v := by
    have : 1 * (2 : ℝ) ^ f ≤ v * 2 ^ f := by rw [eR]; linarith
    exact le_of_mul_le_mul_right this hG
  have hvy : v ≤ y := by
    have : v * 2 ^ f ≤ y * 2 ^ f := by rw [eR]; linarith
    exact le_of_mul_le_mul_right this hG
  have q1 : w * v ≤ 1 := by
    have : (w * v) * (2 ^ f * 2 ^ f) ≤ 1 * (2 ^ f * 2 ^ f) := by
      calc (w * v) * (2 ^ f * 2 ^ f) = (w * 2 ^ f) * (v * 2 ^ f) := by ring
        _ = (r : ℝ) * Rr := by rw [er, eR]
        _ ≤ 2 ^ f * 2 ^ f := r1
        _ = 1 * (2 ^ f * 2 ^ f) := by ring
    exact le_of_mul_le_mul_right this (by positivity)
  have q2 : 1 < (w + g) * v := by
    have : 1 * ((2 : ℝ) ^ f * 2 ^ f) < ((w + g) * v) * (2 ^ f * 2 ^ f) := by
      calc 1 * ((2 : ℝ) ^ f * 2 ^ f) = 2 ^ f * 2 ^ f := by ring
        _ < ((r : ℝ) + 1) * Rr := r2
        _ = (w * 2 ^ f + g * 2 ^ f) * (v * 2 ^ f) := by rw [er, eR, eg]
        _ = ((w + g) * v) * (2 ^ f * 2 ^ f) := by ring
    exact lt_of_mul_lt_mul_right this (by positivity)
  -- y - v = δ g
  have hδ : y - v ≤ (2 * ((f : ℝ) - 2) + (8 / 9 + 3 / 8 * ((f : ℝ) - 7) + (1.05855 : ℝ) ^ f / 6) * y) * g := by
    have e : y - v = (2 ^ f * y - Rr) * g := by
      rw [← eR]
      have : (2 ^ f * y - v * 2 ^ f) * g = (y - v) * (g * 2 ^ f) := by ring
      rw [this, eg, mul_one]
    rw [e]
    exact mul_le_mul_of_nonneg_right d1 hg.le
  have hcase : 2 * ((f : ℝ) - 2) + (8 / 9 + 3 / 8 * ((f : ℝ) - 7) + (1.05855 : ℝ) ^ f / 6) + 1 ≤ 64 ∨
      (2 * (2 * ((f : ℝ) - 2) + (8 / 9 + 3 / 8 * ((f : ℝ) - 7) + (1.05855 : ℝ) ^ f / 6)) ≤ 63 + 2 ^ f / 2 ^ 20 ∧
        (2 * ((f : ℝ) - 2) + (8 / 9 + 3 / 8 * ((f : ℝ) - 7) + (1.05855 : ℝ) ^ f / 6)) * g ≤ 1 / 2) := by
    by_cases h28 : f ≤ 28
    · exact Or.inl (n3 h28)
    · refine Or.inr ⟨n4 (by omega), ?_⟩
      have := mul_le_mul_of_nonneg_right n5 hg.le
      rw [e5] at this
      exact this
  exact recip_wide y v w z g _ _ ((2 : ℝ) ^ f / 2 ^ 20) hy1 hv1 hvy hzy hw0 q1 q2 hg hδ na nb hcase eGg

/-! ### the statement of C15 for the trace, `|X| ≤ f / 4` -/

theorem exp_real_wide (f : ℕ) (hf : 23 ≤ f) (x r : Int) (hB : 4 * (x.natAbs : Int) ≤ (f : Int) * pow2 f)
    (h : ExpSpec f x r) :
    |(r : ℝ) / 2 ^ f - Real.exp ((x : ℝ) / 2 ^ f)| ≤ Real.exp ((x : ℝ) / 2 ^ f) / 2 ^ 20 + 64 / 2 ^ f := by
  have hG : (0 : ℝ) < 2 ^ f := by positivity
  rcases h with ⟨hx, hr⟩ | ⟨hx, hr⟩ | ⟨hx, hr⟩ | ⟨hx, hr⟩
  · -- x = 0
    subst hx hr
    rw [pow2_cast]
    simp only [Int.cast_zero, zero_div, Real.exp_zero]
    rw [div_self hG.ne', sub_self, abs_zero]
    positivity
  · -- x = 1
    subst hx hr
    have hsplit : (2 : ℝ) ^ f = 2 ^ 23 * 2 ^ (f - 23) := by rw [← pow_add]; congr 1; omega
    have hQ : (0 : ℝ) < 2 ^ (f - 23) := by positivity
    have e1 : ((pow2 f : Int) : ℝ) / 2 ^ f = 1 := by rw [pow2_cast, div_self hG.ne']
    have e2 : ((22802600 * pow2 (f - 23) : Int) : ℝ) / 2 ^ f = 22802600 / 2 ^ 23 := by
      push_cast
      rw [pow2_cast, hsplit]
      field_simp
    rw [e1, e2]
    have := e_const
    have : (0 : ℝ) ≤ 64 / 2 ^ f := by positivity
    linarith
  · -- x > 0
    rw [hr]
    exact pos_wide f hf x hx (by omega)
  · -- x < 0
    have eneg : (x : ℝ) / 2 ^ f = -((((-x : Int) : ℝ)) / 2 ^ f) := by push_cast; ring
    rw [hr, eneg]
    exact neg_wide f hf (-x) (by omega) (by omega)

end Sfx.ExpAccPf
