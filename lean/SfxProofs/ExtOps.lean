import SfxModel.ExtOps
import SfxProofs.Wrapping
import SfxProofs.Convert
/-
  ExtOps.lean — the operator trait impls on the plain fixed-point types (`SfxModel/ExtOps.lean`, `arith.rs`):

  * `fstep_spec` / `frun_spec`: the model of every operator step (and of programs of any length) is the documented behaviour
    `fstepSpec`, for every valid layout and in BOTH profiles (equality of `Outcome`s: release value and debug flag);
  * `fstep_rel_eq_wstep` / `frun_rel_eq_wrun`: in a release build the plain operators ARE the `Wrapping<F>` operators — except
    `MIN / -1` by an integer (`Div<Inner>` is the primitive `/`, which panics in every profile; `fstep_divInt_overflow`);
  * `fstep_chk_*`: in a checking build a step returns its exact result iff that result is representable and panics
    otherwise (zero divisor included); shifts panic iff the amount is outside `[0, n)`; `Sum` / `Product` panic iff a partial
    result is not representable; `frun_chk_cons`: a program stops at the first such step.
  Core Lean only.
-/
namespace Sfx.ExtOpsPf
open Sfx.Layout Sfx.WrapPf

/-- a step's operands are bit patterns of the layout, `Neg` exists for the signed types only (what the typed API can express) -/
def _root_.Sfx.FStep.wf (L : Layout) : FStep → Prop
  | .add y | .sub y | .mul y | .div y | .rem y => inRange L y
  | .bitand y | .bitor y | .bitxor y => inRange L y
  | .mulInt k | .divInt k | .remInt k => inRange L k
  | .sum ys | .product ys => ∀ y ∈ ys, inRange L y
  | .neg => L.signed = true
  | .not | .shl _ | .shr _ | .sum0 | .product0 => True

theorem wf_toW (L : Layout) (st : FStep) (h : st.wf L) : st.toW.wf L := by
  cases st <;> first | exact h | trivial

/-! ### plumbing -/

theorem plainDoc_of_in (L : Layout) (hn : 0 < L.n) {e : Int} (h : inRange L e) : L.plainDoc e = .ok e false := by
  unfold plainDoc
  rw [wrap_of_in L hn h]
  simp [h]

theorem plainDoc_of_not_in (L : Layout) {e : Int} (h : ¬ inRange L e) : L.plainDoc e = .ok (L.wrap e) true := by
  unfold plainDoc
  simp [h]

/-- the bit complement is `MAX + MIN - x` (`MAX - x` unsigned, `-1 - x` signed) -/
theorem notI_eq (L : Layout) (hn : 0 < L.n) (x : Int) (hx : inRange L x) :
    notI L.signed L.n x = L.max + L.min - x ∧ inRange L (L.max + L.min - x) := by
  unfold inRange at *
  unfold notI Layout.max Layout.min
  have hP := two_pow_pos L.n
  cases hs : L.signed
  · rw [hs] at hx
    have hx' := (inU_iff L.n x).1 hx
    have hin : inI false L.n (maxI false L.n + minI false L.n - x) := by
      rw [inU_iff]; simp [maxI, minI]; omega
    refine ⟨?_, hin⟩
    rw [wrapI_congr false L.n (-1) (y := maxI false L.n + minI false L.n - x) (by simp [maxI, minI]; omega)]
    exact wrapI_of_in hn hin
  · rw [hs] at hx
    have hx' := (inS_iff L.n x).1 hx
    have hQ := two_pow_pos (L.n - 1)
    have he : maxI true L.n + minI true L.n - x = -x - 1 := by simp [maxI, minI]; omega
    have hin : inI true L.n (-x - 1) := by rw [inS_iff]; omega
    rw [he]
    exact ⟨wrapI_of_in hn hin, hin⟩

theorem Outcome.bind_ok_congr {α β : Type} (v : α) (d : Bool) {F G : α → Outcome β} (h : F v = G v) :
    (Outcome.ok v d >>= F) = (Outcome.ok v d >>= G) := by
  show Outcome.bind (.ok v d) F = Outcome.bind (.ok v d) G
  simp only [Outcome.bind, h]

/-- folds of `plainDoc`-shaped steps: two step functions that agree on in-range accumulators give the same fold -/
theorem foldlM_congr_inRange (L : Layout) (hn : 0 < L.n) (f : Int → Int → Outcome Int) (e : Int → Int → Int)
    (ys : List Int) (hf : ∀ acc y, inRange L acc → y ∈ ys → f acc y = L.plainDoc (e acc y)) (acc : Int) (hacc : inRange L acc) :
    ys.foldlM f acc = ys.foldlM (fun acc y => L.plainDoc (e acc y)) acc := by
  induction ys generalizing acc with
  | nil => rfl
  | cons y ys ih =>
    rw [List.foldlM_cons, List.foldlM_cons, hf acc y hacc (List.mem_cons_self ..)]
    exact Outcome.bind_ok_congr _ _
      (ih (fun a z ha hz => hf a z ha (List.mem_cons_of_mem _ hz)) _ (wrap_in L hn _))

/-! ### model = documented behaviour, step by step -/

theorem fstep_spec (L : Layout) (hv : L.valid) (x : Int) (hx : inRange L x) (st : FStep) (hw : st.wf L) :
    L.fstep x st = L.fstepSpec x st := by
  obtain ⟨h2, _, _, hf⟩ := C01.valid_facts hv
  have hn : 0 < L.n := by omega
  cases st with
  | add y => rfl
  | sub y => rfl
  | mul y => exact (mul_forms L hn x y hx hw (C01.mulOverflow_spec L hv x y hx hw)).2
  | div y =>
    show L.divOp x y = if y = 0 then .panic else L.plainDoc (divSpec L.f x y)
    by_cases h0 : y = 0
    · subst h0; rw [if_pos rfl]
      exact (div_zero_forms L x (C01.divOverflow_zero L hv x hx)).2.2.2.2
    · rw [if_neg h0]
      exact (div_forms L hn hf x y hx hw h0 (C01.divOverflow_spec L hv x y hx hw h0)).2
  | rem y =>
    show L.remOp x y = if y = 0 then .panic else L.plainDoc (Int.tmod x y)
    by_cases h0 : y = 0
    · subst h0; rw [if_pos rfl]; exact (rem_zero L h2 hf x hx).2.1
    · rw [if_neg h0, plainDoc_of_in L hn (tmod_inI y hx)]
      exact (rem_spec L h2 hf x y hx hw h0).1
  | bitand y => rfl
  | bitor y => rfl
  | bitxor y => rfl
  | not =>
    show Outcome.ok (notI L.signed L.n x) false = Outcome.ok (L.max + L.min - x) false
    rw [(notI_eq L hn x hx).1]
  | neg => rfl
  | mulInt k => rfl
  | divInt k =>
    show L.divIntOp x k = if k = 0 then .panic else if inRange L (Int.tdiv x k) then .ok (Int.tdiv x k) false else .panic
    by_cases h0 : k = 0
    · subst h0; rw [if_pos rfl]; rfl
    · rw [if_neg h0]
      by_cases hin : inRange L (Int.tdiv x k)
      · rw [if_pos hin]; exact divIntOp_of_in L x k h0 hin
      · rw [if_neg hin]; exact divIntOp_of_not_in L x k h0 hin
  | remInt k =>
    show L.remIntOp x k = if k = 0 then .panic else L.plainDoc (Int.tmod x (k * 2 ^ L.f))
    by_cases h0 : k = 0
    · subst h0; rw [if_pos rfl]; exact (int_zero L h2 hf x hx).2.1
    · rw [if_neg h0, plainDoc_of_in L hn (tmod_inI _ hx)]
      exact (remInt_spec L h2 hf x k hx hw h0).1
  | shl a => rfl
  | shr a => rfl
  | sum ys => rfl
  | product ys =>
    show ys.foldlM (fun acc y => L.mulOp acc y) x = ys.foldlM (fun acc y => L.plainDoc (mulSpec L.f acc y)) x
    exact foldlM_congr_inRange L hn _ _ ys
      (fun acc y hacc hy => (mul_forms L hn acc y hacc (hw y hy) (C01.mulOverflow_spec L hv acc y hacc (hw y hy))).2) x hx
  | sum0 => rfl
  | product0 =>
    show Layout.fromFixed (Layout.ofInt true 32) L 1 = L.plainDoc (2 ^ L.f)
    have h := (ConvPf.fromInt_spec L hv true 32 (by decide) 1 (by decide)).2.2.2.2
    rw [h, Int.one_mul]; rfl

/-! ### results are in range; programs -/

theorem Outcome.bind_ok_eq_ok {α β : Type} {w : α} {dd : Bool} {F : α → Outcome β} {v : β} {d : Bool}
    (h : (Outcome.ok w dd >>= F) = .ok v d) : ∃ d', F w = .ok v d' ∧ d = (dd || d') := by
  change Outcome.bind (.ok w dd) F = .ok v d at h
  cases hF : F w with
  | panic => simp only [Outcome.bind, hF] at h; cases h
  | ok u d' =>
    simp only [Outcome.bind, hF] at h
    injection h with h1 h2
    exact ⟨d', by rw [h1], h2.symm⟩

theorem plainDoc_inRange (L : Layout) (hn : 0 < L.n) {e v : Int} {d : Bool} (h : L.plainDoc e = .ok v d) : inRange L v := by
  unfold plainDoc at h
  injection h with h1 _
  subst h1; exact wrap_in L hn e

theorem foldlM_plainDoc_inRange (L : Layout) (hn : 0 < L.n) (e : Int → Int → Int) (ys : List Int) (acc : Int)
    (hacc : inRange L acc) (v : Int) (d : Bool)
    (h : ys.foldlM (fun acc y => L.plainDoc (e acc y)) acc = .ok v d) : inRange L v := by
  induction ys generalizing acc d with
  | nil =>
    have h' : (Outcome.ok acc false : Outcome Int) = .ok v d := h
    injection h' with h1 _
    subst h1; exact hacc
  | cons y ys ih =>
    rw [List.foldlM_cons] at h
    unfold plainDoc at h
    obtain ⟨d', hF, _⟩ := Outcome.bind_ok_eq_ok h
    exact ih _ (wrap_in L hn _) _ hF

theorem fspec_inRange (L : Layout) (hn : 0 < L.n) (x : Int) (hx : inRange L x) (st : FStep) (v : Int) (d : Bool)
    (h : L.fstepSpec x st = .ok v d) : inRange L v := by
  cases st with
  | add y => exact plainDoc_inRange L hn h
  | sub y => exact plainDoc_inRange L hn h
  | mul y => exact plainDoc_inRange L hn h
  | div y =>
    change (if y = 0 then Outcome.panic else L.plainDoc (divSpec L.f x y)) = .ok v d at h
    split at h
    · cases h
    · exact plainDoc_inRange L hn h
  | rem y =>
    change (if y = 0 then Outcome.panic else L.plainDoc (Int.tmod x y)) = .ok v d at h
    split at h
    · cases h
    · exact plainDoc_inRange L hn h
  | bitand y =>
    change Outcome.ok (andI L.signed L.n x y) false = .ok v d at h
    injection h with h1 _; subst h1; exact wrapI_in hn _
  | bitor y =>
    change Outcome.ok (orI L.signed L.n x y) false = .ok v d at h
    injection h with h1 _; subst h1; exact wrapI_in hn _
  | bitxor y =>
    change Outcome.ok (xorI L.signed L.n x y) false = .ok v d at h
    injection h with h1 _; subst h1; exact wrapI_in hn _
  | not =>
    change Outcome.ok (L.max + L.min - x) false = .ok v d at h
    injection h with h1 _; subst h1; exact (notI_eq L hn x hx).2
  | neg => exact plainDoc_inRange L hn h
  | mulInt k => exact plainDoc_inRange L hn h
  | divInt k =>
    change (if k = 0 then Outcome.panic else if inRange L (Int.tdiv x k) then .ok (Int.tdiv x k) false else .panic) = .ok v d at h
    split at h
    · cases h
    · split at h
      · injection h with h1 _; subst h1; assumption
      · cases h
  | remInt k =>
    change (if k = 0 then Outcome.panic else L.plainDoc (Int.tmod x (k * 2 ^ L.f))) = .ok v d at h
    split at h
    · cases h
    · exact plainDoc_inRange L hn h
  | shl a =>
    change Outcome.ok (L.wrap (x * 2 ^ L.shiftMasked a)) (L.shiftOvf a) = .ok v d at h
    injection h with h1 _; subst h1; exact wrap_in L hn _
  | shr a =>
    change Outcome.ok (x / 2 ^ L.shiftMasked a) (L.shiftOvf a) = .ok v d at h
    injection h with h1 _; subst h1; exact ediv_pow_inI _ hx
  | sum ys => exact foldlM_plainDoc_inRange L hn (· + ·) (x :: ys) 0 (inRange_zero L) v d h
  | product ys => exact foldlM_plainDoc_inRange L hn (mulSpec L.f) ys x hx v d h
  | sum0 =>
    change Outcome.ok (0 : Int) false = .ok v d at h
    injection h with h1 _; subst h1; exact inRange_zero L
  | product0 => exact plainDoc_inRange L hn h

theorem fstep_inRange (L : Layout) (hv : L.valid) (x : Int) (hx : inRange L x) (st : FStep) (hw : st.wf L) (v : Int) (d : Bool)
    (h : L.fstep x st = .ok v d) : inRange L v := by
  rw [fstep_spec L hv x hx st hw] at h
  exact fspec_inRange L (ConvPf.valid_pos hv) x hx st v d h

/-- programs of any length: the model run equals the documented run, in both profiles -/
theorem frun_spec (L : Layout) (hv : L.valid) (p : Profile) (x : Int) (hx : inRange L x) (prog : List FStep)
    (hw : ∀ st ∈ prog, st.wf L) :
    Layout.frun L.fstep p x prog = Layout.frun L.fstepSpec p x prog := by
  induction prog generalizing x with
  | nil => rfl
  | cons st rest ih =>
    have hst : st.wf L := hw st (List.mem_cons_self ..)
    have hs := fstep_spec L hv x hx st hst
    unfold Layout.frun
    rw [hs]
    cases h : L.fstepSpec x st with
    | panic => rfl
    | ok v d =>
      have hv' : inRange L v := fspec_inRange L (ConvPf.valid_pos hv) x hx st v d h
      simp only []
      rw [ih v hv' (fun s hs => hw s (List.mem_cons_of_mem _ hs))]

/-- link with `ArithSpec`: `plainDoc` refines `Form.spec … .plain` (it agrees wherever that constrains the answer, and fixes the
unconstrained case to "panic with checks, wrapped value without") -/
theorem plainDoc_refines_plain (L : Layout) (hn : 0 < L.n) (E : Int) (v : Outcome Val) (hv : Form.spec L E .plain = some v) :
    oInt (L.plainDoc E) = v :=
  plain_spec L hn E (L.plainDoc E) rfl v hv

/-! ### release build: the plain operators are the `Wrapping<F>` operators -/

/-- the one exception: the quotient of `Div<Inner>` must be representable (it is not only for `MIN / -1`) -/
def _root_.Sfx.FStep.divIntOk (L : Layout) (x : Int) : FStep → Prop
  | .divInt k => inRange L (Int.tdiv x k)
  | _ => True

theorem shiftMasked_eq (L : Layout) (hv : L.valid) (a : Int) : L.shiftMasked a = L.shiftAmount a := by
  unfold shiftMasked shiftAmount wrapU
  have hd : ((L.n : Nat) : Int) ∣ 2 ^ 32 := by
    rcases hv.1 with h | h | h | h | h <;> rw [h]
    · exact ⟨2 ^ 29, by decide⟩
    · exact ⟨2 ^ 28, by decide⟩
    · exact ⟨2 ^ 27, by decide⟩
    · exact ⟨2 ^ 26, by decide⟩
    · exact ⟨2 ^ 25, by decide⟩
  rw [Int.emod_emod_of_dvd a hd]

theorem foldlM_plainDoc_val (L : Layout) (e : Int → Int → Int) (ys : List Int) (acc : Int) :
    ∃ d, ys.foldlM (fun acc y => L.plainDoc (e acc y)) acc = .ok (ys.foldl (fun acc y => L.wrap (e acc y)) acc) d := by
  induction ys generalizing acc with
  | nil => exact ⟨false, rfl⟩
  | cons y ys ih =>
    obtain ⟨d, hd⟩ := ih (L.wrap (e acc y))
    refine ⟨(!decide (inRange L (e acc y))) || d, ?_⟩
    rw [List.foldlM_cons, List.foldl_cons]
    show Outcome.bind (.ok (L.wrap (e acc y)) (!decide (inRange L (e acc y)))) _ = _
    simp only [Outcome.bind, hd]

theorem fstep_rel_eq_wstep (L : Layout) (hv : L.valid) (x : Int) (hx : inRange L x) (st : FStep) (hw : st.wf L)
    (hd : st.divIntOk L x) : (L.fstep x st).rel = (L.wstep x st.toW).rel := by
  obtain ⟨h2, _, _, hf⟩ := C01.valid_facts hv
  have hn : 0 < L.n := by omega
  have hW := wstep_spec L hv x hx st.toW (wf_toW L st hw)
  have hF := fstep_spec L hv x hx st hw
  cases st with
  | add y => rfl
  | sub y => rfl
  | mul y => rw [hF, hW]; rfl
  | div y =>
    rw [hF, hW]
    by_cases h0 : y = 0
    · subst h0; rfl
    · simp [fstepSpec, wstepSpec, wexact, FStep.toW, h0, plainDoc, Outcome.rel]
  | rem y =>
    rw [hF, hW]
    by_cases h0 : y = 0
    · subst h0; rfl
    · simp [fstepSpec, wstepSpec, wexact, FStep.toW, h0, plainDoc, Outcome.rel]
  | bitand y => rfl
  | bitor y => rfl
  | bitxor y => rfl
  | not => rfl
  | neg => rfl
  | mulInt k => rfl
  | divInt k =>
    rw [hF, hW]
    have hd' : inRange L (Int.tdiv x k) := hd
    by_cases h0 : k = 0
    · subst h0; rfl
    · simp [fstepSpec, wstepSpec, wexact, FStep.toW, h0, hd', Outcome.rel, wrap_of_in L hn hd']
  | remInt k =>
    rw [hF, hW]
    by_cases h0 : k = 0
    · subst h0; rfl
    · simp [fstepSpec, wstepSpec, wexact, FStep.toW, h0, plainDoc, Outcome.rel]
  | shl a =>
    rw [hF, hW]
    show some (L.wrap (x * 2 ^ L.shiftMasked a)) = some (L.wrap (x * 2 ^ L.shiftAmount a))
    rw [shiftMasked_eq L hv]
  | shr a =>
    rw [hF, hW]
    show some (x / 2 ^ L.shiftMasked a) = some (L.wrap (x / 2 ^ L.shiftAmount a))
    rw [shiftMasked_eq L hv, wrap_of_in L hn (ediv_pow_inI _ hx)]
  | sum ys =>
    obtain ⟨d, hd⟩ := foldlM_plainDoc_val L (· + ·) (x :: ys) 0
    have h1 : L.fstep x (.sum ys) = .ok ((x :: ys).foldl (fun a y => L.wrap (a + y)) 0) d := hd
    have h2 : L.wstep x (FStep.sum ys).toW = .ok ((x :: ys).foldl (fun a y => L.wrap (a + y)) 0) false :=
      foldlM_add L (x :: ys) 0
    rw [h1, h2]; rfl
  | product ys =>
    obtain ⟨d, hd⟩ := foldlM_plainDoc_val L (mulSpec L.f) ys x
    have h1 : L.fstepSpec x (.product ys) = .ok (ys.foldl (fun a y => L.wrap (mulSpec L.f a y)) x) d := hd
    have h2 : L.wstep x (FStep.product ys).toW = .ok (ys.foldl (fun a y => L.wrap (mulSpec L.f a y)) x) false :=
      (foldlM_mul L hn (mulDivOK L hv) ys hw x hx).1
    rw [hF, h1, h2]; rfl
  | sum0 => rfl
  | product0 =>
    rw [hF]
    show some (L.wrap (2 ^ L.f)) = some (L.wrap (1 * 2 ^ L.f))
    rw [Int.one_mul]

/-- `Div<Inner>`: when the quotient is not representable the plain operator panics in EVERY profile, while `Wrapping` wraps -/
theorem fstep_divInt_overflow (L : Layout) (x k : Int) (hk : k ≠ 0) (h : ¬ inRange L (Int.tdiv x k)) :
    L.fstep x (.divInt k) = .panic ∧ L.wstep x (.divInt k) = .ok (L.wrap (Int.tdiv x k)) false := by
  refine ⟨divIntOp_of_not_in L x k hk h, ?_⟩
  show L.wrappingDivInt x k = _
  unfold wrappingDivInt; rw [if_neg hk]; rfl

/-- … and that happens only for `MIN / -1` of a signed type -/
theorem divIntOk_of_not_min (L : Layout) (x k : Int) (hx : inRange L x) (hk : inRange L k)
    (h : ¬ (L.signed = true ∧ k = -1)) : (FStep.divInt k).divIntOk L x := by
  show inRange L (Int.tdiv x k)
  by_cases h0 : k = 0
  · subst h0; rw [Int.tdiv_zero]; exact inRange_zero L
  · exact tdiv_inI hx hk h0 h

/-- no step of the program divides `MIN` by the integer `-1` (evaluated along the run) -/
def divIntSafe (L : Layout) : Int → List FStep → Prop
  | _, [] => True
  | x, st :: rest => st.divIntOk L x ∧ ∀ v d, L.fstep x st = .ok v d → divIntSafe L v rest

theorem frun_rel_eq_wrun (L : Layout) (hv : L.valid) (x : Int) (hx : inRange L x) (prog : List FStep)
    (hw : ∀ st ∈ prog, st.wf L) (hs : divIntSafe L x prog) :
    Layout.frun L.fstep .rel x prog = Layout.wrun L.wstep .rel x (prog.map FStep.toW) := by
  induction prog generalizing x with
  | nil => rfl
  | cons st rest ih =>
    have hst : st.wf L := hw st (List.mem_cons_self ..)
    have hr := fstep_rel_eq_wstep L hv x hx st hst hs.1
    rw [List.map_cons]
    unfold Layout.frun Layout.wrun
    cases hF : L.fstep x st with
    | panic =>
      rw [hF] at hr
      cases hW : L.wstep x st.toW with
      | panic => rfl
      | ok v' d' => rw [hW] at hr; cases hr
    | ok v d =>
      rw [hF] at hr
      cases hW : L.wstep x st.toW with
      | panic => rw [hW] at hr; cases hr
      | ok v' d' =>
        rw [hW] at hr
        have hvv : v = v' := by injection hr
        subst hvv
        have hv' : inRange L v := fstep_inRange L hv x hx st hst v d hF
        have e : ∀ b : Bool, (decide (Profile.rel = Profile.chk) && b) = false := fun b => by cases b <;> rfl
        simp only [e, Bool.false_eq_true, if_false]
        rw [ih v hv' (fun s hs' => hw s (List.mem_cons_of_mem _ hs')) (hs.2 v d hF)]

/-- a program without `Div<Inner>` steps is safe -/
theorem divIntSafe_of_no_divInt (L : Layout) (x : Int) (prog : List FStep) (h : ∀ st ∈ prog, ∀ k, st ≠ .divInt k) :
    divIntSafe L x prog := by
  induction prog generalizing x with
  | nil => trivial
  | cons st rest ih =>
    refine ⟨?_, fun v _ _ => ih v (fun s hs => h s (List.mem_cons_of_mem _ hs))⟩
    cases st with
    | divInt k => exact absurd rfl (h _ (List.mem_cons_self ..) k)
    | _ => trivial

/-- every program on an unsigned type is safe -/
theorem divIntSafe_of_unsigned (L : Layout) (hv : L.valid) (hs : L.signed = false) (x : Int) (hx : inRange L x)
    (prog : List FStep) (hw : ∀ st ∈ prog, st.wf L) : divIntSafe L x prog := by
  induction prog generalizing x with
  | nil => trivial
  | cons st rest ih =>
    have hst : st.wf L := hw st (List.mem_cons_self ..)
    refine ⟨?_, fun v d hF => ih v (fstep_inRange L hv x hx st hst v d hF) (fun s hs' => hw s (List.mem_cons_of_mem _ hs'))⟩
    cases st with
    | divInt k => exact divIntOk_of_not_min L x k hx hst (fun h => by rw [hs] at h; cases h.1)
    | _ => trivial

/-! ### checking build: a step returns its exact result iff that result is representable, and panics otherwise -/

theorem plainDoc_chk (L : Layout) (hn : 0 < L.n) (e : Int) :
    (L.plainDoc e).chk = if inRange L e then some e else none := by
  by_cases h : inRange L e
  · rw [plainDoc_of_in L hn h, if_pos h]; rfl
  · rw [plainDoc_of_not_in L h, if_neg h]; rfl

/-- the single arithmetic / bitwise operators whose documented result is ONE exact value (`Layout.wexact`; `none` = zero divisor) -/
def _root_.Sfx.FStep.arith : FStep → Prop
  | .not | .shl _ | .shr _ | .sum _ | .product _ => False
  | _ => True

theorem fstep_chk_arith (L : Layout) (hv : L.valid) (x : Int) (hx : inRange L x) (st : FStep) (hw : st.wf L) (ha : st.arith) :
    (L.fstep x st).chk = (L.wexact x st.toW).bind (fun e => if inRange L e then some e else none) := by
  have hn : 0 < L.n := ConvPf.valid_pos hv
  rw [fstep_spec L hv x hx st hw]
  cases st with
  | add y => exact plainDoc_chk L hn _
  | sub y => exact plainDoc_chk L hn _
  | mul y => exact plainDoc_chk L hn _
  | div y =>
    by_cases h0 : y = 0
    · subst h0; rfl
    · simp [fstepSpec, wexact, FStep.toW, h0, plainDoc_chk L hn]
  | rem y =>
    by_cases h0 : y = 0
    · subst h0; rfl
    · simp [fstepSpec, wexact, FStep.toW, h0, plainDoc_chk L hn]
  | bitand y =>
    show some (andI L.signed L.n x y) = if inRange L (andI L.signed L.n x y) then some (andI L.signed L.n x y) else none
    rw [if_pos (show inRange L (andI L.signed L.n x y) from wrapI_in hn _)]
  | bitor y =>
    show some (orI L.signed L.n x y) = if inRange L (orI L.signed L.n x y) then some (orI L.signed L.n x y) else none
    rw [if_pos (show inRange L (orI L.signed L.n x y) from wrapI_in hn _)]
  | bitxor y =>
    show some (xorI L.signed L.n x y) = if inRange L (xorI L.signed L.n x y) then some (xorI L.signed L.n x y) else none
    rw [if_pos (show inRange L (xorI L.signed L.n x y) from wrapI_in hn _)]
  | neg => exact plainDoc_chk L hn _
  | mulInt k => exact plainDoc_chk L hn _
  | divInt k =>
    by_cases h0 : k = 0
    · subst h0; rfl
    · by_cases hin : inRange L (Int.tdiv x k)
      · simp [fstepSpec, wexact, FStep.toW, h0, hin, Outcome.chk]
      · simp [fstepSpec, wexact, FStep.toW, h0, hin, Outcome.chk]
  | remInt k =>
    by_cases h0 : k = 0
    · subst h0; rfl
    · simp [fstepSpec, wexact, FStep.toW, h0, plainDoc_chk L hn]
  | sum0 =>
    show some (0 : Int) = if inRange L 0 then some 0 else none
    rw [if_pos (inRange_zero L)]
  | product0 => exact plainDoc_chk L hn _
  | not => exact ha.elim
  | shl a => exact ha.elim
  | shr a => exact ha.elim
  | sum ys => exact ha.elim
  | product ys => exact ha.elim

/-- `Not` never panics -/
theorem fstep_chk_not (L : Layout) (hv : L.valid) (x : Int) (hx : inRange L x) :
    (L.fstep x .not).chk = some (L.max + L.min - x) := by
  rw [fstep_spec L hv x hx .not trivial]; rfl

theorem shift_in (L : Layout) {a : Int} (h : 0 ≤ a ∧ a < L.n) : L.shiftOvf a = false ∧ L.shiftMasked a = a.toNat := by
  unfold shiftOvf shiftMasked
  refine ⟨by simp; omega, ?_⟩
  rw [Int.emod_eq_of_lt h.1 h.2]

theorem shift_out (L : Layout) {a : Int} (h : ¬ (0 ≤ a ∧ a < L.n)) : L.shiftOvf a = true := by
  unfold shiftOvf
  simp; omega

/-- shifts: a panic iff the amount is outside `[0, n)`; inside, the shift itself (bits shifted out of `<<` are lost) -/
theorem fstep_chk_shl (L : Layout) (x a : Int) :
    (L.fstep x (.shl a)).chk = if 0 ≤ a ∧ a < L.n then some (L.wrap (x * 2 ^ a.toNat)) else none := by
  show (Outcome.ok (shlI L.signed L.n x (L.shiftMasked a)) (L.shiftOvf a)).chk = _
  by_cases h : 0 ≤ a ∧ a < L.n
  · rw [if_pos h, (shift_in L h).1, (shift_in L h).2]; rfl
  · rw [if_neg h, shift_out L h]; rfl

theorem fstep_chk_shr (L : Layout) (x a : Int) :
    (L.fstep x (.shr a)).chk = if 0 ≤ a ∧ a < L.n then some (x / 2 ^ a.toNat) else none := by
  show (Outcome.ok (shrI x (L.shiftMasked a)) (L.shiftOvf a)).chk = _
  by_cases h : 0 ≤ a ∧ a < L.n
  · rw [if_pos h, (shift_in L h).1, (shift_in L h).2]; rfl
  · rw [if_neg h, shift_out L h]; rfl

/-- every partial result of a left fold with the EXACT operation `e` is representable -/
def foldFits (L : Layout) (e : Int → Int → Int) : Int → List Int → Prop
  | _, [] => True
  | acc, y :: ys => inRange L (e acc y) ∧ foldFits L e (e acc y) ys

theorem Outcome.chk_bind_true {α β : Type} (w : α) (F : α → Outcome β) : (Outcome.ok w true >>= F).chk = none := by
  change (Outcome.bind (.ok w true) F).chk = none
  cases hF : F w with
  | panic => simp only [Outcome.bind, hF]; rfl
  | ok u d => simp only [Outcome.bind, hF, Bool.true_or]; rfl

theorem foldlM_chk (L : Layout) (hn : 0 < L.n) (e : Int → Int → Int) (ys : List Int) (acc v : Int) :
    (ys.foldlM (fun a y => L.plainDoc (e a y)) acc).chk = some v ↔ foldFits L e acc ys ∧ v = ys.foldl e acc := by
  induction ys generalizing acc with
  | nil =>
    show some acc = some v ↔ True ∧ v = acc
    constructor
    · intro h; injection h with h; exact ⟨trivial, h.symm⟩
    · rintro ⟨_, h⟩; rw [h]
  | cons y ys ih =>
    rw [List.foldlM_cons, List.foldl_cons]
    by_cases hin : inRange L (e acc y)
    · rw [plainDoc_of_in L hn hin, Outcome.ok_false_bind, ih]
      constructor
      · rintro ⟨a, b⟩; exact ⟨⟨hin, a⟩, b⟩
      · rintro ⟨⟨_, a⟩, b⟩; exact ⟨a, b⟩
    · rw [plainDoc_of_not_in L hin, Outcome.chk_bind_true]
      constructor
      · intro h; cases h
      · rintro ⟨⟨h, _⟩, _⟩; exact absurd h hin

/-- `Sum`: the exact sum, iff every partial sum `0 + x`, `x + y₁`, … is representable -/
theorem fstep_chk_sum (L : Layout) (hn : 0 < L.n) (x : Int) (ys : List Int) (v : Int) :
    (L.fstep x (.sum ys)).chk = some v ↔ foldFits L (· + ·) 0 (x :: ys) ∧ v = ys.foldl (· + ·) x := by
  have h := foldlM_chk L hn (· + ·) (x :: ys) 0 v
  rw [List.foldl_cons, Int.zero_add] at h
  exact h

/-- `Product`: the exact left-to-right product (each factor rounded to the grid as `Mul` does), iff every partial product is
representable -/
theorem fstep_chk_product (L : Layout) (hv : L.valid) (x : Int) (hx : inRange L x) (ys : List Int)
    (hw : ∀ y ∈ ys, inRange L y) (v : Int) :
    (L.fstep x (.product ys)).chk = some v ↔ foldFits L (mulSpec L.f) x ys ∧ v = ys.foldl (mulSpec L.f) x := by
  rw [fstep_spec L hv x hx (.product ys) hw]
  exact foldlM_chk L (ConvPf.valid_pos hv) (mulSpec L.f) ys x v

/-! ### programs: a checking build stops at the first step that panics with checks -/

theorem frun_chk_cons (step : Int → FStep → Outcome Int) (x : Int) (st : FStep) (rest : List FStep) :
    Layout.frun step .chk x (st :: rest) =
      match (step x st).chk with
      | none => [none]
      | some v => some v :: Layout.frun step .chk v rest := by
  show (match step x st with
    | .panic => [none]
    | .ok v d => if Profile.chk = Profile.chk && d then [none] else some v :: Layout.frun step .chk v rest) = _
  cases step x st with
  | panic => rfl
  | ok v d => cases d <;> rfl

theorem frun_rel_cons (step : Int → FStep → Outcome Int) (x : Int) (st : FStep) (rest : List FStep) :
    Layout.frun step .rel x (st :: rest) =
      match (step x st).rel with
      | none => [none]
      | some v => some v :: Layout.frun step .rel v rest := by
  show (match step x st with
    | .panic => [none]
    | .ok v d => if Profile.rel = Profile.chk && d then [none] else some v :: Layout.frun step .rel v rest) = _
  cases step x st with
  | panic => rfl
  | ok v d => cases d <;> rfl

/-- a run that completes in a checking build is the release run -/
theorem frun_chk_complete (step : Int → FStep → Outcome Int) (x : Int) (prog : List FStep)
    (h : none ∉ Layout.frun step .chk x prog) : Layout.frun step .chk x prog = Layout.frun step .rel x prog := by
  induction prog generalizing x with
  | nil => rfl
  | cons st rest ih =>
    rw [frun_chk_cons] at h ⊢
    rw [frun_rel_cons]
    cases hs : step x st with
    | panic => rw [hs] at h; exact absurd (List.mem_cons_self ..) h
    | ok v d =>
      rw [hs] at h
      cases d with
      | true => exact absurd (List.mem_cons_self ..) h
      | false =>
        show some v :: Layout.frun step .chk v rest = some v :: Layout.frun step .rel v rest
        rw [ih v (fun hm => h (List.mem_cons_of_mem _ hm))]

/-- … hence the `Wrapping<F>` run -/
theorem frun_chk_complete_eq_wrun (L : Layout) (hv : L.valid) (x : Int) (hx : inRange L x) (prog : List FStep)
    (hw : ∀ st ∈ prog, st.wf L) (hs : divIntSafe L x prog) (h : none ∉ Layout.frun L.fstep .chk x prog) :
    Layout.frun L.fstep .chk x prog = Layout.wrun L.wstep .rel x (prog.map FStep.toW) := by
  rw [frun_chk_complete L.fstep x prog h]
  exact frun_rel_eq_wrun L hv x hx prog hw hs

/-- non-vacuity: a valid layout, a well-formed program with an overflow in the middle; the two profiles differ -/
example : (⟨true, 8, 4⟩ : Layout).valid ∧ inRange ⟨true, 8, 4⟩ 100 ∧
    Layout.frun (Layout.fstep ⟨true, 8, 4⟩) .rel 100 [.add 27, .add 1, .shl (-1), .divInt (-1)] = [some 127, some (-128), some 0, some 0] ∧
    Layout.frun (Layout.fstep ⟨true, 8, 4⟩) .chk 100 [.add 27, .add 1, .shl (-1), .divInt (-1)] = [some 127, none] ∧
    Layout.frun (Layout.fstep ⟨true, 8, 4⟩) .rel (-128) [.divInt (-1)] = [none] := by
  decide

end Sfx.ExtOpsPf

#print axioms Sfx.ExtOpsPf.fstep_spec
#print axioms Sfx.ExtOpsPf.fstep_inRange
#print axioms Sfx.ExtOpsPf.frun_spec
#print axioms Sfx.ExtOpsPf.plainDoc_refines_plain
#print axioms Sfx.ExtOpsPf.fstep_rel_eq_wstep
#print axioms Sfx.ExtOpsPf.fstep_divInt_overflow
#print axioms Sfx.ExtOpsPf.divIntOk_of_not_min
#print axioms Sfx.ExtOpsPf.frun_rel_eq_wrun
#print axioms Sfx.ExtOpsPf.divIntSafe_of_no_divInt
#print axioms Sfx.ExtOpsPf.divIntSafe_of_unsigned
#print axioms Sfx.ExtOpsPf.fstep_chk_arith
#print axioms Sfx.ExtOpsPf.fstep_chk_not
#print axioms Sfx.ExtOpsPf.fstep_chk_shl
#print axioms Sfx.ExtOpsPf.fstep_chk_shr
#print axioms Sfx.ExtOpsPf.fstep_chk_sum
#print axioms Sfx.ExtOpsPf.fstep_chk_product
#print axioms Sfx.ExtOpsPf.frun_chk_cons
#print axioms Sfx.ExtOpsPf.frun_chk_complete
#print axioms Sfx.ExtOpsPf.frun_chk_complete_eq_wrun
