import SfxProofs.TrigAccBase
/-
  TrigAccTan2Base.lean — a BACKWARD induction principle over the plain-integer CORDIC iteration (`statePure`): a relation between
  the state at step `i` and the FINAL state is established from the last step towards the first.  Core only.
-/
attribute [-instance] Monoid.toNPow

namespace Sfx.TrigAccPf
open Sfx.Trans Sfx.TrigPf

theorem state_ind_back (f : Nat) (Q : Nat → Int → Int → Int → Int → Int → Int → Prop)
    (hbase : ∀ x y z, Q 24 x y z x y z)
    (hstep : ∀ i x y z x' y' z', i < 24 →
      Q (i + 1) (stepPure f i x y z).1 (stepPure f i x y z).2.1 (stepPure f i x y z).2.2 x' y' z' → Q i x y z x' y' z') :
    ∀ (k i : Nat) (x y z : Int), i + k = 24 →
      Q i x y z (statePure f k i x y z).1 (statePure f k i x y z).2.1 (statePure f k i x y z).2.2
  | 0, i, x, y, z, hik => by
    have : i = 24 := by omega
    subst this
    exact hbase x y z
  | k + 1, i, x, y, z, hik => by
    have ih := state_ind_back f Q hbase hstep k (i + 1) (stepPure f i x y z).1 (stepPure f i x y z).2.1
      (stepPure f i x y z).2.2 (by omega)
    exact hstep i x y z _ _ _ (by omega) ih

end Sfx.TrigAccPf
