import SfxModel.Arith
import SfxProofs.PrimLemmas
import SfxProofs.FallbackMulCombine
/-
  FallbackMulFlat.lean — the monadic plumbing of `mul_div_fallback!::mul_overflow`: if every intermediate
  quantity is in range, the `do` block reduces to a single call of `combine_lo_then_shl` on the exact
  column sums and no check fires.
-/
namespace Sfx

theorem wrapU_wrapI (s : Bool) (n : Nat) (x : Int) : wrapU n (wrapI s n x) = wrapU n x :=
  wrapI_wrapI false s n x

theorem uadd_ok {s : Bool} {n : Nat} (hn : 0 < n) {x y : Int} (h : inI s n (x + y)) :
    uadd s n x y = .ok (x + y) false := by
  unfold uadd; rw [wrapI_of_in hn h]; simp [h]

theorem shiftLoUpUnsigned_ok (s : Bool) (n : Nat) (x H : Int) (hH : (2 : Int) ^ (n / 2) = H)
    (hx0 : 0 ≤ x) (hx1 : x < H) (hin : inI false n (x * H)) :
    shiftLoUpUnsigned s n x = .ok (x * H) false := by
  unfold shiftLoUpUnsigned Outcome.dassert shlI shrI
  rw [hH, Int.ediv_eq_zero_of_lt hx0 hx1, wrapU_wrapI, wrapU_of_in hin]
  rfl

theorem shiftLoUp_ok (s : Bool) (n : Nat) (c H : Int) (hH : (2 : Int) ^ (n / 2) = H) (hH2 : 2 ≤ H) (hn : 0 < n)
    (hc : c = 0 ∨ c = 1 ∨ (s = true ∧ c = -1)) (hin : inI s n (c * H)) :
    shiftLoUp s n c = .ok (c * H) false := by
  unfold shiftLoUp Outcome.dassert shlI shrI
  rw [hH, wrapI_of_in hn hin]
  rcases hc with h | h | ⟨hs, h⟩
  · subst h; simp; rfl
  · subst h
    rw [Int.ediv_eq_zero_of_lt (by omega) (by omega)]; simp; rfl
  · subst h; subst hs
    have : (-1 : Int) / H = -1 := by
      rw [ediv_eq_iff' (by omega)]; omega
    rw [this]; simp; rfl

theorem fallback_flat (s : Bool) (n f : Nat) (hn : 0 < n) (hf0 : f ≠ 0) (a b : Int)
    (H lh ll rh rl c1h c1l col12 carry c2h c2l : Int)
    (hH : (2 : Int) ^ (n / 2) = H) (hH2 : 2 ≤ H)
    (hlh : a / H = lh) (hll : a % H = ll) (hrh : b / H = rh) (hrl : b % H = rl)
    (h1 : inI s n (lh * rl)) (h2 : inI s n (ll * rh)) (h3 : inI s n (lh * rh)) (h4 : inI false n (ll * rl))
    (hc1h : ll * rl / H = c1h) (hc1l : ll * rl % H = c1l)
    (h5 : inI s n c1h) (h6 : inI s n (lh * rl + c1h))
    (hcc : carryingAdd s n (lh * rl + c1h) (ll * rh) = (col12, carry))
    (hc2h : col12 / H = c2h) (hc2l : col12 % H = c2l)
    (h7 : inI false n (c2l * H)) (h8 : inI false n (c2l * H + c1l))
    (h9 : inI s n (lh * rh + c2h))
    (h10 : carry = 0 ∨ carry = 1 ∨ (s = true ∧ carry = -1))
    (h11 : inI s n (carry * H))
    (h12 : inI s n (lh * rh + c2h + carry * H)) :
    mulOverflowFallback s n f a b = combineLoThenShl s n (lh * rh + c2h + carry * H) (c2l * H + c1l) f := by
  have hHpos : 0 < H := by omega
  have hc2l0 : 0 ≤ c2l := by rw [← hc2l]; exact Int.emod_nonneg _ (by omega)
  have hc2l1 : c2l < H := by rw [← hc2l]; exact Int.emod_lt_of_pos _ hHpos
  unfold mulOverflowFallback
  simp only [hf0, if_false, hiLo, shrI, hH, hlh, hll, hrh, hrl,
    wrapI_of_in hn h1, wrapI_of_in hn h2, wrapI_of_in hn h3, wrapU_wrapI, wrapU_of_in h4, hc1h, hc1l,
    wrapI_of_in hn h5]
  rw [uadd_ok hn h6, Outcome.ok_false_bindF]
  simp only [hcc, hc2h, hc2l]
  rw [shiftLoUpUnsigned_ok s n c2l H hH hc2l0 hc2l1 h7, Outcome.ok_false_bindF,
    uadd_ok hn h8, Outcome.ok_false_bindF, uadd_ok hn h9, Outcome.ok_false_bindF,
    shiftLoUp_ok s n carry H hH hH2 hn h10 h11, Outcome.ok_false_bindF, uadd_ok hn h12, Outcome.ok_false_bindF]

end Sfx
