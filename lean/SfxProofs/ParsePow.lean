import SfxModel.TextSpec
import SfxModel.FromStr
import SfxProofs.PrimLemmas
/-
  ParsePow.lean — C08 part B: the radix-2/8/16 fraction converters of `from_str.rs`
  (`bin_str_frac_to_bin`, `oct_str_frac_to_bin`, `hex_str_frac_to_bin`) return the correctly rounded
  (nearest, ties to even) `nbits`-bit fraction `E = rneDiv (v * 2^nbits) (r^m)` of the exact value `v / r^m`,
  or `None` exactly when `E` reaches `2^nbits` (= 1.0; `rneDiv_frac_le` shows `E ≤ 2^nbits` always).  Core Lean only.

  Main theorems: `binStrFracToBin_spec`, `octStrFracToBin_spec`, `hexStrFracToBin_spec` (any width `n ≥ nbits`, not only the
  five primitive widths).  Hypotheses: `nbits ≤ n`, `bytes ≠ []`, all bytes valid digits (`digitsVal r bytes = some v`), last
  byte not `'0'` (the tokeniser trims trailing zeros); each is shown necessary by an `example` at the end of the file.

  The `None` condition in the code: `checked_add` overflow when `nbits = n` (`acc + 1 = 2^n`), `acc >> nbits ≠ 0` when
  `nbits < n` (`acc + 1 = 2^nbits`); both are `E = 2^nbits` (`fracFinish_nat`).
  Debug-only checks: none fires under the hypotheses.  The final `acc << rem_bits` has `rem_bits ≤ nbits - k < n` as soon as one
  digit was consumed; `rem_bits = n` needs `bytes = []` and `nbits = n`, which the model flags (`dbg = true`, also from the
  `debug_assert!`), but `get_frac` tests `frac.is_empty()` first, so it is unreachable: no finding.

  Proof structure: `powFracLoop_spec` is the loop invariant for any digit width `k ≥ 1` (`acc = A` holds the consumed digits
  exactly, the result is `rne(((A·R^m + w)·2^rem) / R^m)` for the remaining `m` digits of value `w`); `finish_case` /
  `finish_rne` is the rounding decision at the digit that straddles the boundary; `binFracLoop_eq` shows the binary loop is the
  `k = 1` instance.
-/
namespace Sfx.ParsePowPf
open Sfx.TextSpec

/-! ### `rneDiv` arithmetic -/

theorem rneDiv_of_decomp (num den q r : Nat) (h : num = q * den + r) (hr : r < den) :
    rneDiv num den =
      if 2 * r < den then q else if 2 * r > den then q + 1 else if q % 2 = 0 then q else q + 1 := by
  have hden : 0 < den := by omega
  have hq : num / den = q := by
    subst h
    rw [Nat.mul_comm, Nat.mul_add_div hden, Nat.div_eq_of_lt hr, Nat.add_zero]
  have hm : num % den = r := by
    subst h
    rw [Nat.mul_comm, Nat.mul_add_mod, Nat.mod_eq_of_lt hr]
  simp only [rneDiv, hq, hm]

theorem rneDiv_one (x : Nat) : rneDiv x 1 = x := by
  rw [rneDiv_of_decomp x 1 x 0 (by omega) (by omega)]; simp

theorem rneDiv_mul_cancel (x y c : Nat) (hy : 0 < y) (hc : 0 < c) :
    rneDiv (x * c) (y * c) = rneDiv x y := by
  have h1 : x = x / y * y + x % y := by
    have := Nat.div_add_mod x y; rw [Nat.mul_comm] at this; omega
  have h2 : x % y < y := Nat.mod_lt x hy
  generalize x / y = q at h1
  generalize x % y = r at h1 h2
  have h3 : x * c = q * (y * c) + r * c := by
    rw [h1, Nat.add_mul, Nat.mul_assoc]
  have h4 : r * c < y * c := Nat.mul_lt_mul_of_pos_right h2 hc
  rw [rneDiv_of_decomp _ _ q (r * c) h3 h4, rneDiv_of_decomp _ _ q r h1 h2]
  have e1 : 2 * (r * c) = (2 * r) * c := by rw [Nat.mul_assoc]
  have c1 : 2 * (r * c) < y * c ↔ 2 * r < y := by
    rw [e1]; exact Nat.mul_lt_mul_right hc
  have c2 : 2 * (r * c) > y * c ↔ 2 * r > y := by
    rw [e1]; exact Nat.mul_lt_mul_right hc
  simp only [c1, c2]

/-- the rounding decision at the digit that straddles the `nbits` boundary: `P = 2^rem` kept bits, `S = 2H = 2^(k-rem)`
dropped bits of this digit (`bit` = half bit, `low` = bits below it), `M = R^(later digits)`, `w'` = later digits -/
theorem finish_rne (A P S H M hi bit low w' : Nat) (hS : S = 2 * H) (hP : 0 < P) (hM : 0 < M)
    (hbit : bit < 2) (hlow : low < H) (hw : w' < M) :
    rneDiv ((A * (M * (P * S)) + ((hi * S + (H * bit + low)) * M + w')) * P) (M * (P * S)) =
      if bit = 0 then A * P + hi
      else if low ≠ 0 ∨ w' ≠ 0 then A * P + hi + 1
      else if (A * P + hi) % 2 = 0 then A * P + hi else A * P + hi + 1 := by
  have hH : 0 < H := by omega
  have hSM : 0 < S * M := Nat.mul_pos (by omega) hM
  have e1 : M * (P * S) = (S * M) * P := by
    rw [Nat.mul_comm M, Nat.mul_comm P S, Nat.mul_assoc, Nat.mul_assoc, Nat.mul_comm P M]
  rw [e1, rneDiv_mul_cancel _ _ _ hSM hP]
  have e2 : A * (S * M * P) + ((hi * S + (H * bit + low)) * M + w') =
      (A * P + hi) * (S * M) + ((H * bit + low) * M + w') := by
    rw [Nat.add_mul (hi * S), Nat.add_mul (A * P)]
    have : A * (S * M * P) = A * P * (S * M) := by
      rw [Nat.mul_assoc A P, Nat.mul_comm P (S * M)]
    rw [this, Nat.mul_assoc hi S M]; omega
  have e3 : S * M = 2 * (H * M) := by rw [hS, Nat.mul_assoc]
  have e4 : (H * bit + low) * M = (H * M) * bit + low * M := by
    rw [Nat.add_mul, Nat.mul_assoc, Nat.mul_comm bit M, ← Nat.mul_assoc]
  have e5 : low * M + M ≤ H * M := by
    have : (low + 1) * M ≤ H * M := Nat.mul_le_mul_right M hlow
    rw [Nat.add_mul, Nat.one_mul] at this; exact this
  have e6 : low * M = 0 ↔ low = 0 := by
    constructor
    · intro h; rcases Nat.mul_eq_zero.1 h with h | h <;> omega
    · intro h; rw [h, Nat.zero_mul]
  rw [e2, e3, e4]
  clear e1 e2 e4 hSM
  generalize H * M = HM at *
  generalize low * M = lM at *
  generalize A * P + hi = q at *
  have hb : bit = 0 ∨ bit = 1 := by omega
  rcases hb with hb | hb
  · subst hb
    rw [rneDiv_of_decomp _ _ q (lM + w') (by omega) (by omega)]
    (repeat' split) <;> omega
  · subst hb
    rw [rneDiv_of_decomp _ _ q (HM + lM + w') (by omega) (by omega)]
    (repeat' split) <;> omega

/-! ### digits -/

theorem digitVal_some {r b d : Nat} (h : digitVal r b = some d) :
    d < r ∧ ((48 ≤ b ∧ b ≤ 57 ∧ d = b - 48) ∨ (97 ≤ b ∧ b ≤ 102 ∧ d = b - 87) ∨ (65 ≤ b ∧ b ≤ 70 ∧ d = b - 55)) := by
  unfold digitVal at h
  simp only at h
  split at h
  · simp only [Option.bind_some] at h
    split at h
    · injection h with h; omega
    · cases h
  · split at h
    · simp only [Option.bind_some] at h
      split at h
      · injection h with h; omega
      · cases h
    · split at h
      · simp only [Option.bind_some] at h
        split at h
        · injection h with h; omega
        · cases h
      · cases h

theorem digitVal_ne_zero {r b d : Nat} (h : digitVal r b = some d) (hb : b ≠ 48) : d ≠ 0 := by
  have := (digitVal_some h).2; omega

/-- digits of a radix `≤ 10` are ASCII `0..9`, and `byte - b'0'` is their value -/
theorem digitVal_small {r b d : Nat} (hr : r ≤ 10) (h : digitVal r b = some d) : FromStr.digitVal b = d := by
  have := digitVal_some h; unfold FromStr.digitVal; omega

/-- `unchecked_hex_digit` is the digit value on every valid hex digit byte (both cases) -/
theorem digitVal_hex {b d : Nat} (h : digitVal 16 b = some d) : FromStr.uncheckedHexDigit b = d := by
  have h1 := digitVal_some h
  unfold FromStr.uncheckedHexDigit
  have h2 : b &&& 0x0f = b % 16 := Nat.and_two_pow_sub_one_eq_mod b 4
  rw [h2]; split <;> omega

def stepF (r : Nat) (acc b : Nat) : Option Nat := (digitVal r b).map fun v => acc * r + v

theorem stepF_eq (r a b : Nat) : stepF r a b = (digitVal r b).map fun v => a * r + v := rfl

theorem digitsVal_eq (r : Nat) (ds : List Nat) : digitsVal r ds = ds.foldlM (stepF r) 0 := rfl

theorem foldlM_acc (r : Nat) : ∀ (ds : List Nat) (a : Nat),
    ds.foldlM (stepF r) a = (ds.foldlM (stepF r) 0).map (fun w => a * r ^ ds.length + w) := by
  intro ds
  induction ds with
  | nil => intro a; simp
  | cons b l ih =>
    intro a
    rw [List.foldlM_cons, List.foldlM_cons, stepF_eq, stepF_eq]
    cases hd : digitVal r b with
    | none => simp
    | some d =>
      simp only [Option.map_some, Option.bind_eq_bind, Option.bind_some]
      rw [ih (a * r + d), ih (0 * r + d)]
      cases List.foldlM (stepF r) 0 l with
      | none => simp
      | some x =>
        simp only [Option.map_some, List.length_cons, Nat.pow_succ, Nat.zero_mul, Nat.zero_add]
        congr 1
        rw [Nat.add_mul, Nat.mul_assoc, Nat.mul_comm r, Nat.add_assoc]

theorem digitsVal_nil (r : Nat) : digitsVal r [] = some 0 := rfl

theorem digitsVal_cons {r b : Nat} {rest : List Nat} {w : Nat} (h : digitsVal r (b :: rest) = some w) :
    ∃ d w', digitVal r b = some d ∧ digitsVal r rest = some w' ∧ w = d * r ^ rest.length + w' := by
  rw [digitsVal_eq, List.foldlM_cons, stepF_eq] at h
  cases hd : digitVal r b with
  | none => rw [hd] at h; simp at h
  | some d =>
    rw [hd] at h
    simp only [Option.map_some, Option.bind_eq_bind, Option.bind_some] at h
    rw [foldlM_acc] at h
    cases hw : List.foldlM (stepF r) 0 rest with
    | none => rw [hw] at h; simp at h
    | some w' =>
      rw [hw] at h
      simp only [Option.map_some, Nat.zero_mul, Nat.zero_add] at h
      injection h with h
      exact ⟨d, w', rfl, hw, h.symm⟩

theorem digitsVal_lt {r : Nat} : ∀ (ds : List Nat) (w : Nat), digitsVal r ds = some w → w < r ^ ds.length := by
  intro ds
  induction ds with
  | nil => intro w h; rw [digitsVal_nil] at h; injection h with h; subst h; simp
  | cons b l ih =>
    intro w h
    obtain ⟨d, w', hd, hw', rfl⟩ := digitsVal_cons h
    have h1 := ih w' hw'
    have h2 := (digitVal_some hd).1
    have h3 : (d + 1) * r ^ l.length ≤ r * r ^ l.length := Nat.mul_le_mul_right _ h2
    rw [Nat.add_mul, Nat.one_mul] at h3
    rw [List.length_cons, Nat.pow_succ, Nat.mul_comm _ r]
    omega

/-- a digit string whose last digit is not `'0'` has a non-zero value -/
theorem digitsVal_ne_zero {r : Nat} : ∀ (ds : List Nat) (w : Nat), ds ≠ [] → ds.getLast? ≠ some 48 →
    digitsVal r ds = some w → w ≠ 0 := by
  intro ds
  induction ds with
  | nil => intro w h; exact absurd rfl h
  | cons b l ih =>
    intro w _ hl h
    obtain ⟨d, w', hd, hw', rfl⟩ := digitsVal_cons h
    cases l with
    | nil =>
      have : b ≠ 48 := by intro hb; apply hl; simp [hb]
      have := digitVal_ne_zero hd this
      simp; omega
    | cons c l' =>
      rw [List.getLast?_cons_cons] at hl
      have := ih w' (by simp) hl hw'
      omega

/-! ### bit tests on a digit -/

theorem and_two_pow' (d j : Nat) : d &&& 2 ^ j = (d / 2 ^ j % 2) * 2 ^ j := by
  have hp : 0 < 2 ^ j := Nat.two_pow_pos j
  have h1 : (d &&& 2 ^ j) % 2 ^ j = 0 := by
    rw [Nat.and_mod_two_pow, Nat.mod_self, Nat.and_zero]
  have h2 : (d &&& 2 ^ j) / 2 ^ j = d / 2 ^ j % 2 := by
    rw [Nat.and_div_two_pow, Nat.div_self hp, Nat.and_one_is_mod]
  have h3 := Nat.div_add_mod (d &&& 2 ^ j) (2 ^ j)
  rw [h1, h2, Nat.add_zero, Nat.mul_comm] at h3
  exact h3.symm

theorem half_test (d j : Nat) : (d &&& (1 <<< j) != 0) = decide (d / 2 ^ j % 2 = 1) := by
  rw [Nat.one_shiftLeft, and_two_pow']
  have hp : 0 < 2 ^ j := Nat.two_pow_pos j
  have h2 : d / 2 ^ j % 2 < 2 := Nat.mod_lt _ (by decide)
  generalize d / 2 ^ j % 2 = bit at *
  have hb : bit = 0 ∨ bit = 1 := by omega
  rcases hb with hb | hb <;> subst hb <;> simp <;> omega

theorem low_test (d j : Nat) : (d &&& ((1 <<< j) - 1) != 0) = decide (d % 2 ^ j ≠ 0) := by
  rw [Nat.one_shiftLeft, Nat.and_two_pow_sub_one_eq_mod]
  by_cases h : d % 2 ^ j = 0 <;> simp [h]

/-- split of a digit `d` at the boundary: `s = j + 1` dropped bits, half bit at position `j` -/
theorem digit_split (d j : Nat) :
    d = d / 2 ^ (j + 1) * 2 ^ (j + 1) + (2 ^ j * (d / 2 ^ j % 2) + d % 2 ^ j) := by
  have h1 := Nat.div_add_mod d (2 ^ (j + 1))
  have h2 : d % 2 ^ (j + 1) = d % 2 ^ j + 2 ^ j * (d / 2 ^ j % 2) := by
    rw [Nat.pow_succ]; exact Nat.mod_mul
  rw [Nat.mul_comm] at h1
  omega

/-! ### model primitives on naturals -/

/-- result packaging: `Some(E)` when it fits `nbits` bits, `None` when the fraction rounded up to 1 -/
def fin (nbits E : Nat) : Option Int := if E < 2 ^ nbits then some (E : Int) else none

theorem shl_nat (A j n : Nat) (h : A * 2 ^ j < 2 ^ n) : shlI false n (A : Int) j = ((A * 2 ^ j : Nat) : Int) := by
  unfold shlI wrapI wrapU
  simp only [Bool.false_eq_true, if_false]
  have h' : ((A * 2 ^ j : Nat) : Int) < ((2 ^ n : Nat) : Int) := Int.ofNat_lt.2 h
  rw [Int.natCast_mul, Int.natCast_pow, Int.natCast_pow] at h'
  rw [Int.natCast_mul, Int.natCast_pow]
  have h0 : (0 : Int) ≤ (A : Int) * ((2 : Nat) : Int) ^ j :=
    Int.mul_nonneg (Int.natCast_nonneg A) (Int.le_of_lt (two_pow_pos j))
  exact Int.emod_eq_of_lt h0 h'

theorem isOdd_nat (q : Nat) : FromStr.isOdd (q : Int) = decide (q % 2 = 1) := by
  unfold FromStr.isOdd
  by_cases h : q % 2 = 1
  · have : (q : Int) % 2 = 1 := by omega
    simp [h, this]
  · have : (q : Int) % 2 = 0 := by omega
    simp [h, this]

theorem fracFinish_nat (n nbits : Nat) (hn : nbits ≤ n) (q : Nat) (hq : q < 2 ^ nbits) (ru : Bool) :
    FromStr.fracFinish n nbits (q : Int) ru = fin nbits (if ru then q + 1 else q) := by
  have hP : (0 : Int) < 2 ^ nbits := two_pow_pos nbits
  have hq' : (q : Int) < 2 ^ nbits := by
    have : ((q : Nat) : Int) < ((2 ^ nbits : Nat) : Int) := Int.ofNat_lt.2 hq
    rwa [Int.natCast_pow] at this
  have hle : (2 : Int) ^ nbits ≤ 2 ^ n := pow_le_pow hn
  have hfin : ∀ E : Nat, fin nbits E = if (E : Int) < 2 ^ nbits then some (E : Int) else none := by
    intro E
    unfold fin
    have : E < 2 ^ nbits ↔ (E : Int) < 2 ^ nbits := by
      rw [← Int.ofNat_lt, Int.natCast_pow]; rfl
    simp only [this]
  unfold FromStr.fracFinish chkI
  rw [hfin]
  cases ru with
  | false =>
    have h0 : shrI (q : Int) nbits = 0 := by
      unfold shrI; exact Int.ediv_eq_zero_of_lt (Int.natCast_nonneg q) hq'
    simp [h0, hq']
  | true =>
    simp only [if_true, inU_iff]
    by_cases hlt : (q : Int) + 1 < 2 ^ nbits
    · have h0 : shrI ((q : Int) + 1) nbits = 0 := by
        unfold shrI; exact Int.ediv_eq_zero_of_lt (by omega) hlt
      have h1 : (0 : Int) ≤ (q : Int) + 1 ∧ (q : Int) + 1 < 2 ^ n := by omega
      simp [h0, h1, hlt]
    · have heq : (q : Int) + 1 = 2 ^ nbits := by omega
      by_cases hnn : nbits = n
      · subst hnn
        simp [hlt]
      · have hlt2 : (2 : Int) ^ nbits < 2 ^ n := pow_lt_pow (by omega)
        have h1 : (0 : Int) ≤ (q : Int) + 1 ∧ (q : Int) + 1 < 2 ^ n := by omega
        have h0 : shrI ((q : Int) + 1) nbits = 1 := by
          unfold shrI; rw [heq]; exact Int.ediv_self (by omega)
        have h2 : n - nbits ≠ 0 := by omega
        simp [h0, h1, hlt, h2]

/-! ### the digit that straddles (or lies just beyond) the `nbits` boundary -/

theorem finish_case (k rem n nbits A d M w' : Nat) (e : Bool)
    (hrem : rem < k) (hd : d < 2 ^ k) (hn : nbits ≤ n) (hr : rem ≤ nbits) (hA : A < 2 ^ (nbits - rem))
    (hM : 0 < M) (hw : w' < M) (he : e = true ↔ w' = 0) :
    FromStr.fracFinish n nbits (shlI false n (A : Int) rem + Int.ofNat (d >>> (k - rem)))
        ((d &&& (1 <<< (k - 1 - rem)) != 0) &&
          ((d &&& ((1 <<< (k - 1 - rem)) - 1) != 0) || !e ||
            FromStr.isOdd (shlI false n (A : Int) rem + Int.ofNat (d >>> (k - rem))))) =
      fin nbits (rneDiv ((A * (M * 2 ^ k) + (d * M + w')) * 2 ^ rem) (M * 2 ^ k)) := by
  obtain ⟨j, hj⟩ : ∃ j, k - 1 - rem = j := ⟨_, rfl⟩
  have hs : k - rem = j + 1 := by omega
  have hk : k = rem + (j + 1) := by omega
  have hPS : 2 ^ k = 2 ^ rem * 2 ^ (j + 1) := by rw [hk]; exact Nat.pow_add ..
  have hSH : 2 ^ (j + 1) = 2 * 2 ^ j := by rw [Nat.pow_succ, Nat.mul_comm]
  have hP : 0 < 2 ^ rem := Nat.two_pow_pos rem
  have hH : 0 < 2 ^ j := Nat.two_pow_pos j
  have hhi : d / 2 ^ (j + 1) < 2 ^ rem := by
    rw [Nat.div_lt_iff_lt_mul (Nat.two_pow_pos _)]; rwa [← hPS]
  have hAP : A * 2 ^ rem + 2 ^ rem ≤ 2 ^ nbits := by
    have : (A + 1) * 2 ^ rem ≤ 2 ^ (nbits - rem) * 2 ^ rem := Nat.mul_le_mul_right _ hA
    rwa [← Nat.pow_add, Nat.sub_add_cancel hr, Nat.add_mul, Nat.one_mul] at this
  have hnn : 2 ^ nbits ≤ 2 ^ n := Nat.pow_le_pow_right (by decide) hn
  have hq : A * 2 ^ rem + d / 2 ^ (j + 1) < 2 ^ nbits := by omega
  have hacc : shlI false n (A : Int) rem + Int.ofNat (d >>> (k - rem)) =
      ((A * 2 ^ rem + d / 2 ^ (j + 1) : Nat) : Int) := by
    rw [shl_nat A rem n (by omega), hs, Nat.shiftRight_eq_div_pow, Int.natCast_add]; rfl
  have key := finish_rne A (2 ^ rem) (2 ^ (j + 1)) (2 ^ j) M (d / 2 ^ (j + 1)) (d / 2 ^ j % 2) (d % 2 ^ j) w'
    hSH hP hM (Nat.mod_lt _ (by decide)) (Nat.mod_lt _ hH) hw
  rw [← digit_split d j, ← hPS] at key
  rw [hacc, isOdd_nat, hj, half_test, low_test, fracFinish_nat n nbits hn _ hq, key]
  congr 1
  have hb : d / 2 ^ j % 2 < 2 := Nat.mod_lt _ (by decide)
  generalize d / 2 ^ j % 2 = bit at *
  generalize d % 2 ^ j = low at *
  generalize A * 2 ^ rem + d / 2 ^ (j + 1) = q at *
  have he' : (!e) = decide (w' ≠ 0) := by
    cases e with
    | true => have := he.1 rfl; simp [this]
    | false =>
      have : w' ≠ 0 := fun h => by have := he.2 h; cases this
      simp [this]
  rw [he']
  by_cases h1 : bit = 0
  · simp [h1]
  · have h1' : bit = 1 := by omega
    by_cases h2 : low ≠ 0 ∨ w' ≠ 0
    · rcases h2 with h2 | h2 <;> simp [h1', h2]
    · have h3 : low = 0 := by omega
      have h4 : w' = 0 := by omega
      by_cases h5 : q % 2 = 0
      · simp [h1', h3, h4, h5]
      · have : q % 2 = 1 := by omega
        simp [h1', h3, h4, this]

/-! ### the loop of `oct_str_frac_to_bin` / `hex_str_frac_to_bin` (any digit width `k ≥ 1`) -/

theorem step_rne (A R d M w' Q : Nat) (hM : 0 < M) (hR : 0 < R) :
    rneDiv (((A * R + d) * M + w') * Q) M = rneDiv ((A * (M * R) + (d * M + w')) * (Q * R)) (M * R) := by
  rw [← Nat.mul_assoc _ Q R, rneDiv_mul_cancel _ _ _ hM hR]
  congr 2
  rw [Nat.add_mul (A * R), Nat.mul_assoc A R M, Nat.mul_comm R M, Nat.add_assoc]

theorem powFracLoop_spec (k : Nat) (hk : 0 < k) (digit : Nat → Nat)
    (hdig : ∀ b d, digitVal (2 ^ k) b = some d → digit b = d)
    (n nbits : Nat) (hn : nbits ≤ n) :
    ∀ (bytes : List Nat) (rem A w : Nat),
      rem ≤ nbits → A < 2 ^ (nbits - rem) → (bytes = [] → rem < n) →
      digitsVal (2 ^ k) bytes = some w → bytes.getLast? ≠ some 48 →
      FromStr.powFracLoop k digit n nbits bytes rem (A : Int) =
        .ok (fin nbits (rneDiv ((A * (2 ^ k) ^ bytes.length + w) * 2 ^ rem) ((2 ^ k) ^ bytes.length))) false := by
  intro bytes
  induction bytes with
  | nil =>
    intro rem A w hr hA hrn hw _
    rw [digitsVal_nil] at hw; injection hw with hw; subst hw
    have hrn := hrn rfl
    have hAP : A * 2 ^ rem < 2 ^ nbits := by
      have : (A + 1) * 2 ^ rem ≤ 2 ^ (nbits - rem) * 2 ^ rem := Nat.mul_le_mul_right _ hA
      rw [← Nat.pow_add, Nat.sub_add_cancel hr, Nat.add_mul, Nat.one_mul] at this
      have := Nat.two_pow_pos rem
      omega
    have hnn : 2 ^ nbits ≤ 2 ^ n := Nat.pow_le_pow_right (by decide) hn
    simp only [FromStr.powFracLoop, ushl, bind, Outcome.bind, pure, List.length_nil, Nat.pow_zero, Nat.mul_one,
      Nat.add_zero, rneDiv_one]
    rw [Nat.mod_eq_of_lt hrn, shl_nat A rem n (by omega)]
    have : decide (n ≤ rem) = false := by simp; omega
    simp [this, fin, hAP]
  | cons b rest ih =>
    intro rem A w hr hA _ hw hl
    obtain ⟨d, w', hd, hw', rfl⟩ := digitsVal_cons hw
    have hdv := hdig b d hd
    have hdlt := (digitVal_some hd).1
    have hw'lt := digitsVal_lt rest w' hw'
    have hR : 0 < 2 ^ k := Nat.two_pow_pos k
    have hM : 0 < (2 ^ k) ^ rest.length := Nat.pow_pos hR
    rw [FromStr.powFracLoop]
    simp only [hdv, List.length_cons, Nat.pow_succ]
    by_cases hrem : rem < k
    · rw [if_pos hrem]
      simp only [pure]
      have he : (rest.isEmpty = true) ↔ w' = 0 := by
        constructor
        · intro h
          have : rest = [] := List.isEmpty_iff.1 h
          subst this; rw [digitsVal_nil] at hw'; injection hw' with hw'; exact hw'.symm
        · intro h
          cases hrest : rest with
          | nil => rfl
          | cons c l' =>
            exfalso
            subst hrest
            rw [List.getLast?_cons_cons] at hl
            exact digitsVal_ne_zero (c :: l') w' (by simp) hl hw' h
      rw [finish_case k rem n nbits A d _ w' rest.isEmpty hrem hdlt hn hr hA hM hw'lt he]
    · rw [if_neg hrem]
      have hkr : k ≤ rem := by omega
      have hnn : 2 ^ nbits ≤ 2 ^ n := Nat.pow_le_pow_right (by decide) hn
      have hb1 : (A + 1) * 2 ^ k ≤ 2 ^ (nbits - rem) * 2 ^ k := Nat.mul_le_mul_right _ hA
      have hexp : nbits - rem + k = nbits - (rem - k) := by omega
      rw [← Nat.pow_add, hexp, Nat.add_mul, Nat.one_mul] at hb1
      have hb2 : 2 ^ (nbits - (rem - k)) ≤ 2 ^ n := Nat.pow_le_pow_right (by decide) (by omega)
      have hacc : shlI false n (A : Int) k + Int.ofNat d = ((A * 2 ^ k + d : Nat) : Int) := by
        rw [shl_nat A k n (by omega), Int.natCast_add]; rfl
      have hl' : rest.getLast? ≠ some 48 := by
        cases hrest : rest with
        | nil => simp
        | cons c l' => subst hrest; rwa [List.getLast?_cons_cons] at hl
      rw [hacc, ih (rem - k) (A * 2 ^ k + d) w' (by omega) (by omega) (by intro _; omega) hw' hl']
      have h2 : 2 ^ rem = 2 ^ (rem - k) * 2 ^ k := by
        rw [← Nat.pow_add, Nat.sub_add_cancel hkr]
      rw [h2, step_rne A (2 ^ k) d _ w' (2 ^ (rem - k)) hM hR]

/-! ### main theorems: octal and hexadecimal -/

theorem octStrFracToBin_spec (n nbits : Nat) (bytes : List Nat) (v : Nat)
    (hn : nbits ≤ n) (hne : bytes ≠ []) (hv : digitsVal 8 bytes = some v) (hlast : bytes.getLast? ≠ some 48) :
    FromStr.octStrFracToBin n bytes nbits =
      .ok (if rneDiv (v * 2 ^ nbits) (8 ^ bytes.length) < 2 ^ nbits
           then some (rneDiv (v * 2 ^ nbits) (8 ^ bytes.length) : Int) else none) false := by
  have h8 : (8 : Nat) = 2 ^ 3 := rfl
  have hE : FromStr.octStrFracToBin n bytes nbits = FromStr.powFracLoop 3 FromStr.digitVal n nbits bytes nbits 0 := by
    unfold FromStr.octStrFracToBin Outcome.dassert
    cases bytes with
    | nil => exact absurd rfl hne
    | cons b l =>
      simp only [List.isEmpty_cons, Bool.not_false, Bool.not_true, bind, Outcome.bind]
      cases FromStr.powFracLoop 3 FromStr.digitVal n nbits (b :: l) nbits 0 <;> simp
  rw [hE, h8]
  rw [h8] at hv
  have := powFracLoop_spec 3 (by decide) FromStr.digitVal (fun b d h => digitVal_small (by decide) h) n nbits hn
    bytes nbits 0 v (Nat.le_refl _) (by rw [Nat.sub_self]; decide) (fun h => absurd h hne) hv hlast
  rw [Int.natCast_zero] at this
  rw [this, Nat.zero_mul, Nat.zero_add]
  rfl

theorem hexStrFracToBin_spec (n nbits : Nat) (bytes : List Nat) (v : Nat)
    (hn : nbits ≤ n) (hne : bytes ≠ []) (hv : digitsVal 16 bytes = some v) (hlast : bytes.getLast? ≠ some 48) :
    FromStr.hexStrFracToBin n bytes nbits =
      .ok (if rneDiv (v * 2 ^ nbits) (16 ^ bytes.length) < 2 ^ nbits
           then some (rneDiv (v * 2 ^ nbits) (16 ^ bytes.length) : Int) else none) false := by
  have h16 : (16 : Nat) = 2 ^ 4 := rfl
  have hE : FromStr.hexStrFracToBin n bytes nbits =
      FromStr.powFracLoop 4 FromStr.uncheckedHexDigit n nbits bytes nbits 0 := by
    unfold FromStr.hexStrFracToBin Outcome.dassert
    cases bytes with
    | nil => exact absurd rfl hne
    | cons b l =>
      simp only [List.isEmpty_cons, Bool.not_false, Bool.not_true, bind, Outcome.bind]
      cases FromStr.powFracLoop 4 FromStr.uncheckedHexDigit n nbits (b :: l) nbits 0 <;> simp
  rw [hE, h16]
  rw [h16] at hv
  have := powFracLoop_spec 4 (by decide) FromStr.uncheckedHexDigit (fun b d h => digitVal_hex h) n nbits hn
    bytes nbits 0 v (Nat.le_refl _) (by rw [Nat.sub_self]; decide) (fun h => absurd h hne) hv hlast
  rw [Int.natCast_zero] at this
  rw [this, Nat.zero_mul, Nat.zero_add]
  rfl

/-! ### binary: `bin_str_frac_to_bin` is the `k = 1` instance of the same loop -/

theorem binFracLoop_eq (n nbits : Nat) (hn : nbits ≤ n) :
    ∀ (bytes : List Nat) (rem A w : Nat), rem ≤ nbits → A < 2 ^ (nbits - rem) → digitsVal 2 bytes = some w →
      FromStr.binFracLoop n nbits bytes rem (A : Int) =
        FromStr.powFracLoop 1 FromStr.digitVal n nbits bytes rem (A : Int) := by
  intro bytes
  induction bytes with
  | nil => intro rem A w _ _ _; rw [FromStr.binFracLoop, FromStr.powFracLoop]
  | cons b rest ih =>
    intro rem A w hr hA hw
    obtain ⟨d, w', hd, hw', rfl⟩ := digitsVal_cons hw
    have hdv : FromStr.digitVal b = d := digitVal_small (by decide) hd
    have hdlt := (digitVal_some hd).1
    rw [FromStr.binFracLoop, FromStr.powFracLoop]
    simp only [hdv]
    by_cases hrem : rem < 1
    · rw [if_pos hrem, if_pos hrem]
      have hr0 : rem = 0 := by omega
      subst hr0
      have hnn : 2 ^ nbits ≤ 2 ^ n := Nat.pow_le_pow_right (by decide) hn
      have hs : shlI false n (A : Int) 0 = (A : Int) := by
        rw [shl_nat A 0 n (by rw [Nat.pow_zero, Nat.mul_one]; rw [Nat.sub_zero] at hA; omega), Nat.pow_zero, Nat.mul_one]
      rw [hs]
      have hd01 : d = 0 ∨ d = 1 := by omega
      rcases hd01 with h | h <;> subst h <;> simp
    · rw [if_neg hrem, if_neg hrem]
      have hb1 : (A + 1) * 2 ^ 1 ≤ 2 ^ (nbits - rem) * 2 ^ 1 := Nat.mul_le_mul_right _ hA
      have hexp : nbits - rem + 1 = nbits - (rem - 1) := by omega
      rw [← Nat.pow_add, hexp, Nat.add_mul, Nat.one_mul] at hb1
      have hb2 : 2 ^ (nbits - (rem - 1)) ≤ 2 ^ n := Nat.pow_le_pow_right (by decide) (by omega)
      have hacc : shlI false n (A : Int) 1 + Int.ofNat d = ((A * 2 ^ 1 + d : Nat) : Int) := by
        rw [shl_nat A 1 n (by omega), Int.natCast_add]; rfl
      rw [hacc]
      exact ih (rem - 1) (A * 2 ^ 1 + d) w' (by omega) (by omega) hw'

theorem binStrFracToBin_spec (n nbits : Nat) (bytes : List Nat) (v : Nat)
    (hn : nbits ≤ n) (hne : bytes ≠ []) (hv : digitsVal 2 bytes = some v) (hlast : bytes.getLast? ≠ some 48) :
    FromStr.binStrFracToBin n bytes nbits =
      .ok (if rneDiv (v * 2 ^ nbits) (2 ^ bytes.length) < 2 ^ nbits
           then some (rneDiv (v * 2 ^ nbits) (2 ^ bytes.length) : Int) else none) false := by
  have h2 : (2 : Nat) = 2 ^ 1 := rfl
  have hA0 : (0 : Nat) < 2 ^ (nbits - nbits) := by rw [Nat.sub_self]; decide
  have hE : FromStr.binStrFracToBin n bytes nbits = FromStr.powFracLoop 1 FromStr.digitVal n nbits bytes nbits 0 := by
    have hb := binFracLoop_eq n nbits hn bytes nbits 0 v (Nat.le_refl _) hA0 hv
    rw [Int.natCast_zero] at hb
    rw [← hb]
    unfold FromStr.binStrFracToBin Outcome.dassert
    cases bytes with
    | nil => exact absurd rfl hne
    | cons b l =>
      simp only [List.isEmpty_cons, Bool.not_false, Bool.not_true, bind, Outcome.bind]
      cases FromStr.binFracLoop n nbits (b :: l) nbits 0 <;> simp
  have hv' : digitsVal (2 ^ 1) bytes = some v := hv
  have := powFracLoop_spec 1 (by decide) FromStr.digitVal (fun b d h => digitVal_small (by decide) h) n nbits hn
    bytes nbits 0 v (Nat.le_refl _) hA0 (fun h => absurd h hne) hv' hlast
  rw [Int.natCast_zero] at this
  rw [hE, this, Nat.zero_mul, Nat.zero_add]
  rfl

/-! ### the hypotheses are needed, and the `None` case is exactly "rounds up to 1.0" -/

/-- the rounded fraction never exceeds `2^nbits`, so `None` (the `else` branch) means it equals `2^nbits` = 1.0 -/
theorem rneDiv_frac_le {r : Nat} (bytes : List Nat) (v nbits : Nat) (hv : digitsVal r bytes = some v) :
    rneDiv (v * 2 ^ nbits) (r ^ bytes.length) ≤ 2 ^ nbits := by
  have h1 := digitsVal_lt bytes v hv
  have hden : 0 < r ^ bytes.length := by omega
  have h2 : v * 2 ^ nbits < 2 ^ nbits * r ^ bytes.length := by
    rw [Nat.mul_comm]; exact Nat.mul_lt_mul_of_pos_left h1 (Nat.two_pow_pos nbits)
  have h3 : v * 2 ^ nbits / r ^ bytes.length < 2 ^ nbits := (Nat.div_lt_iff_lt_mul hden).2 h2
  unfold rneDiv
  simp only
  (repeat' split) <;> omega

/-- trailing zeros must be trimmed (the tokeniser does): `".10"` at `nbits = 0` is a tie (→ 0) but the code sees
"more significant bits" -/
example : FromStr.binStrFracToBin 8 [49, 48] 0 = .ok none false ∧ digitsVal 2 [49, 48] = some 2 ∧ rneDiv (2 * 2 ^ 0) (2 ^ 2) = 0 := by
  decide

/-- an empty digit string trips `debug_assert!(!bytes.is_empty())` (and, for `nbits = NBITS`, the shift `acc << rem_bits`
by the full width); `get_frac` tests `frac.is_empty()` first, so this is unreachable from `from_str` -/
example : FromStr.binStrFracToBin 8 [] 8 = .ok (some 0) true ∧ FromStr.octStrFracToBin 8 [] 3 = .ok (some 0) true ∧
    FromStr.hexStrFracToBin 8 [] 0 = .ok (some 0) true := by decide

/-- `nbits ≤ NBITS` is needed (`dump_bits = NBITS - nbits` underflows in the Rust; all callers pass `nbits ≤ NBITS`) -/
example : FromStr.binStrFracToBin 8 [49] 9 = .ok (some 1) true := by decide

#print axioms binStrFracToBin_spec
#print axioms octStrFracToBin_spec
#print axioms hexStrFracToBin_spec

end Sfx.ParsePowPf
