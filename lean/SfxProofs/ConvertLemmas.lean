import SfxModel.Convert
import SfxProofs.PrimLemmas
/-
  ConvertLemmas.lean — arithmetic facts used by the proofs about `to_fixed_helper` (core Lean only):
  bit length, leading-zero counts, the shifted value `floorShift x k = ⌊x · 2^(−k)⌋` and its thresholds.
-/
namespace Sfx.ConvPf

/-- `⌊x · 2^(−k)⌋`: the source bits moved by the difference of fractional bits -/
def floorShift (x k : Int) : Int := if k ≤ 0 then x * 2 ^ (-k).toNat else x / 2 ^ k.toNat

theorem floorShift_neg (x : Int) (j : Nat) : floorShift x (-(j : Int)) = x * 2 ^ j := by
  unfold floorShift
  have h : (-(-(j : Int))).toNat = j := by omega
  rw [if_pos (by omega), h]

theorem floorShift_pos (x : Int) (j : Nat) (hj : 0 < j) : floorShift x (j : Int) = x / 2 ^ j := by
  unfold floorShift
  have h : ((j : Int)).toNat = j := by omega
  rw [if_neg (by omega), h]

theorem floorShift_zero (x : Int) : floorShift x 0 = x := by
  have := floorShift_neg x 0
  simpa using this

/-- every shift amount is `-j` or a positive `j` -/
theorem shift_cases (k : Int) : (∃ j : Nat, k = -(j : Int)) ∨ (∃ j : Nat, 0 < j ∧ k = (j : Int)) := by
  by_cases h : k ≤ 0
  · exact .inl ⟨(-k).toNat, by omega⟩
  · exact .inr ⟨k.toNat, by omega, by omega⟩

/-! ### bit length -/

theorem bitLen_le_iff (y m : Nat) : bitLen y ≤ m ↔ y < 2 ^ m := by
  unfold bitLen
  by_cases hy : y = 0
  · subst hy; simp; exact Nat.two_pow_pos m
  · rw [if_neg hy]
    have := Nat.log2_lt (k := m) hy
    omega

theorem bitLen_le_iff_int (y : Int) (hy : 0 ≤ y) (m : Nat) : bitLen y.toNat ≤ m ↔ y < 2 ^ m := by
  rw [bitLen_le_iff]
  have h2 : ((2 ^ m : Nat) : Int) = (2 : Int) ^ m := by norm_cast
  omega

/-! ### thresholds of the shifted value -/

theorem floorShift_lt_iff (x k : Int) (d : Nat) (h : 0 ≤ (d : Int) + k) :
    floorShift x k < 2 ^ d ↔ x < 2 ^ ((d : Int) + k).toNat := by
  rcases shift_cases k with ⟨j, rfl⟩ | ⟨j, hj, rfl⟩
  · rw [floorShift_neg]
    obtain ⟨m, rfl⟩ : ∃ m : Nat, d = m + j := ⟨d - j, by omega⟩
    have e : (((m + j : Nat) : Int) + -(j : Int)).toNat = m := by omega
    rw [e, pow_add']
    exact Int.mul_lt_mul_right (two_pow_pos j)
  · rw [floorShift_pos _ _ hj]
    have e : ((d : Int) + (j : Int)).toNat = d + j := by omega
    rw [e, pow_add']
    exact Int.ediv_lt_iff_lt_mul (two_pow_pos j)

theorem floorShift_ge_iff (x k : Int) (d : Nat) (h : 0 ≤ (d : Int) + k) :
    -(2 ^ d) ≤ floorShift x k ↔ -(2 ^ ((d : Int) + k).toNat) ≤ x := by
  rcases shift_cases k with ⟨j, rfl⟩ | ⟨j, hj, rfl⟩
  · rw [floorShift_neg]
    obtain ⟨m, rfl⟩ : ∃ m : Nat, d = m + j := ⟨d - j, by omega⟩
    have e : (((m + j : Nat) : Int) + -(j : Int)).toNat = m := by omega
    rw [e, pow_add', ← Int.neg_mul]
    exact Int.mul_le_mul_right (two_pow_pos j)
  · rw [floorShift_pos _ _ hj]
    have e : ((d : Int) + (j : Int)).toNat = d + j := by omega
    rw [e, pow_add', ← Int.neg_mul]
    exact Int.le_ediv_iff_mul_le (two_pow_pos j)

theorem floorShift_big_pos (x k : Int) (d : Nat) (h : (d : Int) + k < 0) (hx : 0 < x) : 2 ^ d ≤ floorShift x k := by
  obtain ⟨j, rfl⟩ : ∃ j : Nat, k = -(j : Int) := ⟨(-k).toNat, by omega⟩
  rw [floorShift_neg]
  have h1 : (2 : Int) ^ d ≤ 2 ^ j := pow_le_pow (by omega)
  have h2 : 1 * (2 : Int) ^ j ≤ x * 2 ^ j := Int.mul_le_mul_of_nonneg_right (by omega) (Int.le_of_lt (two_pow_pos j))
  omega

theorem floorShift_big_neg (x k : Int) (d : Nat) (h : (d : Int) + k < 0) (hx : x < 0) : floorShift x k < -(2 ^ d) := by
  obtain ⟨j, rfl⟩ : ∃ j : Nat, k = -(j : Int) := ⟨(-k).toNat, by omega⟩
  rw [floorShift_neg]
  have h1 : (2 : Int) ^ d < 2 ^ j := pow_lt_pow (by omega)
  have h2 : x * (2 : Int) ^ j ≤ (-1) * 2 ^ j := Int.mul_le_mul_of_nonneg_right (by omega) (Int.le_of_lt (two_pow_pos j))
  omega

/-! ### sign of the shifted value -/

theorem floorShift_pos_of_nonneg (x k : Int) (hx : 0 ≤ x) : 0 ≤ floorShift x k := by
  rcases shift_cases k with ⟨j, rfl⟩ | ⟨j, hj, rfl⟩
  · rw [floorShift_neg]; exact Int.mul_nonneg hx (Int.le_of_lt (two_pow_pos j))
  · rw [floorShift_pos _ _ hj]; exact Int.ediv_nonneg hx (Int.le_of_lt (two_pow_pos j))

theorem floorShift_neg_of_neg (x k : Int) (hx : x < 0) : floorShift x k < 0 := by
  rcases shift_cases k with ⟨j, rfl⟩ | ⟨j, hj, rfl⟩
  · rw [floorShift_neg]
    have h2 : x * (2 : Int) ^ j ≤ (-1) * 2 ^ j := Int.mul_le_mul_of_nonneg_right (by omega) (Int.le_of_lt (two_pow_pos j))
    have := two_pow_pos j
    omega
  · rw [floorShift_pos _ _ hj]
    have := (Int.ediv_lt_iff_lt_mul (a := x) (b := 0) (two_pow_pos j)).2 (by omega)
    exact this

/-! ### small quotients -/

theorem ediv_of_small_neg {x P : Int} (h1 : -P ≤ x) (h2 : x < 0) : x / P = -1 := by
  have hP : 0 < P := by omega
  have a : -1 ≤ x / P := (Int.le_ediv_iff_mul_le hP).2 (by omega)
  have b : x / P < 0 := (Int.ediv_lt_iff_lt_mul hP).2 (by omega)
  omega

theorem emod_ne_zero_of_small {x P : Int} (hx0 : x ≠ 0) (h1 : -P < x) (h2 : x < P) : x % P ≠ 0 := by
  have hP : 0 < P := by omega
  have e := Int.emod_add_mul_ediv x P
  by_cases hn : 0 ≤ x
  · rw [Int.ediv_eq_zero_of_lt hn h2] at e; omega
  · rw [ediv_of_small_neg (by omega) (by omega)] at e; omega

/-! ### ranges -/

theorem inI_mono {s : Bool} {n m : Nat} (h : n ≤ m) {x : Int} (hx : inI s n x) : inI s m x := by
  cases s
  · rw [inU_iff] at *
    have := pow_le_pow (a := n) (b := m) h
    omega
  · rw [inS_iff] at *
    have := pow_le_pow (a := n - 1) (b := m - 1) (by omega)
    omega

/-- reducing to `n ≤ m` bits forgets an earlier reduction to `m` bits -/
theorem wrapI_wrapI_of_le (sd s : Bool) {n m : Nat} (h : n ≤ m) (y : Int) : wrapI sd n (wrapI s m y) = wrapI sd n y := by
  obtain ⟨c, hc⟩ := wrapI_eq_add_mul s m y
  obtain ⟨e, rfl⟩ : ∃ e, m = n + e := ⟨m - n, by omega⟩
  apply wrapI_congr sd n (c * 2 ^ e)
  rw [hc, pow_add', Int.mul_assoc, Int.mul_comm (2 ^ e) (2 ^ n)]

/-- a multiple of `2^m` vanishes in `n ≤ m` bits -/
theorem wrapI_mul_pow_of_le (sd : Bool) {n m : Nat} (hn : 0 < n) (h : n ≤ m) (x : Int) : wrapI sd n (x * 2 ^ m) = 0 := by
  obtain ⟨e, rfl⟩ : ∃ e, m = n + e := ⟨m - n, by omega⟩
  have : wrapI sd n (x * 2 ^ (n + e)) = wrapI sd n 0 := by
    apply wrapI_congr sd n (x * 2 ^ e)
    rw [pow_add', Int.mul_comm (2 ^ n) (2 ^ e), Int.mul_assoc]; omega
  rw [this]
  exact wrapI_of_in hn (by
    have := two_pow_pos (n - 1); have := two_pow_pos n
    cases sd <;> simp [inI, minI, maxI] <;> omega)

/-! ### leading-zero counts -/

theorem toU_of_nonneg_lt {n : Nat} {x : Int} (h0 : 0 ≤ x) (h1 : x < 2 ^ n) : toU n x = x.toNat := by
  unfold toU; rw [Int.emod_eq_of_lt h0 h1]

/-- positive source: `leading_zeros = N − bitlen` -/
theorem leadingZeros_pos {s : Bool} {n : Nat} (hn : 0 < n) {x : Int} (hx : inI s n x) (hpos : 0 < x) :
    (leadingZeros n x : Int) = (n : Int) - bitLen x.toNat ∧ bitLen x.toNat ≤ n := by
  have hlt : x < 2 ^ n := by
    cases s
    · exact ((inU_iff n x).1 hx).2
    · have := ((inS_iff n x).1 hx).2
      have := pow_le_pow (a := n - 1) (b := n) (by omega)
      omega
  have hb : bitLen x.toNat ≤ n := (bitLen_le_iff_int x (by omega) n).2 hlt
  unfold leadingZeros
  rw [toU_of_nonneg_lt (by omega) hlt]
  omega

/-- negative source: `(!x).leading_zeros() − 1 = N − 1 − bitlen(−x−1)` -/
theorem leadingZeros_neg {n : Nat} (hn : 0 < n) {x : Int} (hx : inI true n x) (hneg : x < 0) :
    (leadingZeros n (notI true n x) : Int) - 1 = (n : Int) - 1 - bitLen (-x - 1).toNat ∧ bitLen (-x - 1).toNat ≤ n - 1 := by
  have hx' := (inS_iff n x).1 hx
  have hin : inI true n (-x - 1) := by rw [inS_iff]; omega
  have hnot : notI true n x = -x - 1 := by unfold notI; exact wrapI_of_in hn hin
  have hlt1 : -x - 1 < 2 ^ (n - 1) := by omega
  have hlt : -x - 1 < 2 ^ n := by
    have := pow_le_pow (a := n - 1) (b := n) (by omega)
    omega
  have hb : bitLen (-x - 1).toNat ≤ n - 1 := (bitLen_le_iff_int (-x - 1) (by omega) (n - 1)).2 hlt1
  rw [hnot]
  unfold leadingZeros
  rw [toU_of_nonneg_lt (by omega) hlt]
  omega

end Sfx.ConvPf
