import SfxProofs.FromFloatKind
/-
  FromFloat.lean — float → fixed conversions (`ToFixed for f32/f64`, `traits.rs:1540-1590`; `to_float_kind`,
  `float_helper.rs:138-203`; `private_{overflowing,saturating}_from_float_helper`, `helpers.rs:78-145`) proved against the exact
  specification `floatToGrid` (nearest grid value, ties to even) — core Lean only.

  The general statements (`*_gen`) hold for every float format with `1 ≤ prec`, `prec + 2 ≤ nbits ≤ 128`, every bit pattern
  (normal, subnormal, ±0) and every valid destination layout; the requested statements are their instances for `f32` / `f64`.
-/
namespace Sfx.FromFloatPf
open Sfx.ConvPf

/-- the format conditions the proofs use -/
def FmtOk (F : FloatFmt) : Prop := 1 ≤ F.prec ∧ F.prec + 2 ≤ F.nbits ∧ F.nbits ≤ 128

theorem fmtOk_of (F : FloatFmt) (hF : F = f32 ∨ F = f64) : FmtOk F := by
  rcases hF with rfl | rfl <;> (unfold FmtOk; decide)

theorem exp_of_nonfinite {F : FloatFmt} {b : Nat} (h : floatExact F b = none) : (F.parts b).2.1 > F.expMax := by
  rw [floatExact_eq] at h
  by_cases c : (F.parts b).2.1 > F.expMax
  · exact c
  · rw [if_neg c] at h; simp at h

/-! ### classification -/

theorem toFloatKind_nan_gen (F : FloatFmt) (b df di : Nat) :
    floatExact F b = none → (F.parts b).2.2 ≠ 0 → toFloatKind F b df di = .nan := by
  intro h hm
  rw [kind_nonfinite F b df di (exp_of_nonfinite h), if_neg hm]

theorem toFloatKind_inf_gen (F : FloatFmt) (b df di : Nat) :
    floatExact F b = none → (F.parts b).2.2 = 0 → toFloatKind F b df di = .infinite (F.parts b).1 := by
  intro h hm
  rw [kind_nonfinite F b df di (exp_of_nonfinite h), if_pos hm]

/-! ### finite floats -/

theorem overflowingFromFloat_gen (F : FloatFmt) (hF : FmtOk F) (D : Layout) (hD : D.valid) (b : Nat) (E : Int)
    (hfin : floatToGrid F b D.f = some E) : D.overflowingFromFloat F b = .ok (D.ovf E) false := by
  obtain ⟨neg, conv, hk, g⟩ := kind_good F hF.1 hF.2.1 hF.2.2 D hD b E hfin
  unfold Layout.overflowingFromFloat
  rw [hk]
  exact ovfKind_of_good D hD E neg conv g

theorem checkedFromFloat_gen (F : FloatFmt) (hF : FmtOk F) (D : Layout) (hD : D.valid) (b : Nat) (E : Int)
    (hfin : floatToGrid F b D.f = some E) : D.checkedFromFloat F b = .ok (D.chk E) false := by
  obtain ⟨neg, conv, hk, g⟩ := kind_good F hF.1 hF.2.1 hF.2.2 D hD b E hfin
  unfold Layout.checkedFromFloat
  rw [hk]
  simp only []
  rw [ovfKind_of_good D hD E neg conv g]
  unfold Layout.ovf ovfI Layout.chk chkI
  by_cases h : inI D.signed D.n E
  · simp [bind, Outcome.bind, pure, h, wrapI_of_in (valid_pos hD) h]
  · simp [bind, Outcome.bind, pure, h]

theorem saturatingFromFloat_gen (F : FloatFmt) (hF : FmtOk F) (D : Layout) (hD : D.valid) (b : Nat) (E : Int)
    (hfin : floatToGrid F b D.f = some E) : D.saturatingFromFloat F b = .ok (D.clamp E) false := by
  obtain ⟨neg, conv, hk, g⟩ := kind_good F hF.1 hF.2.1 hF.2.2 D hD b E hfin
  unfold Layout.saturatingFromFloat
  rw [hk]
  exact satKind_of_good D hD E neg conv g

theorem wrappingFromFloat_gen (F : FloatFmt) (hF : FmtOk F) (D : Layout) (hD : D.valid) (b : Nat) (E : Int)
    (hfin : floatToGrid F b D.f = some E) : D.wrappingFromFloat F b = .ok (D.wrap E) false := by
  unfold Layout.wrappingFromFloat
  rw [overflowingFromFloat_gen F hF D hD b E hfin]
  rfl

theorem fromFloat_gen (F : FloatFmt) (hF : FmtOk F) (D : Layout) (hD : D.valid) (b : Nat) (E : Int)
    (hfin : floatToGrid F b D.f = some E) : D.fromFloat F b = .ok (D.wrap E) (!decide (inRange D E)) := by
  unfold Layout.fromFloat
  rw [overflowingFromFloat_gen F hF D hD b E hfin]
  unfold Layout.ovf ovfI inRange
  simp [bind, Outcome.bind, pure, Outcome.dassert, Layout.wrap]

/-! ### non-finite floats -/

theorem nonfinite_gen (F : FloatFmt) (D : Layout) (b : Nat) (hnf : floatExact F b = none) :
    D.checkedFromFloat F b = .ok none false ∧ D.overflowingFromFloat F b = .panic ∧ D.wrappingFromFloat F b = .panic ∧
    D.fromFloat F b = .panic ∧
    ((F.parts b).2.2 ≠ 0 → D.saturatingFromFloat F b = .panic) ∧
    ((F.parts b).2.2 = 0 → D.saturatingFromFloat F b = .ok (if (F.parts b).1 then D.min else D.max) false) := by
  have hk := kind_nonfinite F b D.f D.intBits (exp_of_nonfinite hnf)
  unfold Layout.checkedFromFloat Layout.wrappingFromFloat Layout.fromFloat Layout.overflowingFromFloat Layout.saturatingFromFloat
  rw [hk]
  by_cases hm : (F.parts b).2.2 = 0
  · rw [if_pos hm]
    refine ⟨rfl, rfl, rfl, rfl, fun h => absurd hm h, fun _ => rfl⟩
  · rw [if_neg hm]
    refine ⟨rfl, rfl, rfl, rfl, fun _ => rfl, fun h => absurd h hm⟩

/-! ## the requested statements (`F = f32 ∨ F = f64`, `D.valid`, `b < 2 ^ F.nbits`) -/

section requested
-- the unused hypotheses (`b < 2 ^ F.nbits` everywhere; all three for the non-finite statements) are kept to state the theorems as requested
set_option linter.unusedSectionVars false
variable (F : FloatFmt) (hF : F = f32 ∨ F = f64) (D : Layout) (hD : D.valid) (b : Nat) (hb : b < 2 ^ F.nbits) (E : Int)
include hF hD hb

/-- classification -/
theorem toFloatKind_nan : floatExact F b = none → (F.parts b).2.2 ≠ 0 → toFloatKind F b D.f D.intBits = .nan :=
  toFloatKind_nan_gen F b D.f D.intBits

theorem toFloatKind_inf :
    floatExact F b = none → (F.parts b).2.2 = 0 → toFloatKind F b D.f D.intBits = .infinite (F.parts b).1 :=
  toFloatKind_inf_gen F b D.f D.intBits

/-- finite floats: the kind is finite, and converting its `conv` on the destination side gives the rounded value -/
theorem overflowingFromFloat_spec (hfin : floatToGrid F b D.f = some E) : D.overflowingFromFloat F b = .ok (D.ovf E) false :=
  overflowingFromFloat_gen F (fmtOk_of F hF) D hD b E hfin

theorem checkedFromFloat_spec (hfin : floatToGrid F b D.f = some E) : D.checkedFromFloat F b = .ok (D.chk E) false :=
  checkedFromFloat_gen F (fmtOk_of F hF) D hD b E hfin

theorem saturatingFromFloat_spec (hfin : floatToGrid F b D.f = some E) : D.saturatingFromFloat F b = .ok (D.clamp E) false :=
  saturatingFromFloat_gen F (fmtOk_of F hF) D hD b E hfin

theorem wrappingFromFloat_spec (hfin : floatToGrid F b D.f = some E) : D.wrappingFromFloat F b = .ok (D.wrap E) false :=
  wrappingFromFloat_gen F (fmtOk_of F hF) D hD b E hfin

theorem fromFloat_spec (hfin : floatToGrid F b D.f = some E) :
    D.fromFloat F b = .ok (D.wrap E) (!decide (inRange D E)) :=
  fromFloat_gen F (fmtOk_of F hF) D hD b E hfin

/-- non-finite inputs are rejected as documented -/
theorem nonfinite_spec (hnf : floatExact F b = none) :
    D.checkedFromFloat F b = .ok none false ∧ D.overflowingFromFloat F b = .panic ∧ D.wrappingFromFloat F b = .panic ∧
    D.fromFloat F b = .panic ∧
    ((F.parts b).2.2 ≠ 0 → D.saturatingFromFloat F b = .panic) ∧
    ((F.parts b).2.2 = 0 → D.saturatingFromFloat F b = .ok (if (F.parts b).1 then D.min else D.max) false) :=
  nonfinite_gen F D b hnf

end requested

end Sfx.FromFloatPf

open Sfx.FromFloatPf in
#print axioms toFloatKind_nan
open Sfx.FromFloatPf in
#print axioms toFloatKind_inf
open Sfx.FromFloatPf in
#print axioms overflowingFromFloat_spec
open Sfx.FromFloatPf in
#print axioms checkedFromFloat_spec
open Sfx.FromFloatPf in
#print axioms saturatingFromFloat_spec
open Sfx.FromFloatPf in
#print axioms wrappingFromFloat_spec
open Sfx.FromFloatPf in
#print axioms fromFloat_spec
open Sfx.FromFloatPf in
#print axioms nonfinite_spec
