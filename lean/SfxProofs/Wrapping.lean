import SfxProofs.WrappingLemmas
import SfxProps.C01
/-
  Wrapping.lean — `Wrapping<F>` (`src/wrapping.rs`): every operation is the exact result reduced modulo `2^n`, panics only
  for a zero divisor, and never has a debug-only panic; so programs of any length run identically in both profiles.

  The case analysis over the constructors of `WStep` is in `SfxProofs/WrappingLemmas.lean` (`wstep_spec_of`), parametrised by
  the facts about the shared multiply / divide helpers, which are discharged here from `SfxProps/C01.lean`.
  `WStep.wf` (declared as `Sfx.WStep.wf` so that `st.wf L` works) is defined in `SfxProofs/WrappingLemmas.lean`.
-/
namespace Sfx.WrapPf
open Sfx.Layout

theorem mulDivOK (L : Layout) (hv : L.valid) : MulDivOK L :=
  ⟨fun a b ha hb => C01.mulOverflow_spec L hv a b ha hb,
   fun a b ha hb hb0 => C01.divOverflow_spec L hv a b ha hb hb0,
   fun a ha => C01.divOverflow_zero L hv a ha⟩

theorem wstep_spec (L : Layout) (hv : L.valid) (x : Int) (hx : inRange L x) (st : WStep) (hw : st.wf L) :
    L.wstep x st = L.wstepSpec x st := by
  obtain ⟨h2, _, _, hf⟩ := C01.valid_facts hv
  exact wstep_spec_of L h2 hf (mulDivOK L hv) x hx st hw

theorem wstep_inRange (L : Layout) (hv : L.valid) (x : Int) (hx : inRange L x) (st : WStep) (hw : st.wf L) (v : Int) (d : Bool)
    (h : L.wstep x st = .ok v d) : inRange L v := by
  obtain ⟨h2, _, _, _⟩ := C01.valid_facts hv
  rw [wstep_spec L hv x hx st hw] at h
  exact (spec_inRange L (by omega) x st v d h).1

/-- a step never sets the debug flag: its outcome is `.ok _ false` or `.panic` -/
theorem wstep_no_dbg (L : Layout) (hv : L.valid) (x : Int) (hx : inRange L x) (st : WStep) (hw : st.wf L) (v : Int) (d : Bool)
    (h : L.wstep x st = .ok v d) : d = false := by
  obtain ⟨h2, _, _, _⟩ := C01.valid_facts hv
  rw [wstep_spec L hv x hx st hw] at h
  exact (spec_inRange L (by omega) x st v d h).2

/-- programs of any length: the model run equals the documented run (exact result reduced mod 2^n at every step, panic only
for a zero divisor), in both profiles -/
theorem wrun_spec (L : Layout) (hv : L.valid) (p : Profile) (x : Int) (hx : inRange L x) (prog : List WStep)
    (hw : ∀ st ∈ prog, st.wf L) :
    Layout.wrun L.wstep p x prog = Layout.wrun L.wstepSpec p x prog := by
  induction prog generalizing x with
  | nil => rfl
  | cons st rest ih =>
    have hst : st.wf L := hw st (List.mem_cons_self ..)
    have hs := wstep_spec L hv x hx st hst
    unfold Layout.wrun
    rw [hs]
    cases h : L.wstepSpec x st with
    | panic => rfl
    | ok v d =>
      have hv' : inRange L v := wstep_inRange L hv x hx st hst v d (hs.trans h)
      simp only []
      rw [ih v hv' (fun s hs => hw s (List.mem_cons_of_mem _ hs))]

/-- the documented run does not depend on the profile (it never sets the debug flag) -/
theorem wrunSpec_profile_independent (L : Layout) (x : Int) (prog : List WStep) :
    Layout.wrun L.wstepSpec .chk x prog = Layout.wrun L.wstepSpec .rel x prog := by
  induction prog generalizing x with
  | nil => rfl
  | cons st rest ih =>
    unfold Layout.wrun
    cases he : L.wexact x st with
    | none => rw [spec_none L he]
    | some e =>
      rw [spec_some L he]
      simp only [Bool.and_false, Bool.false_eq_true, if_false]
      rw [ih]

/-- no debug-only panic: the two build profiles observe the same run -/
theorem wrun_profile_independent (L : Layout) (hv : L.valid) (x : Int) (hx : inRange L x) (prog : List WStep)
    (hw : ∀ st ∈ prog, st.wf L) :
    Layout.wrun L.wstep .chk x prog = Layout.wrun L.wstep .rel x prog := by
  rw [wrun_spec L hv .chk x hx prog hw, wrun_spec L hv .rel x hx prog hw]
  exact wrunSpec_profile_independent L x prog

/-- non-vacuity: a well-formed three-step program on a valid layout, including a zero divisor -/
example : (⟨true, 8, 4⟩ : Layout).valid ∧ inRange ⟨true, 8, 4⟩ (-128) ∧
    ∀ st ∈ [WStep.mul 127, .sum [5, -7], .abs, .div 0], st.wf ⟨true, 8, 4⟩ := by
  refine ⟨by decide, by decide, ?_⟩
  intro st hst
  simp only [List.mem_cons, List.not_mem_nil, or_false] at hst
  rcases hst with rfl | rfl | rfl | rfl
  · show inRange _ _; decide
  · intro y hy
    simp only [List.mem_cons, List.not_mem_nil, or_false] at hy
    rcases hy with rfl | rfl <;> decide
  · rfl
  · show inRange _ _; decide

end Sfx.WrapPf

#print axioms Sfx.WrapPf.wstep_spec
#print axioms Sfx.WrapPf.wstep_inRange
#print axioms Sfx.WrapPf.wrun_spec
#print axioms Sfx.WrapPf.wrun_profile_independent
