import SfxProofs.TrigAcc
import Mathlib.Analysis.SpecialFunctions.Trigonometric.Complex
import Mathlib.Analysis.Real.Pi.Irrational
/-
  TrigAccTan.lean — consequences of the accuracy of `sin`/`cos` for `tan a = sin 2a / (1 + cos 2a)` (truncating division):
    * `tan_total_64`  : for `|a / 2^f| ≤ 100` and `|tan (a / 2^f)| ≤ 64` the call is TOTAL (the computed denominator `1 + cos 2a` is
                        positive, the quotient is representable, no debug check fires, at most 50 loop iterations): this closes the
                        gap left open in `TrigPf.tan_total_of` / `C12.tan_partial`;
    * `tan_bound`     : the general error bound `|r / 2^f − tan x| ≤ ε (1 + |tan x|) / (1 + cos 2x − ε) + 2^-f`, `ε = 105.29 / 2^23`;
    * `tan_accuracy_partial` : the tan clause of `C16_statement` with `|tan x| ≤ 8` in place of `|tan x| ≤ 64`.
  The clause with `64` does NOT follow from worst-case bounds on the two inner calls: the bound above is
  `≈ ε (1 + |t|)(1 + t²) / 2`, which exceeds `(1 + t²) / 2^14` as soon as `ε (1 + |t|) > 2^-13`, i.e. for `|t| > 8.7` with the proved
  `ε`, and for `|t| > 15` even with the measured worst error `2^-18.1` of sin/cos.  (TODO, open.)
-/
namespace Sfx.TrigAccPf
open Sfx.TrigPf Real

/-- a dyadic rational is never an odd multiple of `π/2` -/
theorem cos_ne_zero_dyadic (a : ℤ) (s : ℕ) : cos ((a : ℝ) / 2 ^ s) ≠ 0 := by
  intro h
  obtain ⟨k, hk⟩ := Real.cos_eq_zero_iff.1 h
  have hk1 : (2 * (k : ℝ) + 1) ≠ 0 := by
    have : ((2 * k + 1 : ℤ) : ℝ) ≠ 0 := by exact_mod_cast (by omega : (2 * k + 1 : ℤ) ≠ 0)
    push_cast at this; exact this
  have hp : (0 : ℝ) < 2 ^ s := by positivity
  have : π = (((2 * a : ℤ) : ℚ) / ((2 : ℚ) ^ s * ((2 * k + 1 : ℤ) : ℚ)) : ℚ) := by
    push_cast
    field_simp at hk ⊢
    linarith
  exact irrational_pi ⟨_, this.symm⟩

/-- the real quotient `S / (1 + C)` against `tan x` when `S ≈ sin 2x`, `C ≈ cos 2x` -/
theorem tan_quot (x S C ε : ℝ) (hc : cos x ≠ 0) (hS : |S - sin (2 * x)| ≤ ε) (hC : |C - cos (2 * x)| ≤ ε)
    (hε : ε < 1 + cos (2 * x)) :
    0 < 1 + C ∧ |S / (1 + C) - tan x| ≤ ε * (1 + |tan x|) / (1 + cos (2 * x) - ε) := by
  have hε0 : 0 ≤ ε := le_trans (abs_nonneg _) hS
  rw [abs_le] at hC
  have hden : 1 + cos (2 * x) - ε ≤ 1 + C := by linarith [hC.1]
  have hpos : 0 < 1 + cos (2 * x) - ε := by linarith
  have hC0 : 0 < 1 + C := lt_of_lt_of_le hpos hden
  refine ⟨hC0, ?_⟩
  have hsin : sin (2 * x) = tan x * (1 + cos (2 * x)) := by
    rw [sin_two_mul, cos_two_mul, tan_eq_sin_div_cos]; field_simp; ring
  have e : S / (1 + C) - tan x = ((S - sin (2 * x)) - tan x * (C - cos (2 * x))) / (1 + C) := by
    rw [hsin]; field_simp; ring
  rw [e, abs_div, abs_of_pos hC0]
  have hnum : |(S - sin (2 * x)) - tan x * (C - cos (2 * x))| ≤ ε * (1 + |tan x|) := by
    refine le_trans (abs_sub _ _) ?_
    rw [abs_mul]
    have : |C - cos (2 * x)| ≤ ε := abs_le.2 hC
    nlinarith [abs_nonneg (tan x), mul_le_mul_of_nonneg_left this (abs_nonneg (tan x))]
  exact div_le_div₀ (by positivity) hnum hpos hden

/-- `1 + cos 2x = 2 / (1 + tan² x)` in product form -/
theorem one_add_cos_two (x : ℝ) (hc : cos x ≠ 0) : (1 + cos (2 * x)) * (1 + tan x ^ 2) = 2 := by
  have h := Real.inv_one_add_tan_sq hc
  have hp : 0 < 1 + tan x ^ 2 := by positivity
  rw [cos_two_mul, ← h]; field_simp; ring

/-- the error allowance of both inner calls -/
noncomputable def eps0 : ℝ := (10529 / 100) / 2 ^ 23

/-- `tan`: the general bound.  For `|a / 2^f| ≤ 100` with `ε₀ < 1 + cos 2x` (`x = a / 2^f`), IF the truncated quotient is
representable THEN the call succeeds with no check firing and the result `r` satisfies the bound -/
theorem tan_core {D : Layout} (hD : Ok D) (a : Int) (hb : |(a : ℝ) / sc D| ≤ 100)
    (hε : eps0 < 1 + cos (2 * ((a : ℝ) / sc D))) :
    ∃ q : Int, |(q : ℝ) / sc D - tan ((a : ℝ) / sc D)| ≤
        eps0 * (1 + |tan ((a : ℝ) / sc D)|) / (1 + cos (2 * ((a : ℝ) / sc D)) - eps0) + 1 / sc D ∧
      (inRange D q → ∃ it, it ≤ 50 ∧ Trans.run (Trans.tan D a) = .ok (some q, it) false) := by
  have hs := sc_pos D
  obtain ⟨i1, i2⟩ := int_bounds (D := D) a 100 (by push_cast; exact hb)
  obtain ⟨hr2, hrh, hrun⟩ := tan_shape hD a i1 i2
  set x : ℝ := (a : ℝ) / sc D with hx
  have hcx : cos x ≠ 0 := cos_ne_zero_dyadic a D.f
  have e2 : ((2 * a : Int) : ℝ) / sc D = 2 * x := by rw [hx]; push_cast; ring
  have b2 : |((2 * a : Int) : ℝ) / sc D| ≤ 200 := by
    rw [e2, abs_mul, abs_two]; linarith
  have hS := sin_accuracy_gen hD (2 * a) hr2 (le_trans b2 (by norm_num))
  have hC := cos_accuracy_gen hD (2 * a) b2
  rw [e2] at hS hC
  have hS' : |((sinPure D (2 * a) : Int) : ℝ) / sc D - sin (2 * x)| ≤ eps0 := by
    refine le_trans hS ?_; unfold eps0; norm_num
  have hC' : |((sinPure D (2 * a + H D) : Int) : ℝ) / sc D - cos (2 * x)| ≤ eps0 := hC
  obtain ⟨hpos, hq⟩ := tan_quot x _ _ eps0 hcx hS' hC' hε
  generalize sinPure D (2 * a + H D) = c at *
  generalize sinPure D (2 * a) = s at *
  -- the denominator
  have hsc : sc D = ((p2 D.f : Int) : ℝ) := (p2_cast D.f).symm
  have hdenR : ((p2 D.f + c : Int) : ℝ) = sc D * (1 + (c : ℝ) / sc D) := by
    push_cast; rw [← hsc]; field_simp
  have hdenpos : 0 < p2 D.f + c := by
    have : (0 : ℝ) < ((p2 D.f + c : Int) : ℝ) := by rw [hdenR]; positivity
    exact_mod_cast this
  obtain ⟨r0, hdiv, hr1, hr2'⟩ := divSpec_cases D.f s (p2 D.f + c) hdenpos
  generalize divSpec D.f s (p2 D.f + c) = q at *
  refine ⟨q, ?_, fun hin => hrun hdenpos hin⟩
  -- the truncation of the division
  have hdivR : (s : ℝ) * sc D = ((p2 D.f + c : Int) : ℝ) * (q : ℝ) + (r0 : ℝ) := by
    rw [hsc]; exact_mod_cast hdiv
  have hdpos : (0 : ℝ) < ((p2 D.f + c : Int) : ℝ) := by exact_mod_cast hdenpos
  have hr1R : -((p2 D.f + c : Int) : ℝ) < (r0 : ℝ) := by exact_mod_cast hr1
  have hr2R : (r0 : ℝ) < ((p2 D.f + c : Int) : ℝ) := by exact_mod_cast hr2'
  have hqq : (q : ℝ) / sc D = (s : ℝ) / sc D / (1 + (c : ℝ) / sc D) - (r0 : ℝ) / ((p2 D.f + c : Int) : ℝ) / sc D := by
    have : (q : ℝ) = ((s : ℝ) * sc D - (r0 : ℝ)) / ((p2 D.f + c : Int) : ℝ) := by
      rw [hdivR]; field_simp; ring
    rw [this, hdenR]; field_simp
  have hrem : |(r0 : ℝ) / ((p2 D.f + c : Int) : ℝ) / sc D| ≤ 1 / sc D := by
    rw [abs_div, abs_of_pos hs]
    apply div_le_div_of_nonneg_right _ hs.le
    rw [abs_div, abs_of_pos hdpos, div_le_one hdpos, abs_le]
    constructor <;> linarith
  have : (q : ℝ) / sc D - tan x = ((s : ℝ) / sc D / (1 + (c : ℝ) / sc D) - tan x) -
      (r0 : ℝ) / ((p2 D.f + c : Int) : ℝ) / sc D := by rw [hqq]; ring
  rw [this]
  refine le_trans (abs_sub _ _) ?_
  linarith

/-- `tan` is total wherever the true tangent is at most 64 in magnitude (`|a / 2^f| ≤ 100`): no panic (the computed denominator
`1 + cos 2a` is positive), no debug-only check (the quotient is representable), at most 50 loop iterations; the result is within
`2.1` of the true tangent (crude) -/
theorem tan_total_64 {D : Layout} (hD : Ok D) (a : Int) (hb : |(a : ℝ) / sc D| ≤ 100) (ht : |tan ((a : ℝ) / sc D)| ≤ 64) :
    ∃ r it, Trans.run (Trans.tan D a) = .ok (some r, it) false ∧ it ≤ 50 ∧
      |(r : ℝ) / sc D - tan ((a : ℝ) / sc D)| ≤
        eps0 * (1 + |tan ((a : ℝ) / sc D)|) / (1 + cos (2 * ((a : ℝ) / sc D)) - eps0) + 1 / sc D ∧
      |(r : ℝ) / sc D| ≤ 67 := by
  have hs := sc_pos D
  set x : ℝ := (a : ℝ) / sc D with hx
  have hcx : cos x ≠ 0 := cos_ne_zero_dyadic a D.f
  have hm := one_add_cos_two x hcx
  have ht2 : tan x ^ 2 ≤ 4096 := by
    have := sq_le_sq' (neg_le_of_abs_le ht) (le_of_abs_le ht)
    norm_num at this ⊢; exact this
  have hm0 : 0 ≤ 1 + cos (2 * x) := by have := neg_one_le_cos (2 * x); linarith
  have hmlow : 2 / 4097 ≤ 1 + cos (2 * x) := by nlinarith
  have he : eps0 < 1 + cos (2 * x) := by
    refine lt_of_lt_of_le ?_ hmlow; unfold eps0; norm_num
  obtain ⟨q, hq, hrun⟩ := tan_core hD a hb he
  rw [← hx] at hq
  have hu : 1 / sc D ≤ 1 / 2 ^ 23 := one_div_le_one_div_of_le (by positivity) (sc_ge hD)
  have hu1 : 1 / sc D ≤ 1 := le_trans hu (by norm_num)
  have hB : eps0 * (1 + |tan x|) / (1 + cos (2 * x) - eps0) ≤ 2 := by
    have hpos : 0 < 1 + cos (2 * x) - eps0 := by linarith
    rw [div_le_iff₀ hpos]
    have e0 : (0 : ℝ) ≤ eps0 := by unfold eps0; positivity
    have : eps0 * (1 + |tan x|) ≤ eps0 * 65 := mul_le_mul_of_nonneg_left (by linarith) e0
    unfold eps0 at *
    norm_num at this hmlow ⊢
    linarith
  have hqabs : |(q : ℝ) / sc D| ≤ 67 := by
    have : (q : ℝ) / sc D = ((q : ℝ) / sc D - tan x) + tan x := by ring
    rw [this]
    refine le_trans (abs_add_le _ _) ?_
    linarith
  obtain ⟨j1, j2⟩ := int_bounds (D := D) q 67 (by push_cast; exact hqabs)
  have hp := p2_pos D.f
  obtain ⟨it, hit, hr⟩ := hrun (inRange_255 hD q (by omega) (by omega))
  exact ⟨q, it, hr, hit, hq, hqabs⟩

/-- the tan clause of C16 with `|tan x| ≤ 8` in place of `|tan x| ≤ 64` -/
theorem tan_accuracy_8 {D : Layout} (hD : Ok D) (a : Int) (hb : |(a : ℝ) / sc D| ≤ 100) (ht : |tan ((a : ℝ) / sc D)| ≤ 8) :
    ∃ r it, Trans.run (Trans.tan D a) = .ok (some r, it) false ∧ it ≤ 50 ∧
      |(r : ℝ) / sc D - tan ((a : ℝ) / sc D)| ≤ (1 + tan ((a : ℝ) / sc D) ^ 2) / 2 ^ 14 := by
  obtain ⟨r, it, hrun, hit, hacc, _⟩ := tan_total_64 hD a hb (le_trans ht (by norm_num))
  refine ⟨r, it, hrun, hit, le_trans hacc ?_⟩
  have hcx : cos ((a : ℝ) / sc D) ≠ 0 := cos_ne_zero_dyadic a D.f
  have hs := sc_pos D
  generalize (a : ℝ) / sc D = x at *
  have hm := one_add_cos_two x hcx
  have ht2 : tan x ^ 2 ≤ 64 := by
    have := sq_le_sq' (neg_le_of_abs_le ht) (le_of_abs_le ht)
    norm_num at this ⊢; exact this
  have hm2 : 1 + cos (2 * x) ≤ 2 := by have := cos_le_one (2 * x); linarith
  have hm0 : 0 ≤ 1 + cos (2 * x) := by have := neg_one_le_cos (2 * x); linarith
  have hmlow : 2 / 65 ≤ 1 + cos (2 * x) := by nlinarith
  have e0 : (0 : ℝ) ≤ eps0 := by unfold eps0; positivity
  have e1 : eps0 ≤ 13 / 1000000 := by unfold eps0; norm_num
  have hpos : 0 < 1 + cos (2 * x) - eps0 := by linarith
  have hu : 1 / sc D ≤ 1 / 2 ^ 23 := one_div_le_one_div_of_le (by positivity) (sc_ge hD)
  have h23 : (2 : ℝ) ^ 23 = 8388608 := by norm_num
  have h14 : (2 : ℝ) ^ 14 = 16384 := by norm_num
  rw [h23] at hu
  have hu0 : 0 ≤ 1 / sc D := by positivity
  have htt : 0 ≤ tan x ^ 2 := sq_nonneg _
  -- multiply through by the positive denominator
  have key : eps0 * (1 + |tan x|) + 1 / sc D * (1 + cos (2 * x) - eps0) ≤
      (1 + tan x ^ 2) / 2 ^ 14 * (1 + cos (2 * x) - eps0) := by
    have l1 : eps0 * (1 + |tan x|) ≤ eps0 * 9 := mul_le_mul_of_nonneg_left (by linarith) e0
    have l2 : 1 / sc D * (1 + cos (2 * x) - eps0) ≤ 1 / 8388608 * 2 := by
      apply mul_le_mul hu (by linarith) hpos.le (by positivity)
    have r1 : (1 + tan x ^ 2) / 2 ^ 14 * (1 + cos (2 * x) - eps0) = (2 - eps0 * (1 + tan x ^ 2)) / 2 ^ 14 := by
      have : (1 + tan x ^ 2) / 2 ^ 14 * (1 + cos (2 * x) - eps0) =
          ((1 + cos (2 * x)) * (1 + tan x ^ 2) - eps0 * (1 + tan x ^ 2)) / 2 ^ 14 := by ring
      rw [this, hm]
    have r2 : eps0 * (1 + tan x ^ 2) ≤ eps0 * 65 := mul_le_mul_of_nonneg_left (by linarith) e0
    rw [r1, h14]
    linarith
  rw [div_add' _ _ _ hpos.ne', div_le_iff₀ hpos]
  exact key

/-! ### the statements with `2 ^ D.f` spelled out -/

/-- `tan` is total (no panic, no debug-only check, at most 50 loop iterations) for `|x| ≤ 100`, `|tan x| ≤ 64`; the result is at most
`67` in magnitude.  This discharges the two hypotheses of `TrigPf.tan_total_of` (denominator non-zero, quotient representable). -/
theorem tan_total (D : Layout) (hv : D.valid) (hsg : D.signed = true) (hf : 23 ≤ D.f) (hi : 9 ≤ D.intBits)
    (a : Int) (hb : |(a : ℝ) / 2 ^ D.f| ≤ 100) (ht : |Real.tan ((a : ℝ) / 2 ^ D.f)| ≤ 64) :
    ∃ r it, Trans.run (Trans.tan D a) = .ok (some r, it) false ∧ it ≤ 50 ∧ |(r : ℝ) / 2 ^ D.f| ≤ 67 := by
  obtain ⟨r, it, h1, h2, _, h3⟩ := tan_total_64 (D := D) ⟨hv, hsg, hf, hi⟩ a hb ht
  exact ⟨r, it, h1, h2, h3⟩

/-- the tan clause of C16 with `8` in place of `64`: every result of `Trans.tan` on `|x| ≤ 100`, `|tan x| ≤ 8` is within
`(1 + tan² x) / 2^14` of the true tangent -/
theorem tan_accuracy_partial (D : Layout) (hv : D.valid) (hsg : D.signed = true) (hf : 23 ≤ D.f) (hi : 9 ≤ D.intBits)
    (a : Int) (hb : |(a : ℝ) / 2 ^ D.f| ≤ 100) (ht : |Real.tan ((a : ℝ) / 2 ^ D.f)| ≤ 8)
    (r : Int) (it : Nat) (dbg : Bool) (hrun : Trans.run (Trans.tan D a) = .ok (some r, it) dbg) :
    |(r : ℝ) / 2 ^ D.f - Real.tan ((a : ℝ) / 2 ^ D.f)| ≤ (1 + Real.tan ((a : ℝ) / 2 ^ D.f) ^ 2) / 2 ^ 14 := by
  obtain ⟨r', it', h1, _, h3⟩ := tan_accuracy_8 (D := D) ⟨hv, hsg, hf, hi⟩ a hb ht
  rw [h1] at hrun
  injection hrun with e1 _
  injection e1 with e2 _
  injection e2 with e3
  rw [← e3]
  exact h3

end Sfx.TrigAccPf

#print axioms Sfx.TrigAccPf.tan_total
#print axioms Sfx.TrigAccPf.tan_accuracy_partial
#print axioms Sfx.TrigAccPf.tan_core
#print axioms Sfx.TrigAccPf.tan_total_64
#print axioms Sfx.TrigAccPf.tan_accuracy_8
