import SfxModel.ExtCast
import SfxProofs.Convert
import SfxProofs.ToFloat
import SfxProofs.FromFloat
/-
  ExtCast.lean — the `az` cast impls of `src/cast.rs` (`SfxModel/ExtCast.lean`): every modelled cast IS the `to_num` / `from_num` form it
  forwards to (definitional), hence satisfies the C04 (fixed ↔ fixed / integer) and C05 (fixed ↔ float) specification; `StaticCast`
  returns `Some(exact result)` exactly when the conversion works for all source values (the sentence of the `az` documentation) and
  `None` otherwise, without panic or debug-only check in either profile.  Core Lean only.
-/
namespace Sfx.ExtCastPf
open Sfx.ConvPf Sfx.ToFloatPf Sfx.FromFloatPf Sfx.ExtCast Layout

/-! ## (1) the casts are the `to_num` / `from_num` forms -/

theorem cast_eq (S D : Layout) (x : Int) : ExtCast.cast S D x = Layout.fromFixed S D x := rfl
theorem checkedCast_eq (S D : Layout) (x : Int) : checkedCast S D x = Layout.checkedFromFixed S D x := rfl
theorem saturatingCast_eq (S D : Layout) (x : Int) : saturatingCast S D x = Layout.saturatingFromFixed S D x := rfl
theorem wrappingCast_eq (S D : Layout) (x : Int) : wrappingCast S D x = Layout.wrappingFromFixed S D x := rfl
theorem overflowingCast_eq (S D : Layout) (x : Int) : overflowingCast S D x = Layout.overflowingFromFixed S D x := rfl

theorem castToFloat_eq (S : Layout) (F : FloatFmt) (x : Int) :
    castToFloat S F x = S.toFloat F x ∧ checkedCastToFloat S F x = some (S.toFloat F x) ∧ saturatingCastToFloat S F x = S.toFloat F x ∧
    wrappingCastToFloat S F x = S.toFloat F x ∧ overflowingCastToFloat S F x = (S.toFloat F x, false) ∧
    staticCastToFloat S F x = some (S.toFloat F x) := ⟨rfl, rfl, rfl, rfl, rfl, rfl⟩

theorem castFromFloat_eq (D : Layout) (F : FloatFmt) (b : Nat) :
    castFromFloat D F b = D.fromFloat F b ∧ checkedCastFromFloat D F b = D.checkedFromFloat F b ∧
    saturatingCastFromFloat D F b = D.saturatingFromFloat F b ∧ wrappingCastFromFloat D F b = D.wrappingFromFloat F b ∧
    overflowingCastFromFloat D F b = D.overflowingFromFloat F b := ⟨rfl, rfl, rfl, rfl, rfl⟩

/-! ## (2) C04 for the casts: exact result, precise overflow, in the four forms + plain -/

/-- the five run-time casts between two layouts (fixed → fixed; with `Layout.ofInt` on either side: fixed → integer, integer → fixed) -/
theorem cast_C04 (S D : Layout) (hS : S.valid) (hD : D.valid) (x : Int) (hx : inRange S x) :
    overflowingCast S D x = D.ovf (Layout.convExact S D x) ∧
    checkedCast S D x = D.chk (Layout.convExact S D x) ∧
    wrappingCast S D x = D.wrap (Layout.convExact S D x) ∧
    saturatingCast S D x = D.clamp (Layout.convExact S D x) ∧
    ExtCast.cast S D x = .ok (D.wrap (Layout.convExact S D x)) (!decide (inRange D (Layout.convExact S D x))) :=
  ⟨overflowingFromFixed_spec S D hS hD x hx, checkedFromFixed_spec S D hS hD x hx, wrappingFromFixed_spec S D hS hD x hx,
    saturatingFromFixed_spec S D hS hD x hx, fromFixed_spec S D hS hD x hx⟩

/-- fixed → integer: the exact result is `⌊x / 2^f⌋` -/
theorem cast_toInt (L : Layout) (hL : L.valid) (si : Bool) (ni : Nat) (hni : ni = 8 ∨ ni = 16 ∨ ni = 32 ∨ ni = 64 ∨ ni = 128)
    (x : Int) (hx : inRange L x) :
    overflowingCast L (Layout.ofInt si ni) x = ovfI si ni (x / 2 ^ L.f) ∧
    checkedCast L (Layout.ofInt si ni) x = chkI si ni (x / 2 ^ L.f) ∧
    wrappingCast L (Layout.ofInt si ni) x = wrapI si ni (x / 2 ^ L.f) ∧
    saturatingCast L (Layout.ofInt si ni) x = clampI si ni (x / 2 ^ L.f) ∧
    ExtCast.cast L (Layout.ofInt si ni) x = .ok (wrapI si ni (x / 2 ^ L.f)) (!decide (inI si ni (x / 2 ^ L.f))) := by
  have h := cast_C04 L (Layout.ofInt si ni) hL (ofInt_valid si hni) x hx
  rw [convExact_toInt] at h
  exact h

/-- integer → fixed: the exact result is `k · 2^f` -/
theorem cast_fromInt (L : Layout) (hL : L.valid) (si : Bool) (ni : Nat) (hni : ni = 8 ∨ ni = 16 ∨ ni = 32 ∨ ni = 64 ∨ ni = 128)
    (k : Int) (hk : inI si ni k) :
    overflowingCast (Layout.ofInt si ni) L k = L.ovf (k * 2 ^ L.f) ∧
    checkedCast (Layout.ofInt si ni) L k = L.chk (k * 2 ^ L.f) ∧
    wrappingCast (Layout.ofInt si ni) L k = L.wrap (k * 2 ^ L.f) ∧
    saturatingCast (Layout.ofInt si ni) L k = L.clamp (k * 2 ^ L.f) ∧
    ExtCast.cast (Layout.ofInt si ni) L k = .ok (L.wrap (k * 2 ^ L.f)) (!decide (inRange L (k * 2 ^ L.f))) := by
  have h := cast_C04 (Layout.ofInt si ni) L (ofInt_valid si hni) hL k hk
  rw [convExact_fromInt] at h
  exact h

/-- `bool` → fixed: `false` / `true` are the integers 0 / 1 (converted through `u8`) -/
theorem cast_fromBool (L : Layout) (hL : L.valid) (k : Int) (hk : k = 0 ∨ k = 1) :
    overflowingCast boolRepr L k = L.ovf (k * 2 ^ L.f) ∧
    checkedCast boolRepr L k = L.chk (k * 2 ^ L.f) ∧
    wrappingCast boolRepr L k = L.wrap (k * 2 ^ L.f) ∧
    saturatingCast boolRepr L k = L.clamp (k * 2 ^ L.f) ∧
    ExtCast.cast boolRepr L k = .ok (L.wrap (k * 2 ^ L.f)) (!decide (inRange L (k * 2 ^ L.f))) :=
  cast_fromInt L hL false 8 (Or.inl rfl) k (by rcases hk with rfl | rfl <;> decide)

/-! ## (3) `StaticCast` -/

/-- the `$cond` of `cast.rs` is the integer-bit condition of `LossyFrom` (`convert.rs`) -/
theorem staticCond_iff (S D : Layout) : staticCond S D = true ↔ lossyAdmissible S D := by
  obtain ⟨ss, sn, sf⟩ := S
  obtain ⟨ds, dn, df⟩ := D
  unfold staticCond lossyAdmissible Layout.intBits
  cases ss <;> cases ds <;> simp <;> omega

/-- an integer type has `8 * size_of` integer bits: the integer rows of `compile_time!` are `staticCond` on `Layout.ofInt` -/
theorem ofInt_intBits (si : Bool) (ni : Nat) : (Layout.ofInt si ni).intBits = ni := rfl

theorem min_inRange (S : Layout) : inRange S S.min := by
  unfold inRange Layout.min inI minI maxI
  have := two_pow_pos (S.n - 1)
  have := two_pow_pos S.n
  cases S.signed <;> simp <;> omega

theorem max_inRange (S : Layout) : inRange S S.max := by
  unfold inRange Layout.max inI minI maxI
  have := two_pow_pos (S.n - 1)
  have := two_pow_pos S.n
  cases S.signed <;> simp <;> omega

/-- when the condition fails, one of the two ends of the source range does not fit the destination -/
theorem ends_not_fit (S D : Layout) (hS : S.valid) (hD : D.valid) (h : ¬ lossyAdmissible S D) :
    ¬ inRange D (Layout.convExact S D S.min) ∨ ¬ inRange D (Layout.convExact S D S.max) := by
  have hSn := valid_ge8 hS
  have hDn := valid_ge8 hD
  have hSf := hS.2
  have hDf := hD.2
  rw [← floorShift_eq_convExact, ← floorShift_eq_convExact]
  obtain ⟨ss, sn, sf⟩ := S
  obtain ⟨ds, dn, df⟩ := D
  unfold lossyAdmissible at h
  unfold inRange Layout.min Layout.max minI maxI
  simp only at *
  have hp1 := two_pow_pos (sn - 1)
  have hsplit := pow_split (n := sn) (by omega)
  cases ss <;> cases ds <;> simp at h <;> simp only [Bool.false_eq_true, if_false, if_true]
  · -- unsigned → unsigned: MAX
    right
    rw [inU_iff]
    intro hin
    by_cases hm : 0 ≤ (dn : Int) + ((sf : Int) - (df : Int))
    · have h1 := (floorShift_lt_iff _ _ dn hm).1 hin.2
      have h2 := pow_le_pow (a := ((dn : Int) + ((sf : Int) - (df : Int))).toNat) (b := sn - 1) (by omega)
      omega
    · have h1 := floorShift_big_pos (2 ^ sn - 1) ((sf : Int) - (df : Int)) dn (by omega) (by omega)
      omega
  · -- unsigned → signed: MAX
    right
    rw [inS_iff]
    intro hin
    by_cases hm : 0 ≤ ((dn - 1 : Nat) : Int) + ((sf : Int) - (df : Int))
    · have h1 := (floorShift_lt_iff _ _ (dn - 1) hm).1 hin.2
      have h2 := pow_le_pow (a := (((dn - 1 : Nat) : Int) + ((sf : Int) - (df : Int))).toNat) (b := sn - 1) (by omega)
      omega
    · have h1 := floorShift_big_pos (2 ^ sn - 1) ((sf : Int) - (df : Int)) (dn - 1) (by omega) (by omega)
      omega
  · -- signed → unsigned: MIN is negative
    left
    rw [inU_iff]
    intro hin
    have := floorShift_neg_of_neg (-(2 ^ (sn - 1))) ((sf : Int) - (df : Int)) (by omega)
    omega
  · -- signed → signed: MIN
    left
    rw [inS_iff]
    intro hin
    by_cases hm : 0 ≤ ((dn - 1 : Nat) : Int) + ((sf : Int) - (df : Int))
    · have h1 := (floorShift_ge_iff _ _ (dn - 1) hm).1 hin.1
      have h2 := pow_lt_pow (a := (((dn - 1 : Nat) : Int) + ((sf : Int) - (df : Int))).toNat) (b := sn - 1) (by omega)
      omega
    · have h1 := floorShift_big_neg (-(2 ^ (sn - 1))) ((sf : Int) - (df : Int)) (dn - 1) (by omega) (by omega)
      omega

/-- the type-level condition of `cast.rs` is exactly "the conversion works for all source type values" -/
theorem staticCond_eq_worksForAll (S D : Layout) (hS : S.valid) (hD : D.valid) : staticCond S D = worksForAll S D := by
  by_cases h : lossyAdmissible S D
  · have h1 := convExact_inRange S D hS hD h _ (min_inRange S)
    have h2 := convExact_inRange S D hS hD h _ (max_inRange S)
    rw [(staticCond_iff S D).2 h]
    unfold worksForAll
    simp [h1, h2]
  · have hc : staticCond S D = false := by
      cases hb : staticCond S D
      · rfl
      · exact absurd ((staticCond_iff S D).1 hb) h
    rw [hc]
    unfold worksForAll
    rcases ends_not_fit S D hS hD h with h1 | h1 <;> simp [h1]

/-- … and "works for all" means what it says -/
theorem worksForAll_iff (S D : Layout) (hS : S.valid) (hD : D.valid) :
    worksForAll S D = true ↔ ∀ x, inRange S x → inRange D (Layout.convExact S D x) := by
  constructor
  · intro h x hx
    rw [← staticCond_eq_worksForAll S D hS hD] at h
    exact convExact_inRange S D hS hD ((staticCond_iff S D).1 h) x hx
  · intro h
    unfold worksForAll
    simp [h _ (min_inRange S), h _ (max_inRange S)]

/-- `static_cast` where the condition holds: `Some(exact result)`, silently, in every profile -/
theorem staticCast_some (S D : Layout) (hS : S.valid) (hD : D.valid) (h : staticCond S D = true) (x : Int) (hx : inRange S x) :
    staticCast S D x = .ok (some (Layout.convExact S D x)) false ∧ inRange D (Layout.convExact S D x) := by
  have ha := (staticCond_iff S D).1 h
  refine ⟨?_, convExact_inRange S D hS hD ha x hx⟩
  unfold staticCast ExtCast.cast
  rw [if_pos h, lossyFrom_spec S D hS hD ha x hx]
  rfl

/-- `static_cast` where the condition fails: `None` (nothing is evaluated), and some source value really does not fit -/
theorem staticCast_none (S D : Layout) (hS : S.valid) (hD : D.valid) (h : staticCond S D = false) (x : Int) :
    staticCast S D x = .ok none false ∧ ∃ y, inRange S y ∧ ¬ inRange D (Layout.convExact S D y) := by
  refine ⟨by unfold staticCast; rw [h]; rfl, ?_⟩
  have hn : ¬ lossyAdmissible S D := fun ha => by rw [(staticCond_iff S D).2 ha] at h; exact Bool.noConfusion h
  rcases ends_not_fit S D hS hD hn with h1 | h1
  · exact ⟨_, min_inRange S, h1⟩
  · exact ⟨_, max_inRange S, h1⟩

/-- model = documented answer for `static_cast` (fixed → fixed; with `Layout.ofInt`: fixed → integer and integer → fixed) -/
theorem staticCast_spec (S D : Layout) (hS : S.valid) (hD : D.valid) (x : Int) (hx : inRange S x) :
    staticCast S D x = staticSpec S D x := by
  unfold staticSpec
  rw [← staticCond_eq_worksForAll S D hS hD]
  cases h : staticCond S D
  · rw [(staticCast_none S D hS hD h x).1]; rfl
  · rw [(staticCast_some S D hS hD h x hx).1]; rfl

/-- `bool` → fixed: the condition of the `bool` rows is the general one for a one-bit unsigned source … -/
theorem staticCondBool_eq (D : Layout) : staticCondBool D = staticCond boolLayout D := by
  unfold staticCondBool staticCond boolLayout Layout.ofInt Layout.intBits
  simp

/-- … which is "works for all source values" (`false`, `true`) … -/
theorem staticCondBool_eq_worksForAll (D : Layout) (hD : D.valid) : staticCondBool D = worksForAll boolLayout D := by
  have hDn := valid_ge8 hD
  have hDf := hD.2
  obtain ⟨ds, dn, df⟩ := D
  unfold staticCondBool worksForAll boolLayout Layout.ofInt Layout.convExact Layout.min Layout.max minI maxI inRange Layout.intBits
  simp only at *
  have e0 : (0 : Int) * 2 ^ df / 2 ^ 0 = 0 := by simp
  have e1 : ((2 : Int) ^ 1 - 1) * 2 ^ df / 2 ^ 0 = 2 ^ df := by simp
  simp only [Bool.false_eq_true, if_false, e0, e1]
  have hpd := two_pow_pos df
  cases ds <;> simp only [Bool.false_eq_true, if_false, if_true]
  · rw [Bool.eq_iff_iff]
    simp only [decide_eq_true_eq, Bool.and_eq_true, inU_iff]
    constructor
    · intro h
      have := pow_lt_pow (a := df) (b := dn) (by omega)
      have := two_pow_pos dn
      omega
    · intro ⟨_, _, h⟩
      by_cases hc : 1 ≤ dn - df
      · exact hc
      · have := pow_le_pow (a := dn) (b := df) (by omega)
        omega
  · rw [Bool.eq_iff_iff]
    simp only [decide_eq_true_eq, Bool.and_eq_true, inS_iff]
    constructor
    · intro h
      have := pow_lt_pow (a := df) (b := dn - 1) (by omega)
      have := two_pow_pos (dn - 1)
      omega
    · intro ⟨_, _, h⟩
      by_cases hc : 1 < dn - df
      · exact hc
      · have := pow_le_pow (a := dn - 1) (b := df) (by omega)
        omega

/-- … and `static_cast` of a `bool` is the documented answer: `Some(k · 2^f)` when both values fit, `None` otherwise; silent in every profile -/
theorem staticCastBool_spec (D : Layout) (hD : D.valid) (k : Int) (hk : k = 0 ∨ k = 1) :
    staticCastBool D k = staticSpec boolLayout D k ∧
    staticCastBool D k = if worksForAll boolLayout D then .ok (some (k * 2 ^ D.f)) false else .ok none false := by
  have hconv : Layout.convExact boolLayout D k = k * 2 ^ D.f := by unfold boolLayout; exact convExact_fromInt D false 1 k
  have key : staticCastBool D k = if worksForAll boolLayout D then .ok (some (k * 2 ^ D.f)) false else .ok none false := by
    rw [← staticCondBool_eq_worksForAll D hD]
    unfold staticCastBool
    cases h : staticCondBool D
    · rfl
    · simp only [if_true]
      -- both values fit: the plain cast is exact and silent
      have hw : worksForAll boolLayout D = true := by rw [← staticCondBool_eq_worksForAll D hD]; exact h
      unfold worksForAll at hw
      simp only [Bool.and_eq_true, decide_eq_true_eq] at hw
      have hin : inRange D (k * 2 ^ D.f) := by
        rcases hk with rfl | rfl
        · have := hw.1; rw [show boolLayout.min = 0 from rfl, hconv0 D] at this; simpa using this
        · have := hw.2; rw [show boolLayout.max = 1 from by decide, hconv1 D] at this; simpa using this
      rw [(cast_fromBool D hD k hk).2.2.2.2]
      have hwr : D.wrap (k * 2 ^ D.f) = k * 2 ^ D.f := wrapI_of_in (valid_pos hD) hin
      rw [hwr]
      simp [Outcome.map', hin]
  refine ⟨?_, key⟩
  rw [key]
  unfold staticSpec
  rw [hconv]
  cases worksForAll boolLayout D <;> rfl
where
  hconv0 (D : Layout) : Layout.convExact boolLayout D 0 = 0 * 2 ^ D.f := by unfold boolLayout; exact convExact_fromInt D false 1 0
  hconv1 (D : Layout) : Layout.convExact boolLayout D 1 = 1 * 2 ^ D.f := by unfold boolLayout; exact convExact_fromInt D false 1 1

/-! ## (4) C05 for the casts -/

theorem cast_C05 (F : FloatFmt) (hF : F = f32 ∨ F = f64) (L : Layout) (hL : L.valid) :
    -- float → fixed, finite input: one exact rounded result `E`, the four policies (+ plain) decide overflow on `E`
    (∀ b : Nat, b < 2 ^ F.nbits → ∀ E : Int, floatToGrid F b L.f = some E →
      overflowingCastFromFloat L F b = .ok (L.ovf E) false ∧ checkedCastFromFloat L F b = .ok (L.chk E) false ∧
      saturatingCastFromFloat L F b = .ok (L.clamp E) false ∧ wrappingCastFromFloat L F b = .ok (L.wrap E) false ∧
      castFromFloat L F b = .ok (L.wrap E) (!decide (inRange L E))) ∧
    -- float → fixed, non-finite input: rejected as documented
    (∀ b : Nat, b < 2 ^ F.nbits → floatExact F b = none →
      checkedCastFromFloat L F b = .ok none false ∧ overflowingCastFromFloat L F b = .panic ∧ wrappingCastFromFloat L F b = .panic ∧
      castFromFloat L F b = .panic ∧
      ((F.parts b).2.2 ≠ 0 → saturatingCastFromFloat L F b = .panic) ∧
      ((F.parts b).2.2 = 0 → saturatingCastFromFloat L F b = .ok (if (F.parts b).1 then L.min else L.max) false)) ∧
    -- fixed → float: the IEEE-754 round-to-nearest-even result in every form, never an overflow, `static_cast` always `Some`
    (∀ x : Int, inRange L x →
      castToFloat L F x = rneFloat F L.f x ∧ checkedCastToFloat L F x = some (rneFloat F L.f x) ∧
      saturatingCastToFloat L F x = rneFloat F L.f x ∧ wrappingCastToFloat L F x = rneFloat F L.f x ∧
      overflowingCastToFloat L F x = (rneFloat F L.f x, false) ∧ staticCastToFloat L F x = some (rneFloat F L.f x)) ∧
    -- float → fixed `static_cast`: `None` without evaluating anything, and some source value (a NaN) has no conversion
    ((∀ b : Nat, staticCastFromFloat L F b = .ok none false) ∧
      ∃ b : Nat, b < 2 ^ F.nbits ∧ checkedCastFromFloat L F b = .ok none false ∧ castFromFloat L F b = .panic) := by
  refine ⟨fun b hb E hE => ⟨overflowingFromFloat_spec F hF L hL b hb E hE, checkedFromFloat_spec F hF L hL b hb E hE,
    saturatingFromFloat_spec F hF L hL b hb E hE, wrappingFromFloat_spec F hF L hL b hb E hE, fromFloat_spec F hF L hL b hb E hE⟩,
    fun b hb hnf => nonfinite_spec F hF L hL b hb hnf, fun x hx => ?_, fun _ => rfl, ?_⟩
  · have h := toFloat_eq_rneFloat F hF L hL x hx
    unfold castToFloat checkedCastToFloat saturatingCastToFloat wrappingCastToFloat overflowingCastToFloat staticCastToFloat castToFloat
    rw [h]
    exact ⟨rfl, rfl, rfl, rfl, rfl, rfl⟩
  · rcases hF with rfl | rfl
    · have hnf : floatExact f32 0x7FC00000 = none := by decide
      have := nonfinite_spec f32 (Or.inl rfl) L hL 0x7FC00000 (by decide) hnf
      exact ⟨0x7FC00000, by decide, this.1, this.2.2.2.1⟩
    · have hnf : floatExact f64 0x7FF8000000000000 = none := by decide
      have := nonfinite_spec f64 (Or.inr rfl) L hL 0x7FF8000000000000 (by decide) hnf
      exact ⟨0x7FF8000000000000, by decide, this.1, this.2.2.2.1⟩

end Sfx.ExtCastPf

#print axioms Sfx.ExtCastPf.cast_eq
#print axioms Sfx.ExtCastPf.castToFloat_eq
#print axioms Sfx.ExtCastPf.castFromFloat_eq
#print axioms Sfx.ExtCastPf.cast_C04
#print axioms Sfx.ExtCastPf.cast_toInt
#print axioms Sfx.ExtCastPf.cast_fromInt
#print axioms Sfx.ExtCastPf.cast_fromBool
#print axioms Sfx.ExtCastPf.staticCond_iff
#print axioms Sfx.ExtCastPf.staticCond_eq_worksForAll
#print axioms Sfx.ExtCastPf.worksForAll_iff
#print axioms Sfx.ExtCastPf.staticCast_some
#print axioms Sfx.ExtCastPf.staticCast_none
#print axioms Sfx.ExtCastPf.staticCast_spec
#print axioms Sfx.ExtCastPf.staticCondBool_eq
#print axioms Sfx.ExtCastPf.staticCondBool_eq_worksForAll
#print axioms Sfx.ExtCastPf.staticCastBool_spec
#print axioms Sfx.ExtCastPf.cast_C05
