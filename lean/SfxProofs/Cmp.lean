import SfxModel.ConvSpec
import SfxProofs.Convert
/-
  Cmp.lean — comparisons between fixed-point numbers of two arbitrary layouts (`src/cmp.rs`, model `SfxModel/Cmp.lean`),
  proved against the exact ordering of the values `cmpExact` (core Lean only).

  With `X = b·2^fa`, `P = 2^fb` and `E = ⌊X / P⌋ = convExact B A b` (the right operand on the left operand's grid):
    * the helper reports `dir = Less` iff `X % P ≠ 0`;
    * `convFits` holds iff `E` is in the range of `A`, and then the converted bits are `E`;
    * `a·P ? X` is decided by `a ? E`, refined by `X % P` when `a = E`.
-/
namespace Sfx.CmpPf
open Layout ConvPf

/-! ### the three-way comparison -/

theorem cmpInt_lt {a b : Int} (h : a < b) : cmpInt a b = -1 := by
  unfold cmpInt; rw [if_pos h]

theorem cmpInt_eq {a b : Int} (h : a = b) : cmpInt a b = 0 := by
  unfold cmpInt; rw [if_neg (by omega), if_pos h]

theorem cmpInt_gt {a b : Int} (h : b < a) : cmpInt a b = 1 := by
  unfold cmpInt; rw [if_neg (by omega), if_neg (by omega)]

theorem cmpInt_antisymm (a b : Int) : cmpInt b a = -(cmpInt a b) := by
  rcases Int.lt_trichotomy a b with h | h | h
  · rw [cmpInt_lt h, cmpInt_gt h]; rfl
  · rw [cmpInt_eq h, cmpInt_eq h.symm]; rfl
  · rw [cmpInt_gt h, cmpInt_lt h]

theorem cmpInt_eq_neg_one_iff (a b : Int) : cmpInt a b = -1 ↔ a < b := by
  rcases Int.lt_trichotomy a b with h | h | h
  · rw [cmpInt_lt h]; simp [h]
  · rw [cmpInt_eq h]; constructor <;> intro h' <;> omega
  · rw [cmpInt_gt h]; constructor <;> intro h' <;> omega

theorem cmpInt_eq_zero_iff (a b : Int) : cmpInt a b = 0 ↔ a = b := by
  rcases Int.lt_trichotomy a b with h | h | h
  · rw [cmpInt_lt h]; constructor <;> intro h' <;> omega
  · rw [cmpInt_eq h]; simp [h]
  · rw [cmpInt_gt h]; constructor <;> intro h' <;> omega

theorem cmpInt_eq_one_iff (a b : Int) : cmpInt a b = 1 ↔ b < a := by
  rcases Int.lt_trichotomy a b with h | h | h
  · rw [cmpInt_lt h]; constructor <;> intro h' <;> omega
  · rw [cmpInt_eq h]; constructor <;> intro h' <;> omega
  · rw [cmpInt_gt h]; simp [h]

/-- multiplying both sides by a positive number does not change the ordering -/
theorem cmpInt_mul_right (a b P : Int) (hP : 0 < P) : cmpInt (a * P) (b * P) = cmpInt a b := by
  rcases Int.lt_trichotomy a b with h | h | h
  · rw [cmpInt_lt h, cmpInt_lt (Int.mul_lt_mul_of_pos_right h hP)]
  · rw [cmpInt_eq h, cmpInt_eq (by rw [h])]
  · rw [cmpInt_gt h, cmpInt_gt (Int.mul_lt_mul_of_pos_right h hP)]

/-- comparing `a·P` with `X` through the floor `X / P` and the remainder `X % P` -/
theorem cmp_floor (a X P : Int) (hP : 0 < P) :
    cmpInt (a * P) X = (if a < X / P then -1 else if X / P < a then 1 else if X % P ≠ 0 then -1 else 0) := by
  have e := Int.emod_add_mul_ediv X P
  have h0 := Int.emod_nonneg X (Int.ne_of_gt hP)
  have h1 := Int.emod_lt_of_pos X hP
  rw [Int.mul_comm] at e
  by_cases hlt : a < X / P
  · rw [if_pos hlt]
    have : (a + 1) * P ≤ X / P * P := Int.mul_le_mul_of_nonneg_right (by omega) (Int.le_of_lt hP)
    rw [Int.add_mul] at this
    exact cmpInt_lt (by omega)
  rw [if_neg hlt]
  by_cases hgt : X / P < a
  · rw [if_pos hgt]
    have : (X / P + 1) * P ≤ a * P := Int.mul_le_mul_of_nonneg_right (by omega) (Int.le_of_lt hP)
    rw [Int.add_mul] at this
    exact cmpInt_gt (by omega)
  rw [if_neg hgt]
  have ha : a = X / P := by omega
  by_cases hr : X % P ≠ 0
  · rw [if_pos hr]; exact cmpInt_lt (by rw [ha]; omega)
  · rw [if_neg hr]; exact cmpInt_eq (by rw [ha]; omega)

/-! ### what the left operand sees of the converted right operand -/

/-- the helper's `dir` in exact form: `Less` iff the right operand is not on the left operand's grid -/
theorem helperTo_dir (S D : Layout) (hS : S.valid) (hD : D.valid) (x : Int) (hx : inRange S x) :
    (helperTo S D x).dir = (if (x * 2 ^ D.f) % 2 ^ S.f ≠ 0 then -1 else 0) := by
  by_cases hx0 : x = 0
  · subst hx0
    unfold helperTo
    rw [helper_zero]; simp
  · have hsum : 0 < D.f + D.intBits := by unfold Layout.intBits; have := hD.2; have := valid_pos hD; omega
    unfold helperTo
    rw [helper_dir S.signed S.n (valid_pos hS) (valid_le128 hS) x hx hx0 (S.f : Int) D.f D.intBits hsum]
    by_cases h : S.f ≤ D.f
    · obtain ⟨j, hj⟩ : ∃ j : Nat, D.f = S.f + j := ⟨D.f - S.f, by omega⟩
      have e : x * 2 ^ D.f % 2 ^ S.f = 0 := by
        rw [hj, pow_add', Int.mul_comm (2 ^ S.f) (2 ^ j), ← Int.mul_assoc]
        exact Int.mul_emod_left ..
      rw [if_neg (by omega), if_neg (by omega)]
    · obtain ⟨j, hj0, hj⟩ : ∃ j : Nat, 0 < j ∧ S.f = j + D.f := ⟨S.f - D.f, by omega, by omega⟩
      have e1 : ((S.f : Int) - (D.f : Int)).toNat = j := by omega
      have e : x * 2 ^ D.f % 2 ^ S.f = 2 ^ D.f * (x % 2 ^ j) := by
        rw [hj, pow_add', Int.mul_comm (2 ^ j) (2 ^ D.f), Int.mul_comm x (2 ^ D.f)]
        exact Int.mul_emod_mul_of_pos _ _ (two_pow_pos D.f)
      rw [e1, e]
      have hP := two_pow_pos D.f
      by_cases hr : x % 2 ^ j = 0
      · rw [hr]; simp
      · have : 2 ^ D.f * (x % 2 ^ j) ≠ 0 := Int.mul_ne_zero (Int.ne_of_gt hP) hr
        rw [if_pos ⟨by omega, hr⟩, if_pos this]

/-- the repaired fit test: no helper overflow and the sign of the wrapped bits agrees with the sign of the value -/
theorem fits_combine (sd : Bool) (n : Nat) (hn : 0 < n) (E : Int) :
    (!(if 0 ≤ E then decide (2 ^ n ≤ E) else decide (E < -(2 ^ (n - 1)))) &&
      (decide (E < 0) == decide (wrapI sd n E < 0))) = decide (inI sd n E) := by
  have hp := pow_split hn
  have hpos := two_pow_pos (n - 1)
  cases sd
  · have hw : ¬ wrapI false n E < 0 := by
      have := (inU_iff n _).1 (wrapU_in n E)
      show ¬ wrapU n E < 0
      omega
    by_cases h0 : 0 ≤ E
    · have hn0 : ¬ E < 0 := by omega
      by_cases h1 : 2 ^ n ≤ E
      · have : ¬ inI false n E := by rw [inU_iff]; omega
        simp [h0, h1, this]
      · have : inI false n E := by rw [inU_iff]; omega
        simp [h0, h1, hn0, hw, this]
    · have hn0 : E < 0 := by omega
      have : ¬ inI false n E := by rw [inU_iff]; omega
      simp [hn0, hw, this]
  · by_cases h0 : 0 ≤ E
    · have hn0 : ¬ E < 0 := by omega
      by_cases h1 : 2 ^ n ≤ E
      · have : ¬ inI true n E := by rw [inS_iff]; omega
        simp [h0, h1, this]
      · have hw := wrapS_neg_iff hn h0 (by omega : E < 2 ^ n)
        by_cases h2 : 2 ^ (n - 1) ≤ E
        · have : ¬ inI true n E := by rw [inS_iff]; omega
          have hw' : wrapS n E < 0 := hw.2 h2
          simp [h0, h1, hn0, this, wrapI, hw']
        · have : inI true n E := by rw [inS_iff]; omega
          have hw' : ¬ wrapS n E < 0 := fun h => h2 (hw.1 h)
          simp [h0, h1, hn0, this, wrapI, hw']
    · have hn0 : E < 0 := by omega
      by_cases h1 : E < -(2 ^ (n - 1))
      · have : ¬ inI true n E := by rw [inS_iff]; omega
        simp [h0, h1, this]
      · have : inI true n E := by rw [inS_iff]; omega
        have hwe : wrapS n E = E := wrapS_of_in hn this
        simp [h0, h1, hn0, this, wrapI, hwe]

/-- `convFits` holds exactly when the floor of the right operand on the left grid is representable on the left -/
theorem convFits_eq (A B : Layout) (hA : A.valid) (hB : B.valid) (b : Int) (hb : inRange B b) :
    A.convFits (helperTo B A b) = decide (inRange A (convExact B A b)) := by
  obtain ⟨h1, h2, h3⟩ := helperTo_facts B A hB hA b hb
  unfold Layout.convFits Layout.convBits
  simp only []
  rw [h2, h1, h3]
  exact fits_combine A.signed A.n (valid_pos hA) (convExact B A b)

/-- … and then the converted bits are that floor -/
theorem convBits_eq (A B : Layout) (hA : A.valid) (hB : B.valid) (b : Int) (hb : inRange B b)
    (hfit : inRange A (convExact B A b)) : (A.convBits (helperTo B A b)).2 = convExact B A b := by
  obtain ⟨-, h2, -⟩ := helperTo_facts B A hB hA b hb
  unfold Layout.convBits
  simp only []
  rw [h2]
  exact wrapI_of_in (valid_pos hA) hfit

/-- the exact ordering through the floor `E = convExact B A b` -/
theorem cmpExact_floor (A B : Layout) (a b : Int) :
    cmpExact A.f B.f a b =
      (if a < convExact B A b then -1 else if convExact B A b < a then 1
       else if (b * 2 ^ A.f) % 2 ^ B.f ≠ 0 then -1 else 0) := by
  unfold cmpExact convExact
  exact cmp_floor a (b * 2 ^ A.f) (2 ^ B.f) (two_pow_pos B.f)

theorem inRange_neg {L : Layout} {x : Int} (hx : inRange L x) (hneg : x < 0) : L.signed = true := by
  cases hs : L.signed
  · unfold inRange at hx; rw [hs, inU_iff] at hx; omega
  · rfl

/-- a value out of range on the negative side is below every representable value; on the other side above -/
theorem out_of_range_side (A : Layout) (hA : A.valid) (a E : Int) (ha : inRange A a) (hE : ¬ inRange A E) :
    (E < 0 → a < 0 → E < a) ∧ (0 ≤ E → a < E) := by
  have hn := valid_pos hA
  have hp := pow_split hn
  have hpos := two_pow_pos (A.n - 1)
  unfold inRange at *
  cases hs : A.signed
  · rw [hs, inU_iff] at ha hE
    constructor
    · intro _ _; omega
    · intro _; omega
  · rw [hs, inS_iff] at ha hE
    constructor
    · intro _ _; omega
    · intro _; omega

/-! ### Task A: fixed against fixed -/

theorem partialCmpFixed_spec (A B : Layout) (hA : A.valid) (hB : B.valid) (a b : Int) (ha : inRange A a) (hb : inRange B b) :
    A.partialCmpFixed B a b = some (cmpExact A.f B.f a b) := by
  have hfit := convFits_eq A B hA hB b hb
  have hdir := helperTo_dir B A hB hA b hb
  have hE := cmpExact_floor A B a b
  have hsgn := convExact_neg_iff B A b
  unfold Layout.partialCmpFixed
  by_cases h1 : ¬ a < 0 ∧ b < 0
  · have hc : (!decide (a < 0) && decide (b < 0)) = true := by simp [h1.1, h1.2]
    rw [if_pos hc, hE, if_neg (by have := hsgn.2 h1.2; omega), if_pos (by have := hsgn.2 h1.2; omega)]
  have hc1 : ¬ ((!decide (a < 0) && decide (b < 0)) = true) := by simp; omega
  rw [if_neg hc1]
  by_cases h2 : a < 0 ∧ ¬ b < 0
  · have hc : (decide (a < 0) && !decide (b < 0)) = true := by simp [h2.1, h2.2]
    have : 0 ≤ convExact B A b := convExact_nonneg B A (by omega)
    rw [if_pos hc, hE, if_pos (by omega)]
  have hc2 : ¬ ((decide (a < 0) && !decide (b < 0)) = true) := by simp; omega
  rw [if_neg hc2]
  simp only []
  rw [hfit]
  by_cases hin : inRange A (convExact B A b)
  · have hbits := convBits_eq A B hA hB b hb hin
    have hc : ¬ ((!decide (inRange A (convExact B A b))) = true) := by simp [hin]
    rw [if_neg hc, hbits, hdir, hE]
    by_cases hlt : a < convExact B A b
    · rw [cmpInt_lt hlt, if_pos hlt]; rfl
    · by_cases hgt : convExact B A b < a
      · rw [cmpInt_gt hgt, if_neg hlt, if_pos hgt]; rfl
      · rw [cmpInt_eq (by omega), if_neg hlt, if_neg hgt]; rfl
  · have hc : (!decide (inRange A (convExact B A b))) = true := by simp [hin]
    obtain ⟨s1, s2⟩ := out_of_range_side A hA a _ ha hin
    rw [if_pos hc, hE]
    by_cases hbn : b < 0
    · have := s1 (hsgn.2 hbn) (by omega)
      rw [if_pos hbn, if_neg (by omega), if_pos this]
    · have := s2 (convExact_nonneg B A (by omega))
      rw [if_neg hbn, if_pos this]

theorem ltFixed_spec (A B : Layout) (hA : A.valid) (hB : B.valid) (a b : Int) (ha : inRange A a) (hb : inRange B b) :
    A.ltFixed B a b = decide (cmpExact A.f B.f a b = -1) := by
  have hfit := convFits_eq A B hA hB b hb
  have hdir := helperTo_dir B A hB hA b hb
  have hE := cmpExact_floor A B a b
  have hsgn := convExact_neg_iff B A b
  unfold Layout.ltFixed
  by_cases h1 : ¬ a < 0 ∧ b < 0
  · have hc : (!decide (a < 0) && decide (b < 0)) = true := by simp [h1.1, h1.2]
    rw [if_pos hc, hE, if_neg (by have := hsgn.2 h1.2; omega), if_pos (by have := hsgn.2 h1.2; omega)]
    rfl
  have hc1 : ¬ ((!decide (a < 0) && decide (b < 0)) = true) := by simp; omega
  rw [if_neg hc1]
  by_cases h2 : a < 0 ∧ ¬ b < 0
  · have hc : (decide (a < 0) && !decide (b < 0)) = true := by simp [h2.1, h2.2]
    have : 0 ≤ convExact B A b := convExact_nonneg B A (by omega)
    rw [if_pos hc, hE, if_pos (by omega)]
    rfl
  have hc2 : ¬ ((decide (a < 0) && !decide (b < 0)) = true) := by simp; omega
  rw [if_neg hc2]
  simp only []
  rw [hfit]
  by_cases hin : inRange A (convExact B A b)
  · have hbits := convBits_eq A B hA hB b hb hin
    have hc : ¬ ((!decide (inRange A (convExact B A b))) = true) := by simp [hin]
    rw [if_neg hc, hbits, hdir, hE]
    by_cases hlt : a < convExact B A b
    · rw [if_pos hlt]; simp [hlt]
    · by_cases hgt : convExact B A b < a
      · rw [if_neg hlt, if_pos hgt]
        have : ¬ a = convExact B A b := by omega
        simp [hlt, this]
      · rw [if_neg hlt, if_neg hgt]
        have : a = convExact B A b := by omega
        by_cases hr : (b * 2 ^ A.f) % 2 ^ B.f ≠ 0
        · rw [if_pos hr]; simp [this]
        · rw [if_neg hr]; simp [hlt]
  · have hc : (!decide (inRange A (convExact B A b))) = true := by simp [hin]
    obtain ⟨s1, s2⟩ := out_of_range_side A hA a _ ha hin
    rw [if_pos hc, hE]
    by_cases hbn : b < 0
    · have := s1 (hsgn.2 hbn) (by omega)
      rw [if_neg (by omega), if_pos this]
      simp [hbn]
    · have := s2 (convExact_nonneg B A (by omega))
      rw [if_pos this]
      simp [hbn]

theorem eqFixed_spec (A B : Layout) (hA : A.valid) (hB : B.valid) (a b : Int) (ha : inRange A a) (hb : inRange B b) :
    A.eqFixed B a b = decide (cmpExact A.f B.f a b = 0) := by
  have hfit := convFits_eq A B hA hB b hb
  have hdir := helperTo_dir B A hB hA b hb
  have hE := cmpExact_floor A B a b
  unfold Layout.eqFixed
  simp only []
  rw [hfit, hdir, hE]
  by_cases hin : inRange A (convExact B A b)
  · rw [convBits_eq A B hA hB b hb hin]
    by_cases hlt : a < convExact B A b
    · rw [if_pos hlt]
      have : ¬ convExact B A b = a := by omega
      simp [this]
    · by_cases hgt : convExact B A b < a
      · rw [if_neg hlt, if_pos hgt]
        have : ¬ convExact B A b = a := by omega
        simp [this]
      · rw [if_neg hlt, if_neg hgt]
        have : convExact B A b = a := by omega
        by_cases hr : (b * 2 ^ A.f) % 2 ^ B.f ≠ 0
        · rw [if_pos hr]; simp
        · rw [if_neg hr]; simp [this, ha]
  · have hne : ¬ (a = convExact B A b) := fun h => hin (h ▸ ha)
    by_cases hlt : a < convExact B A b
    · rw [if_pos hlt]; simp [hin]
    · have hgt : convExact B A b < a := by omega
      rw [if_neg hlt, if_pos hgt]; simp [hin]

/-- both operand orders agree -/
theorem cmpExact_antisymm (fa fb : Nat) (a b : Int) : cmpExact fb fa b a = -(cmpExact fa fb a b) := by
  unfold cmpExact
  exact cmpInt_antisymm _ _

theorem gtFixed_spec (A B : Layout) (hA : A.valid) (hB : B.valid) (a b : Int) (ha : inRange A a) (hb : inRange B b) :
    A.gtFixed B a b = decide (cmpExact A.f B.f a b = 1) := by
  unfold Layout.gtFixed
  rw [ltFixed_spec B A hB hA b a hb ha, cmpExact_antisymm A.f B.f a b]
  apply decide_eq_decide.2
  constructor <;> intro h <;> omega

theorem leFixed_spec (A B : Layout) (hA : A.valid) (hB : B.valid) (a b : Int) (ha : inRange A a) (hb : inRange B b) :
    A.leFixed B a b = decide (cmpExact A.f B.f a b ≠ 1) := by
  unfold Layout.leFixed
  rw [ltFixed_spec B A hB hA b a hb ha, cmpExact_antisymm A.f B.f a b, ← decide_not]
  apply decide_eq_decide.2
  constructor <;> intro h <;> omega

theorem geFixed_spec (A B : Layout) (hA : A.valid) (hB : B.valid) (a b : Int) (ha : inRange A a) (hb : inRange B b) :
    A.geFixed B a b = decide (cmpExact A.f B.f a b ≠ -1) := by
  unfold Layout.geFixed
  rw [ltFixed_spec A B hA hB a b ha hb, ← decide_not]

/-- the six operators are mutually consistent: everything is read off `partial_cmp` -/
theorem ops_consistent (A B : Layout) (hA : A.valid) (hB : B.valid) (a b : Int) (ha : inRange A a) (hb : inRange B b) :
    A.eqFixed B a b = decide (A.partialCmpFixed B a b = some 0) ∧
    A.ltFixed B a b = decide (A.partialCmpFixed B a b = some (-1)) ∧
    A.gtFixed B a b = decide (A.partialCmpFixed B a b = some 1) ∧
    A.leFixed B a b = (A.ltFixed B a b || A.eqFixed B a b) ∧
    A.geFixed B a b = (A.gtFixed B a b || A.eqFixed B a b) ∧
    B.partialCmpFixed A b a = (A.partialCmpFixed B a b).map (fun c => -c) := by
  rw [eqFixed_spec A B hA hB a b ha hb, ltFixed_spec A B hA hB a b ha hb, gtFixed_spec A B hA hB a b ha hb,
    leFixed_spec A B hA hB a b ha hb, geFixed_spec A B hA hB a b ha hb, partialCmpFixed_spec A B hA hB a b ha hb,
    partialCmpFixed_spec B A hB hA b a hb ha, cmpExact_antisymm A.f B.f a b]
  have hv : cmpExact A.f B.f a b = -1 ∨ cmpExact A.f B.f a b = 0 ∨ cmpExact A.f B.f a b = 1 := by
    unfold cmpExact cmpInt
    split
    · exact .inl rfl
    · split
      · exact .inr (.inl rfl)
      · exact .inr (.inr rfl)
  refine ⟨?_, ?_, ?_, ?_, ?_, rfl⟩
  · simp
  · simp
  · simp
  · rcases hv with h | h | h <;> simp [h]
  · rcases hv with h | h | h <;> simp [h]

/-! ### Task B: primitive integers (zero fractional bits) on either side -/

/-- fixed ? integer: comparing with the integer `k` is comparing with the value `k` -/
theorem cmpExact_int_right (f : Nat) (a k : Int) : cmpExact f 0 a k = cmpInt a (k * 2 ^ f) := by
  unfold cmpExact; simp

/-- integer ? fixed -/
theorem cmpExact_int_left (f : Nat) (k b : Int) : cmpExact 0 f k b = cmpInt (k * 2 ^ f) b := by
  unfold cmpExact; simp

/-- `Fixed ? iN/uN`: all six operators against the exact comparison of `a / 2^f` with `k` -/
theorem cmpInt_right_spec (L : Layout) (hL : L.valid) (si : Bool) (ni : Nat) (hni : ni = 8 ∨ ni = 16 ∨ ni = 32 ∨ ni = 64 ∨ ni = 128)
    (a k : Int) (ha : inRange L a) (hk : inI si ni k) :
    L.partialCmpFixed (Layout.ofInt si ni) a k = some (cmpInt a (k * 2 ^ L.f)) ∧
    L.eqFixed (Layout.ofInt si ni) a k = decide (a = k * 2 ^ L.f) ∧
    L.ltFixed (Layout.ofInt si ni) a k = decide (a < k * 2 ^ L.f) ∧
    L.leFixed (Layout.ofInt si ni) a k = decide (a ≤ k * 2 ^ L.f) ∧
    L.gtFixed (Layout.ofInt si ni) a k = decide (k * 2 ^ L.f < a) ∧
    L.geFixed (Layout.ofInt si ni) a k = decide (k * 2 ^ L.f ≤ a) := by
  have hI := ofInt_valid si hni
  have hk' : inRange (Layout.ofInt si ni) k := hk
  have e : cmpExact L.f (Layout.ofInt si ni).f a k = cmpInt a (k * 2 ^ L.f) := cmpExact_int_right L.f a k
  rw [partialCmpFixed_spec L _ hL hI a k ha hk', eqFixed_spec L _ hL hI a k ha hk', ltFixed_spec L _ hL hI a k ha hk',
    leFixed_spec L _ hL hI a k ha hk', gtFixed_spec L _ hL hI a k ha hk', geFixed_spec L _ hL hI a k ha hk', e]
  refine ⟨rfl, ?_, ?_, ?_, ?_, ?_⟩ <;> apply decide_eq_decide.2
  · exact cmpInt_eq_zero_iff _ _
  · exact cmpInt_eq_neg_one_iff _ _
  · rw [Ne, cmpInt_eq_one_iff]; omega
  · exact cmpInt_eq_one_iff _ _
  · rw [Ne, cmpInt_eq_neg_one_iff]; omega

/-- `iN/uN ? Fixed`: all six operators against the exact comparison of `k` with `b / 2^f` -/
theorem cmpInt_left_spec (L : Layout) (hL : L.valid) (si : Bool) (ni : Nat) (hni : ni = 8 ∨ ni = 16 ∨ ni = 32 ∨ ni = 64 ∨ ni = 128)
    (k b : Int) (hk : inI si ni k) (hb : inRange L b) :
    (Layout.ofInt si ni).partialCmpFixed L k b = some (cmpInt (k * 2 ^ L.f) b) ∧
    (Layout.ofInt si ni).eqFixed L k b = decide (k * 2 ^ L.f = b) ∧
    (Layout.ofInt si ni).ltFixed L k b = decide (k * 2 ^ L.f < b) ∧
    (Layout.ofInt si ni).leFixed L k b = decide (k * 2 ^ L.f ≤ b) ∧
    (Layout.ofInt si ni).gtFixed L k b = decide (b < k * 2 ^ L.f) ∧
    (Layout.ofInt si ni).geFixed L k b = decide (b ≤ k * 2 ^ L.f) := by
  have hI := ofInt_valid si hni
  have hk' : inRange (Layout.ofInt si ni) k := hk
  have e : cmpExact (Layout.ofInt si ni).f L.f k b = cmpInt (k * 2 ^ L.f) b := cmpExact_int_left L.f k b
  rw [partialCmpFixed_spec _ L hI hL k b hk' hb, eqFixed_spec _ L hI hL k b hk' hb, ltFixed_spec _ L hI hL k b hk' hb,
    leFixed_spec _ L hI hL k b hk' hb, gtFixed_spec _ L hI hL k b hk' hb, geFixed_spec _ L hI hL k b hk' hb, e]
  refine ⟨rfl, ?_, ?_, ?_, ?_, ?_⟩ <;> apply decide_eq_decide.2
  · exact cmpInt_eq_zero_iff _ _
  · exact cmpInt_eq_neg_one_iff _ _
  · rw [Ne, cmpInt_eq_one_iff]; omega
  · exact cmpInt_eq_one_iff _ _
  · rw [Ne, cmpInt_eq_neg_one_iff]; omega

/-! ### Task C: same type — ordering / equality of the bits is that of the values -/

theorem same_type (L : Layout) (a b : Int) : cmpInt a b = cmpExact L.f L.f a b := by
  unfold cmpExact
  exact (cmpInt_mul_right a b (2 ^ L.f) (two_pow_pos L.f)).symm

/-- in particular equal values have equal bits (so `Hash` on the bits is consistent with `Eq` on the values) -/
theorem same_type_eq (L : Layout) (a b : Int) : cmpExact L.f L.f a b = 0 ↔ a = b := by
  rw [← same_type]; exact cmpInt_eq_zero_iff a b

end Sfx.CmpPf

open Sfx.CmpPf in
#print axioms partialCmpFixed_spec
open Sfx.CmpPf in
#print axioms eqFixed_spec
open Sfx.CmpPf in
#print axioms ltFixed_spec
open Sfx.CmpPf in
#print axioms leFixed_spec
open Sfx.CmpPf in
#print axioms gtFixed_spec
open Sfx.CmpPf in
#print axioms geFixed_spec
open Sfx.CmpPf in
#print axioms cmpExact_antisymm
open Sfx.CmpPf in
#print axioms ops_consistent
open Sfx.CmpPf in
#print axioms cmpInt_right_spec
open Sfx.CmpPf in
#print axioms cmpInt_left_spec
open Sfx.CmpPf in
#print axioms same_type
open Sfx.CmpPf in
#print axioms same_type_eq
