import SfxProofs.ToFloatSpec
/-
  ToFloatNearGrid.lean — `rneShift` / `rneScaled` pick a nearest point of the integer grid, ties to even (core Lean only).
-/
namespace Sfx.ToFloatPf

/-- the two possible results of `rneShift` with the side conditions that select them -/
theorem rneShift_cases (num : Int) (k : Nat) (hk : 0 < k) :
    (rneShift num k = num / 2 ^ k ∧ num % 2 ^ k ≤ 2 ^ (k - 1) ∧ (num % 2 ^ k = 2 ^ (k - 1) → (num / 2 ^ k) % 2 = 0)) ∨
    (rneShift num k = num / 2 ^ k + 1 ∧ num % 2 ^ k ≥ 2 ^ (k - 1) ∧ (num % 2 ^ k = 2 ^ (k - 1) → (num / 2 ^ k) % 2 = 1)) := by
  unfold rneShift
  rw [if_neg (by omega)]
  simp only []
  split
  · left; omega
  · split
    · right; omega
    · split
      · left; omega
      · right; omega

theorem rneShift_nearest (num : Int) (k : Nat) (hk : 0 < k) (j : Int) :
    (num - rneShift num k * 2 ^ k).natAbs ≤ (num - j * 2 ^ k).natAbs := by
  have hD := two_pow_pos k
  have hH := two_pow_pos (k - 1)
  have hDH := pow_split hk
  have hnum := Int.emod_add_mul_ediv num (2 ^ k)
  have hr0 := Int.emod_nonneg num (Int.ne_of_gt hD)
  have hr1 := Int.emod_lt_of_pos num hD
  have hup : rneShift num k + 1 ≤ j → (rneShift num k + 1) * 2 ^ k ≤ j * 2 ^ k :=
    fun h => Int.mul_le_mul_of_nonneg_right h (Int.le_of_lt hD)
  have hdn : j ≤ rneShift num k - 1 → j * 2 ^ k ≤ (rneShift num k - 1) * 2 ^ k :=
    fun h => Int.mul_le_mul_of_nonneg_right h (Int.le_of_lt hD)
  rw [Int.add_mul] at hup
  rw [Int.sub_mul] at hdn
  have hj : j = rneShift num k ∨ rneShift num k + 1 ≤ j ∨ j ≤ rneShift num k - 1 := by omega
  rcases rneShift_cases num k hk with ⟨hR, h1, _⟩ | ⟨hR, h1, _⟩
  · have hRD : rneShift num k * 2 ^ k = 2 ^ k * (num / 2 ^ k) := by rw [hR, Int.mul_comm]
    rcases hj with h | h | h
    · rw [h]; omega
    · have := hup h; omega
    · have := hdn h; omega
  · have hRD : rneShift num k * 2 ^ k = 2 ^ k * (num / 2 ^ k) + 2 ^ k := by
      rw [hR, Int.add_mul, Int.mul_comm]; omega
    rcases hj with h | h | h
    · rw [h]; omega
    · have := hup h; omega
    · have := hdn h; omega

theorem rneShift_tie_even (num : Int) (k : Nat) (hk : 0 < k) (j : Int) (hne : j ≠ rneShift num k)
    (htie : (num - rneShift num k * 2 ^ k).natAbs = (num - j * 2 ^ k).natAbs) :
    rneShift num k % 2 = 0 := by
  have hD := two_pow_pos k
  have hH := two_pow_pos (k - 1)
  have hDH := pow_split hk
  have hnum := Int.emod_add_mul_ediv num (2 ^ k)
  have hr0 := Int.emod_nonneg num (Int.ne_of_gt hD)
  have hr1 := Int.emod_lt_of_pos num hD
  have hup : rneShift num k + 1 ≤ j → (rneShift num k + 1) * 2 ^ k ≤ j * 2 ^ k :=
    fun h => Int.mul_le_mul_of_nonneg_right h (Int.le_of_lt hD)
  have hdn : j ≤ rneShift num k - 1 → j * 2 ^ k ≤ (rneShift num k - 1) * 2 ^ k :=
    fun h => Int.mul_le_mul_of_nonneg_right h (Int.le_of_lt hD)
  rw [Int.add_mul] at hup
  rw [Int.sub_mul] at hdn
  have hj : rneShift num k + 1 ≤ j ∨ j ≤ rneShift num k - 1 := by omega
  rcases rneShift_cases num k hk with ⟨hR, h1, h2⟩ | ⟨hR, h1, h2⟩
  · have hRD : rneShift num k * 2 ^ k = 2 ^ k * (num / 2 ^ k) := by rw [hR, Int.mul_comm]
    rcases hj with h | h
    · have := hup h
      have : num % 2 ^ k = 2 ^ (k - 1) := by omega
      have := h2 this
      omega
    · have := hdn h; omega
  · have hRD : rneShift num k * 2 ^ k = 2 ^ k * (num / 2 ^ k) + 2 ^ k := by
      rw [hR, Int.add_mul, Int.mul_comm]; omega
    rcases hj with h | h
    · have := hup h; omega
    · have := hdn h
      have : num % 2 ^ k = 2 ^ (k - 1) := by omega
      have := h2 this
      omega

theorem rneShift_bounds (num : Int) (k : Nat) : num / 2 ^ k ≤ rneShift num k ∧ rneShift num k ≤ num / 2 ^ k + 1 := by
  by_cases hk : k = 0
  · subst hk; simp [rneShift]; omega
  · rcases rneShift_cases num k (by omega) with ⟨hR, _, _⟩ | ⟨hR, _, _⟩ <;> omega

/-- `rneScaled num e` is a nearest integer to `num * 2^e`; everything scaled by `2^K` with `e + K ≥ 0` -/
theorem rneScaled_nearest (num e : Int) (K : Nat) (hK : 0 ≤ e + K) (j : Int) :
    (num * 2 ^ (e + K).toNat - rneScaled num e * 2 ^ K).natAbs ≤ (num * 2 ^ (e + K).toNat - j * 2 ^ K).natAbs := by
  unfold rneScaled
  split
  · rename_i he
    have : (e + K).toNat = e.toNat + K := by omega
    rw [this, pow_add', Int.mul_assoc, Int.sub_self]
    exact Nat.zero_le _
  · rename_i he
    have hk : K = (-e).toNat + (e + K).toNat := by omega
    have e1 : ∀ y : Int, num * 2 ^ (e + K).toNat - y * 2 ^ K = (num - y * 2 ^ (-e).toNat) * 2 ^ (e + K).toNat := by
      intro y
      generalize (e + K).toNat = K' at hk ⊢
      rw [hk, pow_add', ← Int.mul_assoc, ← Int.sub_mul]
    rw [e1, e1, Int.natAbs_mul, Int.natAbs_mul]
    exact Nat.mul_le_mul_right _ (rneShift_nearest num _ (by omega) j)

theorem rneScaled_tie_even (num e : Int) (K : Nat) (hK : 0 ≤ e + K) (j : Int) (hne : j ≠ rneScaled num e)
    (htie : (num * 2 ^ (e + K).toNat - rneScaled num e * 2 ^ K).natAbs = (num * 2 ^ (e + K).toNat - j * 2 ^ K).natAbs) :
    rneScaled num e % 2 = 0 := by
  unfold rneScaled at *
  split at htie
  · rename_i he
    exfalso
    rw [if_pos he] at hne
    have : (e + K).toNat = e.toNat + K := by omega
    rw [this, pow_add', ← Int.mul_assoc, Int.sub_self, ← Int.sub_mul, Int.natAbs_mul] at htie
    have hpos : 0 < ((2 : Int) ^ K).natAbs := by have := two_pow_pos K; omega
    have h0 : (num * 2 ^ e.toNat - j).natAbs = 0 := by
      rcases Nat.mul_eq_zero.1 htie.symm with h | h <;> omega
    omega
  · rename_i he
    rw [if_neg he] at hne ⊢
    have hk : K = (-e).toNat + (e + K).toNat := by omega
    have e1 : ∀ y : Int, num * 2 ^ (e + K).toNat - y * 2 ^ K = (num - y * 2 ^ (-e).toNat) * 2 ^ (e + K).toNat := by
      intro y
      generalize (e + K).toNat = K' at hk ⊢
      rw [hk, pow_add', ← Int.mul_assoc, ← Int.sub_mul]
    rw [e1, e1, Int.natAbs_mul, Int.natAbs_mul] at htie
    have hpos : 0 < ((2 : Int) ^ (e + K).toNat).natAbs := by have := two_pow_pos (e + K).toNat; omega
    exact rneShift_tie_even num _ (by omega) j hne (Nat.eq_of_mul_eq_mul_right hpos htie)

end Sfx.ToFloatPf
