import SfxProofs.ConvertForms
/-
  Convert.lean — C-family "conversions": the `*_from_fixed` forms of `FromFixed for $Fixed` (`traits.rs:1869-1972`) and the
  `From` / `LossyFrom` impls of `convert.rs`, proved against the exact result `Layout.convExact` (core Lean only).

  Part (1), the specification of `to_fixed_helper`, is in `ConvertHelper.lean` (`helper_neg`, `helper_dir`, `helper_bits`,
  `helper_overflow`, `helper_zero`, `helper_spec`).
-/
namespace Sfx.ConvPf
open Layout

/-! ## (2) the conversion forms -/

theorem overflowingFromFixed_spec (S D : Layout) (hS : S.valid) (hD : D.valid) (x : Int) (hx : inRange S x) :
    Layout.overflowingFromFixed S D x = D.ovf (Layout.convExact S D x) := by
  obtain ⟨h1, h2, h3⟩ := helperTo_facts S D hS hD x hx
  unfold Layout.overflowingFromFixed
  simp only []
  rw [h2, h1, h3]
  exact Prod.ext rfl (ovf_combine D.signed D.n (valid_pos hD) (convExact S D x))

theorem checkedFromFixed_spec (S D : Layout) (hS : S.valid) (hD : D.valid) (x : Int) (hx : inRange S x) :
    Layout.checkedFromFixed S D x = D.chk (Layout.convExact S D x) := by
  unfold Layout.checkedFromFixed
  rw [overflowingFromFixed_spec S D hS hD x hx]
  unfold Layout.ovf ovfI Layout.chk chkI
  by_cases h : inI D.signed D.n (convExact S D x)
  · simp [h, wrapI_of_in (valid_pos hD) h]
  · simp [h]

theorem wrappingFromFixed_spec (S D : Layout) (hS : S.valid) (hD : D.valid) (x : Int) (hx : inRange S x) :
    Layout.wrappingFromFixed S D x = D.wrap (Layout.convExact S D x) := by
  unfold Layout.wrappingFromFixed
  rw [overflowingFromFixed_spec S D hS hD x hx]
  rfl

theorem saturatingFromFixed_spec (S D : Layout) (hS : S.valid) (hD : D.valid) (x : Int) (hx : inRange S x) :
    Layout.saturatingFromFixed S D x = D.clamp (Layout.convExact S D x) := by
  obtain ⟨h1, h2, h3⟩ := helperTo_facts S D hS hD x hx
  unfold Layout.saturatingFromFixed
  simp only []
  rw [h2, h1, h3]
  have hxE : (if x < 0 then D.min else D.max) = (if convExact S D x < 0 then D.min else D.max) := by
    by_cases hneg : x < 0
    · rw [if_pos hneg, if_pos (convExact_neg S D hneg)]
    · rw [if_neg hneg, if_neg (by have := convExact_nonneg S D (x := x) (by omega); omega)]
  rw [hxE]
  exact sat_combine D.signed D.n (valid_pos hD) (convExact S D x)

theorem fromFixed_spec (S D : Layout) (hS : S.valid) (hD : D.valid) (x : Int) (hx : inRange S x) :
    Layout.fromFixed S D x = .ok (D.wrap (Layout.convExact S D x)) (!decide (inRange D (Layout.convExact S D x))) := by
  unfold Layout.fromFixed
  rw [overflowingFromFixed_spec S D hS hD x hx]
  rfl

/-! ### primitive integers as source or destination -/

theorem ofInt_valid (si : Bool) {ni : Nat} (h : ni = 8 ∨ ni = 16 ∨ ni = 32 ∨ ni = 64 ∨ ni = 128) : (Layout.ofInt si ni).valid :=
  ⟨h, Nat.zero_le _⟩

/-- fixed → integer: the exact result is the floor of the value -/
theorem convExact_toInt (S : Layout) (si : Bool) (ni : Nat) (x : Int) :
    Layout.convExact S (Layout.ofInt si ni) x = x / 2 ^ S.f := by
  unfold Layout.convExact Layout.ofInt; simp

/-- integer → fixed: the exact result is the integer on the destination grid -/
theorem convExact_fromInt (D : Layout) (si : Bool) (ni : Nat) (k : Int) :
    Layout.convExact (Layout.ofInt si ni) D k = k * 2 ^ D.f := by
  unfold Layout.convExact Layout.ofInt; simp

/-- `to_num::<iN/uN>` and its checked / saturating / wrapping / overflowing forms -/
theorem toInt_spec (S : Layout) (hS : S.valid) (si : Bool) (ni : Nat) (hni : ni = 8 ∨ ni = 16 ∨ ni = 32 ∨ ni = 64 ∨ ni = 128)
    (x : Int) (hx : inRange S x) :
    Layout.overflowingFromFixed S (Layout.ofInt si ni) x = ovfI si ni (x / 2 ^ S.f) ∧
    Layout.checkedFromFixed S (Layout.ofInt si ni) x = chkI si ni (x / 2 ^ S.f) ∧
    Layout.wrappingFromFixed S (Layout.ofInt si ni) x = wrapI si ni (x / 2 ^ S.f) ∧
    Layout.saturatingFromFixed S (Layout.ofInt si ni) x = clampI si ni (x / 2 ^ S.f) ∧
    Layout.fromFixed S (Layout.ofInt si ni) x = .ok (wrapI si ni (x / 2 ^ S.f)) (!decide (inI si ni (x / 2 ^ S.f))) := by
  have hD := ofInt_valid si hni
  rw [overflowingFromFixed_spec S _ hS hD x hx, checkedFromFixed_spec S _ hS hD x hx, wrappingFromFixed_spec S _ hS hD x hx,
    saturatingFromFixed_spec S _ hS hD x hx, fromFixed_spec S _ hS hD x hx, convExact_toInt]
  exact ⟨rfl, rfl, rfl, rfl, rfl⟩

/-- `from_num(iN/uN)` and its checked / saturating / wrapping / overflowing forms -/
theorem fromInt_spec (D : Layout) (hD : D.valid) (si : Bool) (ni : Nat) (hni : ni = 8 ∨ ni = 16 ∨ ni = 32 ∨ ni = 64 ∨ ni = 128)
    (k : Int) (hk : inI si ni k) :
    Layout.overflowingFromFixed (Layout.ofInt si ni) D k = D.ovf (k * 2 ^ D.f) ∧
    Layout.checkedFromFixed (Layout.ofInt si ni) D k = D.chk (k * 2 ^ D.f) ∧
    Layout.wrappingFromFixed (Layout.ofInt si ni) D k = D.wrap (k * 2 ^ D.f) ∧
    Layout.saturatingFromFixed (Layout.ofInt si ni) D k = D.clamp (k * 2 ^ D.f) ∧
    Layout.fromFixed (Layout.ofInt si ni) D k = .ok (D.wrap (k * 2 ^ D.f)) (!decide (inRange D (k * 2 ^ D.f))) := by
  have hS := ofInt_valid si hni
  have hx : inRange (Layout.ofInt si ni) k := hk
  rw [overflowingFromFixed_spec _ D hS hD k hx, checkedFromFixed_spec _ D hS hD k hx, wrappingFromFixed_spec _ D hS hD k hx,
    saturatingFromFixed_spec _ D hS hD k hx, fromFixed_spec _ D hS hD k hx, convExact_fromInt]
  exact ⟨rfl, rfl, rfl, rfl, rfl⟩

/-! ## (3) `From` (lossless) and `LossyFrom` -/

/-- the integer-bit condition of `convert.rs` (the only condition of `LossyFrom`): the destination has at least as many
integer bits, one more when an unsigned source goes to a signed destination; signed → unsigned is never admitted -/
def lossyAdmissible (S D : Layout) : Prop :=
  if S.signed = D.signed then S.n - S.f ≤ D.n - D.f else (S.signed = false ∧ D.signed = true ∧ S.n - S.f + 1 ≤ D.n - D.f)

/-- the type-level admissibility of `From<Src> for Dst` -/
def fromAdmissible (S D : Layout) : Prop :=
  S.f ≤ D.f ∧ (if S.signed = D.signed then S.n - S.f ≤ D.n - D.f else (S.signed = false ∧ D.signed = true ∧ S.n - S.f + 1 ≤ D.n - D.f))

theorem fromAdmissible_iff (S D : Layout) : fromAdmissible S D ↔ S.f ≤ D.f ∧ lossyAdmissible S D := Iff.rfl

/-- under the integer-bit condition the exact result always fits the destination -/
theorem convExact_inRange (S D : Layout) (hS : S.valid) (hD : D.valid) (h : lossyAdmissible S D) (x : Int) (hx : inRange S x) :
    inRange D (Layout.convExact S D x) := by
  have hSn := valid_ge8 hS
  have hDn := valid_ge8 hD
  have hSf := hS.2
  have hDf := hD.2
  rw [← floorShift_eq_convExact]
  obtain ⟨ss, sn, sf⟩ := S
  obtain ⟨ds, dn, df⟩ := D
  unfold lossyAdmissible at h
  unfold inRange at *
  simp only at *
  cases ss <;> cases ds <;> simp at h
  · -- unsigned → unsigned
    rw [inU_iff] at *
    refine ⟨floorShift_pos_of_nonneg _ _ hx.1, ?_⟩
    have hm : 0 ≤ (dn : Int) + ((sf : Int) - (df : Int)) := by omega
    apply (floorShift_lt_iff x _ dn hm).2
    have := pow_le_pow (a := sn) (b := ((dn : Int) + ((sf : Int) - (df : Int))).toNat) (by omega)
    omega
  · -- unsigned → signed
    rw [inU_iff] at hx
    rw [inS_iff]
    have h0 := floorShift_pos_of_nonneg x ((sf : Int) - (df : Int)) hx.1
    have hpos := two_pow_pos (dn - 1)
    refine ⟨by omega, ?_⟩
    have hm : 0 ≤ ((dn - 1 : Nat) : Int) + ((sf : Int) - (df : Int)) := by omega
    apply (floorShift_lt_iff x _ (dn - 1) hm).2
    have := pow_le_pow (a := sn) (b := (((dn - 1 : Nat) : Int) + ((sf : Int) - (df : Int))).toNat) (by omega)
    omega
  · -- signed → signed
    rw [inS_iff] at *
    have hm : 0 ≤ ((dn - 1 : Nat) : Int) + ((sf : Int) - (df : Int)) := by omega
    have := pow_le_pow (a := sn - 1) (b := (((dn - 1 : Nat) : Int) + ((sf : Int) - (df : Int))).toNat) (by omega)
    constructor
    · apply (floorShift_ge_iff x _ (dn - 1) hm).2; omega
    · apply (floorShift_lt_iff x _ (dn - 1) hm).2; omega

/-- `LossyFrom`: `src.to_num()` never overflows and returns the exact result (only fractional bits can be lost) -/
theorem lossyFrom_spec (S D : Layout) (hS : S.valid) (hD : D.valid) (h : lossyAdmissible S D) (x : Int) (hx : inRange S x) :
    Layout.fromFixed S D x = .ok (Layout.convExact S D x) false := by
  have hin := convExact_inRange S D hS hD h x hx
  rw [fromFixed_spec S D hS hD x hx]
  have hw : D.wrap (convExact S D x) = convExact S D x := wrapI_of_in (valid_pos hD) hin
  rw [hw]
  simp [hin]

theorem convExact_of_le (S D : Layout) (hf : S.f ≤ D.f) (x : Int) : Layout.convExact S D x = x * 2 ^ (D.f - S.f) := by
  rw [← floorShift_eq_convExact]
  have e : (S.f : Int) - (D.f : Int) = -((D.f - S.f : Nat) : Int) := by omega
  rw [e, floorShift_neg]

/-- `From<Src> for Dst`: a plain left shift, no check fires, the result is in range and is the exact result -/
theorem fromLossless_spec (S D : Layout) (hS : S.valid) (hD : D.valid) (h : fromAdmissible S D) (x : Int) (hx : inRange S x) :
    Layout.fromLossless S D x = .ok (x * 2 ^ (D.f - S.f)) false ∧ inRange D (x * 2 ^ (D.f - S.f)) ∧
      Layout.convExact S D x = x * 2 ^ (D.f - S.f) := by
  obtain ⟨hf, hadm⟩ := h
  have hE := convExact_of_le S D hf x
  have hin : inRange D (x * 2 ^ (D.f - S.f)) := by rw [← hE]; exact convExact_inRange S D hS hD hadm x hx
  refine ⟨?_, hin, hE⟩
  have hSn := valid_ge8 hS
  have hDn := valid_ge8 hD
  have hDn128 := valid_le128 hD
  have hSf := hS.2
  have hDf := hD.2
  -- the shift amount is below the destination width
  have hlt : D.f - S.f < D.n := by
    split at hadm <;> omega
  have h32 : inI false 32 ((D.f : Int) - (S.f : Int)) := by
    rw [inU_iff]
    have : (2 : Int) ^ 32 = 4294967296 := by decide
    omega
  have htn : ((D.f : Int) - (S.f : Int)).toNat = D.f - S.f := by omega
  unfold Layout.fromLossless usub ushl shlI
  simp only [bind, Outcome.bind]
  rw [wrapI_of_in (by omega) h32, htn, Nat.mod_eq_of_lt hlt, wrapI_of_in (valid_pos hD) hin]
  simp [h32]
  omega

/-- value preservation of the lossless shift: `(x·2^(D.f−S.f)) / 2^D.f = x / 2^S.f` as rationals -/
theorem fromLossless_value (S D : Layout) (hf : S.f ≤ D.f) (x : Int) :
    (x * 2 ^ (D.f - S.f)) * 2 ^ S.f = x * 2 ^ D.f := by
  have : D.f = (D.f - S.f) + S.f := by omega
  rw [Int.mul_assoc, ← pow_add', ← this]

/-- the integer-bit bound is tight: one integer bit too few and some source value no longer fits -/
theorem from_bound_tight (S D : Layout) (hS : S.valid) (hD : D.valid) (hs : S.signed = D.signed) (hf : S.f ≤ D.f)
    (hb : S.n - S.f = D.n - D.f + 1) : ∃ x, inRange S x ∧ ¬ inRange D (Layout.convExact S D x) := by
  have hSn := valid_ge8 hS
  have hDn := valid_ge8 hD
  have hSf := hS.2
  have hDf := hD.2
  obtain ⟨ss, sn, sf⟩ := S
  obtain ⟨ds, dn, df⟩ := D
  simp only at *
  subst hs
  unfold inRange
  simp only
  cases ss
  · -- unsigned: `2^(n-1)` (and a fortiori MAX) does not fit
    refine ⟨2 ^ (sn - 1), ?_, ?_⟩
    · rw [inU_iff]
      have := two_pow_pos (sn - 1)
      have := pow_lt_pow (a := sn - 1) (b := sn) (by omega)
      omega
    · rw [← floorShift_eq_convExact, inU_iff]
      simp only
      have hm : 0 ≤ (dn : Int) + ((sf : Int) - (df : Int)) := by omega
      have e : ((dn : Int) + ((sf : Int) - (df : Int))).toNat = sn - 1 := by omega
      have := floorShift_lt_iff (2 ^ (sn - 1)) ((sf : Int) - (df : Int)) dn hm
      rw [e] at this
      omega
  · -- signed: MIN does not fit
    refine ⟨-(2 ^ (sn - 1)), ?_, ?_⟩
    · rw [inS_iff]
      have := two_pow_pos (sn - 1)
      omega
    · rw [← floorShift_eq_convExact, inS_iff]
      simp only
      have hm : 0 ≤ ((dn - 1 : Nat) : Int) + ((sf : Int) - (df : Int)) := by omega
      have e : (((dn - 1 : Nat) : Int) + ((sf : Int) - (df : Int))).toNat = sn - 2 := by omega
      have := floorShift_ge_iff (-(2 ^ (sn - 1))) ((sf : Int) - (df : Int)) (dn - 1) hm
      rw [e] at this
      have := pow_lt_pow (a := sn - 2) (b := sn - 1) (by omega)
      omega

end Sfx.ConvPf

open Sfx.ConvPf in
#print axioms helper_spec
open Sfx.ConvPf in
#print axioms helper_neg
open Sfx.ConvPf in
#print axioms helper_dir
open Sfx.ConvPf in
#print axioms helper_bits
open Sfx.ConvPf in
#print axioms helper_overflow
open Sfx.ConvPf in
#print axioms helper_zero
open Sfx.ConvPf in
#print axioms overflowingFromFixed_spec
open Sfx.ConvPf in
#print axioms checkedFromFixed_spec
open Sfx.ConvPf in
#print axioms wrappingFromFixed_spec
open Sfx.ConvPf in
#print axioms saturatingFromFixed_spec
open Sfx.ConvPf in
#print axioms fromFixed_spec
open Sfx.ConvPf in
#print axioms toInt_spec
open Sfx.ConvPf in
#print axioms fromInt_spec
open Sfx.ConvPf in
#print axioms convExact_inRange
open Sfx.ConvPf in
#print axioms lossyFrom_spec
open Sfx.ConvPf in
#print axioms fromLossless_spec
open Sfx.ConvPf in
#print axioms fromLossless_value
open Sfx.ConvPf in
#print axioms from_bound_tight
