import SfxModel.ConvSpec
import SfxProofs.ConvertForms
/-
  FromFloatLemmas.lean — arithmetic of round-half-even used by the float → fixed proofs (core Lean only).
-/
namespace Sfx.FromFloatPf
open Sfx.ConvPf

/-! ### `rneShift`: negation and small arguments -/

/-- quotient and remainder of `-x` -/
theorem neg_divmod (x P : Int) (hP : 0 < P) :
    (x % P = 0 → (-x) / P = -(x / P) ∧ (-x) % P = 0) ∧
    (x % P ≠ 0 → (-x) / P = -(x / P) - 1 ∧ (-x) % P = P - x % P) := by
  have e := Int.emod_add_mul_ediv x P
  have h0 := Int.emod_nonneg x (Int.ne_of_gt hP)
  have h1 := Int.emod_lt_of_pos x hP
  constructor
  · intro hr
    apply (Int.ediv_emod_unique hP).2
    rw [Int.mul_neg]; omega
  · intro hr
    apply (Int.ediv_emod_unique hP).2
    have : P * (-(x / P) - 1) = -(P * (x / P)) - P := by
      rw [Int.mul_sub, Int.mul_neg, Int.mul_one]
    rw [this]; omega

/-- round-half-even commutes with negation -/
theorem rneShift_neg (x : Int) (k : Nat) : rneShift (-x) k = -(rneShift x k) := by
  unfold rneShift
  by_cases hk : k = 0
  · rw [if_pos hk, if_pos hk]
  rw [if_neg hk, if_neg hk]
  have hP := two_pow_pos k
  have hs := pow_split (n := k) (by omega)
  have hh := two_pow_pos (k - 1)
  have h0 := Int.emod_nonneg x (Int.ne_of_gt hP)
  have h1 := Int.emod_lt_of_pos x hP
  obtain ⟨hz, hnz⟩ := neg_divmod x (2 ^ k) hP
  simp only []
  by_cases hr : x % 2 ^ k = 0
  · obtain ⟨a, b⟩ := hz hr
    rw [a, b, hr, if_pos hh, if_pos hh]
  · obtain ⟨a, b⟩ := hnz hr
    rw [a, b]
    generalize x / 2 ^ k = q at *
    generalize x % 2 ^ k = r at *
    generalize (2 : Int) ^ k = P at *
    generalize (2 : Int) ^ (k - 1) = H at *
    by_cases c1 : r < H
    · rw [if_pos c1, if_neg (by omega), if_pos (by omega)]; omega
    · rw [if_neg c1]
      by_cases c2 : r > H
      · rw [if_pos c2, if_pos (by omega)]; omega
      · rw [if_neg c2, if_neg (by omega), if_neg (by omega)]
        by_cases c3 : q % 2 = 0
        · rw [if_pos c3, if_neg (by omega)]; omega
        · rw [if_neg c3, if_pos (by omega)]; omega

/-- below half a unit the result is zero -/
theorem rneShift_small (M : Int) (k : Nat) (hk : 0 < k) (h0 : 0 ≤ M) (h1 : M < 2 ^ (k - 1)) : rneShift M k = 0 := by
  unfold rneShift
  rw [if_neg (show ¬ k = 0 by omega)]
  have hP := two_pow_pos k
  have hs := pow_split (n := k) hk
  have hh := two_pow_pos (k - 1)
  have hq : M / 2 ^ k = 0 := Int.ediv_eq_zero_of_lt h0 (by omega)
  have hr : M % 2 ^ k = M := Int.emod_eq_of_lt h0 (by omega)
  simp only []
  rw [hq, hr, if_pos h1]

theorem rneShift_nonneg (M : Int) (k : Nat) (h0 : 0 ≤ M) : 0 ≤ rneShift M k := by
  unfold rneShift
  by_cases hk : k = 0
  · rw [if_pos hk]; exact h0
  rw [if_neg hk]
  have hq : 0 ≤ M / 2 ^ k := Int.ediv_nonneg h0 (Int.le_of_lt (two_pow_pos k))
  simp only []
  split
  · exact hq
  · split
    · omega
    · split <;> omega

/-! ### the mantissa rounding of `to_float_kind` -/

/-- the mantissa after `round-half-even` to `k` fewer bits, as the Rust code computes it -/
def rmant (M k : Nat) : Nat :=
  (if M % 2 ^ k = 0 then M
   else if M % 2 ^ k < 2 ^ k / 2 then M
   else if (decide (M % 2 ^ k > 2 ^ k / 2) || decide (M / 2 ^ k % 2 = 1)) = true then M + 2 ^ k
   else M) / 2 ^ k

theorem rmant_eq (M k : Nat) (hk : 0 < k) : ((rmant M k : Nat) : Int) = rneShift (M : Int) k := by
  unfold rmant rneShift
  rw [if_neg (show ¬ k = 0 by omega)]
  have hPn : 0 < 2 ^ k := Nat.two_pow_pos k
  have hsn : 2 ^ k = 2 * 2 ^ (k - 1) := by
    cases k with
    | zero => omega
    | succ j => simp [Nat.pow_succ]; omega
  have htie : 2 ^ k / 2 = 2 ^ (k - 1) := by omega
  have hadd : (M + 2 ^ k) / 2 ^ k = M / 2 ^ k + 1 := by
    rw [Nat.add_div_right _ hPn]
  have cq : ((M : Int) / 2 ^ k) = ((M / 2 ^ k : Nat) : Int) := by norm_cast
  have cr : ((M : Int) % 2 ^ k) = ((M % 2 ^ k : Nat) : Int) := by norm_cast
  have ch : ((2 : Int) ^ (k - 1)) = ((2 ^ (k - 1) : Nat) : Int) := by norm_cast
  simp only []
  rw [cq, cr, ch, htie]
  have fin : ∀ v : Nat, (v = M / 2 ^ k ∧ (M % 2 ^ k < 2 ^ (k - 1) ∨ (M % 2 ^ k = 2 ^ (k - 1) ∧ M / 2 ^ k % 2 = 0)) ∨
        v = M / 2 ^ k + 1 ∧ (M % 2 ^ k > 2 ^ (k - 1) ∨ (M % 2 ^ k = 2 ^ (k - 1) ∧ M / 2 ^ k % 2 = 1))) →
      (v : Int) = if ((M % 2 ^ k : Nat) : Int) < ((2 ^ (k - 1) : Nat) : Int) then ((M / 2 ^ k : Nat) : Int)
        else if ((M % 2 ^ k : Nat) : Int) > ((2 ^ (k - 1) : Nat) : Int) then ((M / 2 ^ k : Nat) : Int) + 1
        else if ((M / 2 ^ k : Nat) : Int) % 2 = 0 then ((M / 2 ^ k : Nat) : Int) else ((M / 2 ^ k : Nat) : Int) + 1 := by
    intro v hv
    generalize M / 2 ^ k = q at *
    generalize M % 2 ^ k = r at *
    generalize 2 ^ (k - 1) = H at *
    split
    · omega
    · split
      · omega
      · split <;> omega
  apply fin
  have hH : 0 < 2 ^ (k - 1) := Nat.two_pow_pos _
  by_cases c0 : M % 2 ^ k = 0
  · rw [if_pos c0]; omega
  rw [if_neg c0]
  by_cases c1 : M % 2 ^ k < 2 ^ (k - 1)
  · rw [if_pos c1]; omega
  rw [if_neg c1]
  by_cases c2 : M % 2 ^ k > 2 ^ (k - 1)
  · have : (decide (M % 2 ^ k > 2 ^ (k - 1)) || decide (M / 2 ^ k % 2 = 1)) = true := by simp [c2]
    rw [if_pos this, hadd]; omega
  · by_cases c3 : M / 2 ^ k % 2 = 1
    · have : (decide (M % 2 ^ k > 2 ^ (k - 1)) || decide (M / 2 ^ k % 2 = 1)) = true := by simp [c3]
      rw [if_pos this, hadd]; omega
    · have : ¬ (decide (M % 2 ^ k > 2 ^ (k - 1)) || decide (M / 2 ^ k % 2 = 1)) = true := by simp [c2, c3]
      rw [if_neg this]; omega

/-- the rounded mantissa needs at most one more bit than it had before the shift -/
theorem rmant_le (M k p : Nat) (hM : M < 2 ^ p) : rmant M k ≤ 2 ^ p := by
  unfold rmant
  have hPn : 0 < 2 ^ k := Nat.two_pow_pos k
  have h1 : M / 2 ^ k ≤ M := Nat.div_le_self _ _
  have hadd : (M + 2 ^ k) / 2 ^ k = M / 2 ^ k + 1 := by
    rw [Nat.add_div_right _ hPn]
  split
  · omega
  · split
    · omega
    · split
      · rw [hadd]; omega
      · omega

end Sfx.FromFloatPf
