import SfxProofs.ParseDecSlow
/-
  ParseDec128.lean — the `u128` pieces of decimal-fraction parsing: `mul10_assign` on 64-bit halves, `mul_hi_lo`,
  the two-limb `dec_to_bin`, `parse_is_short` (helpers for ParseDec.lean).  Core Lean only.
-/
namespace Sfx.ParseDecPf
open Sfx FromStr TextSpec

theorem p64 : (2 : Int) ^ 64 = 18446744073709551616 := by decide
theorem p128 : (2 : Int) ^ 128 = 18446744073709551616 * 18446744073709551616 := by decide
theorem p8 : (2 : Int) ^ 8 = 256 := by decide

/-- split of a 128-bit value in two 64-bit halves -/
theorem halves (x : Int) (h0 : 0 ≤ x) (h1 : x < 2 ^ 128) :
    0 ≤ x / 2 ^ 64 ∧ x / 2 ^ 64 < 2 ^ 64 ∧ 0 ≤ x % 2 ^ 64 ∧ x % 2 ^ 64 < 2 ^ 64 ∧ x = x / 2 ^ 64 * 2 ^ 64 + x % 2 ^ 64 := by
  have hB : (0 : Int) < 2 ^ 64 := two_pow_pos 64
  refine ⟨Int.ediv_nonneg h0 (Int.le_of_lt hB), ?_, Int.emod_nonneg _ (Int.ne_of_gt hB), Int.emod_lt_of_pos _ hB,
    (Int.ediv_mul_add_emod x (2 ^ 64)).symm⟩
  rw [Int.ediv_lt_iff_lt_mul hB, ← pow_add']; exact h1

/-! ### `mul10_assign` for `u128` -/

theorem mul10Ok_128 : Mul10Ok 128 := by
  intro x h0 h1
  obtain ⟨a0, a1, b0, b1, hx⟩ := halves x h0 h1
  unfold mul10Assign
  rw [if_pos rfl]
  unfold shrI
  generalize x / 2 ^ 64 = xh at *
  generalize x % 2 ^ 64 = xl at *
  have hB : (0 : Int) < 2 ^ 64 := two_pow_pos 64
  -- the two products and their halves
  have hh := Int.ediv_mul_add_emod (xh * 10) (2 ^ 64)
  have hh0 := Int.emod_nonneg (xh * 10) (Int.ne_of_gt hB)
  have hh1 := Int.emod_lt_of_pos (xh * 10) hB
  have hl := Int.ediv_mul_add_emod (xl * 10) (2 ^ 64)
  have hl0 := Int.emod_nonneg (xl * 10) (Int.ne_of_gt hB)
  have hl1 := Int.emod_lt_of_pos (xl * 10) hB
  have hhq0 : 0 ≤ xh * 10 / 2 ^ 64 := Int.ediv_nonneg (by omega) (Int.le_of_lt hB)
  have hhq1 : xh * 10 / 2 ^ 64 < 10 := by rw [Int.ediv_lt_iff_lt_mul hB]; omega
  have hlq0 : 0 ≤ xl * 10 / 2 ^ 64 := Int.ediv_nonneg (by omega) (Int.le_of_lt hB)
  have hlq1 : xl * 10 / 2 ^ 64 < 10 := by rw [Int.ediv_lt_iff_lt_mul hB]; omega
  simp only []
  have w1 : wrapU 64 (xh * 10 / 2 ^ 64) = xh * 10 / 2 ^ 64 := wrapU_of_lt hhq0 (by have := p64; omega)
  have w2 : wrapU 64 (xl * 10 / 2 ^ 64) = xl * 10 / 2 ^ 64 := wrapU_of_lt hlq0 (by have := p64; omega)
  have w3 : wrapU 8 (xh * 10 / 2 ^ 64) = xh * 10 / 2 ^ 64 := wrapU_of_lt hhq0 (by have := p8; omega)
  rw [w1, w2, w3]
  unfold wrapU at *
  generalize xh * 10 / 2 ^ 64 = hq at *
  generalize xh * 10 % 2 ^ 64 = hr at *
  generalize xl * 10 / 2 ^ 64 = lq at *
  generalize xl * 10 % 2 ^ 64 = lr at *
  have key : ∀ (w c : Int), 0 ≤ w → w < 2 ^ 64 → hr + lq = c * 2 ^ 64 + w → 0 ≤ c →
      (orI false 128 (shlI false 128 w 64) lr, hq + c) = (x * 10 % 2 ^ 128, x * 10 / 2 ^ 128) := by
    intro w c w0 w1 hw hc
    have hsh : shlI false 128 w 64 = w * 2 ^ 64 := shlU_of_lt w0 (by have := p64; have := p128; omega)
    rw [hsh, orI_mul_add w0 hl0 hl1 (by have := p64; have := p128; omega)]
    have hdec : x * 10 = 2 ^ 128 * (hq + c) + (w * 2 ^ 64 + lr) := by
      have e : (2 : Int) ^ 128 = 2 ^ 64 * 2 ^ 64 := by rw [← pow_add']
      rw [e, hx]
      generalize (2 : Int) ^ 64 = B at *
      grind
    obtain ⟨e1, e2⟩ := ediv_emod_of_eq (two_pow_pos 128) hdec (by omega) (by have := p64; have := p128; omega)
    rw [e1, e2]
  unfold ovfI wrapI
  simp only [Bool.false_eq_true, if_false]
  by_cases hov : hr + lq < 2 ^ 64
  · have hin : inI false 64 (hr + lq) := (inU_iff _ _).2 ⟨by omega, hov⟩
    have := key (hr + lq) 0 (by omega) hov (by omega) (Int.le_refl 0)
    simp only [hin, decide_true, Bool.not_true, Bool.false_eq_true, if_false, wrapU_of_in hin]
    exact this
  · have hin : ¬ inI false 64 (hr + lq) := fun h => hov ((inU_iff _ _).1 h).2
    have hw : wrapU 64 (hr + lq) = hr + lq - 2 ^ 64 := by
      have := wrapU_add_mul 64 (hr + lq - 2 ^ 64) 1
      rw [Int.one_mul, Int.sub_add_cancel] at this
      rw [this]; exact wrapU_of_lt (by omega) (by have := p64; omega)
    have := key (hr + lq - 2 ^ 64) 1 (by omega) (by have := p64; omega) (by omega) (by decide)
    simp only [hin, decide_false, Bool.not_false, if_true, hw]
    exact this

/-! ### `mul_hi_lo` -/

theorem limb_prod (B x y : Int) (hx0 : 0 ≤ x) (hx1 : x < B) (hy0 : 0 ≤ y) (hy1 : y < B) :
    0 ≤ x * y ∧ x * y ≤ B * B - 2 * B + 1 := by
  refine ⟨Int.mul_nonneg hx0 hy0, ?_⟩
  have h1 : x * y ≤ (B - 1) * y := Int.mul_le_mul_of_nonneg_right (by omega) hy0
  have hB1 : 0 ≤ B - 1 := by omega
  have hy1' : y ≤ B - 1 := by omega
  have h2 : (B - 1) * y ≤ (B - 1) * (B - 1) := Int.mul_le_mul_of_nonneg_left hy1' hB1
  have e : (B - 1) * (B - 1) = B * B - 2 * B + 1 := by grind
  omega

/-- `mul_hi_lo` is the 256-bit product -/
theorem mulHiLo_spec (lhs rhs : Int) (hl0 : 0 ≤ lhs) (hl1 : lhs < 2 ^ 128) (hr0 : 0 ≤ rhs) (hr1 : rhs < 2 ^ 128) :
    ∃ h l : Int, mulHiLo lhs rhs = (h, l) ∧ 0 ≤ l ∧ l < 2 ^ 128 ∧ 0 ≤ h ∧ h * 2 ^ 128 + l = lhs * rhs := by
  obtain ⟨a0, a1, b0, b1, hx⟩ := halves lhs hl0 hl1
  obtain ⟨c0, c1, d0, d1, hy⟩ := halves rhs hr0 hr1
  unfold mulHiLo
  unfold shrI
  generalize lhs / 2 ^ 64 = lh at *
  generalize lhs % 2 ^ 64 = ll at *
  generalize rhs / 2 ^ 64 = rh at *
  generalize rhs % 2 ^ 64 = rl at *
  have hB : (0 : Int) < 2 ^ 64 := two_pow_pos 64
  have e128 : (2 : Int) ^ 128 = 2 ^ 64 * 2 ^ 64 := by rw [← pow_add']
  obtain ⟨p1, p1'⟩ := limb_prod (2 ^ 64) ll rl b0 b1 d0 d1
  obtain ⟨p2, p2'⟩ := limb_prod (2 ^ 64) lh rl a0 a1 d0 d1
  obtain ⟨p3, p3'⟩ := limb_prod (2 ^ 64) ll rh b0 b1 c0 c1
  obtain ⟨p4, p4'⟩ := limb_prod (2 ^ 64) lh rh a0 a1 c0 c1
  simp only []
  rw [wrapU_of_lt p1 (by omega), wrapU_of_lt p2 (by omega), wrapU_of_lt p3 (by omega), wrapU_of_lt p4 (by omega)]
  have h01 := Int.ediv_mul_add_emod (ll * rl) (2 ^ 64)
  have h01r0 := Int.emod_nonneg (ll * rl) (Int.ne_of_gt hB)
  have h01r1 := Int.emod_lt_of_pos (ll * rl) hB
  have h01q0 : 0 ≤ ll * rl / 2 ^ 64 := Int.ediv_nonneg p1 (Int.le_of_lt hB)
  have h01q1 : ll * rl / 2 ^ 64 < 2 ^ 64 := by rw [Int.ediv_lt_iff_lt_mul hB]; omega
  generalize ll * rl / 2 ^ 64 = c01h at *
  generalize ll * rl % 2 ^ 64 = c01l at *
  generalize hll : ll * rl = P1 at *
  generalize hlh : lh * rl = P2 at *
  generalize hhl : ll * rh = P3 at *
  generalize hhh : lh * rh = P4 at *
  have key : ∀ (c12 cc : Int), 0 ≤ c12 → c12 < 2 ^ 128 → P2 + c01h + P3 = cc * 2 ^ 128 + c12 → 0 ≤ cc →
      ∃ h l : Int, (P4 + c12 / 2 ^ 64 + cc * 2 ^ 64, shlI false 128 (c12 % 2 ^ 64) 64 + c01l) = (h, l) ∧
        0 ≤ l ∧ l < 2 ^ 128 ∧ 0 ≤ h ∧ h * 2 ^ 128 + l = lhs * rhs := by
    intro c12 cc k0 k1 hk hcc
    obtain ⟨e0, e1, f0, f1, hc⟩ := halves c12 k0 k1
    generalize c12 / 2 ^ 64 = c12h at *
    generalize c12 % 2 ^ 64 = c12l at *
    have hsh : shlI false 128 c12l 64 = c12l * 2 ^ 64 := shlU_of_lt f0 (by have := p64; have := p128; omega)
    rw [hsh]
    refine ⟨_, _, rfl, by have := p64; omega, by have := p64; have := p128; omega,
      by have := Int.mul_nonneg hcc (Int.le_of_lt hB); omega, ?_⟩
    rw [hx, hy, e128] at *
    generalize (2 : Int) ^ 64 = B at *
    subst hc
    grind
  unfold ovfI wrapI
  simp only [Bool.false_eq_true, if_false]
  by_cases hov : P2 + c01h + P3 < 2 ^ 128
  · have hin : inI false 128 (P2 + c01h + P3) := (inU_iff _ _).2 ⟨by omega, hov⟩
    simp only [hin, decide_true, Bool.not_true, Bool.false_eq_true, if_false, wrapU_of_in hin, Int.add_zero]
    have := key (P2 + c01h + P3) 0 (by omega) hov (by omega) (Int.le_refl 0)
    simpa using this
  · have hin : ¬ inI false 128 (P2 + c01h + P3) := fun h => hov ((inU_iff _ _).1 h).2
    have hw : wrapU 128 (P2 + c01h + P3) = P2 + c01h + P3 - 2 ^ 128 := by
      have := wrapU_add_mul 128 (P2 + c01h + P3 - 2 ^ 128) 1
      rw [Int.one_mul, Int.sub_add_cancel] at this
      rw [this]; exact wrapU_of_lt (by omega) (by omega)
    simp only [hin, decide_false, Bool.not_false, if_true, hw]
    have := key (P2 + c01h + P3 - 2 ^ 128) 1 (by omega) (by omega) (by omega) (by decide)
    simpa using this

/-! ### the two-limb `dec_to_bin`, cut into stages -/

/-- the shift by `nbits - 53`: `(numer_lo, numer_hi, inexact)` -/
def numer128 (valHi valLo : Int) (nbits : Nat) : Int × Int × Bool :=
  if nbits < 53 then
    let shr := 53 - nbits
    (orI false 128 (shrI valLo shr) (shlI false 128 valHi (128 - shr)), shrI valHi shr, valLo % 2 ^ shr != 0)
  else if nbits > 53 then
    let shl := nbits - 53
    (shlI false 128 valLo shl, orI false 128 (shlI false 128 valHi shl) (shrI valLo (128 - shl)), false)
  else (valLo, valHi, false)

/-- `div_tie` and the tie correction -/
def finish128 (inexact : Bool) (numerHi numerLo : Int) : Outcome (Option Int) := do
  let (div, tie) ← divTie numerHi numerLo (5 ^ 54 * 2)
  let tie := tie && !inexact
  let div := if tie && isOdd div then div - 1 else div
  pure (some div)

/-- the upper-bound test of `Round::Nearest` on the rounded numerator -/
def check128 (valHi valLo : Int) (nbits : Nat) (inexact : Bool) (numerHi numerLo : Int) : Outcome (Option Int) :=
  let checkOverflow :=
    if nbits == 128 then numerHi
    else if nbits == 0 then numerLo
    else orI false 128 (shrI numerLo nbits) (shlI false 128 numerHi (128 - nbits))
  if checkOverflow ≥ 5 ^ 54 * 2 then
    let halfHi := shrI (5 ^ 54) (128 - (54 - 1))
    let halfLo := shlI false 128 (5 ^ 54) (54 - 1)
    pure (if nbits == 0 && valHi == halfHi && valLo == halfLo then some 0 else none)
  else finish128 inexact numerHi numerLo

/-- `Round::Nearest`: add `fives` with carry, then test -/
def near128 (valHi valLo : Int) (nbits : Nat) (inexact : Bool) (numerHi numerLo : Int) : Outcome (Option Int) := do
  let (wrapped, overflow) := ovfI false 128 (numerLo + 5 ^ 54)
  let numerHi ← if overflow then uadd false 128 numerHi 1 else pure numerHi
  check128 valHi valLo nbits inexact numerHi wrapped

/-- everything after `val_hi`, `val_lo` -/
def stage128 (valHi valLo : Int) (nbits : Nat) (nearest : Bool) : Outcome (Option Int) :=
  let (numerLo, numerHi, inexact) := numer128 valHi valLo nbits
  if nearest then near128 valHi valLo nbits inexact numerHi numerLo else finish128 inexact numerHi numerLo

theorem decToBin128_eq (hi lo : Int) (nbits : Nat) (nearest : Bool) :
    decToBin128 hi lo nbits nearest = (do
      Outcome.dassert (decide (hi < 10 ^ 27))
      Outcome.dassert (decide (lo < 10 ^ 27))
      Outcome.dassert (decide (nbits ≤ 128))
      let (hiHi, hiLo) := mulHiLo hi (10 ^ 27)
      let (valLo, overflow) := ovfI false 128 (hiLo + lo)
      let valHi ← if overflow then uadd false 128 hiHi 1 else pure hiHi
      stage128 valHi valLo nbits nearest) := rfl

theorem e27 : (10 : Int) ^ 27 = 1000000000000000000000000000 := by decide
theorem e54 : (10 : Int) ^ 54 = 1000000000000000000000000000 * 1000000000000000000000000000 := by decide
theorem p52 : (2 : Int) ^ 52 = 4503599627370496 := by decide

/-- `val_hi`, `val_lo`: the two limbs of `hi · 10^27 + lo` -/
theorem val128_spec (hi lo : Int) (hh0 : 0 ≤ hi) (hh1 : hi < 10 ^ 27) (hl0 : 0 ≤ lo) (hl1 : lo < 10 ^ 27) (nbits : Nat)
    (hn : nbits ≤ 128) (nearest : Bool) :
    ∃ valHi valLo : Int, decToBin128 hi lo nbits nearest = stage128 valHi valLo nbits nearest ∧
      0 ≤ valLo ∧ valLo < 2 ^ 128 ∧ 0 ≤ valHi ∧ valHi * 2 ^ 128 + valLo = hi * 10 ^ 27 + lo := by
  have h27 : (10 : Int) ^ 27 < 2 ^ 128 := by decide
  obtain ⟨H, L, hm, L0, L1, H0, hHL⟩ := mulHiLo_spec hi (10 ^ 27) hh0 (by omega) (by decide) h27
  rw [decToBin128_eq]
  simp only [Outcome.dassert, hh1, hl1, hn, decide_true, Bool.not_true, ok_false_bind, hm]
  have hHs : H < 2 ^ 52 := by
    have := e27; have := p128; have := p52
    rw [e27] at hHL hh1; omega
  unfold ovfI wrapI
  simp only [Bool.false_eq_true, if_false]
  by_cases hov : L + lo < 2 ^ 128
  · have hin : inI false 128 (L + lo) := (inU_iff _ _).2 ⟨by omega, hov⟩
    simp only [hin, decide_true, Bool.not_true, Bool.false_eq_true, if_false, wrapU_of_in hin, pure_eq_ok, ok_false_bind]
    exact ⟨H, L + lo, rfl, by omega, hov, H0, by omega⟩
  · have hin : ¬ inI false 128 (L + lo) := fun h => hov ((inU_iff _ _).1 h).2
    have hw : wrapU 128 (L + lo) = L + lo - 2 ^ 128 := by
      have := wrapU_add_mul 128 (L + lo - 2 ^ 128) 1
      rw [Int.one_mul, Int.sub_add_cancel] at this
      rw [this]; exact wrapU_of_lt (by omega) (by omega)
    have hH1 : inI false 128 (H + 1) := (inU_iff _ _).2 ⟨by omega, by have := p128; have := p52; omega⟩
    simp only [hin, decide_false, Bool.not_false, if_true, hw, uadd_ok hH1, ok_false_bind]
    exact ⟨H + 1, L + lo - 2 ^ 128, rfl, by omega, by omega, by omega, by rw [Int.add_mul]; omega⟩

theorem orI_comm (s : Bool) (n : Nat) (a b : Int) : orI s n a b = orI s n b a := by
  unfold orI; rw [Nat.or_comm]

/-- two-limb right shift by `0 < s < 128` -/
theorem funnel_shr (hi lo : Int) (s : Nat) (hs0 : 0 < s) (hs : s < 128) (hh0 : 0 ≤ hi) (hl0 : 0 ≤ lo)
    (hl1 : lo < 2 ^ 128) :
    orI false 128 (shrI lo s) (shlI false 128 hi (128 - s)) = (hi % 2 ^ s) * 2 ^ (128 - s) + lo / 2 ^ s ∧
    0 ≤ (hi % 2 ^ s) * 2 ^ (128 - s) + lo / 2 ^ s ∧ (hi % 2 ^ s) * 2 ^ (128 - s) + lo / 2 ^ s < 2 ^ 128 ∧
    (hi / 2 ^ s) * 2 ^ 128 + ((hi % 2 ^ s) * 2 ^ (128 - s) + lo / 2 ^ s) = (hi * 2 ^ 128 + lo) / 2 ^ s := by
  have hS := two_pow_pos s
  have hW := two_pow_pos (128 - s)
  have hN : (2 : Int) ^ 128 = 2 ^ (128 - s) * 2 ^ s := pow_sub_mul (by omega)
  have hm0 := Int.emod_nonneg hi (Int.ne_of_gt hS)
  have hm1 := Int.emod_lt_of_pos hi hS
  have hq0 : 0 ≤ lo / 2 ^ s := Int.ediv_nonneg hl0 (Int.le_of_lt hS)
  have hq1 : lo / 2 ^ s < 2 ^ (128 - s) := by rw [Int.ediv_lt_iff_lt_mul hS, ← hN]; exact hl1
  have hx : hi % 2 ^ s * 2 ^ (128 - s) ≤ (2 ^ s - 1) * 2 ^ (128 - s) :=
    Int.mul_le_mul_of_nonneg_right (by omega) (Int.le_of_lt hW)
  rw [Int.sub_mul, Int.one_mul, Int.mul_comm (2 ^ s), ← hN] at hx
  have hx0 : 0 ≤ hi % 2 ^ s * 2 ^ (128 - s) := Int.mul_nonneg hm0 (Int.le_of_lt hW)
  have e1 : shlI false 128 hi (128 - s) = hi % 2 ^ s * 2 ^ (128 - s) := by
    unfold shlI wrapI
    simp only [Bool.false_eq_true, if_false]
    have := wrapU_mul_pow (n := 128) (z := 128 - s) (by omega) hi
    rw [this]; congr 3; omega
  refine ⟨?_, by omega, by omega, ?_⟩
  · rw [orI_comm, e1]; unfold shrI
    exact orI_mul_add hm0 hq0 hq1 (by omega)
  · have hd := Int.ediv_mul_add_emod hi (2 ^ s)
    have e2 : hi * 2 ^ 128 + lo = lo + (hi * 2 ^ (128 - s)) * 2 ^ s := by rw [hN]; grind
    rw [e2, Int.add_mul_ediv_right _ _ (Int.ne_of_gt hS), hN]
    generalize hi / 2 ^ s = a at *
    generalize hi % 2 ^ s = b at *
    generalize lo / 2 ^ s = c at *
    subst hd
    grind

/-- two-limb left shift by `0 < s < 128` that loses nothing -/
theorem funnel_shl (hi lo : Int) (s : Nat) (hs0 : 0 < s) (hs : s < 128) (hh0 : 0 ≤ hi) (hh1 : hi * 2 ^ s < 2 ^ 128)
    (hl0 : 0 ≤ lo) (hl1 : lo < 2 ^ 128) :
    shlI false 128 lo s = lo % 2 ^ (128 - s) * 2 ^ s ∧
    orI false 128 (shlI false 128 hi s) (shrI lo (128 - s)) = hi * 2 ^ s + lo / 2 ^ (128 - s) ∧
    0 ≤ lo % 2 ^ (128 - s) * 2 ^ s ∧ lo % 2 ^ (128 - s) * 2 ^ s < 2 ^ 128 ∧
    0 ≤ hi * 2 ^ s + lo / 2 ^ (128 - s) ∧
    (hi * 2 ^ s + lo / 2 ^ (128 - s)) * 2 ^ 128 + lo % 2 ^ (128 - s) * 2 ^ s = (hi * 2 ^ 128 + lo) * 2 ^ s := by
  have hS := two_pow_pos s
  have hW := two_pow_pos (128 - s)
  have hN : (2 : Int) ^ 128 = 2 ^ (128 - s) * 2 ^ s := pow_sub_mul (by omega)
  have hm0 := Int.emod_nonneg lo (Int.ne_of_gt hW)
  have hm1 := Int.emod_lt_of_pos lo hW
  have hq0 : 0 ≤ lo / 2 ^ (128 - s) := Int.ediv_nonneg hl0 (Int.le_of_lt hW)
  have hq1 : lo / 2 ^ (128 - s) < 2 ^ s := by rw [Int.ediv_lt_iff_lt_mul hW, Int.mul_comm, ← hN]; exact hl1
  have hx : lo % 2 ^ (128 - s) * 2 ^ s ≤ (2 ^ (128 - s) - 1) * 2 ^ s :=
    Int.mul_le_mul_of_nonneg_right (by omega) (Int.le_of_lt hS)
  rw [Int.sub_mul, Int.one_mul, ← hN] at hx
  have hx0 : 0 ≤ lo % 2 ^ (128 - s) * 2 ^ s := Int.mul_nonneg hm0 (Int.le_of_lt hS)
  have hhs0 : 0 ≤ hi * 2 ^ s := Int.mul_nonneg hh0 (Int.le_of_lt hS)
  have e1 : shlI false 128 lo s = lo % 2 ^ (128 - s) * 2 ^ s := by
    unfold shlI wrapI
    simp only [Bool.false_eq_true, if_false]
    exact wrapU_mul_pow (by omega) lo
  have e2 : shlI false 128 hi s = hi * 2 ^ s := shlU_of_lt hh0 hh1
  refine ⟨e1, ?_, hx0, by omega, by omega, ?_⟩
  · rw [e2]; unfold shrI
    have hi1 : hi * 2 ^ s ≤ 2 ^ 128 - 2 ^ s := by
      -- hi * 2^s is a multiple of 2^s below 2^128 = 2^(128-s) * 2^s
      have h1 : hi < 2 ^ (128 - s) := by
        have : hi * 2 ^ s < 2 ^ (128 - s) * 2 ^ s := by rw [← hN]; exact hh1
        exact (Int.mul_lt_mul_right hS).1 this
      have h2 : hi * 2 ^ s ≤ (2 ^ (128 - s) - 1) * 2 ^ s := Int.mul_le_mul_of_nonneg_right (by omega) (Int.le_of_lt hS)
      rw [Int.sub_mul, Int.one_mul, ← hN] at h2; exact h2
    exact orI_mul_add hh0 hq0 hq1 (by omega)
  · have hd := Int.ediv_mul_add_emod lo (2 ^ (128 - s))
    rw [hN]
    generalize lo / 2 ^ (128 - s) = a at *
    generalize lo % 2 ^ (128 - s) = b at *
    subst hd
    grind

/-- the shifted numerator `⌊val · 2^(nbits+1) / 2^54⌋` in two limbs, and the `inexact` flag -/
theorem numer128_spec (valHi valLo : Int) (nbits : Nat) (hn : nbits ≤ 128) (hl0 : 0 ≤ valLo) (hl1 : valLo < 2 ^ 128)
    (hh0 : 0 ≤ valHi) (hv : valHi * 2 ^ 128 + valLo < 10 ^ 54) :
    ∃ nHi nLo : Int,
      numer128 valHi valLo nbits =
        (nLo, nHi, !decide (((valHi * 2 ^ 128 + valLo) * 2 ^ (nbits + 1)) % 2 ^ 54 = 0)) ∧
      0 ≤ nLo ∧ nLo < 2 ^ 128 ∧ 0 ≤ nHi ∧
      nHi * 2 ^ 128 + nLo = ((valHi * 2 ^ 128 + valLo) * 2 ^ (nbits + 1)) / 2 ^ 54 := by
  have hHs : valHi < 2 ^ 52 := by
    have := e54; have := p128; have := p52; omega
  unfold numer128
  by_cases h1 : nbits < 53
  · rw [if_pos h1]
    simp only []
    obtain ⟨f1, f2, f3, f4⟩ := funnel_shr valHi valLo (53 - nbits) (by omega) (by omega) hh0 hl0 hl1
    have sc := shift_scale (valHi * 2 ^ 128 + valLo) 0 (53 - nbits) (nbits + 1) 54 (by omega)
    rw [Int.pow_zero, Int.mul_one] at sc
    have hS := two_pow_pos (53 - nbits)
    have hmod : (valHi * 2 ^ 128 + valLo) % 2 ^ (53 - nbits) = valLo % 2 ^ (53 - nbits) := by
      have hN : (2 : Int) ^ 128 = 2 ^ (128 - (53 - nbits)) * 2 ^ (53 - nbits) := pow_sub_mul (by omega)
      rw [hN, ← Int.mul_assoc, Int.add_comm, Int.add_mul_emod_self_right]
    refine ⟨valHi / 2 ^ (53 - nbits), _, ?_, f2, f3, Int.ediv_nonneg hh0 (Int.le_of_lt hS), ?_⟩
    · rw [f1]; unfold shrI
      have : (valLo % 2 ^ (53 - nbits) != 0) = !decide ((valHi * 2 ^ 128 + valLo) * 2 ^ (nbits + 1) % 2 ^ 54 = 0) := by
        have hiff : valLo % 2 ^ (53 - nbits) = 0 ↔ (valHi * 2 ^ 128 + valLo) * 2 ^ (nbits + 1) % 2 ^ 54 = 0 := by
          rw [← hmod]; exact sc.2
        by_cases hz : valLo % 2 ^ (53 - nbits) = 0
        · rw [hz, decide_eq_true (hiff.1 hz)]; rfl
        · rw [decide_eq_false (fun h => hz (hiff.2 h))]
          simp only [Bool.not_false, bne_iff_ne, ne_eq]; exact hz
      rw [this]
    · rw [f4, sc.1]
  · rw [if_neg h1]
    by_cases h2 : nbits > 53
    · rw [if_pos h2]
      simp only []
      have hsh : valHi * 2 ^ (nbits - 53) < 2 ^ 128 := by
        have h75 : (2 : Int) ^ (nbits - 53) ≤ 2 ^ 75 := pow_le_pow (by omega)
        have := Int.mul_le_mul_of_nonneg_left h75 hh0
        have hP := two_pow_pos 75
        have := Int.mul_lt_mul_of_pos_right hHs hP
        have e : (2 : Int) ^ 52 * 2 ^ 75 < 2 ^ 128 := by decide
        omega
      obtain ⟨g1, g2, g3, g4, g5, g6⟩ := funnel_shl valHi valLo (nbits - 53) (by omega) (by omega) hh0 hsh hl0 hl1
      refine ⟨_, _, ?_, g3, g4, g5, ?_⟩
      · rw [g1, g2]
        have e : (nbits + 1) = (nbits - 53) + 54 := by omega
        have : ((valHi * 2 ^ 128 + valLo) * 2 ^ (nbits + 1)) % 2 ^ 54 = 0 := by
          rw [e, pow_add', ← Int.mul_assoc]; exact Int.mul_emod_left ..
        rw [decide_eq_true this]; rfl
      · rw [g6]
        have e : (nbits + 1) = (nbits - 53) + 54 := by omega
        rw [e, pow_add', ← Int.mul_assoc, Int.mul_ediv_cancel _ (Int.ne_of_gt (two_pow_pos 54))]
    · rw [if_neg h2]
      have e : nbits = 53 := by omega
      subst e
      refine ⟨valHi, valLo, ?_, hl0, hl1, hh0, ?_⟩
      · have : ((valHi * 2 ^ 128 + valLo) * 2 ^ (53 + 1)) % 2 ^ 54 = 0 := Int.mul_emod_left ..
        rw [decide_eq_true this]; rfl
      · exact (Int.mul_ediv_cancel _ (Int.ne_of_gt (two_pow_pos 54))).symm

theorem denom_lt : (5 : Int) ^ 54 * 2 < 2 ^ 128 := by decide

/-- `div_tie` and the tie correction on a two-limb numerator whose quotient fits one limb -/
theorem finish128_spec (nHi nLo : Int) (ex : Prop) [Decidable ex] (hl0 : 0 ≤ nLo) (hl1 : nLo < 2 ^ 128) (hh0 : 0 ≤ nHi)
    (hh1 : nHi < 2 ^ 128) (hq : (nHi * 2 ^ 128 + nLo) / (5 ^ 54 * 2) < 2 ^ 128) :
    finish128 (!decide ex) nHi nLo =
      .ok (some (if ((nHi * 2 ^ 128 + nLo) % (5 ^ 54 * 2) = 0 ∧ ex) ∧ ((nHi * 2 ^ 128 + nLo) / (5 ^ 54 * 2)) % 2 = 1
        then (nHi * 2 ^ 128 + nLo) / (5 ^ 54 * 2) - 1 else (nHi * 2 ^ 128 + nLo) / (5 ^ 54 * 2))) false := by
  have hd : inI false 128 (5 ^ 54 * 2) := (inU_iff _ _).2 ⟨by decide, denom_lt⟩
  have hnum0 : 0 ≤ nHi * 2 ^ 128 + nLo := by
    have := Int.mul_nonneg hh0 (Int.le_of_lt (two_pow_pos 128)); omega
  have hq0 : 0 ≤ (nHi * 2 ^ 128 + nLo) / (5 ^ 54 * 2) := Int.ediv_nonneg hnum0 (by decide)
  unfold finish128 divTie
  rw [divRemFromU_spec 128 (by decide) (by decide) _ nHi nLo hd (by decide) ((inU_iff _ _).2 ⟨hh0, hh1⟩)
    ((inU_iff _ _).2 ⟨hl0, hl1⟩)]
  simp only [ok_false_bind, pure_eq_ok]
  rw [Int.emod_eq_of_lt hq0 hq]
  simp only [Bool.not_not, Bool.and_eq_true, beq_iff_eq, decide_eq_true_eq, isOdd_iff]

theorem limb_hi_lt (nHi nLo W c : Int) (hl0 : 0 ≤ nLo) (hW : 0 < W) (h : nHi * W + nLo < c * W) : nHi < c := by
  have : nHi * W < c * W := by omega
  exact (Int.mul_lt_mul_right hW).1 this

/-- bound on the shifted numerator: `⌊2 N / P⌋ < 2 f K` for `N = val K`, `val < P f` -/
theorem numer_lt (val P f K : Int) (hlt : val < P * f) (hP : 0 < P) (hK : 0 < K) :
    2 * (val * K) / P < 2 * f * K := by
  rw [Int.ediv_lt_iff_lt_mul hP]
  have h1 : val * K < P * f * K := Int.mul_lt_mul_of_pos_right hlt hK
  have e : 2 * f * K * P = 2 * (P * f * K) := by grind
  omega

/-- `dec_to_bin((hi, lo), nbits, Round::Floor)` for `u128`, on `Int` -/
theorem decToBin128_floor (hi lo : Int) (hh0 : 0 ≤ hi) (hh1 : hi < 10 ^ 27) (hl0 : 0 ≤ lo) (hl1 : lo < 10 ^ 27) (nbits : Nat)
    (hn : nbits ≤ 128) :
    decToBin128 hi lo nbits false = .ok (some (floorQ ((hi * 10 ^ 27 + lo) * 2 ^ nbits) (10 ^ 54))) false := by
  obtain ⟨valHi, valLo, hst, vl0, vl1, vh0, hval⟩ := val128_spec hi lo hh0 hh1 hl0 hl1 nbits hn false
  have hv0 : 0 ≤ hi * 10 ^ 27 + lo := by have := e27; rw [e27] at hh1 ⊢; omega
  have hv1 : hi * 10 ^ 27 + lo < 10 ^ 54 := by have := e27; have := e54; rw [e27] at hh1 hl1 ⊢; omega
  rw [← hval] at hv0 hv1
  obtain ⟨nHi, nLo, hnum, nl0, nl1, nh0, hN⟩ := numer128_spec valHi valLo nbits hn vl0 vl1 vh0 hv1
  rw [hst]
  unfold stage128
  rw [hnum]
  simp only [Bool.false_eq_true, if_false]
  rw [hval] at hN hv0 hv1 ⊢
  generalize hi * 10 ^ 27 + lo = val at *
  rw [two_pow_succ_mul val nbits] at hN ⊢
  have hP := two_pow_pos 54
  have hf := five_pow_pos 54
  have hK := two_pow_pos nbits
  have hKW : (2 : Int) ^ nbits ≤ 2 ^ 128 := pow_le_pow hn
  have hW := two_pow_pos 128
  rw [ten_pow] at hv1 ⊢
  have hnl := numer_lt val (2 ^ 54) (5 ^ 54) (2 ^ nbits) hv1 hP hK
  have h2f : (0 : Int) ≤ 2 * 5 ^ 54 := by decide
  have hfK : (2 : Int) * 5 ^ 54 * 2 ^ nbits ≤ 2 * 5 ^ 54 * 2 ^ 128 := Int.mul_le_mul_of_nonneg_left hKW h2f
  have hnh1 : nHi < 2 * 5 ^ 54 := limb_hi_lt nHi nLo _ _ nl0 hW (by omega)
  have hN0 : 0 ≤ val * 2 ^ nbits := Int.mul_nonneg hv0 (Int.le_of_lt hK)
  have hb := floorQ_bounds (val * 2 ^ nbits) (2 ^ 54 * 5 ^ 54) (2 ^ nbits) hN0
    (by rw [Int.mul_comm (2 ^ nbits)]; exact Int.mul_lt_mul_of_pos_right hv1 hK) (Int.mul_pos hP hf)
  have hq : (nHi * 2 ^ 128 + nLo) / (5 ^ 54 * 2) < 2 ^ 128 := by
    rw [hN, Int.mul_comm (5 ^ 54) 2, (floor_core _ _ _ hP hf).1,
      Int.mul_ediv_mul_of_pos _ _ (by decide : (0 : Int) < 2), Int.ediv_lt_iff_lt_mul (Int.mul_pos hP hf)]
    have h1 : val * 2 ^ nbits < 2 ^ 54 * 5 ^ 54 * 2 ^ nbits := Int.mul_lt_mul_of_pos_right hv1 hK
    have h2 : (2 : Int) ^ nbits * (2 ^ 54 * 5 ^ 54) ≤ 2 ^ 128 * (2 ^ 54 * 5 ^ 54) :=
      Int.mul_le_mul_of_nonneg_right hKW (Int.le_of_lt (Int.mul_pos hP hf))
    rw [Int.mul_comm (2 ^ nbits)] at h2
    omega
  rw [finish128_spec nHi nLo _ nl0 nl1 nh0 (by have := denom_lt; omega) hq, hN, Int.mul_comm (5 ^ 54) 2,
    finish_floor _ _ _ hP hf]
  rfl

/-- `numer_lo.overflowing_add(fives)` with carry into `numer_hi` -/
theorem near128_carry (valHi valLo : Int) (nbits : Nat) (inexact : Bool) (nHi nLo : Int) (hl0 : 0 ≤ nLo) (hl1 : nLo < 2 ^ 128)
    (hh0 : 0 ≤ nHi) (hh1 : nHi + 1 < 2 ^ 128) :
    ∃ nHi' nLo' : Int, near128 valHi valLo nbits inexact nHi nLo = check128 valHi valLo nbits inexact nHi' nLo' ∧
      0 ≤ nLo' ∧ nLo' < 2 ^ 128 ∧ 0 ≤ nHi' ∧ nHi' < 2 ^ 128 ∧ nHi' * 2 ^ 128 + nLo' = nHi * 2 ^ 128 + nLo + 5 ^ 54 := by
  have hf := five_pow_pos 54
  have hfW : (5 : Int) ^ 54 < 2 ^ 128 := by decide
  unfold near128 ovfI wrapI
  simp only [Bool.false_eq_true, if_false]
  by_cases hov : nLo + 5 ^ 54 < 2 ^ 128
  · have hin : inI false 128 (nLo + 5 ^ 54) := (inU_iff _ _).2 ⟨by omega, hov⟩
    simp only [hin, decide_true, Bool.not_true, Bool.false_eq_true, if_false, wrapU_of_in hin, pure_eq_ok, ok_false_bind]
    exact ⟨nHi, nLo + 5 ^ 54, rfl, by omega, hov, hh0, by omega, by omega⟩
  · have hin : ¬ inI false 128 (nLo + 5 ^ 54) := fun h => hov ((inU_iff _ _).1 h).2
    have hw : wrapU 128 (nLo + 5 ^ 54) = nLo + 5 ^ 54 - 2 ^ 128 := by
      have := wrapU_add_mul 128 (nLo + 5 ^ 54 - 2 ^ 128) 1
      rw [Int.one_mul, Int.sub_add_cancel] at this
      rw [this]; exact wrapU_of_lt (by omega) (by omega)
    have hH1 : inI false 128 (nHi + 1) := (inU_iff _ _).2 ⟨by omega, hh1⟩
    simp only [hin, decide_false, Bool.not_false, if_true, hw, uadd_ok hH1, ok_false_bind]
    exact ⟨nHi + 1, nLo + 5 ^ 54 - 2 ^ 128, rfl, by omega, by omega, by omega, hh1, by rw [Int.add_mul]; omega⟩

/-- `check_overflow` is the rounded numerator shifted right by `nbits` -/
theorem check128_spec (valHi valLo : Int) (nbits : Nat) (hn : nbits ≤ 128) (inexact : Bool) (nHi nLo : Int)
    (hl0 : 0 ≤ nLo) (hl1 : nLo < 2 ^ 128) (hh0 : 0 ≤ nHi)
    (hlt : nHi * 2 ^ 128 + nLo < (3 * 5 ^ 54) * 2 ^ nbits) :
    check128 valHi valLo nbits inexact nHi nLo =
      if 2 * 5 ^ 54 ≤ (nHi * 2 ^ 128 + nLo) / 2 ^ nbits then
        pure (if (nbits == 0 && valHi == shrI (5 ^ 54) 75 && valLo == shlI false 128 (5 ^ 54) 53) = true then some 0 else none)
      else finish128 inexact nHi nLo := by
  have hW := two_pow_pos 128
  have hK := two_pow_pos nbits
  have hfW : (3 : Int) * 5 ^ 54 ≤ 2 ^ 128 := by decide
  have hco : (if (nbits == 128) = true then nHi else if (nbits == 0) = true then nLo
      else orI false 128 (shrI nLo nbits) (shlI false 128 nHi (128 - nbits))) = (nHi * 2 ^ 128 + nLo) / 2 ^ nbits := by
    by_cases h128 : nbits = 128
    · subst h128
      rw [if_pos (by decide), Int.add_comm, Int.add_mul_ediv_right _ _ (Int.ne_of_gt hW),
        Int.ediv_eq_zero_of_lt hl0 hl1, Int.zero_add]
    · rw [if_neg (by simpa using h128)]
      by_cases h0 : nbits = 0
      · subst h0
        rw [if_pos (by decide), Int.pow_zero, Int.ediv_one]
        rw [Int.pow_zero, Int.mul_one] at hlt
        have : nHi = 0 := by
          have := p128
          rw [p128] at hlt hfW; omega
        rw [this]; omega
      · rw [if_neg (by simpa using h0)]
        obtain ⟨f1, _, _, f4⟩ := funnel_shr nHi nLo nbits (by omega) (by omega) hh0 hl0 hl1
        have hKW : ((3 : Int) * 5 ^ 54) * 2 ^ nbits ≤ 2 ^ 128 * 2 ^ nbits :=
          Int.mul_le_mul_of_nonneg_right hfW (Int.le_of_lt hK)
        rw [Int.mul_comm (2 ^ 128)] at hKW
        have hhk : nHi < 2 ^ nbits := limb_hi_lt nHi nLo _ _ hl0 hW (by omega)
        rw [Int.ediv_eq_zero_of_lt hh0 hhk, Int.zero_mul, Int.zero_add] at f4
        rw [f1, f4]
  unfold check128
  simp only []
  rw [hco]
  have : (5 : Int) ^ 54 * 2 = 2 * 5 ^ 54 := Int.mul_comm ..
  rw [this]

theorem half_limbs : shrI (5 ^ 54) 75 * 2 ^ 128 + shlI false 128 (5 ^ 54) 53 = 5 ^ 54 * 2 ^ 53 ∧
    0 ≤ shlI false 128 (5 ^ 54) 53 ∧ shlI false 128 (5 ^ 54) 53 < 2 ^ 128 := by decide

/-- `dec_to_bin((hi, lo), nbits, Round::Nearest)` for `u128`, on `Int` -/
theorem decToBin128_near (hi lo : Int) (hh0 : 0 ≤ hi) (hh1 : hi < 10 ^ 27) (hl0 : 0 ≤ lo) (hl1 : lo < 10 ^ 27) (nbits : Nat)
    (hn : nbits ≤ 128) :
    decToBin128 hi lo nbits true =
      .ok (if rneI ((hi * 10 ^ 27 + lo) * 2 ^ nbits) (10 ^ 54) < 2 ^ nbits
        then some (rneI ((hi * 10 ^ 27 + lo) * 2 ^ nbits) (10 ^ 54)) else none) false := by
  obtain ⟨valHi, valLo, hst, vl0, vl1, vh0, hval⟩ := val128_spec hi lo hh0 hh1 hl0 hl1 nbits hn true
  have hv0 : 0 ≤ hi * 10 ^ 27 + lo := by have := e27; rw [e27] at hh1 ⊢; omega
  have hv1 : hi * 10 ^ 27 + lo < 10 ^ 54 := by have := e27; have := e54; rw [e27] at hh1 hl1 ⊢; omega
  rw [← hval] at hv0 hv1
  obtain ⟨nHi, nLo, hnum, nl0, nl1, nh0, hN⟩ := numer128_spec valHi valLo nbits hn vl0 vl1 vh0 hv1
  rw [hst, ← hval]
  unfold stage128
  rw [hnum]
  simp only [if_true]
  have hP := two_pow_pos 54
  have hf := five_pow_pos 54
  have hK := two_pow_pos nbits
  have hKW : (2 : Int) ^ nbits ≤ 2 ^ 128 := pow_le_pow hn
  have hW := two_pow_pos 128
  rw [ten_pow 54] at hv1 ⊢
  rw [two_pow_succ_mul (valHi * 2 ^ 128 + valLo) nbits] at hN ⊢
  have hnl := numer_lt _ (2 ^ 54) (5 ^ 54) (2 ^ nbits) hv1 hP hK
  have h2f : (0 : Int) ≤ 2 * 5 ^ 54 := by decide
  have hfK : (2 : Int) * 5 ^ 54 * 2 ^ nbits ≤ 2 * 5 ^ 54 * 2 ^ 128 := Int.mul_le_mul_of_nonneg_left hKW h2f
  have hnh1 : nHi < 2 * 5 ^ 54 := limb_hi_lt nHi nLo _ _ nl0 hW (by omega)
  have hdl := denom_lt
  obtain ⟨nHi', nLo', hcar, ml0, ml1, mh0, mh1, hM⟩ :=
    near128_carry valHi valLo nbits (!decide (2 * ((valHi * 2 ^ 128 + valLo) * 2 ^ nbits) % 2 ^ 54 = 0)) nHi nLo nl0 nl1 nh0 (by omega)
  rw [hcar]
  have hfK1 : (5 : Int) ^ 54 ≤ 5 ^ 54 * 2 ^ nbits := by
    have := Int.mul_le_mul_of_nonneg_left (show (1 : Int) ≤ 2 ^ nbits by omega) (Int.le_of_lt hf)
    rwa [Int.mul_one] at this
  have e3 : (3 : Int) * 5 ^ 54 * 2 ^ nbits = 2 * 5 ^ 54 * 2 ^ nbits + 5 ^ 54 * 2 ^ nbits := by
    generalize (5 : Int) ^ 54 = f; generalize (2 : Int) ^ nbits = K; grind
  rw [check128_spec valHi valLo nbits hn _ nHi' nLo' ml0 ml1 mh0 (by omega), hM, hN]
  -- the quotient branch
  have hN0 : 0 ≤ (valHi * 2 ^ 128 + valLo) * 2 ^ nbits := Int.mul_nonneg hv0 (Int.le_of_lt hK)
  have hr := rneI_bounds ((valHi * 2 ^ 128 + valLo) * 2 ^ nbits) (2 ^ 54 * 5 ^ 54) hN0 (Int.mul_pos hP hf)
  have hND : (valHi * 2 ^ 128 + valLo) * 2 ^ nbits < 2 ^ nbits * (2 ^ 54 * 5 ^ 54) := by
    rw [Int.mul_comm (2 ^ nbits)]; exact Int.mul_lt_mul_of_pos_right hv1 hK
  have hb := half_up_bounds _ _ _ hN0 hND (Int.mul_pos hP hf)
  obtain ⟨hh1', hh2', hh3'⟩ := half_limbs
  have hdec := near_decide (valHi * 2 ^ 128 + valLo) (2 ^ 54) (5 ^ 54) (2 ^ nbits) (5 ^ 54 * 2 ^ 53) (nbits == 0)
    (valHi == shrI (5 ^ 54) 75 && valLo == shlI false 128 (5 ^ 54) 53) hv0 hv1 hP hf hK
    (by intro h; rw [beq_iff_eq] at h; subst h; rfl)
    (by intro h; have : nbits ≠ 0 := by simpa using h
        rw [pow_split (by omega)]; omega)
    (by decide)
    (by rw [Bool.and_eq_true, beq_iff_eq, beq_iff_eq]
        generalize shrI (5 ^ 54) 75 = hH at *
        generalize shlI false 128 (5 ^ 54) 53 = hL at *
        rw [← hh1']
        constructor
        · rintro ⟨rfl, rfl⟩; rfl
        · intro h; have := p128; rw [p128] at h vl1 hh3'; omega)
  rw [← hdec, Bool.and_assoc]
  by_cases hov : 2 * 5 ^ 54 ≤ (2 * ((valHi * 2 ^ 128 + valLo) * 2 ^ nbits) / 2 ^ 54 + 5 ^ 54) / 2 ^ nbits
  · rw [if_pos hov, if_pos hov]; rfl
  · rw [if_neg hov, if_neg hov]
    have hov' : ¬ 2 ^ nbits ≤ (2 * ((valHi * 2 ^ 128 + valLo) * 2 ^ nbits) + 2 ^ 54 * 5 ^ 54) / (2 * (2 ^ 54 * 5 ^ 54)) :=
      fun h => hov ((ovf_core _ _ _ _ hP hf hK).2 h)
    have hq : (nHi' * 2 ^ 128 + nLo') / (5 ^ 54 * 2) < 2 ^ 128 := by
      rw [hM, hN, Int.mul_comm (5 ^ 54) 2, (near_core _ _ _ hP hf).1]; omega
    rw [finish128_spec nHi' nLo' _ ml0 ml1 mh0 mh1 hq, hM, hN, Int.mul_comm (5 ^ 54) 2, finish_near _ _ _ hP hf]

/-! ### `parse_is_short` for `u128` and `FloorOk 128 54` -/

theorem ten_pow_le {a b : Nat} (h : a ≤ b) : (10 : Int) ^ a ≤ 10 ^ b := by
  have : (10 : Nat) ^ a ≤ 10 ^ b := Nat.pow_le_pow_right (by decide) h
  rw [← cast_ten, ← cast_ten]; exact Int.ofNat_le.2 this

/-- a slice of at most 27 digits is parsed exactly by `dec_str_int_to_bin::<u128>` -/
theorem slice27 (bs : List Nat) (h : allDigits bs) (hl : bs.length ≤ 27) :
    (decStrIntToBin 128 bs).1 = valL bs ∧ 0 ≤ valL bs ∧ valL bs < 10 ^ bs.length := by
  have hb := valL_bounds bs h
  have h1 := ten_pow_le hl
  have h27 : (10 : Int) ^ 27 < 2 ^ 128 := by decide
  exact ⟨decStrIntToBin_val 128 bs h (by omega) (by omega), hb.1, hb.2⟩

theorem floorOk_128 : FloorOk 128 54 := by
  intro bs nbits hall hnb
  have hK := two_pow_pos nbits
  unfold decFloor
  rw [if_pos rfl]
  unfold parseIsShort128
  by_cases h27 : bs.length ≤ 27
  · -- one limb
    rw [if_pos h27, if_pos (show bs.length ≤ 54 by omega)]
    obtain ⟨e1, b0, b1⟩ := slice27 bs hall h27
    simp only []
    rw [e1]
    have hT := ten_pow_pos (27 - bs.length)
    have ee : (10 : Int) ^ bs.length * 10 ^ (27 - bs.length) = 10 ^ 27 := by rw [← ten_pow_add]; congr 1; omega
    have hh0 : 0 ≤ valL bs * 10 ^ (27 - bs.length) := Int.mul_nonneg b0 (Int.le_of_lt hT)
    have hh1 : valL bs * 10 ^ (27 - bs.length) < 10 ^ 27 := by rw [← ee]; exact Int.mul_lt_mul_of_pos_right b1 hT
    rw [decToBin128_near _ 0 hh0 hh1 (Int.le_refl 0) (by decide) nbits hnb, ok_false_bind]
    have hT2 := ten_pow_pos (54 - bs.length)
    have e2 : (valL bs * 10 ^ (27 - bs.length) * 10 ^ 27 + 0) * 2 ^ nbits = valL bs * 2 ^ nbits * 10 ^ (54 - bs.length) := by
      have : (10 : Int) ^ (54 - bs.length) = 10 ^ (27 - bs.length) * 10 ^ 27 := by rw [← ten_pow_add]; congr 1; omega
      rw [this]
      generalize valL bs = v; generalize (10 : Int) ^ (27 - bs.length) = T; generalize (10 : Int) ^ 27 = U
      generalize (2 : Int) ^ nbits = K; grind
    have e3 : (10 : Int) ^ 54 = 10 ^ bs.length * 10 ^ (54 - bs.length) := by rw [← ten_pow_add]; congr 1; omega
    rw [e2, e3, rneI_scale _ _ _ hT2]
    rfl
  · rw [if_neg h27]
    have htake := allDigits_take hall 27
    have hlen : (bs.take 27).length = 27 := by rw [List.length_take]; omega
    obtain ⟨e1, b0, b1⟩ := slice27 _ htake (by omega)
    rw [hlen] at b1
    by_cases h54 : bs.length ≤ 54
    · -- two limbs, short
      rw [if_pos h54]
      have hdrop := allDigits_drop hall 27
      have hdl : (bs.drop 27).length = bs.length - 27 := List.length_drop ..
      obtain ⟨e2, c0, c1⟩ := slice27 _ hdrop (by omega)
      rw [hdl] at c1
      simp only [h54, if_true]
      rw [e1, e2]
      have hT := ten_pow_pos (54 - bs.length)
      have ee : (10 : Int) ^ (bs.length - 27) * 10 ^ (54 - bs.length) = 10 ^ 27 := by rw [← ten_pow_add]; congr 1; omega
      have hl0 : 0 ≤ valL (bs.drop 27) * 10 ^ (54 - bs.length) := Int.mul_nonneg c0 (Int.le_of_lt hT)
      have hl1 : valL (bs.drop 27) * 10 ^ (54 - bs.length) < 10 ^ 27 := by
        rw [← ee]; exact Int.mul_lt_mul_of_pos_right c1 hT
      rw [decToBin128_near _ _ b0 b1 hl0 hl1 nbits hnb, ok_false_bind]
      have e4 : (valL (bs.take 27) * 10 ^ 27 + valL (bs.drop 27) * 10 ^ (54 - bs.length)) * 2 ^ nbits =
          valL bs * 2 ^ nbits * 10 ^ (54 - bs.length) := by
        rw [valL_take_drop bs 27, ← ee]
        generalize valL (bs.take 27) = p; generalize valL (bs.drop 27) = t
        generalize (10 : Int) ^ (bs.length - 27) = T; generalize (10 : Int) ^ (54 - bs.length) = U
        generalize (2 : Int) ^ nbits = K; grind
      have e3 : (10 : Int) ^ 54 = 10 ^ bs.length * 10 ^ (54 - bs.length) := by rw [← ten_pow_add]; congr 1; omega
      rw [e4, e3, rneI_scale _ _ _ hT]
      rfl
    · -- long
      rw [if_neg h54]
      have hmid : allDigits ((bs.drop 27).take 27) := allDigits_take (allDigits_drop hall 27) 27
      have hml : ((bs.drop 27).take 27).length = 27 := by rw [List.length_take, List.length_drop]; omega
      obtain ⟨e2, c0, c1⟩ := slice27 _ hmid (by omega)
      rw [hml] at c1
      simp only [h54, if_false]
      rw [e1, e2, Int.mul_one]
      rw [decToBin128_floor _ _ b0 b1 c0 c1 nbits hnb, ok_false_bind]
      have e4 : valL (bs.take 54) = valL (bs.take 27) * 10 ^ 27 + valL ((bs.drop 27).take 27) := by
        have : bs.take 54 = bs.take 27 ++ (bs.drop 27).take 27 := List.take_add (i := 27) (j := 27)
        rw [this, valL_append, hml]
      rw [e4]
      rfl

end Sfx.ParseDecPf
