import SfxProps.C08
import SfxProofs.ParseTopIntFrac
import SfxProofs.ParseDec
/-
  ParseTop.lean — C08 top level: `from_str_{i,u}{8..128}` return the correctly rounded value of the literal with the exact
  overflow flag, or a non-`Overflow` error on malformed input; no panic, no debug-only check (core Lean only).
  `C08_of_decFrac` takes the contract `DecFracSpec` of the decimal fraction converter as its only hypothesis;
  `DecFracSpec_holds` discharges it from SfxProofs/ParseDec.lean and `C08_holds` is the unconditional statement.
-/
namespace Sfx.ParseTopPf
open Sfx.TextSpec Sfx.ParsePowPf

/-- wrapped value and overflow flag of `$from_i` from the reduced magnitude and the flag of `$get_int_frac` -/
theorem signed_result {n : Nat} (hn : 0 < n) (neg : Bool) (M : Int) (hM : 0 ≤ M) :
    (wrapS n (if neg then wrapU n (-(M % 2 ^ n)) else M % 2 ^ n),
      if M % 2 ^ n > 2 ^ (n - 1) - (if !neg then 1 else 0) then true else decide ((2 : Int) ^ n ≤ M)) =
    (wrapS n (if neg then -M else M), !decide (inI true n (if neg then -M else M))) := by
  have hN := pow_split hn
  have hH := two_pow_pos (n - 1)
  have hval : wrapS n (if neg then wrapU n (-(M % 2 ^ n)) else M % 2 ^ n) = wrapS n (if neg then -M else M) := by
    cases neg
    · simp only [Bool.false_eq_true, if_false]
      exact wrapS_wrapU n M
    · simp only [if_true]
      rw [wrapS_wrapU]
      have : -(M % 2 ^ n) = -M + (M / 2 ^ n) * 2 ^ n := by
        have := Int.emod_add_mul_ediv M (2 ^ n)
        rw [Int.mul_comm] at this
        omega
      rw [this, wrapS_add_mul]
  rw [hval]
  congr 1
  rw [Bool.eq_iff_iff]
  by_cases hMN : (2 : Int) ^ n ≤ M
  · cases neg <;> simp [inS_iff, hMN] <;> omega
  · have hm : M % 2 ^ n = M := Int.emod_eq_of_lt hM (by omega)
    rw [hm]
    cases neg <;> simp [inS_iff, hMN] <;> omega

/-- wrapped value and overflow flag of `$from_u` -/
theorem unsigned_result (n : Nat) (neg : Bool) (M : Int) (hM : 0 ≤ M) :
    ((if neg then wrapU n (-(M % 2 ^ n)) else M % 2 ^ n),
      if (neg && decide (M % 2 ^ n > 0)) = true then true else decide ((2 : Int) ^ n ≤ M)) =
    (wrapU n (if neg then -M else M), !decide (inI false n (if neg then -M else M))) := by
  have hN := two_pow_pos n
  have hval : (if neg then wrapU n (-(M % 2 ^ n)) else M % 2 ^ n) = wrapU n (if neg then -M else M) := by
    cases neg
    · simp only [Bool.false_eq_true, if_false]; rfl
    · simp only [if_true]
      have : -(M % 2 ^ n) = -M + (M / 2 ^ n) * 2 ^ n := by
        have := Int.emod_add_mul_ediv M (2 ^ n)
        rw [Int.mul_comm] at this
        omega
      rw [this, wrapU_add_mul]
  rw [hval]
  congr 1
  rw [Bool.eq_iff_iff]
  by_cases hMN : (2 : Int) ^ n ≤ M
  · have : M % 2 ^ n ≥ 0 := Int.emod_nonneg _ (by omega)
    cases neg <;> simp [inU_iff, hMN] <;> omega
  · have hm : M % 2 ^ n = M := Int.emod_eq_of_lt hM (by omega)
    rw [hm]
    cases neg <;> simp [inU_iff, hMN] <;> omega

theorem fromStrI_spec {n radix intN fracN : Nat} (hn : 0 < n) {bytes : List Nat} {neg : Bool} {M : Nat}
    (hg : FromStr.getIntFrac n bytes radix intN fracN =
      .ok (.ok (neg, (M : Int) % 2 ^ n, decide ((2 : Int) ^ n ≤ (M : Int)))) false) :
    FromStr.fromStrI n bytes radix intN fracN =
      .ok (.ok (wrapS n (if neg then -(M : Int) else M), !decide (inI true n (if neg then -(M : Int) else M)))) false := by
  unfold FromStr.fromStrI
  rw [hg]
  simp only [ok_false_bind]
  rw [← signed_result hn neg (M : Int) (Int.natCast_nonneg M)]
  rfl

theorem fromStrU_spec {n radix intN fracN : Nat} {bytes : List Nat} {neg : Bool} {M : Nat}
    (hg : FromStr.getIntFrac n bytes radix intN fracN =
      .ok (.ok (neg, (M : Int) % 2 ^ n, decide ((2 : Int) ^ n ≤ (M : Int)))) false) :
    FromStr.fromStrU n bytes radix intN fracN =
      .ok (.ok (wrapU n (if neg then -(M : Int) else M), !decide (inI false n (if neg then -(M : Int) else M)))) false := by
  unfold FromStr.fromStrU
  rw [hg]
  simp only [ok_false_bind]
  rw [← unsigned_result n neg (M : Int) (Int.natCast_nonneg M)]
  rfl

theorem fromStrI_err {n radix intN fracN : Nat} {bytes : List Nat} {e : Nat}
    (hp : FromStr.parseBounds bytes radix = .error e) :
    FromStr.fromStrI n bytes radix intN fracN = .ok (.error e) false := by
  unfold FromStr.fromStrI
  rw [getIntFrac_err hp]
  simp only [ok_false_bind]
  rfl

theorem fromStrU_err {n radix intN fracN : Nat} {bytes : List Nat} {e : Nat}
    (hp : FromStr.parseBounds bytes radix = .error e) :
    FromStr.fromStrU n bytes radix intN fracN = .ok (.error e) false := by
  unfold FromStr.fromStrU
  rw [getIntFrac_err hp]
  simp only [ok_false_bind]
  rfl

/-- C08 in full, from the contract of the decimal fraction converter -/
theorem C08_of_decFrac (h : DecFracSpec) : Sfx.C08.C08_statement := by
  intro L hL radix hr bytes
  obtain ⟨s, n, f⟩ := L
  obtain ⟨hn, hf⟩ := hL
  dsimp only at hn hf
  dsimp only [Layout.intBits, Layout.wrap, inRange]
  have hn0 : 0 < n := by omega
  have hfs : FromStr.fromStr s n bytes radix (n - f) f =
      some (if s then FromStr.fromStrI n bytes radix (n - f) f else FromStr.fromStrU n bytes radix (n - f) f) := by
    unfold FromStr.fromStr
    rw [if_pos ⟨hn, by omega⟩]
  rw [hfs]
  cases hp : FromStr.parseBounds bytes radix with
  | error e =>
    obtain ⟨he, hlit⟩ := ParsePf.parseBounds_err hr hp
    have hpe : parseExact radix f bytes = none := by unfold parseExact; rw [hlit]; rfl
    refine ⟨.error e, ?_, ?_⟩
    · rw [fromStrI_err hp, fromStrU_err hp, ite_self]
    · rw [hpe]; exact ⟨e, rfl, by omega⟩
  | ok p =>
    obtain ⟨num, k, hlit, hg⟩ := getIntFrac_spec h hr hn hf hp
    have hpe : parseExact radix f bytes =
        some (if p.neg then -((rneDiv (num * 2 ^ f) (radix ^ k) : Nat) : Int) else (rneDiv (num * 2 ^ f) (radix ^ k) : Nat)) := by
      unfold parseExact; rw [hlit]; rfl
    rw [hpe]
    cases s
    · exact ⟨_, by rw [if_neg (by decide), fromStrU_spec hg]; rfl, rfl⟩
    · exact ⟨_, by rw [if_pos rfl, fromStrI_spec hn0 hg]; rfl, rfl⟩

/-- the contract of `dec_str_frac_to_bin`, from `ParseDecPf.decStrFracToBin_spec` -/
theorem DecFracSpec_holds : DecFracSpec := by
  intro n nbits bytes v hn hnb _ hv hlast
  exact ParseDecPf.decStrFracToBin_spec n hn bytes v nbits hv hlast hnb

/-- C08, unconditionally -/
theorem C08_holds : Sfx.C08.C08_statement := C08_of_decFrac DecFracSpec_holds

/-! ### non-vacuity: the special cases of the recombination on concrete inputs -/

/-- "-1.5" on the integer grid of `i8`: an exact half with an odd integer part rounds to the even neighbour (`frac_is_half`) -/
example : FromStr.fromStr true 8 [45, 49, 46, 53] 10 8 0 = some (.ok (.ok (-2, false)) false) ∧
    parseExact 10 0 [45, 49, 46, 53] = some (-2) := ⟨rfl, rfl⟩
/-- "0.8" (hex) with 4 fraction bits in `u8` is exactly one half; "f.f8" rounds up to 16.0 and overflows the 4 integer bits -/
example : FromStr.fromStr false 8 [48, 46, 56] 16 4 4 = some (.ok (.ok (8, false)) false) ∧
    FromStr.fromStr false 8 [102, 46, 102, 56] 16 4 4 = some (.ok (.ok (0, true)) false) ∧
    parseExact 16 4 [102, 46, 102, 56] = some 256 := ⟨rfl, rfl, rfl⟩
/-- "-128" fits `i8`, "128" does not; "-1" overflows `u8` with the wrapped value 255 -/
example : FromStr.fromStr true 8 [45, 49, 50, 56] 10 8 0 = some (.ok (.ok (-128, false)) false) ∧
    FromStr.fromStr true 8 [49, 50, 56] 10 8 0 = some (.ok (.ok (-128, true)) false) ∧
    FromStr.fromStr false 8 [45, 49] 10 8 0 = some (.ok (.ok (255, true)) false) := ⟨rfl, rfl, rfl⟩
/-- malformed input: the error kind of `parse_bounds`, never `Overflow` (3) -/
example : FromStr.fromStr true 8 [49, 46, 46] 10 4 4 = some (.ok (.error 2) false) ∧ parseExact 10 4 [49, 46, 46] = none :=
  ⟨rfl, rfl⟩

end Sfx.ParseTopPf

#print axioms Sfx.ParseTopPf.getFrac_spec
#print axioms Sfx.ParseTopPf.getIntFrac_spec
#print axioms Sfx.ParseTopPf.fromStrI_spec
#print axioms Sfx.ParseTopPf.fromStrU_spec
#print axioms Sfx.ParseTopPf.C08_of_decFrac
#print axioms Sfx.ParseTopPf.DecFracSpec_holds
#print axioms Sfx.ParseTopPf.C08_holds
