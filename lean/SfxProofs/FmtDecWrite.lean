import SfxProofs.FmtDecRound
/-
  FmtDecWrite.lean — `write_int_dec` / `write_frac_dec` including the half-width delegation, `ceil_log10_2_times`,
  the prologue of `fmt_dec` (helpers for FmtDec.lean).
-/
namespace Sfx.FmtDecPf
open Display TextSpec

/-! ### `ceil_log10_2_times` -/

def clog (f : Nat) : Nat := ((f * 0x4D104D43 + 0xFFFFFFFF) >>> 32) % 2 ^ 32

set_option maxRecDepth 100000 in
/-- `ceil_log10_2_times(f)` decimal digits are enough for `f` bits (checked for every `f ≤ 128`) -/
theorem clog_table : ∀ f, f < 129 → 2 ^ f ≤ 10 ^ clog f ∧ (1 ≤ f → 2 ^ f < 10 ^ clog f) ∧ clog f ≤ f := by
  decide

theorem ceilLog_eq (f : Nat) (h : f < 112816) : ceilLog10_2Times f = .ok (clog f) false := by
  unfold ceilLog10_2Times Outcome.dassert clog
  simp [h]
  rfl

/-! ### arithmetic of the left-aligned fraction -/

theorem scale_div (m T D X : Nat) (hX : 0 < X) : (m * X) * T / (D * X) = m * T / D := by
  rw [Nat.mul_right_comm, Nat.mul_div_mul_right _ _ hX]

theorem scale_mod (m T D X : Nat) : (m * X) * T % (D * X) = (m * T % D) * X := by
  rw [Nat.mul_right_comm, Nat.mul_mod_mul_right]

theorem cmp_scale (a b c : Nat) (hc : 0 < c) : compare (a * c) (b * c) = compare a b := by
  simp only [Nat.compare_eq_ite_lt, Nat.mul_lt_mul_right hc]

theorem cmp_half (r X H D : Nat) (hX : 0 < X) (hH : 2 * H = D * X) : compare (r * X) H = compare (2 * r) D := by
  rw [← cmp_scale (2 * r) D X hX, ← hH, Nat.mul_assoc, Nat.mul_comm 2 (r * X), Nat.mul_comm 2 H,
    cmp_scale _ _ 2 (by decide)]

/-- the auto-precision stop condition, scale-free -/
theorem stop_cond (r X D P T tie' : Nat) (hX : 0 < X) (hP : P = D * X) (hr : r < D) (hT : 0 < T)
    (htie : 2 * tie' = (X * T) % (2 * P))
    (h : r * X < tie' ∨ (P - r * X) % P < tie') : D < T ∨ 2 * r < T ∨ 2 * (D - r) < T := by
  by_cases hwrap : X * T < 2 * P
  · rw [Nat.mod_eq_of_lt hwrap] at htie
    right
    rcases h with h | h
    · left
      have : (2 * r) * X < T * X := by
        rw [Nat.mul_assoc, Nat.mul_comm T X]; omega
      exact Nat.lt_of_mul_lt_mul_right this
    · by_cases hr0 : r = 0
      · left; subst hr0; omega
      · right
        have hrX : 0 < r * X := Nat.mul_pos (by omega) hX
        have hle : r * X < P := by rw [hP]; exact Nat.mul_lt_mul_of_pos_right hr hX
        rw [Nat.mod_eq_of_lt (by omega)] at h
        have : (2 * (D - r)) * X < T * X := by
          rw [Nat.mul_assoc, Nat.sub_mul, ← hP, Nat.mul_comm T X]; omega
        exact Nat.lt_of_mul_lt_mul_right this
  · left
    have : (2 * D) * X ≤ T * X := by
      rw [Nat.mul_assoc, ← hP, Nat.mul_comm T X]; omega
    have := Nat.le_of_mul_le_mul_right this hX
    omega

/-! ### `write_frac_dec` -/

/-- the non-delegating part of `write_frac_dec` (same text as the model) -/
def fracBody (w self nbits : Nat) (autoPrec : Bool) (buf : Buffer) : Outcome (Buffer × Ordering) := do
    let (tie, add5) ← (if nbits = w then pure (0, true) else do
      let t ← shrU w (msb w) nbits
      pure (t, false) : Outcome (Nat × Bool))
    let (b, e) ← buf.frac
    let (data, self', trimTo) := writeFracDecLoop w autoPrec b (e - b) 0 buf.data self tie add5
    let fd := match trimTo with
      | some t => t
      | none => buf.fracDigits
    pure ({ buf with data := data, fracDigits := fd }, compare self' (msb w))

theorem writeFracDec_body (w self nbits : Nat) (auto : Bool) (buf : Buffer) (h : ¬ (8 < w ∧ nbits < w / 2)) :
    writeFracDec w self nbits auto buf = fracBody w self nbits auto buf := by
  rw [writeFracDec, dif_neg h]; rfl

theorem writeFracDec_half (w self nbits : Nat) (auto : Bool) (buf : Buffer) (h : 8 < w ∧ nbits < w / 2) :
    writeFracDec w self nbits auto buf =
      writeFracDec (w / 2) ((self >>> (w / 2)) % 2 ^ (w / 2)) nbits auto buf := by
  rw [writeFracDec, dif_pos h]

theorem optMatch (o : Option Nat) (d : Nat) : (match o with | some t => t | none => d) = o.getD d := by
  cases o <;> rfl

theorem fracBody_spec (w f m : Nat) (auto : Bool) (buf : Buffer) (hw : 3 ≤ w) (hf : f ≤ w) (hm : m < 2 ^ f)
    (hsz : buf.intDigits + 2 + buf.fracDigits ≤ buf.data.size) (hsz2 : buf.data.size = 130) :
    ∃ s data', s ≤ buf.fracDigits ∧
      fracBody w (m * 2 ^ (w - f)) f auto buf =
        .ok ({ buf with data := data', fracDigits := s }, compare (2 * (m * 10 ^ s % 2 ^ f)) (2 ^ f)) false ∧
      data'.size = buf.data.size ∧
      (∀ j, j < buf.intDigits + 2 → data'.getD j 0 = buf.data.getD j 0) ∧
      (∀ j, buf.intDigits + 2 ≤ j → j < buf.intDigits + 2 + s → data'.getD j 0 ≤ 9) ∧
      valD (sliceL data' (buf.intDigits + 2) s) = m * 10 ^ s / 2 ^ f ∧
      (s = buf.fracDigits ∨ (auto = true ∧ (2 ^ f < 10 ^ s ∨ 2 * (m * 10 ^ s % 2 ^ f) < 10 ^ s ∨
        2 * (2 ^ f - m * 10 ^ s % 2 ^ f) < 10 ^ s))) := by
  obtain ⟨n, t, data⟩ := buf
  simp only at hsz hsz2 ⊢
  have hX : 0 < 2 ^ (w - f) := Nat.two_pow_pos _
  have hP : 2 ^ w = 2 ^ f * 2 ^ (w - f) := by rw [← Nat.pow_add]; congr 1; omega
  have hFlt : m * 2 ^ (w - f) < 2 ^ w := by rw [hP]; exact Nat.mul_lt_mul_of_pos_right hm hX
  -- the initial tie
  have htie : ∃ tie add5, (if f = w then (pure (0, true) : Outcome (Nat × Bool)) else do
        let t ← shrU w (msb w) f
        pure (t, false)) = .ok (tie, add5) false ∧
      (if add5 then tie = 0 ∧ 2 ^ (w - f) = 1 else 2 * tie = 2 ^ (w - f) % 2 ^ (w + 1)) := by
    by_cases hfw : f = w
    · refine ⟨0, true, by rw [if_pos hfw]; rfl, ?_⟩
      simp [hfw]
    · refine ⟨2 ^ (w - 1 - f), false, ?_, ?_⟩
      · rw [if_neg hfw]
        unfold shrU msb
        have : decide (w ≤ f) = false := by simp; omega
        rw [this, ok_false_bind, Nat.mod_eq_of_lt (by omega), Nat.shiftRight_eq_div_pow,
          Nat.pow_div (by omega) (by decide)]
        rfl
      · simp only [Bool.false_eq_true, if_false]
        rw [Nat.mod_eq_of_lt, ← Nat.pow_succ']
        · congr 1; omega
        · exact Nat.pow_lt_pow_right (by decide) (by omega)
  obtain ⟨tie, add5, htie1, htie2⟩ := htie
  obtain ⟨s, hs, h1, h2, h3, h4, h5⟩ := fracLoop_spec w (n + 2) auto hw t 0 data (m * 2 ^ (w - f)) tie add5
    (2 ^ (w - f)) hFlt (by omega) htie2
  generalize hr : writeFracDecLoop w auto (n + 2) t 0 data (m * 2 ^ (w - f)) tie add5 = r at h1 h2 h3 h4 h5
  obtain ⟨data', F', trim⟩ := r
  simp only [Nat.add_zero, Nat.zero_add] at h1 h2 h3 h4 h5
  have hdiv : m * 2 ^ (w - f) * 10 ^ s / 2 ^ w = m * 10 ^ s / 2 ^ f := by rw [hP]; exact scale_div _ _ _ _ hX
  have hmod : m * 2 ^ (w - f) * 10 ^ s % 2 ^ w = (m * 10 ^ s % 2 ^ f) * 2 ^ (w - f) := by
    rw [hP]; exact scale_mod _ _ _ _
  refine ⟨s, data', hs, ?_, h1, ?_, ?_, ?_, ?_⟩
  · unfold fracBody
    rw [htie1, ok_false_bind]
    simp only [Buffer.frac]
    rw [sliceChk_ok _ _ (by omega)]
    simp only [pure_eq, ok_false_bind]
    rw [show 1 + n + 1 + t - (1 + n + 1) = t by omega, show 1 + n + 1 = n + 2 by omega, hr]
    simp only [optMatch, h4, h3, hmod]
    congr 2
    apply cmp_half _ _ _ _ hX
    unfold msb
    rw [← hP, ← Nat.pow_succ']
    congr 1; omega
  · intro j hj
    rw [h2 j, if_neg (by omega)]
  · intro j hj1 hj2
    rw [h2 j, if_pos ⟨hj1, hj2⟩]
    exact fdig_lt _ _ _
  · rw [sliceL_eq_map data' (n + 2) s (fdig w (m * 2 ^ (w - f))), valD_fdigs _ _ _ hFlt, hdiv]
    intro j hj1 hj2
    rw [h2 j, if_pos ⟨hj1, hj2⟩]
  · rcases h5 with h | ⟨hauto, h, tie', ht1, ht2⟩
    · exact Or.inl h
    · right
      refine ⟨hauto, ?_⟩
      rw [hmod] at ht2
      refine stop_cond (m * 10 ^ s % 2 ^ f) (2 ^ (w - f)) (2 ^ f) (2 ^ w) (10 ^ s) tie' hX hP
        (Nat.mod_lt _ (Nat.two_pow_pos f)) (Nat.pow_pos (by decide)) ?_ ht2
      rw [ht1, Nat.pow_succ, Nat.mul_comm (2 ^ w) 2]


theorem half_frac (h f m : Nat) (hf : f < h) (hm : m < 2 ^ f) :
    ((m * 2 ^ (2 * h - f)) >>> h) % 2 ^ h = m * 2 ^ (h - f) := by
  have e : 2 ^ (2 * h - f) = 2 ^ (h - f) * 2 ^ h := by rw [← Nat.pow_add]; congr 1; omega
  rw [Nat.shiftRight_eq_div_pow, e, ← Nat.mul_assoc, Nat.mul_div_cancel _ (Nat.two_pow_pos h)]
  apply Nat.mod_eq_of_lt
  have : 2 ^ h = 2 ^ f * 2 ^ (h - f) := by rw [← Nat.pow_add]; congr 1; omega
  rw [this]
  exact Nat.mul_lt_mul_of_pos_right hm (Nat.two_pow_pos _)

theorem writeFracDec_width (auto : Bool) (buf : Buffer) : ∀ (e f m : Nat), f ≤ 8 * 2 ^ e → m < 2 ^ f →
    ∃ w', 3 ≤ w' ∧ f ≤ w' ∧
      writeFracDec (8 * 2 ^ e) (m * 2 ^ (8 * 2 ^ e - f)) f auto buf = fracBody w' (m * 2 ^ (w' - f)) f auto buf := by
  intro e
  induction e with
  | zero =>
    intro f m hf hm
    exact ⟨8, by decide, hf, writeFracDec_body _ _ _ _ _ (by omega)⟩
  | succ e ih =>
    intro f m hf hm
    have hP := Nat.two_pow_pos e
    have hw : 8 * 2 ^ (e + 1) = 2 * (8 * 2 ^ e) := by rw [Nat.pow_succ]; omega
    by_cases hd : f < 8 * 2 ^ e
    · obtain ⟨w', h1, h2, h3⟩ := ih f m (by omega) hm
      refine ⟨w', h1, h2, ?_⟩
      rw [writeFracDec_half _ _ _ _ _ (by omega), hw, Nat.mul_div_cancel_left _ (by decide : 0 < 2),
        half_frac _ _ _ hd hm, h3]
    · exact ⟨8 * 2 ^ (e + 1), by omega, hf, writeFracDec_body _ _ _ _ _ (by omega)⟩

theorem writeFracDec_spec (e f m : Nat) (auto : Bool) (buf : Buffer) (hf : f ≤ 8 * 2 ^ e) (hm : m < 2 ^ f)
    (hsz : buf.intDigits + 2 + buf.fracDigits ≤ buf.data.size) (hsz2 : buf.data.size = 130) :
    ∃ s data', s ≤ buf.fracDigits ∧
      writeFracDec (8 * 2 ^ e) (m * 2 ^ (8 * 2 ^ e - f)) f auto buf =
        .ok ({ buf with data := data', fracDigits := s }, compare (2 * (m * 10 ^ s % 2 ^ f)) (2 ^ f)) false ∧
      data'.size = buf.data.size ∧
      (∀ j, j < buf.intDigits + 2 → data'.getD j 0 = buf.data.getD j 0) ∧
      (∀ j, buf.intDigits + 2 ≤ j → j < buf.intDigits + 2 + s → data'.getD j 0 ≤ 9) ∧
      valD (sliceL data' (buf.intDigits + 2) s) = m * 10 ^ s / 2 ^ f ∧
      (s = buf.fracDigits ∨ (auto = true ∧ (2 ^ f < 10 ^ s ∨ 2 * (m * 10 ^ s % 2 ^ f) < 10 ^ s ∨
        2 * (2 ^ f - m * 10 ^ s % 2 ^ f) < 10 ^ s))) := by
  obtain ⟨w', h1, h2, h3⟩ := writeFracDec_width auto buf e f m hf hm
  rw [h3]
  exact fracBody_spec w' f m auto buf h1 h2 hm hsz hsz2

/-! ### `write_int_dec` -/

def intBody (self : Nat) (buf : Buffer) : Outcome Buffer := do
    let (b, e) ← buf.int
    let (data, self') := writeIntDecLoop b (e - b) buf.data self
    Outcome.dassert (self' == 0)
    pure { buf with data := data }

theorem writeIntDec_width (buf : Buffer) : ∀ (e self nbits : Nat), self < 2 ^ nbits →
    writeIntDec (8 * 2 ^ e) self nbits buf = intBody self buf := by
  intro e
  induction e with
  | zero =>
    intro self nbits _
    rw [writeIntDec, dif_neg (by omega)]; rfl
  | succ e ih =>
    intro self nbits hs
    have hP := Nat.two_pow_pos e
    have hw : 8 * 2 ^ (e + 1) = 2 * (8 * 2 ^ e) := by rw [Nat.pow_succ]; omega
    by_cases hd : nbits < 8 * 2 ^ e
    · rw [writeIntDec, dif_pos (by omega), hw, Nat.mul_div_cancel_left _ (by decide : 0 < 2)]
      have : self < 2 ^ (8 * 2 ^ e) := Nat.lt_of_lt_of_le hs (Nat.pow_le_pow_right (by decide) (by omega))
      rw [Nat.mod_eq_of_lt this]
      exact ih self nbits hs
    · rw [writeIntDec, dif_neg (by omega)]; rfl

theorem intBody_spec (self : Nat) (buf : Buffer) (hsz : buf.data.size = 130) (hn : buf.intDigits + 1 ≤ 130)
    (hs : self < 10 ^ buf.intDigits) :
    ∃ data', intBody self buf = .ok { buf with data := data' } false ∧ data'.size = 130 ∧
      (∀ j, j < 1 ∨ buf.intDigits + 1 ≤ j → data'.getD j 0 = buf.data.getD j 0) ∧
      (∀ j, 1 ≤ j → j < buf.intDigits + 1 → data'.getD j 0 ≤ 9) ∧
      valD (sliceL data' 1 buf.intDigits) = self := by
  obtain ⟨n, t, data⟩ := buf
  simp only at hsz hn hs ⊢
  obtain ⟨h1, h2, h3, h4, h5⟩ := intLoop_spec 1 n data self (by omega)
  generalize hr : writeIntDecLoop 1 n data self = r at h1 h2 h3 h4 h5
  obtain ⟨data', self'⟩ := r
  simp only at h1 h2 h3 h4 h5
  refine ⟨data', ?_, by omega, ?_, ?_, ?_⟩
  · unfold intBody
    simp only [Buffer.int]
    rw [sliceChk_ok _ _ (by omega)]
    simp only [pure_eq, ok_false_bind]
    rw [show 1 + n - 1 = n by omega, hr]
    simp only [Outcome.dassert, h5, Nat.div_eq_of_lt hs]
    rfl
  · intro j hj; exact h2 j (by omega)
  · intro j hj1 hj2; exact h3 j hj1 (by omega)
  · rw [h4, Nat.mod_eq_of_lt hs]

/-! ### `set_len`, the prologue -/

theorem setLen_spec (n t : Nat) (h : n + t < 130) (hn : n < 129) :
    Buffer.new.setLen n t = .ok { intDigits := n, fracDigits := t, data := (Array.replicate 130 0).setIfInBounds (1 + n) 46 } false := by
  unfold Buffer.setLen Buffer.new
  simp only [Array.size_replicate]
  rw [if_neg (by omega), if_neg (by omega)]; rfl

theorem splitIntFrac_spec (w abs f : Nat) (hw : 0 < w) (hw2 : w < 2 ^ 32) (hf : f ≤ w) (ha : abs < 2 ^ w) :
    splitIntFrac w abs f = .ok (abs / 2 ^ f, (abs % 2 ^ f) * 2 ^ (w - f)) false := by
  unfold splitIntFrac
  by_cases h0 : f = 0
  · subst h0; simp [pure_eq, Nat.mod_one]
  · rw [if_neg h0]
    by_cases h1 : f = w
    · subst h1; simp [pure_eq, Nat.div_eq_of_lt ha, Nat.mod_eq_of_lt ha]
    · rw [if_neg h1]
      have hfw : f < w := by omega
      have hk : (w + 2 ^ 32 - f % 2 ^ 32) % 2 ^ 32 = w - f := by omega
      unfold shrU shlU Outcome.dbgIf
      rw [hk]
      have d1 : decide (w ≤ f) = false := by simp; omega
      have d2 : decide (w < f) = false := by simp; omega
      have d3 : decide (w ≤ w - f) = false := by simp; omega
      simp only [d1, d2, ok_false_bind, pure_eq]
      rw [d3]
      simp only [ok_false_bind]
      rw [Nat.mod_eq_of_lt hfw, Nat.mod_eq_of_lt (by omega : w - f < w), Nat.shiftRight_eq_div_pow, Nat.shiftLeft_eq]
      have hP : 2 ^ w = 2 ^ f * 2 ^ (w - f) := by rw [← Nat.pow_add]; congr 1; omega
      rw [hP, Nat.mul_mod_mul_right]


/-! ### used bits -/

theorem bitLen_spec (x : Nat) : x < 2 ^ bitLen x := by
  unfold bitLen
  split
  · next h => subst h; decide
  · exact Nat.lt_log2_self

theorem bitLen_le (x k : Nat) (h : x < 2 ^ k) : bitLen x ≤ k := by
  unfold bitLen
  split
  · omega
  · next h0 => have := (Nat.log2_lt h0).2 h; omega

theorem tz_dvd : ∀ (fuel x : Nat), 2 ^ trailingZerosNat fuel x ∣ x := by
  intro fuel
  induction fuel with
  | zero => intro x; simp [trailingZerosNat]
  | succ fuel ih =>
    intro x
    simp only [trailingZerosNat]
    split
    · simp
    · obtain ⟨c, hc⟩ := ih (x / 2)
      refine ⟨c, ?_⟩
      rw [Nat.add_comm, Nat.pow_succ, Nat.mul_right_comm, ← hc]
      omega

theorem tz_ge : ∀ (fuel x k : Nat), x ≠ 0 → 2 ^ k ∣ x → k ≤ fuel → k ≤ trailingZerosNat fuel x := by
  intro fuel
  induction fuel with
  | zero => intro x k _ _ h; omega
  | succ fuel ih =>
    intro x k hx hd hk
    simp only [trailingZerosNat]
    cases k with
    | zero => omega
    | succ k =>
      obtain ⟨c, hc⟩ := hd
      rw [Nat.pow_succ, Nat.mul_assoc, Nat.mul_left_comm] at hc
      split
      · omega
      · have : 2 ^ k ∣ x / 2 := ⟨c, by omega⟩
        have := ih (x / 2) k (by omega) this (by omega)
        omega

/-- the used fraction bits `u = NBITS - frac.trailing_zeros()` of the left-aligned fraction `m·2^(w-f)`: `u ≤ f` and
`u` decimal digits represent the fraction exactly -/
theorem usedBitsLo_spec (w f m : Nat) (hf : f ≤ w) (hm : m < 2 ^ f) :
    usedBitsLo w (m * 2 ^ (w - f)) ≤ f ∧ m * 10 ^ usedBitsLo w (m * 2 ^ (w - f)) % 2 ^ f = 0 := by
  unfold usedBitsLo trailingZerosU
  by_cases h0 : m = 0
  · subst h0; simp
  · have hX := Nat.two_pow_pos (w - f)
    have hne : m * 2 ^ (w - f) ≠ 0 := Nat.mul_ne_zero h0 (by omega)
    rw [if_neg hne]
    have hge := tz_ge w (m * 2 ^ (w - f)) (w - f) hne ⟨m, Nat.mul_comm _ _⟩ (by omega)
    obtain ⟨c, hc⟩ := tz_dvd w (m * 2 ^ (w - f))
    generalize trailingZerosNat w (m * 2 ^ (w - f)) = tz at hge hc
    by_cases htz : tz ≤ w
    · refine ⟨by omega, ?_⟩
      -- m * 2^(w-f) = 2^tz * c, so m = 2^(tz - (w - f)) * c
      have e1 : 2 ^ tz = 2 ^ (tz - (w - f)) * 2 ^ (w - f) := by rw [← Nat.pow_add]; congr 1; omega
      rw [e1, Nat.mul_right_comm] at hc
      have hm' : m = 2 ^ (tz - (w - f)) * c := Nat.eq_of_mul_eq_mul_right hX hc
      have e2 : 2 ^ f = 2 ^ (tz - (w - f)) * 2 ^ (w - tz) := by rw [← Nat.pow_add]; congr 1; omega
      have e3 : (10 : Nat) ^ (w - tz) = 2 ^ (w - tz) * 5 ^ (w - tz) := by rw [← Nat.mul_pow]
      apply Nat.mod_eq_zero_of_dvd
      refine ⟨c * 5 ^ (w - tz), ?_⟩
      rw [hm', e2, e3]
      simp only [Nat.mul_assoc, Nat.mul_left_comm, Nat.mul_comm]
    · -- impossible: 2^tz ∣ x < 2^w
      exfalso
      have hP : 2 ^ w = 2 ^ f * 2 ^ (w - f) := by rw [← Nat.pow_add]; congr 1; omega
      have hlt : m * 2 ^ (w - f) < 2 ^ w := by rw [hP]; exact Nat.mul_lt_mul_of_pos_right hm hX
      have hle : 2 ^ w ≤ 2 ^ tz := Nat.pow_le_pow_right (by decide) (by omega)
      have hc0 : c ≠ 0 := by intro h; subst h; omega
      have : 2 ^ tz ≤ 2 ^ tz * c := Nat.le_mul_of_pos_right _ (by omega)
      omega


/-! ### `rneDiv` -/

theorem rneDiv_cases (A D : Nat) :
    (rneDiv A D = A / D ∧ 2 * (A % D) ≤ D) ∨ (rneDiv A D = A / D + 1 ∧ D ≤ 2 * (A % D)) := by
  unfold rneDiv
  simp only
  split
  · left; exact ⟨rfl, by omega⟩
  · split
    · right; exact ⟨rfl, by omega⟩
    · split
      · left; exact ⟨rfl, by omega⟩
      · right; exact ⟨rfl, by omega⟩

/-- the rounding decision of `round_and_trim` is round-half-even -/
theorem rneDiv_ord (A D : Nat) (up : Bool) (ord : Ordering) (ho : ord = compare (2 * (A % D)) D)
    (hgt : ord = .gt → up = true) (hlt : ord = .lt → up = false)
    (heq : ord = .eq → up = decide (A / D % 2 = 1)) : A / D + (if up then 1 else 0) = rneDiv A D := by
  unfold rneDiv
  simp only
  cases ord with
  | lt =>
    have := Nat.compare_eq_lt.1 ho.symm
    have hu := hlt rfl; subst hu
    simp only [Bool.false_eq_true, ↓reduceIte, Nat.add_zero]
    rw [if_pos this]
  | gt =>
    have := Nat.compare_eq_gt.1 ho.symm
    have hu := hgt rfl; subst hu
    simp only [↓reduceIte]
    rw [if_neg (by omega), if_pos (by omega)]
  | eq =>
    have := Nat.compare_eq_eq.1 ho.symm
    have hu := heq rfl
    rw [if_neg (by omega : ¬ 2 * (A % D) < D), if_neg (by omega : ¬ 2 * (A % D) > D)]
    by_cases h : A / D % 2 = 1
    · rw [if_neg (by omega : ¬ A / D % 2 = 0)]; simp [hu, h]
    · rw [if_pos (by omega : A / D % 2 = 0)]; simp [hu, h]

theorem rneDiv_near (A D T : Nat) (hD : 0 < D)
    (h : D < T ∨ 2 * (A % D) < T ∨ 2 * (D - A % D) < T) :
    2 * (rneDiv A D * D) < 2 * A + T ∧ 2 * A < 2 * (rneDiv A D * D) + T := by
  have hA := Nat.div_add_mod A D
  have hr := Nat.mod_lt A hD
  rw [Nat.mul_comm] at hA
  rcases rneDiv_cases A D with ⟨h1, h2⟩ | ⟨h1, h2⟩
  · rw [h1]
    generalize A / D * D = qD at hA ⊢
    omega
  · rw [h1, Nat.add_mul, Nat.one_mul]
    generalize A / D * D = qD at hA ⊢
    omega

theorem rneDiv_unique (A D V : Nat) (h1 : 2 * (V * D) < 2 * A + D) (h2 : 2 * A < 2 * (V * D) + D) :
    rneDiv A D = V := by
  have hD : 0 < D := by
    rcases Nat.eq_zero_or_pos D with h | h
    · subst h; omega
    · exact h
  have hA := Nat.div_add_mod A D
  have hr := Nat.mod_lt A hD
  rw [Nat.mul_comm] at hA
  have hVq : V = A / D ∨ V = A / D + 1 := by
    rcases Nat.lt_or_ge V (A / D) with hlt | hge
    · exfalso
      have : (V + 1) * D ≤ A / D * D := Nat.mul_le_mul_right D hlt
      rw [Nat.add_mul, Nat.one_mul] at this
      omega
    · rcases Nat.lt_or_ge (A / D + 1) V with hgt | hle
      · exfalso
        have : (A / D + 2) * D ≤ V * D := Nat.mul_le_mul_right D hgt
        rw [Nat.add_mul] at this
        omega
      · omega
  unfold rneDiv
  simp only
  rcases hVq with h | h
  · rw [h] at h1 h2
    rw [if_pos (by omega)]; exact h.symm
  · rw [h, Nat.add_mul, Nat.one_mul] at h1 h2
    rw [if_neg (by omega), if_pos (by omega)]; exact h.symm

theorem rneDiv_exact (Q D : Nat) (hD : 0 < D) : rneDiv (Q * D) D = Q :=
  rneDiv_unique _ _ _ (by omega) (by omega)


end Sfx.FmtDecPf
