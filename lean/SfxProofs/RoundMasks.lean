import SfxModel.Round
import SfxProofs.PrimLemmas
import SfxProofs.RoundBits
/-
  RoundMasks.lean — the mask constants `INT_MASK, FRAC_MASK, INT_LSB, FRAC_MSB` as canonical integers,
  and `intPart / fracPart` as floor / remainder.
-/
namespace Sfx

/-! ### `toU` and `wrapI` -/

theorem wrapI_emod (s : Bool) (n : Nat) (x : Int) : wrapI s n x % 2 ^ n = x % 2 ^ n := by
  obtain ⟨k, hk⟩ := wrapI_eq_add_mul s n x
  rw [hk, Int.add_mul_emod_self_right]

theorem toU_wrapIR (s : Bool) (n : Nat) (x : Int) : toU n (wrapI s n x) = toU n x := by
  unfold toU; rw [wrapI_emod]

theorem toU_castR (n : Nat) (x : Int) : ((toU n x : Nat) : Int) = x % 2 ^ n := by
  unfold toU
  exact Int.toNat_of_nonneg (Int.emod_nonneg _ (Int.ne_of_gt (two_pow_pos n)))

theorem natCast_two_pow (k : Nat) : ((2 ^ k : Nat) : Int) = 2 ^ k := by
  rw [Int.natCast_pow]; rfl

theorem toU_ltR (n : Nat) (x : Int) : toU n x < 2 ^ n := by
  have h := Int.emod_lt_of_pos x (two_pow_pos n)
  rw [← toU_castR, ← natCast_two_pow] at h
  exact_mod_cast h

theorem toU_eq_of_cast {n : Nat} {x : Int} {k : Nat} (h : x % 2 ^ n = (k : Int)) : toU n x = k := by
  rw [← toU_castR] at h; exact_mod_cast h

theorem toU_neg_two_pow {n f : Nat} (hf : f ≤ n) : toU n (-(2 ^ f)) = 2 ^ n - 2 ^ f := by
  apply toU_eq_of_cast
  have hle : (2 : Nat) ^ f ≤ 2 ^ n := Nat.pow_le_pow_right (by decide) hf
  rw [Int.ofNat_sub hle, natCast_two_pow, natCast_two_pow]
  have hF := two_pow_pos f
  have hle' := pow_le_pow (a := f) (b := n) hf
  rw [← Int.add_mul_emod_self_right (-(2 ^ f)) 1 (2 ^ n), Int.one_mul]
  rcases Int.lt_or_eq_of_le hle' with h | h
  · rw [Int.emod_eq_of_lt (by omega) (by omega)]; omega
  · rw [h]; simp

theorem toU_two_pow_sub_one {n f : Nat} (hf : f ≤ n) : toU n (2 ^ f - 1) = 2 ^ f - 1 := by
  apply toU_eq_of_cast
  have hF := two_pow_pos f
  have hle' := pow_le_pow (a := f) (b := n) hf
  rw [Int.ofNat_sub (Nat.two_pow_pos f), natCast_two_pow]
  rw [Int.emod_eq_of_lt (by omega) (by omega)]; rfl

theorem toU_two_pow {n k : Nat} (hk : k < n) : toU n (2 ^ k) = 2 ^ k := by
  apply toU_eq_of_cast
  rw [natCast_two_pow]
  exact Int.emod_eq_of_lt (Int.le_of_lt (two_pow_pos k)) (pow_lt_pow hk)

theorem toU_zeroR (n : Nat) : toU n 0 = 0 := by
  apply toU_eq_of_cast; simp

/-! ### congruence helpers -/

theorem wrapI_mul_left (s t : Bool) (n : Nat) (x y : Int) :
    wrapI s n (wrapI t n x * y) = wrapI s n (x * y) := by
  obtain ⟨k, hk⟩ := wrapI_eq_add_mul t n x
  rw [hk, Int.add_mul, Int.mul_right_comm]
  exact wrapI_add_mul ..

theorem wrapI_neg_sub (s t : Bool) (n : Nat) (x c : Int) :
    wrapI s n (-(wrapI t n x) - c) = wrapI s n (-x - c) := by
  obtain ⟨k, hk⟩ := wrapI_eq_add_mul t n x
  rw [hk]
  apply wrapI_congr s n (-k)
  rw [Int.neg_mul]; omega

theorem wrapI_emod_self (s : Bool) (n : Nat) (x : Int) : wrapI s n (x % 2 ^ n) = wrapI s n x := by
  apply wrapI_congr s n (-(x / 2 ^ n))
  have := Int.emod_add_mul_ediv x (2 ^ n)
  rw [Int.neg_mul, Int.mul_comm]; omega

theorem inI_zeroR (s : Bool) (n : Nat) : inI s n 0 := by
  have hp := two_pow_pos (n - 1); have hn := two_pow_pos n
  cases s <;> simp [inI, minI, maxI] <;> omega

theorem wrapI_zeroR (s : Bool) {n : Nat} (hn : 0 < n) : wrapI s n 0 = 0 := wrapI_of_in hn (inI_zeroR s n)

theorem wrapI_two_pow_self (s : Bool) {n : Nat} (hn : 0 < n) : wrapI s n (2 ^ n) = 0 := by
  have := wrapI_add_mul s n 0 1
  rw [Int.zero_add, Int.one_mul] at this
  rw [this, wrapI_zeroR s hn]

theorem wrapI_neg_two_pow_self (s : Bool) {n : Nat} (hn : 0 < n) : wrapI s n (-(2 ^ n)) = 0 := by
  have := wrapI_add_mul s n 0 (-1)
  rw [Int.zero_add, Int.neg_mul, Int.one_mul] at this
  rw [this, wrapI_zeroR s hn]

/-- two canonical residues with the same wrap are equal -/
theorem wrapI_inj_of_lt {s : Bool} {n : Nat} {x y : Int} (hx0 : 0 ≤ x) (hx : x < 2 ^ n) (hy0 : 0 ≤ y) (hy : y < 2 ^ n)
    (h : wrapI s n x = wrapI s n y) : x = y := by
  have h1 := wrapI_emod s n x
  have h2 := wrapI_emod s n y
  rw [h, h2, Int.emod_eq_of_lt hy0 hy, Int.emod_eq_of_lt hx0 hx] at h1
  exact h1.symm

/-! ### the masks -/
namespace Layout
variable (L : Layout)

theorem intMask_eq' : L.intMask = L.wrap (-(2 ^ L.f)) := by
  unfold intMask shlI notI wrap
  rw [wrapI_mul_left, Int.mul_assoc, wrapI_mul_left]
  congr 1
  rw [← Int.pow_add]
  have : L.f / 2 + (L.f - L.f / 2) = L.f := by omega
  rw [this]; omega

theorem fracMask_eq' : L.fracMask = L.wrap (2 ^ L.f - 1) := by
  unfold fracMask notI
  rw [intMask_eq']; unfold wrap
  rw [wrapI_neg_sub]
  congr 1; omega

theorem toU_intMask (hf : L.f ≤ L.n) : toU L.n L.intMask = 2 ^ L.n - 2 ^ L.f := by
  rw [intMask_eq']; unfold wrap; rw [toU_wrapIR, toU_neg_two_pow hf]

theorem toU_fracMask (hf : L.f ≤ L.n) : toU L.n L.fracMask = 2 ^ L.f - 1 := by
  rw [fracMask_eq']; unfold wrap; rw [toU_wrapIR, toU_two_pow_sub_one hf]

theorem intLsb_eq' (hn : 0 < L.n) (hf : L.f ≤ L.n) : L.intLsb = (if L.f < L.n then L.wrap (2 ^ L.f) else 0) := by
  unfold intLsb xorI shlI
  by_cases h : L.f < L.n
  · rw [if_pos h, toU_wrapIR, toU_intMask L hf]
    have : L.intMask * 2 ^ 1 = L.wrap (-(2 ^ L.f)) * 2 ^ 1 := by rw [intMask_eq']
    rw [this]; unfold wrap
    have h2 : toU L.n (wrapI L.signed L.n (-(2 ^ L.f)) * 2 ^ 1) = toU L.n (-(2 ^ (L.f + 1))) := by
      rw [← toU_wrapIR L.signed, wrapI_mul_left, toU_wrapIR]
      congr 1; rw [Int.pow_succ]; omega
    rw [h2, toU_neg_two_pow (by omega), nat_xor_hi h]
    congr 1
  · rw [if_neg h]
    have hfn : L.f = L.n := by omega
    have h0 : L.intMask = 0 := by rw [intMask_eq', hfn]; exact wrapI_neg_two_pow_self _ hn
    rw [h0]; simp [toU_zeroR, wrapI_zeroR _ hn]

theorem fracMsb_eq' (hn : 0 < L.n) (hf : L.f ≤ L.n) : L.fracMsb = (if 0 < L.f then L.wrap (2 ^ (L.f - 1)) else 0) := by
  unfold fracMsb xorI shrI
  have hU : wrapU L.n L.fracMask = 2 ^ L.f - 1 := by
    have := toU_castR L.n L.fracMask
    rw [toU_fracMask L hf, Int.ofNat_sub (Nat.two_pow_pos _), natCast_two_pow] at this
    unfold wrapU; rw [← this]; rfl
  rw [hU, toU_wrapIR, toU_fracMask L hf]
  by_cases h : 0 < L.f
  · rw [if_pos h]
    have hs := pow_split h
    have h2 : ((2 : Int) ^ L.f - 1) / 2 ^ 1 = 2 ^ (L.f - 1) - 1 := by
      rw [hs]; omega
    rw [h2, toU_two_pow_sub_one (by omega), nat_xor_lo h]
    unfold wrap; congr 1
  · rw [if_neg h]
    have h0 : L.f = 0 := by omega
    rw [h0]; simp [toU_zeroR, wrapI_zeroR _ hn]

/-! ### integer and fractional parts -/

theorem dvd_two_pow {f n : Nat} (hf : f ≤ n) : (2 : Int) ^ f ∣ 2 ^ n :=
  ⟨2 ^ (n - f), by rw [← Int.pow_add]; congr 1; omega⟩

theorem intPart_eq' (hf : L.f ≤ L.n) (a : Int) : L.intPart a = L.wrap ((a / 2 ^ L.f) * 2 ^ L.f) := by
  unfold intPart andI wrap
  rw [toU_intMask L hf, nat_and_hi hf (toU_ltR _ _)]
  have hc : Int.ofNat (toU L.n a / 2 ^ L.f * 2 ^ L.f) = (a % 2 ^ L.n) / 2 ^ L.f * 2 ^ L.f := by
    rw [Int.ofNat_eq_natCast, Int.natCast_mul, Int.natCast_ediv, natCast_two_pow, toU_castR]
  rw [hc]
  apply wrapI_congr _ _ (-(a / 2 ^ L.n))
  have h1 := Int.emod_add_mul_ediv (a % 2 ^ L.n) (2 ^ L.f)
  have h2 := Int.emod_add_mul_ediv a (2 ^ L.f)
  have h3 := Int.emod_add_mul_ediv a (2 ^ L.n)
  rw [Int.emod_emod_of_dvd a (dvd_two_pow hf)] at h1
  rw [Int.neg_mul, Int.mul_comm (a % 2 ^ L.n / 2 ^ L.f), Int.mul_comm (a / 2 ^ L.f), Int.mul_comm (a / 2 ^ L.n)]
  omega

theorem fracPart_eq' (hf : L.f ≤ L.n) (a : Int) : L.fracPart a = L.wrap (a % 2 ^ L.f) := by
  unfold fracPart andI wrap
  rw [toU_fracMask L hf, Nat.and_two_pow_sub_one_eq_mod]
  have hc : Int.ofNat (toU L.n a % 2 ^ L.f) = (a % 2 ^ L.n) % 2 ^ L.f := by
    rw [Int.ofNat_eq_natCast, Int.natCast_emod, natCast_two_pow, toU_castR]
  rw [hc, Int.emod_emod_of_dvd a (dvd_two_pow hf)]

/-! ### the bit tests used by the rounding code -/

theorem wrapI_natCast_eq_zero_iff {s : Bool} {n : Nat} (hn : 0 < n) {k : Nat} (hk : k < 2 ^ n) :
    wrapI s n (Int.ofNat k) = 0 ↔ k = 0 := by
  constructor
  · intro h
    rw [← wrapI_zeroR s hn] at h
    have hk' : (k : Int) < 2 ^ n := by rw [← natCast_two_pow]; exact_mod_cast hk
    have := wrapI_inj_of_lt (Int.natCast_nonneg k) hk' (Int.le_refl 0) (two_pow_pos n) h
    exact_mod_cast this
  · intro h; subst h; exact wrapI_zeroR s hn

theorem toU_fracMsb (hn : 0 < L.n) (hf0 : 0 < L.f) (hf : L.f ≤ L.n) : toU L.n L.fracMsb = 2 ^ (L.f - 1) := by
  rw [fracMsb_eq' L hn hf, if_pos hf0]; unfold wrap
  rw [toU_wrapIR, toU_two_pow (by omega)]

theorem toU_intLsb (hf : L.f < L.n) : toU L.n L.intLsb = 2 ^ L.f := by
  rw [intLsb_eq' L (by omega) (by omega), if_pos hf]; unfold wrap
  rw [toU_wrapIR, toU_two_pow hf]

theorem and_fracMsb_eq_zero_iff (hn : 0 < L.n) (hf : L.f ≤ L.n) (a : Int) :
    andI L.signed L.n a L.fracMsb = 0 ↔ 2 * (a % 2 ^ L.f) < 2 ^ L.f := by
  by_cases hf0 : 0 < L.f
  · unfold andI
    rw [toU_fracMsb L hn hf0 hf]
    have hlt : toU L.n a &&& 2 ^ (L.f - 1) < 2 ^ L.n :=
      Nat.lt_of_le_of_lt Nat.and_le_right (Nat.pow_lt_pow_right (by decide) (by omega))
    rw [wrapI_natCast_eq_zero_iff hn hlt, nat_and_two_pow_eq_zero_iff_lt]
    have hf1 : L.f - 1 + 1 = L.f := by omega
    rw [hf1]
    have hc : ((toU L.n a % 2 ^ L.f : Nat) : Int) = a % 2 ^ L.f := by
      rw [Int.natCast_emod, natCast_two_pow, toU_castR, Int.emod_emod_of_dvd a (dvd_two_pow hf)]
    have hs := pow_split hf0
    rw [← hc, hs, ← natCast_two_pow]
    constructor
    · intro h
      have : ((toU L.n a % 2 ^ L.f : Nat) : Int) < ((2 ^ (L.f - 1) : Nat) : Int) := by exact_mod_cast h
      omega
    · intro h
      have : ((toU L.n a % 2 ^ L.f : Nat) : Int) < ((2 ^ (L.f - 1) : Nat) : Int) := by omega
      exact_mod_cast this
  · have h0 : L.f = 0 := by omega
    have hm : L.fracMsb = 0 := by rw [fracMsb_eq' L hn hf, if_neg hf0]
    rw [hm, h0]
    unfold andI
    simp [toU_zeroR, wrapI_zeroR _ hn]

theorem fracPart_eq_fracMsb_iff (hn : 0 < L.n) (hf0 : 0 < L.f) (hf : L.f ≤ L.n) (a : Int) :
    L.fracPart a = L.fracMsb ↔ 2 * (a % 2 ^ L.f) = 2 ^ L.f := by
  rw [fracPart_eq' L hf, fracMsb_eq' L hn hf, if_pos hf0]; unfold wrap
  have hs := pow_split hf0
  have hF := two_pow_pos (L.f - 1)
  have hr0 := Int.emod_nonneg a (Int.ne_of_gt (two_pow_pos L.f))
  have hr1 := Int.emod_lt_of_pos a (two_pow_pos L.f)
  have hle := pow_le_pow (a := L.f) (b := L.n) hf
  constructor
  · intro h
    have := wrapI_inj_of_lt hr0 (by omega) (Int.le_of_lt hF) (by omega) h
    omega
  · intro h
    have : a % 2 ^ L.f = 2 ^ (L.f - 1) := by omega
    rw [this]

theorem and_intPart_intLsb_eq_zero_iff (hf : L.f < L.n) (a : Int) :
    andI L.signed L.n (L.intPart a) L.intLsb = 0 ↔ (a / 2 ^ L.f) % 2 = 0 := by
  have hn : 0 < L.n := by omega
  unfold andI
  rw [toU_intLsb L hf]
  have hlt : toU L.n (L.intPart a) &&& 2 ^ L.f < 2 ^ L.n :=
    Nat.lt_of_le_of_lt Nat.and_le_right (Nat.pow_lt_pow_right (by decide) hf)
  rw [wrapI_natCast_eq_zero_iff hn hlt, nat_and_two_pow_eq_zero_iff_div]
  have hc : ((toU L.n (L.intPart a) / 2 ^ L.f % 2 : Nat) : Int) = (a / 2 ^ L.f) % 2 := by
    rw [Int.natCast_emod, Int.natCast_ediv, natCast_two_pow, toU_castR, intPart_eq' L (by omega)]
    unfold wrap
    rw [wrapI_emod]
    have hsp : (2 : Int) ^ L.n = 2 ^ L.f * 2 ^ (L.n - L.f) := by rw [← Int.pow_add]; congr 1; omega
    rw [hsp, Int.mul_comm (a / 2 ^ L.f), Int.mul_emod_mul_of_pos _ _ (two_pow_pos _),
      Int.mul_ediv_cancel_left _ (Int.ne_of_gt (two_pow_pos _))]
    have hd : (2 : Int) ∣ 2 ^ (L.n - L.f) := ⟨2 ^ (L.n - L.f - 1), by rw [← pow_split (by omega)]⟩
    exact Int.emod_emod_of_dvd _ hd
  rw [← hc]
  constructor
  · intro h; rw [h]; rfl
  · intro h; exact_mod_cast h

end Layout
end Sfx
