import SfxModel.ExtFrom
import SfxProofs.Convert
import SfxProofs.HalfFloat
import SfxProps.C04
/-
  ExtFrom.lean — the type-level (infallible) conversion traits (`SfxModel/ExtFrom.lean`): model = documented answer for every impl
  family, no panic and no debug flag in either build profile, and soundness of the type-level bounds found in `convert.rs`
  (tables `Generated.fromIntImpls`, `toIntImpls`, `toFloatImpls`, `intToFloatImpls`, `primLossyImpls`).  Core Lean only.
-/
namespace Sfx.ExtFromPf
open Sfx.ConvPf Sfx.ToFloatPf Sfx.ExtFrom

/-! ## (0) exactness of round-to-nearest on short significands -/

/-- a value whose significand fits the format's precision and whose exponent is in the normal range is its own nearest float:
the specification's result decodes to `x · 2^k · 2^(−k−f)` with `k = prec − bitLen |x|` -/
theorem rneFloat_exact (F : FloatFmt) (hp : 2 ≤ F.prec) (hpn : F.prec + 2 ≤ F.nbits) (f : Nat) (x : Int) (hx0 : x ≠ 0)
    (hlen : bitLen x.natAbs ≤ F.prec) (hmin : F.expMin ≤ (bitLen x.natAbs : Int) - 1 - f)
    (hmax : (bitLen x.natAbs : Int) - 1 - f ≤ F.expMax) :
    floatExact F (rneFloat F f x) =
      some (x * 2 ^ (F.prec - bitLen x.natAbs), -((F.prec - bitLen x.natAbs : Nat) : Int) - f) := by
  obtain ⟨hb1, hbmax, hbmin, hb2⟩ := bias_facts F hpn
  have ha : 0 < x.natAbs := by omega
  have hlb := bitLen_lb ha
  have hub := bitLen_ub x.natAbs
  have hbp := bitLen_pos ha
  generalize hL : bitLen x.natAbs = L at *
  generalize ha' : x.natAbs = a at *
  have h1 : ¬ ((L : Int) - 1 - f < F.expMin) := by omega
  -- the rounded magnitude is the magnitude shifted up to the full precision
  have hM : specM F f a = ((a * 2 ^ (F.prec - L) : Nat) : Int) := by
    unfold specM specQ
    rw [hL, if_neg h1]
    unfold rneScaled
    have e : -(f : Int) - ((L : Int) - 1 - f - ((F.prec : Int) - 1)) = ((F.prec - L : Nat) : Int) := by omega
    rw [e, if_pos (by omega), Int.toNat_natCast]
    simp [Int.natCast_mul, Int.natCast_pow]
  have hMt : (specM F f a).toNat = a * 2 ^ (F.prec - L) := by rw [hM, Int.toNat_natCast]
  have hsplit : 2 ^ F.prec = 2 ^ L * 2 ^ (F.prec - L) := by rw [← Nat.pow_add]; congr 1; omega
  have hsplit1 : 2 ^ (F.prec - 1) = 2 ^ (L - 1) * 2 ^ (F.prec - L) := by rw [← Nat.pow_add]; congr 1; omega
  have hP := p2pos (F.prec - L)
  have hMlt : a * 2 ^ (F.prec - L) < 2 ^ F.prec := by rw [hsplit]; exact Nat.mul_lt_mul_of_pos_right hub hP
  have hMge : 2 ^ (F.prec - 1) ≤ a * 2 ^ (F.prec - L) := by rw [hsplit1]; exact Nat.mul_le_mul_right _ hlb
  have h2p : 2 ^ F.prec = 2 * 2 ^ (F.prec - 1) := by
    conv => lhs; rw [show F.prec = (F.prec - 1) + 1 by omega, Nat.pow_succ]
    omega
  rw [rneFloat_eq F f x hx0, sign_if, ha', hL, if_neg h1, hMt, if_neg (by omega), if_neg (by omega)]
  have hE : ((L : Int) - 1 - f + F.expBias).toNat < 2 ^ (F.nbits - F.prec) := by omega
  have := floatExact_encode F (by omega) (by omega) (decide (x < 0)) _ (a * 2 ^ (F.prec - L) - 2 ^ (F.prec - 1)) (by omega) hE
  rw [this, if_neg (by omega), if_pos (by omega)]
  congr 2
  · have e : a * 2 ^ (F.prec - L) - 2 ^ (F.prec - 1) + 2 ^ (F.prec - 1) = a * 2 ^ (F.prec - L) := by omega
    rw [e]
    have hc : ((a * 2 ^ (F.prec - L) : Nat) : Int) = (a : Int) * 2 ^ (F.prec - L) := by
      simp [Int.natCast_mul, Int.natCast_pow]
    unfold sgn
    by_cases hneg : x < 0
    · have hd : decide (x < 0) = true := by simpa using hneg
      have hx : x = -(a : Int) := by omega
      rw [hd, if_pos rfl, hc, hx, Int.neg_mul]
    · have hd : decide (x < 0) = false := by simpa using hneg
      have hx : x = (a : Int) := by omega
      rw [hd, if_neg (by simp), hc, hx]
  · omega

theorem cmpExactFloat_exact (f : Nat) (x : Int) (k : Nat) : cmpExactFloat f x (x * 2 ^ k) (-(k : Int) - f) = 0 := by
  unfold cmpExactFloat Layout.cmpInt
  simp only []
  by_cases hk : -(k : Int) - f + f ≥ 0
  · have hk0 : k = 0 := by omega
    subst hk0
    rw [if_pos hk]
    have e : (-((0 : Nat) : Int) - (f : Int) + f).toNat = 0 := by omega
    rw [e]
    simp
  · rw [if_neg hk]
    have e : (-(-(k : Int) - (f : Int) + f)).toNat = k := by omega
    rw [e]
    simp

/-! ## (1) fixed → float (`fixed_to_float!`, `fixed_to_float_lossy!`) -/

/-- `LossyFrom<Fixed> for f32 / f64` (every fixed-point type): the IEEE-754 round-to-nearest-even float of the value
(`rneFloat` is nearest / ties-to-even by `C05.rneFloat_is_nearest_even`) -/
theorem fixedToFloat_lossy (F : FloatFmt) (hF : F = f32 ∨ F = f64) (S : Layout) (hS : S.valid) (x : Int) (hx : inRange S x) :
    fixedToFloat S F x = rneFloat F S.f x :=
  toFloat_eq_rneFloat F hF S hS x hx

/-- `From<Fixed> for f32 / f64`: when the whole width of the source fits the significand (`n ≤ 24` resp. `53`, the rows of
`fixed_to_float!`: see `to_float_table_sound`) the conversion is exact: the result is a finite float denoting `x·2^k · 2^(−k−f) = x / 2^f` -/
theorem fixedToFloat_lossless (F : FloatFmt) (hF : F = f32 ∨ F = f64) (S : Layout) (hS : S.valid) (hw : S.n ≤ F.prec)
    (x : Int) (hx : inRange S x) :
    ∃ k : Nat, floatExact F (fixedToFloat S F x) = some (x * 2 ^ k, -(k : Int) - S.f) := by
  rw [fixedToFloat_lossy F hF S hS x hx]
  have hn8 := valid_ge8 hS
  have hf := hS.2
  have hfacts : 2 ≤ F.prec ∧ F.prec + 2 ≤ F.nbits ∧ F.prec ≤ 53 ∧ F.expMin ≤ -126 ∧ 127 ≤ F.expMax ∧
      floatExact F 0 = some (0, F.expMin - ((F.prec : Int) - 1)) ∧ F.expMin - ((F.prec : Int) - 1) ≤ -149 := by
    rcases hF with h | h <;> subst h <;> decide
  obtain ⟨hp, hpn, hp53, hmin, hmax, hz, hzq⟩ := hfacts
  by_cases hx0 : x = 0
  · subst hx0
    refine ⟨(-(F.expMin - ((F.prec : Int) - 1)) - S.f).toNat, ?_⟩
    have : rneFloat F S.f 0 = 0 := by simp [rneFloat]
    rw [this, hz, Int.zero_mul]
    congr 2
    omega
  · have haN := natAbs_lt_of_inRange S (by omega) x hx
    have hbN := bitLen_le haN
    have hb0 := bitLen_pos (by omega : 0 < x.natAbs)
    exact ⟨F.prec - bitLen x.natAbs, rneFloat_exact F hp hpn S.f x hx0 (by omega) (by omega) (by omega)⟩

/-- format-generic form of `fixedToFloat_lossless` (used for the `cfg(feature = "f16")` row `From<FixedI8/U8> for f16`): given that the
conversion is the nearest float, a source whose width fits the significand and whose values stay in the normal exponent range converts exactly -/
theorem fixedToFloat_lossless_of (F : FloatFmt) (S : Layout) (hS : S.valid) (x : Int) (hx : inRange S x)
    (hlossy : fixedToFloat S F x = rneFloat F S.f x)
    (hp : 2 ≤ F.prec) (hpn : F.prec + 2 ≤ F.nbits) (hw : S.n ≤ F.prec)
    (hmin : (S.n : Int) ≤ -F.expMin) (hmax : (S.n : Int) - 1 ≤ F.expMax)
    (hz : floatExact F 0 = some (0, F.expMin - ((F.prec : Int) - 1))) :
    ∃ k : Nat, floatExact F (fixedToFloat S F x) = some (x * 2 ^ k, -(k : Int) - S.f) := by
  rw [hlossy]
  have hn8 := valid_ge8 hS
  have hf := hS.2
  by_cases hx0 : x = 0
  · subst hx0
    refine ⟨(-(F.expMin - ((F.prec : Int) - 1)) - S.f).toNat, ?_⟩
    have : rneFloat F S.f 0 = 0 := by simp [rneFloat]
    rw [this, hz, Int.zero_mul]
    congr 2
    omega
  · have haN := natAbs_lt_of_inRange S (by omega) x hx
    have hbN := bitLen_le haN
    have hb0 := bitLen_pos (by omega : 0 < x.natAbs)
    exact ⟨F.prec - bitLen x.natAbs, rneFloat_exact F hp hpn S.f x hx0 (by omega) (by omega) (by omega)⟩

/-- format-generic form of `fcvt_from_answer` -/
theorem fcvt_from_answer_of (F : FloatFmt) (S : Layout) (x : Int)
    (hlossy : fixedToFloat S F x = rneFloat F S.f x)
    (hk : ∃ k : Nat, floatExact F (fixedToFloat S F x) = some (x * 2 ^ k, -(k : Int) - S.f)) :
    toString (fixedToFloat S F x) = specFixedToFloat true F S.f x := by
  obtain ⟨k, hk⟩ := hk
  rw [hlossy] at hk ⊢
  unfold specFixedToFloat floatIsExactly
  simp only [hk, cmpExactFloat_exact]
  simp

/-- the answers of `fcvt_lossy` / `fcvt_linto`: model = documented -/
theorem fcvt_lossy_answer (F : FloatFmt) (hF : F = f32 ∨ F = f64) (S : Layout) (hS : S.valid) (x : Int) (hx : inRange S x) :
    toString (lossyInto (fixedToFloat S F) x) = specFixedToFloat false F S.f x ∧
    toString (fixedToFloat S F x) = specFixedToFloat false F S.f x := by
  unfold lossyInto specFixedToFloat
  rw [fixedToFloat_lossy F hF S hS x hx]
  simp

/-- the answer of `fcvt_from`: model = documented (nearest float, and that float is the value itself) -/
theorem fcvt_from_answer (F : FloatFmt) (hF : F = f32 ∨ F = f64) (S : Layout) (hS : S.valid) (hw : S.n ≤ F.prec)
    (x : Int) (hx : inRange S x) :
    toString (fixedToFloat S F x) = specFixedToFloat true F S.f x := by
  obtain ⟨k, hk⟩ := fixedToFloat_lossless F hF S hS hw x hx
  rw [fixedToFloat_lossy F hF S hS x hx] at hk ⊢
  unfold specFixedToFloat floatIsExactly
  simp only [hk, cmpExactFloat_exact]
  simp

/-! ## (2) integer / `bool` → fixed (`int_to_fixed!`, `bool_to_fixed!`) -/

theorem mul_pow_lt (k : Int) (a f : Nat) (h : k < 2 ^ a) : k * 2 ^ f < 2 ^ (a + f) := by
  rw [pow_add']
  exact Int.mul_lt_mul_of_pos_right h (two_pow_pos f)

theorem neg_pow_le_mul (k : Int) (a f : Nat) (h : -(2 ^ a : Int) ≤ k) : -(2 ^ (a + f) : Int) ≤ k * 2 ^ f := by
  rw [pow_add']
  have := Int.mul_le_mul_of_nonneg_right h (Int.le_of_lt (two_pow_pos f))
  rw [Int.neg_mul] at this
  exact this

/-- `From<integer> for Fixed` / `From<bool> for Fixed` under the type-level bound (`sn` source bits — `1` for `bool` — fit the integer
bits of the destination, one more for unsigned → signed): the unchecked shift cannot fire its amount check, loses no bit, and the result
represents the integer exactly.  Both build profiles: value `k·2^f`, no panic, no debug flag. -/
theorem intToFixed_spec (ss : Bool) (sn : Nat) (hsn : 0 < sn) (D : Layout) (h : fromAdmissible (Layout.ofInt ss sn) D)
    (k : Int) (hk : inI ss sn k) :
    intToFixed D k = .ok (k * 2 ^ D.f) false ∧ inRange D (k * 2 ^ D.f) := by
  obtain ⟨ds, dn, df⟩ := D
  unfold fromAdmissible Layout.ofInt at h
  simp only [Nat.sub_zero] at h
  obtain ⟨_, h⟩ := h
  have hin : inRange ⟨ds, dn, df⟩ (k * 2 ^ df) ∧ df < dn := by
    unfold inRange
    simp only
    have hP := two_pow_pos df
    cases ss <;> cases ds <;> simp at h
    · rw [inU_iff] at *
      have h1 := mul_pow_lt k sn df hk.2
      have h2 := pow_le_pow (a := sn + df) (b := dn) (by omega)
      exact ⟨⟨Int.mul_nonneg hk.1 (Int.le_of_lt hP), by omega⟩, by omega⟩
    · rw [inU_iff] at hk
      rw [inS_iff]
      have h1 := mul_pow_lt k sn df hk.2
      have h2 := pow_le_pow (a := sn + df) (b := dn - 1) (by omega)
      have h0 : 0 ≤ k * 2 ^ df := Int.mul_nonneg hk.1 (Int.le_of_lt hP)
      have := two_pow_pos (dn - 1)
      exact ⟨⟨by omega, by omega⟩, by omega⟩
    · rw [inS_iff] at *
      have h1 := mul_pow_lt k (sn - 1) df hk.2
      have h3 := neg_pow_le_mul k (sn - 1) df hk.1
      have h2 := pow_le_pow (a := sn - 1 + df) (b := dn - 1) (by omega)
      exact ⟨⟨by omega, by omega⟩, by omega⟩
  obtain ⟨hin, hlt⟩ := hin
  refine ⟨?_, hin⟩
  unfold intToFixed ushl shlI
  simp only
  rw [Nat.mod_eq_of_lt hlt, wrapI_of_in (Nat.lt_of_le_of_lt (Nat.zero_le _) hlt) hin]
  simp
  omega

/-- same-width arm (`Fixed<U0>` from its own `Bits` type): the bits are the integer -/
theorem intToFixedSame_spec (si : Bool) (ni : Nat) (k : Int) (hk : inI si ni k) :
    intToFixedSame k = .ok (k * 2 ^ (⟨si, ni, 0⟩ : Layout).f) false ∧ inRange ⟨si, ni, 0⟩ (k * 2 ^ (⟨si, ni, 0⟩ : Layout).f) := by
  simp only [Int.pow_zero, Int.mul_one]
  exact ⟨rfl, hk⟩

theorem render_ok (p : Profile) (v : Int) : Outcome.render p (oInt (.ok v false)) = toString v := by
  cases p <;> simp [oInt, Outcome.map', Outcome.render, Val.render]

/-- the answers of `icvt_from`, `icvt_from_lossy`, `icvt_from_linto`, generic arm, in both profiles: model = documented -/
theorem icvt_from_answer (p : Profile) (ss : Bool) (sn : Nat) (hsn : 0 < sn) (D : Layout) (h : fromAdmissible (Layout.ofInt ss sn) D)
    (k : Int) (hk : inI ss sn k) :
    Outcome.render p (oInt (intToFixed D k)) = specIntToFixed D k ∧
    Outcome.render p (oInt (intToFixedLossy true D k)) = specIntToFixed D k ∧
    Outcome.render p (oInt (lossyInto (intToFixedLossy true D) k)) = specIntToFixed D k := by
  obtain ⟨h1, h2⟩ := intToFixed_spec ss sn hsn D h k hk
  unfold lossyInto intToFixedLossy specIntToFixed
  simp only [if_true, h1, render_ok, if_pos h2, and_self]

/-- … same-width arm -/
theorem icvt_from_same_answer (p : Profile) (si : Bool) (ni : Nat) (k : Int) (hk : inI si ni k) :
    Outcome.render p (oInt (intToFixedSame k)) = specIntToFixed ⟨si, ni, 0⟩ k ∧
    Outcome.render p (oInt (intToFixedLossy false ⟨si, ni, 0⟩ k)) = specIntToFixed ⟨si, ni, 0⟩ k ∧
    Outcome.render p (oInt (lossyInto (intToFixedLossy false ⟨si, ni, 0⟩) k)) = specIntToFixed ⟨si, ni, 0⟩ k := by
  obtain ⟨h1, h2⟩ := intToFixedSame_spec si ni k hk
  unfold lossyInto intToFixedLossy specIntToFixed
  simp only [Bool.false_eq_true, if_false, h1, render_ok, if_pos h2, and_self]

/-! ## (3) fixed → integer (`fixed_to_int!`, `fixed_to_int_lossy!`) -/

/-- `LossyFrom<Fixed> for integer` under the type-level bound: `to_num` cannot overflow (so its `debug_assert!` is silent) and returns
`⌊x / 2^f⌋`, the value with its fractional bits dropped; both profiles -/
theorem fixedToIntLossy_spec (S : Layout) (hS : S.valid) (di : Bool) (dn : Nat) (hdn : dn = 8 ∨ dn = 16 ∨ dn = 32 ∨ dn = 64 ∨ dn = 128)
    (h : lossyAdmissible S (Layout.ofInt di dn)) (x : Int) (hx : inRange S x) :
    fixedToIntLossy S di dn x = .ok (x / 2 ^ S.f) false ∧ inI di dn (x / 2 ^ S.f) := by
  have hv := ofInt_valid di hdn
  have h1 := lossyFrom_spec S _ hS hv h x hx
  have h2 := convExact_inRange S _ hS hv h x hx
  rw [convExact_toInt] at h1 h2
  exact ⟨h1, h2⟩

/-- `From<Fixed<U0>> for integer`: the bits are the integer, and they fit -/
theorem fixedToInt_spec (S : Layout) (hS : S.valid) (hf : S.f = 0) (di : Bool) (dn : Nat)
    (hdn : dn = 8 ∨ dn = 16 ∨ dn = 32 ∨ dn = 64 ∨ dn = 128) (h : lossyAdmissible S (Layout.ofInt di dn)) (x : Int) (hx : inRange S x) :
    fixedToInt x = .ok (x / 2 ^ S.f) false ∧ inI di dn (x / 2 ^ S.f) := by
  have h2 := (fixedToIntLossy_spec S hS di dn hdn h x hx).2
  rw [hf, Int.pow_zero, Int.ediv_one] at *
  exact ⟨rfl, h2⟩

/-- the answers of `icvt_into`, `icvt_lossy`, `icvt_linto` in both profiles: model = documented -/
theorem icvt_to_int_answer (p : Profile) (S : Layout) (hS : S.valid) (di : Bool) (dn : Nat)
    (hdn : dn = 8 ∨ dn = 16 ∨ dn = 32 ∨ dn = 64 ∨ dn = 128) (h : lossyAdmissible S (Layout.ofInt di dn)) (x : Int) (hx : inRange S x) :
    Outcome.render p (oInt (fixedToIntLossy S di dn x)) = specFixedToInt S di dn x ∧
    Outcome.render p (oInt (lossyInto (fixedToIntLossy S di dn) x)) = specFixedToInt S di dn x ∧
    (S.f = 0 → Outcome.render p (oInt (fixedToInt x)) = specFixedToInt S di dn x) := by
  obtain ⟨h1, h2⟩ := fixedToIntLossy_spec S hS di dn hdn h x hx
  unfold lossyInto specFixedToInt
  refine ⟨by rw [h1, render_ok, if_pos h2], by rw [h1, render_ok, if_pos h2], fun hf => ?_⟩
  rw [(fixedToInt_spec S hS hf di dn hdn h x hx).1, render_ok, if_pos h2]

/-! ## (4) `LossyInto` between fixed-point types, `Wrapping::from`, primitives -/

/-- `cvt_lossy_into` in both profiles: model = documented (the exact result, always representable) -/
theorem cvt_lossy_into_answer (p : Profile) (S D : Layout) (hS : S.valid) (hD : D.valid) (h : lossyAdmissible S D) (x : Int)
    (hx : inRange S x) :
    fixedToFixedLossy S D x = .ok (Layout.convExact S D x) false ∧ inRange D (Layout.convExact S D x) ∧
    Outcome.render p (oInt (lossyInto (fixedToFixedLossy S D) x)) = specFixedLossy S D x := by
  have h1 := lossyFrom_spec S D hS hD h x hx
  have h2 := convExact_inRange S D hS hD h x hx
  refine ⟨h1, h2, ?_⟩
  unfold lossyInto specFixedLossy fixedToFixedLossy
  rw [h1, render_ok, if_pos h2]

/-- `LossyInto` is `LossyFrom` with the arguments swapped (blanket impl) -/
theorem lossyInto_eq {α β : Type} (g : α → β) (x : α) : lossyInto g x = g x := rfl

/-- `Wrapping::from(x)` wraps the same bits -/
theorem wrappingFrom_eq (x : Int) : wrappingFrom x = x := rfl

/-- primitive integer → primitive integer rows: the value is unchanged -/
theorem primToPrim_eq (k : Int) : primToPrim k = k := rfl

/-- `LossyFrom<integer> for f32 / f64`: nearest-even float of the integer; exact when the integer type has at most `prec` bits
(the rows documented as lossless: see `int_to_float_table_sound`) -/
theorem intToFloat_spec (F : FloatFmt) (hF : F = f32 ∨ F = f64) (si : Bool) (ni : Nat)
    (hni : ni = 8 ∨ ni = 16 ∨ ni = 32 ∨ ni = 64 ∨ ni = 128) (k : Int) (hk : inI si ni k) :
    intToFloat si ni F k = rneFloat F 0 k ∧
    toString (lossyInto (intToFloat si ni F) k) = specFixedToFloat false F 0 k ∧
    (ni ≤ F.prec → (∃ j : Nat, floatExact F (intToFloat si ni F k) = some (k * 2 ^ j, -(j : Int) - (0 : Nat))) ∧
      toString (intToFloat si ni F k) = specFixedToFloat true F 0 k) := by
  have hv := ofInt_valid si hni
  have e : intToFloat si ni F k = fixedToFloat (Layout.ofInt si ni) F k := rfl
  refine ⟨?_, ?_, fun hw => ⟨?_, ?_⟩⟩
  · rw [e]; exact fixedToFloat_lossy F hF _ hv k hk
  · rw [lossyInto_eq, e]; exact (fcvt_lossy_answer F hF _ hv k hk).2
  · rw [e]; exact fixedToFloat_lossless F hF _ hv hw k hk
  · rw [e]; exact fcvt_from_answer F hF _ hv hw k hk

/-! ## (5) the type-level bounds of `convert.rs`, regenerated from the source on every run (`Generated.*Impls`) -/

/-- signedness and the number of bits every Rust target guarantees for a primitive integer type (`usize` / `isize`: 16; `bool`: the
`U1` of its where-clause) -/
def primBits : String → Option (Bool × Nat)
  | "i8" => some (true, 8) | "i16" => some (true, 16) | "i32" => some (true, 32) | "i64" => some (true, 64) | "i128" => some (true, 128)
  | "u8" => some (false, 8) | "u16" => some (false, 16) | "u32" => some (false, 32) | "u64" => some (false, 64) | "u128" => some (false, 128)
  | "isize" => some (true, 16) | "usize" => some (false, 16) | "bool" => some (false, 1)
  | _ => none

def floatOf : String → Option FloatFmt
  | "f16" => some ⟨16, 11⟩ | "bf16" => some ⟨16, 8⟩ | "f32" => some f32 | "f64" => some f64 | _ => none

/-- an integer → fixed row is sound when the recorded source type has the recorded signedness and width and the constant of its
clause is the destination width (same signedness) or the width minus the sign bit (unsigned → signed); the `U0`-only rows are the
same-signedness same-width pairs; signed → unsigned is never offered -/
def fromIntSound : String × String × Bool × Nat × Bool × Nat × Bool × Nat → Bool
  | (tr, nm, ss, sn, ds, dn, g, c) =>
    (tr == "From" || tr == "LossyFrom") && primBits nm == some (ss, sn) && nm != "isize" && nm != "usize" &&
    (if g then (if ss == ds then c == dn else (!ss && ds && c + 1 == dn)) else (ss == ds && sn == dn))

theorem from_int_table_sound : Generated.fromIntImpls.all fromIntSound = true := by decide

/-- complete: (10 widening pairs × 3 sign combinations + 5 same-width pairs × 2 + 5 × 2 `bool` rows) for each trait; and every
`LossyFrom` row (whose body is `src.into()`) has its `From` row -/
theorem from_int_table_counts :
    (Generated.fromIntImpls.filter (·.1 == "From")).length = 50 ∧ (Generated.fromIntImpls.filter (·.1 == "LossyFrom")).length = 50 ∧
    (Generated.fromIntImpls.all fun r => r.1 == "From" || Generated.fromIntImpls.contains ("From", r.2)) = true := by decide

/-- what soundness of a generic row means: whenever its where-clauses hold for a concrete `FracDst`, the pair is admissible in the
sense of `intToFixed_spec` (so the conversion is exact and silent) -/
theorem fromIntSound_admissible (tr nm : String) (ss : Bool) (sn : Nat) (ds : Bool) (dn c : Nat)
    (h : fromIntSound (tr, nm, ss, sn, ds, dn, true, c) = true) (f : Nat) (hf : f ≤ c) (hcl : sn ≤ c - f) :
    fromAdmissible (Layout.ofInt ss sn) ⟨ds, dn, f⟩ ∧ primBits nm = some (ss, sn) := by
  unfold fromIntSound at h
  simp only [Bool.and_eq_true, Bool.or_eq_true, beq_iff_eq, if_true] at h
  obtain ⟨⟨⟨⟨_, hp⟩, _⟩, _⟩, hb⟩ := h
  refine ⟨?_, hp⟩
  unfold fromAdmissible Layout.ofInt
  cases ss <;> cases ds <;> simp_all <;> omega

/-- … and of a `U0`-only row: the destination is the zero-fraction layout of the source type itself -/
theorem fromIntSound_same (tr nm : String) (ss : Bool) (sn : Nat) (ds : Bool) (dn c : Nat)
    (h : fromIntSound (tr, nm, ss, sn, ds, dn, false, c) = true) :
    (⟨ds, dn, 0⟩ : Layout) = ⟨ss, sn, 0⟩ ∧ primBits nm = some (ss, sn) := by
  unfold fromIntSound at h
  simp only [Bool.and_eq_true, Bool.or_eq_true, beq_iff_eq, Bool.false_eq_true, if_false] at h
  obtain ⟨⟨⟨⟨_, hp⟩, _⟩, _⟩, hs, hn⟩ := h
  exact ⟨by rw [hs, hn], hp⟩

/-- the lookup used by the driver's model finds only sound rows whose clauses hold: the generic arm is answered only for admissible
pairs, the same-width arm only for the type's own zero-fraction layout -/
theorem findFromInt_sound (tr ity : String) (D : Layout) (g : Bool) (h : findFromInt tr ity D = some g) :
    ∃ ss sn, primBits ity = some (ss, sn) ∧
      (g = true → fromAdmissible (Layout.ofInt ss sn) D) ∧ (g = false → D = ⟨ss, sn, 0⟩) := by
  unfold findFromInt at h
  cases hfind : Generated.fromIntImpls.find? _ with
  | none => rw [hfind] at h; cases h
  | some r =>
    rw [hfind] at h
    have hmem := List.mem_of_find?_eq_some hfind
    have hpred := List.find?_some hfind
    have hsound := List.all_eq_true.mp from_int_table_sound r hmem
    obtain ⟨t, nm, ss, sn, ds, dn, g', c⟩ := r
    simp only [Option.map_some, Option.some.injEq] at h
    subst h
    simp only [Bool.and_eq_true, beq_iff_eq] at hpred
    obtain ⟨⟨⟨⟨_, hnm⟩, hds⟩, hdn⟩, hcl⟩ := hpred
    obtain ⟨dsg, dnn, df⟩ := D
    simp only at hds hdn hcl
    subst hnm hds hdn
    refine ⟨ss, sn, ?_⟩
    cases g'
    · obtain ⟨h1, h2⟩ := fromIntSound_same _ _ _ _ _ _ _ hsound
      simp only [Bool.false_eq_true, if_false, beq_iff_eq] at hcl
      subst hcl
      refine ⟨h2, ?_, fun _ => h1⟩
      intro hc; cases hc
    · simp only [if_true, Bool.and_eq_true, decide_eq_true_eq] at hcl
      obtain ⟨h1, h2⟩ := fromIntSound_admissible _ _ _ _ _ _ _ hsound df hcl.1 hcl.2
      refine ⟨h2, fun _ => h1, ?_⟩
      intro hc; cases hc

/-- a fixed → integer row is sound when the destination type has the recorded signedness and, with `w` the number of bits the
destination is guaranteed to have, the constant of the clause is at most `w` (same signedness) resp. `w − 1` (unsigned → signed);
the `U0`-only rows (`From`) carry no clause: there the source width itself must satisfy the bound -/
def toIntSound : String × Bool × Nat × String × Bool × Bool × Nat → Bool
  | (tr, ss, sn, dnm, ds, g, c) =>
    match primBits dnm with
    | some (ds', w) => ds' == ds && dnm != "bool" &&
        (if g then tr == "LossyFrom" && (if ss == ds then decide (c ≤ w) else (!ss && ds && decide (c + 1 ≤ w)))
         else tr == "From" && (if ss == ds then decide (sn ≤ w) else (!ss && ds && decide (sn + 1 ≤ w))))
    | none => false

theorem to_int_table_sound : Generated.toIntImpls.all toIntSound = true := by decide

/-- complete: `From` for the 6 same-width/`usize` rows × 2 and the 11 `wider` rows × 3; `LossyFrom` for 5 sources × 6 destinations × 3 -/
theorem to_int_table_counts :
    (Generated.toIntImpls.filter (·.1 == "From")).length = 45 ∧ (Generated.toIntImpls.filter (·.1 == "LossyFrom")).length = 90 := by decide

/-- what soundness of a fixed → integer row means: when its clause holds for a concrete `FracSrc` (resp. `FracSrc = 0` for the `U0`
rows), the pair (source layout, destination integer of any actual width `W ≥` the guaranteed one) is admissible for
`fixedToIntLossy_spec` / `fixedToInt_spec` -/
theorem toIntSound_admissible (tr : String) (ss : Bool) (sn : Nat) (dnm : String) (ds g : Bool) (c : Nat)
    (h : toIntSound (tr, ss, sn, dnm, ds, g, c) = true) (f : Nat) (hf : f ≤ sn) (hcl : if g then sn - f ≤ c else f = 0) :
    ∃ w, primBits dnm = some (ds, w) ∧ ∀ W, w ≤ W → lossyAdmissible ⟨ss, sn, f⟩ (Layout.ofInt ds W) := by
  cases hp : primBits dnm with
  | none => simp [toIntSound, hp] at h
  | some pw =>
    obtain ⟨ds', w⟩ := pw
    simp only [toIntSound, hp, Bool.and_eq_true, beq_iff_eq] at h
    obtain ⟨⟨hds, _⟩, hb⟩ := h
    subst hds
    refine ⟨w, rfl, fun W hW => ?_⟩
    unfold lossyAdmissible Layout.ofInt
    cases g <;> cases ss <;> cases ds' <;> simp_all <;> omega

theorem hasToInt_sound (tr : String) (S : Layout) (ity : String) (h : hasToInt tr S ity = true) :
    ∃ ds w, primBits ity = some (ds, w) ∧ (tr = "From" → S.f = 0) ∧ ∀ W, w ≤ W → lossyAdmissible S (Layout.ofInt ds W) := by
  unfold hasToInt at h
  obtain ⟨r, hmem, hpred⟩ := List.any_eq_true.mp h
  have hsound := List.all_eq_true.mp to_int_table_sound r hmem
  obtain ⟨t, ss, sn, dnm, ds, g, c⟩ := r
  obtain ⟨sg, n, f⟩ := S
  simp only [Bool.and_eq_true, beq_iff_eq] at hpred
  obtain ⟨⟨⟨⟨ht, hss⟩, hsn⟩, hd⟩, hcl⟩ := hpred
  subst ht hss hsn hd
  have hfn : f ≤ sn := by
    cases g
    · simp only [Bool.false_eq_true, if_false, beq_iff_eq] at hcl; omega
    · simp only [if_true, Bool.and_eq_true, decide_eq_true_eq] at hcl; exact hcl.1
  have hc2 : if g then sn - f ≤ c else f = 0 := by
    cases g
    · simpa using hcl
    · simp only [if_true, Bool.and_eq_true, decide_eq_true_eq] at hcl; simpa using hcl.2
  obtain ⟨w, hw, hadm⟩ := toIntSound_admissible _ _ _ _ _ _ _ hsound f hfn hc2
  refine ⟨ds, w, hw, fun hfrom => ?_, hadm⟩
  subst hfrom
  cases g
  · simpa using hcl
  · simp [toIntSound, hw] at hsound

/-- a fixed → float row is sound when it is a `LossyFrom` row (any source) or a `From` row whose whole source width fits the
significand and whose values stay in the normal exponent range of the destination format -/
def toFloatSound : String × Bool × Nat × String × Bool → Bool
  | (tr, _, sn, fl, _) =>
    match floatOf fl with
    | some F => tr == "LossyFrom" || (tr == "From" && decide (sn ≤ F.prec) && decide ((sn : Int) ≤ -F.expMin) && decide ((sn : Int) - 1 ≤ F.expMax))
    | none => false

theorem to_float_table_sound : Generated.toFloatImpls.all toFloatSound = true := by decide

/-- complete without the `f16` feature: `From` for 8/16-bit sources → `f32` and 8/16/32-bit sources → `f64`, `LossyFrom` for all ten
families × {`f32`, `f64`} -/
theorem to_float_table_counts :
    (Generated.toFloatImpls.filter fun r => r.1 == "From" && !r.2.2.2.2).length = 10 ∧
    (Generated.toFloatImpls.filter fun r => r.1 == "LossyFrom" && !r.2.2.2.2).length = 20 := by decide

theorem hasToFloat_sound (S : Layout) (fty : String) (h : hasToFloat "From" S fty = true) :
    ∃ F, floatOf fty = some F ∧ S.n ≤ F.prec := by
  unfold hasToFloat at h
  obtain ⟨r, hmem, hpred⟩ := List.any_eq_true.mp h
  have hsound := List.all_eq_true.mp to_float_table_sound r hmem
  obtain ⟨t, ss, sn, fl, cfg⟩ := r
  simp only [Bool.and_eq_true, beq_iff_eq] at hpred
  obtain ⟨⟨⟨⟨⟨ht, _⟩, hsn⟩, hfl⟩, _⟩, _⟩ := hpred
  subst ht hsn hfl
  cases hF : floatOf fl with
  | none => simp [toFloatSound, hF] at hsound
  | some F =>
    simp [toFloatSound, hF] at hsound
    exact ⟨F, rfl, hsound.1.1⟩

/-- `hasToFloat_sound` with the exponent-range part of `toFloatSound` kept -/
theorem hasToFloat_sound' (S : Layout) (fty : String) (h : hasToFloat "From" S fty = true) :
    ∃ F, floatOf fty = some F ∧ S.n ≤ F.prec ∧ (S.n : Int) ≤ -F.expMin ∧ (S.n : Int) - 1 ≤ F.expMax := by
  unfold hasToFloat at h
  obtain ⟨r, hmem, hpred⟩ := List.any_eq_true.mp h
  have hsound := List.all_eq_true.mp to_float_table_sound r hmem
  obtain ⟨t, ss, sn, fl, cfg⟩ := r
  simp only [Bool.and_eq_true, beq_iff_eq] at hpred
  obtain ⟨⟨⟨⟨⟨ht, _⟩, hsn⟩, hfl⟩, _⟩, _⟩ := hpred
  subst ht hsn hfl
  cases hF : floatOf fl with
  | none => simp [toFloatSound, hF] at hsound
  | some F =>
    simp [toFloatSound, hF] at hsound
    exact ⟨F, rfl, hsound.1.1, hsound.1.2, hsound.2⟩

/-- an integer → float row documented as lossless is sound when the integer type has a fixed width that fits the significand
(`usize` / `isize` may be wider than any guarantee, so they must be documented as lossy) -/
def intToFloatSound : String × String × Bool × Bool → Bool
  | (it, fl, ll, _) =>
    match primBits it, floatOf fl with
    | some (_, w), some F => it != "bool" && (!ll || (it != "usize" && it != "isize" && decide (w ≤ F.prec)))
    | _, _ => false

theorem int_to_float_table_sound : Generated.intToFloatImpls.all intToFloatSound = true := by decide

/-- a primitive → primitive row: `id` rows are reflexive; `into` rows between integers need the source range inside the destination's
guaranteed range (a `usize` / `isize` source only to itself); `into` rows between floats need the precision, the largest exponent and the smallest (subnormal) quantum of the source to be covered;
the explicit rows (`as`, `from_f32`, …) are documented as rounding and carry no obligation -/
def primLossySound : String × String × String × Bool → Bool
  | (src, dst, how, _) =>
    if how == "id" then src == dst
    else if how == "into" then
      match primBits src, primBits dst, floatOf src, floatOf dst with
      | some (ss, ws), some (ds, wd), _, _ =>
          src != "usize" && src != "isize" && dst != "bool" && (if ss == ds then decide (ws ≤ wd) else (!ss && ds && decide (ws + 1 ≤ wd)))
      | _, _, some Fs, some Fd => decide (Fs.prec ≤ Fd.prec) && decide (Fd.expMin - ((Fd.prec - 1 : Nat) : Int) ≤ Fs.expMin - ((Fs.prec - 1 : Nat) : Int)) && decide (Fs.expMax ≤ Fd.expMax)
      | _, _, _, _ => false
    else true

theorem prim_lossy_table_sound : Generated.primLossyImpls.all primLossySound = true := by decide

/-! ## (6) per-request statements: what the driver's model answers for an op is the documented answer -/

theorem primBits_pos (ity : String) (ss : Bool) (sn : Nat) (h : primBits ity = some (ss, sn)) : 0 < sn := by
  unfold primBits at h
  split at h <;> simp at h <;> omega

/-- the driver's width table (`usize` / `isize` = 64 on the test target) against the guaranteed widths -/
theorem intTy_primBits (ity : String) (ds : Bool) (w : Nat) (di : Bool) (dn : Nat) (h1 : primBits ity = some (ds, w))
    (h2 : DriverConv.intTy ity = some (di, dn)) (hb : ity ≠ "bool") :
    di = ds ∧ w ≤ dn ∧ (dn = 8 ∨ dn = 16 ∨ dn = 32 ∨ dn = 64 ∨ dn = 128) := by
  unfold primBits at h1
  split at h1 <;> simp [DriverConv.intTy] at h1 h2 hb <;> (obtain ⟨rfl, rfl⟩ := h1; obtain ⟨rfl, rfl⟩ := h2; simp)

/-- `icvt_from` / `icvt_from_lossy` / `icvt_from_linto`: whenever the lookup finds an impl, the call returns the representation of
the integer in both profiles (no panic, no debug flag), which is the documented answer -/
theorem icvt_from_row (p : Profile) (tr ity : String) (D : Layout) (g : Bool) (h : findFromInt tr ity D = some g)
    (ss : Bool) (sn : Nat) (hp : primBits ity = some (ss, sn)) (k : Int) (hk : inI ss sn k) :
    intToFixedLossy g D k = .ok (k * 2 ^ D.f) false ∧ inRange D (k * 2 ^ D.f) ∧
    Outcome.render p (oInt (intToFixedLossy g D k)) = specIntToFixed D k ∧
    Outcome.render p (oInt (lossyInto (intToFixedLossy g D) k)) = specIntToFixed D k := by
  obtain ⟨ss', sn', hp', hg, hs⟩ := findFromInt_sound tr ity D g h
  rw [hp] at hp'
  simp only [Option.some.injEq, Prod.mk.injEq] at hp'
  obtain ⟨h1, h2⟩ := hp'
  subst h1 h2
  cases g
  · rw [hs rfl]
    obtain ⟨a, b⟩ := intToFixedSame_spec ss sn k hk
    obtain ⟨_, c, d⟩ := icvt_from_same_answer p ss sn k hk
    exact ⟨a, b, c, d⟩
  · obtain ⟨a, b⟩ := intToFixed_spec ss sn (primBits_pos ity ss sn hp) D (hg rfl) k hk
    obtain ⟨_, c, d⟩ := icvt_from_answer p ss sn (primBits_pos ity ss sn hp) D (hg rfl) k hk
    exact ⟨a, b, c, d⟩

/-- `icvt_into` / `icvt_lossy` / `icvt_linto`: whenever the lookup finds an impl, the call returns `⌊x / 2^f⌋` (`= x` for the `U0`
sources of `From`) in both profiles, which fits the integer type and is the documented answer -/
theorem icvt_to_int_row (p : Profile) (tr : String) (S : Layout) (hS : S.valid) (ity : String) (h : hasToInt tr S ity = true)
    (di : Bool) (dn : Nat) (hty : DriverConv.intTy ity = some (di, dn)) (x : Int) (hx : inRange S x) :
    fixedToIntLossy S di dn x = .ok (x / 2 ^ S.f) false ∧ inI di dn (x / 2 ^ S.f) ∧
    Outcome.render p (oInt (fixedToIntLossy S di dn x)) = specFixedToInt S di dn x ∧
    Outcome.render p (oInt (lossyInto (fixedToIntLossy S di dn) x)) = specFixedToInt S di dn x ∧
    (tr = "From" → S.f = 0 ∧ fixedToInt x = .ok (x / 2 ^ S.f) false ∧ Outcome.render p (oInt (fixedToInt x)) = specFixedToInt S di dn x) := by
  obtain ⟨ds, w, hw, hfrom, hadm⟩ := hasToInt_sound tr S ity h
  have hb : ity ≠ "bool" := by
    intro hb; subst hb
    unfold hasToInt at h
    obtain ⟨r, hmem, hpred⟩ := List.any_eq_true.mp h
    have hsound := List.all_eq_true.mp to_int_table_sound r hmem
    obtain ⟨t, ss, sn, dnm, ds, g, c⟩ := r
    simp only [Bool.and_eq_true, beq_iff_eq] at hpred
    obtain ⟨⟨⟨⟨_, _⟩, _⟩, hd⟩, _⟩ := hpred
    subst hd
    simp [toIntSound, primBits] at hsound
  obtain ⟨e1, e2, hdn⟩ := intTy_primBits ity ds w di dn hw hty hb
  subst e1
  have hl := hadm dn e2
  obtain ⟨a, b⟩ := fixedToIntLossy_spec S hS di dn hdn hl x hx
  obtain ⟨c, d, e⟩ := icvt_to_int_answer p S hS di dn hdn hl x hx
  exact ⟨a, b, c, d, fun ht => ⟨hfrom ht, (fixedToInt_spec S hS (hfrom ht) di dn hdn hl x hx).1, e (hfrom ht)⟩⟩

/-- `fcvt_from`: whenever the lookup finds a `From<Fixed> for f32 / f64` (or, feature `f16`, `for f16`) impl, the result denotes the source value exactly and is the
documented answer -/
theorem fcvt_from_row (S : Layout) (hS : S.valid) (fty : String) (h : hasToFloat "From" S fty = true) (F : FloatFmt)
    (hF : primFloat fty = some F) (x : Int) (hx : inRange S x) :
    (∃ k : Nat, floatExact F (fixedToFloat S F x) = some (x * 2 ^ k, -(k : Int) - S.f)) ∧
    toString (fixedToFloat S F x) = specFixedToFloat true F S.f x := by
  obtain ⟨F', hF', hw, hmn, hmx⟩ := hasToFloat_sound' S fty h
  have hFF : F' = F ∧ (F = f32 ∨ F = f64 ∨ F = f16 ∨ F = bf16) := by
    unfold primFloat at hF
    split at hF <;> simp [floatOf] at hF hF' <;> subst hF <;> subst hF' <;> (refine ⟨rfl, ?_⟩; simp)
  obtain ⟨e, hF2⟩ := hFF
  subst e
  have hlossy : fixedToFloat S F' x = rneFloat F' S.f x := by
    rcases hF2 with h | h | h | h
    · exact toFloat_eq_rneFloat F' (Or.inl h) S hS x hx
    · exact toFloat_eq_rneFloat F' (Or.inr h) S hS x hx
    · exact HalfPf.toFloat_eq_rneFloat F' (Or.inl h) S hS x hx
    · exact HalfPf.toFloat_eq_rneFloat F' (Or.inr h) S hS x hx
  have hfacts : 2 ≤ F'.prec ∧ F'.prec + 2 ≤ F'.nbits ∧ floatExact F' 0 = some (0, F'.expMin - ((F'.prec : Int) - 1)) := by
    rcases hF2 with h | h | h | h <;> subst h <;> decide
  have hk := fixedToFloat_lossless_of F' S hS x hx hlossy hfacts.1 hfacts.2.1 hw hmn hmx hfacts.2.2
  exact ⟨hk, fcvt_from_answer_of F' S x hlossy hk⟩

/-- `cvt_lossy_into`: whenever the lookup finds a `LossyFrom` impl between the two fixed-point types, the call returns the exact
conversion result in both profiles -/
theorem cvt_lossy_into_row (p : Profile) (S D : Layout) (hS : S.valid) (hD : D.valid) (h : hasFixed "LossyFrom" S D = true)
    (x : Int) (hx : inRange S x) :
    fixedToFixedLossy S D x = .ok (Layout.convExact S D x) false ∧ inRange D (Layout.convExact S D x) ∧
    Outcome.render p (oInt (lossyInto (fixedToFixedLossy S D) x)) = specFixedLossy S D x := by
  unfold hasFixed at h
  obtain ⟨r, hmem, hpred⟩ := List.any_eq_true.mp h
  have hsound := List.all_eq_true.mp C04.from_table_sound r hmem
  obtain ⟨t, ss, sn, ds, dn, leF, ib⟩ := r
  obtain ⟨s1, n1, f1⟩ := S
  obtain ⟨s2, n2, f2⟩ := D
  simp only [Bool.and_eq_true, beq_iff_eq, decide_eq_true_eq, Bool.or_eq_true, Bool.not_eq_true'] at hpred
  obtain ⟨⟨⟨⟨⟨⟨⟨⟨_, h1⟩, h2⟩, h3⟩, h4⟩, h5⟩, h6⟩, h7⟩, h8⟩ := hpred
  subst h1 h2 h3 h4
  have hadm := (C04.implSound_admissible _ _ _ _ _ _ _ hsound f1 f2 h6 h7
    (fun hl => by rcases h5 with h5 | h5; · rw [hl] at h5; cases h5
                  · exact h5) h8).1
  exact cvt_lossy_into_answer p _ _ hS hD hadm x hx

end Sfx.ExtFromPf

/-- non-vacuity: lookups succeed on admissible pairs and fail just beyond the bound -/
example : Sfx.ExtFrom.findFromInt "From" "u8" ⟨true, 32, 23⟩ = some true ∧ Sfx.ExtFrom.findFromInt "From" "u8" ⟨true, 32, 24⟩ = none ∧
    Sfx.ExtFrom.findFromInt "LossyFrom" "i128" ⟨true, 128, 0⟩ = some false ∧ Sfx.ExtFrom.findFromInt "From" "i8" ⟨false, 128, 0⟩ = none ∧
    Sfx.ExtFrom.findFromInt "From" "bool" ⟨true, 8, 6⟩ = some true ∧ Sfx.ExtFrom.findFromInt "From" "bool" ⟨true, 8, 7⟩ = none ∧
    Sfx.ExtFrom.hasToInt "LossyFrom" ⟨false, 32, 16⟩ "usize" = true ∧ Sfx.ExtFrom.hasToInt "LossyFrom" ⟨false, 32, 15⟩ "usize" = false ∧
    Sfx.ExtFrom.hasToInt "From" ⟨false, 8, 0⟩ "isize" = true ∧ Sfx.ExtFrom.hasToInt "From" ⟨false, 16, 0⟩ "isize" = false ∧
    Sfx.ExtFrom.hasToFloat "From" ⟨true, 16, 16⟩ "f32" = true ∧ Sfx.ExtFrom.hasToFloat "From" ⟨true, 32, 0⟩ "f32" = false := by decide

#print axioms Sfx.ExtFromPf.rneFloat_exact
#print axioms Sfx.ExtFromPf.fixedToFloat_lossy
#print axioms Sfx.ExtFromPf.fixedToFloat_lossless
#print axioms Sfx.ExtFromPf.fcvt_lossy_answer
#print axioms Sfx.ExtFromPf.fcvt_from_answer
#print axioms Sfx.ExtFromPf.intToFixed_spec
#print axioms Sfx.ExtFromPf.intToFixedSame_spec
#print axioms Sfx.ExtFromPf.icvt_from_answer
#print axioms Sfx.ExtFromPf.icvt_from_same_answer
#print axioms Sfx.ExtFromPf.fixedToIntLossy_spec
#print axioms Sfx.ExtFromPf.fixedToInt_spec
#print axioms Sfx.ExtFromPf.icvt_to_int_answer
#print axioms Sfx.ExtFromPf.cvt_lossy_into_answer
#print axioms Sfx.ExtFromPf.lossyInto_eq
#print axioms Sfx.ExtFromPf.wrappingFrom_eq
#print axioms Sfx.ExtFromPf.primToPrim_eq
#print axioms Sfx.ExtFromPf.intToFloat_spec
#print axioms Sfx.ExtFromPf.from_int_table_sound
#print axioms Sfx.ExtFromPf.from_int_table_counts
#print axioms Sfx.ExtFromPf.fromIntSound_admissible
#print axioms Sfx.ExtFromPf.findFromInt_sound
#print axioms Sfx.ExtFromPf.to_int_table_sound
#print axioms Sfx.ExtFromPf.to_int_table_counts
#print axioms Sfx.ExtFromPf.toIntSound_admissible
#print axioms Sfx.ExtFromPf.hasToInt_sound
#print axioms Sfx.ExtFromPf.to_float_table_sound
#print axioms Sfx.ExtFromPf.to_float_table_counts
#print axioms Sfx.ExtFromPf.hasToFloat_sound
#print axioms Sfx.ExtFromPf.int_to_float_table_sound
#print axioms Sfx.ExtFromPf.prim_lossy_table_sound
#print axioms Sfx.ExtFromPf.icvt_from_row
#print axioms Sfx.ExtFromPf.icvt_to_int_row
#print axioms Sfx.ExtFromPf.fcvt_from_row
#print axioms Sfx.ExtFromPf.cvt_lossy_into_row
