import SfxProofs.ToFloat
/-
  ToFloatSubnormal.lean — `from_to_float_helper` (model: `fromToFloatHelper`) when the result is SUBNORMAL (value below `2^EXP_MIN`),
  for a general float format: the code re-inserts the implicit one, shifts the 128-bit mantissa right by `lost_prec - 1` and rounds
  at the ordinary mantissa position; this equals the specification's `rneScaled |x| (prec - 1 - expMin - f)` (the value divided by the
  subnormal quantum, rounded to nearest even).  `f32` / `f64` / `bf16` reach this case only for a handful of 128-bit values (checked
  by evaluation in ToFloat.lean / HalfFloat.lean); `f16` (`expMin = -14`) reaches it for every layout with more than 14 fractional
  bits, hence the general statement.  (core Lean only)
-/
namespace Sfx.ToFloatPf

/-- rounding `a·2^g / 2^d` to nearest even, read off the bits of `a·2^g` around position `d`, is `rneScaled a (g - d)` -/
theorem rne_bits_scaled (a g d : Nat) (hd : 0 < d) :
    ((a * 2 ^ g / 2 ^ d + (if (decide (a * 2 ^ g / 2 ^ (d - 1) % 2 = 1) &&
        (decide (a * 2 ^ g % 2 ^ (d - 1) ≠ 0) || decide (a * 2 ^ g / 2 ^ d % 2 = 1))) then 1 else 0) : Nat) : Int)
      = rneScaled (a : Int) ((g : Int) - d) := by
  by_cases h : d ≤ g
  · obtain ⟨j, rfl⟩ : ∃ j, g = d + j := ⟨g - d, by omega⟩
    have q : a * 2 ^ (d + j) / 2 ^ d = a * 2 ^ j := mul_pow_div_pow a d j
    have m : a * 2 ^ (d + j) / 2 ^ (d - 1) % 2 = 0 := by
      rw [show d + j = (d - 1) + (j + 1) by omega, mul_pow_div_pow, Nat.pow_succ, ← Nat.mul_assoc, Nat.mul_mod_left]
    unfold rneScaled
    rw [if_pos (show ((d + j : Nat) : Int) - (d : Nat) ≥ 0 by omega)]
    have : (((d + j : Nat) : Int) - (d : Nat)).toNat = j := by omega
    rw [this, q]
    simp [m, Int.natCast_pow]
  · obtain ⟨k, rfl⟩ : ∃ k, d = g + k := ⟨d - g, by omega⟩
    have hk : 0 < k := by omega
    unfold rneScaled
    rw [if_neg (show ¬ ((g : Nat) : Int) - ((g + k : Nat) : Int) ≥ 0 by omega)]
    have : (-(((g : Nat) : Int) - ((g + k : Nat) : Int))).toNat = k := by omega
    rw [this, rneShift_nat a k hk]
    have q : a * 2 ^ g / 2 ^ (g + k) = a / 2 ^ k := mul_pow_div_pow' a g k
    have m : a * 2 ^ g / 2 ^ (g + k - 1) = a / 2 ^ (k - 1) := by
      rw [show g + k - 1 = g + (k - 1) by omega]; exact mul_pow_div_pow' a g (k - 1)
    have r : a * 2 ^ g % 2 ^ (g + k - 1) = a % 2 ^ (k - 1) * 2 ^ g := by
      rw [show g + k - 1 = g + (k - 1) by omega]; exact mul_pow_mod_pow a g (k - 1)
    have hz : (a % 2 ^ (k - 1) * 2 ^ g = 0) ↔ a % 2 ^ (k - 1) = 0 := by
      have := p2pos g
      rw [Nat.mul_eq_zero]; omega
    rw [q, m, r]
    simp only [ne_eq, hz]

/-- the shifted mantissa of the subnormal branch, below bit `N`: `((mant0 >> 1) | 2^127) >> (lp - 1)` is `a · 2^g` -/
theorem subnormal_mant (a N lp g : Nat) (ha : 0 < a) (hN : N ≤ 128) (haN : a < 2 ^ N) (hlp : 1 ≤ lp)
    (hg : N - bitLen a = (lp - 1) + g) (hstray : N = 128 ∨ N + lp ≤ 128) :
    ((a * 2 ^ (N - bitLen a + 1) % 2 ^ 128) / 2 + 2 ^ 127) / 2 ^ (lp - 1) % 2 ^ N = a * 2 ^ g := by
  have hb0 := bitLen_pos ha
  have hbN := bitLen_le haN
  have hlb := bitLen_lb ha
  have hub := bitLen_ub a
  have hT2 : a * 2 ^ (N - bitLen a) < 2 ^ N := by
    conv => rhs; rw [show N = bitLen a + (N - bitLen a) by omega, Nat.pow_add]
    exact Nat.mul_lt_mul_of_pos_right hub (p2pos _)
  have hT1 : 2 ^ (N - 1) ≤ a * 2 ^ (N - bitLen a) := by
    rw [show N - 1 = (bitLen a - 1) + (N - bitLen a) by omega, Nat.pow_add]
    exact Nat.mul_le_mul_right _ hlb
  have hdiv : a * 2 ^ (N - bitLen a) / 2 ^ (lp - 1) = a * 2 ^ g := by rw [hg]; exact mul_pow_div_pow a (lp - 1) g
  have hlt : a * 2 ^ g < 2 ^ N := by rw [← hdiv]; exact Nat.lt_of_le_of_lt (Nat.div_le_self _ _) hT2
  have h2T : a * 2 ^ (N - bitLen a + 1) = 2 * (a * 2 ^ (N - bitLen a)) := by rw [Nat.pow_succ]; ac_rfl
  have h128 : (2 : Nat) ^ 128 = 2 * 2 ^ 127 := by rw [show 128 = 127 + 1 from rfl, Nat.pow_succ, Nat.mul_comm]
  rw [h2T]
  generalize hT : a * 2 ^ (N - bitLen a) = T at *
  rcases hstray with h | h
  · subst h
    have e127 : (128 : Nat) - 1 = 127 := rfl
    rw [e127] at hT1
    rw [h128] at hT2 hlt ⊢
    generalize (2 : Nat) ^ 127 = P at *
    have hm : 2 * T % (2 * P) = 2 * T - 2 * P := by
      rw [Nat.mod_eq_sub_mod (by omega), Nat.mod_eq_of_lt (by omega)]
    rw [hm]
    have : (2 * T - 2 * P) / 2 + P = T := by omega
    rw [this, hdiv, Nat.mod_eq_of_lt hlt]
  · have hle : 2 ^ (N + 1) ≤ 2 ^ 128 := Nat.pow_le_pow_right (by decide) (by omega)
    have hN1 : 2 ^ (N + 1) = 2 * 2 ^ N := by rw [Nat.pow_succ]; omega
    have hm : 2 * T % 2 ^ 128 = 2 * T := Nat.mod_eq_of_lt (by omega)
    rw [hm, show 2 * T / 2 = T by omega]
    have hP : (2 : Nat) ^ 127 = 2 ^ (lp - 1) * (2 ^ N * 2 ^ (128 - lp - N)) := by
      rw [← Nat.pow_add, ← Nat.pow_add]; congr 1; omega
    rw [hP, Nat.add_mul_div_left _ _ (p2pos _), hdiv, Nat.add_mul_mod_self_left, Nat.mod_eq_of_lt hlt]

/-- closed form of the model when the result is subnormal -/
theorem fth_subnormal (F : FloatFmt) (neg : Bool) (a f ib : Nat) (ha : 0 < a) (hN : f + ib ≤ 128) (haN : a < 2 ^ (f + ib))
    (hp : 2 ≤ F.prec) (hpn : F.prec ≤ F.nbits) (hpN : F.prec ≤ f + ib) (hmin : F.expMin ≤ -1)
    (he : (bitLen a : Int) - 1 - f < F.expMin)
    (hstray : f + ib = 128 ∨ ((f + ib : Nat) : Int) + f + F.expMin ≤ 128) :
    fromToFloatHelper F neg a f ib =
      (if neg then F.signMask else 0) + (rneScaled (a : Int) ((F.prec : Int) - 1 - F.expMin - f)).toNat := by
  have hb0 := bitLen_pos ha
  have hbN := bitLen_le haN
  have hmax : F.expMax = 1 - F.expMin := by unfold FloatFmt.expMax FloatFmt.expMin; omega
  -- the naturals of the branch
  obtain ⟨lp, hlp⟩ : ∃ lp : Nat, (lp : Int) = F.expMin - ((bitLen a : Int) - 1 - f) := ⟨(F.expMin - ((bitLen a : Int) - 1 - f)).toNat, by omega⟩
  obtain ⟨g, hg⟩ : ∃ g : Nat, (g : Int) = (ib : Int) - F.expMin := ⟨((ib : Int) - F.expMin).toNat, by omega⟩
  have hlp1 : 1 ≤ lp := by omega
  have hgN : f + ib - bitLen a = (lp - 1) + g := by omega
  have hM := subnormal_mant a (f + ib) lp g ha hN haN hlp1 hgN (by omega)
  unfold fromToFloatHelper
  extract_lets fixBits bitsSign extraZeros lz signif mant0 exponent lostPrec midBit
  have hlz : lz = f + ib - bitLen a := by simp only [lz, extraZeros, fixBits]; omega
  have hsig : ¬ signif = 0 := by simp only [signif, hlz, fixBits]; omega
  have hexp : exponent = (bitLen a : Int) - 1 - f := by simp only [exponent, hlz]; omega
  have hmant : mant0 = a * 2 ^ (f + ib - bitLen a + 1) % 2 ^ 128 := by
    simp only [mant0, hlz]
    rw [Nat.mod_mul_mod, Nat.mul_assoc, ← Nat.pow_succ]
  have hlost : lostPrec = lp := by simp only [lostPrec, hexp]; omega
  rw [if_neg hsig, if_neg (by rw [hexp]; omega), if_pos (by rw [hexp]; omega), if_neg (by rw [hlost]; omega)]
  simp only [hmant, hlost, fixBits, bitsSign, midBit, extraZeros]
  -- the shifted mantissa
  generalize (a * 2 ^ (f + ib - bitLen a + 1) % 2 ^ 128 / 2 + 2 ^ 127) / 2 ^ (lp - 1) = mt at hM ⊢
  have hmid : 2 ^ 127 / 2 ^ (F.prec - 1 + (128 - (f + ib))) = 2 ^ (f + ib - F.prec) := by
    rw [Nat.pow_div (by omega) (by decide)]; congr 1; omega
  have hd : f + ib - (F.prec - 1) = (f + ib - F.prec) + 1 := by omega
  rw [hmid, ← Nat.pow_succ, if_pos (show f + ib ≥ F.prec - 1 by omega), mod_mod_pow _ _ _ (show F.prec - 1 ≤ F.nbits by omega), hd]
  rw [← mod_div_mod mt (f + ib) (f + ib - F.prec + 1) (F.prec - 1) (by omega),
    ← mod_div_mod2 mt (f + ib) (f + ib - F.prec) (by omega),
    ← mod_div_mod2 mt (f + ib) (f + ib - F.prec).succ (by omega),
    ← mod_mod_pow mt (f + ib) (f + ib - F.prec) (by omega), hM]
  have hK := rne_bits_scaled a g (f + ib - F.prec + 1) (by omega)
  rw [show ((g : Int) - ((f + ib - F.prec + 1 : Nat) : Int)) = (F.prec : Int) - 1 - F.expMin - f by omega] at hK
  rw [← hK]
  -- the field is not truncated: the value is below the smallest normal
  have hfield : a * 2 ^ g / 2 ^ (f + ib - F.prec + 1) < 2 ^ (F.prec - 1) := by
    rw [Nat.div_lt_iff_lt_mul (p2pos _), ← Nat.pow_add]
    have hub := bitLen_ub a
    have : a * 2 ^ g < 2 ^ (bitLen a + g) := by rw [Nat.pow_add]; exact Nat.mul_lt_mul_of_pos_right hub (p2pos _)
    exact Nat.lt_of_lt_of_le this (Nat.pow_le_pow_right (by decide) (by omega))
  rw [Nat.mod_eq_of_lt hfield]
  simp only [Nat.add_one_sub_one, Nat.succ_eq_add_one, ge_iff_le, hpN, decide_true, Bool.true_and, Int.toNat_natCast]
  have hm2 : a * 2 ^ g / 2 ^ (f + ib - F.prec) % 2 = 0 ∨ a * 2 ^ g / 2 ^ (f + ib - F.prec) % 2 = 1 := by omega
  rcases hm2 with h | h
  · simp [h]
  · by_cases hr : a * 2 ^ g % 2 ^ (f + ib - F.prec) = 0 <;>
      by_cases hx : a * 2 ^ g / 2 ^ (f + ib - F.prec + 1) % 2 = 1 <;> simp [h, hr, hx]

/-- the model when the value is at or above `2^(EXP_MAX + 1)`: infinity with the sign -/
theorem fth_overflow (F : FloatFmt) (neg : Bool) (a f ib : Nat) (ha : 0 < a) (hN : f + ib ≤ 128) (haN : a < 2 ^ (f + ib))
    (he : (bitLen a : Int) - 1 - f > F.expMax) :
    fromToFloatHelper F neg a f ib = (if neg then F.signMask else 0) + F.expMask := by
  have hb0 := bitLen_pos ha
  have hbN := bitLen_le haN
  unfold fromToFloatHelper
  extract_lets fixBits bitsSign extraZeros lz signif mant0 exponent lostPrec midBit
  have hlz : lz = f + ib - bitLen a := by simp only [lz, extraZeros, fixBits]; omega
  have hsig : ¬ signif = 0 := by simp only [signif, hlz, fixBits]; omega
  have hexp : exponent = (bitLen a : Int) - 1 - f := by simp only [exponent, hlz]; omega
  rw [if_neg hsig, if_pos (show exponent > F.expMax by rw [hexp]; exact he)]
  simp only [bitsSign]
  omega

/-- general format: the model agrees with the specification when the result is subnormal -/
theorem toFloat_eq_rneFloat_subnormal (F : FloatFmt) (hp : 2 ≤ F.prec) (hpn : F.prec ≤ F.nbits) (hmin : F.expMin ≤ -1)
    (S : Layout) (hSn : 0 < S.n) (hS128 : S.n ≤ 128) (hSf : S.f ≤ S.n) (hpS : F.prec ≤ S.n)
    (hstray : S.n = 128 ∨ (S.n : Int) + S.f + F.expMin ≤ 128)
    (x : Int) (hx : inRange S x) (hx0 : x ≠ 0)
    (he : (bitLen x.natAbs : Int) - 1 - S.f < F.expMin) :
    S.toFloat F x = rneFloat F S.f x := by
  have ha : 0 < x.natAbs := by omega
  have hN : S.f + S.intBits = S.n := by unfold Layout.intBits; omega
  have haN := natAbs_lt_of_inRange S hSn x hx
  unfold Layout.toFloat
  rw [fth_subnormal F _ _ _ _ ha (by omega) (by rw [hN]; exact haN) hp hpn (by omega) hmin he (by rw [hN]; exact hstray)]
  unfold rneFloat
  rw [if_neg hx0]
  extract_lets sign mag e qexp m
  have he' : e < F.expMin := he
  have hq : -(S.f : Int) - qexp = (F.prec : Int) - 1 - F.expMin - S.f := by
    simp only [qexp, if_pos he']; omega
  have hm : m = (rneScaled (x.natAbs : Int) ((F.prec : Int) - 1 - F.expMin - S.f)).toNat := by
    simp only [m, hq, mag]
  have hsign : (if decide (x < 0) = true then F.signMask else 0) = sign := by simp [sign]
  rw [if_pos he', hsign, hm]

/-- general format: the model agrees with the specification when the value overflows the format -/
theorem toFloat_eq_rneFloat_overflow (F : FloatFmt) (hmm : F.expMin ≤ F.expMax)
    (S : Layout) (hSn : 0 < S.n) (hS128 : S.n ≤ 128) (hSf : S.f ≤ S.n)
    (x : Int) (hx : inRange S x) (hx0 : x ≠ 0)
    (he : (bitLen x.natAbs : Int) - 1 - S.f > F.expMax) :
    S.toFloat F x = rneFloat F S.f x := by
  have ha : 0 < x.natAbs := by omega
  have hN : S.f + S.intBits = S.n := by unfold Layout.intBits; omega
  have haN := natAbs_lt_of_inRange S hSn x hx
  unfold Layout.toFloat
  rw [fth_overflow F _ _ _ _ ha (by omega) (by rw [hN]; exact haN) he]
  unfold rneFloat
  rw [if_neg hx0]
  extract_lets sign mag e qexp m
  have he' : e > F.expMax := he
  have hsign : (if decide (x < 0) = true then F.signMask else 0) = sign := by simp [sign]
  rw [if_neg (show ¬ e < F.expMin by omega), hsign]
  by_cases hc : m = 2 ^ F.prec
  · rw [if_pos hc]
    simp only []
    rw [if_pos (show e + 1 > F.expMax by omega)]
  · rw [if_neg hc]
    simp only []
    rw [if_pos he']

/-- `half::f16` (`expMin = -14`, `expMax = 15`): all three regimes occur among the crate's layouts -/
theorem toFloat_eq_rneFloat_f16 (S : Layout) (hS : S.valid) (x : Int) (hx : inRange S x) :
    S.toFloat f16 x = rneFloat f16 S.f x := by
  obtain ⟨hn, hf⟩ := hS
  by_cases hx0 : x = 0
  · subst hx0; exact toFloat_zero f16 S (by omega) hf
  · have hSn : 0 < S.n := by omega
    have haN := natAbs_lt_of_inRange S hSn x hx
    have hbN := bitLen_le haN
    have hb0 := bitLen_pos (by omega : 0 < x.natAbs)
    have h1 : FloatFmt.expMin f16 = -14 := by decide
    have h2 : FloatFmt.expMax f16 = 15 := by decide
    have hprec : f16.prec = 11 := rfl
    by_cases he : (bitLen x.natAbs : Int) - 1 - S.f < -14
    · exact toFloat_eq_rneFloat_subnormal f16 (by decide) (by decide) (by rw [h1]; omega) S hSn (by omega) hf
        (by rw [hprec]; omega) (by rw [h1]; omega) x hx hx0 (by rw [h1]; exact he)
    · by_cases he2 : (bitLen x.natAbs : Int) - 1 - S.f ≤ 15
      · exact toFloat_eq_rneFloat_normal f16 (by decide) (by decide) (by decide) S hSn (by omega) hf x hx hx0
          (by rw [h1]; omega) (by rw [h2]; omega)
      · exact toFloat_eq_rneFloat_overflow f16 (by rw [h1, h2]; omega) S hSn (by omega) hf x hx hx0 (by rw [h2]; omega)

end Sfx.ToFloatPf

#print axioms Sfx.ToFloatPf.fth_subnormal
#print axioms Sfx.ToFloatPf.toFloat_eq_rneFloat_subnormal
#print axioms Sfx.ToFloatPf.toFloat_eq_rneFloat_overflow
#print axioms Sfx.ToFloatPf.toFloat_eq_rneFloat_f16

