import SfxModel.Display
/-
  FmtDecBase.lean — helpers for FmtDec.lean (C09, value of the decimal digits): `Outcome` plumbing, digit lists,
  array access, `mul10_spec`.  Core Lean only.
-/
namespace Sfx.FmtDecPf
open Display TextSpec

/-! ### digit lists -/

/-- value of a list of decimal digits, most significant first -/
def valD (ds : List Nat) : Nat := ds.foldl (fun a d => a * 10 + d) 0
/-- the `n` entries of `data` starting at `b` -/
def sliceL (data : Array Nat) (b n : Nat) : List Nat := (List.range n).map fun j => data.getD (b + j) 0

theorem getD_set (a : Array Nat) (i j v : Nat) :
    (a.setIfInBounds i v).getD j 0 = if i = j ∧ i < a.size then v else a.getD j 0 := by
  simp only [Array.getD_eq_getD_getElem?, Array.getElem?_setIfInBounds]
  by_cases h : i = j
  · subst h
    by_cases h2 : i < a.size
    · simp [h2]
    · simp [h2]
  · simp [h]

@[simp] theorem valD_nil : valD [] = 0 := rfl
theorem valD_snoc (l : List Nat) (d : Nat) : valD (l ++ [d]) = valD l * 10 + d := by
  simp [valD, List.foldl_append]
theorem foldl_start (l : List Nat) (a : Nat) :
    l.foldl (fun a d => a * 10 + d) a = a * 10 ^ l.length + valD l := by
  induction l generalizing a with
  | nil => simp [valD]
  | cons x xs ih =>
    simp only [List.foldl_cons, List.length_cons, valD]
    rw [ih, ih (0 * 10 + x), Nat.pow_succ]
    simp [Nat.add_mul, Nat.mul_assoc, Nat.add_assoc, Nat.mul_comm 10]
theorem valD_append (a b : List Nat) : valD (a ++ b) = valD a * 10 ^ b.length + valD b := by
  simp only [valD, List.foldl_append]
  exact foldl_start b _

@[simp] theorem sliceL_zero (data : Array Nat) (b : Nat) : sliceL data b 0 = [] := rfl
theorem sliceL_succ (data : Array Nat) (b n : Nat) :
    sliceL data b (n + 1) = sliceL data b n ++ [data.getD (b + n) 0] := by
  simp [sliceL, List.range_succ]
@[simp] theorem sliceL_length (data : Array Nat) (b n : Nat) : (sliceL data b n).length = n := by
  simp [sliceL]
theorem sliceL_congr (d1 d2 : Array Nat) (b n : Nat)
    (h : ∀ j, b ≤ j → j < b + n → d1.getD j 0 = d2.getD j 0) : sliceL d1 b n = sliceL d2 b n := by
  unfold sliceL
  apply List.map_congr_left
  intro j hj
  rw [List.mem_range] at hj
  exact h _ (by omega) (by omega)

/-! ### `mul10` -/

theorem mul10Widen_spec (w x : Nat) (hx : x < 2 ^ w) :
    mul10Widen w x = ((x * 10) % 2 ^ w, (x * 10) / 2 ^ w) := by
  unfold mul10Widen
  simp only [Nat.shiftRight_eq_div_pow]
  have h : x * 10 / 2 ^ w < 10 := by
    rw [Nat.div_lt_iff_lt_mul (Nat.two_pow_pos w)]
    have := Nat.two_pow_pos w
    omega
  rw [Nat.mod_eq_of_lt (a := x * 10 / 2 ^ w) (by omega)]

theorem shl_or64 (a b : Nat) (hb : b < 2 ^ 64) : (a <<< 64) ||| b = a * 2 ^ 64 + b := by
  rw [← Nat.shiftLeft_add_eq_or_of_lt hb, Nat.shiftLeft_eq]

theorem mul10U128_spec (x : Nat) (hx : x < 2 ^ 128) :
    mul10U128 x = ((x * 10) % 2 ^ 128, (x * 10) / 2 ^ 128) := by
  unfold mul10U128
  simp only [Nat.shiftRight_eq_div_pow, Nat.and_two_pow_sub_one_eq_mod]
  rw [shl_or64 _ _ (Nat.mod_lt _ (Nat.two_pow_pos 64))]
  have hxe : x = x / 2 ^ 64 * 2 ^ 64 + x % 2 ^ 64 := by omega
  have hh : x / 2 ^ 64 < 2 ^ 64 := by omega
  have hl : x % 2 ^ 64 < 2 ^ 64 := by omega
  generalize x / 2 ^ 64 = h at *
  generalize x % 2 ^ 64 = l at *
  subst hxe
  have e1 : h * 10 = h * 10 / 2 ^ 64 * 2 ^ 64 + h * 10 % 2 ^ 64 := by omega
  have e2 : l * 10 = l * 10 / 2 ^ 64 * 2 ^ 64 + l * 10 % 2 ^ 64 := by omega
  have b1 : h * 10 / 2 ^ 64 < 10 := by omega
  have b2 : l * 10 / 2 ^ 64 < 10 := by omega
  have b3 : h * 10 % 2 ^ 64 < 2 ^ 64 := by omega
  have b4 : l * 10 % 2 ^ 64 < 2 ^ 64 := by omega
  generalize h * 10 / 2 ^ 64 = hH at *
  generalize h * 10 % 2 ^ 64 = hL at *
  generalize l * 10 / 2 ^ 64 = lH at *
  generalize l * 10 % 2 ^ 64 = lL at *
  have e3 : (h * 2 ^ 64 + l) * 10 = hH * 2 ^ 128 + (hL + lH) * 2 ^ 64 + lL := by omega
  rw [e3]
  clear e3 e1 e2 hh hl hx
  simp only [Nat.reducePow] at *
  congr 1
  · omega
  · simp only [decide_eq_true_eq]; split <;> omega

/-- `Mul10::mul10_assign` (all widths, including the two-limb `u128` version): the new fraction and the digit -/
theorem mul10_spec (w x : Nat) (hx : x < 2 ^ w) : Display.mul10 w x = ((x * 10) % 2 ^ w, (x * 10) / 2 ^ w) := by
  unfold mul10
  split
  · next h => subst h; exact mul10U128_spec x hx
  · exact mul10Widen_spec w x hx

/-! ### `Outcome` plumbing -/

theorem ok_bind {α β : Type} (v : α) (d : Bool) (f : α → Outcome β) :
    (Outcome.ok v d >>= f) = (match f v with | .panic => .panic | .ok w d' => .ok w (d || d')) := rfl
theorem panic_bind {α β : Type} (f : α → Outcome β) : (Outcome.panic >>= f) = .panic := rfl
theorem ok_false_bind {α β : Type} (v : α) (f : α → Outcome β) : (Outcome.ok v false >>= f) = f v := by
  rw [ok_bind]; cases f v <;> simp
theorem pure_eq {α : Type} (v : α) : (pure v : Outcome α) = .ok v false := rfl

theorem bind_assoc' {α β γ : Type} (x : Outcome α) (f : α → Outcome β) (g : β → Outcome γ) :
    ((x >>= f) >>= g) = (x >>= fun a => f a >>= g) := by
  cases x with
  | panic => rfl
  | ok v d =>
    simp only [ok_bind]
    cases f v with
    | panic => rfl
    | ok u d' =>
      simp only [ok_bind]
      cases g u with
      | panic => rfl
      | ok t d'' => simp [Bool.or_assoc]

end Sfx.FmtDecPf
