import SfxProofs.Trig
/-
  TrigAccBase.lean — the integer facts of `SfxProofs/Trig.lean` restated WITHOUT `^` on `Int` (powers of two are the opaque
  `p2 k`, powers of four `p4 k`), so that the real-analysis files (which import Mathlib's reals and therefore cannot write core's
  `Int.pow`) can use them.  Everything here is core-only.
-/
attribute [-instance] Monoid.toNPow

namespace Sfx.TrigAccPf
open Sfx.Trans Sfx.TrigPf

/-- `2^k` as an `Int` (core `Int.pow`) -/
def p2 (k : Nat) : Int := 2 ^ k
/-- `4^k` as an `Int` (core `Int.pow`) -/
def p4 (k : Nat) : Int := 4 ^ k

theorem p2_def (k : Nat) : (2 : Int) ^ k = p2 k := rfl
theorem p2_zero : p2 0 = 1 := rfl
theorem p2_succ (k : Nat) : p2 (k + 1) = p2 k * 2 := Int.pow_succ ..
theorem p2_pos (k : Nat) : 0 < p2 k := two_pow_pos k
theorem p2_add (a b : Nat) : p2 (a + b) = p2 a * p2 b := pow_add' a b
theorem p4_zero : p4 0 = 1 := rfl
theorem p4_succ (k : Nat) : p4 (k + 1) = p4 k * 4 := Int.pow_succ ..

/-- the gain literal -/
def Gc : Int := Int.ofNat Generated.cordicGain

theorem Gc_nonneg : 0 ≤ Gc := Int.natCast_nonneg _

/-! ### layout constants -/

theorem U_p2 {D : Layout} (hD : Ok D) : p2 D.f = 8388608 * W D := U_eq hD
theorem f_le {D : Layout} (hD : Ok D) : D.f ≤ 119 := by have := hD.f119; have := hD.n128; omega
theorem p2_128 {D : Layout} (hD : Ok D) : p2 128 = p2 D.f * p2 (128 - D.f) := by
  have := f_le hD
  rw [← p2_add]; congr 1; omega

/-- `|a| ≤ 202` is representable (needed for the shifted operand of `cos`) -/
theorem inRange_202 {D : Layout} (hD : Ok D) (a : Int) (h1 : -(202 * p2 D.f) ≤ a) (h2 : a ≤ 202 * p2 D.f) : inRange D a := by
  have hU := U_p2 hD
  have hW := W_pos D
  exact inR hD (by omega) (by omega)

theorem inRange_255 {D : Layout} (hD : Ok D) (a : Int) (h1 : -(255 * p2 D.f) ≤ a) (h2 : a ≤ 255 * p2 D.f) : inRange D a := by
  have hU := U_p2 hD
  have hW := W_pos D
  exact inR hD (by omega) (by omega)

/-- the operand of the inner `sin` call of `cos` -/
theorem shift_bounds {D : Layout} (hD : Ok D) (a : Int) (h1 : -(200 * p2 D.f) ≤ a) (h2 : a ≤ 200 * p2 D.f) :
    -(202 * p2 D.f) ≤ a + H D ∧ a + H D ≤ 202 * p2 D.f ∧ inRange D (a + H D) := by
  have hU := U_p2 hD
  have hW := W_pos D
  have hH := H_eq D
  exact ⟨by omega, by omega, inR hD (by omega) (by omega)⟩

/-- the truncated quotient of `tan`, by its defining equation -/
theorem divSpec_cases (f : Nat) (s den : Int) (hden : 0 < den) :
    ∃ r : Int, s * p2 f = den * divSpec f s den + r ∧ -den < r ∧ r < den := by
  have h1 := Int.tmod_lt_of_pos (s * p2 f) hden
  have h2 := Int.lt_tmod_of_pos (s * p2 f) hden
  have h3 := Int.tmod_def (s * p2 f) den
  refine ⟨Int.tmod (s * p2 f) den, ?_, h2, h1⟩
  unfold divSpec
  show s * p2 f = den * Int.tdiv (s * p2 f) den + Int.tmod (s * p2 f) den
  omega

/-- `tan` in the shape used by the accuracy proof: the two inner results are `sinPure` values, and the call succeeds without any
check firing as soon as the denominator is positive and the truncated quotient is representable -/
theorem tan_shape {D : Layout} (hD : Ok D) (a : Int) (h1 : -(100 * p2 D.f) ≤ a) (h2 : a ≤ 100 * p2 D.f) :
    inRange D (2 * a) ∧ inRange D (2 * a + H D) ∧
    (0 < p2 D.f + sinPure D (2 * a + H D) →
      inRange D (divSpec D.f (sinPure D (2 * a)) (p2 D.f + sinPure D (2 * a + H D))) →
      ∃ it, it ≤ 50 ∧ Trans.run (Trans.tan D a) =
        .ok (some (divSpec D.f (sinPure D (2 * a)) (p2 D.f + sinPure D (2 * a + H D))), it) false) := by
  obtain ⟨hv, hs, hf, hi⟩ := hD
  have hD : Ok D := ⟨hv, hs, hf, hi⟩
  have hU := U_p2 hD
  have hW := W_pos D
  have hH := H_eq D
  have hr2 : inRange D (2 * a) := inR hD (by omega) (by omega)
  have hrh : inRange D (2 * a + H D) := inR hD (by omega) (by omega)
  refine ⟨hr2, hrh, fun hpos hin => ?_⟩
  obtain ⟨s, c, ds, dc, e1, e2, b1, b2, _, _, hok⟩ := tan_total_of D hv hs hf hi a h1 h2
  have f1 := (sin_total_exact D hv hs hf hi (2 * a) hr2).1
  have f2 := cos_total_exact D hv hs hf hi (2 * a) hrh
  rw [e1] at f1
  rw [e2] at f2
  injection f1 with g1 _
  injection g1 with g2 _
  injection g2 with g3
  injection f2 with k1 _
  injection k1 with k2 _
  injection k2 with k3
  rw [g3, k3] at hok
  unfold p2 at hpos hin ⊢
  exact ⟨ds + dc, by omega, hok (by omega) hin⟩

/-! ### the iteration -/

/-- one step, with the floor quotients described by their defining inequalities -/
theorem stepPure_cases (f i : Nat) (x y z : Int) :
    ∃ qx qy e σ : Int, qx * p2 i ≤ x ∧ x < qx * p2 i + p2 i ∧ qy * p2 i ≤ y ∧ y < qy * p2 i + p2 i ∧
      e * p2 (128 - f) ≤ angleOf i ∧ angleOf i < e * p2 (128 - f) + p2 (128 - f) ∧
      ((σ = 1 ∧ 0 ≤ z) ∨ (σ = -1 ∧ z < 0)) ∧ (i = 0 → qx = x ∧ qy = y) ∧
      stepPure f i x y z = (x - σ * qy, y + σ * qx, z - σ * e) := by
  obtain ⟨hx1, hx2⟩ := floor_facts x _ (two_pow_pos i)
  obtain ⟨hy1, hy2⟩ := floor_facts y _ (two_pow_pos i)
  obtain ⟨he1, he2⟩ := floor_facts (angleOf i) _ (two_pow_pos (128 - f))
  have h0 : i = 0 → x / 2 ^ i = x ∧ y / 2 ^ i = y := by
    intro h; subst h
    have : (2 : Int) ^ 0 = 1 := rfl
    rw [this, Int.ediv_one, Int.ediv_one]; exact ⟨rfl, rfl⟩
  by_cases hz : z < 0
  · refine ⟨x / 2 ^ i, y / 2 ^ i, angleOf i / 2 ^ (128 - f), -1, hx1, hx2, hy1, hy2, he1, he2, Or.inr ⟨rfl, hz⟩, h0, ?_⟩
    unfold stepPure
    rw [if_pos hz]
    refine Prod.ext ?_ (Prod.ext ?_ ?_) <;> simp only <;> omega
  · refine ⟨x / 2 ^ i, y / 2 ^ i, angleOf i / 2 ^ (128 - f), 1, hx1, hx2, hy1, hy2, he1, he2, Or.inl ⟨rfl, by omega⟩, h0, ?_⟩
    unfold stepPure
    rw [if_neg hz]
    refine Prod.ext ?_ (Prod.ext ?_ ?_) <;> simp only <;> omega

/-- induction principle over the plain-integer iteration -/
theorem state_ind (f : Nat) (Q : Nat → Int → Int → Int → Prop)
    (hstep : ∀ i x y z, i < 24 → Q i x y z →
      Q (i + 1) (stepPure f i x y z).1 (stepPure f i x y z).2.1 (stepPure f i x y z).2.2) :
    ∀ (k i : Nat) (x y z : Int), i + k ≤ 24 → Q i x y z →
      Q (i + k) (statePure f k i x y z).1 (statePure f k i x y z).2.1 (statePure f k i x y z).2.2
  | 0, _, _, _, _, _, h => h
  | k + 1, i, x, y, z, hik, h => by
    have h1 := hstep i x y z (by omega) h
    have ih := state_ind f Q hstep k (i + 1) _ _ _ (by omega) h1
    rw [show i + (k + 1) = i + 1 + k by omega]
    exact ih

/-- the start value of `x` -/
def x0 (D : Layout) : Int := Gc / p2 (128 - D.f)

theorem x0_floor (D : Layout) : x0 D * p2 (128 - D.f) ≤ Gc ∧ Gc < x0 D * p2 (128 - D.f) + p2 (128 - D.f) :=
  floor_facts Gc _ (two_pow_pos _)

theorem tailPure_state (D : Layout) (a2 : Int) : tailPure D a2 = (statePure D.f 24 0 (x0 D) 0 a2).2.1 := by
  unfold tailPure x0 Gc p2
  rw [cordicPure_eq_state]

/-! ### table facts -/

theorem angSum_peel (lo : Nat) : ∀ k, angSum lo (k + 1) = angleOf lo + angSum (lo + 1) k
  | 0 => by
    show angSum lo 0 + angleOf (lo + 0) = angleOf lo + angSum (lo + 1) 0
    show 0 + angleOf (lo + 0) = angleOf lo + 0
    rw [Nat.add_zero]; omega
  | k + 1 => by
    show angSum lo (k + 1) + angleOf (lo + (k + 1)) = angleOf lo + (angSum (lo + 1) k + angleOf (lo + 1 + k))
    rw [angSum_peel lo k, show lo + 1 + k = lo + (k + 1) by omega]
    omega

/-- the convergence budget on the `U0F128` scale: `Σ_{j ≥ i} A_j + A_23` -/
def tauI (i : Nat) : Int := angSum i (24 - i) + angleOf 23

theorem tauI_step (i : Nat) (hi : i < 24) : tauI i = angleOf i + tauI (i + 1) := by
  unfold tauI
  have h1 : 24 - i = (23 - i) + 1 := by omega
  have h2 : 24 - (i + 1) = 23 - i := by omega
  rw [h1, angSum_peel, h2]; omega

theorem tauI_conv (i : Nat) (hi : i < 24) : angleOf i ≤ tauI (i + 1) := by
  unfold tauI
  by_cases h : i < 23
  · have := table_convergence i h
    rw [show 24 - (i + 1) = 23 - i by omega]; exact this
  · have : i = 23 := by omega
    subst this
    show angleOf 23 ≤ 0 + angleOf 23
    omega

theorem tauI_24 : tauI 24 = angleOf 23 := by
  show 0 + angleOf 23 = angleOf 23
  omega

theorem tauI_0 : Trans.FRAC_PI_2 * p2 105 ≤ tauI 0 := by
  have := table_covers
  have h := angle_nonneg 23
  unfold tauI
  show _ ≤ angSum 0 24 + angleOf 23
  rw [p2_def] at this
  omega

theorem H_val : Trans.FRAC_PI_2 = 13176794 := rfl

theorem angle23_lt : angleOf 23 < p2 105 := angle_lt 23 (by decide)
theorem angle_lt_p2 (i : Nat) (hi : i < 24) : angleOf i < p2 (128 - i) := angle_lt i hi

theorem angle0_val : angleOf 0 = 267257146016241676546777306890156113920 := by decide +kernel

/-- Gregory's series on the `2^256` scale, in `p2` form -/
theorem atanSeries_succ (i k : Nat) :
    atanSeries i (k + 1) = atanSeries i k + (if k % 2 = 0 then 1 else -1) * (p2 (256 - i * (2 * k + 1)) / (2 * k + 1)) := rfl
theorem atanSeries_zero (i : Nat) : atanSeries i 0 = 0 := rfl

/-- the same with the floor quotient described by its defining inequalities -/
theorem atanSeries_step (i k : Nat) :
    ∃ q : Int, q * (2 * (k : Int) + 1) ≤ p2 (256 - i * (2 * k + 1)) ∧
      p2 (256 - i * (2 * k + 1)) < q * (2 * (k : Int) + 1) + (2 * (k : Int) + 1) ∧
      atanSeries i (k + 1) = atanSeries i k + (if k % 2 = 0 then 1 else -1) * q := by
  have hd : (0 : Int) < 2 * (k : Int) + 1 := by omega
  obtain ⟨h1, h2⟩ := floor_facts (p2 (256 - i * (2 * k + 1))) _ hd
  exact ⟨_, h1, h2, rfl⟩

theorem pinned_p2 (i : Nat) (h1 : 1 ≤ i) (h2 : i < 24) :
    angleOf i * p2 128 - atanSeries i 70 < p2 (202 - i) ∧ atanSeries i 70 - angleOf i * p2 128 < p2 (202 - i) :=
  table_entries_pinned i h1 h2

/-! ### gain facts -/

theorem gainNum_zero : gainNum 0 = 1 := rfl
theorem gainDen_zero : gainDen 0 = 1 := rfl
theorem gainNum_succ (i : Nat) : gainNum (i + 1) = gainNum i * (p4 i + 1) := rfl
theorem gainDen_succ (i : Nat) : gainDen (i + 1) = gainDen i * p4 i := rfl

theorem gain_fact_p2 :
    p2 256 * gainDen 24 ≤ Gc * Gc * gainNum 24 ∧ (Gc * Gc * gainNum 24 - p2 256 * gainDen 24) * p2 31 < p2 256 * gainDen 24 := by
  decide +kernel

/-- `K² = ∏ (1 + 4^-i) ≤ 2.71195 = 1.6468²` -/
theorem gain_sq_le : gainNum 24 * 100000 ≤ 271195 * gainDen 24 := by decide +kernel
theorem gainDen_pos : 0 < gainDen 24 := by decide +kernel

theorem Gc_val : Gc = 206637466073213388609029924831434375168 := by decide +kernel

end Sfx.TrigAccPf
