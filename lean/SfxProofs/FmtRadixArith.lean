import SfxProofs.FmtRadixWrite
/-
  FmtRadixArith.lean — arithmetic behind `fmt_radix2`: digit counts from used bits, `TextSpec.rneDiv` versus the
  rounding decision of `round_and_trim`, array slices as digit lists.
-/
namespace Sfx.FmtRadixPf
open Display TextSpec

theorem bitLen_ub' (a : Nat) : a < 2 ^ bitLen a := by
  unfold bitLen; split
  · subst_vars; decide
  · exact Nat.lt_log2_self

theorem bitLen_lb' {a : Nat} (ha : 0 < a) : 2 ^ (bitLen a - 1) ≤ a := by
  unfold bitLen; rw [if_neg (by omega)]
  simpa using Nat.log2_self_le (by omega : a ≠ 0)

theorem bitLen_le' {a N : Nat} (h : a < 2 ^ N) : bitLen a ≤ N := by
  unfold bitLen; split
  · omega
  · rename_i h0
    have := (Nat.log2_lt h0).2 h
    omega

/-- integer / fraction split of `abs` -/
theorem split_facts (w abs fracN : Nat) (hf : fracN ≤ w) (ha : abs < 2 ^ w) :
    abs * 2 ^ (w - fracN) = abs / 2 ^ fracN * 2 ^ w + abs % 2 ^ fracN * 2 ^ (w - fracN) ∧
    abs % 2 ^ fracN * 2 ^ (w - fracN) < 2 ^ w ∧ abs / 2 ^ fracN < 2 ^ (w - fracN) ∧
    2 ^ w = 2 ^ fracN * 2 ^ (w - fracN) := by
  have hs : 2 ^ w = 2 ^ fracN * 2 ^ (w - fracN) := by rw [← Nat.pow_add]; congr 1; omega
  have hD := pow_pos2 fracN
  have hE := pow_pos2 (w - fracN)
  refine ⟨?_, ?_, ?_, hs⟩
  · have := Nat.div_add_mod abs (2 ^ fracN)
    rw [hs]
    generalize abs / 2 ^ fracN = q at *
    generalize abs % 2 ^ fracN = m at *
    subst this; grind
  · rw [hs]; exact (Nat.mul_lt_mul_right hE).2 (Nat.mod_lt _ hD)
  · rw [Nat.div_lt_iff_lt_mul hD, Nat.mul_comm, ← hs]; exact ha

/-- number of integer digits: `r^(I-1) ≤ int < r^I` -/
theorem int_digits_facts (int db bound : Nat) (hdb : 0 < db) (hint : int < 2 ^ bound) :
    int < (2 ^ db) ^ ((bitLen int + db - 1) / db) ∧
    (0 < (bitLen int + db - 1) / db → (2 ^ db) ^ ((bitLen int + db - 1) / db - 1) ≤ int) ∧
    (bitLen int + db - 1) / db ≤ bound := by
  obtain ⟨h1, h2, h3⟩ := ceil_div (bitLen int) db hdb
  have hub := bitLen_ub' int
  have hle := bitLen_le' hint
  generalize (bitLen int + db - 1) / db = I at *
  refine ⟨?_, ?_, by omega⟩
  · rw [← Nat.pow_mul]
    exact Nat.lt_of_lt_of_le hub (Nat.pow_le_pow_right (by decide) h1)
  · intro hI
    have h2' := h2 hI
    have hpos : 0 < int := by
      apply Classical.byContradiction; intro h0
      have : int = 0 := by omega
      subst this; simp [bitLen] at h2'
    have hlb := bitLen_lb' hpos
    rw [← Nat.pow_mul]
    exact Nat.le_trans (Nat.pow_le_pow_right (by decide) (by omega)) hlb

/-- number of fraction digits `n0`: the fraction is exhausted after `n0` digits and not before -/
theorem frac_digits_facts (w F db fracN : Nat) (hdb : 0 < db) (hf : fracN ≤ w) (hF : F < 2 ^ w)
    (hdvd : 2 ^ (w - fracN) ∣ F) :
    2 ^ w ∣ F * (2 ^ db) ^ ((usedBitsLo w F + db - 1) / db) ∧
    (∀ j, j < (usedBitsLo w F + db - 1) / db → F * (2 ^ db) ^ j % 2 ^ w ≠ 0) ∧
    (usedBitsLo w F + db - 1) / db ≤ fracN ∧ 2 ^ (w - usedBitsLo w F) ∣ F := by
  obtain ⟨ht1, ht2, ht3, ht4⟩ := tzU_spec w F hF
  have hu : usedBitsLo w F ≤ fracN := by
    unfold usedBitsLo
    by_cases h0 : F = 0
    · rw [ht4 h0]; omega
    · apply Classical.byContradiction; intro hlt
      apply ht3 h0
      exact Nat.dvd_trans (Nat.pow_dvd_pow 2 (by omega)) hdvd
  obtain ⟨h1, h2, h3⟩ := ceil_div (usedBitsLo w F) db hdb
  generalize (usedBitsLo w F + db - 1) / db = n0 at *
  unfold usedBitsLo at *
  generalize trailingZerosU w F = t at *
  refine ⟨?_, ?_, by omega, ?_⟩
  · rw [← Nat.pow_mul]
    exact dvd_shift_of w F t (db * n0) ht2 (by omega)
  · intro j hj
    have hn0 : 0 < n0 := by omega
    have h2' := h2 hn0
    have hFne : F ≠ 0 := by
      intro h0; have := ht4 h0; omega
    have hjle : db * j ≤ db * (n0 - 1) := Nat.mul_le_mul_left db (by omega)
    rw [← Nat.pow_mul]
    intro hmod
    exact not_dvd_shift_of w F t (db * j) (ht3 hFne) (by omega) (Nat.dvd_of_mod_eq_zero hmod)
  · have : w - (w - t) = t := by omega
    rw [this]; exact ht2

theorem rneDiv_mul_right (a b c : Nat) (hc : 0 < c) : rneDiv (a * c) (b * c) = rneDiv a b := by
  unfold rneDiv
  simp only [Nat.mul_div_mul_right _ _ hc, Nat.mul_mod_mul_right]
  have e1 : (2 * (a % b * c) < b * c) = (2 * (a % b) < b) := by
    rw [← Nat.mul_assoc]; exact propext (Nat.mul_lt_mul_right hc)
  have e2 : (2 * (a % b * c) > b * c) = (2 * (a % b) > b) := by
    rw [← Nat.mul_assoc]; exact propext (Nat.mul_lt_mul_right hc)
  simp only [e1, e2]

theorem rneDiv_of_dvd (a b : Nat) (hb : 0 < b) (h : b ∣ a) : rneDiv a b = a / b := by
  unfold rneDiv
  have : a % b = 0 := Nat.mod_eq_zero_of_dvd h
  simp only [this]
  rw [if_pos (by omega)]

/-- the rounding decision of `round_and_trim` is round-half-even -/
theorem rneDiv_model (X H : Nat) :
    rneDiv X (2 * H) = X / (2 * H)
      + (if compare (X % (2 * H)) H = .gt ∨ (compare (X % (2 * H)) H = .eq ∧ X / (2 * H) % 2 = 1) then 1 else 0) := by
  unfold rneDiv
  simp only [Nat.compare_eq_gt, Nat.compare_eq_eq]
  generalize X % (2 * H) = rem
  generalize X / (2 * H) = q
  by_cases h1 : 2 * rem < 2 * H
  · rw [if_pos h1, if_neg (by omega)]; rfl
  · rw [if_neg h1]
    by_cases h2 : 2 * rem > 2 * H
    · rw [if_pos h2, if_pos (by omega)]
    · rw [if_neg h2]
      by_cases h3 : q % 2 = 0
      · rw [if_pos h3, if_neg (by omega)]; rfl
      · rw [if_neg h3, if_pos (by omega)]

theorem toList_slice (data : Array Nat) (b k : Nat) (h : b + k ≤ data.size) :
    (data.toList.drop b).take k = digs (g data) b k := by
  apply List.ext_getElem
  · simp [digs]; omega
  · intro i h1 h2
    simp [digs, g, Array.getD_eq_getD_getElem?]
    have : b + i < data.size := by simp [digs] at h2; omega
    simp [this]



/-- the digit string written by `write_int` / `write_frac`, rounded as `round_and_trim` does, is `rneDiv` -/
theorem round_value (w fracN abs int F R : Nat) (hw : 0 < w)
    (hY : abs * 2 ^ (w - fracN) = int * 2 ^ w + F) (hs : 2 ^ w = 2 ^ fracN * 2 ^ (w - fracN)) :
    int * R + F * R / 2 ^ w
      + (if compare (F * R % 2 ^ w) (msb w) = .gt ∨
            (compare (F * R % 2 ^ w) (msb w) = .eq ∧ (int * R + F * R / 2 ^ w) % 2 = 1) then 1 else 0)
      = rneDiv (abs * R) (2 ^ fracN) := by
  have hE := pow_pos2 (w - fracN)
  have hW := pow_pos2 w
  rw [← rneDiv_mul_right (abs * R) (2 ^ fracN) (2 ^ (w - fracN)) hE, ← hs]
  have hX : abs * R * 2 ^ (w - fracN) = F * R + int * R * 2 ^ w := by
    have : abs * R * 2 ^ (w - fracN) = abs * 2 ^ (w - fracN) * R := by grind
    rw [this, hY]; grind
  rw [hX]
  have hm : 2 ^ w = 2 * msb w := by
    unfold msb
    rw [Nat.mul_comm, ← Nat.pow_succ]; congr 1; omega
  have hdiv : (F * R + int * R * 2 ^ w) / 2 ^ w = int * R + F * R / 2 ^ w := by
    rw [Nat.add_mul_div_right _ _ hW, Nat.add_comm]
  have hmod : (F * R + int * R * 2 ^ w) % 2 ^ w = F * R % 2 ^ w := Nat.add_mul_mod_self_right _ _ _
  have := rneDiv_model (F * R + int * R * 2 ^ w) (msb w)
  rw [← hm, hdiv, hmod] at this
  rw [this]

theorem dvd_link (w fracN abs int F R : Nat)
    (hY : abs * 2 ^ (w - fracN) = int * 2 ^ w + F) (hs : 2 ^ w = 2 ^ fracN * 2 ^ (w - fracN))
    (hd : 2 ^ w ∣ F * R) : 2 ^ fracN ∣ abs * R := by
  have hE := pow_pos2 (w - fracN)
  have hX : abs * R * 2 ^ (w - fracN) = F * R + int * R * 2 ^ w := by
    have : abs * R * 2 ^ (w - fracN) = abs * 2 ^ (w - fracN) * R := by grind
    rw [this, hY]; grind
  have h1 : 2 ^ w ∣ abs * R * 2 ^ (w - fracN) := by
    rw [hX]; exact Nat.dvd_add hd (Nat.dvd_mul_left _ _)
  rw [hs] at h1
  exact Nat.dvd_of_mul_dvd_mul_right hE h1

end Sfx.FmtRadixPf
