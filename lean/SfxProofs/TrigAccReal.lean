import Mathlib.Analysis.SpecialFunctions.Trigonometric.Arctan
import Mathlib.Analysis.SpecialFunctions.Trigonometric.Bounds
import Mathlib.Analysis.Complex.Norm
/-
  TrigAccReal.lean — the real-analysis core of the CORDIC accuracy proof; no model definitions here.
  A rotation-mode CORDIC step with truncated shifts and a perturbed angle table is
      x' = x − σ(t·y − δy),  y' = y + σ(t·x − δx),  z' = z − σ·e,       t = 2^-i, σ = sign z, 0 ≤ δ ≤ u, a − u ≤ e ≤ a ≈ atan t.
  Invariant `RI` after `i` steps (α = the rotation really applied, `Kp i = ∏_{j<i} √(1+4^-j)` the true gain):
      ‖(x, y) − g·Kp i·(cos α, sin α)‖ ≤ Kp i·(1 + 0.895 i)·u,   |z − (φ − α)| ≤ i(u + κ),   |z| ≤ tau i + i·u.
-/
namespace Sfx.TrigAccPf
open Real

/-- the true CORDIC gain after `i` steps -/
noncomputable def Kp : ℕ → ℝ
  | 0 => 1
  | i + 1 => Kp i * √(1 + (((2 : ℝ) ^ i)⁻¹) ^ 2)

theorem Kp_pos : ∀ i, 0 < Kp i
  | 0 => by simp [Kp]
  | i + 1 => by
    have := Kp_pos i
    have h : 0 < √(1 + (((2 : ℝ) ^ i)⁻¹) ^ 2) := Real.sqrt_pos.2 (by positivity)
    simp only [Kp]; positivity

theorem one_le_sqrt_one_add (t : ℝ) : 1 ≤ √(1 + t ^ 2) := by
  rw [Real.one_le_sqrt]; nlinarith [sq_nonneg t]

theorem Kp_le_succ (i : ℕ) : Kp i ≤ Kp (i + 1) := by
  have := Kp_pos i
  have h := one_le_sqrt_one_add (((2 : ℝ) ^ i)⁻¹)
  simp only [Kp]; nlinarith

theorem Kp_sq_succ (i : ℕ) : Kp (i + 1) ^ 2 = Kp i ^ 2 * (1 + (((2 : ℝ) ^ i)⁻¹) ^ 2) := by
  simp only [Kp]
  rw [mul_pow, Real.sq_sqrt (by positivity)]

theorem Kp_two_sq : Kp 2 ^ 2 = 5 / 2 := by
  rw [Kp_sq_succ, Kp_sq_succ]; simp [Kp]; norm_num

theorem Kp_ge (i : ℕ) (hi : 1 ≤ i) : (15811 / 10000 : ℝ) ≤ Kp (i + 1) := by
  induction i with
  | zero => omega
  | succ n ih =>
    rcases Nat.eq_zero_or_pos n with h | h
    · subst h
      have h2 := Kp_two_sq
      have hp := Kp_pos 2
      show (15811 / 10000 : ℝ) ≤ Kp 2
      nlinarith
    · exact le_trans (ih h) (Kp_le_succ _)

/-- `(Kp i)² = N_i / D_i` for the integer recursions `N_{i+1} = N_i (4^i + 1)`, `D_{i+1} = D_i 4^i` -/
theorem Kp_sq_frac (N D : ℕ → ℝ) (hN0 : N 0 = 1) (hD0 : D 0 = 1) (hN : ∀ i, N (i + 1) = N i * ((4 : ℝ) ^ i + 1))
    (hD : ∀ i, D (i + 1) = D i * (4 : ℝ) ^ i) : ∀ i, Kp i ^ 2 * D i = N i
  | 0 => by simp [Kp, hN0, hD0]
  | i + 1 => by
    have ih := Kp_sq_frac N D hN0 hD0 hN hD i
    rw [Kp_sq_succ, hN, hD, ← ih]
    have h4 : ((4 : ℝ) ^ i) = ((2 : ℝ) ^ i) ^ 2 := by rw [← pow_mul, mul_comm, pow_mul]; norm_num
    have h2 : ((2 : ℝ) ^ i) ≠ 0 := by positivity
    rw [h4]; field_simp

/-! ### one rotation -/

theorem rot_mul (R α t σ : ℝ) (hσ : σ = 1 ∨ σ = -1) :
    (⟨R * cos α, R * sin α⟩ : ℂ) * ⟨1, σ * t⟩ =
      ⟨R * √(1 + t ^ 2) * cos (α + σ * arctan t), R * √(1 + t ^ 2) * sin (α + σ * arctan t)⟩ := by
  have hs : 0 < √(1 + t ^ 2) := Real.sqrt_pos.2 (by positivity)
  have hc : cos (σ * arctan t) = 1 / √(1 + t ^ 2) := by
    rcases hσ with rfl | rfl <;> simp [cos_arctan]
  have hsn : sin (σ * arctan t) = σ * t / √(1 + t ^ 2) := by
    rcases hσ with rfl | rfl <;> simp [sin_arctan, neg_div]
  apply Complex.ext
  · simp only [Complex.mul_re]
    rw [cos_add, hc, hsn]; field_simp
  · simp only [Complex.mul_im]
    rw [sin_add, hc, hsn]; field_simp; ring

theorem norm_rot (t σ : ℝ) (hσ : σ = 1 ∨ σ = -1) : ‖(⟨1, σ * t⟩ : ℂ)‖ = √(1 + t ^ 2) := by
  rw [Complex.norm_def, Complex.normSq_mk]
  congr 1
  rcases hσ with rfl | rfl <;> ring

theorem norm_trunc (σ δx δy η : ℝ) (hσ : σ = 1 ∨ σ = -1) (hx0 : 0 ≤ δx) (hx1 : δx ≤ η) (hy0 : 0 ≤ δy) (hy1 : δy ≤ η) :
    ‖(⟨σ * δy, -(σ * δx)⟩ : ℂ)‖ ≤ 14143 / 10000 * η := by
  rw [Complex.norm_def, Complex.normSq_mk]
  have hη : 0 ≤ η := le_trans hx0 hx1
  apply Real.sqrt_le_iff.2
  refine ⟨by positivity, ?_⟩
  have hs : σ * σ = 1 := by rcases hσ with rfl | rfl <;> norm_num
  have e : σ * δy * (σ * δy) + -(σ * δx) * -(σ * δx) = (σ * σ) * (δy * δy + δx * δx) := by ring
  rw [e, hs]
  nlinarith [mul_le_mul hx1 hx1 hx0 hη, mul_le_mul hy1 hy1 hy0 hη, mul_nonneg hη hη]

/-- the vector part of one step -/
theorem vec_step (R α t σ x y δx δy B η : ℝ) (hσ : σ = 1 ∨ σ = -1)
    (hx0 : 0 ≤ δx) (hx1 : δx ≤ η) (hy0 : 0 ≤ δy) (hy1 : δy ≤ η)
    (hB : ‖(⟨x, y⟩ : ℂ) - ⟨R * cos α, R * sin α⟩‖ ≤ B) :
    ‖(⟨x - σ * (t * y - δy), y + σ * (t * x - δx)⟩ : ℂ) -
        ⟨R * √(1 + t ^ 2) * cos (α + σ * arctan t), R * √(1 + t ^ 2) * sin (α + σ * arctan t)⟩‖ ≤
      √(1 + t ^ 2) * B + 14143 / 10000 * η := by
  have e : (⟨x - σ * (t * y - δy), y + σ * (t * x - δx)⟩ : ℂ) -
        ⟨R * √(1 + t ^ 2) * cos (α + σ * arctan t), R * √(1 + t ^ 2) * sin (α + σ * arctan t)⟩ =
      ((⟨x, y⟩ : ℂ) - ⟨R * cos α, R * sin α⟩) * ⟨1, σ * t⟩ + ⟨σ * δy, -(σ * δx)⟩ := by
    rw [sub_mul, rot_mul R α t σ hσ]
    apply Complex.ext
    · simp only [Complex.sub_re, Complex.add_re, Complex.mul_re]; ring
    · simp only [Complex.sub_im, Complex.add_im, Complex.mul_im]; ring
  rw [e]
  refine le_trans (norm_add_le _ _) ?_
  rw [norm_mul, norm_rot t σ hσ]
  have h1 := norm_trunc σ δx δy η hσ hx0 hx1 hy0 hy1
  have h2 : 0 ≤ √(1 + t ^ 2) := Real.sqrt_nonneg _
  nlinarith [mul_le_mul_of_nonneg_right hB h2]

/-! ### the invariant -/

/-- the invariant after `i` steps -/
def RI (u κ g φ : ℝ) (tau : ℕ → ℝ) (i : ℕ) (x y z : ℝ) : Prop :=
  ∃ α : ℝ, ‖(⟨x, y⟩ : ℂ) - ⟨g * Kp i * cos α, g * Kp i * sin α⟩‖ ≤ Kp i * ((1 + 895 / 1000 * (i : ℝ)) * u) ∧
    |z - (φ - α)| ≤ (i : ℝ) * (u + κ) ∧ |z| ≤ tau i + (i : ℝ) * u

theorem RI_step {u κ g φ : ℝ} {tau : ℕ → ℝ} {i : ℕ} {x y z x' y' z' σ δx δy e a : ℝ}
    (hu : 0 ≤ u)
    (hσ : (σ = 1 ∧ 0 ≤ z) ∨ (σ = -1 ∧ z < 0))
    (hx0 : 0 ≤ δx) (hx1 : δx ≤ u) (hy0 : 0 ≤ δy) (hy1 : δy ≤ u) (h0 : i = 0 → δx = 0 ∧ δy = 0)
    (hx' : x' = x - σ * (((2 : ℝ) ^ i)⁻¹ * y - δy)) (hy' : y' = y + σ * (((2 : ℝ) ^ i)⁻¹ * x - δx)) (hz' : z' = z - σ * e)
    (he1 : a - u ≤ e) (he2 : e ≤ a) (ha : |a - arctan (((2 : ℝ) ^ i)⁻¹)| ≤ κ)
    (htau : tau i = a + tau (i + 1)) (hconv : a ≤ tau (i + 1))
    (h : RI u κ g φ tau i x y z) : RI u κ g φ tau (i + 1) x' y' z' := by
  obtain ⟨α, h1, h2, h3⟩ := h
  have hσ' : σ = 1 ∨ σ = -1 := by rcases hσ with h | h; exact Or.inl h.1; exact Or.inr h.1
  set t : ℝ := ((2 : ℝ) ^ i)⁻¹ with ht
  refine ⟨α + σ * arctan t, ?_, ?_, ?_⟩
  · -- vector part
    have hK : Kp (i + 1) = Kp i * √(1 + t ^ 2) := rfl
    have hKp := Kp_pos i
    have hs : 0 ≤ √(1 + t ^ 2) := Real.sqrt_nonneg _
    have hR : g * Kp (i + 1) = g * Kp i * √(1 + t ^ 2) := by rw [hK]; ring
    rw [hx', hy', hR]
    rcases Nat.eq_zero_or_pos i with hi | hi
    · obtain ⟨d1, d2⟩ := h0 hi
      have := vec_step (g * Kp i) α t σ x y δx δy _ 0 hσ' hx0 (le_of_eq d1) hy0 (le_of_eq d2) h1
      refine le_trans this ?_
      rw [hK]; push_cast
      nlinarith [mul_nonneg (mul_nonneg hKp.le hs) hu]
    · have := vec_step (g * Kp i) α t σ x y δx δy _ u hσ' hx0 hx1 hy0 hy1 h1
      refine le_trans this ?_
      have hge := Kp_ge i hi
      rw [hK] at hge ⊢
      push_cast
      nlinarith [mul_le_mul_of_nonneg_right hge hu]
  · -- angle bookkeeping
    have e1 : z' - (φ - (α + σ * arctan t)) = (z - (φ - α)) + σ * (arctan t - e) := by rw [hz']; ring
    have e2 : |σ * (arctan t - e)| ≤ u + κ := by
      have : |σ| = 1 := by rcases hσ' with rfl | rfl <;> simp
      rw [abs_mul, this, one_mul]
      rw [abs_le] at ha ⊢
      constructor <;> linarith [ha.1, ha.2]
    rw [e1]
    refine le_trans (abs_add_le _ _) ?_
    push_cast; linarith
  · -- convergence
    rw [hz']; push_cast
    rw [abs_le] at h3 ⊢
    rcases hσ with ⟨rfl, hz⟩ | ⟨rfl, hz⟩
    · constructor <;> nlinarith [h3.1, h3.2]
    · constructor <;> nlinarith [h3.1, h3.2]

/-- what the invariant gives at the end -/
theorem RI_final {u κ g φ : ℝ} {tau : ℕ → ℝ} {i : ℕ} {x y z : ℝ} (h : RI u κ g φ tau i x y z) :
    |y - sin φ| ≤ Kp i * ((1 + 895 / 1000 * (i : ℝ)) * u) + |g * Kp i - 1| + (i : ℝ) * (u + κ) + (tau i + (i : ℝ) * u) := by
  obtain ⟨α, h1, h2, h3⟩ := h
  have a1 : |y - g * Kp i * sin α| ≤ Kp i * ((1 + 895 / 1000 * (i : ℝ)) * u) := by
    have := Complex.abs_im_le_norm ((⟨x, y⟩ : ℂ) - ⟨g * Kp i * cos α, g * Kp i * sin α⟩)
    simp only [Complex.sub_im] at this
    exact le_trans this h1
  have a2 : |g * Kp i * sin α - sin α| ≤ |g * Kp i - 1| := by
    have : g * Kp i * sin α - sin α = (g * Kp i - 1) * sin α := by ring
    rw [this, abs_mul]
    have := abs_sin_le_one α
    nlinarith [abs_nonneg (g * Kp i - 1)]
  have a3 : |sin α - sin φ| ≤ (i : ℝ) * (u + κ) + (tau i + (i : ℝ) * u) := by
    refine le_trans (abs_sin_sub_sin_le α φ) ?_
    have : α - φ = (z - (φ - α)) - z := by ring
    rw [this]
    refine le_trans (abs_sub _ _) ?_
    linarith
  have : y - sin φ = (y - g * Kp i * sin α) + (g * Kp i * sin α - sin α) + (sin α - sin φ) := by ring
  rw [this]
  refine le_trans (abs_add_three _ _ _) ?_
  linarith

end Sfx.TrigAccPf
