import SfxProofs.LogAccModel
import SfxProofs.LogAccReal
/-
  LogAcc.lean — property C14 (numeric bound) for `transcendental::log2` and `transcendental::ln` (models `Trans.log2`, `Trans.ln`,
  `S = D`), over Mathlib's reals.  With `val y = (y : ℝ) / 2 ^ D.f`:

    log2 : |val r - logb 2 (val x)| ≤ 4.5 ulp            (any valid signed layout with ≥ 3 integer and ≥ 1 fractional bits)
    ln   : |val r - log (val x)|    ≤ |log (val x)| / 2^23 + 8 ulp     (23 ≤ f, 9 ≤ intBits; the proof gives 4.2 ulp)

  Structure: `LogAccModel.lean` shows that every `Ok` result of the model is an integer trace `Log2Spec` / `LnSpec`
  (`LogAccDefs.lean`); `LogAccReal.lean` bounds these traces by a potential-function argument:
    * halving loop  x ↦ ⌈x/2⌉ (j times):      0 ≤ log2 x' + j - log2 x ≤ 1.5 · (2^j - 1) / x ≤ 3 ulp;
    * squaring loop: (R + log2 (y / 2^f)) · 2^-k is invariant up to 1.5 ulp · 2^-(k+1) per step (truncated product, rounding
      shift), total ≤ 1.5 ulp; dropping the final log2 (y / 2^f) ∈ [0, 1) costs < 1 ulp (one-sided);
    * reciprocal for x < 1: 0 ≤ log2 (2^2f / x) - log2 ⌊2^2f / x⌋ ≤ 1.5 ulp;
    * ln: truncating division < 1 ulp, |2^23 / 12102203 / ln 2 - 1| ≤ 2^-23 from `Real.log_two_gt_d9` / `log_two_lt_d9`.
  No statement in this file mentions a power of an `Int`, so the `Monoid.toNPow` caveat does not apply here.
-/
namespace Sfx.LogAccPf
open Sfx.LogPf

/-- sharp form: `4.5 ulp`, three integer bits and one fractional bit suffice -/
theorem log2_accuracy_sharp (D : Layout) (hv : D.valid) (hs : D.signed = true) (hf : 1 ≤ D.f) (hint : 3 ≤ D.intBits)
    (x : Int) (hx : inRange D x) (r : Int) (it : Nat) (dbg : Bool) :
    Trans.run (Trans.log2 D D x) = .ok (some r, it) dbg →
      |(r : ℝ) / 2 ^ D.f - Real.logb 2 ((x : ℝ) / 2 ^ D.f)| ≤ 9 / 2 / 2 ^ D.f := by
  intro h
  exact (log2_real D.f hf x r (log2_acc ⟨hv, hs, hint⟩ x hx r it dbg h).2).2

/-- C14 for `log2::<D, D>` -/
theorem log2_accuracy (D : Layout) (hv : D.valid) (hs : D.signed = true) (hf : 23 ≤ D.f) (hint : 9 ≤ D.intBits)
    (x : Int) (hx : inRange D x) (r : Int) (it : Nat) (dbg : Bool) :
    Trans.run (Trans.log2 D D x) = .ok (some r, it) dbg →
      |(r : ℝ) / 2 ^ D.f - Real.logb 2 ((x : ℝ) / 2 ^ D.f)| ≤ 8 / 2 ^ D.f := by
  intro h
  have h1 := log2_accuracy_sharp D hv hs (by omega) (by omega) x hx r it dbg h
  have hG : (0 : ℝ) < 2 ^ D.f := by positivity
  have : (9 : ℝ) / 2 / 2 ^ D.f ≤ 8 / 2 ^ D.f := div_le_div_of_nonneg_right (by norm_num) hG.le
  linarith

/-- C14 for `ln::<D, D>` -/
theorem ln_accuracy (D : Layout) (hv : D.valid) (hs : D.signed = true) (hf : 23 ≤ D.f) (hint : 9 ≤ D.intBits)
    (x : Int) (hx : inRange D x) (r : Int) (it : Nat) (dbg : Bool) :
    Trans.run (Trans.ln D D x) = .ok (some r, it) dbg →
      |(r : ℝ) / 2 ^ D.f - Real.log ((x : ℝ) / 2 ^ D.f)| ≤ |Real.log ((x : ℝ) / 2 ^ D.f)| / 2 ^ 23 + 8 / 2 ^ D.f := by
  intro h
  exact (ln_real D.f hf x r (ln_acc D hv hs hf hint x hx r it dbg h)).2

/-! the hypotheses are satisfied by the layouts of the task -/
example (x r : Int) (it : Nat) (dbg : Bool) (hx : inRange ⟨true, 32, 23⟩ x) :=
  log2_accuracy ⟨true, 32, 23⟩ (by decide) rfl (by decide) (by decide) x hx r it dbg
example (x r : Int) (it : Nat) (dbg : Bool) (hx : inRange ⟨true, 128, 88⟩ x) :=
  ln_accuracy ⟨true, 128, 88⟩ (by decide) rfl (by decide) (by decide) x hx r it dbg

end Sfx.LogAccPf

#print axioms Sfx.LogAccPf.log2_accuracy_sharp
#print axioms Sfx.LogAccPf.log2_accuracy
#print axioms Sfx.LogAccPf.ln_accuracy
