import SfxProofs.FmtTop
/-
  FmtTopRoundTrip.lean — property C09, the round trip at specification level: the bytes printed by `{}` / `{:?}` (no
  precision, no width) are a well-formed `TextSpec.literal 10` (optional sign, digits, optional `.` digits) whose exact
  value, rounded ties-to-even to the grid `2^-fracN` (`TextSpec.parseExact`), gives back exactly the same bits.
-/
namespace Sfx.FmtTopPf
open Sfx.Display
open Sfx.TextSpec (FmtSpec rneDiv)
open Sfx.FmtDecPf (valD)

/-! ### `TextSpec.digitsVal` on rendered digits -/

theorem digitVal_enc (d : Nat) (h : d ≤ 9) : TextSpec.digitVal 10 (encodeDigit false d) = some d := by
  unfold encodeDigit
  rw [if_pos (by omega)]
  unfold TextSpec.digitVal
  simp only
  rw [if_pos (by omega)]
  simp only [Option.bind_some, Nat.add_sub_cancel]
  rw [if_pos (by omega)]

theorem foldlM_enc : ∀ (l : List Nat) (a : Nat), (∀ d, d ∈ l → d ≤ 9) →
    (l.map (encodeDigit false)).foldlM (fun acc b => (TextSpec.digitVal 10 b).map fun v => acc * 10 + v) a
      = some (l.foldl (fun a d => a * 10 + d) a) := by
  intro l
  induction l with
  | nil => intro a _; rfl
  | cons d l ih =>
    intro a h
    rw [List.map_cons, List.foldlM_cons, digitVal_enc d (h d (List.mem_cons_self ..))]
    simp only [Option.map_some, Option.bind_eq_bind, Option.bind_some, List.foldl_cons]
    exact ih _ (fun x hx => h x (List.mem_cons_of_mem _ hx))

theorem digitsVal_enc (l : List Nat) (h : ∀ d, d ∈ l → d ≤ 9) :
    TextSpec.digitsVal 10 (l.map (encodeDigit false)) = some (valD l) :=
  foldlM_enc l 0 h

theorem enc_ne_46 (l : List Nat) (h : ∀ d, d ∈ l → d ≤ 9) : ∀ b, b ∈ l.map (encodeDigit false) → 48 ≤ b ∧ b ≤ 57 := by
  intro b hb
  rw [List.mem_map] at hb
  obtain ⟨d, hd, rfl⟩ := hb
  have := h d hd
  unfold encodeDigit
  rw [if_pos (by omega)]
  omega

/-! ### `TextSpec.split` on `sign? digits ('.' digits)?` -/

/-- `TextSpec.split` after the sign has been read -/
def splitCore (neg : Bool) (rest : List Nat) : Option (Bool × List Nat × List Nat) :=
  let ip := rest.takeWhile (· ≠ 46)
  let after := rest.dropWhile (· ≠ 46)
  let fp := match after with
    | [] => some []
    | _ :: r => if r.contains 46 then none else some r
  fp.bind fun fp => if ip.length + fp.length = 0 then none else some (neg, ip, fp)

theorem split_minus (l : List Nat) : TextSpec.split (45 :: l) = splitCore true l := rfl
theorem split_plus (l : List Nat) : TextSpec.split (43 :: l) = splitCore false l := rfl
theorem split_nosign (b : Nat) (l : List Nat) (h1 : b ≠ 45) (h2 : b ≠ 43) :
    TextSpec.split (b :: l) = splitCore false (b :: l) := by
  unfold TextSpec.split
  split
  rename_i heq
  split at heq
  · rename_i hc; injection hc with e _; exact absurd e h1
  · rename_i hc; injection hc with e _; exact absurd e h2
  · injection heq with e1 e2
    subst e1; subst e2
    rfl

theorem takeWhile_digits : ∀ (IB tail : List Nat), (∀ b, b ∈ IB → b ≠ 46) → (tail = [] ∨ ∃ r, tail = 46 :: r) →
    (IB ++ tail).takeWhile (· ≠ 46) = IB ∧ (IB ++ tail).dropWhile (· ≠ 46) = tail := by
  intro IB
  induction IB with
  | nil =>
    intro tail _ ht
    rcases ht with rfl | ⟨r, rfl⟩
    · exact ⟨rfl, rfl⟩
    · simp
  | cons b IB ih =>
    intro tail h ht
    have hb : b ≠ 46 := h b (List.mem_cons_self ..)
    obtain ⟨h1, h2⟩ := ih tail (fun x hx => h x (List.mem_cons_of_mem _ hx)) ht
    simp only [List.cons_append, List.takeWhile_cons, List.dropWhile_cons, hb, ne_eq, not_false_eq_true, decide_true,
      if_true]
    exact ⟨by rw [h1], h2⟩

theorem splitCore_digits (neg : Bool) (IB FB : List Nat) (dot : Bool) (hI : ∀ b, b ∈ IB → b ≠ 46)
    (hF : ∀ b, b ∈ FB → b ≠ 46) (hne : IB ≠ []) (hdot : dot = false → FB = []) :
    splitCore neg (IB ++ (if dot then 46 :: FB else [])) = some (neg, IB, FB) := by
  unfold splitCore
  have hlen : 0 < IB.length := List.length_pos_iff.2 hne
  cases dot with
  | false =>
    have := hdot rfl
    subst this
    obtain ⟨h1, h2⟩ := takeWhile_digits IB [] hI (Or.inl rfl)
    simp only [Bool.false_eq_true, if_false]
    rw [h1, h2]
    simp only [Option.bind_some, List.length_nil, Nat.add_zero]
    rw [if_neg (by omega)]
  | true =>
    obtain ⟨h1, h2⟩ := takeWhile_digits IB (46 :: FB) hI (Or.inr ⟨FB, rfl⟩)
    simp only [if_true]
    rw [h1, h2]
    have hc : FB.contains 46 = false := by
      rw [List.contains_eq_mem]
      simp only [decide_eq_false_iff_not]
      intro hm
      exact hF 46 hm rfl
    simp only [hc, Bool.false_eq_true, if_false, Option.bind_some]
    rw [if_neg (by omega)]

/-- the literal denoted by `sign? int[.frac]` for decimal digit lists -/
theorem literal_render (sign : List Nat) (neg : Bool) (ip fp : List Nat) (dot : Bool)
    (hs : (sign = [45] ∧ neg = true) ∨ ((sign = [43] ∨ sign = []) ∧ neg = false))
    (h9 : ∀ d, d ∈ ip ++ fp → d ≤ 9) (hne : ip ≠ []) (hdot : dot = false → fp = []) :
    TextSpec.literal 10 (sign ++ render false ip fp dot) = some (neg, valD (ip ++ fp), fp.length) := by
  have hIB := enc_ne_46 ip (fun d hd => h9 d (List.mem_append_left _ hd))
  have hFB := enc_ne_46 fp (fun d hd => h9 d (List.mem_append_right _ hd))
  have hneI : ip.map (encodeDigit false) ≠ [] := by simpa using hne
  have hcore : ∀ n, splitCore n (render false ip fp dot) = some (n, ip.map (encodeDigit false), fp.map (encodeDigit false)) := by
    intro n
    unfold render
    apply splitCore_digits n _ _ dot (fun b hb => by have := hIB b hb; omega) (fun b hb => by have := hFB b hb; omega) hneI
    intro h; rw [hdot h]; rfl
  have hsplit : TextSpec.split (sign ++ render false ip fp dot)
      = some (neg, ip.map (encodeDigit false), fp.map (encodeDigit false)) := by
    rcases hs with ⟨rfl, rfl⟩ | ⟨rfl | rfl, rfl⟩
    · exact (split_minus _).trans (hcore true)
    · exact (split_plus _).trans (hcore false)
    · rw [List.nil_append]
      obtain ⟨b, l, hbl⟩ : ∃ b l, render false ip fp dot = b :: l := by
        cases hip : ip with
        | nil => exact absurd hip hne
        | cons d l => exact ⟨encodeDigit false d, _, by unfold render; rw [List.map_cons, List.cons_append]⟩
      have hb : 48 ≤ b ∧ b ≤ 57 := by
        cases hip : ip with
        | nil => exact absurd hip hne
        | cons d l' =>
          rw [hip] at hbl
          unfold render at hbl
          rw [List.map_cons, List.cons_append] at hbl
          injection hbl with e _
          rw [← e]
          apply hIB
          rw [hip]; simp
      rw [hbl, split_nosign b l (by omega) (by omega), ← hbl]
      exact hcore false
  unfold TextSpec.literal
  rw [hsplit]
  simp only [Option.bind_eq_bind, Option.bind_some]
  rw [digitsVal_enc ip (fun d hd => h9 d (List.mem_append_left _ hd)),
    digitsVal_enc fp (fun d hd => h9 d (List.mem_append_right _ hd))]
  simp only [Option.bind_some, List.length_map, Option.pure_def]
  rw [FmtDecPf.valD_append]

/-! ### the round trip -/

theorem assemble_nowidth (spec : FmtSpec) (neg : Bool) (b : List Nat × Nat) (hw : spec.width = none) :
    FmtPf.assemble spec neg b = FmtPf.signOf spec neg ++ spec.prefix ++ b.1 ++ List.replicate b.2 48 := by
  unfold FmtPf.assemble
  rw [hw]
  simp only [Option.getD_none, Nat.zero_sub]
  cases spec.zero
  · simp only [Bool.false_eq_true, if_false]
    split <;> simp
  · simp

/-- **C09, round trip (general form).**  `Display` / `Debug` without precision and width — with or without the `+`, `#`,
`0` flags and any fill / alignment — print a well-formed decimal literal (`TextSpec.literal 10`) whose correctly rounded
value on the grid `2^-fracN` (ties to even, `TextSpec.parseExact`) is exactly the number printed: `-abs` when `neg`, `abs`
otherwise.  (`neg = true ∧ abs = 0` cannot arise from the driver; it prints `-0`, which parses to `0 = -0`.) -/
theorem default_output_parses_back_gen (spec : FmtSpec) (neg : Bool) (abs nbits fracN : Nat)
    (hn : FmtPf.WidthOk nbits) (hf : fracN ≤ nbits) (ha : abs < 2 ^ nbits)
    (hk : spec.kind = "d" ∨ spec.kind = "D") (hprec : spec.prec = none) (hwidth : spec.width = none) :
    ∃ out, Display.fmt spec neg abs nbits fracN = some (.ok out false) ∧
      TextSpec.parseExact 10 fracN out = some (if neg then -(abs : Int) else abs) := by
  have hkind : FmtPf.KindOk spec.kind := by
    rcases hk with h | h
    · exact Or.inl h
    · exact Or.inr (Or.inl h)
  have hpok : FmtPf.PrecOk spec.prec := by intro p hp'; rw [hprec] at hp'; cases hp'
  have hX : (spec.kind == "X") = false := by rcases hk with h | h <;> rw [h] <;> decide
  have hR : spec.radix = 10 := by rcases hk with h | h <;> unfold FmtSpec.radix <;> rw [h] <;> rfl
  have hpfx : spec.prefix = [] := by
    rcases hk with h | h <;> unfold FmtSpec.prefix <;> simp only [h] <;> cases spec.alt <;> rfl
  rcases hdo : digitsOf spec.kind spec.prec abs nbits fracN with ⟨ip, fp, ez⟩
  obtain ⟨h1, hcan, hrange, _, h3⟩ := fmt_correct spec neg abs nbits fracN hn hf ha hkind hpok ip fp ez hdo
  rw [hprec] at h3
  simp only at h3
  obtain ⟨hez, _, _, hten⟩ := h3
  obtain ⟨hrt, _, _⟩ := hten hR
  subst hez
  rw [hX, assemble_nowidth spec neg _ hwidth, hpfx] at h1
  simp only [Nat.lt_irrefl, decide_false, Bool.or_false, List.append_nil, List.replicate_zero] at h1
  refine ⟨_, h1, ?_⟩
  have hlit := literal_render (FmtPf.signOf spec neg) neg ip fp (!fp.isEmpty)
    (by
      unfold FmtPf.signOf
      cases neg
      · right; simp only [Bool.false_eq_true, if_false]
        cases spec.plus <;> simp
      · left; simp)
    (fun d hd => by have := hrange d hd; rw [hR] at this; omega)
    hcan.1
    (by intro h; cases fp with
      | nil => rfl
      | cons _ _ => simp at h)
  unfold TextSpec.parseExact
  rw [hlit]
  simp only [Option.map_some]
  rw [valD_eq_valI, hrt]

/-- **C09, round trip**: the default output (`{}`) parses back (`TextSpec.parseExact`, the specification of `FromStr`)
to exactly the same value. -/
theorem default_output_parses_back (neg : Bool) (abs nbits fracN : Nat)
    (hn : FmtPf.WidthOk nbits) (hf : fracN ≤ nbits) (ha : abs < 2 ^ nbits) :
    ∃ out, Display.fmt { kind := "d" } neg abs nbits fracN = some (.ok out false) ∧
      TextSpec.parseExact 10 fracN out = some (if neg then -(abs : Int) else abs) :=
  default_output_parses_back_gen { kind := "d" } neg abs nbits fracN hn hf ha (Or.inl rfl) rfl rfl

/-- the same for `Debug` (`{:?}`) -/
theorem debug_output_parses_back (neg : Bool) (abs nbits fracN : Nat)
    (hn : FmtPf.WidthOk nbits) (hf : fracN ≤ nbits) (ha : abs < 2 ^ nbits) :
    ∃ out, Display.fmt { kind := "D" } neg abs nbits fracN = some (.ok out false) ∧
      TextSpec.parseExact 10 fracN out = some (if neg then -(abs : Int) else abs) :=
  default_output_parses_back_gen { kind := "D" } neg abs nbits fracN hn hf ha (Or.inr rfl) rfl rfl

/-- the driver's form: for the bits `x` of a layout the printed string parses back to `x` -/
theorem default_output_parses_back_int (x : Int) (nbits fracN : Nat)
    (hn : FmtPf.WidthOk nbits) (hf : fracN ≤ nbits) (ha : x.natAbs < 2 ^ nbits) :
    ∃ out, Display.fmt { kind := "d" } (decide (x < 0)) x.natAbs nbits fracN = some (.ok out false) ∧
      TextSpec.parseExact 10 fracN out = some x := by
  obtain ⟨out, h1, h2⟩ := default_output_parses_back (decide (x < 0)) x.natAbs nbits fracN hn hf ha
  refine ⟨out, h1, ?_⟩
  rw [h2]
  congr 1
  by_cases hx : x < 0
  · simp only [hx, decide_true, if_true]; omega
  · simp only [hx, decide_false, Bool.false_eq_true, if_false]; omega

#print axioms literal_render
#print axioms default_output_parses_back_gen
#print axioms default_output_parses_back
#print axioms debug_output_parses_back
#print axioms default_output_parses_back_int

end Sfx.FmtTopPf
