import SfxProofs.ToFloatSpec
import SfxProofs.ToFloatNearest
/-
  ToFloat.lean — (A) the model of `from_to_float_helper` (`Layout.toFloat`) equals the textbook
  round-to-nearest-even specification `rneFloat`; (B, proved in ToFloatNearest.lean) that specification is
  round-to-nearest, ties-to-even; the two are combined at the end.  (core Lean only)
-/
namespace Sfx.ToFloatPf

theorem natAbs_lt_of_inRange (S : Layout) (hn : 0 < S.n) (x : Int) (hx : inRange S x) : x.natAbs < 2 ^ S.n := by
  unfold inRange inI minI maxI at hx
  have h2 : (2 : Int) ^ S.n = ((2 ^ S.n : Nat) : Int) := by rw [Int.natCast_pow]; rfl
  have hs := pow_split hn
  have := two_pow_pos (S.n - 1)
  cases hsg : S.signed <;> simp [hsg] at hx <;> omega

/-- general format: the model agrees with the specification whenever the exponent is in the normal range -/
theorem toFloat_eq_rneFloat_normal (F : FloatFmt) (hp : 2 ≤ F.prec) (hpn : F.prec < F.nbits) (hn : F.nbits ≤ 128)
    (S : Layout) (hSn : 0 < S.n) (hS128 : S.n ≤ 128) (hSf : S.f ≤ S.n) (x : Int) (hx : inRange S x) (hx0 : x ≠ 0)
    (he1 : F.expMin ≤ (bitLen x.natAbs : Int) - 1 - S.f) (he2 : (bitLen x.natAbs : Int) - 1 - S.f ≤ F.expMax) :
    S.toFloat F x = rneFloat F S.f x := by
  have ha : 0 < x.natAbs := by omega
  have hN : S.f + S.intBits = S.n := by unfold Layout.intBits; omega
  have haN := natAbs_lt_of_inRange S hSn x hx
  unfold Layout.toFloat
  rw [fth_normal_closed F _ _ _ _ ha (by omega) (by rw [hN]; exact haN) hp (by omega) hn he1 he2]
  unfold rneFloat
  rw [if_neg hx0]
  extract_lets sign mag e qexp m
  have he : e = (bitLen x.natAbs : Int) - 1 - S.f := rfl
  have hlt : ¬ e < F.expMin := by omega
  have hm : m = sig F.prec x.natAbs + (if ru F.prec x.natAbs then 1 else 0) := by
    have hq : -(S.f : Int) - qexp = (F.prec : Int) - bitLen x.natAbs := by
      simp only [qexp, he]; omega
    simp only [m, hq, mag, rneScaled_nat]
    omega
  obtain ⟨hs1, hs2⟩ := sig_range F.prec x.natAbs ha (by omega)
  have h2p : 2 ^ F.prec = 2 * 2 ^ (F.prec - 1) := by
    conv => lhs; rw [show F.prec = (F.prec - 1) + 1 by omega, Nat.pow_succ]
    omega
  rw [if_neg hlt]
  have hr : (if ru F.prec x.natAbs then 1 else 0) ≤ 1 := by split <;> omega
  have hsign : (if decide (x < 0) = true then F.signMask else 0) = sign := by simp [sign]
  rw [hsign, hm, h2p]
  generalize (if ru F.prec x.natAbs then 1 else 0) = r at *
  by_cases hcarry : sig F.prec x.natAbs + r = 2 * 2 ^ (F.prec - 1)
  · rw [if_pos hcarry]
    simp only []
    have hbias : F.expMax = F.expBias := rfl
    have hmin : F.expMin = 1 - F.expBias := rfl
    have hE1 : (e + 1 + F.expBias).toNat = (e + F.expMax).toNat + 1 := by omega
    rw [← he]
    by_cases hov : e + 1 > F.expMax
    · rw [if_pos hov, expMask_eq F hpn (by omega)]
      have hE2 : (F.expMax + 1 + F.expBias).toNat = (e + F.expMax).toNat + 1 := by omega
      rw [hE2, Nat.add_mul]
      generalize (e + F.expMax).toNat * 2 ^ (F.prec - 1) = EP
      omega
    · rw [if_neg hov, hE1, Nat.add_mul]
      generalize (e + F.expMax).toNat * 2 ^ (F.prec - 1) = EP
      omega
  · rw [if_neg hcarry]
    simp only []
    rw [if_neg (by omega)]
    have hbias : F.expMax = F.expBias := rfl
    rw [← he, ← hbias]
    generalize (e + F.expMax).toNat * 2 ^ (F.prec - 1) = EP
    omega

theorem toFloat_eq_rneFloat_f32_subnormal (S : Layout) (hS : S.valid) (x : Int) (hx0 : x ≠ 0)
    (he : (bitLen x.natAbs : Int) - 1 - S.f < -126) :
    S.toFloat f32 x = rneFloat f32 S.f x := by
  obtain ⟨hn, hf⟩ := hS
  have ha : 0 < x.natAbs := by omega
  have hb0 := bitLen_pos ha
  have hub := bitLen_ub x.natAbs
  have hn128 : S.n = 128 := by omega
  have hb2 : bitLen x.natAbs ≤ 2 := by omega
  have : 2 ^ bitLen x.natAbs ≤ 2 ^ 2 := Nat.pow_le_pow_right (by decide) hb2
  have hf' : S.f = 127 ∨ S.f = 128 := by omega
  have hx' : x = 1 ∨ x = 2 ∨ x = 3 ∨ x = -1 ∨ x = -2 ∨ x = -3 := by omega
  unfold Layout.toFloat Layout.intBits
  rw [hn128]
  rcases hf' with h | h <;> rw [h] <;> rcases hx' with h | h | h | h | h | h <;> rw [h] <;> decide

theorem toFloat_zero (F : FloatFmt) (S : Layout) (hS128 : S.n ≤ 128) (hSf : S.f ≤ S.n) :
    S.toFloat F 0 = rneFloat F S.f 0 := by
  unfold Layout.toFloat Layout.intBits
  rw [show (0 : Int).natAbs = 0 from rfl, fth_zero F _ _ _ (by omega)]
  simp [rneFloat]

theorem toFloat_eq_rneFloat_f64 (S : Layout) (hS : S.valid) (x : Int) (hx : inRange S x) :
    S.toFloat f64 x = rneFloat f64 S.f x := by
  obtain ⟨hn, hf⟩ := hS
  by_cases hx0 : x = 0
  · subst hx0; exact toFloat_zero f64 S (by omega) hf
  · have hSn : 0 < S.n := by omega
    have haN := natAbs_lt_of_inRange S hSn x hx
    have hbN := bitLen_le haN
    have hb0 := bitLen_pos (by omega : 0 < x.natAbs)
    have h1 : FloatFmt.expMin f64 = -1022 := by decide
    have h2 : FloatFmt.expMax f64 = 1023 := by decide
    exact toFloat_eq_rneFloat_normal f64 (by decide) (by decide) (by decide) S hSn (by omega) hf x hx hx0
      (by rw [h1]; omega) (by rw [h2]; omega)

theorem toFloat_eq_rneFloat_f32 (S : Layout) (hS : S.valid) (x : Int) (hx : inRange S x) :
    S.toFloat f32 x = rneFloat f32 S.f x := by
  obtain ⟨hn, hf⟩ := hS
  by_cases hx0 : x = 0
  · subst hx0; exact toFloat_zero f32 S (by omega) hf
  · by_cases he : (bitLen x.natAbs : Int) - 1 - S.f < -126
    · exact toFloat_eq_rneFloat_f32_subnormal S ⟨hn, hf⟩ x hx0 he
    · have hSn : 0 < S.n := by omega
      have haN := natAbs_lt_of_inRange S hSn x hx
      have hbN := bitLen_le haN
      have h1 : FloatFmt.expMin f32 = -126 := by decide
      have h2 : FloatFmt.expMax f32 = 127 := by decide
      exact toFloat_eq_rneFloat_normal f32 (by decide) (by decide) (by decide) S hSn (by omega) hf x hx hx0
        (by rw [h1]; omega) (by rw [h2]; omega)

/-- (A) model = specification -/
theorem toFloat_eq_rneFloat (F : FloatFmt) (hF : F = f32 ∨ F = f64) (S : Layout) (hS : S.valid) (x : Int) (hx : inRange S x) :
    S.toFloat F x = rneFloat F S.f x := by
  rcases hF with h | h <;> subst h
  · exact toFloat_eq_rneFloat_f32 S hS x hx
  · exact toFloat_eq_rneFloat_f64 S hS x hx

/-- (A)+(B): no finite float is strictly closer to the fixed-point value than the conversion result -/
theorem toFloat_nearest (F : FloatFmt) (hF : F = f32 ∨ F = f64) (S : Layout) (hS : S.valid) (x : Int) (hx : inRange S x)
    (vr : Int × Int) (hr : floatVal F (S.toFloat F x) = some vr)
    (b : Nat) (vb : Int × Int) (hb : floatVal F b = some vb) :
    scaledErr F S.f x vr ≤ scaledErr F S.f x vb := by
  rw [toFloat_eq_rneFloat F hF S hS x hx] at hr
  exact rneFloat_nearest F hF S.f x vr hr b vb hb

/-- (A)+(B): ties are resolved to the even mantissa -/
theorem toFloat_ties_even (F : FloatFmt) (hF : F = f32 ∨ F = f64) (S : Layout) (hS : S.valid) (x : Int) (hx : inRange S x)
    (vr : Int × Int) (hr : floatVal F (S.toFloat F x) = some vr)
    (b : Nat) (vb : Int × Int) (hb : floatVal F b = some vb)
    (hne : scaledVal F S.f vb ≠ scaledVal F S.f vr)
    (htie : scaledErr F S.f x vr = scaledErr F S.f x vb) :
    S.toFloat F x % 2 = 0 := by
  rw [toFloat_eq_rneFloat F hF S hS x hx] at hr ⊢
  exact rneFloat_ties_even F hF S.f x vr hr b vb hb hne htie

end Sfx.ToFloatPf

#print axioms Sfx.ToFloatPf.toFloat_eq_rneFloat
#print axioms Sfx.ToFloatPf.toFloat_eq_rneFloat_f64
#print axioms Sfx.ToFloatPf.toFloat_eq_rneFloat_f32
#print axioms Sfx.ToFloatPf.rneFloat_nearest
#print axioms Sfx.ToFloatPf.rneFloat_ties_even
#print axioms Sfx.ToFloatPf.rneFloat_nearest_gen
#print axioms Sfx.ToFloatPf.rneFloat_ties_even_gen
#print axioms Sfx.ToFloatPf.toFloat_nearest
#print axioms Sfx.ToFloatPf.toFloat_ties_even
#print axioms Sfx.ToFloatPf.toFloat_eq_rneFloat_normal
