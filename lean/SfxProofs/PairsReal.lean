import Mathlib.Analysis.SpecialFunctions.Pow.Real
/-
  PairsReal.lean — the real-number step behind the real-valued form of the `powi` clause of C15: dividing the exact integer
  bound `|r·F^k − x^(k+1)| ≤ k·max(F,|x|)^k` (`F = 2^f`) by `F^(k+1)`.  Abstract reals only (no `2 ^ _` on `Int`).
-/
namespace Sfx.PairsPf

theorem powi_real_core (F X R : ℝ) (k : ℕ) (hF : 0 < F)
    (h : |R * F ^ k - X ^ (k + 1)| ≤ (k : ℝ) * (max F |X|) ^ k) :
    |R / F - (X / F) ^ (k + 1)| ≤ (k : ℝ) / F * (max 1 |X / F|) ^ k := by
  have hFk : 0 < F ^ k := pow_pos hF k
  have hFk1 : 0 < F ^ (k + 1) := pow_pos hF _
  have e1 : R / F - (X / F) ^ (k + 1) = (R * F ^ k - X ^ (k + 1)) / F ^ (k + 1) := by
    rw [div_pow, pow_succ]
    field_simp
    ring
  have e2 : max 1 |X / F| = max F |X| / F := by
    rw [abs_div, abs_of_pos hF, ← max_div_div_right hF.le, div_self hF.ne']
  rw [e1, abs_div, abs_of_pos hFk1, e2, div_pow, div_le_iff₀ hFk1]
  refine le_trans h (le_of_eq ?_)
  rw [pow_succ]
  field_simp

/-- the weakening from `k = n − 1` to the `n + 1` of the property's sentence -/
theorem powi_real_weaken (F A B : ℝ) (k : ℕ) (n : ℝ) (hF : 0 < F) (hB : 0 ≤ B) (hk : (k : ℝ) ≤ n + 1)
    (h : A ≤ (k : ℝ) / F * B) : A ≤ (n + 1) / F * B := by
  refine le_trans h ?_
  have : (k : ℝ) / F ≤ (n + 1) / F := div_le_div_of_nonneg_right hk hF.le
  exact mul_le_mul_of_nonneg_right this hB

end Sfx.PairsPf
