import SfxProofs.ParsePow
/-
  ParseTopFrac.lean — C08 top level: `$get_frac` through the half-width delegation chain (core Lean only).
  The decimal converter's contract is the hypothesis `DecFracSpec` (proved separately in SfxProofs/ParseDec*.lean).
-/
namespace Sfx.ParseTopPf
open Sfx.TextSpec Sfx.ParsePowPf

/-- the contract of `dec_str_frac_to_bin` (proved separately in SfxProofs/ParseDec*.lean) -/
def DecFracSpec : Prop :=
  ∀ (n nbits : Nat) (bytes : List Nat) (v : Nat), (n = 8 ∨ n = 16 ∨ n = 32 ∨ n = 64 ∨ n = 128) → nbits ≤ n → bytes ≠ [] →
    TextSpec.digitsVal 10 bytes = some v → bytes.getLast? ≠ some 48 →
    FromStr.decStrFracToBin n bytes nbits =
      .ok (if rneDiv (v * 2 ^ nbits) (10 ^ bytes.length) < 2 ^ nbits then some (rneDiv (v * 2 ^ nbits) (10 ^ bytes.length) : Int) else none) false

/-- the correctly rounded `nbits`-bit fraction of the digit string, `none` when it rounds up to 1.0 -/
def fracRes (radix nbits : Nat) (fs : List Nat) (fv : Nat) : Option Int :=
  if rneDiv (fv * 2 ^ nbits) (radix ^ fs.length) < 2 ^ nbits
  then some (rneDiv (fv * 2 ^ nbits) (radix ^ fs.length) : Int) else none

/-- the part of `$get_frac` after the half-width attempt (the empty fraction gives `Some(0)`) -/
theorem getFracDirect_spec (hdec : DecFracSpec) {radix n nbits : Nat}
    (hr : radix = 2 ∨ radix = 8 ∨ radix = 10 ∨ radix = 16)
    (hn : n = 8 ∨ n = 16 ∨ n = 32 ∨ n = 64 ∨ n = 128) (hnb : nbits ≤ n) {fs : List Nat} {fv : Nat}
    (hv : digitsVal radix fs = some fv) (hlast : fs ≠ [] → fs.getLast? ≠ some 48) :
    FromStr.getFracDirect n fs radix nbits = .ok (fracRes radix nbits fs fv) false := by
  cases fs with
  | nil =>
    rw [digitsVal_nil] at hv; injection hv with hv; subst hv
    have : (0 : Nat) < 2 ^ nbits := Nat.two_pow_pos nbits
    simp [FromStr.getFracDirect, fracRes, rneDiv_one, this, pure]
  | cons b l =>
    have hne : b :: l ≠ [] := by simp
    have hl := hlast hne
    unfold FromStr.getFracDirect fracRes
    rw [List.isEmpty_cons, if_neg (by decide)]
    rcases hr with rfl | rfl | rfl | rfl
    · rw [if_pos rfl]; exact binStrFracToBin_spec n nbits _ fv hnb hne hv hl
    · rw [if_neg (by decide), if_pos rfl]; exact octStrFracToBin_spec n nbits _ fv hnb hne hv hl
    · rw [if_neg (by decide), if_neg (by decide), if_neg (by decide), if_pos rfl]
      exact hdec n nbits _ fv hn hnb hne hv hl
    · rw [if_neg (by decide), if_neg (by decide), if_pos rfl]; exact hexStrFracToBin_spec n nbits _ fv hnb hne hv hl

/-- `$get_frac` of the `n`-bit instance, through the whole half-width delegation chain (a delegated call passes the same
`nbits` to a narrower instance, and the contract of each converter does not depend on the width) -/
theorem getFrac_spec (hdec : DecFracSpec) {radix n nbits : Nat}
    (hr : radix = 2 ∨ radix = 8 ∨ radix = 10 ∨ radix = 16)
    (hn : n = 8 ∨ n = 16 ∨ n = 32 ∨ n = 64 ∨ n = 128) (hnb : nbits ≤ n) {fs : List Nat} {fv : Nat}
    (hv : digitsVal radix fs = some fv) (hlast : fs ≠ [] → fs.getLast? ≠ some 48) :
    FromStr.getFrac n fs radix nbits = .ok (fracRes radix nbits fs fv) false := by
  have d : ∀ m, (m = 8 ∨ m = 16 ∨ m = 32 ∨ m = 64 ∨ m = 128) → nbits ≤ m →
      FromStr.getFracDirect m fs radix nbits = .ok (fracRes radix nbits fs fv) false :=
    fun m hm hle => getFracDirect_spec hdec hr hm hle hv hlast
  have g16 : nbits ≤ 16 → FromStr.getFrac16 fs radix nbits = .ok (fracRes radix nbits fs fv) false := by
    intro hle
    unfold FromStr.getFrac16 FromStr.getFracHalf
    split
    · exact d 8 (by simp) (by omega)
    · exact d 16 (by simp) hle
  have g32 : nbits ≤ 32 → FromStr.getFrac32 fs radix nbits = .ok (fracRes radix nbits fs fv) false := by
    intro hle
    unfold FromStr.getFrac32 FromStr.getFracHalf
    split
    · exact g16 (by omega)
    · exact d 32 (by simp) hle
  have g128 : nbits ≤ 128 → FromStr.getFrac128 fs radix nbits = .ok (fracRes radix nbits fs fv) false := by
    intro hle
    unfold FromStr.getFrac128 FromStr.getFracHalf
    split
    · exact d 64 (by simp) (by omega)
    · exact d 128 (by simp) hle
  unfold FromStr.getFrac
  rcases hn with rfl | rfl | rfl | rfl | rfl
  · exact d 8 (by simp) hnb
  · exact g16 hnb
  · exact g32 hnb
  · exact d 64 (by simp) hnb
  · exact g128 hnb

end Sfx.ParseTopPf
