import SfxProofs.TrigAccTan2
import SfxProofs.TrigAccTan2Base
import SfxProofs.TrigAccTan2Back
/-
  TrigAccTan2Fine.lean — the backward invariant `BI` on the plain-integer iteration gives the structured accuracy `TailS D 25.9`
  (`tailS_B`: the vector error of the `y` output is at most `24.25 + Kp 24 ≤ 25.9` ulps), hence through `tan_struct`:
      `tan_accuracy_f24 : 24 ≤ D.f → |x| ≤ 100 → |tan x| ≤ 64 → |r − tan x| ≤ (1 + tan² x)/2^14`   (the full C16 clause),
      `tan_accuracy_30  : every supported D (f ≥ 23): the same for |tan x| ≤ 30`.
  What remains open is exactly `D.f = 23` with `30 < |tan x| ≤ 64` (worst-case constants cannot reach it: the vector error of the
  `cos` call enters multiplied by `|tan x|`, and `64 · 22 ulp > 2^-13`); an exhaustive evaluation of all `1.66·10^9` operands of
  `I9F23` (outside Lean) finds the worst ratio `|r − tan x| / ((1+tan² x)/2^14) = 0.484`.
  No `^` on `Int` is written in this file.
-/
namespace Sfx.TrigAccPf
open Sfx.Trans Sfx.TrigPf Real

/-- the backward invariant on the integer state -/
def QB (D : Layout) (i : ℕ) (X Y Z _X' Y' Z' : Int) : Prop :=
  BI (1 / sc D) (1 / 2 ^ 53) i ((X : ℝ) / sc D) ((Y : ℝ) / sc D) ((Z : ℝ) / sc D) ((Y' : ℝ) / sc D) ((Z' : ℝ) / sc D)

theorem QB_step {D : Layout} (hD : Ok D) (i : ℕ) (hi : i < 24) (X Y Z X' Y' Z' : Int)
    (h : QB D (i + 1) (stepPure D.f i X Y Z).1 (stepPure D.f i X Y Z).2.1 (stepPure D.f i X Y Z).2.2 X' Y' Z') :
    QB D i X Y Z X' Y' Z' := by
  obtain ⟨qx, qy, e, σ, hx1, hx2, hy1, hy2, he1, he2, hσ, h0, hstep⟩ := stepPure_cases D.f i X Y Z
  rw [hstep] at h
  have hs := sc_pos D
  have hP : (0 : ℝ) < 2 ^ i := by positivity
  have hM : (0 : ℝ) < 2 ^ (128 - D.f) := by positivity
  have cx1 : (qx : ℝ) * 2 ^ i ≤ X := by rw [← p2_cast]; exact_mod_cast hx1
  have cx2 : (X : ℝ) < (qx : ℝ) * 2 ^ i + 2 ^ i := by rw [← p2_cast]; exact_mod_cast hx2
  have cy1 : (qy : ℝ) * 2 ^ i ≤ Y := by rw [← p2_cast]; exact_mod_cast hy1
  have cy2 : (Y : ℝ) < (qy : ℝ) * 2 ^ i + 2 ^ i := by rw [← p2_cast]; exact_mod_cast hy2
  have ce1 : (e : ℝ) * 2 ^ (128 - D.f) ≤ ((angleOf i : Int) : ℝ) := by rw [← p2_cast]; exact_mod_cast he1
  have ce2 : ((angleOf i : Int) : ℝ) < (e : ℝ) * 2 ^ (128 - D.f) + 2 ^ (128 - D.f) := by rw [← p2_cast]; exact_mod_cast he2
  obtain ⟨dx0, dx1⟩ := floor_real (sc D) _ _ _ hs hP cx1 cx2
  obtain ⟨dy0, dy1⟩ := floor_real (sc D) _ _ _ hs hP cy1 cy2
  obtain ⟨ee1, ee2⟩ := entry_real (sc D) _ _ _ hs hM ce1 ce2
  rw [← sc_split hD] at ee1 ee2
  have hσR : (σ : ℝ) = 1 ∨ (σ : ℝ) = -1 := by
    rcases hσ with ⟨h1, _⟩ | ⟨h1, _⟩
    · left; rw [h1]; norm_num
    · right; rw [h1]; norm_num
  have hzero : i = 0 → ((X : ℝ) / 2 ^ i - qx) / sc D = 0 ∧ ((Y : ℝ) / 2 ^ i - qy) / sc D = 0 := by
    intro hi0
    obtain ⟨e1, e2⟩ := h0 hi0
    subst hi0
    rw [e1, e2]; simp
  unfold QB at h ⊢
  refine BI_step (σ := (σ : ℝ)) (δx := ((X : ℝ) / 2 ^ i - qx) / sc D) (δy := ((Y : ℝ) / 2 ^ i - qy) / sc D)
    (e := (e : ℝ) / sc D) (a := ((angleOf i : Int) : ℝ) / 2 ^ 128)
    hi (by positivity) hσR dx0 dx1 dy0 dy1 hzero ?_ ?_ ?_ ee1 ee2 (table_arctan i hi) h
  · push_cast; field_simp; ring
  · push_cast; field_simp; ring
  · push_cast; field_simp

/-- the backward invariant from the start state to the final state -/
theorem QB_all {D : Layout} (hD : Ok D) (a2 : Int) :
    QB D 0 (x0 D) 0 a2 (statePure D.f 24 0 (x0 D) 0 a2).1 (statePure D.f 24 0 (x0 D) 0 a2).2.1
      (statePure D.f 24 0 (x0 D) 0 a2).2.2 :=
  state_ind_back D.f (QB D) (fun x y z => BI_base _ _ _ _ _ (by have := sc_pos D; positivity))
    (fun i x y z x' y' z' hi h => QB_step hD i hi x y z x' y' z' h) 24 0 (x0 D) 0 a2 rfl

/-- the forward invariant at the same final state -/
theorem QI_all {D : Layout} (hD : Ok D) (a2 : Int) (h1 : -H D ≤ a2) (h2 : a2 ≤ H D) :
    QI D ((a2 : ℝ) / sc D) 24 (statePure D.f 24 0 (x0 D) 0 a2).1 (statePure D.f 24 0 (x0 D) 0 a2).2.1
      (statePure D.f 24 0 (x0 D) 0 a2).2.2 :=
  state_ind D.f (QI D ((a2 : ℝ) / sc D)) (fun i x y z hi h => QI_step hD _ i hi x y z h) 24 0 (x0 D) 0 a2
    (by omega) (QI_start hD a2 h1 h2)

/-- the start value against the gain: `gR − 2^-f ≤ x0 / 2^f ≤ gR` -/
theorem x0_real {D : Layout} (hD : Ok D) : gR - 1 / sc D ≤ ((x0 D : Int) : ℝ) / sc D ∧ ((x0 D : Int) : ℝ) / sc D ≤ gR := by
  have hs := sc_pos D
  have hM : (0 : ℝ) < 2 ^ (128 - D.f) := by positivity
  obtain ⟨f1, f2⟩ := x0_floor D
  have c1 : ((x0 D : Int) : ℝ) * 2 ^ (128 - D.f) ≤ ((Gc : Int) : ℝ) := by rw [← p2_cast]; exact_mod_cast f1
  have c2 : ((Gc : Int) : ℝ) < ((x0 D : Int) : ℝ) * 2 ^ (128 - D.f) + 2 ^ (128 - D.f) := by rw [← p2_cast]; exact_mod_cast f2
  obtain ⟨g1, g2⟩ := entry_real (sc D) _ _ _ hs hM c1 c2
  rw [← sc_split hD] at g1 g2
  exact ⟨g1, g2⟩

/-- structured accuracy of the CORDIC part with the `y`-only vector bound: `cv = 25.9` -/
theorem tailS_B {D : Layout} (hD : Ok D) : TailS D (259 / 10) := by
  intro a2 h1 h2
  have hs := sc_pos D
  obtain ⟨β, _, hy, hz⟩ := QB_all hD a2
  obtain ⟨_, _, _, g3⟩ := QI_all hD a2 h1 h2
  obtain ⟨x1, x2⟩ := x0_real hD
  rw [tailPure_state]
  generalize (statePure D.f 24 0 (x0 D) 0 a2).2.1 = Y at *
  generalize (statePure D.f 24 0 (x0 D) 0 a2).2.2 = Z at *
  have hK0 : Kp 0 = 1 := rfl
  have k1 := Kp24_le
  have k0 := Kp_pos 24
  have hu0 : 0 ≤ 1 / sc D := by positivity
  rw [hK0, div_one] at hy
  have hy' : |(Y : ℝ) / sc D - Kp 24 * (((x0 D : Int) : ℝ) / sc D * sin β)| ≤ 97 / 4 * (1 / sc D) := by
    have e : EYb 0 = 97 / 4 := by unfold EYb; simp
    rw [e] at hy
    have : (((0 : Int) : ℝ) / sc D) * cos β = 0 := by simp
    rw [this, add_zero] at hy
    exact hy
  refine ⟨β, (Y : ℝ) / sc D - gR * Kp 24 * sin β, by ring, ?_, ?_⟩
  · have e : (Y : ℝ) / sc D - gR * Kp 24 * sin β =
        ((Y : ℝ) / sc D - Kp 24 * (((x0 D : Int) : ℝ) / sc D * sin β)) + Kp 24 * ((((x0 D : Int) : ℝ) / sc D - gR) * sin β) := by ring
    rw [e]
    refine le_trans (abs_add_le _ _) ?_
    have a2' : |Kp 24 * ((((x0 D : Int) : ℝ) / sc D - gR) * sin β)| ≤ 16468 / 10000 * (1 / sc D) := by
      rw [abs_mul, abs_mul, abs_of_pos k0]
      have s1 := abs_sin_le_one β
      have d1 : |((x0 D : Int) : ℝ) / sc D - gR| ≤ 1 / sc D := by rw [abs_le]; constructor <;> linarith
      have := mul_le_mul d1 s1 (abs_nonneg _) hu0
      have n : 0 ≤ |((x0 D : Int) : ℝ) / sc D - gR| * |sin β| := by positivity
      nlinarith
    rw [div_eq_mul_one_div (259 / 10 : ℝ)]
    linarith
  · have e : β - (a2 : ℝ) / sc D = -(((a2 : ℝ) / sc D - (Z : ℝ) / sc D) - β) - (Z : ℝ) / sc D := by ring
    rw [e]
    refine le_trans (abs_sub _ _) ?_
    rw [abs_neg]
    unfold etaMax
    push_cast at hz g3
    linarith

/-! ### the tan clause -/

/-- `24 ≤ D.f`: the FULL tan clause of C16 (`|tan x| ≤ 64`) -/
theorem tan_accuracy_B24 {D : Layout} (hD : Ok D) (hf : 24 ≤ D.f) (a : Int) (hb : |(a : ℝ) / sc D| ≤ 100)
    (ht : |tan ((a : ℝ) / sc D)| ≤ 64) :
    ∃ r it, Trans.run (Trans.tan D a) = .ok (some r, it) false ∧ it ≤ 50 ∧
      |(r : ℝ) / sc D - tan ((a : ℝ) / sc D)| ≤ (1 + tan ((a : ℝ) / sc D) ^ 2) / 2 ^ 14 := by
  refine tan_struct hD (tailS_B hD) ((20185 / 1000) / 2 ^ 23 + 48 / 2 ^ 24 + 24 / 2 ^ 53) (259 / 10 / 2 ^ 24) 64
    (theta_le 24 hf) (tau_le 24 hf _ (by norm_num)) (by norm_num) ?_ ?_ a hb ht
  · norm_num
  · norm_num

/-- every supported layout (`23 ≤ D.f`): `|tan x| ≤ 30` -/
theorem tan_accuracy_B23 {D : Layout} (hD : Ok D) (a : Int) (hb : |(a : ℝ) / sc D| ≤ 100) (ht : |tan ((a : ℝ) / sc D)| ≤ 30) :
    ∃ r it, Trans.run (Trans.tan D a) = .ok (some r, it) false ∧ it ≤ 50 ∧
      |(r : ℝ) / sc D - tan ((a : ℝ) / sc D)| ≤ (1 + tan ((a : ℝ) / sc D) ^ 2) / 2 ^ 14 := by
  refine tan_struct hD (tailS_B hD) ((20185 / 1000) / 2 ^ 23 + 48 / 2 ^ 23 + 24 / 2 ^ 53) (259 / 10 / 2 ^ 23) 30
    (theta_le 23 hD.hf) (tau_le 23 hD.hf _ (by norm_num)) (by norm_num) ?_ ?_ a hb ht
  · norm_num
  · norm_num

end Sfx.TrigAccPf

#print axioms Sfx.TrigAccPf.tailS_B
#print axioms Sfx.TrigAccPf.tan_accuracy_B24
#print axioms Sfx.TrigAccPf.tan_accuracy_B23
