import SfxProofs.TrigAccReal
import SfxProofs.TrigAccAtan
/-
  TrigAccTan2Back.lean — a BACKWARD invariant for the `y` output of the CORDIC iteration; no model definitions.
  From the state `(x, y, z)` before step `i`, the FINAL `y'` is `c_i·(x sin β + y cos β)` up to `EYb i` ulps, where
  `c_i = Kp 24 / Kp i` is the remaining gain and `β` (`|β| ≤ 2/2^i`) the remaining true rotation.  Only the `y` component of each
  truncation error vector, rotated by the REMAINING (small) angle, enters: a step costs `c_{i+1}(|sin β'| + |cos β'|) ≤
  (1 + 4^-i/5)(1 + 2^-i)` ulps instead of `√2·c_{i+1}`, in total `EYb 0 = 24.25` instead of `35.4`.
-/
namespace Sfx.TrigAccPf
open Real

/-- `arctan (2^-i) ≤ 2^-i` -/
theorem arctan_inv_pow (i : ℕ) : 0 ≤ arctan (((2 : ℝ) ^ i)⁻¹) ∧ arctan (((2 : ℝ) ^ i)⁻¹) ≤ ((2 : ℝ) ^ i)⁻¹ := by
  have h0 : (0 : ℝ) ≤ ((2 : ℝ) ^ i)⁻¹ := by positivity
  refine ⟨Real.arctan_nonneg.2 h0, ?_⟩
  rcases Nat.eq_zero_or_pos i with h | h
  · subst h
    rw [pow_zero, inv_one, arctan_one]
    have := pi_lt_d20
    norm_num at this ⊢; linarith
  · have hlt : ((2 : ℝ) ^ i)⁻¹ < 1 := by
      rw [inv_lt_one_iff₀]; right
      exact one_lt_pow₀ (by norm_num) (by omega)
    have := (arctan_enclosure _ h0 hlt 0).2
    rw [show 2 * 0 + 1 = 0 + 1 by rfl, gsum_succ, gsum_zero] at this
    unfold gterm at this
    simpa using this

/-- `√(1 + 4^-n) ≤ 1 + 4^-n / 2` -/
theorem sqrt_one_add_le (p : ℝ) (hp : 0 ≤ p) : √(1 + p) ≤ 1 + p / 2 := by
  rw [Real.sqrt_le_iff]
  constructor
  · positivity
  · nlinarith [sq_nonneg p]

/-- the remaining gain: `Kp (i+1+k) ≤ Kp (i+1)·(1 + (4^-i − 4^-(i+k))/5)` -/
theorem Kp_ratio_aux (i : ℕ) : ∀ k : ℕ,
    Kp (i + 1 + k) ≤ Kp (i + 1) * (1 + (1 / (4 : ℝ) ^ i - 1 / (4 : ℝ) ^ (i + k)) / 5)
  | 0 => by simp
  | k + 1 => by
    have ih := Kp_ratio_aux i k
    have hK := Kp_pos (i + 1)
    have hKn := Kp_pos (i + 1 + k)
    have e : Kp (i + 1 + (k + 1)) = Kp (i + 1 + k) * √(1 + (((2 : ℝ) ^ (i + 1 + k))⁻¹) ^ 2) := rfl
    rw [e]
    have h4 : (((2 : ℝ) ^ (i + 1 + k))⁻¹) ^ 2 = 1 / (4 : ℝ) ^ (i + k) / 4 := by
      rw [inv_pow, ← pow_mul, mul_comm, pow_mul]
      have : i + 1 + k = (i + k) + 1 := by omega
      rw [this, pow_succ]; norm_num
      field_simp
    rw [h4]
    set p : ℝ := 1 / (4 : ℝ) ^ (i + k) with hp
    set q0 : ℝ := 1 / (4 : ℝ) ^ i with hq0
    have hp0 : 0 < p := by positivity
    have hpq : p ≤ q0 := by
      rw [hp, hq0]
      apply one_div_le_one_div_of_le (by positivity)
      exact pow_le_pow_right₀ (by norm_num) (by omega)
    have hq1 : q0 ≤ 1 := by
      rw [hq0, div_le_one (by positivity)]
      exact one_le_pow₀ (by norm_num)
    have e2 : 1 / (4 : ℝ) ^ (i + (k + 1)) = p / 4 := by
      rw [hp, show i + (k + 1) = (i + k) + 1 by omega, pow_succ]; field_simp
    rw [e2]
    have hs := sqrt_one_add_le (p / 4) (by positivity)
    have hs0 : 0 ≤ √(1 + p / 4) := Real.sqrt_nonneg _
    calc Kp (i + 1 + k) * √(1 + p / 4) ≤ (Kp (i + 1) * (1 + (q0 - p) / 5)) * (1 + p / 4 / 2) :=
          mul_le_mul ih hs hs0 (by nlinarith)
      _ ≤ Kp (i + 1) * (1 + (q0 - p / 4) / 5) := by
          have : (1 + (q0 - p) / 5) * (1 + p / 4 / 2) ≤ 1 + (q0 - p / 4) / 5 := by nlinarith
          calc Kp (i + 1) * (1 + (q0 - p) / 5) * (1 + p / 4 / 2) = Kp (i + 1) * ((1 + (q0 - p) / 5) * (1 + p / 4 / 2)) := by ring
            _ ≤ Kp (i + 1) * (1 + (q0 - p / 4) / 5) := mul_le_mul_of_nonneg_left this hK.le

/-- `Kp 24 / Kp (i+1) ≤ 1 + 4^-i / 5` -/
theorem Kp_ratio (i : ℕ) (hi : i < 24) : Kp 24 / Kp (i + 1) ≤ 1 + 1 / (4 : ℝ) ^ i / 5 := by
  have hK := Kp_pos (i + 1)
  rw [div_le_iff₀ hK]
  have h := Kp_ratio_aux i (23 - i)
  rw [show i + 1 + (23 - i) = 24 by omega] at h
  refine le_trans h ?_
  rw [mul_comm]
  apply mul_le_mul_of_nonneg_right _ hK.le
  have : (0 : ℝ) < 1 / (4 : ℝ) ^ (i + (23 - i)) := by positivity
  linarith

/-- the error budget (ulps) of the steps `≥ i` for the final `y` -/
noncomputable def EYb (i : ℕ) : ℝ := if i = 0 then 97 / 4 else (24 - (i : ℝ)) + 5 / 2 / 2 ^ i

/-- the backward invariant -/
def BI (u κ : ℝ) (i : ℕ) (x y z y' z' : ℝ) : Prop :=
  ∃ β : ℝ, |β| ≤ 2 / 2 ^ i ∧ |y' - Kp 24 / Kp i * (x * sin β + y * cos β)| ≤ EYb i * u ∧
    |(z - z') - β| ≤ (24 - (i : ℝ)) * (u + κ)

theorem BI_base (u κ x y z : ℝ) (hu : 0 ≤ u) : BI u κ 24 x y z y z := by
  have hK := Kp_pos 24
  refine ⟨0, by rw [abs_zero]; positivity, ?_, ?_⟩
  · rw [div_self hK.ne']; simp [EYb]; positivity
  · simp

/-- the rotation identity behind the step -/
theorem back_rot (x y t σ β : ℝ) (hσ : σ = 1 ∨ σ = -1) :
    (x - σ * (t * y)) * sin β + (y + σ * (t * x)) * cos β =
      √(1 + t ^ 2) * (x * sin (β + σ * arctan t) + y * cos (β + σ * arctan t)) := by
  have hs : 0 < √(1 + t ^ 2) := Real.sqrt_pos.2 (by positivity)
  have hc : cos (σ * arctan t) = 1 / √(1 + t ^ 2) := by
    rcases hσ with rfl | rfl <;> simp [cos_arctan]
  have hsn : sin (σ * arctan t) = σ * t / √(1 + t ^ 2) := by
    rcases hσ with rfl | rfl <;> simp [sin_arctan, neg_div]
  rw [sin_add, cos_add, hc, hsn]
  field_simp
  ring

theorem EYb_step (i : ℕ) (hi : 1 ≤ i) : EYb (i + 1) + (1 + 1 / (4 : ℝ) ^ i / 5) * (1 + 1 / 2 ^ i) ≤ EYb i := by
  unfold EYb
  rw [if_neg (by omega), if_neg (by omega)]
  have h4 : (4 : ℝ) ^ i = (2 : ℝ) ^ i * 2 ^ i := by rw [← mul_pow]; norm_num
  have hs : (1 : ℝ) / 2 ^ i ≤ 1 / 2 := by
    apply one_div_le_one_div_of_le (by norm_num)
    calc (2 : ℝ) = 2 ^ 1 := by norm_num
      _ ≤ 2 ^ i := pow_le_pow_right₀ (by norm_num) hi
  have hs0 : (0 : ℝ) < 1 / 2 ^ i := by positivity
  set s : ℝ := 1 / 2 ^ i with hsd
  have e1 : 1 / (4 : ℝ) ^ i = s * s := by rw [h4, hsd]; field_simp
  have e2 : (5 : ℝ) / 2 / 2 ^ (i + 1) = 5 / 4 * s := by rw [pow_succ, hsd]; field_simp; ring
  have e3 : (5 : ℝ) / 2 / 2 ^ i = 5 / 2 * s := by rw [hsd]; ring
  rw [e1, e2, e3]
  push_cast
  nlinarith [mul_pos hs0 hs0]

theorem BI_step {u κ : ℝ} {i : ℕ} {x y z x1 y1 z1 y' z' σ δx δy e a : ℝ} (hi : i < 24)
    (hu : 0 ≤ u) (hσ : σ = 1 ∨ σ = -1)
    (hx0 : 0 ≤ δx) (hx1 : δx ≤ u) (hy0 : 0 ≤ δy) (hy1 : δy ≤ u) (h0 : i = 0 → δx = 0 ∧ δy = 0)
    (hx' : x1 = x - σ * (((2 : ℝ) ^ i)⁻¹ * y - δy)) (hy' : y1 = y + σ * (((2 : ℝ) ^ i)⁻¹ * x - δx)) (hz' : z1 = z - σ * e)
    (he1 : a - u ≤ e) (he2 : e ≤ a) (ha : |a - arctan (((2 : ℝ) ^ i)⁻¹)| ≤ κ)
    (h : BI u κ (i + 1) x1 y1 z1 y' z') : BI u κ i x y z y' z' := by
  obtain ⟨β, hβ, hy, hz⟩ := h
  set t : ℝ := ((2 : ℝ) ^ i)⁻¹ with ht
  obtain ⟨hθ0, hθ1⟩ := arctan_inv_pow i
  rw [← ht] at hθ0 hθ1
  have hσabs : |σ| = 1 := by rcases hσ with rfl | rfl <;> simp
  have hK := Kp_pos i
  have hK1 := Kp_pos (i + 1)
  have hK24 := Kp_pos 24
  have hKs : Kp (i + 1) = Kp i * √(1 + t ^ 2) := rfl
  have hs : 0 < √(1 + t ^ 2) := Real.sqrt_pos.2 (by positivity)
  refine ⟨β + σ * arctan t, ?_, ?_, ?_⟩
  · -- the remaining angle
    refine le_trans (abs_add_le _ _) ?_
    rw [abs_mul, hσabs, one_mul, abs_of_nonneg hθ0]
    have e : (2 : ℝ) / 2 ^ i = 2 / 2 ^ (i + 1) + t := by rw [ht, pow_succ]; field_simp; ring
    rw [e]; linarith
  · -- the final y
    have hc' : Kp 24 / Kp (i + 1) * √(1 + t ^ 2) = Kp 24 / Kp i := by rw [hKs]; field_simp
    have main : Kp 24 / Kp (i + 1) * (x1 * sin β + y1 * cos β) =
        Kp 24 / Kp i * (x * sin (β + σ * arctan t) + y * cos (β + σ * arctan t)) +
          Kp 24 / Kp (i + 1) * (σ * (δy * sin β - δx * cos β)) := by
      rw [← hc', mul_assoc, ← back_rot x y t σ β hσ, hx', hy']
      ring
    have herr : |Kp 24 / Kp (i + 1) * (σ * (δy * sin β - δx * cos β))| ≤ (EYb i - EYb (i + 1)) * u := by
      rcases Nat.eq_zero_or_pos i with hi0 | hi0
      · obtain ⟨d1, d2⟩ := h0 hi0
        rw [d1, d2]; simp
        subst hi0
        unfold EYb; norm_num
      · have hr := Kp_ratio i hi
        have hst := EYb_step i hi0
        rw [abs_mul, abs_mul, hσabs, one_mul, abs_of_pos (div_pos hK24 hK1)]
        have hb : |β| ≤ 1 / 2 ^ i := by
          have : (2 : ℝ) / 2 ^ (i + 1) = 1 / 2 ^ i := by rw [pow_succ]; field_simp
          rw [← this]; exact hβ
        have hin : |δy * sin β - δx * cos β| ≤ u * (1 + 1 / 2 ^ i) := by
          refine le_trans (abs_sub _ _) ?_
          rw [abs_mul, abs_mul, abs_of_nonneg hy0, abs_of_nonneg hx0]
          have s1 : |sin β| ≤ 1 / 2 ^ i := le_trans (by simpa using abs_sin_sub_sin_le β 0) hb
          have c1 : |cos β| ≤ 1 := abs_cos_le_one β
          have := mul_le_mul hy1 s1 (abs_nonneg _) hu
          have := mul_le_mul hx1 c1 (abs_nonneg _) hu
          nlinarith
        have hpos : (0 : ℝ) ≤ u * (1 + 1 / 2 ^ i) := by positivity
        calc Kp 24 / Kp (i + 1) * |δy * sin β - δx * cos β| ≤ (1 + 1 / (4 : ℝ) ^ i / 5) * (u * (1 + 1 / 2 ^ i)) :=
              mul_le_mul hr hin (abs_nonneg _) (by positivity)
          _ = ((1 + 1 / (4 : ℝ) ^ i / 5) * (1 + 1 / 2 ^ i)) * u := by ring
          _ ≤ (EYb i - EYb (i + 1)) * u := mul_le_mul_of_nonneg_right (by linarith) hu
    have e : y' - Kp 24 / Kp i * (x * sin (β + σ * arctan t) + y * cos (β + σ * arctan t)) =
        (y' - Kp 24 / Kp (i + 1) * (x1 * sin β + y1 * cos β)) + Kp 24 / Kp (i + 1) * (σ * (δy * sin β - δx * cos β)) := by
      rw [main]; ring
    rw [e]
    refine le_trans (abs_add_le _ _) ?_
    nlinarith
  · -- the angle bookkeeping
    have e1 : (z - z') - (β + σ * arctan t) = ((z1 - z') - β) + σ * (e - arctan t) := by rw [hz']; ring
    have e2 : |σ * (e - arctan t)| ≤ u + κ := by
      rw [abs_mul, hσabs, one_mul]
      rw [abs_le] at ha ⊢
      constructor <;> linarith [ha.1, ha.2]
    rw [e1]
    refine le_trans (abs_add_le _ _) ?_
    push_cast at hz
    have : (24 - (i : ℝ)) * (u + κ) = (24 - ((i : ℝ) + 1)) * (u + κ) + (u + κ) := by ring
    rw [this]; linarith

end Sfx.TrigAccPf
