import SfxProofs.TrigAccTan2Fine
import SfxProofs.TrigAccC16
/-
  TrigAccTan2C16.lean — the tan clause of `C16.C16_statement` (SfxProps/C16.lean) as far as worst-case analysis reaches:
    * `tan_accuracy_64_of_f24` / `C16_tan_f24` : the clause WORD FOR WORD (`|tan x| ≤ 64`) for every supported layout with `24 ≤ D.f`;
    * `tan_accuracy_30` / `C16_tan_30`         : for every supported layout (so in particular `D.f = 23`, e.g. `I9F23`) with `|tan x| ≤ 30`;
    * `C16_tan_T`                              : both in one statement, threshold `tanT D.f = if 24 ≤ D.f then 64 else 30`;
    * `C16_holds_f24`                          : the whole body of `C16_statement` (sin, cos and tan clauses) for `24 ≤ D.f`.
  OPEN: `D.f = 23` and `30 < |tan x| ≤ 64`.  Not a defect as far as exhaustive evaluation shows: all `1 677 721 601` operands of `I9F23`
  with `|x| ≤ 100` were evaluated outside Lean (a C transcription of `sinPure`, cross-checked against `#eval` of the model on 50 000
  operands incl. the extremal ones; reference `tanl`, extremal cases re-checked with 80-digit arithmetic): no panic, no ratio above 1,
  worst `|r − tan x| / ((1 + tan² x)/2^14) = 0.48382` at `a = -830333353` (bits `0xCE821E57`, `x ≈ −98.9835`, `tan x ≈ 42.9466`,
  `r = 359805210`).  The same scan for `f = 24, 25, 26` (all operands with `|x| ≤ 100`) gives `0.2360`, `0.1331`, `0.0869`.
-/
namespace Sfx.TrigAccPf
open Sfx.C16 Sfx.C12 Sfx.TrigPf

/-- the full tan clause for `24 ≤ D.f` -/
theorem tan_accuracy_64_of_f24 (D : Layout) (hv : D.valid) (hsg : D.signed = true) (hf : 23 ≤ D.f) (hi : 9 ≤ D.intBits)
    (hf24 : 24 ≤ D.f) (a : Int) (hb : |(a : ℝ) / 2 ^ D.f| ≤ 100) (ht : |Real.tan ((a : ℝ) / 2 ^ D.f)| ≤ 64)
    (r : Int) (it : Nat) (dbg : Bool) (hrun : Trans.run (Trans.tan D a) = .ok (some r, it) dbg) :
    |(r : ℝ) / 2 ^ D.f - Real.tan ((a : ℝ) / 2 ^ D.f)| ≤ (1 + Real.tan ((a : ℝ) / 2 ^ D.f) ^ 2) / 2 ^ 14 := by
  obtain ⟨r', it', h1, _, h3⟩ := tan_accuracy_B24 (D := D) ⟨hv, hsg, hf, hi⟩ hf24 a hb ht
  rw [h1] at hrun
  injection hrun with e1 _
  injection e1 with e2 _
  injection e2 with e3
  rw [← e3]
  exact h3

/-- every supported layout: `|tan x| ≤ 30` -/
theorem tan_accuracy_30 (D : Layout) (hv : D.valid) (hsg : D.signed = true) (hf : 23 ≤ D.f) (hi : 9 ≤ D.intBits)
    (a : Int) (hb : |(a : ℝ) / 2 ^ D.f| ≤ 100) (ht : |Real.tan ((a : ℝ) / 2 ^ D.f)| ≤ 30)
    (r : Int) (it : Nat) (dbg : Bool) (hrun : Trans.run (Trans.tan D a) = .ok (some r, it) dbg) :
    |(r : ℝ) / 2 ^ D.f - Real.tan ((a : ℝ) / 2 ^ D.f)| ≤ (1 + Real.tan ((a : ℝ) / 2 ^ D.f) ^ 2) / 2 ^ 14 := by
  obtain ⟨r', it', h1, _, h3⟩ := tan_accuracy_B23 (D := D) ⟨hv, hsg, hf, hi⟩ a hb ht
  rw [h1] at hrun
  injection hrun with e1 _
  injection e1 with e2 _
  injection e2 with e3
  rw [← e3]
  exact h3

/-- the tan clause of `C16_statement`, word for word, for `24 ≤ D.f` -/
theorem C16_tan_f24 (D : Layout) (hS : Supp D) (hf24 : 24 ≤ D.f) (a : Int) (hb : |val D.f a| ≤ 100)
    (ht : |Real.tan (val D.f a)| ≤ 64) :
    ∀ r it dbg, Trans.run (Trans.tan D a) = .ok (some r, it) dbg →
      |val D.f r - Real.tan (val D.f a)| ≤ (1 + Real.tan (val D.f a) ^ 2) / (2 : ℝ) ^ 14 := by
  obtain ⟨hv, hs, hf, hi⟩ := hS
  exact fun r it dbg h => tan_accuracy_64_of_f24 D hv hs hf hi hf24 a hb ht r it dbg h

/-- the tan clause with `30` in place of `64`, every supported layout -/
theorem C16_tan_30 (D : Layout) (hS : Supp D) (a : Int) (hb : |val D.f a| ≤ 100) (ht : |Real.tan (val D.f a)| ≤ 30) :
    ∀ r it dbg, Trans.run (Trans.tan D a) = .ok (some r, it) dbg →
      |val D.f r - Real.tan (val D.f a)| ≤ (1 + Real.tan (val D.f a) ^ 2) / (2 : ℝ) ^ 14 := by
  obtain ⟨hv, hs, hf, hi⟩ := hS
  exact fun r it dbg h => tan_accuracy_30 D hv hs hf hi a hb ht r it dbg h

/-- the proved threshold on `|tan x|` as a function of the number of fractional bits -/
def tanT (f : Nat) : ℝ := if 24 ≤ f then 64 else 30

/-- both in one statement -/
theorem C16_tan_T (D : Layout) (hS : Supp D) (a : Int) (hb : |val D.f a| ≤ 100) (ht : |Real.tan (val D.f a)| ≤ tanT D.f) :
    ∀ r it dbg, Trans.run (Trans.tan D a) = .ok (some r, it) dbg →
      |val D.f r - Real.tan (val D.f a)| ≤ (1 + Real.tan (val D.f a) ^ 2) / (2 : ℝ) ^ 14 := by
  unfold tanT at ht
  by_cases h : 24 ≤ D.f
  · rw [if_pos h] at ht; exact C16_tan_f24 D hS h a hb ht
  · rw [if_neg h] at ht; exact C16_tan_30 D hS a hb ht

/-- the whole body of `C16.C16_statement` for the layouts with at least 24 fractional bits -/
theorem C16_holds_f24 (D : Layout) (hS : Supp D) (hf24 : 24 ≤ D.f) (a : Int) (ha : inRange D a) :
    (|val D.f a| ≤ 200 →
      (∀ r it dbg, Trans.run (Trans.sin D a) = .ok (some r, it) dbg →
        |val D.f r - Real.sin (val D.f a)| ≤ 1 / (2 : ℝ) ^ 16 ∧ |val D.f r| ≤ 1 + 1 / (2 : ℝ) ^ 16) ∧
      (∀ r it dbg, Trans.run (Trans.cos D a) = .ok (some r, it) dbg →
        |val D.f r - Real.cos (val D.f a)| ≤ 1 / (2 : ℝ) ^ 16 ∧ |val D.f r| ≤ 1 + 1 / (2 : ℝ) ^ 16)) ∧
    (|val D.f a| ≤ 100 → |Real.tan (val D.f a)| ≤ 64 →
      ∀ r it dbg, Trans.run (Trans.tan D a) = .ok (some r, it) dbg →
        |val D.f r - Real.tan (val D.f a)| ≤ (1 + Real.tan (val D.f a) ^ 2) / (2 : ℝ) ^ 14) :=
  ⟨fun hb => C16_sin_cos D hS a ha hb, fun hb ht => C16_tan_f24 D hS hf24 a hb ht⟩

/-- `C16_statement` itself follows from its `D.f = 23` tan instances alone: the only part left open -/
theorem C16_statement_of_f23 (h23 : ∀ D : Layout, Supp D → D.f = 23 → ∀ a : Int, inRange D a →
      |val D.f a| ≤ 100 → 30 < |Real.tan (val D.f a)| → |Real.tan (val D.f a)| ≤ 64 →
      ∀ r it dbg, Trans.run (Trans.tan D a) = .ok (some r, it) dbg →
        |val D.f r - Real.tan (val D.f a)| ≤ (1 + Real.tan (val D.f a) ^ 2) / (2 : ℝ) ^ 14) : C16_statement := by
  intro D hS a ha
  refine ⟨fun hb => C16_sin_cos D hS a ha hb, fun hb ht => ?_⟩
  by_cases h : 24 ≤ D.f
  · exact C16_tan_f24 D hS h a hb ht
  · by_cases h30 : |Real.tan (val D.f a)| ≤ 30
    · exact C16_tan_30 D hS a hb h30
    · have hf : D.f = 23 := by have := hS.2.2.1; omega
      exact h23 D hS hf a ha hb (not_le.1 h30) ht

end Sfx.TrigAccPf

#print axioms Sfx.TrigAccPf.tan_accuracy_64_of_f24
#print axioms Sfx.TrigAccPf.tan_accuracy_30
#print axioms Sfx.TrigAccPf.C16_tan_f24
#print axioms Sfx.TrigAccPf.C16_tan_30
#print axioms Sfx.TrigAccPf.C16_tan_T
#print axioms Sfx.TrigAccPf.C16_holds_f24
#print axioms Sfx.TrigAccPf.C16_statement_of_f23
