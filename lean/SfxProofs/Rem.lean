import SfxModel.Rem
import SfxProofs.PrimLemmas
import SfxProofs.RemLemmas
/-
  Rem.lean — remainder / Euclidean-division property of the model in `SfxModel/Rem.lean` (core Lean only).

  Main theorems (all for an arbitrary layout with `2 ≤ n`, `f ≤ n`, operands in range):
    `rem_spec`, `remEuclid_spec`, `rem_zero`             — `%`, `checked_rem`, `rem_euclid`, `checked_rem_euclid`
    `divEuclid_forms`, `divEuclid_zero`                  — `div_euclid` and its checked/wrapping/saturating/overflowing forms
    `divEuclidInt_forms`                                 — `div_euclid_int` family (`floorInt a / k = a / (k·2^f)`)
    `remInt_spec`                                        — `% k`, `checked_rem_int` (incl. the divisor-does-not-fit branch)
    `remEuclidInt_forms`                                 — `rem_euclid_int` family (unsigned tail `remEuclidIntTail`, `orI` recombination)
    `int_zero`                                           — zero integer divisor
  Every statement was first validated by brute force (`#eval`) on all layouts with n = 8, 3, 2 (both signednesses,
  every f, every operand pair): no mismatch.  Helper lemmas (range facts, `fracPart_eq_rem`, `orI_add`) are in `RemLemmas.lean`.
-/
set_option linter.unusedVariables false
namespace Sfx
open Layout

theorem checkedRem_ok (L : Layout) (hn : 2 ≤ L.n) (hf : L.f ≤ L.n) (a b : Int)
    (ha : inRange L a) (hb : inRange L b) (hb0 : b ≠ 0) : L.checkedRem a b = .ok (some (Int.tmod a b)) false := by
  unfold checkedRem
  rw [if_neg hb0]
  by_cases h : (L.signed && decide (b = -1)) = true
  · rw [if_pos h]
    simp only [Bool.and_eq_true, decide_eq_true_eq] at h
    rw [h.2]; simp [pure]
  · rw [if_neg h]
    have hin : inI L.signed L.n (Int.tdiv a b) := by
      apply tdiv_inI ha hb hb0
      intro hh; apply h; simp [hh.1, hh.2]
    unfold urem
    rw [if_neg hb0, if_neg (fun h => h hin)]
    rfl

theorem rem_spec (L : Layout) (hn : 2 ≤ L.n) (hf : L.f ≤ L.n) (a b : Int)
    (ha : inRange L a) (hb : inRange L b) (hb0 : b ≠ 0) :
    L.remOp a b = .ok (Int.tmod a b) false ∧ L.checkedRem a b = .ok (some (Int.tmod a b)) false := by
  have h := checkedRem_ok L hn hf a b ha hb hb0
  refine ⟨?_, h⟩
  simp [remOp, h, bind, Outcome.bind, pure]

theorem remEuclid_spec (L : Layout) (hn : 2 ≤ L.n) (hf : L.f ≤ L.n) (a b : Int)
    (ha : inRange L a) (hb : inRange L b) (hb0 : b ≠ 0) :
    L.remEuclid a b = .ok (a % b) false ∧ L.checkedRemEuclid a b = .ok (some (a % b)) false := by
  have h : L.checkedRemEuclid a b = .ok (some (a % b)) false := by
    unfold checkedRemEuclid
    rw [if_neg hb0]
    by_cases h : (L.signed && decide (b = -1)) = true
    · rw [if_pos h]
      simp only [Bool.and_eq_true, decide_eq_true_eq] at h
      rw [h.2]; simp [pure]
    · rw [if_neg h]; rfl
  refine ⟨?_, h⟩
  simp [remEuclid, h, bind, Outcome.bind, pure]

theorem rem_zero (L : Layout) (hn : 2 ≤ L.n) (hf : L.f ≤ L.n) (a : Int) (ha : inRange L a) :
    L.checkedRem a 0 = .ok none false ∧ L.remOp a 0 = .panic ∧
    L.checkedRemEuclid a 0 = .ok none false ∧ L.remEuclid a 0 = .panic := by
  have h1 : L.checkedRem a 0 = .ok none false := by simp [checkedRem, pure]
  have h2 : L.checkedRemEuclid a 0 = .ok none false := by simp [checkedRemEuclid, pure]
  refine ⟨h1, ?_, h2, ?_⟩
  · simp [remOp, h1, bind, Outcome.bind]
  · simp [remEuclid, h2, bind, Outcome.bind]

/-! ### `div_euclid` family -/

theorem overflowingDivEuclid_ok (L : Layout) (hn : 0 < L.n) (a b : Int) (hb0 : b ≠ 0) :
    L.overflowingDivEuclid a b = .ok (L.ovf ((a / b) * 2 ^ L.f)) false := by
  unfold overflowingDivEuclid
  rw [if_neg hb0, ← ovf_fromInt L hn]
  rfl

/-- sign of the out-of-range Euclidean quotient, as used by `saturating_div_euclid` -/
theorem clamp_divEuclid (L : Layout) (a b : Int) (hb0 : b ≠ 0)
    (h : ¬ inRange L ((a / b) * 2 ^ L.f)) :
    (if (decide (a > 0) == decide (b > 0)) = true then L.max else L.min) = L.clamp ((a / b) * 2 ^ L.f) := by
  have hmm := minI_le_maxI L.signed L.n
  have hmin : minI L.signed L.n ≤ 0 := by
    have := two_pow_pos (L.n - 1); unfold minI; cases L.signed <;> simp <;> omega
  have hmax : 0 ≤ maxI L.signed L.n := by
    have := two_pow_pos (L.n - 1); have := two_pow_pos L.n; unfold maxI; cases L.signed <;> simp <;> omega
  have hP := two_pow_pos L.f
  unfold inRange inI at h
  unfold clamp clampI Layout.max Layout.min
  by_cases hs : (decide (a > 0) == decide (b > 0)) = true
  · rw [if_pos hs]
    have hq : 0 ≤ a / b := by
      by_cases ha : a > 0
      · have hb : b > 0 := by simpa [ha] using hs
        exact Int.ediv_nonneg (by omega) (by omega)
      · have hb : ¬ b > 0 := by simpa [ha] using hs
        exact Int.ediv_nonneg_of_nonpos_of_nonpos (by omega) (by omega)
    have hE : 0 ≤ a / b * 2 ^ L.f := Int.mul_nonneg hq (Int.le_of_lt hP)
    rw [if_neg (by omega), if_pos (by omega)]
  · rw [if_neg hs]
    have hq : a / b ≤ 0 := by
      by_cases ha : a > 0
      · have hb : ¬ b > 0 := by simpa [ha] using hs
        exact Int.ediv_nonpos_of_nonneg_of_nonpos (by omega) (by omega)
      · have hb : b > 0 := by simpa [ha] using hs
        exact Int.ediv_nonpos_of_nonpos_of_neg (by omega) hb
    have hE : a / b * 2 ^ L.f ≤ 0 := Int.mul_nonpos_of_nonpos_of_nonneg hq (Int.le_of_lt hP)
    rw [if_pos (by omega)]

theorem clamp_of_in (L : Layout) {e : Int} (h : inRange L e) : L.clamp e = e := by
  unfold inRange inI at h
  unfold clamp clampI
  rw [if_neg (by omega), if_neg (by omega)]

theorem divEuclid_forms (L : Layout) (hn : 2 ≤ L.n) (hf : L.f ≤ L.n) (a b : Int)
    (ha : inRange L a) (hb : inRange L b) (hb0 : b ≠ 0) :
    L.overflowingDivEuclid a b = .ok (L.ovf ((a / b) * 2 ^ L.f)) false ∧
    L.checkedDivEuclid a b = .ok (L.chk ((a / b) * 2 ^ L.f)) false ∧
    L.wrappingDivEuclid a b = .ok (L.wrap ((a / b) * 2 ^ L.f)) false ∧
    L.saturatingDivEuclid a b = .ok (L.clamp ((a / b) * 2 ^ L.f)) false ∧
    L.divEuclid a b = .ok (L.wrap ((a / b) * 2 ^ L.f)) (!decide (inRange L ((a / b) * 2 ^ L.f))) := by
  have hn0 : 0 < L.n := by omega
  have h := overflowingDivEuclid_ok L hn0 a b hb0
  have hc : L.checkedDivEuclid a b = .ok (L.chk ((a / b) * 2 ^ L.f)) false := by
    unfold checkedDivEuclid
    rw [if_neg hb0, h]
    simp only [bind, Outcome.bind, pure, Bool.or_false]
    rw [chk_of_ovf L hn0]
  refine ⟨h, hc, ?_, ?_, ?_⟩
  · unfold wrappingDivEuclid; rw [h]; rfl
  · unfold saturatingDivEuclid
    rw [if_neg hb0, hc]
    by_cases hin : inRange L ((a / b) * 2 ^ L.f)
    · rw [chk_of_in L hin, clamp_of_in L hin]; rfl
    · rw [chk_of_not_in L hin, ← clamp_divEuclid L a b hb0 hin]; rfl
  · unfold divEuclid; rw [h]
    simp [bind, Outcome.bind, pure, Outcome.dassert, ovf_fst, ovf_snd]

theorem divEuclid_zero (L : Layout) (hn : 2 ≤ L.n) (hf : L.f ≤ L.n) (a : Int) (ha : inRange L a) :
    L.checkedDivEuclid a 0 = .ok none false ∧ L.overflowingDivEuclid a 0 = .panic ∧
    L.wrappingDivEuclid a 0 = .panic ∧ L.saturatingDivEuclid a 0 = .panic ∧ L.divEuclid a 0 = .panic := by
  have h : L.overflowingDivEuclid a 0 = .panic := by simp [overflowingDivEuclid]
  refine ⟨by simp [checkedDivEuclid, pure], h, ?_, by simp [saturatingDivEuclid], ?_⟩
  · simp [wrappingDivEuclid, h, bind, Outcome.bind]
  · simp [divEuclid, h, bind, Outcome.bind]

/-! ### `div_euclid_int` family -/

theorem floorInt_eq (L : Layout) (hn : 2 ≤ L.n) (hf : L.f ≤ L.n) (a : Int) (ha : inRange L a) :
    L.floorInt a = a / 2 ^ L.f := by
  unfold floorInt
  by_cases h0 : L.intBits = 0
  · rw [if_pos h0]
    unfold intBits at h0
    have hfn : L.f = L.n := by omega
    rw [hfn]
    have hN := two_pow_pos L.n
    have hsp := pow_split (n := L.n) (by omega)
    unfold inRange at ha
    cases hs : L.signed
    · rw [hs, inU_iff] at ha
      rw [if_neg (by omega), Int.ediv_eq_zero_of_lt ha.1 ha.2]
    · rw [hs, inS_iff] at ha
      by_cases hneg : a < 0
      · rw [if_pos hneg]
        have : a / 2 ^ L.n = -1 := by
          have h1 : (a + 2 ^ L.n) / 2 ^ L.n = 0 := Int.ediv_eq_zero_of_lt (by omega) (by omega)
          have h2 : (a + 2 ^ L.n) / 2 ^ L.n = a / 2 ^ L.n + 1 := by
            have := Int.add_mul_ediv_right a 1 (Int.ne_of_gt hN)
            rwa [Int.one_mul] at this
          omega
        omega
      · rw [if_neg hneg, Int.ediv_eq_zero_of_lt (by omega) (by omega)]
  · rw [if_neg h0]; rfl

theorem overflowingDivEuclidInt_ok (L : Layout) (hn : 2 ≤ L.n) (hf : L.f ≤ L.n) (a k : Int)
    (ha : inRange L a) (hk0 : k ≠ 0) :
    L.overflowingDivEuclidInt a k = .ok (L.ovf ((a / (k * 2 ^ L.f)) * 2 ^ L.f)) false := by
  unfold overflowingDivEuclidInt
  have hq : L.floorInt a / k = a / (k * 2 ^ L.f) := by
    rw [floorInt_eq L hn hf a ha, Int.ediv_ediv_of_nonneg (Int.le_of_lt (two_pow_pos L.f)), Int.mul_comm]
  rw [if_neg hk0, ← ovf_fromInt L (by omega), hq]
  rfl

theorem divEuclidInt_forms (L : Layout) (hn : 2 ≤ L.n) (hf : L.f ≤ L.n) (a k : Int)
    (ha : inRange L a) (hk : inRange L k) (hk0 : k ≠ 0) :
    L.overflowingDivEuclidInt a k = .ok (L.ovf ((a / (k * 2 ^ L.f)) * 2 ^ L.f)) false ∧
    L.checkedDivEuclidInt a k = .ok (L.chk ((a / (k * 2 ^ L.f)) * 2 ^ L.f)) false ∧
    L.wrappingDivEuclidInt a k = .ok (L.wrap ((a / (k * 2 ^ L.f)) * 2 ^ L.f)) false ∧
    L.divEuclidInt a k = .ok (L.wrap ((a / (k * 2 ^ L.f)) * 2 ^ L.f))
      (!decide (inRange L ((a / (k * 2 ^ L.f)) * 2 ^ L.f))) := by
  have hn0 : 0 < L.n := by omega
  have h := overflowingDivEuclidInt_ok L hn hf a k ha hk0
  refine ⟨h, ?_, ?_, ?_⟩
  · unfold checkedDivEuclidInt
    rw [if_neg hk0, h]
    simp only [bind, Outcome.bind, pure, Bool.or_false]
    rw [chk_of_ovf L hn0]
  · unfold wrappingDivEuclidInt; rw [h]; rfl
  · unfold divEuclidInt; rw [h]
    simp [bind, Outcome.bind, pure, Outcome.dassert, ovf_fst, ovf_snd]

/-! ### `%` with an integer divisor -/

theorem pow_pred_split {n f : Nat} (hf : f < n) : (2 : Int) ^ (n - 1) = 2 ^ (n - f - 1) * 2 ^ f := by
  rw [← Int.pow_add]; congr 1; omega

/-- the `None` branch of `checked_rem_int` for a signed type: `|k·2^f| ≥ 2^(n-1)` -/
theorem remInt_none_signed (n f : Nat) (hn : 2 ≤ n) (hf : f ≤ n) (a k : Int)
    (ha : inI true n a) (hk : inI true n k) (hB : ¬ inI true n (k * 2 ^ f)) :
    (if a = minI true n ∧ (n - f > 0 ∧ k = shlI true n 1 (n - f - 1)) then 0 else a)
      = Int.tmod a (k * 2 ^ f) := by
  have hM := two_pow_pos (n - 1)
  have hf0 : f ≠ 0 := by
    intro h; subst h; apply hB; simpa using hk
  rw [inS_iff] at ha hk hB
  have hmin : minI true n = -(2 ^ (n - 1)) := by simp [minI]
  -- the shifted constant
  have hshl : n - f > 0 → shlI true n 1 (n - f - 1) = 2 ^ (n - f - 1) := by
    intro h
    unfold shlI wrapI
    rw [Int.one_mul]
    apply wrapS_of_in (by omega)
    rw [inS_iff]
    have := two_pow_pos (n - f - 1)
    have : (2 : Int) ^ (n - f - 1) < 2 ^ (n - 1) := pow_lt_pow (by omega)
    omega
  by_cases hc : a = minI true n ∧ (n - f > 0 ∧ k = shlI true n 1 (n - f - 1))
  · rw [if_pos hc]
    obtain ⟨h1, h2, h3⟩ := hc
    rw [hshl h2] at h3
    rw [h1, hmin, h3, ← pow_pred_split (by omega), Int.neg_tmod_self]
  · rw [if_neg hc]
    symm
    apply tmod_eq_self
    by_cases hlt : a.natAbs < (k * 2 ^ f).natAbs
    · exact hlt
    · exfalso
      -- then `a = MIN` and `k·2^f = 2^(n-1)`
      have hB' : k * 2 ^ f = 2 ^ (n - 1) := by omega
      have ha' : a = -(2 ^ (n - 1)) := by omega
      have hfn : f < n := by
        by_cases hfn : f < n
        · exact hfn
        · have hfe : f = n := by omega
          rw [hfe, pow_split (n := n) (by omega)] at hB'
          have hk1 : 0 < k := by
            have := two_pow_pos f
            apply Int.pos_of_mul_pos_left (b := 2 * 2 ^ (n - 1)) (by omega) (by omega)
          have : 1 * (2 * 2 ^ (n - 1)) ≤ k * (2 * 2 ^ (n - 1)) :=
            Int.mul_le_mul_of_nonneg_right (by omega) (by omega)
          omega
      apply hc
      refine ⟨by rw [hmin]; exact ha', by omega, ?_⟩
      rw [hshl (by omega)]
      rw [pow_pred_split hfn] at hB'
      exact Int.eq_of_mul_eq_mul_right (Int.ne_of_gt (two_pow_pos f)) hB'

theorem checkedRemInt_ok (L : Layout) (hn : 2 ≤ L.n) (hf : L.f ≤ L.n) (a k : Int)
    (ha : inRange L a) (hk : inRange L k) (hk0 : k ≠ 0) :
    L.checkedRemInt a k = .ok (some (Int.tmod a (k * 2 ^ L.f))) false := by
  have hP := two_pow_pos L.f
  have hB0 : k * 2 ^ L.f ≠ 0 := Int.mul_ne_zero hk0 (Int.ne_of_gt hP)
  unfold checkedRemInt checkedFromInt
  by_cases hin : inRange L (k * 2 ^ L.f)
  · rw [chk_of_in L hin]
    exact checkedRem_ok L hn hf a _ ha hin hB0
  · rw [chk_of_not_in L hin]
    simp only
    unfold inRange at ha hk hin
    cases hs : L.signed
    · rw [hs] at ha hk hin
      simp only [Bool.false_eq_true, if_false, pure]
      rw [inU_iff] at ha hk hin
      have h1 : 1 * 2 ^ L.f ≤ k * 2 ^ L.f := Int.mul_le_mul_of_nonneg_right (by omega) (Int.le_of_lt hP)
      rw [Int.tmod_eq_of_lt ha.1 (by omega)]
    · rw [hs] at ha hk hin
      simp only [if_true, pure]
      have := remInt_none_signed L.n L.f hn hf a k ha hk hin
      unfold Layout.min intBits
      rw [hs, this]

theorem remInt_spec (L : Layout) (hn : 2 ≤ L.n) (hf : L.f ≤ L.n) (a k : Int)
    (ha : inRange L a) (hk : inRange L k) (hk0 : k ≠ 0) :
    L.remIntOp a k = .ok (Int.tmod a (k * 2 ^ L.f)) false ∧
    L.checkedRemInt a k = .ok (some (Int.tmod a (k * 2 ^ L.f))) false := by
  have h := checkedRemInt_ok L hn hf a k ha hk hk0
  refine ⟨?_, h⟩
  simp [remIntOp, h, bind, Outcome.bind, pure]

/-! ### `rem_euclid` with an integer divisor -/

theorem Outcome.ok_false_bind_rem {α β} (v : α) (f : α → Outcome β) : (Outcome.ok v false >>= f) = f v := by
  show Outcome.bind (Outcome.ok v false) f = f v
  simp only [Outcome.bind]
  split <;> simp_all

theorem usub_ok_rem {s : Bool} {n : Nat} {x y : Int} (hn : 0 < n) (h : inI s n (x - y)) :
    usub s n x y = .ok (x - y) false := by
  unfold usub; rw [wrapI_of_in hn h]; simp [h]

theorem absU_eq {n : Nat} (hn : 2 ≤ n) {k : Int} (hk : inI true n k) :
    wrapU n (if k < 0 then wrapI true n (-k) else k) = (if k < 0 then -k else k) := by
  have hM := two_pow_pos (n - 1)
  have hsp := pow_split (n := n) (by omega)
  rw [inS_iff] at hk
  by_cases h : k < 0
  · rw [if_pos h, if_pos h]
    obtain ⟨j, hj⟩ := wrapI_eq_add_mul true n (-k)
    rw [hj, wrapU_add_mul]
    apply wrapU_of_in; rw [inU_iff]; omega
  · rw [if_neg h, if_neg h]
    apply wrapU_of_in; rw [inU_iff]; omega

theorem negU_eq {n : Nat} (hn : 2 ≤ n) {x : Int} (hx : inI true n x) (hneg : x < 0) :
    wrapU n (wrapI true n (-x)) = -x := by
  have := absU_eq hn hx
  rwa [if_pos hneg, if_pos hneg] at this

theorem remEuclidIntTail_ok (L : Layout) (hs : L.signed = true) (hn : 2 ≤ L.n) (hfn : L.f < L.n)
    (rem k : Int) (hrem : inRange L rem) (hk : inRange L k) (hneg : rem < 0)
    (hlt : -rem < (if k < 0 then -k else k) * 2 ^ L.f) :
    L.remEuclidIntTail rem k
      = .ok ((if k < 0 then -k else k) + rem / 2 ^ L.f, rem % 2 ^ L.f) false := by
  have hP := two_pow_pos L.f
  have hM := two_pow_pos (L.n - 1)
  have hsp := pow_split (n := L.n) (by omega)
  have hPM : (2 : Int) ^ L.f ≤ 2 ^ (L.n - 1) := pow_le_pow (by omega)
  unfold inRange at hrem hk
  rw [hs] at hrem hk
  have hrem' := hrem
  have hk' := hk
  rw [inS_iff] at hrem' hk'
  -- fraction
  have hm0 : 0 ≤ rem % 2 ^ L.f := Int.emod_nonneg _ (Int.ne_of_gt hP)
  have hm1 : rem % 2 ^ L.f < 2 ^ L.f := Int.emod_lt_of_pos _ hP
  have hfrac : L.fracPart rem = rem % 2 ^ L.f := by
    rw [fracPart_eq_rem L (by omega)]
    unfold wrap; rw [hs]
    apply wrapI_of_in (by omega)
    rw [inS_iff]; omega
  -- integer part of |rem|
  have hri0 : 0 ≤ (-rem) / 2 ^ L.f := Int.ediv_nonneg (by omega) (Int.le_of_lt hP)
  have hri1 : (-rem) / 2 ^ L.f < (if k < 0 then -k else k) := Int.ediv_lt_of_lt_mul hP hlt
  have hri : (-rem) / 2 ^ L.f = -(rem / 2 ^ L.f) - (if rem % 2 ^ L.f > 0 then 1 else 0) := by
    rw [Int.neg_ediv, Int.sign_eq_one_of_pos hP]
    by_cases hd : (2 : Int) ^ L.f ∣ rem
    · rw [if_pos hd, if_neg (by rw [Int.emod_eq_zero_of_dvd hd]; omega)]
    · have : rem % 2 ^ L.f ≠ 0 := fun h => hd (Int.dvd_of_emod_eq_zero h)
      rw [if_neg hd, if_pos (by omega)]
  have hKle : (if k < 0 then -k else k) ≤ 2 ^ (L.n - 1) := by split <;> omega
  unfold remEuclidIntTail
  simp only []
  rw [hs, absU_eq hn hk, negU_eq hn hrem hneg, hfrac]
  unfold shrI
  rw [usub_ok_rem (by omega) (by rw [inU_iff]; omega), Outcome.ok_false_bind_rem,
    usub_ok_rem (by omega) (by rw [inU_iff]; split <;> omega), Outcome.ok_false_bind_rem]
  show Outcome.ok _ false = _
  congr 2
  omega
/-! #### integer analysis of the Euclidean remainder against the truncated one -/

theorem emod_of_tmod_nonneg {a B : Int} (h : 0 ≤ Int.tmod a B) : a % B = Int.tmod a B := by
  rw [Int.emod_eq_tmod]
  by_cases hc : 0 ≤ a ∨ B ∣ a
  · rw [if_pos hc]; omega
  · exfalso; apply hc; right
    have hb := (tmod_bounds a B).2 (by omega)
    exact Int.dvd_of_tmod_eq_zero (by omega)

theorem absK_mul (k P : Int) (hP : 0 < P) :
    ((k * P).natAbs : Int) = (if k < 0 then -k else k) * P := by
  by_cases h : k < 0
  · rw [if_pos h]
    have := Int.mul_neg_of_neg_of_pos h hP
    rw [Int.neg_mul]; omega
  · rw [if_neg h]
    have := Int.mul_nonneg (by omega : 0 ≤ k) (Int.le_of_lt hP)
    omega

theorem emod_of_tmod_neg {a k P : Int} (hP : 0 < P) (hk0 : k ≠ 0) (h : Int.tmod a (k * P) < 0) :
    a % (k * P) = Int.tmod a (k * P) + (if k < 0 then -k else k) * P ∧
    -Int.tmod a (k * P) < (if k < 0 then -k else k) * P := by
  have hB0 : k * P ≠ 0 := Int.mul_ne_zero hk0 (Int.ne_of_gt hP)
  constructor
  · rw [Int.emod_eq_tmod, ← absK_mul k P hP]
    by_cases hc : 0 ≤ a ∨ (k * P) ∣ a
    · exfalso
      rcases hc with hc | hc
      · have := Int.tmod_nonneg (k * P) hc; omega
      · have := Int.tmod_eq_zero_of_dvd hc; omega
    · rw [if_neg hc]
  · rw [← absK_mul k P hP]
    have hx : (a.tmod (k * P)).natAbs = a.natAbs % (k * P).natAbs := Int.natAbs_tmod a _
    have : a.natAbs % (k * P).natAbs < (k * P).natAbs := Nat.mod_lt _ (by omega)
    omega

theorem orI_wrapI_left (s : Bool) (n : Nat) (x y : Int) : orI s n (wrapI s n x) y = orI s n x y := by
  unfold orI; rw [toU_wrapI_rem]

/-- recombination of the integer part `A·2^f` (`A ≥ 0`) with the fraction `rf` -/
theorem tail_combine (L : Layout) (hs : L.signed = true) (hn : 2 ≤ L.n) (hfn : L.f < L.n) (A rf : Int)
    (hA : 0 ≤ A) (h0 : 0 ≤ rf) (h1 : rf < 2 ^ L.f) :
    (inRange L (A * 2 ^ L.f + rf) ↔ inRange L (A * 2 ^ L.f)) ∧
    orI L.signed L.n (L.wrap (A * 2 ^ L.f)) rf = L.wrap (A * 2 ^ L.f + rf) := by
  have hP := two_pow_pos L.f
  have hM := two_pow_pos (L.n - 1)
  have hX : 0 ≤ A * 2 ^ L.f := Int.mul_nonneg hA (Int.le_of_lt hP)
  constructor
  · unfold inRange
    rw [hs, inS_iff, inS_iff]
    constructor
    · intro h; omega
    · intro h
      have hlt := h.2
      rw [pow_pred_split hfn] at hlt ⊢
      have h2 : A < 2 ^ (L.n - L.f - 1) := Int.lt_of_mul_lt_mul_right hlt (Int.le_of_lt hP)
      have h3 : (A + 1) * 2 ^ L.f ≤ 2 ^ (L.n - L.f - 1) * 2 ^ L.f :=
        Int.mul_le_mul_of_nonneg_right (by omega) (Int.le_of_lt hP)
      rw [Int.add_mul, Int.one_mul] at h3
      have := two_pow_pos (L.n - L.f - 1)
      have : 0 ≤ 2 ^ (L.n - L.f - 1) * (2 : Int) ^ L.f := Int.mul_nonneg (by omega) (by omega)
      omega
  · unfold wrap
    rw [orI_wrapI_left]
    exact orI_add L.signed (by omega) ⟨A, Int.mul_comm _ _⟩ h0 h1

theorem ovf_noint (L : Layout) (hs : L.signed = true) (hn : 2 ≤ L.n) (hfn : L.f = L.n) (rem K : Int)
    (hrem : inRange L rem) (hK : 1 ≤ K) : L.ovf (rem + K * 2 ^ L.f) = (rem, true) := by
  have hN := two_pow_pos L.n
  have hsp := pow_split (n := L.n) (by omega)
  unfold ovf ovfI
  unfold inRange at hrem
  rw [hfn, wrapI_add_mul, wrapI_of_in (by omega) hrem]
  congr 1
  simp only [Bool.not_eq_true', decide_eq_false_iff_not]
  rw [hs, inS_iff] at *
  have : 1 * 2 ^ L.n ≤ K * 2 ^ L.n := Int.mul_le_mul_of_nonneg_right hK (Int.le_of_lt hN)
  omega

theorem chk_noint (L : Layout) (hs : L.signed = true) (hn : 2 ≤ L.n) (hfn : L.f = L.n) (rem K : Int)
    (hrem : inRange L rem) (hK : 1 ≤ K) : L.chk (rem + K * 2 ^ L.f) = none := by
  have h := ovf_noint L hs hn hfn rem K hrem hK
  have h2 : (L.ovf (rem + K * 2 ^ L.f)).2 = true := by rw [h]
  rw [ovf_snd] at h2
  apply chk_of_not_in
  simpa using h2


theorem absK_pos {k : Int} (hk0 : k ≠ 0) : 1 ≤ (if k < 0 then -k else k) := by split <;> omega

theorem overflowingRemEuclidInt_ok (L : Layout) (hn : 2 ≤ L.n) (hf : L.f ≤ L.n) (a k : Int)
    (ha : inRange L a) (hk : inRange L k) (hk0 : k ≠ 0) :
    L.overflowingRemEuclidInt a k = .ok (L.ovf (a % (k * 2 ^ L.f))) false := by
  have hP := two_pow_pos L.f
  have hn0 : 0 < L.n := by omega
  have hrem := (remInt_spec L hn hf a k ha hk hk0).1
  have hremin : inRange L (Int.tmod a (k * 2 ^ L.f)) := tmod_inI _ ha
  unfold overflowingRemEuclidInt
  rw [hrem]
  by_cases hs : L.signed = true
  · rw [if_pos hs, Outcome.ok_false_bind_rem]
    by_cases h0 : Int.tmod a (k * 2 ^ L.f) ≥ 0
    · rw [if_pos h0, emod_of_tmod_nonneg h0, ovf_of_in_rem L hn0 hremin]; rfl
    · rw [if_neg h0]
      have hneg : Int.tmod a (k * 2 ^ L.f) < 0 := by omega
      obtain ⟨hE, hlt⟩ := emod_of_tmod_neg hP hk0 hneg
      by_cases hi : L.intBits = 0
      · rw [if_pos hi, hE, ovf_noint L hs hn (by unfold intBits at hi; omega) _ _ hremin (absK_pos hk0)]
        rfl
      · have hfn : L.f < L.n := by unfold intBits at hi; omega
        rw [if_neg hi, remEuclidIntTail_ok L hs hn hfn _ k hremin hk hneg hlt, Outcome.ok_false_bind_rem]
        have hm0 := Int.emod_nonneg (Int.tmod a (k * 2 ^ L.f)) (Int.ne_of_gt hP)
        have hm1 := Int.emod_lt_of_pos (Int.tmod a (k * 2 ^ L.f)) hP
        have hA : 0 ≤ (if k < 0 then -k else k) + Int.tmod a (k * 2 ^ L.f) / 2 ^ L.f := by
          have : -(if k < 0 then -k else k) ≤ Int.tmod a (k * 2 ^ L.f) / 2 ^ L.f := by
            rw [Int.le_ediv_iff_mul_le hP, Int.neg_mul]; omega
          omega
        have hEq : a % (k * 2 ^ L.f) = ((if k < 0 then -k else k) + Int.tmod a (k * 2 ^ L.f) / 2 ^ L.f) * 2 ^ L.f
            + Int.tmod a (k * 2 ^ L.f) % 2 ^ L.f := by
          rw [hE, Int.add_mul]
          have := Int.emod_add_mul_ediv (Int.tmod a (k * 2 ^ L.f)) (2 ^ L.f)
          rw [Int.mul_comm (2 ^ L.f) (_ / _)] at this; omega
        obtain ⟨h1, h2⟩ := tail_combine L hs hn hfn _ _ hA hm0 hm1
        rw [hEq]
        show Outcome.ok (orI L.signed L.n (L.wrap _) _, !decide (inRange L _)) false
          = Outcome.ok (L.wrap _, !decide (inRange L _)) false
        rw [h2, decide_eq_decide.mpr h1]
  · have hs' : L.signed = false := by simpa using hs
    rw [if_neg hs, Outcome.ok_false_bind_rem]
    unfold inRange at ha
    rw [hs', inU_iff] at ha
    rw [emod_of_tmod_nonneg (Int.tmod_nonneg _ ha.1), ovf_of_in_rem L hn0 hremin]; rfl

theorem checkedRemEuclidInt_ok (L : Layout) (hn : 2 ≤ L.n) (hf : L.f ≤ L.n) (a k : Int)
    (ha : inRange L a) (hk : inRange L k) (hk0 : k ≠ 0) :
    L.checkedRemEuclidInt a k = .ok (L.chk (a % (k * 2 ^ L.f))) false := by
  have hP := two_pow_pos L.f
  have hn0 : 0 < L.n := by omega
  have hrem := checkedRemInt_ok L hn hf a k ha hk hk0
  have hremin : inRange L (Int.tmod a (k * 2 ^ L.f)) := tmod_inI _ ha
  unfold checkedRemEuclidInt
  rw [hrem]
  by_cases hs : L.signed = true
  · rw [if_pos hs, Outcome.ok_false_bind_rem]
    dsimp only
    by_cases h0 : Int.tmod a (k * 2 ^ L.f) ≥ 0
    · rw [if_pos h0, emod_of_tmod_nonneg h0, chk_of_in L hremin]; rfl
    · rw [if_neg h0]
      have hneg : Int.tmod a (k * 2 ^ L.f) < 0 := by omega
      obtain ⟨hE, hlt⟩ := emod_of_tmod_neg hP hk0 hneg
      by_cases hi : L.intBits = 0
      · rw [if_pos hi, hE, chk_noint L hs hn (by unfold intBits at hi; omega) _ _ hremin (absK_pos hk0)]
        rfl
      · have hfn : L.f < L.n := by unfold intBits at hi; omega
        rw [if_neg hi, remEuclidIntTail_ok L hs hn hfn _ k hremin hk hneg hlt, Outcome.ok_false_bind_rem]
        have hm0 := Int.emod_nonneg (Int.tmod a (k * 2 ^ L.f)) (Int.ne_of_gt hP)
        have hm1 := Int.emod_lt_of_pos (Int.tmod a (k * 2 ^ L.f)) hP
        have hA : 0 ≤ (if k < 0 then -k else k) + Int.tmod a (k * 2 ^ L.f) / 2 ^ L.f := by
          have : -(if k < 0 then -k else k) ≤ Int.tmod a (k * 2 ^ L.f) / 2 ^ L.f := by
            rw [Int.le_ediv_iff_mul_le hP, Int.neg_mul]; omega
          omega
        have hEq : a % (k * 2 ^ L.f) = ((if k < 0 then -k else k) + Int.tmod a (k * 2 ^ L.f) / 2 ^ L.f) * 2 ^ L.f
            + Int.tmod a (k * 2 ^ L.f) % 2 ^ L.f := by
          rw [hE, Int.add_mul]
          have := Int.emod_add_mul_ediv (Int.tmod a (k * 2 ^ L.f)) (2 ^ L.f)
          rw [Int.mul_comm (2 ^ L.f) (_ / _)] at this; omega
        obtain ⟨h1, h2⟩ := tail_combine L hs hn hfn _ _ hA hm0 hm1
        rw [hEq]
        dsimp only
        by_cases hin : inRange L (((if k < 0 then -k else k) + Int.tmod a (k * 2 ^ L.f) / 2 ^ L.f) * 2 ^ L.f)
        · have hw : L.wrap (((if k < 0 then -k else k) + Int.tmod a (k * 2 ^ L.f) / 2 ^ L.f) * 2 ^ L.f)
              = ((if k < 0 then -k else k) + Int.tmod a (k * 2 ^ L.f) / 2 ^ L.f) * 2 ^ L.f :=
            wrapI_of_in hn0 hin
          rw [hw] at h2
          rw [chk_of_in L hin, chk_of_in L (h1.mpr hin)]
          show Outcome.ok (some (orI L.signed L.n _ _)) false = _
          rw [h2]
          show Outcome.ok (some (wrapI L.signed L.n _)) false = _
          rw [wrapI_of_in hn0 (h1.mpr hin)]
        · rw [chk_of_not_in L hin, chk_of_not_in L (fun h => hin (h1.mp h))]; rfl
  · rw [if_neg hs]
    have hs' : L.signed = false := by simpa using hs
    unfold inRange at ha
    rw [hs', inU_iff] at ha
    rw [emod_of_tmod_nonneg (Int.tmod_nonneg _ ha.1), chk_of_in L hremin]

theorem remEuclidInt_forms (L : Layout) (hn : 2 ≤ L.n) (hf : L.f ≤ L.n) (a k : Int)
    (ha : inRange L a) (hk : inRange L k) (hk0 : k ≠ 0) :
    L.overflowingRemEuclidInt a k = .ok (L.ovf (a % (k * 2 ^ L.f))) false ∧
    L.checkedRemEuclidInt a k = .ok (L.chk (a % (k * 2 ^ L.f))) false ∧
    L.wrappingRemEuclidInt a k = .ok (L.wrap (a % (k * 2 ^ L.f))) false ∧
    L.remEuclidInt a k = .ok (L.wrap (a % (k * 2 ^ L.f))) (!decide (inRange L (a % (k * 2 ^ L.f)))) := by
  have h := overflowingRemEuclidInt_ok L hn hf a k ha hk hk0
  refine ⟨h, checkedRemEuclidInt_ok L hn hf a k ha hk hk0, ?_, ?_⟩
  · unfold wrappingRemEuclidInt; rw [h]; rfl
  · unfold remEuclidInt; rw [h]
    simp [bind, Outcome.bind, pure, Outcome.dassert, ovf_fst, ovf_snd]

theorem int_zero (L : Layout) (hn : 2 ≤ L.n) (hf : L.f ≤ L.n) (a : Int) (ha : inRange L a) :
    L.checkedRemInt a 0 = .ok none false ∧ L.remIntOp a 0 = .panic ∧
    L.checkedRemEuclidInt a 0 = .ok none false ∧ L.overflowingRemEuclidInt a 0 = .panic ∧
    L.checkedDivEuclidInt a 0 = .ok none false ∧ L.overflowingDivEuclidInt a 0 = .panic := by
  have h0 : inRange L 0 := by
    have := two_pow_pos (L.n - 1); have := two_pow_pos L.n
    unfold inRange inI minI maxI; cases L.signed <;> simp <;> omega
  have h1 : L.checkedRemInt a 0 = .ok none false := by
    unfold checkedRemInt checkedFromInt
    rw [Int.zero_mul, chk_of_in L h0]
    simp [checkedRem, pure]
  have h2 : L.remIntOp a 0 = .panic := by simp [remIntOp, h1, bind, Outcome.bind]
  refine ⟨h1, h2, ?_, ?_, by simp [checkedDivEuclidInt, pure], by simp [overflowingDivEuclidInt]⟩
  · unfold checkedRemEuclidInt
    rw [h1]
    cases L.signed <;> simp [bind, Outcome.bind, pure]
  · unfold overflowingRemEuclidInt
    rw [h2]
    cases L.signed <;> simp [bind, Outcome.bind]

end Sfx

#print axioms Sfx.rem_spec
#print axioms Sfx.remEuclid_spec
#print axioms Sfx.rem_zero
#print axioms Sfx.divEuclid_forms
#print axioms Sfx.divEuclid_zero
#print axioms Sfx.divEuclidInt_forms
#print axioms Sfx.remInt_spec
#print axioms Sfx.remEuclidInt_forms
#print axioms Sfx.int_zero
