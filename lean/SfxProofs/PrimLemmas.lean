import SfxModel.Prim
/-
  PrimLemmas.lean — basic facts about `wrapU / wrapS / wrapI / inI` used by every proof file (core Lean only).
-/
namespace Sfx

theorem two_pow_pos (k : Nat) : (0 : Int) < 2 ^ k := Int.pow_pos (by decide)

theorem pow_split {n : Nat} (hn : 0 < n) : (2 : Int) ^ n = 2 * 2 ^ (n - 1) := by
  cases n with
  | zero => omega
  | succ k => simp [Int.pow_succ]; omega

theorem pow_add' (a b : Nat) : (2 : Int) ^ (a + b) = 2 ^ a * 2 ^ b := Int.pow_add ..

theorem pow_le_pow {a b : Nat} (h : a ≤ b) : (2 : Int) ^ a ≤ 2 ^ b := by
  have : (2 : Nat) ^ a ≤ 2 ^ b := Nat.pow_le_pow_right (by decide) h
  exact_mod_cast this

theorem pow_lt_pow {a b : Nat} (h : a < b) : (2 : Int) ^ a < 2 ^ b := by
  have : (2 : Nat) ^ a < 2 ^ b := Nat.pow_lt_pow_right (by decide) h
  exact_mod_cast this

/-! ### unsigned -/

theorem inU_iff (n : Nat) (x : Int) : inI false n x ↔ 0 ≤ x ∧ x < 2 ^ n := by
  unfold inI minI maxI; simp; omega

theorem wrapU_of_in {n : Nat} {x : Int} (h : inI false n x) : wrapU n x = x := by
  rw [inU_iff] at h
  exact Int.emod_eq_of_lt h.1 h.2

theorem wrapU_in (n : Nat) (x : Int) : inI false n (wrapU n x) := by
  rw [inU_iff]; unfold wrapU
  exact ⟨Int.emod_nonneg _ (Int.ne_of_gt (two_pow_pos n)), Int.emod_lt_of_pos _ (two_pow_pos n)⟩

theorem wrapU_add_mul (n : Nat) (x k : Int) : wrapU n (x + k * 2 ^ n) = wrapU n x := by
  unfold wrapU; exact Int.add_mul_emod_self_right ..

theorem wrapU_eq_add_mul (n : Nat) (x : Int) : ∃ k : Int, wrapU n x = x + k * 2 ^ n := by
  refine ⟨-(x / 2 ^ n), ?_⟩
  unfold wrapU
  have := Int.emod_add_mul_ediv x (2 ^ n)
  rw [Int.neg_mul, Int.mul_comm]; omega

/-! ### signed -/

theorem inS_iff (n : Nat) (x : Int) : inI true n x ↔ -(2 ^ (n - 1) : Int) ≤ x ∧ x < 2 ^ (n - 1) := by
  unfold inI minI maxI; simp; omega

theorem wrapS_of_in {n : Nat} (hn : 0 < n) {x : Int} (h : inI true n x) : wrapS n x = x := by
  rw [inS_iff] at h
  unfold wrapS
  have hp := pow_split hn
  have hpos := two_pow_pos (n - 1)
  rw [Int.emod_eq_of_lt (by omega) (by omega)]
  omega

theorem wrapS_in {n : Nat} (hn : 0 < n) (x : Int) : inI true n (wrapS n x) := by
  rw [inS_iff]; unfold wrapS
  have hp := pow_split hn
  have h1 := Int.emod_nonneg (x + 2 ^ (n - 1)) (Int.ne_of_gt (two_pow_pos n))
  have h2 := Int.emod_lt_of_pos (x + 2 ^ (n - 1)) (two_pow_pos n)
  omega

theorem wrapS_add_mul (n : Nat) (x k : Int) : wrapS n (x + k * 2 ^ n) = wrapS n x := by
  unfold wrapS
  have : x + k * 2 ^ n + 2 ^ (n - 1) = (x + 2 ^ (n - 1)) + k * 2 ^ n := by omega
  rw [this, Int.add_mul_emod_self_right]

theorem wrapS_eq_add_mul (n : Nat) (x : Int) : ∃ k : Int, wrapS n x = x + k * 2 ^ n := by
  unfold wrapS
  refine ⟨-((x + 2 ^ (n - 1)) / 2 ^ n), ?_⟩
  have := Int.emod_add_mul_ediv (x + 2 ^ (n - 1)) (2 ^ n)
  rw [Int.neg_mul, Int.mul_comm]; omega

/-! ### either signedness -/

theorem wrapI_of_in {s : Bool} {n : Nat} (hn : 0 < n) {x : Int} (h : inI s n x) : wrapI s n x = x := by
  cases s
  · exact wrapU_of_in h
  · exact wrapS_of_in hn h

theorem wrapI_in {s : Bool} {n : Nat} (hn : 0 < n) (x : Int) : inI s n (wrapI s n x) := by
  cases s
  · exact wrapU_in n x
  · exact wrapS_in hn x

theorem wrapI_add_mul (s : Bool) (n : Nat) (x k : Int) : wrapI s n (x + k * 2 ^ n) = wrapI s n x := by
  cases s
  · exact wrapU_add_mul n x k
  · exact wrapS_add_mul n x k

theorem wrapI_eq_add_mul (s : Bool) (n : Nat) (x : Int) : ∃ k : Int, wrapI s n x = x + k * 2 ^ n := by
  cases s
  · exact wrapU_eq_add_mul n x
  · exact wrapS_eq_add_mul n x

/-- wrapping is idempotent modulo `2^n`: it only depends on the residue -/
theorem wrapI_wrapI (s t : Bool) (n : Nat) (x : Int) : wrapI s n (wrapI t n x) = wrapI s n x := by
  obtain ⟨k, hk⟩ := wrapI_eq_add_mul t n x
  rw [hk, wrapI_add_mul]

theorem wrapI_congr (s : Bool) (n : Nat) {x y : Int} (k : Int) (h : x = y + k * 2 ^ n) : wrapI s n x = wrapI s n y := by
  rw [h, wrapI_add_mul]

theorem minI_le_maxI (s : Bool) (n : Nat) : minI s n ≤ maxI s n := by
  have := two_pow_pos (n - 1); have := two_pow_pos n
  cases s <;> simp [minI, maxI] <;> omega

end Sfx
