import SfxProofs.ExpAccWide
import SfxProps.C15
/-
  ExpAccWideC15.lean — the exp clause of `Sfx.C15.C15_statement` (SfxProps/C15.lean), verbatim, restricted to operands
  `|val x| ≤ frac_nbits / 4`.  (The unrestricted clause is false: `SfxProofs/ExpAccNeg.lean`.)
-/
namespace Sfx.ExpAccPf
open Sfx.C15 Sfx.C12

/-- PROVED part of the exp clause of C15: every supported type, every operand with `4 |x| ≤ f` -/
theorem C15_exp_wide (D : Layout) (h : Supp D) (x : Int) (hx : inRange D x) (hsmall : 4 * |val D.f x| ≤ (D.f : ℝ)) :
    ∀ r it dbg, Trans.run (Trans.exp D D x) = .ok (some r, it) dbg →
      |val D.f r - Real.exp (val D.f x)| ≤ Real.exp (val D.f x) / (2 : ℝ) ^ 20 + 64 / (2 : ℝ) ^ D.f := by
  obtain ⟨hv, hs, hf, hint⟩ := h
  intro r it dbg hrun
  exact exp_accuracy_wide_abs D hv hs hf hint x hx hsmall r it dbg hrun

end Sfx.ExpAccPf

#print axioms Sfx.ExpAccPf.C15_exp_wide
