import SfxProofs.TrigAccTan2Fine
import SfxProofs.TrigAccTan3Corr
import SfxProofs.TrigAccTan3Enum
import SfxProofs.TrigAccTan3Real
/-
  TrigAccTan3.lean — the last open piece of the tan clause of C16: `D.f = 23` (any width: I9F23, I41F23, I105F23), `30 < |tan x| ≤ 64`.
  Near a pole of `tan` the reduced angle of the inner `cos` call lies in a window next to `−π/2` (`window`); on that window the CORDIC part
  has been evaluated EXHAUSTIVELY by the kernel (`enum_all`, 299 000 angles, `TrigAccTan3E00 … E15`) against a certified polynomial
  reference, which bounds the total error of the `cos` call's CORDIC part by `11.05` ulps (`cos_tail_f23`) instead of the worst-case
  `≈ 75`; only the range-reduction ANGLE error (`≤ 19.2` ulp, weighted by `|sin 2x|`) is added analytically (`cos_call_f23`).
  The `sin` call keeps its analytic bound (`sin_call_f23`, `≤ 94` ulp).  `tan_struct_real` then gives the C16 bound for `|tan x| ≤ 64`.
  No `^` on `Int` is written in this file.
-/
namespace Sfx.TrigAccPf
open Sfx.TrigPf Real

theorem sc_f23 {D : Layout} (hf : D.f = 23) : sc D = 8388608 := by
  unfold sc; rw [hf]; norm_num

/-- the inner call of `cos` with the EXACT reduced angle: `sinPure D (a + H) = tailPure D a2` and `sin (a2/2^f) = cos (x + Δ)`
with only the range-reduction error in `Δ` -/
theorem cosS_exact {D : Layout} (hD : Ok D) (a : Int) (hb : |(a : ℝ) / sc D| ≤ 200) :
    ∃ (a2 : Int) (Δ : ℝ), -H D ≤ a2 ∧ a2 ≤ H D ∧ sinPure D (a + H D) = tailPure D a2 ∧
      sin ((a2 : ℝ) / sc D) = cos ((a : ℝ) / sc D + Δ) ∧ |Δ| ≤ rrErr + (127 / 200) / 8388608 := by
  have hs := sc_pos D
  have hW := W_posR D
  have hsW := sc_W hD
  obtain ⟨i1, i2⟩ := int_bounds (D := D) a 200 (by push_cast; exact hb)
  obtain ⟨j1, j2, hr⟩ := shift_bounds hD a i1 i2
  have hH : ((H D : Int) : ℝ) / sc D = H23 := by
    rw [H_eq, hsW]; push_cast; unfold H23; exact ratio _ _ hW
  have hb2 : |((a + H D : Int) : ℝ) / sc D| ≤ 202 := by
    refine abs_div_le_of (a + H D) (202 * p2 D.f) (sc D) 202 hs j1 j2 ?_
    push_cast; rw [p2_cast]; rfl
  obtain ⟨q, a1, a2, d, e1, e2, _, hq, l1, l2, _, _, hm, m1, m2, _⟩ := sin_reduce hD (a + H D) hr
  have hsp : sinPure D (a + H D) = tailPure D a2 := by unfold sinPure; rw [← e1, ← e2]
  have hTT : ((T D : Int) : ℝ) / sc D = T23 := by
    rw [T_eq, hsW]; push_cast; unfold T23; exact ratio _ _ hW
  have x1eq : (a1 : ℝ) / sc D = ((a + H D : Int) : ℝ) / sc D + q * T23 := by
    rw [hq, ← hTT]; push_cast; field_simp
  have x1b : |(a1 : ℝ) / sc D| ≤ 26353589 / 8388608 := by
    refine abs_div_le_of a1 (P D) (sc D) _ hs l1 l2 ?_
    rw [P_eq, hsW]; push_cast; ring
  have hqb := q_bound _ _ q hb2 x1b x1eq
  have x2eq : (a2 : ℝ) / sc D = (a1 : ℝ) / sc D ∨ (a2 : ℝ) / sc D = 2 * H23 - (a1 : ℝ) / sc D ∨
      (a2 : ℝ) / sc D = -(2 * H23) - (a1 : ℝ) / sc D := by
    rcases hm with h | h | h
    · left; rw [h]
    · right; left; rw [h, ← hH]; push_cast; field_simp; ring
    · right; right; rw [h, ← hH]; push_cast; field_simp; ring
  obtain ⟨Δ, hΔ1, hΔ2⟩ := reduce_struct (((a + H D : Int) : ℝ) / sc D) _ _ ((a2 : ℝ) / sc D) q hqb x1eq x2eq
  rw [sub_self, abs_zero, add_zero] at hΔ2
  have xe : ((a + H D : Int) : ℝ) / sc D = (a : ℝ) / sc D + H23 := by
    rw [← hH]; push_cast; field_simp
  have hh := half_pi_23
  refine ⟨a2, Δ + (H23 - π / 2), m1, m2, hsp, ?_, ?_⟩
  · have e3 : (a : ℝ) / sc D + (Δ + (H23 - π / 2)) = ((a : ℝ) / sc D + H23 + Δ) - π / 2 := by ring
    rw [hΔ1, xe, e3, cos_sub_pi_div_two]
  · refine le_trans (abs_add_le _ _) ?_
    have : |H23 - π / 2| ≤ (127 / 200) / 8388608 := by
      have e : H23 - π / 2 = (2 * H23 - π) / 2 := by ring
      rw [e, abs_div, abs_two]; unfold H23; linarith
    unfold rrErr
    linarith

/-- the kernel enumeration on the unit scale: on the window, the CORDIC part is within `11.05` ulps of the true sine -/
theorem cos_tail_f23 {D : Layout} (hf : D.f = 23) (a2 : Int) (h1 : -H D ≤ a2)
    (hw1 : 261000 / 8388608 ≤ (a2 : ℝ) / sc D + H23) (hw2 : (a2 : ℝ) / sc D + H23 < 560000 / 8388608) :
    |((tailPure D a2 : Int) : ℝ) / sc D - sin ((a2 : ℝ) / sc D)| ≤ (1105 / 100) / 8388608 := by
  have hsc := sc_f23 hf
  have hH := H_f23 D hf
  rw [hsc] at hw1 hw2 ⊢
  rw [hH] at h1
  -- the offset from −H as a natural number
  obtain ⟨s, hs⟩ : ∃ s : Nat, (s : Int) = a2 + 13176794 := ⟨(a2 + 13176794).toNat, by omega⟩
  have hsR : (s : ℝ) = (a2 : ℝ) + 13176794 := by exact_mod_cast hs
  have hσ : (a2 : ℝ) / 8388608 + H23 = (s : ℝ) / 8388608 := by rw [hsR]; unfold H23; ring
  rw [hσ] at hw1 hw2
  have hs1 : (261000 : ℝ) ≤ (s : ℝ) := by
    have := (div_le_div_iff_of_pos_right (by norm_num : (0 : ℝ) < 8388608)).1 hw1; exact this
  have hs2 : (s : ℝ) < 560000 := by
    have := (div_lt_div_iff_of_pos_right (by norm_num : (0 : ℝ) < 8388608)).1 hw2; exact this
  have hn1 : 261000 ≤ s := by exact_mod_cast hs1
  have hn2 : s < 560000 := by exact_mod_cast hs2
  -- the kernel-checked fact
  obtain ⟨g1, g2⟩ := goodN_int D hf s (by omega) (enum_all s hn1 hn2)
  have ha2 : -13176794 + (s : Int) = a2 := by omega
  rw [ha2] at g1 g2
  have r1 : (-155838093934698292051968 : ℝ) ≤ ((tailPure D a2 : Int) : ℝ) * 14167099448608935641088 +
      118842243771396506390315925504 - ((s : ℝ) * (s : ℝ)) * 844424930131968 + ((s : ℝ) * (s : ℝ) * (s : ℝ) * (s : ℝ)) := by
    exact_mod_cast g1
  have r2 : ((tailPure D a2 : Int) : ℝ) * 14167099448608935641088 +
      118842243771396506390315925504 - ((s : ℝ) * (s : ℝ)) * 844424930131968 + ((s : ℝ) * (s : ℝ) * (s : ℝ) * (s : ℝ)) ≤
      155838093934698292051968 := by
    exact_mod_cast g2
  have hen := enum_real _ _ r1 r2
  -- the reference polynomial against the true sine
  obtain ⟨hd0, hd1⟩ := d_bounds
  have hsin := sin_as_cos ((a2 : ℝ) / 8388608)
  rw [hσ] at hsin
  have hσ0 : (0 : ℝ) ≤ (s : ℝ) / 8388608 := by positivity
  have hσ1 : (s : ℝ) / 8388608 ≤ 7 / 100 := by
    rw [div_le_iff₀ (by norm_num)]; norm_num; linarith
  have hp := poly_vs_cos ((s : ℝ) / 8388608) (π / 2 - H23) hσ0 hσ1 hd0 hd1
  rw [hsin]
  set σ : ℝ := (s : ℝ) / 8388608 with hσd
  have e : ((tailPure D a2 : Int) : ℝ) / 8388608 - -cos (σ + (π / 2 - H23)) =
      (((tailPure D a2 : Int) : ℝ) / 8388608 + (1 - σ ^ 2 / 2 + σ ^ 4 / 24)) +
        (cos (σ + (π / 2 - H23)) - (1 - σ ^ 2 / 2 + σ ^ 4 / 24)) := by ring
  rw [e]
  refine le_trans (abs_add_le _ _) ?_
  norm_num at hen hp ⊢
  linarith

/-- `1 + cos 2x = 2/(1+tan² x)` between `2/4097` and `2/901` -/
theorem m_bounds (x : ℝ) (hcx : cos x ≠ 0) (ht30 : 30 < |tan x|) (ht : |tan x| ≤ 64) :
    2 / 4097 ≤ 1 + cos (2 * x) ∧ 1 + cos (2 * x) < 2 / 901 := by
  have hm := one_add_cos_two x hcx
  have hm0 : 0 ≤ 1 + cos (2 * x) := by have := neg_one_le_cos (2 * x); linarith
  have ht2 : tan x ^ 2 ≤ 4096 := by
    have := sq_le_sq' (neg_le_of_abs_le ht) (le_of_abs_le ht); norm_num at this ⊢; exact this
  have ht3 : 900 < tan x ^ 2 := by
    have h30 : (30 : ℝ) ^ 2 < |tan x| ^ 2 := pow_lt_pow_left₀ ht30 (by norm_num) (by norm_num)
    rw [sq_abs] at h30; norm_num at h30; exact h30
  have hp : 0 < 1 + cos (2 * x) := by nlinarith
  constructor <;> nlinarith

/-- the angle allowance of the `cos` call (range reduction only) and the vector-like part of its error -/
noncomputable def thC : ℝ := (192 / 10) / 8388608
noncomputable def wC : ℝ := (1105 / 100) / 8388608 + thC ^ 2 / 2

/-- the `cos` call near a pole -/
theorem cos_call_f23 {D : Layout} (hD : Ok D) (hf : D.f = 23) (a : Int) (hb : |(a : ℝ) / sc D| ≤ 100)
    (ht30 : 30 < |tan ((a : ℝ) / sc D)|) (ht : |tan ((a : ℝ) / sc D)| ≤ 64) :
    |((sinPure D (2 * a + H D) : Int) : ℝ) / sc D - cos (2 * ((a : ℝ) / sc D))| ≤
      wC + thC * |sin (2 * ((a : ℝ) / sc D))| := by
  have hcx : cos ((a : ℝ) / sc D) ≠ 0 := cos_ne_zero_dyadic a D.f
  have e2 : ((2 * a : Int) : ℝ) / sc D = 2 * ((a : ℝ) / sc D) := by push_cast; ring
  have b2 : |((2 * a : Int) : ℝ) / sc D| ≤ 200 := by rw [e2, abs_mul, abs_two]; linarith
  obtain ⟨a2, Δ, m1, m2, hsp, hsin, hΔ⟩ := cosS_exact hD (2 * a) b2
  rw [e2] at hsin
  rw [hsp]
  have hs := sc_pos D
  have hW := W_posR D
  have hsW := sc_W hD
  have hH : ((H D : Int) : ℝ) / sc D = H23 := by
    rw [H_eq, hsW]; push_cast; unfold H23; exact ratio _ _ hW
  have hΔ' : |Δ| ≤ thC := by
    refine le_trans hΔ ?_; unfold rrErr thC; norm_num
  generalize (a : ℝ) / sc D = x at *
  -- 1 + cos 2x between 2/4097 and 2/901
  obtain ⟨hmlo, hmhi⟩ := m_bounds x hcx ht30 ht
  -- the reduced angle lies in the window
  have hlip : |cos (2 * x + Δ) - cos (2 * x)| ≤ thC := by
    refine le_trans (abs_cos_sub_cos_le _ _) ?_
    have : 2 * x + Δ - 2 * x = Δ := by ring
    rw [this]; exact hΔ'
  obtain ⟨l1, l2⟩ := abs_le.1 hlip
  have y1 : -H23 ≤ (a2 : ℝ) / sc D := by
    rw [← hH, ← neg_div, div_le_div_iff_of_pos_right hs]; exact_mod_cast m1
  have y2 : (a2 : ℝ) / sc D ≤ H23 := by
    rw [← hH, div_le_div_iff_of_pos_right hs]; exact_mod_cast m2
  obtain ⟨w1, w2⟩ := window ((a2 : ℝ) / sc D) thC y1 y2 (le_refl _) (by rw [hsin]; linarith) (by rw [hsin]; linarith)
  have htail := cos_tail_f23 hf a2 m1 w1 w2
  -- combine
  have hpert := cos_pert (2 * x) Δ
  have hΘ0 : 0 ≤ thC := by unfold thC; positivity
  have hp2 : |Δ| * (|sin (2 * x)| + |Δ| / 2) ≤ thC * (|sin (2 * x)| + thC / 2) :=
    mul_le_mul hΔ' (by linarith [abs_nonneg Δ]) (by positivity) hΘ0
  have e : ((tailPure D a2 : Int) : ℝ) / sc D - cos (2 * x) =
      (((tailPure D a2 : Int) : ℝ) / sc D - sin ((a2 : ℝ) / sc D)) + (cos (2 * x + Δ) - cos (2 * x)) := by rw [hsin]; ring
  rw [e]
  refine le_trans (abs_add_le _ _) ?_
  have e3 : thC * (|sin (2 * x)| + thC / 2) = thC ^ 2 / 2 + thC * |sin (2 * x)| := by ring
  unfold wC
  linarith

/-- the `sin` call: analytic bound, `94` ulps -/
theorem sin_call_f23 {D : Layout} (hD : Ok D) (a : Int) (hb : |(a : ℝ) / sc D| ≤ 100) :
    |((sinPure D (2 * a) : Int) : ℝ) / sc D - sin (2 * ((a : ℝ) / sc D))| ≤ 94 / 8388608 := by
  have e2 : ((2 * a : Int) : ℝ) / sc D = 2 * ((a : ℝ) / sc D) := by push_cast; ring
  have b2 : |((2 * a : Int) : ℝ) / sc D| ≤ 200 := by rw [e2, abs_mul, abs_two]; linarith
  obtain ⟨i1, i2⟩ := int_bounds (D := D) a 100 (by push_cast; exact hb)
  obtain ⟨hr2, _, _⟩ := tan_shape hD a i1 i2
  obtain ⟨Δs, vs, eS, hvs, hΔs⟩ := sinS hD (tailS_B hD) (2 * a) hr2 (le_trans b2 (by norm_num))
  rw [e2] at eS
  have hη := etaMax_le (D := D) 23 hD.hf
  have hτ := tau_le (D := D) 23 hD.hf (259 / 10) (by norm_num)
  have hS := sin_struct_err (gR * Kp 24) (2 * ((a : ℝ) / sc D)) Δs vs _ _ _ gain_close hΔs hvs
  rw [← eS] at hS
  refine le_trans hS ?_
  unfold rrErr
  norm_num at hη hτ ⊢
  linarith

/-- `D.f = 23`, `30 < |tan x| ≤ 64`: the C16 bound, and the call is total -/
theorem tan_accuracy_f23 {D : Layout} (hD : Ok D) (hf : D.f = 23) (a : Int) (hb : |(a : ℝ) / sc D| ≤ 100)
    (ht30 : 30 < |tan ((a : ℝ) / sc D)|) (ht : |tan ((a : ℝ) / sc D)| ≤ 64) :
    ∃ r it, Trans.run (Trans.tan D a) = .ok (some r, it) false ∧ it ≤ 50 ∧
      |(r : ℝ) / sc D - tan ((a : ℝ) / sc D)| ≤ (1 + tan ((a : ℝ) / sc D) ^ 2) / 2 ^ 14 := by
  have hs := sc_pos D
  have hcx : cos ((a : ℝ) / sc D) ≠ 0 := cos_ne_zero_dyadic a D.f
  have hS := sin_call_f23 hD a hb
  have hC := cos_call_f23 hD hf a hb ht30 ht
  have hdiv := tan_div hD a hb
  have hu0 : 0 ≤ 1 / sc D := by positivity
  have hw0 : 0 ≤ wC := by unfold wC thC; positivity
  have hΘ0 : 0 ≤ thC := by unfold thC; positivity
  obtain ⟨hpos, hmain⟩ := tan_struct_real _ _ _ _ wC thC 64 (1 / sc D) hcx hw0 hΘ0 hS hC ht hu0 (inv_sc_le 23 hD.hf)
    (by unfold wC thC; norm_num) (by unfold wC thC; norm_num)
  obtain ⟨q, hq1, hrun⟩ := hdiv hpos
  generalize ((sinPure D (2 * a) : Int) : ℝ) / sc D = S at *
  generalize ((sinPure D (2 * a + H D) : Int) : ℝ) / sc D = C at *
  generalize (a : ℝ) / sc D = x at *
  have hacc : |(q : ℝ) / sc D - tan x| ≤ (1 + tan x ^ 2) / 2 ^ 14 := by
    have e : (q : ℝ) / sc D - tan x = ((q : ℝ) / sc D - S / (1 + C)) + (S / (1 + C) - tan x) := by ring
    rw [e]
    refine le_trans (abs_add_le _ _) ?_
    linarith
  have hqabs : |(q : ℝ) / sc D| ≤ 65 := by
    have e : (q : ℝ) / sc D = ((q : ℝ) / sc D - tan x) + tan x := by ring
    rw [e]
    refine le_trans (abs_add_le _ _) ?_
    have h2 : tan x ^ 2 ≤ 64 ^ 2 := sq_le_sq' (neg_le_of_abs_le ht) (le_of_abs_le ht)
    have h14 : (2 : ℝ) ^ 14 = 16384 := by norm_num
    have : (1 + tan x ^ 2) / 2 ^ 14 ≤ 1 := by
      rw [h14, div_le_one (by norm_num)]; linarith
    linarith
  obtain ⟨j1, j2⟩ := int_bounds (D := D) q 65 (by push_cast; exact hqabs)
  have hp := p2_pos D.f
  obtain ⟨it, hit, hr⟩ := hrun (inRange_255 hD q (by omega) (by omega))
  exact ⟨q, it, hr, hit, hacc⟩

end Sfx.TrigAccPf

#print axioms Sfx.TrigAccPf.cos_tail_f23
#print axioms Sfx.TrigAccPf.tan_accuracy_f23
