import Mathlib.Tactic.Ring
import Mathlib.Tactic.Linarith
import Mathlib.Tactic.Positivity
/-
  SqrtArith.lean — pure integer facts behind the Newton iteration of `transcendental::sqrt`
  (`l ↦ ⌊(l + ⌊X / l⌋) / 2⌋`).  Statements use products only (no `^`), quotients are given by their defining
  inequalities, so the file can be used from Mathlib-free files.
  `s` is the integer square root of `X` (`s*s ≤ X < (s+1)*(s+1)`), `q = ⌊X / l⌋`, `l' = ⌊(l + q) / 2⌋`.
-/
namespace Sfx.SqrtPf

/-- AM–GM: the next iterate is never below the integer square root -/
theorem step_ge (X s l q l' : Int) (h1 : s * s ≤ X) (hl : 0 < l)
    (hq2 : X < (q + 1) * l) (hl'2 : l + q ≤ 2 * l' + 1) : s ≤ l' := by
  by_contra hcon
  have h3 : q + 1 ≤ 2 * s - l := by omega
  have h4 : (q + 1) * l ≤ (2 * s - l) * l := mul_le_mul_of_nonneg_right h3 (le_of_lt hl)
  nlinarith [sq_nonneg (s - l)]

/-- the quotient `⌊X / l⌋` is at most `s + 2` once `l ≥ s` -/
theorem quot_le (X s l q : Int) (hs : 1 ≤ s) (h2 : X < (s + 1) * (s + 1)) (hl : s ≤ l) (hq1 : q * l ≤ X) :
    q ≤ s + 2 := by
  by_contra hcon
  have h3 : s + 3 ≤ q := by omega
  have h4 : (s + 3) * s ≤ q * l := mul_le_mul h3 hl (by omega) (by omega)
  nlinarith

theorem quot_nonneg (X l q : Int) (hX : 0 ≤ X) (hl : 0 < l) (hq2 : X < (q + 1) * l) : 0 ≤ q := by
  by_contra hcon
  have : (q + 1) * l ≤ 0 := mul_nonpos_of_nonpos_of_nonneg (by omega) (le_of_lt hl)
  omega

/-- the basic error recursion: with `t = s + 1`, `2 l (l' − t) ≤ (l − t)² − 1` -/
theorem step_err (X t l q l' : Int) (h2 : X < t * t) (hl : 0 < l) (hq1 : q * l ≤ X) (hl'1 : 2 * l' ≤ l + q) :
    2 * l * (l' - t) ≤ (l - t) * (l - t) - 1 := by
  have h3 : l * (2 * l') ≤ l * (l + q) := mul_le_mul_of_nonneg_left hl'1 (le_of_lt hl)
  nlinarith

/-- halving: above `t` the excess over `t` at least halves -/
theorem step_half (t l l' : Int) (ht : 2 ≤ t) (hl : t ≤ l) (he : 2 * l * (l' - t) ≤ (l - t) * (l - t) - 1) :
    2 * (l' - t) ≤ l - t := by
  by_contra hcon
  have h3 : l - t + 1 ≤ 2 * (l' - t) := by omega
  have h4 : l * (l - t + 1) ≤ l * (2 * (l' - t)) := mul_le_mul_of_nonneg_left h3 (by omega)
  nlinarith [mul_nonneg (show 0 ≤ l - t by omega) (show 0 ≤ l - t by omega)]

/-- stability: from `{s, s+1}` the next iterate is at most `s + 1` -/
theorem step_stable (t l l' : Int) (hl0 : 0 < l) (hl1 : t - 1 ≤ l) (hl : l ≤ t)
    (he : 2 * l * (l' - t) ≤ (l - t) * (l - t) - 1) : l' ≤ t := by
  by_contra hcon
  have h3 : (l - t) * (l - t) - 1 ≤ 0 := by
    have : l - t = 0 ∨ l - t = -1 := by omega
    rcases this with h | h <;> rw [h] <;> norm_num
  have h4 : 0 < 2 * l * (l' - t) := by
    have : 0 < l' - t := by omega
    positivity
  omega

/-- quadratic phase: `K (l − t) ≤ t` implies `2 K² (l' − t) ≤ t` -/
theorem step_quad (K t l l' : Int) (hK : 1 ≤ K) (ht : 0 < t) (hl : t ≤ l) (hK1 : K * (l - t) ≤ t)
    (he : 2 * l * (l' - t) ≤ (l - t) * (l - t) - 1) : 2 * K * K * (l' - t) ≤ t := by
  by_cases hd : l' - t ≤ 0
  · have : 2 * K * K * (l' - t) ≤ 0 := mul_nonpos_of_nonneg_of_nonpos (by positivity) hd
    omega
  · have hd' : 0 < l' - t := by omega
    have h3 : 2 * t * (l' - t) ≤ 2 * l * (l' - t) :=
      mul_le_mul_of_nonneg_right (by omega) (le_of_lt hd')
    have h4 : (K * (l - t)) * (K * (l - t)) ≤ t * t :=
      mul_le_mul hK1 hK1 (mul_nonneg (by omega) (by omega)) (le_of_lt ht)
    have h5 : K * K * (2 * t * (l' - t)) ≤ K * K * ((l - t) * (l - t)) :=
      mul_le_mul_of_nonneg_left (by omega) (by positivity)
    have h6 : t * (2 * K * K * (l' - t)) ≤ t * t := by nlinarith
    exact le_of_mul_le_mul_left h6 ht

/-- the starting value `⌊x/2⌋ + F` is strictly above `√(x F)` -/
theorem start_gt (x F h : Int) (hF : 2 ≤ F) (hx2 : x ≤ 2 * h + 1) :
    x * F < (h + F) * (h + F) := by
  have : x * F ≤ (2 * h + 1) * F := mul_le_mul_of_nonneg_right hx2 (by omega)
  nlinarith [mul_self_nonneg h, mul_nonneg (show 0 ≤ F - 2 by omega) (show 0 ≤ F by omega)]

theorem start_ge_t (X s l0 : Int) (hs : 0 ≤ s) (h1 : s * s ≤ X) (hl0 : X < l0 * l0) (hl00 : 0 ≤ l0) : s + 1 ≤ l0 := by
  by_contra hcon
  have : l0 * l0 ≤ s * s := mul_le_mul (by omega) (by omega) hl00 hs
  omega

/-- the starting value exceeds `t = s+1` by at most the factor `P` when `x ≤ 4 P² F` -/
theorem start_ratio (x F h P X t : Int) (hF : 1 ≤ F) (hxF : F ≤ x) (hh0 : 0 ≤ h) (hh1 : 2 * h ≤ x) (hP : 1 ≤ P)
    (hxP : x ≤ 4 * P * P * F) (hX : X = x * F) (ht0 : 0 < t) (ht : X < t * t) : h + F - t ≤ P * t := by
  by_contra hcon
  have h3 : (P + 1) * t < h + F := by linarith
  have h4 : ((P + 1) * t) * ((P + 1) * t) < (h + F) * (h + F) :=
    mul_lt_mul'' h3 h3 (by positivity) (by positivity)
  have h5 : 4 * ((h + F) * (h + F)) ≤ (x + 2 * F) * (x + 2 * F) := by
    have : 2 * (h + F) ≤ x + 2 * F := by omega
    have := mul_le_mul this this (by omega) (by omega)
    linarith
  have h6 : x * x ≤ x * (4 * P * P * F) := mul_le_mul_of_nonneg_left hxP (by omega)
  have h7 : F * F ≤ x * F := mul_le_mul_of_nonneg_right hxF (by omega)
  have h8 : 0 ≤ x * F := mul_nonneg (by omega) (by omega)
  have h9 : x * F ≤ P * (x * F) := le_mul_of_one_le_left h8 hP
  have h10 : (P + 1) * (P + 1) * X ≤ (P + 1) * (P + 1) * (t * t) :=
    mul_le_mul_of_nonneg_left (le_of_lt ht) (by positivity)
  subst hX
  nlinarith

/-- no overflow: `l + ⌊X/l⌋ ≤ ⌊x/2⌋ + F + s + 2` stays below `M` when `M ≥ 8 F` -/
theorem no_ovf (x F h s M : Int) (hF : 16 ≤ F) (hM : 8 * F ≤ M) (hx : x < M) (hh1 : 2 * h ≤ x) (hs : 0 ≤ s)
    (h1 : s * s ≤ x * F) : h + F + s + 2 < M := by
  by_contra hcon
  have h3 : 3 * M - 19 ≤ 8 * s := by omega
  have h4 : (3 * M - 19) * (3 * M - 19) ≤ (8 * s) * (8 * s) := mul_le_mul h3 h3 (by omega) (by omega)
  have h5 : x * F ≤ M * F := mul_le_mul_of_nonneg_right (le_of_lt hx) (by omega)
  have h6 : M * (8 * F) ≤ M * M := mul_le_mul_of_nonneg_left hM (by omega)
  nlinarith

/-- existence of the integer square root -/
theorem exists_isqrt (X : Int) (hX : 0 ≤ X) : ∃ s : Int, 0 ≤ s ∧ s * s ≤ X ∧ X < (s + 1) * (s + 1) := by
  obtain ⟨n, rfl⟩ := Int.eq_ofNat_of_zero_le hX
  induction n with
  | zero => exact ⟨0, by omega, by simp, by simp⟩
  | succ n ih =>
    obtain ⟨s, h0, h1, h2⟩ := ih (by omega)
    by_cases h : (s + 1) * (s + 1) ≤ (n : Int) + 1
    · exact ⟨s + 1, by omega, by push_cast; linarith, by push_cast; nlinarith⟩
    · exact ⟨s, h0, by push_cast; linarith, by push_cast; linarith⟩

/-! ### the inverted path: `y = ⌊F²/x⌋`, `l ≈ √(y F)` within one unit, `r = ⌊F²/l⌋` -/

/-- `x F < (r + 2)²` -/
theorem inv_upper (x F y l r : Int) (hF : 1 ≤ F) (hx0 : 1 ≤ x) (hx : x ≤ F) (hy1 : x * y ≤ F * F)
    (hl1 : (l - 1) * (l - 1) ≤ y * F) (hl : 1 ≤ l) (hr2 : F * F < (r + 1) * l) (hr : 0 ≤ r) :
    x * F < (r + 2) * (r + 2) := by
  have h1 : x * ((l - 1) * (l - 1)) ≤ x * (y * F) := mul_le_mul_of_nonneg_left hl1 (by omega)
  have h2 : x * y * F ≤ F * F * F := mul_le_mul_of_nonneg_right hy1 (by omega)
  have h3 : x * F ≤ F * F := mul_le_mul_of_nonneg_right hx (by omega)
  have h4 : x * F * (2 * l - 1) ≤ F * F * (2 * l - 1) := mul_le_mul_of_nonneg_right h3 (by omega)
  have h5 : F * (x * ((l - 1) * (l - 1))) ≤ F * (F * F * F) := mul_le_mul_of_nonneg_left (by linarith) (by omega)
  -- x F l² ≤ F⁴ + F² (2l − 1)
  have h6 : x * F * (l * l) ≤ F * F * (F * F) + F * F * (2 * l - 1) := by nlinarith
  have h7 : F * F + 1 + l ≤ (r + 2) * l := by linarith
  have h8 : (F * F + 1 + l) * (F * F + 1 + l) ≤ ((r + 2) * l) * ((r + 2) * l) :=
    mul_le_mul h7 h7 (by positivity) (by positivity)
  have h9 : x * F * (l * l) < (r + 2) * (r + 2) * (l * l) := by nlinarith [mul_pos (show 0 < F by omega) (show 0 < F by omega)]
  exact lt_of_mul_lt_mul_right h9 (by positivity)

/-- `(r − 4)² ≤ x F` -/
theorem inv_lower (x F y l r : Int) (hF : 16 ≤ F) (hx0 : 1 ≤ x) (hx : x ≤ F) (hy1 : x * y ≤ F * F)
    (hy2 : F * F < x * (y + 1)) (hl1 : (l - 1) * (l - 1) ≤ y * F) (hl2 : y * F < (l + 1) * (l + 1)) (hl : F ≤ l)
    (hr1 : r * l ≤ F * F) (hr : 4 ≤ r) : (r - 4) * (r - 4) ≤ x * F := by
  have hFF : 0 < F * F := by positivity
  -- r ≤ F
  have ha : r ≤ F := by
    by_contra hcon
    have : (F + 1) * F ≤ r * l := mul_le_mul (by omega) hl (by omega) (by omega)
    nlinarith
  -- y ≤ F²
  have hy0 : 0 ≤ y := by
    by_contra hcon
    have : x * (y + 1) ≤ 0 := mul_nonpos_of_nonneg_of_nonpos (by omega) (by omega)
    omega
  have hyF : y ≤ F * F := by
    have : 1 * y ≤ x * y := mul_le_mul_of_nonneg_right hx0 hy0
    omega
  -- 4 (l − 1) ≤ F²
  have hd : 4 * (l - 1) ≤ F * F := by
    by_contra hcon
    have h1 : F * F + 1 ≤ 4 * (l - 1) := by omega
    have h2 : (F * F + 1) * (F * F + 1) ≤ (4 * (l - 1)) * (4 * (l - 1)) := mul_le_mul h1 h1 (by positivity) (by omega)
    have h3 : y * F ≤ F * F * F := mul_le_mul_of_nonneg_right hyF (by omega)
    have h4 : 16 * (F * F * F) ≤ F * (F * F * F) := mul_le_mul_of_nonneg_right hF (by positivity)
    nlinarith
  -- x F (l+1)² ≥ F⁴ − F³
  have hb : F * F * (F * F) - F * F * F ≤ x * F * ((l + 1) * (l + 1)) := by
    have h1 : x * (y * F + 1) ≤ x * ((l + 1) * (l + 1)) := mul_le_mul_of_nonneg_left (by omega) (by omega)
    have h2 : (F * F + 1 - x) * F ≤ (x * y) * F := mul_le_mul_of_nonneg_right (by linarith) (by omega)
    have h3 : F * (F * F * F - x * F) ≤ F * (x * ((l + 1) * (l + 1))) := mul_le_mul_of_nonneg_left (by nlinarith) (by omega)
    have h4 : x * (F * F) ≤ F * (F * F) := mul_le_mul_of_nonneg_right hx (by positivity)
    nlinarith
  -- (r − 4)(l + 1) ≤ F² − 3 l − 4
  have hc : (r - 4) * (l + 1) ≤ F * F - 3 * l - 4 := by nlinarith
  have hc0 : 0 ≤ (r - 4) * (l + 1) := mul_nonneg (by omega) (by omega)
  have he : ((r - 4) * (l + 1)) * ((r - 4) * (l + 1)) ≤ (F * F - 3 * l - 4) * (F * F - 3 * l - 4) :=
    mul_le_mul hc hc hc0 (by omega)
  have hf : (F * F - 3 * l - 4) * (F * F - 3 * l - 4) ≤ F * F * (F * F) - F * F * F := by
    have h1 : l * (4 * (l - 1)) ≤ l * (F * F) := mul_le_mul_of_nonneg_left hd (by omega)
    have h2 : F * (F * F) ≤ l * (F * F) := mul_le_mul_of_nonneg_right hl (by positivity)
    have h3 : 16 * 16 ≤ F * F := mul_le_mul hF hF (by omega) (by omega)
    have h4 : l * (16 * 16) ≤ l * (F * F) := mul_le_mul_of_nonneg_left h3 (by omega)
    nlinarith
  have hg : (r - 4) * (r - 4) * ((l + 1) * (l + 1)) ≤ x * F * ((l + 1) * (l + 1)) := by nlinarith
  exact le_of_mul_le_mul_right hg (mul_pos (by omega) (by omega))

end Sfx.SqrtPf
