import Mathlib.Analysis.Complex.ExponentialBounds
import Mathlib.Tactic.Linarith
import Mathlib.Tactic.Ring
import Mathlib.Tactic.Positivity
import Mathlib.Tactic.NormNum
import Mathlib.Tactic.FieldSimp
import Mathlib.Tactic.IntervalCases
import SfxProofs.ExpAccDefs
/-
  ExpAccReal.lean — real analysis of the integer trace of `ExpAccDefs.lean` (no model definitions are involved here).
-/
namespace Sfx.ExpAccPf
open Real Finset

theorem pow2_cast (k : Nat) : ((pow2 k : Int) : ℝ) = 2 ^ k := by
  induction k with
  | zero => simp [pow2]
  | succ k ih => simp only [pow2, Int.cast_mul, ih, pow_succ]; push_cast; ring

theorem pow2_pos (k : Nat) : 0 < pow2 k := by
  induction k with
  | zero => simp [pow2]
  | succ k ih => simp only [pow2]; omega

/-- the term `X^n / n!` of the series -/
noncomputable def Tm (X : ℝ) (n : ℕ) : ℝ := X ^ n / (n.factorial : ℝ)
/-- the partial sum `Σ_{m<n} X^m / m!` -/
noncomputable def Sm (X : ℝ) (n : ℕ) : ℝ := ∑ m ∈ range n, X ^ m / (m.factorial : ℝ)

theorem Tm_succ (X : ℝ) (n : ℕ) : Tm X (n + 1) = Tm X n * (X / ((n : ℝ) + 1)) := by
  unfold Tm
  rw [Nat.factorial_succ, pow_succ]
  have h1 : ((n : ℝ) + 1) ≠ 0 := by positivity
  have h2 : (n.factorial : ℝ) ≠ 0 := by positivity
  push_cast
  field_simp

theorem Sm_succ (X : ℝ) (n : ℕ) : Sm X (n + 1) = Sm X n + Tm X n := by
  unfold Sm Tm
  rw [sum_range_succ]

theorem Tm_one (X : ℝ) : Tm X 1 = X := by simp [Tm]
theorem Sm_two (X : ℝ) : Sm X 2 = 1 + X := by simp [Sm, sum_range_succ]

theorem Tm_nonneg {X : ℝ} (hX : 0 ≤ X) (n : ℕ) : 0 ≤ Tm X n := by unfold Tm; positivity

theorem Sm_le_exp {X : ℝ} (hX : 0 ≤ X) (n : ℕ) : Sm X n ≤ Real.exp X := Real.sum_le_exp_of_nonneg hX n

/-- the tail of the series: `e^X - Σ_{m<n} X^m/m! ≤ 2 X^n / n!` for `0 ≤ X ≤ (n + 1) / 2` -/
theorem exp_le_Sm_add {X : ℝ} (hX : 0 ≤ X) (n : ℕ) (h : X / ((n : ℝ) + 1) ≤ 1 / 2) :
    Real.exp X ≤ Sm X n + Tm X n * 2 := by
  have hc : ‖(X : ℂ)‖ / (n.succ : ℝ) ≤ 1 / 2 := by
    rw [Complex.norm_real, Real.norm_eq_abs, abs_of_nonneg hX]
    push_cast
    exact h
  have hb := Complex.exp_bound' hc
  have e1 : Complex.exp (X : ℂ) - ∑ m ∈ range n, (X : ℂ) ^ m / (m.factorial : ℂ) =
      ((Real.exp X - ∑ m ∈ range n, X ^ m / (m.factorial : ℝ) : ℝ) : ℂ) := by
    push_cast
    rfl
  rw [e1, Complex.norm_real, Real.norm_eq_abs, Complex.norm_real, Real.norm_eq_abs, abs_of_nonneg hX] at hb
  have := (abs_le.1 hb).2
  unfold Sm Tm
  linarith

/-! ### one iteration of the loop -/

/-- the two truncations of one iteration amount to a single floor: `t' ≤ t X / i < t' + 1` -/
theorem step_floor (F x t : Int) (i : Nat) (hF : 0 < F) (hi : 0 < i) :
    (((t * x / F / (i : Int) : Int) : ℝ) ≤ (t : ℝ) * ((x : ℝ) / (F : ℝ)) / (i : ℝ)) ∧
    ((t : ℝ) * ((x : ℝ) / (F : ℝ)) / (i : ℝ) < ((t * x / F / (i : Int) : Int) : ℝ) + 1) := by
  have hi' : (0 : Int) < (i : Int) := by exact_mod_cast hi
  have h1 : t * x / F * F ≤ t * x := Int.ediv_mul_le _ (Int.ne_of_gt hF)
  have h2 : t * x < (t * x / F + 1) * F := Int.lt_ediv_add_one_mul_self _ hF
  have h3 : t * x / F / (i : Int) * (i : Int) ≤ t * x / F := Int.ediv_mul_le _ (Int.ne_of_gt hi')
  have h4 : t * x / F < (t * x / F / (i : Int) + 1) * (i : Int) := Int.lt_ediv_add_one_mul_self _ hi'
  generalize t * x / F / (i : Int) = q2 at *
  generalize t * x / F = q1 at *
  have h4' : q1 + 1 ≤ (q2 + 1) * (i : Int) := h4
  have hFr : (0 : ℝ) < (F : ℝ) := by exact_mod_cast hF
  have hir : (0 : ℝ) < (i : ℝ) := by exact_mod_cast hi
  have g1 : (q1 : ℝ) * F ≤ (t : ℝ) * x := by exact_mod_cast h1
  have g2 : (t : ℝ) * x < ((q1 : ℝ) + 1) * F := by exact_mod_cast h2
  have g3 : (q2 : ℝ) * i ≤ q1 := by exact_mod_cast h3
  have g4 : (q1 : ℝ) + 1 ≤ ((q2 : ℝ) + 1) * i := by exact_mod_cast h4'
  have e : (t : ℝ) * ((x : ℝ) / (F : ℝ)) / (i : ℝ) = (t : ℝ) * x / ((F : ℝ) * i) := by field_simp
  rw [e]
  have hFi : (0 : ℝ) < (F : ℝ) * i := by positivity
  constructor
  · rw [le_div_iff₀ hFi]
    nlinarith
  · rw [div_lt_iff₀ hFi]
    nlinarith

/-- one iteration on the errors: with `e = F·T_j - t` (error of the last term, in ulps) and `E = F·S_{j+1} - R` (error of the
sum): `e·X/(j+1) ≤ e' < e·X/(j+1) + 1` and `E' = E + e'` -/
theorem step_err (F x t R : Int) (j : Nat) (hF : 0 < F) (hx : 0 ≤ x) (ht : 0 ≤ t) :
    0 ≤ t * x / F / ((j + 1 : Nat) : Int) ∧
    ((F : ℝ) * Tm ((x : ℝ) / F) j - t) * (((x : ℝ) / F) / ((j : ℝ) + 1)) ≤
      (F : ℝ) * Tm ((x : ℝ) / F) (j + 1) - ((t * x / F / ((j + 1 : Nat) : Int) : Int) : ℝ) ∧
    (F : ℝ) * Tm ((x : ℝ) / F) (j + 1) - ((t * x / F / ((j + 1 : Nat) : Int) : Int) : ℝ) ≤
      ((F : ℝ) * Tm ((x : ℝ) / F) j - t) * (((x : ℝ) / F) / ((j : ℝ) + 1)) + 1 ∧
    (F : ℝ) * Sm ((x : ℝ) / F) (j + 1 + 1) - ((R + t * x / F / ((j + 1 : Nat) : Int) : Int) : ℝ) =
      ((F : ℝ) * Sm ((x : ℝ) / F) (j + 1) - R) +
        ((F : ℝ) * Tm ((x : ℝ) / F) (j + 1) - ((t * x / F / ((j + 1 : Nat) : Int) : Int) : ℝ)) := by
  obtain ⟨f1, f2⟩ := step_floor F x t (j + 1) hF (Nat.succ_pos j)
  have h0 : 0 ≤ t * x / F / ((j + 1 : Nat) : Int) :=
    Int.ediv_nonneg (Int.ediv_nonneg (Int.mul_nonneg ht hx) (Int.le_of_lt hF)) (by omega)
  generalize t * x / F / ((j + 1 : Nat) : Int) = t' at *
  rw [Sm_succ _ (j + 1), Tm_succ]
  push_cast at f1 f2 ⊢
  have e : (t : ℝ) * ((x : ℝ) / F) / ((j : ℝ) + 1) = (t : ℝ) * (((x : ℝ) / F) / ((j : ℝ) + 1)) := by ring
  rw [e] at f1 f2
  generalize ((x : ℝ) / F) / ((j : ℝ) + 1) = c at *
  refine ⟨h0, ?_, ?_, ?_⟩
  · nlinarith
  · nlinarith
  · ring

/-! ### the loop once `X / i ≤ 1/2`: the potential `E + e` grows by at most 2 per iteration -/

theorem loop_late (F x : Int) (hF : 0 < F) (hx : 0 ≤ x) :
    ∀ (k j : Nat) (t R : Int), 2 * x ≤ ((j : Int) + 1) * F → 0 ≤ t →
      0 ≤ (F : ℝ) * Tm ((x : ℝ) / F) j - t → 0 ≤ (F : ℝ) * Sm ((x : ℝ) / F) (j + 1) - R →
      0 ≤ (F : ℝ) * Sm ((x : ℝ) / F) (j + 1 + k) - (expPure F x k (j + 1) t R : Int) ∧
      (F : ℝ) * Sm ((x : ℝ) / F) (j + 1 + k) - (expPure F x k (j + 1) t R : Int) ≤
        ((F : ℝ) * Sm ((x : ℝ) / F) (j + 1) - R) + ((F : ℝ) * Tm ((x : ℝ) / F) j - t) + 2 * (k : ℝ)
  | 0, j, t, R, _, _, he, hE => by
    show 0 ≤ (F : ℝ) * Sm ((x : ℝ) / F) (j + 1) - (R : Int) ∧ _ ≤ _
    refine ⟨hE, ?_⟩
    show (F : ℝ) * Sm ((x : ℝ) / F) (j + 1) - (R : Int) ≤ _
    push_cast
    linarith
  | k + 1, j, t, R, hj, ht, he, hE => by
    obtain ⟨s0, s1, s2, s3⟩ := step_err F x t R j hF hx ht
    rw [expPure_succ]
    have hFr : (0 : ℝ) < (F : ℝ) := by exact_mod_cast hF
    have hxr : (0 : ℝ) ≤ (x : ℝ) := by exact_mod_cast hx
    have hjr : 2 * (x : ℝ) ≤ ((j : ℝ) + 1) * F := by exact_mod_cast hj
    have hc0 : 0 ≤ ((x : ℝ) / F) / ((j : ℝ) + 1) := by positivity
    have hc1 : ((x : ℝ) / F) / ((j : ℝ) + 1) ≤ 1 / 2 := by
      rw [div_div, div_le_iff₀ (by positivity)]
      linarith
    have he' : 0 ≤ (F : ℝ) * Tm ((x : ℝ) / F) (j + 1) - ((t * x / F / ((j + 1 : Nat) : Int) : Int) : ℝ) :=
      le_trans (mul_nonneg he hc0) s1
    have hE' : 0 ≤ (F : ℝ) * Sm ((x : ℝ) / F) (j + 1 + 1) - ((R + t * x / F / ((j + 1 : Nat) : Int) : Int) : ℝ) := by
      rw [s3]; linarith
    have hj' : 2 * x ≤ (((j + 1 : Nat) : Int) + 1) * F := by
      have : ((j : Int) + 1) * F ≤ (((j + 1 : Nat) : Int) + 1) * F :=
        Int.mul_le_mul_of_nonneg_right (by omega) (Int.le_of_lt hF)
      omega
    obtain ⟨i1, i2⟩ := loop_late F x hF hx k (j + 1) _ _ hj' s0 he' hE'
    have hidx : j + 1 + (k + 1) = j + 1 + 1 + k := by omega
    rw [hidx]
    refine ⟨i1, le_trans i2 ?_⟩
    rw [s3]
    have hhalf : ((F : ℝ) * Tm ((x : ℝ) / F) j - t) * (((x : ℝ) / F) / ((j : ℝ) + 1)) ≤
        ((F : ℝ) * Tm ((x : ℝ) / F) j - t) * (1 / 2) := mul_le_mul_of_nonneg_left hc1 he
    rw [show ((k + 1 : ℕ) : ℝ) = (k : ℝ) + 1 from Nat.cast_succ k]
    linarith

/-! ### numeric side conditions -/

theorem fact_bound : ∀ f : ℕ, 23 ≤ f → 2 * 8 ^ f ≤ f.factorial := by
  intro f hf
  induction f, hf using Nat.le_induction with
  | base => decide +kernel
  | succ n hn ih =>
    rw [Nat.factorial_succ, pow_succ]
    have : 8 ≤ n + 1 := by omega
    calc 2 * (8 ^ n * 8) = 8 * (2 * 8 ^ n) := by ring
      _ ≤ (n + 1) * n.factorial := Nat.mul_le_mul this ih

/-- the omitted tail is below one ulp: `2^f · 2 X^f / f! ≤ 1` for `X ≤ 4`, `f ≥ 23` -/
theorem tail_small (f : ℕ) (hf : 23 ≤ f) (X : ℝ) (h0 : 0 ≤ X) (h4 : X ≤ 4) : (2 : ℝ) ^ f * (Tm X f * 2) ≤ 1 := by
  have hb : ((2 * 8 ^ f : ℕ) : ℝ) ≤ (f.factorial : ℝ) := by exact_mod_cast fact_bound f hf
  push_cast at hb
  have hfac : (0 : ℝ) < (f.factorial : ℝ) := by positivity
  have hX : X ^ f ≤ 4 ^ f := pow_le_pow_left₀ h0 h4 f
  have h8 : (2 : ℝ) ^ f * 4 ^ f = 8 ^ f := by rw [← mul_pow]; norm_num
  have h2 : (0 : ℝ) < 2 ^ f := by positivity
  unfold Tm
  rw [show (2 : ℝ) ^ f * (X ^ f / (f.factorial : ℝ) * 2) = (2 ^ f * X ^ f * 2) / (f.factorial : ℝ) by ring,
    div_le_one hfac]
  nlinarith

/-- the budget: `(2f + 6) ulp ≤ 64 ulp + 2^-20 / K` for `K ≤ 256` -/
theorem budget (f : ℕ) (K : ℝ) (hK0 : 0 < K) (hK : K ≤ 256) :
    K * (2 * (f : ℝ) + 6) * 2 ^ 20 ≤ 64 * K * 2 ^ 20 + 2 ^ f := by
  by_cases h29 : f ≤ 29
  · have h1 : (f : ℝ) ≤ 29 := by exact_mod_cast h29
    have h2 : (0 : ℝ) < 2 ^ f := by positivity
    nlinarith
  · have key : ∀ n : ℕ, 29 ≤ n → K * (2 * (n : ℝ) - 58) * 2 ^ 20 ≤ 2 ^ n ∧ (2 : ℝ) ^ 29 ≤ 2 ^ n := by
      intro n hn
      induction n, hn using Nat.le_induction with
      | base => constructor <;> norm_num
      | succ m hm ih =>
        obtain ⟨a, b⟩ := ih
        rw [pow_succ (2 : ℝ) m]
        push_cast
        have e29 : (2 : ℝ) ^ 29 = 512 * 2 ^ 20 := by norm_num
        have h20 : (0 : ℝ) < 2 ^ 20 := by positivity
        constructor
        · nlinarith
        · linarith
    have := (key f (by omega)).1
    nlinarith

/-- `(2f + 6) / 2^f ≤ 64 / 2^f + z / 2^20` for `z ≥ 1 / K`, `K ≤ 256` -/
theorem budget_div (f : ℕ) (K z : ℝ) (hK0 : 0 < K) (hK : K ≤ 256) (hz : 1 ≤ z * K) :
    (2 * (f : ℝ) + 6) / 2 ^ f ≤ z / 2 ^ 20 + 64 / 2 ^ f := by
  have hb := budget f K hK0 hK
  have hG : (0 : ℝ) < 2 ^ f := by positivity
  have h20 : (0 : ℝ) < 2 ^ 20 := by positivity
  have hz0 : 0 < z := by
    by_contra h
    have : z * K ≤ 0 := mul_nonpos_of_nonpos_of_nonneg (not_lt.1 h) hK0.le
    linarith
  have e : z / 2 ^ 20 + 64 / 2 ^ f = (z * 2 ^ f + 64 * 2 ^ 20) / (2 ^ 20 * 2 ^ f) := by
    field_simp
  rw [e, div_le_div_iff₀ hG (by positivity)]
  -- (2f+6) * (2^20 * G) ≤ (z G + 64 2^20) G
  have h1 : (2 * (f : ℝ) + 6) * 2 ^ 20 ≤ z * 2 ^ f + 64 * 2 ^ 20 := by
    -- multiply the budget by z and use z K ≥ 1
    have hf0 : (0 : ℝ) ≤ (f : ℝ) := Nat.cast_nonneg f
    have h2 : z * (K * (2 * (f : ℝ) + 6) * 2 ^ 20) ≤ z * (64 * K * 2 ^ 20 + 2 ^ f) := mul_le_mul_of_nonneg_left hb hz0.le
    by_cases h58 : 2 * (f : ℝ) + 6 ≤ 64
    · nlinarith
    · have h3 : 0 ≤ (2 * (f : ℝ) + 6 - 64) * 2 ^ 20 := mul_nonneg (by linarith) h20.le
      nlinarith
  calc (2 * (f : ℝ) + 6) * (2 ^ 20 * 2 ^ f) = ((2 * (f : ℝ) + 6) * 2 ^ 20) * 2 ^ f := by ring
    _ ≤ (z * 2 ^ f + 64 * 2 ^ 20) * 2 ^ f := mul_le_mul_of_nonneg_right h1 hG.le

/-! ### the two final steps: the omitted tail, and the truncated reciprocal -/

/-- positive operands: from the error of the truncated sum (`c` ulp, one-sided) to the statement of C15 -/
theorem pos_final (f : ℕ) (hf : 23 ≤ f) (x Rr : Int) (c : ℝ) (hx : 0 ≤ x) (hx4 : (x : ℝ) / 2 ^ f ≤ 4)
    (h0 : 0 ≤ (2 : ℝ) ^ f * Sm ((x : ℝ) / 2 ^ f) f - Rr) (h1 : (2 : ℝ) ^ f * Sm ((x : ℝ) / 2 ^ f) f - Rr ≤ c)
    (hc : c + 1 ≤ 2 * (f : ℝ) + 6) :
    0 ≤ Real.exp ((x : ℝ) / 2 ^ f) - (Rr : ℝ) / 2 ^ f ∧
      Real.exp ((x : ℝ) / 2 ^ f) - (Rr : ℝ) / 2 ^ f ≤ (2 * (f : ℝ) + 6) / 2 ^ f := by
  have hG : (0 : ℝ) < 2 ^ f := by positivity
  have hxr : (0 : ℝ) ≤ (x : ℝ) := by exact_mod_cast hx
  have hX0 : 0 ≤ (x : ℝ) / 2 ^ f := by positivity
  generalize (x : ℝ) / 2 ^ f = X at *
  have hlo := Sm_le_exp hX0 f
  have hhalf : X / ((f : ℝ) + 1) ≤ 1 / 2 := by
    rw [div_le_iff₀ (by positivity)]
    have : (23 : ℝ) ≤ (f : ℝ) := by exact_mod_cast hf
    linarith
  have hhi := exp_le_Sm_add hX0 f hhalf
  have htail := tail_small f hf X hX0 hx4
  have e1 : (Rr : ℝ) / 2 ^ f * 2 ^ f = Rr := by field_simp
  generalize (Rr : ℝ) / 2 ^ f = u at *
  have hlo' : (2 : ℝ) ^ f * Sm X f ≤ 2 ^ f * Real.exp X := mul_le_mul_of_nonneg_left hlo hG.le
  have hhi' : (2 : ℝ) ^ f * Real.exp X ≤ 2 ^ f * (Sm X f + Tm X f * 2) := mul_le_mul_of_nonneg_left hhi hG.le
  constructor
  · have : 0 ≤ (Real.exp X - u) * 2 ^ f := by nlinarith
    exact nonneg_of_mul_nonneg_left this hG
  · rw [le_div_iff₀ hG]
    nlinarith

/-- the truncated reciprocal `w = ⌊1 / v⌋_g` of an approximation `v ∈ [y - δ, y]`, `v ≥ 1`, against `z = 1 / y` -/
theorem recip_real (y v w z g δ : ℝ) (hv1 : 1 ≤ v) (hvy : v ≤ y) (hδ : y - v ≤ δ) (hz : z * y = 1) (hw0 : 0 ≤ w)
    (h1 : w * v ≤ 1) (h2 : 1 < (w + g) * v) (hg : 0 ≤ g) : -g ≤ w - z ∧ w - z ≤ δ := by
  have hy : 0 < y := by linarith
  have hz0 : 0 < z := by
    by_contra h
    have : z * y ≤ 0 := mul_nonpos_of_nonpos_of_nonneg (not_lt.1 h) hy.le
    linarith
  have hz1 : z ≤ 1 := by nlinarith
  constructor
  · -- (w + g) y ≥ (w + g) v > 1 = z y
    have : (w + g) * v ≤ (w + g) * y := mul_le_mul_of_nonneg_left hvy (by linarith)
    have h3 : z * y < (w + g) * y := by linarith
    have := lt_of_mul_lt_mul_right h3 hy.le
    linarith
  · by_contra h
    have h' : δ < w - z := not_le.1 h
    have hδ0 : 0 ≤ δ := by linarith
    have a1 : (w - z) * 1 ≤ (w - z) * v := mul_le_mul_of_nonneg_left hv1 (by linarith)
    have a2 : z * (y - v) ≤ 1 * δ := mul_le_mul hz1 hδ (by linarith) (by norm_num)
    nlinarith

/-- negative operands: from the error of the truncated sum for `|x|` to the statement of C15 for the reciprocal -/
theorem neg_final (f : ℕ) (hf : 23 ≤ f) (x Rr : Int) (c K : ℝ) (hx : 0 ≤ x) (hx4 : (x : ℝ) / 2 ^ f ≤ 4)
    (hRr : pow2 f ≤ Rr)
    (h0 : 0 ≤ (2 : ℝ) ^ f * Sm ((x : ℝ) / 2 ^ f) f - Rr) (h1 : (2 : ℝ) ^ f * Sm ((x : ℝ) / 2 ^ f) f - Rr ≤ c)
    (hc : c + 2 ≤ 2 * (f : ℝ) + 6) (hK : Real.exp ((x : ℝ) / 2 ^ f) ≤ K) (hK256 : K ≤ 256) :
    |((pow2 f * pow2 f / Rr : Int) : ℝ) / 2 ^ f - Real.exp (-((x : ℝ) / 2 ^ f))| ≤
      Real.exp (-((x : ℝ) / 2 ^ f)) / 2 ^ 20 + 64 / 2 ^ f := by
  obtain ⟨p1, p2⟩ := pos_final f hf x Rr (c + 1) hx hx4 h0 (by linarith) (by linarith)
  have hG : (0 : ℝ) < 2 ^ f := by positivity
  have hP := pow2_pos f
  have hR0 : 0 < Rr := by omega
  have i1 : pow2 f * pow2 f / Rr * Rr ≤ pow2 f * pow2 f := Int.ediv_mul_le _ (Int.ne_of_gt hR0)
  have i2 : pow2 f * pow2 f < (pow2 f * pow2 f / Rr + 1) * Rr := Int.lt_ediv_add_one_mul_self _ hR0
  have i0 : 0 ≤ pow2 f * pow2 f / Rr := Int.ediv_nonneg (Int.mul_nonneg hP.le hP.le) hR0.le
  generalize pow2 f * pow2 f / Rr = r at *
  have r1 : (r : ℝ) * Rr ≤ 2 ^ f * 2 ^ f := by
    have : ((r * Rr : Int) : ℝ) ≤ ((pow2 f * pow2 f : Int) : ℝ) := by exact_mod_cast i1
    push_cast at this
    rwa [pow2_cast] at this
  have r2 : (2 : ℝ) ^ f * 2 ^ f < ((r : ℝ) + 1) * Rr := by
    have : ((pow2 f * pow2 f : Int) : ℝ) < (((r + 1) * Rr : Int) : ℝ) := by exact_mod_cast i2
    push_cast at this
    rwa [pow2_cast] at this
  have r0 : (0 : ℝ) ≤ (r : ℝ) := by exact_mod_cast i0
  have hRG : (2 : ℝ) ^ f ≤ (Rr : ℝ) := by
    have : ((pow2 f : Int) : ℝ) ≤ (Rr : ℝ) := by exact_mod_cast hRr
    rwa [pow2_cast] at this
  have hy1 : 1 ≤ Real.exp ((x : ℝ) / 2 ^ f) := by
    have hxr : (0 : ℝ) ≤ (x : ℝ) := by exact_mod_cast hx
    exact Real.one_le_exp (by positivity)
  have hzy : Real.exp (-((x : ℝ) / 2 ^ f)) * Real.exp ((x : ℝ) / 2 ^ f) = 1 := by
    rw [← Real.exp_add]; simp
  generalize Real.exp (-((x : ℝ) / 2 ^ f)) = z at *
  generalize Real.exp ((x : ℝ) / 2 ^ f) = y at *
  have eR : (Rr : ℝ) / 2 ^ f * 2 ^ f = Rr := by field_simp
  have er : (r : ℝ) / 2 ^ f * 2 ^ f = r := by field_simp
  have hv0 : 0 ≤ (Rr : ℝ) / 2 ^ f := by positivity
  have hw0 : 0 ≤ (r : ℝ) / 2 ^ f := by positivity
  generalize (Rr : ℝ) / 2 ^ f = v at *
  generalize (r : ℝ) / 2 ^ f = w at *
  have hg : (0 : ℝ) < 1 / 2 ^ f := by positivity
  have eg : 1 / (2 : ℝ) ^ f * 2 ^ f = 1 := by field_simp
  generalize 1 / (2 : ℝ) ^ f = g at *
  have e_div : ∀ a : ℝ, a / 2 ^ f = a * g := fun a => by
    rw [div_eq_iff hG.ne', mul_assoc, eg, mul_one]
  have hv1 : 1 ≤ v := by
    have : 1 * (2 : ℝ) ^ f ≤ v * 2 ^ f := by rw [eR]; linarith
    exact le_of_mul_le_mul_right this hG
  have q1 : w * v ≤ 1 := by
    have : (w * v) * (2 ^ f * 2 ^ f) ≤ 1 * (2 ^ f * 2 ^ f) := by
      calc (w * v) * (2 ^ f * 2 ^ f) = (w * 2 ^ f) * (v * 2 ^ f) := by ring
        _ = (r : ℝ) * Rr := by rw [er, eR]
        _ ≤ 2 ^ f * 2 ^ f := r1
        _ = 1 * (2 ^ f * 2 ^ f) := by ring
    exact le_of_mul_le_mul_right this (by positivity)
  have q2 : 1 < (w + g) * v := by
    have : 1 * ((2 : ℝ) ^ f * 2 ^ f) < ((w + g) * v) * (2 ^ f * 2 ^ f) := by
      calc 1 * ((2 : ℝ) ^ f * 2 ^ f) = 2 ^ f * 2 ^ f := by ring
        _ < ((r : ℝ) + 1) * Rr := r2
        _ = (w * 2 ^ f + g * 2 ^ f) * (v * 2 ^ f) := by rw [er, eR, eg]
        _ = ((w + g) * v) * (2 ^ f * 2 ^ f) := by ring
    exact lt_of_mul_lt_mul_right this (by positivity)
  obtain ⟨a1, a2⟩ := recip_real y v w z g ((2 * (f : ℝ) + 6) * g) hv1 (by linarith) (by
    have := e_div (2 * (f : ℝ) + 6)
    linarith) hzy hw0 q1 q2 hg.le
  have hK0 : 0 < K := by linarith
  have hbud := budget_div f K z hK0 hK256 (by
    have hz0 : 0 ≤ z := by
      by_contra h
      have : z * y ≤ 0 := mul_nonpos_of_nonpos_of_nonneg (not_le.1 h).le (by linarith)
      linarith
    have : z * y ≤ z * K := mul_le_mul_of_nonneg_left hK hz0
    linarith)
  have e64 : (64 : ℝ) / 2 ^ f = 64 * g := e_div 64
  have e2f : (2 * (f : ℝ) + 6) / 2 ^ f = (2 * (f : ℝ) + 6) * g := e_div _
  rw [e64] at hbud ⊢
  rw [e2f] at hbud
  have hz0 : 0 ≤ z := by
    by_contra h
    have : z * y ≤ 0 := mul_nonpos_of_nonpos_of_nonneg (not_le.1 h).le (by linarith)
    linarith
  have : 0 ≤ z / 2 ^ 20 := by positivity
  rw [abs_le]
  constructor <;> linarith

/-! ### the error of the truncated sum -/

/-- `|X| ≤ 1`: every iteration is in the regime `X / i ≤ 1/2`, the sum loses at most `2 (f - 2)` ulp -/
theorem sum_err_one (f : ℕ) (hf : 2 ≤ f) (y : Int) (hy0 : 0 ≤ y) (hy1 : y ≤ pow2 f) :
    0 ≤ (2 : ℝ) ^ f * Sm ((y : ℝ) / 2 ^ f) f - (expPure (pow2 f) y (f - 2) 2 y (y + pow2 f) : Int) ∧
    (2 : ℝ) ^ f * Sm ((y : ℝ) / 2 ^ f) f - (expPure (pow2 f) y (f - 2) 2 y (y + pow2 f) : Int) ≤ 2 * (f : ℝ) - 4 := by
  have hP := pow2_pos f
  have hG : (0 : ℝ) < 2 ^ f := by positivity
  have e1 : ((pow2 f : Int) : ℝ) * Tm ((y : ℝ) / ((pow2 f : Int) : ℝ)) 1 - (y : ℝ) = 0 := by
    rw [Tm_one, pow2_cast]; field_simp; ring
  have e2 : ((pow2 f : Int) : ℝ) * Sm ((y : ℝ) / ((pow2 f : Int) : ℝ)) (1 + 1) - ((y + pow2 f : Int) : ℝ) = 0 := by
    rw [Sm_two]; push_cast; rw [pow2_cast]; field_simp; ring
  have h := loop_late (pow2 f) y hP hy0 (f - 2) 1 y (y + pow2 f) (by push_cast; omega) hy0 (by rw [e1]) (by rw [e2])
  rw [e1, e2] at h
  have hidx : 1 + 1 + (f - 2) = f := by omega
  rw [hidx, pow2_cast] at h
  have hk : ((f - 2 : ℕ) : ℝ) = (f : ℝ) - 2 := by
    rw [Nat.cast_sub hf]; norm_num
  rw [hk] at h
  refine ⟨h.1, ?_⟩
  linarith [h.2]

/-! ### the statement of C15 for the trace -/

/-- the constant `E` (the `I9F23` truncation of `e`) -/
theorem e_const : |(22802600 : ℝ) / 2 ^ 23 - Real.exp 1| ≤ Real.exp 1 / 2 ^ 20 := by
  have h1 : (2.7182818283 : ℝ) < Real.exp 1 := Real.exp_one_gt_d9
  have h2 : Real.exp 1 < (2.7182818286 : ℝ) := Real.exp_one_lt_d9
  rw [abs_le]
  constructor <;> norm_num at h1 h2 ⊢ <;> linarith

/-- from a one-sided bound `c` ulp (`c ≤ 2f + 4`) on the error of the truncated sum for `|x|`, `|x| ≤ 4`, to the exp clause of C15 -/
theorem exp_real_gen (f : ℕ) (hf : 23 ≤ f) (x r : Int) (c K : ℝ) (hc : c + 2 ≤ 2 * (f : ℝ) + 6) (hK256 : K ≤ 256)
    (hB : |(x : ℝ) / 2 ^ f| ≤ 4) (hK : Real.exp |(x : ℝ) / 2 ^ f| ≤ K)
    (hsum : ∀ y : Int, 0 < y → (y = x ∨ y = -x) →
      0 ≤ (2 : ℝ) ^ f * Sm ((y : ℝ) / 2 ^ f) f - (expPure (pow2 f) y (f - 2) 2 y (y + pow2 f) : Int) ∧
      (2 : ℝ) ^ f * Sm ((y : ℝ) / 2 ^ f) f - (expPure (pow2 f) y (f - 2) 2 y (y + pow2 f) : Int) ≤ c)
    (h : ExpSpec f x r) :
    |(r : ℝ) / 2 ^ f - Real.exp ((x : ℝ) / 2 ^ f)| ≤ Real.exp ((x : ℝ) / 2 ^ f) / 2 ^ 20 + 64 / 2 ^ f := by
  have hG : (0 : ℝ) < 2 ^ f := by positivity
  have hrhs : ∀ X : ℝ, 0 ≤ Real.exp X / 2 ^ 20 + 64 / 2 ^ f := fun X => by positivity
  rcases h with ⟨hx, hr⟩ | ⟨hx, hr⟩ | ⟨hx, hr⟩ | ⟨hx, hr⟩
  · -- x = 0
    subst hx hr
    rw [pow2_cast]
    simp only [Int.cast_zero, zero_div, Real.exp_zero]
    rw [div_self hG.ne', sub_self, abs_zero]
    positivity
  · -- x = 1
    subst hx hr
    have hsplit : (2 : ℝ) ^ f = 2 ^ 23 * 2 ^ (f - 23) := by rw [← pow_add]; congr 1; omega
    have hQ : (0 : ℝ) < 2 ^ (f - 23) := by positivity
    have e1 : ((pow2 f : Int) : ℝ) / 2 ^ f = 1 := by rw [pow2_cast, div_self hG.ne']
    have e2 : ((22802600 * pow2 (f - 23) : Int) : ℝ) / 2 ^ f = 22802600 / 2 ^ 23 := by
      push_cast
      rw [pow2_cast, hsplit]
      field_simp
    rw [e1, e2]
    have := e_const
    have : (0 : ℝ) ≤ 64 / 2 ^ f := by positivity
    linarith
  · -- x > 0
    have hxr : (0 : ℝ) < (x : ℝ) := by exact_mod_cast hx
    have hX0 : 0 ≤ (x : ℝ) / 2 ^ f := by positivity
    rw [abs_of_nonneg hX0] at hB
    obtain ⟨s0, s1⟩ := hsum x hx (Or.inl rfl)
    rw [← hr] at s0 s1
    obtain ⟨p1, p2⟩ := pos_final f hf x r c hx.le hB s0 s1 (by linarith)
    have hb := budget_div f 1 (Real.exp ((x : ℝ) / 2 ^ f)) (by norm_num) (by norm_num)
      (by rw [mul_one]; exact Real.one_le_exp hX0)
    have := hrhs ((x : ℝ) / 2 ^ f)
    rw [abs_le]
    constructor <;> linarith
  · -- x < 0
    have hxr : (x : ℝ) < 0 := by exact_mod_cast hx
    have hX0 : (x : ℝ) / 2 ^ f ≤ 0 := div_nonpos_of_nonpos_of_nonneg hxr.le hG.le
    rw [abs_of_nonpos hX0] at hB hK
    have eneg : (((-x : Int) : ℝ)) / 2 ^ f = -((x : ℝ) / 2 ^ f) := by push_cast; ring
    obtain ⟨s0, s1⟩ := hsum (-x) (by omega) (Or.inr rfl)
    have hP := pow2_pos f
    have hge := expPure_ge (pow2 f) (-x) hP.le (by omega) (f - 2) 2 (-x) (-x + pow2 f) (by omega)
    have hn := neg_final f hf (-x) _ c K (by omega) (by rw [eneg]; exact hB) (by omega) s0 s1 hc
      (by rw [eneg]; exact hK) hK256
    rw [eneg, neg_neg, ← hr] at hn
    exact hn

/-- `|x| ≤ 1` -/
theorem exp_real_one (f : ℕ) (hf : 23 ≤ f) (x r : Int) (hB : |(x : ℝ) / 2 ^ f| ≤ 1) (h : ExpSpec f x r) :
    |(r : ℝ) / 2 ^ f - Real.exp ((x : ℝ) / 2 ^ f)| ≤ Real.exp ((x : ℝ) / 2 ^ f) / 2 ^ 20 + 64 / 2 ^ f := by
  have hG : (0 : ℝ) < 2 ^ f := by positivity
  have hK : Real.exp |(x : ℝ) / 2 ^ f| ≤ 3 := by
    have h1 : Real.exp |(x : ℝ) / 2 ^ f| ≤ Real.exp 1 := Real.exp_le_exp.2 hB
    have h2 : Real.exp 1 < (2.7182818286 : ℝ) := Real.exp_one_lt_d9
    norm_num at h2
    linarith
  refine exp_real_gen f hf x r (2 * (f : ℝ) - 4) 3 (by linarith) (by norm_num) (by linarith) hK ?_ h
  intro y hy0 hy
  have hy1 : y ≤ pow2 f := by
    have hya : |(y : ℝ)| = |(x : ℝ)| := by
      rcases hy with rfl | rfl
      · rfl
      · push_cast; exact abs_neg _
    rw [abs_div, abs_of_pos hG, div_le_one hG, ← hya, abs_of_pos (by exact_mod_cast hy0), ← pow2_cast] at hB
    exact_mod_cast hB
  exact sum_err_one f (by omega) y hy0.le hy1

/-! ### `|X| ≤ 4`: the first six iterations (`i = 2 … 7`, where `X / i` may exceed `1/2`) with explicit constants -/

/-- error of the last term / of the sum, in ulps -/
noncomputable def errT (F x : Int) (j : ℕ) (t : Int) : ℝ := (F : ℝ) * Tm ((x : ℝ) / F) j - t
noncomputable def errS (F x : Int) (j : ℕ) (R : Int) : ℝ := (F : ℝ) * Sm ((x : ℝ) / F) (j + 1) - R

/-- `k` iterations under tabulated bounds `a i` (error of term `i`) and `b i` (error of the sum after term `i`) -/
theorem loop_early (F x : Int) (hF : 0 < F) (hx : 0 ≤ x) (q a b : ℕ → ℝ) (m : ℕ) :
    ∀ (k j : ℕ) (t R : Int),
      (∀ i, j ≤ i → i < j + k → ((x : ℝ) / F) / ((i : ℝ) + 1) ≤ q i ∧ 0 ≤ a i ∧ a i * q i + 1 ≤ a (i + 1) ∧
        b i + a (i + 1) ≤ b (i + 1)) →
      0 ≤ t → 0 ≤ errT F x j t → errT F x j t ≤ a j → 0 ≤ errS F x j R → errS F x j R ≤ b j →
      ∃ t' R', expPure F x (k + m) (j + 1) t R = expPure F x m (j + k + 1) t' R' ∧ 0 ≤ t' ∧
        0 ≤ errT F x (j + k) t' ∧ errT F x (j + k) t' ≤ a (j + k) ∧ 0 ≤ errS F x (j + k) R' ∧ errS F x (j + k) R' ≤ b (j + k)
  | 0, j, t, R, _, ht, h1, h2, h3, h4 => ⟨t, R, by rw [Nat.zero_add], ht, h1, h2, h3, h4⟩
  | k + 1, j, t, R, hyp, ht, h1, h2, h3, h4 => by
    obtain ⟨s0, s1, s2, s3⟩ := step_err F x t R j hF hx ht
    obtain ⟨hq, ha0, ha, hb⟩ := hyp j (Nat.le_refl j) (by omega)
    have hxr : (0 : ℝ) ≤ (x : ℝ) := by exact_mod_cast hx
    have hFr : (0 : ℝ) < (F : ℝ) := by exact_mod_cast hF
    have hc0 : 0 ≤ ((x : ℝ) / F) / ((j : ℝ) + 1) := by positivity
    unfold errT at h1 h2
    unfold errS at h3 h4
    have hmul : ((F : ℝ) * Tm ((x : ℝ) / F) j - t) * (((x : ℝ) / F) / ((j : ℝ) + 1)) ≤ a j * q j :=
      mul_le_mul h2 hq hc0 ha0
    have e1 : 0 ≤ errT F x (j + 1) (t * x / F / ((j + 1 : Nat) : Int)) := by
      unfold errT; exact le_trans (mul_nonneg h1 hc0) s1
    have e2 : errT F x (j + 1) (t * x / F / ((j + 1 : Nat) : Int)) ≤ a (j + 1) := by
      unfold errT; linarith
    have e3 : 0 ≤ errS F x (j + 1) (R + t * x / F / ((j + 1 : Nat) : Int)) := by
      unfold errS; rw [s3]; unfold errT at e1; linarith
    have e4 : errS F x (j + 1) (R + t * x / F / ((j + 1 : Nat) : Int)) ≤ b (j + 1) := by
      unfold errS; rw [s3]; unfold errT at e2; linarith
    obtain ⟨t', R', g1, g2, g3, g4, g5, g6⟩ := loop_early F x hF hx q a b m k (j + 1) _ _
      (fun i hi1 hi2 => hyp i (by omega) (by omega)) s0 e1 e2 e3 e4
    refine ⟨t', R', ?_, g2, ?_, ?_, ?_, ?_⟩
    · have : k + 1 + m = (k + m) + 1 := by omega
      rw [this, expPure_succ, g1]
      have : j + 1 + k + 1 = j + (k + 1) + 1 := by omega
      rw [this]
    all_goals
      have : j + (k + 1) = j + 1 + k := by omega
      rw [this]
      assumption

/-- the tables for `X ≤ 4` -/
noncomputable def aT : ℕ → ℝ
  | 2 => 1 | 3 => 7 / 3 | 4 => 10 / 3 | 5 => 11 / 3 | 6 => 31 / 9 | 7 => 187 / 63 | _ => 0
noncomputable def bT : ℕ → ℝ
  | 2 => 1 | 3 => 10 / 3 | 4 => 20 / 3 | 5 => 31 / 3 | 6 => 124 / 9 | 7 => 1055 / 63 | _ => 0

theorem tables_ok (i : ℕ) (h1 : 1 ≤ i) (h2 : i < 1 + 6) :
    0 ≤ aT i ∧ aT i * (4 / ((i : ℝ) + 1)) + 1 ≤ aT (i + 1) ∧ bT i + aT (i + 1) ≤ bT (i + 1) := by
  interval_cases i <;> norm_num [aT, bT]

/-- `|X| ≤ 4`: the sum loses at most `2f + 4` ulp (`≤ 19.72` ulp in the first six iterations, then 2 per iteration) -/
theorem sum_err_four (f : ℕ) (hf : 8 ≤ f) (y : Int) (hy0 : 0 ≤ y) (hy4 : y ≤ 4 * pow2 f) :
    0 ≤ (2 : ℝ) ^ f * Sm ((y : ℝ) / 2 ^ f) f - (expPure (pow2 f) y (f - 2) 2 y (y + pow2 f) : Int) ∧
    (2 : ℝ) ^ f * Sm ((y : ℝ) / 2 ^ f) f - (expPure (pow2 f) y (f - 2) 2 y (y + pow2 f) : Int) ≤ 2 * (f : ℝ) + 4 := by
  have hP := pow2_pos f
  have hG : (0 : ℝ) < 2 ^ f := by positivity
  have hyr : (0 : ℝ) ≤ (y : ℝ) := by exact_mod_cast hy0
  have hX4 : (y : ℝ) / ((pow2 f : Int) : ℝ) ≤ 4 := by
    rw [pow2_cast, div_le_iff₀ hG]
    have : ((y : Int) : ℝ) ≤ ((4 * pow2 f : Int) : ℝ) := by exact_mod_cast hy4
    push_cast at this
    rwa [pow2_cast] at this
  have e1 : errT (pow2 f) y 1 y = 0 := by
    unfold errT
    rw [Tm_one, pow2_cast]; field_simp; ring
  have e2 : errS (pow2 f) y 1 (y + pow2 f) = 0 := by
    unfold errS
    rw [Sm_two]; push_cast; rw [pow2_cast]; field_simp; ring
  have ha1 : aT 1 = 0 := by norm_num [aT]
  have hb1 : bT 1 = 0 := by norm_num [bT]
  obtain ⟨t', R', heq, ht', g1, g2, g3, g4⟩ := loop_early (pow2 f) y hP hy0 (fun i => 4 / ((i : ℝ) + 1)) aT bT (f - 8) 6 1 y
    (y + pow2 f) (fun i hi1 hi2 => by
      obtain ⟨t1, t2, t3⟩ := tables_ok i hi1 hi2
      exact ⟨div_le_div_of_nonneg_right hX4 (by positivity), t1, t2, t3⟩)
    hy0 (by rw [e1]) (by rw [e1, ha1]) (by rw [e2]) (by rw [e2, hb1])
  have h7 : 1 + 6 = 7 := rfl
  rw [h7] at heq g1 g2 g3 g4
  have hk : f - 2 = 6 + (f - 8) := by omega
  have heq' : expPure (pow2 f) y (6 + (f - 8)) 2 y (y + pow2 f) = expPure (pow2 f) y (f - 8) (7 + 1) t' R' := heq
  rw [hk, heq']
  unfold errT at g1 g2
  unfold errS at g3 g4
  obtain ⟨l1, l2⟩ := loop_late (pow2 f) y hP hy0 (f - 8) 7 t' R' (by push_cast; omega) ht' g1 g3
  have hidx : 7 + 1 + (f - 8) = f := by omega
  rw [hidx, pow2_cast] at l1 l2
  refine ⟨l1, le_trans l2 ?_⟩
  have hkr : ((f - 8 : ℕ) : ℝ) = (f : ℝ) - 8 := by
    rw [Nat.cast_sub hf]; norm_num
  rw [hkr]
  have ha7 : aT 7 = 187 / 63 := by norm_num [aT]
  have hb7 : bT 7 = 1055 / 63 := by norm_num [bT]
  rw [pow2_cast] at g2 g4
  rw [ha7] at g2
  rw [hb7] at g4
  linarith

/-- `e^4 ≤ 55` -/
theorem exp_four_le : Real.exp 4 ≤ 55 := by
  have h2 : Real.exp 1 < (2.7182818286 : ℝ) := Real.exp_one_lt_d9
  have h4 : Real.exp 4 = Real.exp 1 ^ 4 := by
    rw [← Real.exp_nat_mul]; norm_num
  rw [h4]
  calc Real.exp 1 ^ 4 ≤ (2.7182818286 : ℝ) ^ 4 := pow_le_pow_left₀ (Real.exp_pos 1).le h2.le 4
    _ ≤ 55 := by norm_num

/-- `|x| ≤ 4` -/
theorem exp_real_four (f : ℕ) (hf : 23 ≤ f) (x r : Int) (hB : |(x : ℝ) / 2 ^ f| ≤ 4) (h : ExpSpec f x r) :
    |(r : ℝ) / 2 ^ f - Real.exp ((x : ℝ) / 2 ^ f)| ≤ Real.exp ((x : ℝ) / 2 ^ f) / 2 ^ 20 + 64 / 2 ^ f := by
  have hG : (0 : ℝ) < 2 ^ f := by positivity
  have hK : Real.exp |(x : ℝ) / 2 ^ f| ≤ 55 := le_trans (Real.exp_le_exp.2 hB) exp_four_le
  refine exp_real_gen f hf x r (2 * (f : ℝ) + 4) 55 (by linarith) (by norm_num) hB hK ?_ h
  intro y hy0 hy
  have hy1 : y ≤ 4 * pow2 f := by
    have hya : |(y : ℝ)| = |(x : ℝ)| := by
      rcases hy with rfl | rfl
      · rfl
      · push_cast; exact abs_neg _
    rw [abs_div, abs_of_pos hG, div_le_iff₀ hG, ← hya, abs_of_pos (by exact_mod_cast hy0), ← pow2_cast] at hB
    exact_mod_cast hB
  exact sum_err_four f (by omega) y hy0.le hy1

end Sfx.ExpAccPf
