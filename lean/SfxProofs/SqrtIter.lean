import SfxProofs.PrimLemmas
import SfxProofs.SqrtArith
/-
  SqrtIter.lean — convergence of the integer Newton iteration `l ↦ ⌊(l + ⌊X / l⌋) / 2⌋` (pure integers, no model).
  `Monoid.toNPow` is erased locally so that `(2 : Int) ^ k` in the statements is core's `Int.pow`, as in the Mathlib-free files.
-/
attribute [-instance] Monoid.toNPow

namespace Sfx.SqrtPf

/-- one Newton step on bit patterns -/
def step (X l : Int) : Int := (l + X / l) / 2
/-- `k` Newton steps -/
def newton (X : Int) : Nat → Int → Int
  | 0, l => l
  | k + 1, l => newton X k (step X l)

/-- `Kq j = 2 ^ (2 ^ j - 1)`: the reciprocal relative error guaranteed after `j` quadratic steps -/
def Kq : Nat → Int
  | 0 => 1
  | j + 1 => 2 * Kq j * Kq j

theorem Kq_pos : ∀ j, 1 ≤ Kq j
  | 0 => Int.le_refl _
  | j + 1 => by
    have h := Kq_pos j
    have h2 : 1 * 1 ≤ Kq j * Kq j := Int.mul_le_mul h h (by omega) (by omega)
    show 1 ≤ 2 * Kq j * Kq j
    rw [Int.mul_assoc]; omega

theorem Kq8 : Kq 8 = 2 ^ 255 := by decide

theorem sq_eq (a : Int) : a ^ 2 = a * a := by
  rw [Int.pow_succ, Int.pow_succ, Int.pow_zero, Int.one_mul]

theorem newton_add (X : Int) : ∀ (a b : Nat) (l : Int), newton X (a + b) l = newton X b (newton X a l)
  | 0, b, l => by rw [Nat.zero_add]; rfl
  | a + 1, b, l => by
    rw [Nat.succ_add]
    exact newton_add X a b (step X l)

section
variable (X s : Int) (hs : 1 ≤ s) (h1 : s * s ≤ X) (h2 : X < (s + 1) * (s + 1))
include hs h1 h2

/-- everything one step gives, for `l ≥ s = ⌊√X⌋` -/
theorem step_facts (l : Int) (hl : s ≤ l) :
    s ≤ step X l ∧ 2 * l * (step X l - (s + 1)) ≤ (l - (s + 1)) * (l - (s + 1)) - 1 ∧ 0 ≤ X / l ∧ X / l ≤ s + 2 := by
  have hl0 : 0 < l := by omega
  have hq1 : X / l * l ≤ X := Int.ediv_mul_le X (by omega)
  have hq2 : X < (X / l + 1) * l := Int.lt_ediv_add_one_mul_self X hl0
  have hX0 : 0 ≤ X := by
    have := Int.mul_nonneg (show 0 ≤ s by omega) (show 0 ≤ s by omega); omega
  have hst : step X l = (l + X / l) / 2 := rfl
  generalize X / l = q at *
  have a1 : 2 * step X l ≤ l + q := by rw [hst]; omega
  have a2 : l + q ≤ 2 * step X l + 1 := by rw [hst]; omega
  exact ⟨step_ge X s l q _ h1 hl0 hq2 a2, step_err X (s + 1) l q _ h2 hl0 hq1 a1,
    quot_nonneg X l q hX0 hl0 hq2, quot_le X s l q hs h2 hl hq1⟩

/-- one step never increases `max l (s+1)` -/
theorem step_le (l : Int) (hl : s ≤ l) :
    (s + 1 ≤ l → 2 * (step X l - (s + 1)) ≤ l - (s + 1)) ∧ (l ≤ s + 1 → step X l ≤ s + 1) := by
  obtain ⟨_, f2, _, _⟩ := step_facts X s hs h1 h2 l hl
  exact ⟨fun hlt => step_half (s + 1) l _ (by omega) hlt f2,
    fun hle => step_stable (s + 1) l _ (by omega) (by omega) hle f2⟩

theorem step_bound (l L : Int) (hl : s ≤ l) (hL : l ≤ L) (htL : s + 1 ≤ L) : s ≤ step X l ∧ step X l ≤ L := by
  obtain ⟨f1, _, _, _⟩ := step_facts X s hs h1 h2 l hl
  obtain ⟨g1, g2⟩ := step_le X s hs h1 h2 l hl
  refine ⟨f1, ?_⟩
  by_cases hlt : s + 1 ≤ l
  · have := g1 hlt; omega
  · have := g2 (by omega); omega

/-- halving phase -/
theorem phase1 : ∀ (k : Nat) (l B : Int), s ≤ l → 0 ≤ B → l - (s + 1) ≤ 2 ^ k * B →
    s ≤ newton X k l ∧ newton X k l - (s + 1) ≤ B
  | 0, l, B, hl, _, h => ⟨hl, by rw [Int.pow_zero, Int.one_mul] at h; exact h⟩
  | k + 1, l, B, hl, hB, h => by
    obtain ⟨f1, _, _, _⟩ := step_facts X s hs h1 h2 l hl
    obtain ⟨g1, g2⟩ := step_le X s hs h1 h2 l hl
    have hP : (2 : Int) ^ (k + 1) * B = 2 * (2 ^ k * B) := by
      rw [Int.pow_succ, Int.mul_comm (2 ^ k) 2, Int.mul_assoc]
    have hZ : 0 ≤ 2 ^ k * B := Int.mul_nonneg (Int.le_of_lt (two_pow_pos k)) hB
    rw [hP] at h
    have h3 : step X l - (s + 1) ≤ 2 ^ k * B := by
      by_cases hlt : s + 1 ≤ l
      · have := g1 hlt; omega
      · have := g2 (by omega); omega
    exact phase1 k (step X l) B f1 hB h3

/-- quadratic phase -/
theorem phase2 : ∀ (j i : Nat) (l : Int), s ≤ l → Kq i * (l - (s + 1)) ≤ s + 1 →
    s ≤ newton X j l ∧ Kq (i + j) * (newton X j l - (s + 1)) ≤ s + 1
  | 0, _, _, hl, h => ⟨hl, h⟩
  | j + 1, i, l, hl, h => by
    obtain ⟨f1, f2, _, _⟩ := step_facts X s hs h1 h2 l hl
    obtain ⟨_, g2⟩ := step_le X s hs h1 h2 l hl
    have hK := Kq_pos i
    have hK1 := Kq_pos (i + 1)
    have h3 : Kq (i + 1) * (step X l - (s + 1)) ≤ s + 1 := by
      by_cases hlt : s + 1 ≤ l
      · exact step_quad (Kq i) (s + 1) l _ hK (by omega) hlt h f2
      · have h4 := g2 (by omega)
        have : Kq (i + 1) * (step X l - (s + 1)) ≤ 0 :=
          Int.mul_nonpos_of_nonneg_of_nonpos (by omega) (by omega)
        omega
    have h5 : i + (j + 1) = (i + 1) + j := by omega
    rw [h5]
    exact phase2 j (i + 1) (step X l) f1 h3

/-- `{s, s+1}` is invariant -/
theorem stable : ∀ (k : Nat) (l : Int), s ≤ l → l ≤ s + 1 → s ≤ newton X k l ∧ newton X k l ≤ s + 1
  | 0, _, hl, hl' => ⟨hl, hl'⟩
  | k + 1, l, hl, hl' => by
    obtain ⟨f1, _, _, _⟩ := step_facts X s hs h1 h2 l hl
    obtain ⟨_, g2⟩ := step_le X s hs h1 h2 l hl
    exact stable k (step X l) f1 (g2 hl')

/-- `p` halvings bring the excess below `s + 1`, eight quadratic steps then reach `{s, s+1}`, which is invariant -/
theorem converge (l0 : Int) (p N : Nat) (hl0 : s ≤ l0) (hp : l0 - (s + 1) ≤ 2 ^ p * (s + 1)) (ht : s + 1 < 2 ^ 255)
    (hN : p + 8 ≤ N) : s ≤ newton X N l0 ∧ newton X N l0 ≤ s + 1 := by
  have hN' : N = p + (8 + (N - p - 8)) := by omega
  rw [hN', newton_add, newton_add]
  obtain ⟨a1, a2⟩ := phase1 X s hs h1 h2 p l0 (s + 1) hl0 (by omega) hp
  obtain ⟨b1, b2⟩ := phase2 X s hs h1 h2 8 0 (newton X p l0) a1 (by show 1 * _ ≤ _; omega)
  rw [Nat.zero_add, Kq8] at b2
  have b3 : newton X 8 (newton X p l0) ≤ s + 1 := by
    apply Int.not_lt.1
    intro hcon
    have : (2 : Int) ^ 255 * 1 ≤ 2 ^ 255 * (newton X 8 (newton X p l0) - (s + 1)) :=
      Int.mul_le_mul_of_nonneg_left (by omega) (Int.le_of_lt (two_pow_pos 255))
    omega
  exact stable X s hs h1 h2 _ _ b1 b3

end

end Sfx.SqrtPf
