import SfxModel.Transcendental
import SfxProofs.PrimLemmas
import SfxProofs.Forms
import SfxProps.C01
import SfxProofs.SqrtIter
/-
  Sqrt.lean — property C13 for `transcendental::sqrt` (model `Trans.sqrt`): the result is within 4 ulp of the true square
  root (in fact within 1 ulp on the direct path), exact at 0 and 1, `Err` only for negative operands and for operands
  whose reciprocal is not representable, no panic and no debug-only check fires.
  `Monoid.toNPow` is erased locally so that `(2 : Int) ^ k` in the statements is core's `Int.pow`, as in the Mathlib-free files.
-/
attribute [-instance] Monoid.toNPow

namespace Sfx.SqrtPf
open Sfx.Trans

/-! ### what is assumed about conversions and mixed comparisons (proved elsewhere) -/

/-- the facts about `from_num` and comparisons with the `I9F23` constants `ZERO`, `ONE` that `sqrt` relies on -/
structure ConvFacts (D : Layout) : Prop where
  fromNum1 : Trans.fromNumI D 1 = .ok (2 ^ D.f) false
  fromNum2 : Trans.fromNumI D 2 = .ok (2 * 2 ^ D.f) false
  lt0 : ∀ x, inRange D x → D.ltFixed Trans.C x Trans.ZERO = decide (x < 0)
  eq0 : ∀ x, inRange D x → D.eqFixed Trans.C x Trans.ZERO = decide (x = 0)
  eq1 : ∀ x, inRange D x → D.eqFixed Trans.C x Trans.ONE = decide (x = 2 ^ D.f)
  lt1 : ∀ x, inRange D x → D.ltFixed Trans.C x Trans.ONE = decide (x < 2 ^ D.f)

/-- the same facts in the general form "comparisons with an `I9F23` constant are exact" -/
structure ConvFactsG (D : Layout) : Prop where
  fromNum1 : Trans.fromNumI D 1 = .ok (2 ^ D.f) false
  fromNum2 : Trans.fromNumI D 2 = .ok (2 * 2 ^ D.f) false
  ltC : ∀ x c, inRange D x → inRange Trans.C c → D.ltFixed Trans.C x c = decide (x * 2 ^ 23 < c * 2 ^ D.f)
  eqC : ∀ x c, inRange D x → inRange Trans.C c → D.eqFixed Trans.C x c = decide (x * 2 ^ 23 = c * 2 ^ D.f)

theorem inC_zero : inRange Trans.C Trans.ZERO := by decide
theorem inC_one : inRange Trans.C Trans.ONE := by decide

theorem mul_lt_mul_iff (a b c : Int) (hc : 0 < c) : a * c < b * c ↔ a < b :=
  ⟨fun h => Int.lt_of_mul_lt_mul_right h (Int.le_of_lt hc), fun h => Int.mul_lt_mul_of_pos_right h hc⟩
theorem mul_eq_mul_iff (a b c : Int) (hc : 0 < c) : a * c = b * c ↔ a = b :=
  ⟨fun h => Int.eq_of_mul_eq_mul_right (Int.ne_of_gt hc) h, fun h => by rw [h]⟩

theorem ConvFactsG.toConvFacts {D : Layout} (h : ConvFactsG D) : ConvFacts D := by
  have hP := two_pow_pos D.f
  have hQ : (0 : Int) < 2 ^ 23 := two_pow_pos 23
  have h0 : Trans.ZERO * 2 ^ D.f = 0 * 2 ^ 23 := by
    show (0 : Int) * 2 ^ D.f = 0 * 2 ^ 23
    rw [Int.zero_mul, Int.zero_mul]
  have h1 : Trans.ONE * 2 ^ D.f = 2 ^ D.f * 2 ^ 23 := by
    show (1 : Int) * 2 ^ 23 * 2 ^ D.f = 2 ^ D.f * 2 ^ 23
    rw [Int.one_mul, Int.mul_comm]
  refine ⟨h.fromNum1, h.fromNum2, fun x hx => ?_, fun x hx => ?_, fun x hx => ?_, fun x hx => ?_⟩
  · rw [h.ltC x _ hx inC_zero, decide_eq_decide, h0]; exact mul_lt_mul_iff _ _ _ hQ
  · rw [h.eqC x _ hx inC_zero, decide_eq_decide, h0]; exact mul_eq_mul_iff _ _ _ hQ
  · rw [h.eqC x _ hx inC_one, decide_eq_decide, h1]; exact mul_eq_mul_iff _ _ _ hQ
  · rw [h.ltC x _ hx inC_one, decide_eq_decide, h1]; exact mul_lt_mul_iff _ _ _ hQ

/-! ### `TR` plumbing -/

theorem obind_ok_false {α β : Type} (v : α) (g : α → Outcome β) : Outcome.bind (.ok v false) g = g v := by
  cases h : g v with
  | panic => simp only [Outcome.bind, h]
  | ok w d => simp only [Outcome.bind, h, Bool.false_or]

theorem bind_of_eq {α β : Type} (m : TR α) (k : α → TR β) (n n' : Nat) (v : α) (h : m n = .ok (some v, n') false) :
    (m >>= k) n = k v n' := by
  show TR.bind m k n = _
  unfold TR.bind
  rw [h, obind_ok_false]

theorem bind_of_none {α β : Type} (m : TR α) (k : α → TR β) (n n' : Nat) (h : m n = .ok (none, n') false) :
    (m >>= k) n = .ok (none, n') false := by
  show TR.bind m k n = _
  unfold TR.bind
  rw [h, obind_ok_false]

theorem liftO_bind {α β : Type} (v : α) (k : α → TR β) (n : Nat) : (liftO (.ok v false) >>= k) n = k v n :=
  bind_of_eq _ k n n v rfl
theorem liftOpt_some_bind {α β : Type} (v : α) (k : α → TR β) (n : Nat) : (liftOpt (.ok (some v) false) >>= k) n = k v n :=
  bind_of_eq _ k n n v rfl
theorem liftOpt_none_bind {α β : Type} (k : α → TR β) (n : Nat) :
    (liftOpt (.ok none false) >>= k) n = .ok (none, n) false :=
  bind_of_none _ k n n rfl
theorem tick_bind {β : Type} (k : Unit → TR β) (n : Nat) : (tick >>= k) n = k () (n + 1) :=
  bind_of_eq _ k n (n + 1) () rfl
theorem pure_bind' {α β : Type} (v : α) (k : α → TR β) (n : Nat) : ((pure v : TR α) >>= k) n = k v n :=
  bind_of_eq _ k n n v rfl

/-! ### the operators on nonnegative in-range operands -/

theorem inRange_nn (D : Layout) {v : Int} (h0 : 0 ≤ v) (h : v ≤ D.max) : inRange D v :=
  ⟨Int.le_trans (minI_nonpos D.signed D.n) h0, h⟩

theorem divSpec_nn (f : Nat) (a b : Int) (ha : 0 ≤ a) : divSpec f a b = a * 2 ^ f / b := by
  unfold divSpec
  exact Int.tdiv_eq_ediv_of_nonneg (Int.mul_nonneg ha (Int.le_of_lt (two_pow_pos f)))

theorem divOp_nn (D : Layout) (hv : D.valid) (a b : Int) (ha : inRange D a) (hb : inRange D b) (ha0 : 0 ≤ a) (hb0 : 0 < b)
    (hq : inRange D (a * 2 ^ D.f / b)) : D.divOp a b = .ok (a * 2 ^ D.f / b) false := by
  obtain ⟨h2, _, _, hf⟩ := C01.valid_facts hv
  have hn : 0 < D.n := by omega
  have hb1 : b ≠ 0 := by omega
  obtain ⟨_, hop⟩ := div_forms D hn hf a b ha hb hb1 (C01.divOverflow_spec D hv a b ha hb hb1)
  rw [hop, divSpec_nn D.f a b ha0]
  have hw : D.wrap (a * 2 ^ D.f / b) = a * 2 ^ D.f / b := wrapI_of_in hn hq
  rw [hw]
  simp [hq]

theorem checkedDiv_nn (D : Layout) (hv : D.valid) (a b : Int) (ha : inRange D a) (hb : inRange D b) (ha0 : 0 ≤ a)
    (hb0 : 0 < b) : D.checkedDiv a b = .ok (D.chk (a * 2 ^ D.f / b)) false := by
  obtain ⟨h2, _, _, hf⟩ := C01.valid_facts hv
  have hn : 0 < D.n := by omega
  have hb1 : b ≠ 0 := by omega
  obtain ⟨ff, _⟩ := div_forms D hn hf a b ha hb hb1 (C01.divOverflow_spec D hv a b ha hb hb1)
  rw [ff.checked, divSpec_nn D.f a b ha0]

theorem addOp_in (D : Layout) (hv : D.valid) (a b : Int) (h : inRange D (a + b)) : D.addOp a b = .ok (a + b) false := by
  obtain ⟨h2, _, _, _⟩ := C01.valid_facts hv
  rw [addOp_eq]
  have hw : D.wrap (a + b) = a + b := wrapI_of_in (by omega) h
  rw [hw]
  simp [h]

/-! ### the loop is the integer Newton iteration -/

theorem loop_eq (D : Layout) (hv : D.valid) (hc : ConvFacts D) (hF2 : 2 * 2 ^ D.f ≤ D.max) (x X s L : Int)
    (hx : inRange D x) (hx0 : 0 ≤ x) (hX : X = x * 2 ^ D.f) (hs : 1 ≤ s) (h1 : s * s ≤ X) (h2 : X < (s + 1) * (s + 1))
    (htL : s + 1 ≤ L) (hL : L + s + 2 ≤ D.max) :
    ∀ (k : Nat) (l : Int) (n : Nat), s ≤ l → l ≤ L →
      sqrtLoop D x k l n = .ok (some (newton X k l), n + k) false
  | 0, l, n, _, _ => rfl
  | k + 1, l, n, hl, hlL => by
    have hP := two_pow_pos D.f
    obtain ⟨f1, _, f3, f4⟩ := step_facts X s hs h1 h2 l hl
    obtain ⟨b1, b2⟩ := step_bound X s hs h1 h2 l L hl hlL htL
    have hlr : inRange D l := inRange_nn D (by omega) (by omega)
    have hq : D.divOp x l = .ok (X / l) false := by
      rw [hX]
      exact divOp_nn D hv x l hx hlr hx0 (by omega) (by rw [← hX]; exact inRange_nn D f3 (by omega))
    have hsum : inRange D (l + X / l) := inRange_nn D (by omega) (by omega)
    have ha : D.addOp l (X / l) = .ok (l + X / l) false := addOp_in D hv _ _ hsum
    have h2r : inRange D (2 * 2 ^ D.f) := inRange_nn D (by omega) hF2
    have hhalf : (l + X / l) * 2 ^ D.f / (2 * 2 ^ D.f) = step X l := by
      rw [Int.mul_ediv_mul_of_pos_left _ _ hP]; rfl
    have hd : D.divOp (l + X / l) (2 * 2 ^ D.f) = .ok (step X l) false := by
      rw [← hhalf]
      exact divOp_nn D hv _ _ hsum h2r (by omega) (by omega) (by rw [hhalf]; exact inRange_nn D (by omega) (by omega))
    have ih := loop_eq D hv hc hF2 x X s L hx hx0 hX hs h1 h2 htL hL k (step X l) (n + 1) b1 b2
    show (tick >>= fun _ => liftO (D.divOp x l) >>= fun q => liftO (D.addOp l q) >>= fun s =>
      liftO (fromNumI D 2) >>= fun two => liftO (D.divOp s two) >>= fun l' => sqrtLoop D x k l') n = _
    rw [tick_bind, hq, liftO_bind, ha, liftO_bind, hc.fromNum2, liftO_bind, hd, liftO_bind, ih]
    show _ = Outcome.ok (some (newton X k (step X l)), n + (k + 1)) false
    rw [Nat.add_assoc, Nat.add_comm 1 k]

/-! ### range facts -/

theorem max_add_one_le (D : Layout) : D.max + 1 ≤ 2 ^ D.n := by
  show maxI D.signed D.n + 1 ≤ 2 ^ D.n
  have := pow_le_pow (a := D.n - 1) (b := D.n) (by omega)
  cases D.signed
  · simp [maxI]
  · simp [maxI]; omega

/-- enough integer bits: three magnitude bits above the binary point -/
theorem hM_of_hint (D : Layout) (hfn : D.f ≤ D.n) (hint : (if D.signed then 4 else 3) ≤ D.intBits) :
    8 * 2 ^ D.f ≤ D.max + 1 := by
  have h8 : (8 : Int) * 2 ^ D.f = 2 ^ (3 + D.f) := by rw [pow_add']; rfl
  rw [h8]
  show 2 ^ (3 + D.f) ≤ maxI D.signed D.n + 1
  unfold Layout.intBits at hint
  cases hs : D.signed
  · rw [hs] at hint
    have := pow_le_pow (a := 3 + D.f) (b := D.n) (by simp at hint; omega)
    simp [maxI]; omega
  · rw [hs] at hint
    have := pow_le_pow (a := 3 + D.f) (b := D.n - 1) (by simp at hint; omega)
    simp [maxI]; omega

/-! ### the root of an operand `≥ 1` -/

/-- `let mut l = …; for … { … }` followed by the continuation `k` -/
def rootK (D : Layout) (y : Int) (k : Int → TR Int) : TR Int := do
  let two ← liftO (fromNumI D 2)
  let h ← liftO (D.divOp y two)
  let one ← liftO (fromNumI D 1)
  let l0 ← liftO (D.addOp h one)
  let l ← sqrtLoop D y (max D.f (D.intBits / 2 + 10)) l0
  k l

def finish (D : Layout) (invert : Bool) (l : Int) : TR Int :=
  if invert then do
    let one ← liftO (fromNumI D 1)
    liftOpt (D.checkedDiv one l)
  else pure l

def prep (D : Layout) (x : Int) : TR (Bool × Int) :=
  if D.ltFixed C x ONE then do
    let one ← liftO (fromNumI D 1)
    let r ← liftOpt (D.checkedDiv one x)
    pure (true, r)
  else pure (false, x)

/-- `sqrt` after the sign test and the conversion `D::from(operand)` -/
def sqrtCore (D : Layout) (x : Int) : TR Int :=
  if D.eqFixed C x ZERO || D.eqFixed C x ONE then pure x else
  prep D x >>= fun p => rootK D p.2 (finish D p.1)

theorem sqrt_eq (S D : Layout) (x : Int) :
    Trans.sqrt S D x = if S.ltFixed C x ZERO then err else liftO (fromS S D x) >>= sqrtCore D := rfl

/-- the Newton loop started at `⌊y/2⌋ + 1` lands on `⌊√(y·2^f)⌋` or its successor, without overflow -/
theorem rootK_eval (D : Layout) (hv : D.valid) (hf : 4 ≤ D.f) (hM : 8 * 2 ^ D.f ≤ D.max + 1) (hc : ConvFacts D)
    (y : Int) (hy : inRange D y) (hyF : 2 ^ D.f ≤ y) :
    ∃ s l : Int, 2 ^ D.f ≤ s ∧ s * s ≤ y * 2 ^ D.f ∧ y * 2 ^ D.f < (s + 1) * (s + 1) ∧ s ≤ l ∧ l ≤ s + 1 ∧ inRange D l ∧
      ∀ (k : Int → TR Int) (n : Nat), rootK D y k n = k l (n + max D.f (D.intBits / 2 + 10)) := by
  obtain ⟨_, _, _, hfn⟩ := C01.valid_facts hv
  have hn128 : D.n ≤ 128 := by obtain ⟨h, _⟩ := hv; omega
  have hP := two_pow_pos D.f
  have hF16 : (16 : Int) ≤ 2 ^ D.f := pow_le_pow (a := 4) (b := D.f) hf
  have hy0 : 0 ≤ y := by omega
  have hymax : y ≤ D.max := hy.2
  obtain ⟨s, hs0, h1, h2⟩ := exists_isqrt (y * 2 ^ D.f) (Int.mul_nonneg hy0 (Int.le_of_lt hP))
  have hsF : 2 ^ D.f ≤ s := by
    apply Int.not_lt.1; intro hcon
    have a : (s + 1) * (s + 1) ≤ 2 ^ D.f * 2 ^ D.f := Int.mul_le_mul (by omega) (by omega) (by omega) (by omega)
    have b : 2 ^ D.f * 2 ^ D.f ≤ y * 2 ^ D.f := Int.mul_le_mul_of_nonneg_right hyF (by omega)
    omega
  have hs : 1 ≤ s := by omega
  have hh : 2 * (y / 2) ≤ y ∧ y ≤ 2 * (y / 2) + 1 := by omega
  have hgt := start_gt y (2 ^ D.f) (y / 2) (by omega) hh.2
  have hl0 : s + 1 ≤ y / 2 + 2 ^ D.f := start_ge_t _ s _ hs0 h1 hgt (by omega)
  have hov := no_ovf y (2 ^ D.f) (y / 2) s (D.max + 1) hF16 hM (by omega) hh.1 hs0 h1
  -- the starting ratio
  have hmax := max_add_one_le D
  have hpow : (2 : Int) ^ (2 + D.intBits / 2 + D.intBits / 2 + D.f) = 4 * 2 ^ (D.intBits / 2) * 2 ^ (D.intBits / 2) * 2 ^ D.f := by
    rw [pow_add', pow_add', pow_add']; rfl
  have hnle : (2 : Int) ^ D.n ≤ 2 ^ (2 + D.intBits / 2 + D.intBits / 2 + D.f) :=
    pow_le_pow (by unfold Layout.intBits; omega)
  have hP1 : (1 : Int) ≤ 2 ^ (D.intBits / 2) := by have := two_pow_pos (D.intBits / 2); omega
  have hratio := start_ratio y (2 ^ D.f) (y / 2) (2 ^ (D.intBits / 2)) (y * 2 ^ D.f) (s + 1) (by omega) hyF (by omega)
    hh.1 hP1 (by omega) rfl (by omega) h2
  have h128 : (2 : Int) ^ D.n ≤ 2 ^ 128 := pow_le_pow hn128
  have h255 : (2 : Int) ^ 128 < 2 ^ 255 := by decide
  obtain ⟨c1, c2⟩ := converge (y * 2 ^ D.f) s hs h1 h2 (y / 2 + 2 ^ D.f) (D.intBits / 2)
    (max D.f (D.intBits / 2 + 10)) (by omega) hratio (by omega) (by omega)
  refine ⟨s, _, hsF, h1, h2, c1, c2, inRange_nn D (by omega) (by omega), fun k n => ?_⟩
  have hF2 : 2 * 2 ^ D.f ≤ D.max := by omega
  have h2r : inRange D (2 * 2 ^ D.f) := inRange_nn D (by omega) hF2
  have hdiv2 : y * 2 ^ D.f / (2 * 2 ^ D.f) = y / 2 := Int.mul_ediv_mul_of_pos_left _ _ hP
  have e1 : D.divOp y (2 * 2 ^ D.f) = .ok (y / 2) false := by
    rw [← hdiv2]
    exact divOp_nn D hv y _ hy h2r hy0 (by omega) (by rw [hdiv2]; exact inRange_nn D (by omega) (by omega))
  have e2 : D.addOp (y / 2) (2 ^ D.f) = .ok (y / 2 + 2 ^ D.f) false :=
    addOp_in D hv _ _ (inRange_nn D (by omega) (by omega))
  have e3 := loop_eq D hv hc hF2 y (y * 2 ^ D.f) s (y / 2 + 2 ^ D.f) hy hy0 rfl hs h1 h2 hl0 (by omega)
    (max D.f (D.intBits / 2 + 10)) (y / 2 + 2 ^ D.f) n (by omega) (Int.le_refl _)
  show (liftO (fromNumI D 2) >>= fun two => liftO (D.divOp y two) >>= fun h => liftO (fromNumI D 1) >>= fun one =>
    liftO (D.addOp h one) >>= fun l0 => sqrtLoop D y (max D.f (D.intBits / 2 + 10)) l0 >>= fun l => k l) n = _
  rw [hc.fromNum2, liftO_bind, e1, liftO_bind, hc.fromNum1, liftO_bind, e2, liftO_bind]
  exact bind_of_eq _ _ _ _ _ e3

/-! ### accuracy -/

/-- what is proved about a returned root `r` (bits) of the operand `x` (bits) -/
def Good (D : Layout) (x r : Int) : Prop :=
  0 ≤ r ∧ (0 < x → (r - 4) ^ 2 ≤ x * 2 ^ D.f) ∧ x * 2 ^ D.f ≤ (r + 4) ^ 2 ∧ (x = 0 → r = 0) ∧ (x = 2 ^ D.f → r = 2 ^ D.f)

/-- direct path: the result is `⌊√X⌋` or `⌊√X⌋ + 1` -/
theorem good_direct (D : Layout) (x s l : Int) (hF16 : 16 ≤ (2 : Int) ^ D.f) (hx : 2 ^ D.f < x) (hsF : 2 ^ D.f ≤ s)
    (h1 : s * s ≤ x * 2 ^ D.f) (h2 : x * 2 ^ D.f < (s + 1) * (s + 1)) (hl1 : s ≤ l) (hl2 : l ≤ s + 1) : Good D x l := by
  refine ⟨by omega, fun _ => ?_, ?_, fun h => by omega, fun h => by omega⟩
  · rw [sq_eq]
    have : (l - 4) * (l - 4) ≤ s * s := Int.mul_le_mul (by omega) (by omega) (by omega) (by omega)
    omega
  · rw [sq_eq]
    have : (s + 1) * (s + 1) ≤ (l + 4) * (l + 4) := Int.mul_le_mul (by omega) (by omega) (by omega) (by omega)
    omega

/-- inverted path: `y = ⌊F²/x⌋`, `l ∈ {⌊√(yF)⌋, ⌊√(yF)⌋ + 1}`, result `⌊F²/l⌋` -/
theorem good_inverted (D : Layout) (x s l : Int) (hF16 : 16 ≤ (2 : Int) ^ D.f) (hx0 : 0 < x) (hx : x < 2 ^ D.f)
    (hsF : 2 ^ D.f ≤ s) (h1 : s * s ≤ 2 ^ D.f * 2 ^ D.f / x * 2 ^ D.f)
    (h2 : 2 ^ D.f * 2 ^ D.f / x * 2 ^ D.f < (s + 1) * (s + 1)) (hl1 : s ≤ l) (hl2 : l ≤ s + 1) :
    Good D x (2 ^ D.f * 2 ^ D.f / l) ∧ 2 ^ D.f * 2 ^ D.f / l ≤ 2 ^ D.f := by
  have hl0 : 0 < l := by omega
  have hy1 : x * (2 ^ D.f * 2 ^ D.f / x) ≤ 2 ^ D.f * 2 ^ D.f := by
    rw [Int.mul_comm x]; exact Int.ediv_mul_le _ (by omega)
  have hy2 : 2 ^ D.f * 2 ^ D.f < x * (2 ^ D.f * 2 ^ D.f / x + 1) := by
    rw [Int.mul_comm x]; exact Int.lt_ediv_add_one_mul_self _ hx0
  have hr1 : 2 ^ D.f * 2 ^ D.f / l * l ≤ 2 ^ D.f * 2 ^ D.f := Int.ediv_mul_le _ (by omega)
  have hr2 : 2 ^ D.f * 2 ^ D.f < (2 ^ D.f * 2 ^ D.f / l + 1) * l := Int.lt_ediv_add_one_mul_self _ hl0
  have hFF : 0 ≤ (2 : Int) ^ D.f * 2 ^ D.f := Int.mul_nonneg (by omega) (by omega)
  have hr0 : 0 ≤ 2 ^ D.f * 2 ^ D.f / l := Int.ediv_nonneg hFF (by omega)
  generalize (2 : Int) ^ D.f * 2 ^ D.f / x = y at *
  generalize hr : (2 : Int) ^ D.f * 2 ^ D.f / l = r at *
  have hla : (l - 1) * (l - 1) ≤ y * 2 ^ D.f := by
    have : (l - 1) * (l - 1) ≤ s * s := Int.mul_le_mul (by omega) (by omega) (by omega) (by omega)
    omega
  have hlb : y * 2 ^ D.f < (l + 1) * (l + 1) := by
    have : (s + 1) * (s + 1) ≤ (l + 1) * (l + 1) := Int.mul_le_mul (by omega) (by omega) (by omega) (by omega)
    omega
  have hup := inv_upper x (2 ^ D.f) y l r (by omega) (by omega) (by omega) hy1 hla (by omega) hr2 hr0
  have hrF : r ≤ 2 ^ D.f := by
    apply Int.not_lt.1; intro hcon
    have : ((2 : Int) ^ D.f + 1) * 2 ^ D.f ≤ r * l := Int.mul_le_mul (by omega) (by omega) (by omega) (by omega)
    have : ((2 : Int) ^ D.f + 1) * 2 ^ D.f = 2 ^ D.f * 2 ^ D.f + 2 ^ D.f := by rw [Int.add_mul, Int.one_mul]
    omega
  have hxF : 16 ≤ x * 2 ^ D.f := by
    have : 1 * 2 ^ D.f ≤ x * 2 ^ D.f := Int.mul_le_mul_of_nonneg_right (by omega) (by omega)
    omega
  refine ⟨⟨hr0, fun _ => ?_, ?_, fun h => by omega, fun h => by omega⟩, hrF⟩
  · rw [sq_eq]
    by_cases hr4 : 4 ≤ r
    · exact inv_lower x (2 ^ D.f) y l r hF16 (by omega) (by omega) hy1 hy2 hla hlb (by omega) hr1 hr4
    · have : r = 0 ∨ r = 1 ∨ r = 2 ∨ r = 3 := by omega
      rcases this with h | h | h | h <;> rw [h] <;> omega
  · rw [sq_eq]
    have : (r + 2) * (r + 2) ≤ (r + 4) * (r + 4) := Int.mul_le_mul (by omega) (by omega) (by omega) (by omega)
    omega

/-- all the cases of `sqrt` after the conversion, for a nonnegative operand -/
theorem sqrtCore_cases (D : Layout) (hv : D.valid) (hf : 4 ≤ D.f) (hM : 8 * 2 ^ D.f ≤ D.max + 1) (hc : ConvFacts D)
    (x : Int) (hx : inRange D x) (hx0 : 0 ≤ x) (n : Nat) :
    (∃ r m, sqrtCore D x n = .ok (some r, m) false ∧ Good D x r) ∨
    (∃ m, sqrtCore D x n = .ok (none, m) false ∧ 0 < x ∧ ¬ inRange D (divSpec D.f (2 ^ D.f) x)) := by
  have hP := two_pow_pos D.f
  have hF16 : (16 : Int) ≤ 2 ^ D.f := pow_le_pow (a := 4) (b := D.f) hf
  have h1r : inRange D (2 ^ D.f) := inRange_nn D (by omega) (by omega)
  unfold sqrtCore
  rw [hc.eq0 x hx, hc.eq1 x hx]
  by_cases hz : x = 0
  · left
    refine ⟨x, n, by simp [hz]; rfl, ?_⟩
    subst hz
    refine ⟨by omega, fun h => by omega, ?_, fun _ => rfl, fun h => by omega⟩
    rw [sq_eq]; omega
  by_cases ho : x = 2 ^ D.f
  · left
    refine ⟨x, n, by simp [ho]; rfl, ?_⟩
    refine ⟨by omega, fun _ => ?_, ?_, fun h => by omega, fun _ => ho⟩
    · rw [sq_eq, ho]
      have : ((2 : Int) ^ D.f - 4) * (2 ^ D.f - 4) ≤ 2 ^ D.f * 2 ^ D.f := Int.mul_le_mul (by omega) (by omega) (by omega) (by omega)
      omega
    · rw [sq_eq, ho]
      have : (2 : Int) ^ D.f * 2 ^ D.f ≤ (2 ^ D.f + 4) * (2 ^ D.f + 4) := Int.mul_le_mul (by omega) (by omega) (by omega) (by omega)
      omega
  have hcond : (decide (x = 0) || decide (x = 2 ^ D.f)) = false := by simp [hz, ho]
  rw [hcond, if_neg (by simp)]
  unfold prep
  rw [hc.lt1 x hx]
  by_cases hlt : x < 2 ^ D.f
  · -- inverted path
    have hcd := checkedDiv_nn D hv (2 ^ D.f) x h1r hx (by omega) (by omega)
    rw [if_pos (by simp [hlt])]
    by_cases hyr : inRange D (2 ^ D.f * 2 ^ D.f / x)
    · left
      have hyF : 2 ^ D.f ≤ 2 ^ D.f * 2 ^ D.f / x := by
        apply (Int.le_ediv_iff_mul_le (by omega)).2
        exact Int.mul_le_mul_of_nonneg_left (by omega) (by omega)
      obtain ⟨s, l, hsF, h1, h2, hl1, hl2, hlr, hk⟩ := rootK_eval D hv hf hM hc _ hyr hyF
      obtain ⟨hg, hrF⟩ := good_inverted D x s l hF16 (by omega) hlt hsF h1 h2 hl1 hl2
      have hrr : inRange D (2 ^ D.f * 2 ^ D.f / l) := inRange_nn D hg.1 (by omega)
      have hcd2 := checkedDiv_nn D hv (2 ^ D.f) l h1r hlr (by omega) (by omega)
      refine ⟨_, n + max D.f (D.intBits / 2 + 10), ?_, hg⟩
      show ((liftO (fromNumI D 1) >>= fun one => liftOpt (D.checkedDiv one x) >>= fun r => pure (true, r)) >>=
        fun p => rootK D p.2 (finish D p.1)) n = _
      have hprep : (liftO (fromNumI D 1) >>= fun one => liftOpt (D.checkedDiv one x) >>= fun r =>
          (pure (true, r) : TR (Bool × Int))) n = .ok (some (true, 2 ^ D.f * 2 ^ D.f / x), n) false := by
        rw [hc.fromNum1, liftO_bind, hcd]
        show (liftOpt (Outcome.ok (if inRange D (2 ^ D.f * 2 ^ D.f / x) then some (2 ^ D.f * 2 ^ D.f / x) else none) false)
          >>= _) n = _
        rw [if_pos hyr, liftOpt_some_bind]; rfl
      rw [bind_of_eq _ _ _ _ _ hprep, hk]
      show (liftO (fromNumI D 1) >>= fun one => liftOpt (D.checkedDiv one l)) _ = _
      rw [hc.fromNum1, liftO_bind, hcd2]
      show liftOpt (Outcome.ok (if inRange D (2 ^ D.f * 2 ^ D.f / l) then some (2 ^ D.f * 2 ^ D.f / l) else none) false) _ = _
      rw [if_pos hrr]; rfl
    · right
      refine ⟨n, ?_, by omega, by rw [divSpec_nn _ _ _ (by omega)]; exact hyr⟩
      show ((liftO (fromNumI D 1) >>= fun one => liftOpt (D.checkedDiv one x) >>= fun r => pure (true, r)) >>=
        fun p => rootK D p.2 (finish D p.1)) n = _
      have hprep : (liftO (fromNumI D 1) >>= fun one => liftOpt (D.checkedDiv one x) >>= fun r =>
          (pure (true, r) : TR (Bool × Int))) n = .ok (none, n) false := by
        rw [hc.fromNum1, liftO_bind, hcd]
        show (liftOpt (Outcome.ok (if inRange D (2 ^ D.f * 2 ^ D.f / x) then some (2 ^ D.f * 2 ^ D.f / x) else none) false)
          >>= _) n = _
        rw [if_neg hyr, liftOpt_none_bind]
      exact bind_of_none _ _ _ _ hprep
  · -- direct path
    left
    rw [if_neg (by simp [hlt])]
    obtain ⟨s, l, hsF, h1, h2, hl1, hl2, _, hk⟩ := rootK_eval D hv hf hM hc x hx (by omega)
    refine ⟨l, n + max D.f (D.intBits / 2 + 10), ?_, good_direct D x s l hF16 (by omega) hsF h1 h2 hl1 hl2⟩
    rw [pure_bind']
    show rootK D x (finish D false) n = _
    rw [hk]; rfl

/-! ### the main theorems -/

theorem good_if {D : Layout} {x r : Int} (hx0 : 0 ≤ x) (hg : Good D x r) :
    0 ≤ r ∧ (if r < 4 then 0 else (r - 4) ^ 2) ≤ x * 2 ^ D.f ∧ x * 2 ^ D.f ≤ (r + 4) ^ 2 ∧ (x = 0 → r = 0) ∧
      (x = 2 ^ D.f → r = 2 ^ D.f) := by
  obtain ⟨g1, g2, g3, g4, g5⟩ := hg
  refine ⟨g1, ?_, g3, g4, g5⟩
  by_cases hr : r < 4
  · rw [if_pos hr]; exact Int.mul_nonneg hx0 (Int.le_of_lt (two_pow_pos D.f))
  · rw [if_neg hr]
    by_cases hz : x = 0
    · have := g4 hz; omega
    · exact g2 (by omega)

/-- General source layout `S`: the sign test on the source is exact (`hS0`) and `D::from(operand)` yields the in-range
bits `x'` of the same sign (`hfrom`, `hx'`, `hsgn`; for the widening `From` of `convert.rs`, `x' = x * 2 ^ (D.f - S.f)`).
The bracket is stated on the converted operand `x'` (same value as `x`, on the grid of `D`). -/
theorem sqrt_accuracy_gen (S D : Layout) (hv : D.valid) (hf : 4 ≤ D.f) (hint : (if D.signed then 4 else 3) ≤ D.intBits)
    (hc : ConvFacts D) (x x' : Int) (hS0 : S.ltFixed Trans.C x Trans.ZERO = decide (x < 0))
    (hfrom : Trans.fromS S D x = .ok x' false) (hx' : inRange D x') (hsgn : 0 ≤ x → 0 ≤ x') :
    match Trans.run (Trans.sqrt S D x) with
    | .ok (some r, _) dbg => dbg = false ∧ 0 ≤ x ∧ 0 ≤ r ∧ (if r < 4 then 0 else (r - 4) ^ 2) ≤ x' * 2 ^ D.f ∧
                               x' * 2 ^ D.f ≤ (r + 4) ^ 2 ∧ (x' = 0 → r = 0) ∧ (x' = 2 ^ D.f → r = 2 ^ D.f)
    | .ok (none, _) dbg => dbg = false ∧ (x < 0 ∨ (0 < x' ∧ ¬ inRange D (divSpec D.f (2 ^ D.f) x')))
    | .panic => False := by
  obtain ⟨_, _, _, hfn⟩ := C01.valid_facts hv
  have hM := hM_of_hint D hfn hint
  unfold Trans.run
  rw [sqrt_eq, hS0]
  by_cases hneg : x < 0
  · rw [if_pos (by simp [hneg])]
    exact ⟨rfl, Or.inl hneg⟩
  · rw [if_neg (by simp [hneg]), hfrom, liftO_bind]
    have hx0 : 0 ≤ x := by omega
    rcases sqrtCore_cases D hv hf hM hc x' hx' (hsgn hx0) 0 with ⟨r, m, he, hg⟩ | ⟨m, he, h0, hr⟩
    · rw [he]
      exact ⟨rfl, hx0, good_if (hsgn hx0) hg⟩
    · rw [he]
      exact ⟨rfl, Or.inr ⟨h0, hr⟩⟩

/-- the widening `From<S> for D` (`hfrom`: it multiplies the bits by `2 ^ (D.f - S.f)`) -/
theorem sqrt_accuracy_widen (S D : Layout) (hv : D.valid) (hf : 4 ≤ D.f) (hint : (if D.signed then 4 else 3) ≤ D.intBits)
    (hc : ConvFacts D) (x : Int) (hS0 : S.ltFixed Trans.C x Trans.ZERO = decide (x < 0))
    (hfrom : Trans.fromS S D x = .ok (x * 2 ^ (D.f - S.f)) false) (hx' : inRange D (x * 2 ^ (D.f - S.f))) :
    match Trans.run (Trans.sqrt S D x) with
    | .ok (some r, _) dbg => dbg = false ∧ 0 ≤ x ∧ 0 ≤ r ∧
        (if r < 4 then 0 else (r - 4) ^ 2) ≤ x * 2 ^ (D.f - S.f) * 2 ^ D.f ∧ x * 2 ^ (D.f - S.f) * 2 ^ D.f ≤ (r + 4) ^ 2 ∧
        (x * 2 ^ (D.f - S.f) = 0 → r = 0) ∧ (x * 2 ^ (D.f - S.f) = 2 ^ D.f → r = 2 ^ D.f)
    | .ok (none, _) dbg => dbg = false ∧
        (x < 0 ∨ (0 < x * 2 ^ (D.f - S.f) ∧ ¬ inRange D (divSpec D.f (2 ^ D.f) (x * 2 ^ (D.f - S.f)))))
    | .panic => False :=
  sqrt_accuracy_gen S D hv hf hint hc x _ hS0 hfrom hx'
    (fun h => Int.mul_nonneg h (Int.le_of_lt (two_pow_pos _)))

/-- C13 for `sqrt::<D, D>`: no panic, no debug check; `Err` only for negative operands and for operands in `(0, 1)` whose
reciprocal is not representable; otherwise the result is within 4 ulp of the true root and exact at 0 and 1.
Integer bits: the code needs three magnitude bits above the binary point (`l + operand / l` is formed in `D`), i.e.
`intBits ≥ 4` for signed and `≥ 3` for unsigned layouts; `#eval` shows the debug overflow check firing with one bit less. -/
theorem sqrt_accuracy (D : Layout) (hv : D.valid) (hf23 : 23 ≤ D.f) (hint : (if D.signed then 4 else 3) ≤ D.intBits)
    (hc : ConvFacts D) (x : Int) (hx : inRange D x) :
    match Trans.run (Trans.sqrt D D x) with
    | .ok (some r, _) dbg => dbg = false ∧ 0 ≤ x ∧ 0 ≤ r ∧ (if r < 4 then 0 else (r - 4) ^ 2) ≤ x * 2 ^ D.f ∧
                               x * 2 ^ D.f ≤ (r + 4) ^ 2 ∧ (x = 0 → r = 0) ∧ (x = 2 ^ D.f → r = 2 ^ D.f)
    | .ok (none, _) dbg => dbg = false ∧ (x < 0 ∨ (0 < x ∧ ¬ inRange D (divSpec D.f (2 ^ D.f) x)))
    | .panic => False :=
  sqrt_accuracy_gen D D hv (by omega) hint hc x x (hc.lt0 x hx) (by unfold Trans.fromS; rw [if_pos rfl]; rfl) hx (fun h => h)

/-- the same with the hypothesis on the integer bits in the requested shape -/
theorem sqrt_accuracy_int10 (D : Layout) (hv : D.valid) (hf23 : 23 ≤ D.f) (hint : 10 ≤ D.intBits)
    (hc : ConvFacts D) (x : Int) (hx : inRange D x) :
    match Trans.run (Trans.sqrt D D x) with
    | .ok (some r, _) dbg => dbg = false ∧ 0 ≤ x ∧ 0 ≤ r ∧ (if r < 4 then 0 else (r - 4) ^ 2) ≤ x * 2 ^ D.f ∧
                               x * 2 ^ D.f ≤ (r + 4) ^ 2 ∧ (x = 0 → r = 0) ∧ (x = 2 ^ D.f → r = 2 ^ D.f)
    | .ok (none, _) dbg => dbg = false ∧ (x < 0 ∨ (0 < x ∧ ¬ inRange D (divSpec D.f (2 ^ D.f) x)))
    | .panic => False :=
  sqrt_accuracy D hv hf23 (by cases D.signed <;> simp <;> omega) hc x hx

/-- for a positive operand the lower bracket holds without the `r < 4` escape -/
theorem sqrt_accuracy_pos (D : Layout) (hv : D.valid) (hf : 4 ≤ D.f) (hint : (if D.signed then 4 else 3) ≤ D.intBits)
    (hc : ConvFacts D) (x : Int) (hx : inRange D x) (hx0 : 0 < x) :
    (∃ r m, Trans.run (Trans.sqrt D D x) = .ok (some r, m) false ∧ 0 ≤ r ∧ (r - 4) ^ 2 ≤ x * 2 ^ D.f ∧
      x * 2 ^ D.f ≤ (r + 4) ^ 2) ∨
    (∃ m, Trans.run (Trans.sqrt D D x) = .ok (none, m) false ∧ ¬ inRange D (divSpec D.f (2 ^ D.f) x)) := by
  obtain ⟨_, _, _, hfn⟩ := C01.valid_facts hv
  have hM := hM_of_hint D hfn hint
  have hrun : Trans.run (Trans.sqrt D D x) = sqrtCore D x 0 := by
    unfold Trans.run
    rw [sqrt_eq, hc.lt0 x hx, if_neg (by simp; omega)]
    have : Trans.fromS D D x = .ok x false := by unfold Trans.fromS; rw [if_pos rfl]; rfl
    rw [this, liftO_bind]
  rw [hrun]
  rcases sqrtCore_cases D hv hf hM hc x hx (by omega) 0 with ⟨r, m, he, hg⟩ | ⟨m, he, _, hr⟩
  · exact Or.inl ⟨r, m, he, hg.1, hg.2.1 hx0, hg.2.2.1⟩
  · exact Or.inr ⟨m, he, hr⟩

/-- on the direct path (`x ≥ 1`) the result is the floor of the true root or its successor (≤ 1 ulp), after exactly
`max f (intBits / 2 + 10)` loop iterations -/
theorem sqrt_direct_exact (D : Layout) (hv : D.valid) (hf : 4 ≤ D.f) (hint : (if D.signed then 4 else 3) ≤ D.intBits)
    (hc : ConvFacts D) (x : Int) (hx : inRange D x) (hxF : 2 ^ D.f < x) :
    ∃ s r : Int, Trans.run (Trans.sqrt D D x) = .ok (some r, max D.f (D.intBits / 2 + 10)) false ∧
      s * s ≤ x * 2 ^ D.f ∧ x * 2 ^ D.f < (s + 1) * (s + 1) ∧ s ≤ r ∧ r ≤ s + 1 := by
  obtain ⟨_, _, _, hfn⟩ := C01.valid_facts hv
  have hM := hM_of_hint D hfn hint
  have hP := two_pow_pos D.f
  obtain ⟨s, l, _, h1, h2, hl1, hl2, _, hk⟩ := rootK_eval D hv hf hM hc x hx (by omega)
  refine ⟨s, l, ?_, h1, h2, hl1, hl2⟩
  unfold Trans.run
  rw [sqrt_eq, hc.lt0 x hx, if_neg (by simp; omega)]
  have : Trans.fromS D D x = .ok x false := by unfold Trans.fromS; rw [if_pos rfl]; rfl
  rw [this, liftO_bind]
  unfold sqrtCore
  rw [hc.eq0 x hx, hc.eq1 x hx]
  have hcond : (decide (x = 0) || decide (x = 2 ^ D.f)) = false := by
    have a : x ≠ 0 := by omega
    have b : x ≠ 2 ^ D.f := by omega
    simp [a, b]
  rw [hcond, if_neg (by simp)]
  unfold prep
  rw [hc.lt1 x hx, if_neg (by simp; omega), pure_bind']
  show rootK D x (finish D false) 0 = _
  rw [hk, Nat.zero_add]; rfl

/-- the plain lower bracket `(r - 4) ^ 2 ≤ x * 2 ^ f` of the original statement fails at `x = 0` (`r = 0`): this is why
the main theorem reads it as trivially true for `r < 4` -/
theorem sqrt_accuracy_plain_counterexample :
    Trans.run (Trans.sqrt ⟨true, 32, 23⟩ ⟨true, 32, 23⟩ 0) = .ok (some 0, 0) false ∧
      ¬ (((0 : Int) - 4) ^ 2 ≤ 0 * 2 ^ (23 : Nat)) := by
  constructor
  · decide
  · decide

end Sfx.SqrtPf

#print axioms Sfx.SqrtPf.sqrt_accuracy
#print axioms Sfx.SqrtPf.sqrt_accuracy_gen
#print axioms Sfx.SqrtPf.sqrt_accuracy_widen
#print axioms Sfx.SqrtPf.sqrt_accuracy_int10
#print axioms Sfx.SqrtPf.sqrt_accuracy_pos
#print axioms Sfx.SqrtPf.sqrt_direct_exact
#print axioms Sfx.SqrtPf.sqrt_accuracy_plain_counterexample
#print axioms Sfx.SqrtPf.ConvFactsG.toConvFacts
