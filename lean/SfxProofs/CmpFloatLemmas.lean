import SfxProofs.Cmp
/-
  CmpFloatLemmas.lean — round-to-nearest-even on integers (`rneShift`, `rneScaled`) and the specification of
  `to_float_kind` (model `toFloatKind`), core Lean only.
-/
namespace Sfx.CmpPf
open Layout ConvPf

/-! ### `rneShift` : nearest, sign, symmetry -/

theorem rneShift_zero (num : Int) : rneShift num 0 = num := by
  unfold rneShift; rw [if_pos rfl]

theorem rneShift_pos (num : Int) (k : Nat) (hk : 0 < k) :
    rneShift num k =
      (if num % 2 ^ k < 2 ^ (k - 1) then num / 2 ^ k else if num % 2 ^ k > 2 ^ (k - 1) then num / 2 ^ k + 1
       else if num / 2 ^ k % 2 = 0 then num / 2 ^ k else num / 2 ^ k + 1) := by
  unfold rneShift; rw [if_neg (by omega)]

/-- the rounded quotient is within half a unit of `num / 2^k` -/
theorem rneShift_near (num : Int) (k : Nat) (hk : 0 < k) :
    2 * (rneShift num k * 2 ^ k) ≤ 2 * num + 2 ^ k ∧ 2 * num ≤ 2 * (rneShift num k * 2 ^ k) + 2 ^ k := by
  rw [rneShift_pos num k hk]
  have hP := two_pow_pos k
  have hs := pow_split hk
  have e := Int.emod_add_mul_ediv num (2 ^ k)
  have h0 := Int.emod_nonneg num (Int.ne_of_gt hP)
  have h1 := Int.emod_lt_of_pos num hP
  rw [Int.mul_comm] at e
  have e2 : (num / 2 ^ k + 1) * 2 ^ k = num / 2 ^ k * 2 ^ k + 2 ^ k := by rw [Int.add_mul, Int.one_mul]
  split
  · omega
  · split
    · rw [e2]; omega
    · split
      · omega
      · rw [e2]; omega

theorem rneShift_nonneg (num : Int) (k : Nat) (h : 0 ≤ num) : 0 ≤ rneShift num k := by
  by_cases hk : k = 0
  · subst hk; rw [rneShift_zero]; exact h
  · rw [rneShift_pos num k (by omega)]
    have := Int.ediv_nonneg h (Int.le_of_lt (two_pow_pos k))
    split
    · omega
    · split
      · omega
      · split <;> omega

/-- quotient and remainder of the opposite number -/
theorem neg_divmod (num P : Int) (hP : 0 < P) :
    (num % P = 0 ∧ (-num) / P = -(num / P) ∧ (-num) % P = 0) ∨
    (num % P ≠ 0 ∧ (-num) / P = -(num / P) - 1 ∧ (-num) % P = P - num % P) := by
  have e := Int.emod_add_mul_ediv num P
  have h0 := Int.emod_nonneg num (Int.ne_of_gt hP)
  have h1 := Int.emod_lt_of_pos num hP
  have e' := Int.emod_add_mul_ediv (-num) P
  have h0' := Int.emod_nonneg (-num) (Int.ne_of_gt hP)
  have h1' := Int.emod_lt_of_pos (-num) hP
  have hs : P * (num / P + (-num) / P) = P * (num / P) + P * ((-num) / P) := Int.mul_add ..
  -- the sum of the quotients is 0 or -1
  have hlo : -2 < num / P + (-num) / P := by
    apply Int.lt_of_not_ge
    intro hle
    have := Int.mul_le_mul_of_nonneg_left hle (Int.le_of_lt hP)
    omega
  have hhi : num / P + (-num) / P < 1 := by
    apply Int.lt_of_not_ge
    intro hle
    have := Int.mul_le_mul_of_nonneg_left hle (Int.le_of_lt hP)
    omega
  have hc : num / P + (-num) / P = 0 ∨ num / P + (-num) / P = -1 := by omega
  rcases hc with hc | hc
  · rw [hc] at hs
    left; omega
  · rw [hc] at hs
    right; omega

theorem rneShift_neg (num : Int) (k : Nat) : rneShift (-num) k = -(rneShift num k) := by
  by_cases hk : k = 0
  · subst hk; rw [rneShift_zero, rneShift_zero]
  · have hk' : 0 < k := by omega
    rw [rneShift_pos _ k hk', rneShift_pos _ k hk']
    have hP := two_pow_pos k
    have hs := pow_split hk'
    have h0 := Int.emod_nonneg num (Int.ne_of_gt hP)
    have h1 := Int.emod_lt_of_pos num hP
    rcases neg_divmod num (2 ^ k) hP with ⟨a, b, c⟩ | ⟨a, b, c⟩
    · rw [b, c, a]
      have hH := two_pow_pos (k - 1)
      rw [if_pos hH, if_pos hH]
    · rw [b, c]
      generalize num / 2 ^ k = q at *
      generalize num % 2 ^ k = r at *
      generalize (2 : Int) ^ (k - 1) = H at *
      generalize (2 : Int) ^ k = P at *
      subst hs
      by_cases c1 : r < H
      · rw [if_pos c1, if_neg (by omega), if_pos (by omega)]; omega
      · by_cases c2 : r > H
        · rw [if_neg c1, if_pos c2, if_pos (by omega)]; omega
        · rw [if_neg c1, if_neg c2, if_neg (by omega), if_neg (by omega)]
          by_cases c3 : q % 2 = 0
          · rw [if_pos c3, if_neg (by omega)]; omega
          · rw [if_neg c3, if_pos (by omega)]; omega

theorem rneShift_nonpos (num : Int) (k : Nat) (h : num ≤ 0) : rneShift num k ≤ 0 := by
  have := rneShift_nonneg (-num) k (by omega)
  rw [rneShift_neg] at this
  omega

/-! ### `rneScaled` -/

theorem rneScaled_nonneg_exp (num k : Int) (hk : 0 ≤ k) : rneScaled num k = num * 2 ^ k.toNat := by
  unfold rneScaled; rw [if_pos hk]

theorem rneScaled_neg_exp (num k : Int) (hk : k < 0) : rneScaled num k = rneShift num (-k).toNat := by
  unfold rneScaled; rw [if_neg (by omega)]

theorem rneScaled_neg (num k : Int) : rneScaled (-num) k = -(rneScaled num k) := by
  unfold rneScaled
  split
  · rw [Int.neg_mul]
  · exact rneShift_neg _ _

theorem rneScaled_nonneg (num k : Int) (h : 0 ≤ num) : 0 ≤ rneScaled num k := by
  unfold rneScaled
  split
  · exact Int.mul_nonneg h (Int.le_of_lt (two_pow_pos _))
  · exact rneShift_nonneg _ _ h

theorem rneScaled_nonpos (num k : Int) (h : num ≤ 0) : rneScaled num k ≤ 0 := by
  have := rneScaled_nonneg (-num) k (by omega)
  rw [rneScaled_neg] at this
  omega

/-- the direction of the rounding: the ordering of the rounded value relative to the exact one -/
def dirExact (num k : Int) : Int :=
  if 0 ≤ k then 0 else cmpInt (rneScaled num k * 2 ^ (-k).toNat) num

theorem dirExact_neg (num k : Int) : dirExact (-num) k = -(dirExact num k) := by
  unfold dirExact
  split
  · rfl
  · rw [rneScaled_neg, Int.neg_mul]
    generalize rneScaled num k * 2 ^ (-k).toNat = x
    rcases Int.lt_trichotomy x num with h | h | h
    · rw [cmpInt_lt h, cmpInt_gt (by omega)]; rfl
    · rw [cmpInt_eq h, cmpInt_eq (by omega)]; rfl
    · rw [cmpInt_gt h, cmpInt_lt (by omega)]

/-! ### the magnitude rounding of `to_float_kind` -/

/-- the `need_to_shr > 0` block: `(mantissa >> k, dir)` after rounding to nearest, ties to even -/
def roundMag (mant1 k : Nat) : Nat × Int :=
  let removed := mant1 % 2 ^ k
  let willBeLsb := 2 ^ k
  let tie := willBeLsb / 2
  let (m, d) : Nat × Int :=
    if removed = 0 then (mant1, 0)
    else if removed < tie then (mant1, -1)
    else if removed > tie || decide (mant1 / willBeLsb % 2 = 1) then (mant1 + willBeLsb, 1)
    else (mant1, -1)
  (m / 2 ^ k, d)

theorem roundMag_spec (mant1 k : Nat) (hk : 0 < k) :
    ((roundMag mant1 k).1 : Int) = rneShift (mant1 : Int) k ∧
    (roundMag mant1 k).2 = cmpInt (rneShift (mant1 : Int) k * 2 ^ k) (mant1 : Int) := by
  have hPn : 0 < 2 ^ k := Nat.two_pow_pos k
  have hsn : 2 ^ k = 2 * 2 ^ (k - 1) := by
    cases k with
    | zero => omega
    | succ j => simp [Nat.pow_succ]; omega
  have htie : 2 ^ k / 2 = 2 ^ (k - 1) := by omega
  have hdm := Nat.div_add_mod mant1 (2 ^ k)
  have hr := Nat.mod_lt mant1 hPn
  have hup : (mant1 + 2 ^ k) / 2 ^ k = mant1 / 2 ^ k + 1 := Nat.add_div_right _ hPn
  have cP : ((2 ^ k : Nat) : Int) = (2 : Int) ^ k := by norm_cast
  have cH : ((2 ^ (k - 1) : Nat) : Int) = (2 : Int) ^ (k - 1) := by norm_cast
  have cq : (mant1 : Int) / 2 ^ k = ((mant1 / 2 ^ k : Nat) : Int) := by rw [← cP]; norm_cast
  have cr : (mant1 : Int) % 2 ^ k = ((mant1 % 2 ^ k : Nat) : Int) := by rw [← cP]; norm_cast
  rw [rneShift_pos _ k hk, cq, cr, ← cH]
  unfold roundMag
  simp only []
  rw [htie]
  have e2 : ((mant1 / 2 ^ k : Nat) + 1 : Int) * 2 ^ k = ((mant1 / 2 ^ k : Nat) : Int) * 2 ^ k + 2 ^ k := by
    rw [Int.add_mul, Int.one_mul]
  have hdmI : (2 : Int) ^ k * ((mant1 / 2 ^ k : Nat) : Int) + ((mant1 % 2 ^ k : Nat) : Int) = (mant1 : Int) := by
    rw [← cP]; exact_mod_cast hdm
  rw [Int.mul_comm] at hdmI
  have hPi := two_pow_pos k
  generalize hq : mant1 / 2 ^ k = q at *
  generalize hrr : mant1 % 2 ^ k = r at *
  by_cases c0 : r = 0
  · rw [if_pos c0, hq]
    have : (r : Int) < ((2 ^ (k - 1) : Nat) : Int) := by
      have := Nat.two_pow_pos (k - 1); omega
    rw [if_pos this]
    exact ⟨rfl, (cmpInt_eq (by omega)).symm⟩
  rw [if_neg c0]
  by_cases c1 : r < 2 ^ (k - 1)
  · rw [if_pos c1, hq]
    have : (r : Int) < ((2 ^ (k - 1) : Nat) : Int) := by omega
    rw [if_pos this]
    exact ⟨rfl, (cmpInt_lt (by omega)).symm⟩
  rw [if_neg c1]
  have n1 : ¬ (r : Int) < ((2 ^ (k - 1) : Nat) : Int) := by omega
  rw [if_neg n1]
  by_cases c2 : r > 2 ^ (k - 1)
  · have hc : (decide (r > 2 ^ (k - 1)) || decide (q % 2 = 1)) = true := by simp [c2]
    have : (r : Int) > ((2 ^ (k - 1) : Nat) : Int) := by omega
    rw [if_pos hc, if_pos this, hup]
    refine ⟨by omega, ?_⟩
    rw [e2]
    exact (cmpInt_gt (by omega)).symm
  have n2 : ¬ (r : Int) > ((2 ^ (k - 1) : Nat) : Int) := by omega
  rw [if_neg n2]
  by_cases c3 : q % 2 = 1
  · have hc : (decide (r > 2 ^ (k - 1)) || decide (q % 2 = 1)) = true := by simp [c3]
    have : ¬ ((q : Int) % 2 = 0) := by omega
    rw [if_pos hc, if_neg this, hup]
    refine ⟨by omega, ?_⟩
    rw [e2]
    exact (cmpInt_gt (by omega)).symm
  · have hc : ¬ ((decide (r > 2 ^ (k - 1)) || decide (q % 2 = 1)) = true) := by simp [c2, c3]
    have : (q : Int) % 2 = 0 := by omega
    rw [if_neg hc, if_pos this, hq]
    exact ⟨rfl, (cmpInt_lt (by omega)).symm⟩

end Sfx.CmpPf
