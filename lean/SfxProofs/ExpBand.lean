import SfxProofs.ExpAccWide
import SfxProofs.ExpBandReal
import SfxProofs.ExpBandWitness
/-
  ExpBand.lean — property C15 (exp clause) for `transcendental::exp` (model `Trans.exp`, `S = D`) on EVERY operand outside known
  finding D10, over Mathlib's reals.  D10's region is "the tail of the Maclaurin series that the code omits exceeds `2^-24 e^|X|`"
  (`X = val x`, `f = frac_nbits`; the code sums the terms `0 … f-1`, `Sm X f = Σ_{i<f} X^i/i!`, `Rm X f = e^X - Sm X f = Σ_{i≥f} X^i/i!`,
  see `Rm_hasSum`).  For every supported `D` (valid, signed, `23 ≤ f`, `9 ≤ intBits`):

      Rm |X| f ≤ e^|X| / 2^24  ∧  exp x = Ok(r)   →   |val r - e^X| ≤ e^X / 2^20 + 64 ulp.

  Proof: `4 |X| ≤ f` is `exp_accuracy_wide` (`ExpAccWide.lean`); the band `4 |X| > f` is `ExpBandReal.lean` (same potential-function
  bound of the truncation error, the weights bounded with `X ≥ 23/4`, the tail bounded by the hypothesis instead of Stirling).
-/
namespace Sfx.ExpBandPf
open Sfx.ExpAccPf

/-- C15 (exp clause) for `exp::<D, D>` on every operand outside known finding D10: omitted tail at most 2^-24 · e^|x| -/
theorem exp_accuracy_band (D : Layout) (hv : D.valid) (hs : D.signed = true) (hf : 23 ≤ D.f) (hint : 9 ≤ D.intBits)
    (x : Int) (hx : inRange D x)
    (htail : Sfx.ExpAccPf.Rm |(x : ℝ) / 2 ^ D.f| D.f ≤ Real.exp |(x : ℝ) / 2 ^ D.f| / 2 ^ 24)
    (r : Int) (it : Nat) (dbg : Bool) :
    Trans.run (Trans.exp D D x) = .ok (some r, it) dbg →
      |(r : ℝ) / 2 ^ D.f - Real.exp ((x : ℝ) / 2 ^ D.f)| ≤ Real.exp ((x : ℝ) / 2 ^ D.f) / 2 ^ 20 + 64 / 2 ^ D.f := by
  intro h
  exact exp_real_band D.f hf x r htail (exp_acc D hv hs hf hint x hx r it dbg h)

/-- the same with the hypothesis in the form "the exact partial sum of the `f` terms reaches `(1 - 2^-24) e^|x|`" -/
theorem exp_accuracy_band_sum (D : Layout) (hv : D.valid) (hs : D.signed = true) (hf : 23 ≤ D.f) (hint : 9 ≤ D.intBits)
    (x : Int) (hx : inRange D x)
    (hsum : Real.exp |(x : ℝ) / 2 ^ D.f| * (1 - 1 / 2 ^ 24) ≤ Sfx.ExpAccPf.Sm |(x : ℝ) / 2 ^ D.f| D.f)
    (r : Int) (it : Nat) (dbg : Bool) :
    Trans.run (Trans.exp D D x) = .ok (some r, it) dbg →
      |(r : ℝ) / 2 ^ D.f - Real.exp ((x : ℝ) / 2 ^ D.f)| ≤ Real.exp ((x : ℝ) / 2 ^ D.f) / 2 ^ 20 + 64 / 2 ^ D.f :=
  exp_accuracy_band D hv hs hf hint x hx ((tail_hyp_iff _ _).2 hsum) r it dbg

/-- the region `4 |x| ≤ f` of `exp_accuracy_wide` needs no tail hypothesis; the new content is the band `4 |x| > f` -/
example (D : Layout) (hv : D.valid) (hs : D.signed = true) (hf : 23 ≤ D.f) (hint : 9 ≤ D.intBits) (x : Int) (hx : inRange D x) :=
  exp_accuracy_band D hv hs hf hint x hx

/-! non-vacuity: `I32F32`, `x = 9.0` is in the band (`4 · 9 > 32`, so `exp_accuracy_wide` does not apply) and satisfies every
hypothesis; the model returns `Ok` there (`exp9_run`, `ExpBandWitness.lean`), so the conclusion is about an actual result -/
theorem band_witness_hyp :
    Sfx.ExpAccPf.Rm |((9 * 2 ^ 32 : Int) : ℝ) / 2 ^ (⟨true, 64, 32⟩ : Layout).f| (⟨true, 64, 32⟩ : Layout).f ≤
      Real.exp |((9 * 2 ^ 32 : Int) : ℝ) / 2 ^ (⟨true, 64, 32⟩ : Layout).f| / 2 ^ 24 := by
  have e : |((9 * 2 ^ 32 : Int) : ℝ) / 2 ^ (⟨true, 64, 32⟩ : Layout).f| = 9 := by
    show |((9 * 2 ^ 32 : Int) : ℝ) / 2 ^ 32| = 9
    push_cast
    norm_num
  rw [e]
  exact tail_witness

example : ¬ (4 * (9 * 2 ^ 32 : Int).natAbs ≤ (⟨true, 64, 32⟩ : Layout).f * 2 ^ (⟨true, 64, 32⟩ : Layout).f) := by decide

example (r : Int) (it : Nat) (dbg : Bool) :
    Trans.run (Trans.exp ⟨true, 64, 32⟩ ⟨true, 64, 32⟩ (9 * 2 ^ 32)) = .ok (some r, it) dbg →
      |(r : ℝ) / 2 ^ 32 - Real.exp (((9 * 2 ^ 32 : Int) : ℝ) / 2 ^ 32)| ≤
        Real.exp (((9 * 2 ^ 32 : Int) : ℝ) / 2 ^ 32) / 2 ^ 20 + 64 / 2 ^ 32 :=
  exp_accuracy_band ⟨true, 64, 32⟩ (by decide) rfl (by decide) (by decide) (9 * 2 ^ 32) (by decide) band_witness_hyp r it dbg

/-- the instance at the value the model returns -/
theorem band_witness_result :
    |((34802480388886 : Int) : ℝ) / 2 ^ 32 - Real.exp (((9 * 2 ^ 32 : Int) : ℝ) / 2 ^ 32)| ≤
      Real.exp (((9 * 2 ^ 32 : Int) : ℝ) / 2 ^ 32) / 2 ^ 20 + 64 / 2 ^ 32 := by
  have hrun : Trans.run (Trans.exp ⟨true, 64, 32⟩ ⟨true, 64, 32⟩ (9 * 2 ^ 32)) = .ok (some 34802480388886, 30) false := by
    have := exp9_run
    rw [← pow2_eq_pow] at this ⊢
    exact this
  exact exp_accuracy_band ⟨true, 64, 32⟩ (by decide) rfl (by decide) (by decide) (9 * 2 ^ 32) (by decide) band_witness_hyp _ 30 false hrun

end Sfx.ExpBandPf

#print axioms Sfx.ExpBandPf.exp_accuracy_band
#print axioms Sfx.ExpBandPf.band_witness_result
#print axioms Sfx.ExpBandPf.exp_accuracy_band_sum
#print axioms Sfx.ExpBandPf.band_witness_hyp
