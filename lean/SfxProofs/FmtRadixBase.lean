import SfxModel.Display
/-
  FmtRadixBase.lean — helpers for the value proof of `fmt_radix2` (C09): digit-string values, array access,
  `Outcome` monad laws, pure `Nat` arithmetic on powers of the radix.  Core Lean only.
-/
namespace Sfx.FmtRadixPf
open Display

/-! ### `Outcome` is a lawful monad -/

theorem Outcome.bind_assoc' {α β γ : Type} (x : Outcome α) (f : α → Outcome β) (g : β → Outcome γ) :
    Outcome.bind (Outcome.bind x f) g = Outcome.bind x (fun a => Outcome.bind (f a) g) := by
  cases x with
  | panic => rfl
  | ok v d =>
    simp only [Outcome.bind]
    cases f v with
    | panic => rfl
    | ok u d' =>
      simp only []
      cases g u with
      | panic => rfl
      | ok t d'' => simp [Bool.or_assoc]

instance : LawfulMonad Outcome := LawfulMonad.mk' Outcome
  (id_map := by
    intro α x; cases x <;> simp [Functor.map, Outcome.bind])
  (pure_bind := by
    intro α β a f; simp only [bind, pure, Outcome.bind]; cases f a <;> simp)
  (bind_assoc := by
    intro α β γ x f g; exact Outcome.bind_assoc' x f g)

@[local simp] theorem ok_bind {α β : Type} (v : α) (f : α → Outcome β) :
    (Outcome.ok v false >>= f) = f v := by
  simp only [bind, Outcome.bind]; cases f v <;> simp

/-! ### array access -/

/-- the byte at index `i` (0 outside the array) -/
def g (data : Array Nat) (i : Nat) : Nat := data.getD i 0

theorem g_set (data : Array Nat) (i j v : Nat) :
    g (data.setIfInBounds i v) j = if i = j ∧ i < data.size then v else g data j := by
  unfold g
  rw [Array.getD_eq_getD_getElem?, Array.getD_eq_getD_getElem?, Array.getElem?_setIfInBounds]
  by_cases h : i = j
  · subst h
    by_cases h2 : i < data.size
    · simp [h2]
    · simp [h2]
  · simp [h]

theorem g_set_eq (data : Array Nat) (i v : Nat) (h : i < data.size) : g (data.setIfInBounds i v) i = v := by
  rw [g_set]; simp [h]

theorem g_set_ne (data : Array Nat) (i j v : Nat) (h : i ≠ j) : g (data.setIfInBounds i v) j = g data j := by
  rw [g_set]; simp [h]

/-! ### digit strings -/

/-- value of a digit list, most significant digit first -/
def valI (r : Nat) (ds : List Nat) : Nat := ds.foldl (fun a d => a * r + d) 0

/-- value of the digits `f b, …, f (b+k-1)`, most significant first -/
def valR (r : Nat) (f : Nat → Nat) (b : Nat) : Nat → Nat
  | 0 => 0
  | k + 1 => valR r f b k * r + f (b + k)

/-- the digits `f b, …, f (b+k-1)` as a list -/
def digs (f : Nat → Nat) (b k : Nat) : List Nat := (List.range k).map fun j => f (b + j)

theorem foldl_val (r : Nat) (ds : List Nat) (a : Nat) :
    ds.foldl (fun a d => a * r + d) a = a * r ^ ds.length + valI r ds := by
  induction ds generalizing a with
  | nil => simp [valI]
  | cons d ds ih =>
    unfold valI
    simp only [List.foldl_cons, List.length_cons]
    rw [ih, ih (0 * r + d)]
    grind

theorem valI_append (r : Nat) (a b : List Nat) : valI r (a ++ b) = valI r a * r ^ b.length + valI r b := by
  unfold valI; rw [List.foldl_append, foldl_val]; rfl

theorem valI_digs (r : Nat) (f : Nat → Nat) (b k : Nat) : valI r (digs f b k) = valR r f b k := by
  induction k with
  | zero => simp [digs, valI, valR]
  | succ k ih =>
    unfold digs at *
    rw [List.range_succ, List.map_append, valI_append, ih]
    simp [valI, valR]

theorem digs_length (f : Nat → Nat) (b k : Nat) : (digs f b k).length = k := by simp [digs]

theorem valR_congr (r : Nat) (f f' : Nat → Nat) (b k : Nat) (h : ∀ j, j < k → f' (b + j) = f (b + j)) :
    valR r f' b k = valR r f b k := by
  induction k with
  | zero => rfl
  | succ k ih =>
    simp only [valR]
    rw [ih (fun j hj => h j (by omega)), h k (by omega)]

theorem valR_lt (r : Nat) (f : Nat → Nat) (b k : Nat) (h : ∀ j, j < k → f (b + j) < r) : valR r f b k < r ^ k := by
  induction k with
  | zero => simp [valR]
  | succ k ih =>
    simp only [valR]
    have h1 := ih (fun j hj => h j (by omega))
    have h2 := h k (by omega)
    have : valR r f b k * r + r ≤ r ^ k * r := by
      have : (valR r f b k + 1) * r ≤ r ^ k * r := Nat.mul_le_mul_right r h1
      grind
    rw [Nat.pow_succ]; omega

/-- splitting off the leading digit -/
theorem valR_head (r : Nat) (f : Nat → Nat) (b k : Nat) :
    valR r f b (k + 1) = f b * r ^ k + valR r f (b + 1) k := by
  induction k with
  | zero => simp [valR]
  | succ k ih =>
    rw [valR, ih]
    simp only [valR]
    have : b + 1 + k = b + (k + 1) := by omega
    rw [this]; grind

/-- concatenation of two adjacent ranges -/
theorem valR_add (r : Nat) (f : Nat → Nat) (b k m : Nat) :
    valR r f b (k + m) = valR r f b k * r ^ m + valR r f (b + k) m := by
  induction m with
  | zero => simp [valR]
  | succ m ih =>
    rw [← Nat.add_assoc, valR, ih]
    simp only [valR]
    have : b + (k + m) = b + k + m := by omega
    rw [this]; grind

theorem valR_zero_of (r : Nat) (f : Nat → Nat) (b k : Nat) (h : ∀ j, j < k → f (b + j) = 0) : valR r f b k = 0 := by
  induction k with
  | zero => rfl
  | succ k ih => simp only [valR]; rw [ih (fun j hj => h j (by omega)), h k (by omega)]; simp

end Sfx.FmtRadixPf
