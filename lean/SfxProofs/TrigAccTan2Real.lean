import SfxProofs.TrigAccTan
/-
  TrigAccTan2Real.lean — real-analysis lemmas for the finer analysis of `tan a = sin 2a / (1 + cos 2a)`; no model definitions.
  An ANGLE-type error `Δ` of the `cos` call perturbs the denominator by `|Δ|·(|sin 2x| + |Δ|/2)` only (`cos_pert`), and
  `|tan x|·|sin 2x| ≤ 2`, so it costs `2|Δ|` in the numerator `S − t(1+C)`; a VECTOR-type error `v` costs `|t|·|v|`.
-/
namespace Sfx.TrigAccPf
open Real

theorem abs_sin_le_abs' (y : ℝ) : |sin y| ≤ |y| := by
  have := abs_sin_sub_sin_le y 0
  simpa using this

/-- `|cos (y + Δ) − cos y| ≤ |Δ|·(|sin y| + |Δ|/2)` -/
theorem cos_pert (y Δ : ℝ) : |cos (y + Δ) - cos y| ≤ |Δ| * (|sin y| + |Δ| / 2) := by
  rw [cos_sub_cos]
  have e1 : (y + Δ + y) / 2 = y + Δ / 2 := by ring
  have e2 : (y + Δ - y) / 2 = Δ / 2 := by ring
  rw [e1, e2, abs_mul, abs_mul, abs_neg, abs_two]
  have h1 : |sin (y + Δ / 2)| ≤ |sin y| + |Δ| / 2 := by
    have := abs_sin_sub_sin_le (y + Δ / 2) y
    have e : y + Δ / 2 - y = Δ / 2 := by ring
    rw [e, abs_div, abs_two] at this
    have t := abs_sub_abs_le_abs_sub (sin (y + Δ / 2)) (sin y)
    linarith
  have h2 : |sin (Δ / 2)| ≤ |Δ| / 2 := by
    have := abs_sin_le_abs' (Δ / 2)
    rwa [abs_div, abs_two] at this
  have n1 := abs_nonneg (sin (y + Δ / 2))
  have n2 := abs_nonneg (sin (Δ / 2))
  have n3 := abs_nonneg (sin y)
  have n4 := abs_nonneg Δ
  calc 2 * |sin (y + Δ / 2)| * |sin (Δ / 2)| ≤ 2 * (|sin y| + |Δ| / 2) * (|Δ| / 2) := by
        apply mul_le_mul (by linarith) h2 n2 (by positivity)
    _ = |Δ| * (|sin y| + |Δ| / 2) := by ring

/-- the quotient with separate allowances for numerator, denominator, and `|tan x|·(denominator error)` -/
theorem tan_quot2 (x S C εs εc εtc : ℝ) (hc : cos x ≠ 0) (hS : |S - sin (2 * x)| ≤ εs) (hC : |C - cos (2 * x)| ≤ εc)
    (hCt : |tan x| * |C - cos (2 * x)| ≤ εtc) (hε : εc < 1 + cos (2 * x)) :
    0 < 1 + C ∧ |S / (1 + C) - tan x| ≤ (εs + εtc) / (1 + cos (2 * x) - εc) := by
  have hC' := abs_le.1 hC
  have hden : 1 + cos (2 * x) - εc ≤ 1 + C := by linarith [hC'.1]
  have hpos : 0 < 1 + cos (2 * x) - εc := by linarith
  have hC0 : 0 < 1 + C := lt_of_lt_of_le hpos hden
  refine ⟨hC0, ?_⟩
  have hsin : sin (2 * x) = tan x * (1 + cos (2 * x)) := by
    rw [sin_two_mul, cos_two_mul, tan_eq_sin_div_cos]; field_simp; ring
  have e : S / (1 + C) - tan x = ((S - sin (2 * x)) - tan x * (C - cos (2 * x))) / (1 + C) := by
    rw [hsin]; field_simp; ring
  rw [e, abs_div, abs_of_pos hC0]
  have hnum : |(S - sin (2 * x)) - tan x * (C - cos (2 * x))| ≤ εs + εtc := by
    refine le_trans (abs_sub _ _) ?_
    rw [abs_mul]; linarith
  have hn0 : 0 ≤ εs + εtc := le_trans (abs_nonneg _) hnum
  exact div_le_div₀ hn0 hnum hpos hden

/-- `|tan x|·|sin 2x| ≤ 2` and `|sin 2x|·(1 + tan² x) = 2|tan x|` -/
theorem tan_mul_sin_two (x : ℝ) (hc : cos x ≠ 0) :
    |tan x| * |sin (2 * x)| ≤ 2 ∧ |sin (2 * x)| * (1 + tan x ^ 2) = 2 * |tan x| := by
  have hm := one_add_cos_two x hc
  have hm0 : 0 ≤ 1 + cos (2 * x) := by have := neg_one_le_cos (2 * x); linarith
  have hsin : sin (2 * x) = tan x * (1 + cos (2 * x)) := by
    rw [sin_two_mul, cos_two_mul, tan_eq_sin_div_cos]; field_simp; ring
  have habs : |sin (2 * x)| = |tan x| * (1 + cos (2 * x)) := by rw [hsin, abs_mul, abs_of_nonneg hm0]
  have ht2 : |tan x| * |tan x| = tan x ^ 2 := by rw [← abs_mul, ← sq, abs_of_nonneg (sq_nonneg _)]
  constructor
  · rw [habs]
    have : |tan x| * (|tan x| * (1 + cos (2 * x))) = tan x ^ 2 * (1 + cos (2 * x)) := by rw [← mul_assoc, ht2]
    rw [this]; nlinarith [sq_nonneg (tan x)]
  · rw [habs]
    have : |tan x| * (1 + cos (2 * x)) * (1 + tan x ^ 2) = |tan x| * ((1 + cos (2 * x)) * (1 + tan x ^ 2)) := by ring
    rw [this, hm]; ring

/-- from the quotient bound to the C16 allowance `(1 + tan² x) / 2^14`, `u` = one ulp for the truncating division -/
theorem tan_final (m t2 εn εc u : ℝ) (hm : m * (1 + t2) = 2) (hm2 : m ≤ 2) (hu : 0 ≤ u) (hεc : 0 ≤ εc) (hpos : εc < m)
    (h : εn + 2 * u ≤ (2 - εc * (1 + t2)) / 2 ^ 14) :
    εn / (m - εc) + u ≤ (1 + t2) / 2 ^ 14 := by
  have hp : 0 < m - εc := by linarith
  rw [div_add' _ _ _ hp.ne', div_le_iff₀ hp]
  have r1 : (1 + t2) / 2 ^ 14 * (m - εc) = (2 - εc * (1 + t2)) / 2 ^ 14 := by
    have : (1 + t2) / 2 ^ 14 * (m - εc) = (m * (1 + t2) - εc * (1 + t2)) / 2 ^ 14 := by ring
    rw [this, hm]
  rw [r1]
  have : u * (m - εc) ≤ u * 2 := mul_le_mul_of_nonneg_left (by linarith) hu
  linarith

/-- range reduction as an ANGLE perturbation: whatever angle `α` the CORDIC part really rotated by, `sin α = sin (x + Δ)` with
`|Δ| ≤ 18.55 ulp₂₃ + |α − x2|` -/
theorem reduce_struct (x x1 x2 α : ℝ) (q : ℤ) (hq : |(q : ℝ)| ≤ 32) (h1 : x1 = x + q * T23)
    (h2 : x2 = x1 ∨ x2 = 2 * H23 - x1 ∨ x2 = -(2 * H23) - x1) :
    ∃ Δ : ℝ, sin α = sin (x + Δ) ∧ |Δ| ≤ (32 * (54 / 100) + 127 / 100) / 8388608 + |α - x2| := by
  have hT := two_pi_23
  have hH := half_pi_23
  have hqT : |(q : ℝ) * (T23 - 2 * π)| ≤ 32 * (54 / 100) / 8388608 := by
    rw [abs_mul]; unfold T23
    have := mul_le_mul hq hT (abs_nonneg _) (by norm_num)
    linarith
  have hH' : |2 * H23 - π| ≤ 127 / 100 / 8388608 := by unfold H23; exact hH
  rcases h2 with h | h | h
  · refine ⟨α - x - q * (2 * π), ?_, ?_⟩
    · have : x + (α - x - q * (2 * π)) = α - q * (2 * π) := by ring
      rw [this, sin_sub_int_mul_two_pi]
    · have : α - x - q * (2 * π) = (α - x2) + q * (T23 - 2 * π) := by rw [h, h1]; ring
      rw [this]
      refine le_trans (abs_add_le _ _) ?_
      have := abs_nonneg (2 * H23 - π)
      linarith
  · refine ⟨π - α - x - q * (2 * π), ?_, ?_⟩
    · have : x + (π - α - x - q * (2 * π)) = (π - α) - q * (2 * π) := by ring
      rw [this, sin_sub_int_mul_two_pi, sin_pi_sub]
    · have : π - α - x - q * (2 * π) = -(α - x2) + (-(2 * H23 - π) + q * (T23 - 2 * π)) := by rw [h, h1]; ring
      rw [this]
      refine le_trans (abs_add_le _ _) ?_
      rw [abs_neg]
      have := abs_add_le (-(2 * H23 - π)) (q * (T23 - 2 * π))
      rw [abs_neg] at this
      linarith
  · refine ⟨-π - α - x - q * (2 * π), ?_, ?_⟩
    · have : x + (-π - α - x - q * (2 * π)) = (-π - α) - q * (2 * π) := by ring
      rw [this, sin_sub_int_mul_two_pi]
      have : -π - α = -(α + π) := by ring
      rw [this, sin_neg, sin_add_pi, neg_neg]
    · have : -π - α - x - q * (2 * π) = -(α - x2) + ((2 * H23 - π) + q * (T23 - 2 * π)) := by rw [h, h1]; ring
      rw [this]
      refine le_trans (abs_add_le _ _) ?_
      rw [abs_neg]
      have := abs_add_le (2 * H23 - π) (q * (T23 - 2 * π))
      linarith

end Sfx.TrigAccPf
